(* Proofs/C12_sdata.v — SECTIONDATA copies after relocation (fixes/C12-3): with update_section_copies
   every load copy `_$x_` ends up with the final (relocated) bytes of its source section x. *)
From PV Require Import Lib.Py Lib.Tac Spec.LinkSpec Model.Linker Proofs.C12_linker.
From Coq Require Import String.
Open Scope Z_scope.
Arguments sd_name : simpl never.

Lemma find_in_names n secs : find_sect n secs <> None <-> In n (map s_name secs).
Proof.
  induction secs as [|s r IH]; cbn; [tauto|].
  destruct (String.eqb (s_name s) n) eqn:E.
  - apply String.eqb_eq in E. split; [auto | discriminate].
  - apply String.eqb_neq in E. rewrite IH. split; [auto | intros [?|?]; [congruence | assumption]].
Qed.

Lemma set_sect_names s' l : map s_name (set_sect s' l) = map s_name l.
Proof.
  induction l as [|s r IH]; cbn; [reflexivity|].
  destruct (String.eqb (s_name s) (s_name s')) eqn:E; cbn; [|now rewrite IH].
  apply String.eqb_eq in E. now rewrite E.
Qed.

(* creation order: a copy is neither a copy nor a source of an earlier pair... read from the head:
   later pairs never write the copy or the source of an earlier pair *)
Fixpoint good (pairs : list (string * string)) : Prop :=
  match pairs with
  | [] => True
  | (c, n) :: r => ~ In c (map fst r) /\ ~ In n (map fst r) /\ good r
  end.

Lemma good_snoc pairs c n :
  good pairs -> (forall c' n', In (c', n') pairs -> c' <> c /\ n' <> c) -> good (pairs ++ [(c, n)]).
Proof.
  induction pairs as [|[c0 n0] r IH]; cbn; intros G H; [tauto|].
  destruct G as [G1 [G2 G3]]. destruct (H c0 n0 (or_introl eq_refl)) as [H1 H2].
  rewrite map_app, !in_app_iff. cbn. split; [intros [?|[?|[]]]; [tauto | congruence]|].
  split; [intros [?|[?|[]]]; [tauto | congruence]|]. apply IH; auto.
Qed.

Lemma refresh_names pairs : forall secs, map s_name (refresh_copies pairs secs) = map s_name secs.
Proof.
  induction pairs as [|[c n] r IH]; intros secs; cbn [refresh_copies]; [reflexivity|].
  rewrite IH. destruct (find_sect c secs); [|reflexivity]. destruct (find_sect n secs); [|reflexivity].
  apply set_sect_names.
Qed.

Lemma refresh_other pairs : forall secs x,
  ~ In x (map fst pairs) -> find_sect x (refresh_copies pairs secs) = find_sect x secs.
Proof.
  induction pairs as [|[c n] r IH]; intros secs x Hx; cbn [refresh_copies]; [reflexivity|].
  cbn in Hx. rewrite IH by tauto.
  destruct (find_sect c secs) as [cs|] eqn:Fc; [|reflexivity]. destruct (find_sect n secs); [|reflexivity].
  apply find_set_other. cbn. apply find_sect_name in Fc. rewrite Fc. intros ->. apply Hx. now left.
Qed.

Lemma refresh_spec pairs : forall secs,
  good pairs ->
  (forall c n, In (c, n) pairs -> find_sect c secs <> None /\ find_sect n secs <> None) ->
  forall c n, In (c, n) pairs ->
    exists cs ns, find_sect c (refresh_copies pairs secs) = Some cs /\
                  find_sect n (refresh_copies pairs secs) = Some ns /\ s_data cs = s_data ns.
Proof.
  induction pairs as [|[c0 n0] r IH]; intros secs G Ex c n Hin; [destruct Hin|].
  cbn [refresh_copies]. destruct G as [G1 [G2 G3]].
  destruct (Ex c0 n0 (or_introl eq_refl)) as [E1 E2].
  destruct (find_sect c0 secs) as [cs0|] eqn:Fc; [|congruence].
  destruct (find_sect n0 secs) as [ss0|] eqn:Fn; [|congruence].
  set (cs' := mkSect (s_name cs0) (s_addr cs0) (s_align cs0) (s_data ss0)).
  assert (Nc : s_name cs' = c0) by (cbn; eapply find_sect_name; eassumption).
  assert (F1 : find_sect c0 (set_sect cs' secs) = Some cs') by (eapply find_set_same; eassumption).
  destruct Hin as [E|Hin].
  - injection E as <- <-. rewrite !refresh_other by assumption. rewrite F1.
    destruct (String.eqb n0 c0) eqn:En.
    + apply String.eqb_eq in En. subst n0. rewrite F1. eauto.
    + apply String.eqb_neq in En. rewrite find_set_other by (rewrite Nc; assumption). rewrite Fn.
      exists cs', ss0. auto.
  - apply IH; [assumption| |assumption]. intros c1 n1 H1.
    destruct (Ex c1 n1 (or_intror H1)) as [X1 X2].
    rewrite !find_in_names, set_sect_names, <- !find_in_names. auto.
Qed.

Section WithCfg.
Variable cfg : lcfg.

(* the recorded pairs are in good order and name existing sections *)
Definition QInv (d : obj) (pairs : list (string * string)) : Prop :=
  good pairs /\
  forall c n, In (c, n) pairs -> find_sect c (o_sects d) <> None /\ find_sect n (o_sects d) <> None.

Lemma layout_input_QInv d cur names i d' cur' names' pairs :
  ids_ok (o_syms d) -> layout_input cfg (d, cur, names) i = Ok (d', cur', names') ->
  QInv d pairs -> QInv d' (pairs ++ input_pair i).
Proof.
  intros Hids H [G Ex].
  destruct (layout_input_step cfg 0 _ _ _ _ _ _ _ Hids H) as [_ [_ [_ [[Gr _] _]]]].
  assert (Ex' : forall c n, In (c, n) pairs ->
            find_sect c (o_sects d') <> None /\ find_sect n (o_sects d') <> None).
  { intros c n Hin. destruct (Ex c n Hin). split; eapply sec_grows_exists; eauto. }
  destruct i as [m|m|m|a]; cbn [input_pair]; try (rewrite app_nil_r; split; assumption).
  pose proof (layout_input_new cfg _ _ _ _ _ _ _ H (sd_name m) (or_introl eq_refl)) as [New _].
  cbn [layout_input] in H.
  destruct (find_sect (sd_name m) (o_sects d)) eqn:E1; [discriminate|].
  destruct (find_sect m (o_sects d)) as [src|] eqn:E2; [|discriminate].
  split.
  - apply good_snoc; [assumption|]. intros c' n' Hin. destruct (Ex c' n' Hin). split; congruence.
  - intros c n Hin. apply in_app_iff in Hin. destruct Hin as [Hin|[E|[]]]; [auto|].
    injection E as <- <-. split; [assumption|]. eapply sec_grows_exists; [exact Gr | congruence].
Qed.

Lemma layout_inputs_QInv l : forall d cur names d' cur' names' pairs,
  ids_ok (o_syms d) -> layout_inputs cfg (d, cur, names) l = Ok (d', cur', names') ->
  QInv d pairs -> QInv d' (pairs ++ flat_map input_pair l).
Proof.
  induction l as [|i r IH]; intros d cur names d' cur' names' pairs Hids H Q; cbn [layout_inputs] in H.
  - injection H as <- <- <-. cbn. now rewrite app_nil_r.
  - inv_bind H. destruct a as [[d1 cur1] names1].
    destruct (layout_input_step cfg 0 _ _ _ _ _ _ _ Hids Ha) as [_ [_ [_ [_ [_ [I1 _]]]]]].
    cbn [flat_map]. rewrite app_assoc. apply (IH _ _ _ _ _ _ _ I1 H).
    exact (layout_input_QInv _ _ _ _ _ _ _ _ Hids Ha Q).
Qed.

Lemma layout_sections_QInv mems : forall d d' pairs,
  ids_ok (o_syms d) -> layout_sections cfg d mems = Ok d' ->
  QInv d pairs -> QInv d' (pairs ++ sd_pairs mems).
Proof.
  induction mems as [|m r IH]; intros d d' pairs Hids H Q; cbn [layout_sections] in H.
  - injection H as <-. cbn. now rewrite app_nil_r.
  - inv_bind H. destruct (layout_memory_grows cfg _ _ _ Hids Ha) as [_ [_ [I1 _]]].
    unfold sd_pairs. cbn [flat_map]. fold (sd_pairs r). rewrite app_assoc. apply (IH _ _ _ I1 H).
    unfold layout_memory in Ha. inv_bind Ha. destruct a0 as [[d1 cur] names]. inv_bind Ha.
    destruct (len a0 >? m_size m); [discriminate|]. injection Ha as <-.
    destruct (layout_inputs_QInv _ _ _ _ _ _ _ _ Hids Ha0 Q) as [G Ex]. split; [exact G | exact Ex].
Qed.

Variable relocate : list sect -> result (list sect).
Hypothesis relocate_names : forall secs secs', relocate secs = Ok secs' -> map s_name secs' = map s_name secs.

(* with the fix: every load copy holds the final bytes of its source section; when the source is not
   itself a generated copy these are exactly the bytes relocate produced for it *)
Theorem sectiondata_relocated objs l entry extra out m n :
  link_final cfg true relocate objs (Some l) entry extra = Ok out ->
  In m (l_mems l) -> In (ISectionData n) (m_inputs m) ->
  exists d secs_r c s,
    link cfg objs (Some l) false entry extra = Ok d /\ relocate (o_sects d) = Ok secs_r /\
    find_sect (sd_name n) (o_sects out) = Some c /\ find_sect n (o_sects out) = Some s /\
    s_data c = s_data s /\
    (~ In n (map fst (sd_pairs (l_mems l))) -> find_sect n secs_r = Some s).
Proof.
  intros H Hm Hi. unfold link_final in H. inv_bind H. rename a into d. inv_bind H. rename a into secs_r.
  injection H as <-. cbn [with_sects o_sects].
  unfold link in Ha. inv_bind Ha. destruct a as [d0 ts]. injection Ha as <-. cbn [fst] in *.
  destruct (link_trace_inv cfg _ _ _ _ _ _ _ Ha1) as [d1 [Hid [_ [_ C]]]].
  destruct C as [[? _]|[_ [_ L]]]; [discriminate|].
  assert (Q0 : QInv d1 []) by (split; [exact Logic.I | intros c x []]).
  destruct (layout_sections_QInv _ _ _ _ Hid L Q0) as [G Ex]. cbn [app] in G, Ex.
  assert (Hp : In (sd_name n, n) (sd_pairs (l_mems l))).
  { unfold sd_pairs. apply in_flat_map. exists m. split; [assumption|]. apply in_flat_map.
    exists (ISectionData n). split; [assumption | now left]. }
  assert (Ex' : forall c x, In (c, x) (sd_pairs (l_mems l)) ->
            find_sect c secs_r <> None /\ find_sect x secs_r <> None).
  { intros c x Hin. destruct (Ex c x Hin). rewrite !find_in_names, (relocate_names _ _ Ha0), <- !find_in_names. auto. }
  destruct (refresh_spec _ secs_r G Ex' _ _ Hp) as [cs [ns [F1 [F2 Dt]]]].
  exists d0, secs_r, cs, ns. split; [unfold link; now rewrite Ha1|]. split; [assumption|].
  split; [assumption|]. split; [assumption|]. split; [assumption|].
  intros Hn. now rewrite refresh_other in F2 by assumption.
Qed.

End WithCfg.

(* code as found (fix_sd = false): the copy keeps the bytes it had at layout time *)
Definition w_sd_obj : obj :=
  mkObj [mkSect "code" 0 4 [1; 2; 3; 4]; mkSect "data" 0 4 [0; 0; 0; 0]]
        [mkSym 0 "main" "global" (Some 0) (Some "code"%string) "func" 0] [] [] None.
Definition w_sd_layout : layout :=
  mkLayout [mkMem "flash" 32768 4096 [ISection "code"; ISectionData "data"];
            mkMem "ram" 536870912 4096 [ISection "data"]] None.

Lemma sectiondata_stale_refuted :
  exists out c s,
    link_final (mk_lcfg true true) false bump_sections [w_sd_obj] (Some w_sd_layout) None [] = Ok out /\
    find_sect (sd_name "data") (o_sects out) = Some c /\ find_sect "data" (o_sects out) = Some s /\
    s_data c = [0; 0; 0; 0] /\ s_data s = [1; 1; 1; 1].
Proof. do 3 eexists. vm_compute. repeat split; reflexivity. Qed.

Lemma sectiondata_fixed_witness :
  exists out c s,
    link_final (mk_lcfg true true) true bump_sections [w_sd_obj] (Some w_sd_layout) None [] = Ok out /\
    find_sect (sd_name "data") (o_sects out) = Some c /\ find_sect "data" (o_sects out) = Some s /\
    s_data c = [1; 1; 1; 1] /\ s_data s = [1; 1; 1; 1].
Proof. do 3 eexists. vm_compute. repeat split; reflexivity. Qed.

Lemma bump_sections_names secs secs' : bump_sections secs = Ok secs' -> map s_name secs' = map s_name secs.
Proof.
  unfold bump_sections. intros H. injection H as <-. rewrite map_map. apply map_ext.
  intros s. destruct (is_generated (s_name s)); reflexivity.
Qed.
