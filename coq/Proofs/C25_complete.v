(* Proofs/C25_complete.v — existence of immediate dominators and completeness of the certificate
   checker: the true idom map is always accepted (no false alarm), for every graph. *)
From Coq Require Import List Arith Bool Lia.
From PV Require Import Spec.CfgSpec Model.DomRef Proofs.C25_ref Proofs.C25_cert.
Import ListNotations.

Lemma path_split_at g : forall l1 u d l2 w,
  path g u (l1 ++ d :: l2) w -> path g u (l1 ++ [d]) d /\ path g d (d :: l2) w.
Proof.
  induction l1 as [|a l1 IH]; intros u d l2 w Hp; simpl in *.
  - destruct (path_head _ _ _ _ Hp) as [l' E]. inversion E; subst. split; auto. constructor.
  - inversion Hp; subst.
    + destruct l1; discriminate.
    + destruct (IH _ _ _ _ H4) as [P1 P2]. split; auto. eapply path_step; eauto.
Qed.

Lemma last_split (P : nat -> bool) : forall l, existsb P l = true ->
  exists l1 d l2, l = l1 ++ d :: l2 /\ P d = true /\ forallb (fun x => negb (P x)) l2 = true.
Proof.
  induction l as [|a r IH]; simpl; intros H; [discriminate|].
  destruct (existsb P r) eqn:Er.
  - destruct (IH eq_refl) as [l1 [d [l2 [-> [Hd Hl]]]]]. exists (a :: l1), d, l2. auto.
  - rewrite orb_false_r in H. exists [], a, r. repeat split; auto.
    apply forallb_forall. intros x Hx. apply negb_true_iff.
    destruct (P x) eqn:Ex; auto.
    assert (existsb P r = true) by (apply existsb_exists; eauto). congruence.
Qed.

Lemma dom_trans g e a b c : dominates g e a b -> dominates g e b c -> dominates g e a c.
Proof.
  intros Hab Hbc l Hp.
  destruct (path_split _ _ _ _ _ Hp (Hbc l Hp)) as [l1 [l2 [-> [P1 _]]]].
  apply in_or_app. left. auto.
Qed.

(* every reachable node other than the entry has an immediate dominator *)
Theorem idom_exists g e w : reachable g e w -> w <> e -> exists d, is_idom g e d w.
Proof.
  intros [l Hp] Hne.
  set (P := fun x => dom_ref g e x w && negb (x =? w)).
  assert (HP : forall x, P x = true <-> sdominates g e x w).
  { intros x. unfold P, sdominates. rewrite andb_true_iff, dom_ref_correct, negb_true_iff, Nat.eqb_neq. tauto. }
  assert (Hex : existsb P l = true).
  { apply existsb_exists. exists e. split.
    - destruct (path_head _ _ _ _ Hp) as [l' ->]. simpl; auto.
    - apply HP. split; [apply dominates_entry|congruence]. }
  destruct (last_split P l Hex) as [l1 [d [l2 [-> [Hd Hl2]]]]].
  destruct (path_split_at _ _ _ _ _ _ Hp) as [_ P2].
  exists d. split; [now apply HP|].
  intros d' Hd'.
  destruct (Nat.eq_dec d' d) as [->|Hdd]; [apply dominates_self|].
  destruct (dom_ref g e d' d) eqn:Ed; [now apply dom_ref_correct|]. exfalso.
  unfold dom_ref in Ed. apply negb_false_iff, mem_In, reach_set_spec in Ed.
  destruct Ed as [q [Pq Hq]]. apply avoid_ok in Hq.
  pose proof (path_app _ _ _ _ _ _ Pq P2) as Pw.
  pose proof (proj1 Hd' _ Pw) as Hdom.
  apply in_app_or in Hdom. destruct Hdom as [|Hin]; [contradiction|].
  rewrite forallb_forall in Hl2. specialize (Hl2 _ Hin). apply negb_true_iff in Hl2.
  assert (P d' = true) by (now apply HP). congruence.
Qed.

Theorem idom_list_complete g e w d :
  reachable g e w -> w <> e -> is_idom g e d w -> nth w (idom_list g e) None = Some d.
Proof.
  intros Hr Hne Hid. unfold idom_list.
  rewrite nth_map_seq by (eapply reachable_node_bound; eauto).
  apply idom_of_complete; auto.
  - intros. rewrite dom_tab_ref by auto. apply dom_ref_correct.
  - apply reachable_ref_correct.
Qed.

Theorem idom_list_total g e w :
  reachable g e w -> w <> e -> exists d, nth w (idom_list g e) None = Some d /\ is_idom g e d w.
Proof.
  intros Hr Hne. destruct (idom_exists g e w Hr Hne) as [d Hd].
  exists d. split; auto. now apply idom_list_complete.
Qed.

Lemma idom_list_facts g e w p : nth w (idom_list g e) None = Some p ->
  w < length g /\ p < length g /\ is_idom g e p w /\ reachable g e w /\ w <> e.
Proof.
  intros H. pose proof (idom_list_sound _ _ _ _ H) as Hid.
  unfold idom_list in H. destruct (Nat.lt_ge_cases w (length g)) as [Hlt|Hge].
  - rewrite nth_map_seq in H by auto. unfold idom_of in H.
    destruct (mem w (reach_from g e) && negb (w =? e)) eqn:Ec; [|discriminate].
    apply andb_true_iff in Ec. destruct Ec as [E1 E2].
    apply find_some in H. destruct H as [Hin _]. apply in_seq in Hin.
    repeat split; auto; try lia; try apply Hid.
    + now apply reachable_ref_correct.
    + now apply Nat.eqb_neq, negb_true_iff.
  - rewrite nth_overflow in H; [discriminate|]. now rewrite map_length, seq_length.
Qed.

(* ---- number of strict dominators: strictly decreases along the idom chain *)
Definition sdcnt g e w : nat :=
  length (filter (fun d => dom_ref g e d w && negb (d =? w)) (seq 0 (length g))).

Lemma sdcnt_le g e w : sdcnt g e w <= length g.
Proof.
  unfold sdcnt. etransitivity; [apply filter_len_le|]. now rewrite seq_length.
Qed.

Lemma sdcnt_lt g e p w : p < length g -> reachable g e w -> is_idom g e p w ->
  sdcnt g e p < sdcnt g e w.
Proof.
  intros Hp Hr [[Hdom Hne] Hmax]. unfold sdcnt. apply filter_len_lt.
  - intros d Hd. apply andb_true_iff in Hd. destruct Hd as [D1 D2].
    apply dom_ref_correct in D1. apply negb_true_iff, Nat.eqb_neq in D2.
    apply andb_true_iff. split.
    + apply dom_ref_correct. eapply dom_trans; eauto.
    + apply negb_true_iff, Nat.eqb_neq. intros ->. apply Hne.
      apply (dom_antisym g e p w); auto.
  - exists p. split; [apply in_seq; lia|]. split.
    + rewrite Nat.eqb_refl. simpl. apply andb_false_r.
    + apply andb_true_iff. split; [now apply dom_ref_correct|].
      now apply negb_true_iff, Nat.eqb_neq.
Qed.

Lemma anc_b_complete g e : forall fuel w a,
  sdcnt g e w <= fuel -> anc (idom_list g e) a w -> anc_b fuel (idom_list g e) a w = true.
Proof.
  induction fuel; intros w a Hc Ha.
  - inversion Ha; subst; simpl.
    + now rewrite Nat.eqb_refl.
    + exfalso. unfold pget in H. destruct (idom_list_facts _ _ _ _ H) as [_ [Hp [Hid [Hr _]]]].
      pose proof (sdcnt_lt g e p w Hp Hr Hid). lia.
  - inversion Ha; subst; simpl.
    + now rewrite Nat.eqb_refl.
    + rewrite H. unfold pget in H. destruct (idom_list_facts _ _ _ _ H) as [_ [Hp [Hid [Hr _]]]].
      pose proof (sdcnt_lt g e p w Hp Hr Hid).
      rewrite IHfuel; auto; [apply orb_true_r|lia].
Qed.

Lemma idom_list_entry g e : pget (idom_list g e) e = None.
Proof.
  unfold pget. destruct (nth e (idom_list g e) None) eqn:E; auto.
  apply idom_list_facts in E. tauto.
Qed.

Lemma in_tree_reachable g e u : in_tree (idom_list g e) e u = true -> reachable g e u.
Proof.
  unfold in_tree. intros H. apply orb_true_iff in H. destruct H as [H|H].
  - apply Nat.eqb_eq in H. subst. exists [e]. constructor.
  - unfold pget in H. destruct (nth u (idom_list g e) None) eqn:E; [|discriminate].
    apply idom_list_facts in E. tauto.
Qed.

Theorem check_parent_complete g e : check_parent g e (idom_list g e) = true.
Proof.
  unfold check_parent. rewrite idom_list_entry. simpl.
  apply forallb_forall. intros u Hu.
  destruct (in_tree (idom_list g e) e u) eqn:Et; auto. simpl.
  pose proof (in_tree_reachable _ _ _ Et) as Hr.
  apply forallb_forall. intros v Hv. apply succs_edge in Hv.
  assert (Hrv : reachable g e v).
  { destruct Hr as [l Hp]. exists (l ++ [v]). eapply path_snoc; eauto. }
  destruct (Nat.eq_dec v e) as [->|Hne].
  - unfold in_tree. rewrite Nat.eqb_refl. reflexivity.
  - destruct (idom_list_total g e v Hrv Hne) as [p [Ep Hid]].
    unfold in_tree, pget. rewrite Ep. rewrite orb_true_r. simpl.
    apply orb_true_iff. right.
    apply anc_b_complete; [apply sdcnt_le|].
    destruct Hr as [l Hp].
    apply (tree_anc_complete g e (idom_list g e)) with (k := length l) (l := l); auto.
    + intros w Hw Hwe. destruct (idom_list_total g e w Hw Hwe) as [d [Ed Hd]]. exists d. auto.
    + (* idom v dominates every predecessor u of v *)
      intros q Hq. destruct Hid as [[Hdom Hpv] _].
      specialize (Hdom (q ++ [v]) (path_snoc _ _ _ _ _ Hq Hv)).
      apply in_app_or in Hdom. destruct Hdom as [|[E|[]]]; auto. congruence.
Qed.

Lemma opt_eqb_refl a : opt_eqb a a = true.
Proof. destruct a; simpl; auto. apply Nat.eqb_refl. Qed.

(* the checker never rejects the true immediate-dominator map *)
Theorem check_idom_complete g e : check_idom g e (idom_list g e) = true.
Proof.
  unfold check_idom. cbv zeta. rewrite check_parent_complete. simpl.
  apply forallb_forall. intros w _. apply opt_eqb_refl.
Qed.

(* accepted maps are exactly the maps that agree with the definition on the nodes of the graph *)
Theorem check_idom_iff_exact g e t : check_idom g e t = true ->
  forall w, w < length g -> pget t w = nth w (idom_list g e) None.
Proof.
  unfold check_idom. cbv zeta. rewrite andb_true_iff. intros [_ H] w Hw.
  rewrite forallb_forall in H. specialize (H w (proj2 (in_seq _ _ _) (conj (Nat.le_0_l _) Hw))).
  destruct (pget t w), (nth w (idom_list g e) None); simpl in H; try discriminate; auto.
  apply Nat.eqb_eq in H. now subst.
Qed.
