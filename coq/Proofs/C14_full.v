(* Proofs/C14_full.v — round trip of objects and archives WITH debug information (property C14). *)
From PV Require Import Lib.Py Lib.Tac Lib.Val Lib.Json Gen.objarch Model.ObjectFile Model.DebugInfo
  Model.ObjectFileFull Proofs.C14_objfile Proofs.C14_debug.
From Coq Require Import String Ascii.
Open Scope string_scope.
Open Scope Z_scope.

(* the non-debug part is read back whatever sits under the "debug" key *)
Lemma deserialize_core_full o dbg :
  wf_obj o ->
  let data := JObj ([("sections", JList (map ser_section (obj_sections o)));
                     ("symbols", JList (map ser_symbol (obj_symbols o)));
                     ("relocations", JList (map ser_reloc (obj_relocations o)));
                     ("images", JList (map ser_image (obj_images o)))]
                    ++ match dbg with Some j => [("debug", j)] | None => [] end
                    ++ [("arch", JStr (obj_arch o))]
                    ++ match obj_entry o with Some e => [("entry_symbol_id", JNum e)] | None => [] end)%list in
  deserialize_core data = Ok o
  /\ jhas "debug" data = (match dbg with Some _ => true | None => false end)
  /\ (forall j, dbg = Some j -> jget "debug" data = Ok j).
Proof.
  destruct o as [arch secs syms rels imgs entry]. unfold wf_obj, wf_objb.
  cbn [obj_arch obj_sections obj_symbols obj_relocations obj_images obj_entry].
  intros H. repeat (apply andb_true_iff in H; destruct H as [H ?]).
  rename H into Harch, H0 into Himg, H1 into Hrel, H2 into Hnm, H3 into Hid, H4 into Hsym,
         H5 into Hsecn, H6 into Hsec.
  assert (Esec : mapM des_section (map ser_section secs) = Ok secs).
  { apply mapM_map_id. intros s Hs. apply des_ser_section.
    rewrite forallb_forall in Hsec. now apply Hsec. }
  assert (Erel : mapM (des_reloc (map sec_name secs)) (map ser_reloc rels) = Ok rels).
  { apply mapM_map_id. intros r Hr. apply des_ser_reloc.
    rewrite forallb_forall in Hrel. now apply Hrel. }
  assert (Eimg : mapM (des_image (map sec_name secs)) (map ser_image imgs) = Ok imgs).
  { apply mapM_map_id. intros i Hi. apply des_ser_image.
    rewrite forallb_forall in Himg. now apply Himg. }
  assert (Esym : des_symbols [] (map ser_symbol syms) = Ok syms).
  { apply (des_symbols_ok syms []); cbn [app].
    - assumption.
    - apply (nodupb_NoDup Z.eqb); [apply Z.eqb_eq | assumption].
    - apply (nodupb_NoDup String.eqb); [apply String.eqb_eq | assumption]. }
  unfold deserialize_core.
  destruct dbg as [j|]; destruct entry as [e|];
    cbn [app jhas jget jlookup String.eqb Ascii.eqb Bool.eqb bind as_str as_list as_opt_int get_arch];
    rewrite Harch; cbn [bind]; rewrite Esec; cbn [bind]; rewrite Erel; cbn [bind];
    rewrite Esym; cbn [bind]; rewrite Eimg;
    (split; [reflexivity | split; [reflexivity | intros j' E; congruence]]).
Qed.

Lemma full_roundtrip_with dd x :
  wf_full x ->
  (forall d, of_debug x = Some d -> dd (dbg_serialize d) = Ok d) ->
  deserialize_full_with dd (serialize_full x) = Ok x.
Proof.
  destruct x as [o dbg]. unfold wf_full, wf_fullb. cbn [of_obj of_debug]. intros H Hd.
  apply andb_true_iff in H. destruct H as [Ho Hdbg].
  unfold deserialize_full_with, serialize_full. cbn [of_obj of_debug].
  destruct (deserialize_core_full o (option_map dbg_serialize dbg) Ho) as [E1 [E2 E3]].
  destruct dbg as [d|]; cbn [option_map] in E1, E2, E3.
  - rewrite E1. cbn [bind]. rewrite E2. rewrite (E3 _ eq_refl). cbn [bind].
    rewrite (Hd d eq_refl). reflexivity.
  - rewrite E1. cbn [bind]. rewrite E2. reflexivity.
Qed.

Lemma full_roundtrip x : wf_full x -> deserialize_full (serialize_full x) = Ok x.
Proof.
  intros H. apply full_roundtrip_with; [assumption|].
  intros d E. apply dbg_roundtrip.
  unfold wf_full, wf_fullb in H. rewrite E in H. apply andb_true_iff in H. apply H.
Qed.

Lemma full_roundtrip_v1 x :
  wf_full x -> (forall d, of_debug x = Some d -> v1_loadable d = true) ->
  deserialize_full_v1 (serialize_full x) = Ok x.
Proof.
  intros H L. apply full_roundtrip_with; [assumption|].
  intros d E. apply dbg_roundtrip_v1; [|now apply L].
  unfold wf_full, wf_fullb in H. rewrite E in H. apply andb_true_iff in H. apply H.
Qed.

Lemma archive_full_roundtrip objs :
  Forall wf_full objs -> archive_load_full (archive_save_full objs) = Ok objs.
Proof.
  intros H. unfold archive_load_full, archive_save_full.
  cbn [jget jlookup String.eqb Ascii.eqb Bool.eqb bind as_list].
  apply mapM_map_id. intros o Ho. apply full_roundtrip.
  rewrite Forall_forall in H. now apply H.
Qed.

(* an object without debug info is serialized exactly as by Model.ObjectFile.serialize *)
Lemma serialize_full_none o : serialize_full (mkFull o None) = serialize o.
Proof. reflexivity. Qed.

Lemma full_serialize_injective x y :
  wf_full x -> wf_full y -> serialize_full x = serialize_full y -> x = y.
Proof.
  intros Hx Hy E. apply full_roundtrip in Hx. apply full_roundtrip in Hy.
  rewrite E in Hx. congruence.
Qed.
