(* Proofs/C27_enum.v — CContext._calculate_enum_values (Model/CEnum.v) gives every enumeration constant its
   C11 6.7.2.2 value (Spec/CEnumSpec.v) and diagnoses exactly the values that are not representable as int. *)
From PV Require Import Lib.Py Lib.Tac Spec.CIntSpec Spec.CEnumSpec Gen.ceval Model.CEval Model.CSema Model.CEnum
  Proofs.C27_ceval.
Open Scope Z_scope.

Definition enum_outcome_ok (spec : option (option (list Z))) (got : result (list Z)) : Prop :=
  match spec with
  | None => True
  | Some None => exists d, got = Diag d
  | Some (Some vs) => got = Ok vs
  end.

Lemma int_range_check c v : wf_ctx c ->
  negb ((- Z.shiftl 1 (8 * int_size c - 1) <=? v) && (v <? Z.shiftl 1 (8 * int_size c - 1)))
  = negb (in_range (dm_of c) TInt v).
Proof.
  intros (W & _). f_equal. unfold in_range, tmin, tmax, dm_of.
  cbn [bits bits_int is_signed]. rewrite Z.shiftl_1_l.
  set (P := 2 ^ (8 * int_size c - 1)).
  destruct (- P <=? v) eqn:A; cbn [andb]; [|reflexivity].
  destruct (v <? P) eqn:B; destruct (v <=? P - 1) eqn:C; try reflexivity; lia.
Qed.

Lemma enum_values_from_exact c : wf_ctx c -> forall l next,
  enum_outcome_ok (enum_spec (dm_of c) next l)
                  (enum_values_from c next (map (option_map (elab c)) l)).
Proof.
  intros W. induction l as [|d r IH]; intros next; cbn [enum_spec map enum_values_from].
  - reflexivity.
  - assert (K : forall v,
      enum_outcome_ok
        (if in_range (dm_of c) TInt v
         then match enum_spec (dm_of c) (v + 1) r with Some (Some vs) => Some (Some (v :: vs)) | other => other end
         else Some None)
        (if negb ((- Z.shiftl 1 (8 * int_size c - 1) <=? v) && (v <? Z.shiftl 1 (8 * int_size c - 1)))
         then Diag 27
         else vs <- enum_values_from c (v + 1) (map (option_map (elab c)) r) ;; Ok (v :: vs))).
    { intros v. rewrite (int_range_check c v W).
      destruct (in_range (dm_of c) TInt v); cbn [negb].
      - specialize (IH (v + 1)).
        destruct (enum_spec (dm_of c) (v + 1) r) as [[vs|]|]; cbn [enum_outcome_ok] in *.
        + rewrite IH. reflexivity.
        + destruct IH as [x ->]. exists x. reflexivity.
        + exact I.
      - cbn. eexists. reflexivity. }
    destruct d as [e|]; cbn [option_map].
    + destruct (const_eval (dm_of c) e) as [[ty v]|] eqn:E.
      * destruct (eval_exact_full c e ty v W E) as [-> _]. rewrite bind_ok. apply K.
      * exact I.
    + rewrite bind_ok. apply K.
Qed.

Lemma enum_values_exact c l : wf_ctx c ->
  enum_outcome_ok (enum_spec (dm_of c) 0 l) (enum_values c (map (option_map (elab c)) l)).
Proof. intros W. apply enum_values_from_exact; assumption. Qed.

(* consequence: no internal error and no wrong value whenever the defining expressions have C values *)
Lemma enum_values_no_internal c l x : wf_ctx c ->
  enum_spec (dm_of c) 0 l <> None -> enum_values c (map (option_map (elab c)) l) <> Internal x.
Proof.
  intros W H. pose proof (enum_values_exact c l W) as E.
  destruct (enum_spec (dm_of c) 0 l) as [[vs|]|]; cbn in E; [rewrite E; discriminate| |congruence].
  destruct E as [d ->]. discriminate.
Qed.

Definition enum_demo : list (option expr) :=
  [Some (EUn UNeg (lit 7)); None; Some (EBin BDiv (EUn UNeg (lit 7)) (lit 2)); None; Some (lit 2147483647)].
Lemma enum_nonvacuous :
  enum_spec (dm_of x86_64) 0 enum_demo = Some (Some [-7; -6; -3; -2; 2147483647]) /\
  enum_spec (dm_of x86_64) 0 (enum_demo ++ [None]) = Some None /\
  enum_spec (dm_of msp430) 0 [Some (lit 32767); None] = Some None.
Proof. vm_compute. repeat split. Qed.
