(* Proofs/C21_defs.v — C21: every definition kind round-trips through its binary form. *)
From PV Require Import Lib.Py Lib.Tac Model.WasmTypes Gen.Tab_wasm_opcodes Model.WasmBin
  Proofs.C21_leb Proofs.C21_instr.
From Coq Require Import String.
Local Open Scope string_scope.
Local Open Scope list_scope.
Open Scope Z_scope.

(* ---- "if the writer succeeds the reader returns the value": needs no size bound ---- *)
Lemma uleb_sound fuel : forall v bb, 0 <= v -> uleb_enc fuel v = Ok bb ->
  forall rest, unsigned_leb128_decode (bb ++ rest) = Ok (v, rest).
Proof.
  induction fuel as [|f IH]; intros v bb Hv; cbn [uleb_enc]; [discriminate|].
  destruct (Z.eqb_spec (v / 128) 0) as [E|E].
  - intros H. injection H as <-. intros rest. cbn.
    assert (E2 : v mod 128 = v) by lia. rewrite E2.
    destruct (Z.ltb_spec v 128); [reflexivity|lia].
  - destruct (uleb_enc f (v / 128)) as [r| | |] eqn:Er; try discriminate. cbn [bind].
    intros H. injection H as <-. intros rest. cbn [app unsigned_leb128_decode].
    destruct (Z.ltb_spec (v mod 128 + 128) 128); [lia|].
    rewrite (IH (v / 128) r) by (auto; lia). cbn [bind]. f_equal. f_equal. lia.
Qed.

Lemma write_vu32_sound x b : write_vu32 x = Ok b -> forall rest, read_uint (b ++ rest) = Ok (x, rest).
Proof.
  unfold write_vu32, unsigned_leb128_encode. destruct (Z.ltb_spec x 0) as [|Hx]; [discriminate|].
  destruct (uleb_enc LEBFUEL x) as [bb| | |] eqn:E; try discriminate.
  destruct (len bb <=? 5); [|discriminate]. intros Hb. injection Hb as <-.
  apply (uleb_sound _ _ _ Hx E).
Qed.

Lemma rt_sound {A} (w : result bytes) (r : reader A) (a : A) :
  rt w r a -> forall b, w = Ok b -> forall rest, r (b ++ rest) = Ok (a, rest).
Proof. intros (bb & W & R) b Hb. rewrite W in Hb. injection Hb as <-. exact R. Qed.

Definition sound {A} (w : A -> result bytes) (r : reader A) (a : A) : Prop :=
  forall b, w a = Ok b -> forall rest, r (b ++ rest) = Ok (a, rest).

Lemma write_all_sound {A} (w : A -> result bytes) (r : reader A) (l : list A) :
  Forall (sound w r) l ->
  forall bs, write_all w l = Ok bs -> forall rest, read_vec (List.length l) r (bs ++ rest) = Ok (l, rest).
Proof.
  induction 1 as [|x l Hx Hl IH]; cbn [write_all]; intros bs Hbs rest.
  - injection Hbs as <-. reflexivity.
  - destruct (w x) as [a| | |] eqn:Ea; try discriminate. cbn [bind] in Hbs.
    destruct (write_all w l) as [b| | |] eqn:Eb; try discriminate. cbn [bind] in Hbs.
    injection Hbs as <-. cbn [List.length read_vec]. rewrite <- app_assoc, (Hx a Ea). cbn [bind].
    rewrite (IH b eq_refl). reflexivity.
Qed.

(* ------------------------------------------------------------------ limits *)
Definition limits_ok (mn : Z) (mx : option Z) : bool :=
  u35 mn && match mx with Some m => u35 m | None => true end.

Lemma write_limits_rt mn mx : limits_ok mn mx = true -> rt (write_limits mn mx) read_limits (mn, mx).
Proof.
  unfold limits_ok. intros H. apply andb_true_iff in H. destruct H as [Hmn Hmx].
  destruct (write_vu32_rt _ Hmn) as (b1 & W1 & R1). unfold write_limits.
  destruct mx as [m|].
  - destruct (write_vu32_rt _ Hmx) as (b2 & W2 & R2). rewrite W1, W2. cbn [bind].
    eexists. split; [reflexivity|]. intros rest. unfold read_limits. cbn [app read_byte bind].
    cbn. rewrite <- app_assoc, R1. cbn [bind]. rewrite R2. reflexivity.
  - rewrite W1. cbn [bind]. eexists. split; [reflexivity|]. intros rest.
    unfold read_limits. cbn [app read_byte bind]. cbn. rewrite R1. reflexivity.
Qed.

(* ------------------------------------------------------------------ locals *)
Lemma local_entries_spec l :
  Forall (fun e => 1 <= fst e <= len l /\ In (snd e) l) (local_entries l) /\
  List.concat (map expand_local (local_entries l)) = l.
Proof.
  induction l as [|t r [IHf IHc]]; [split; [constructor|reflexivity]|].
  assert (Hmono : Forall (fun e => 1 <= fst e <= len (t :: r) /\ In (snd e) (t :: r)) (local_entries r)).
  { eapply Forall_impl; [|exact IHf]. intros e [H1 H2]. unfold len in *. cbn [List.length In].
    split; [lia|auto]. }
  cbn [local_entries]. destruct (local_entries r) as [|[c t'] es] eqn:E.
  - split.
    + constructor; [|constructor]. cbn. unfold len. cbn. split; [lia|auto].
    + cbn. destruct r as [|t2 r2]; [reflexivity|].
      cbn in IHc. discriminate.
  - inversion IHf as [|? ? [Hc1 Hc2] Hes]; subst. cbn [fst snd] in *.
    inversion Hmono as [|? ? _ Hes']; subst.
    destruct (String.eqb_spec t t') as [->|Hne].
    + split.
      * constructor; [|exact Hes']. cbn [fst snd]. unfold len in *. cbn [List.length In].
        split; [lia|auto].
      * cbn [map List.concat]. unfold expand_local at 1. cbn [fst snd].
        replace (Z.to_nat (c + 1)) with (S (Z.to_nat c)) by lia. cbn [repeat app].
        f_equal; exact IHc.
    + split.
      * constructor; [|exact Hmono]. cbn [fst snd]. unfold len. cbn [List.length In].
        split; [lia|auto].
      * cbn [map List.concat]. unfold expand_local at 1. cbn [fst snd].
        change (Z.to_nat 1) with 1%nat. cbn [repeat app]. f_equal; exact IHc.
Qed.

Definition local_entry_ok (e : Z * string) : bool := u35 (fst e) && type_ok (snd e).

Lemma write_local_entry_rt e : local_entry_ok e = true ->
  rt (write_local_entry e) read_local_entry e.
Proof.
  unfold local_entry_ok. intros H. apply andb_true_iff in H. destruct H as [Hc Ht].
  destruct (write_vu32_rt _ Hc) as (b1 & W1 & R1). destruct (write_type_rt _ Ht) as (b2 & W2 & R2).
  unfold write_local_entry. rewrite W1, W2. eexists. split; [reflexivity|].
  intros rest. unfold read_local_entry. rewrite <- app_assoc, R1. cbn [bind]. rewrite R2.
  destruct e. reflexivity.
Qed.

(* ------------------------------------------------------------------ well-formed definitions *)
Definition datacount_ok (n : Z) : bool :=
  match datacount_reader with
  | RUint => u35 n
  | RInt => (0 <=? n) && (n <? 64)
  | _ => false
  end.

Definition wf_defn (d : defn) : bool :=
  match d with
  | DType params results =>
      u35 (len params) && forallb type_ok params && u7 (len results) && forallb type_ok results
  | DImport modname name info =>
      u35 (len modname) && u35 (len name) &&
      match info with
      | IFunc r => ref_ok "type" r
      | ITable k mn mx => type_ok k && limits_ok mn mx
      | IMemory mn mx => limits_ok mn mx
      | IGlobal t _ => type_ok t
      end
  | DTable k mn mx => String.eqb k "funcref" && type_ok k && limits_ok mn mx
  | DMemory mn mx => limits_ok mn mx
  | DGlobal t _ init => type_ok t && wf_expr init
  | DExport name kind r =>
      u35 (len name) && existsb (String.eqb kind) export_kinds && ref_ok kind r
  | DStart r => ref_ok "func" r
  | DElem tab offset refs =>
      ref_ok "table" tab && (snd tab =? 0) && wf_expr offset && u35 (len refs) &&
      forallb (ref_ok "func") refs
  | DFunc r locals instructions =>
      ref_ok "type" r && u35 (len locals) && forallb type_ok locals && wf_expr instructions
  | DData mode data =>
      u35 (len data) &&
      match mode with
      | Some (r, offset) => ref_ok "memory" r && wf_expr offset
      | None => true
      end
  | DDataCount n => datacount_ok n
  | DCustom name data => u35 (len name)
  end.

Ltac split_and H :=
  repeat match type of H with
         | _ && _ = true => let H1 := fresh "H" in apply andb_true_iff in H; destruct H as [H H1]
         end.

Lemma bool_byte_back m : negb (bool_byte m =? 0) = m.
Proof. destruct m; reflexivity. Qed.

Lemma ref_ok_eta space r : ref_ok space r = true -> r = (space, snd r).
Proof.
  unfold ref_ok. intros H. apply andb_true_iff in H. destruct H as [H _].
  apply String.eqb_eq in H. destruct r; cbn in *. now subst.
Qed.

Lemma export_kind_index kind : existsb (String.eqb kind) export_kinds = true ->
  exists id, index_of kind export_kinds 0 = Some id /\ nthZ export_kinds id = Some kind.
Proof.
  unfold export_kinds. cbn [existsb index_of]. intros H.
  destruct (String.eqb_spec "func" kind) as [<-|N1]; [exists 0; split; reflexivity|].
  destruct (String.eqb_spec "table" kind) as [<-|N2]; [exists 1; split; reflexivity|].
  destruct (String.eqb_spec "memory" kind) as [<-|N3]; [exists 2; split; reflexivity|].
  destruct (String.eqb_spec "global" kind) as [<-|N4]; [exists 3; split; reflexivity|].
  exfalso. repeat (apply orb_true_iff in H; destruct H as [H|H]);
    try (apply String.eqb_eq in H; congruence); discriminate.
Qed.

(* the reader that the section of [d] uses for it *)
Definition reader_of (d : defn) : reader defn :=
  match d with
  | DType _ _ => read_type_definition
  | DImport _ _ _ => read_import_definition
  | DTable _ _ _ => read_table_definition
  | DMemory _ _ => read_memory_definition
  | DGlobal _ _ _ => read_global_definition
  | DExport _ _ _ => read_export_definition
  | DStart _ => read_start_definition
  | DElem _ _ _ => read_elem_definition
  | DData _ _ => read_data_definition
  | DDataCount _ => read_data_count_definition
  | DFunc _ _ _ => fun _ => Internal NotImplemented
  | DCustom _ _ => fun _ => Internal NotImplemented
  end.

Lemma defn_type_rt params results : wf_defn (DType params results) = true ->
  rt (write_definition (DType params results)) read_type_definition (DType params results).
Proof.
  cbn [wf_defn]. intros H. split_and H.
  destruct (write_vu32_rt _ H) as (b1 & W1 & R1).
  destruct (write_types_rt _ H2) as (b2 & W2 & R2).
  destruct (write_vu7_rt _ H1) as (b3 & W3 & R3).
  destruct (write_types_rt _ H0) as (b4 & W4 & R4).
  cbn [write_definition]. unfold write_vu1. rewrite W1, W2, W3, W4. cbn [bind].
  eexists. split; [reflexivity|]. intros rest. unfold read_type_definition.
  cbn [app]. change (read_exactly 1 (96 :: ?x)) with (read_exactly 1 ([96] ++ x)).
  rewrite (read_exactly_n 1 [96]) by reflexivity. cbn [bind].
  rewrite <- !app_assoc, R1. cbn [bind].
  replace (Z.to_nat (len params)) with (List.length params) by (unfold len; lia).
  rewrite R2. cbn [bind]. rewrite R3. cbn [bind].
  replace (Z.to_nat (len results)) with (List.length results) by (unfold len; lia).
  rewrite R4. reflexivity.
Qed.

Lemma defn_import_rt modname name info : wf_defn (DImport modname name info) = true ->
  rt (write_definition (DImport modname name info)) read_import_definition (DImport modname name info).
Proof.
  cbn [wf_defn]. intros H. split_and H.
  destruct (write_str_rt _ H) as (b1 & W1 & R1). destruct (write_str_rt _ H1) as (b2 & W2 & R2).
  cbn [write_definition]. rewrite W1, W2. cbn [bind]. unfold read_import_definition.
  destruct info as [r|k mn mx|mn mx|t m].
  - destruct (write_ref_rt _ _ H0) as (b3 & W3 & R3). rewrite W3. cbn [bind].
    eexists. split; [reflexivity|]. intros rest. rewrite <- !app_assoc, R1. cbn [bind].
    rewrite R2. cbn [bind app read_byte]. cbn [Z.eqb]. rewrite R3. reflexivity.
  - split_and H0. destruct (write_type_rt _ H0) as (b3 & W3 & R3).
    destruct (write_limits_rt _ _ H2) as (b4 & W4 & R4). rewrite W3, W4. cbn [bind].
    eexists. split; [reflexivity|]. intros rest. rewrite <- !app_assoc, R1. cbn [bind].
    rewrite R2. cbn [bind app read_byte]. cbn [Z.eqb Pos.eqb].
    rewrite <- !app_assoc, R3. cbn [bind]. rewrite R4. reflexivity.
  - destruct (write_limits_rt _ _ H0) as (b4 & W4 & R4). rewrite W4. cbn [bind].
    eexists. split; [reflexivity|]. intros rest. rewrite <- !app_assoc, R1. cbn [bind].
    rewrite R2. cbn [bind app read_byte]. cbn [Z.eqb Pos.eqb]. rewrite R4. reflexivity.
  - destruct (write_type_rt _ H0) as (b3 & W3 & R3). rewrite W3. cbn [bind].
    eexists. split; [reflexivity|]. intros rest. rewrite <- !app_assoc, R1. cbn [bind].
    rewrite R2. cbn [bind app read_byte]. cbn [Z.eqb Pos.eqb].
    rewrite <- !app_assoc, R3. cbn [bind app read_byte]. rewrite bool_byte_back. reflexivity.
Qed.

Lemma defn_table_rt k mn mx : wf_defn (DTable k mn mx) = true ->
  rt (write_definition (DTable k mn mx)) read_table_definition (DTable k mn mx).
Proof.
  cbn [wf_defn]. intros H. split_and H.
  destruct (write_type_rt _ H1) as (b1 & W1 & R1). destruct (write_limits_rt _ _ H0) as (b2 & W2 & R2).
  cbn [write_definition]. rewrite W1, W2. eexists. split; [reflexivity|]. intros rest.
  unfold read_table_definition. rewrite <- app_assoc, R1. cbn [bind]. rewrite H. cbn [negb].
  rewrite R2. reflexivity.
Qed.

Lemma defn_memory_rt mn mx : wf_defn (DMemory mn mx) = true ->
  rt (write_definition (DMemory mn mx)) read_memory_definition (DMemory mn mx).
Proof.
  cbn [wf_defn]. intros H. destruct (write_limits_rt _ _ H) as (b2 & W2 & R2).
  cbn [write_definition]. exists b2. split; [exact W2|]. intros rest.
  unfold read_memory_definition. rewrite R2. reflexivity.
Qed.

Lemma defn_global_rt t m init : wf_defn (DGlobal t m init) = true ->
  rt (write_definition (DGlobal t m init)) read_global_definition (DGlobal t m init).
Proof.
  cbn [wf_defn]. intros H. split_and H.
  destruct (write_type_rt _ H) as (b1 & W1 & R1). destruct (write_expression_rt _ H0) as (b2 & W2 & R2).
  cbn [write_definition]. rewrite W1, W2. eexists. split; [reflexivity|]. intros rest.
  unfold read_global_definition. rewrite <- !app_assoc, R1. cbn [bind app read_byte].
  rewrite R2. cbn [bind]. rewrite bool_byte_back. reflexivity.
Qed.

Lemma defn_export_rt name kind r : wf_defn (DExport name kind r) = true ->
  rt (write_definition (DExport name kind r)) read_export_definition (DExport name kind r).
Proof.
  cbn [wf_defn]. intros H. split_and H.
  destruct (write_str_rt _ H) as (b1 & W1 & R1).
  destruct (export_kind_index _ H1) as (id & Hid & Hnth).
  destruct (write_ref_rt _ _ H0) as (b3 & W3 & R3).
  cbn [write_definition]. rewrite W1, Hid. cbn [bind].
  pose proof H0 as Hk. unfold ref_ok in Hk. apply andb_true_iff in Hk. destruct Hk as [Hk _].
  rewrite Hk. cbn [negb]. rewrite W3. cbn [bind]. eexists. split; [reflexivity|]. intros rest.
  unfold read_export_definition. rewrite <- !app_assoc, R1. cbn [bind app read_byte].
  rewrite Hnth. rewrite R3. reflexivity.
Qed.

Lemma defn_start_rt r : wf_defn (DStart r) = true ->
  rt (write_definition (DStart r)) read_start_definition (DStart r).
Proof.
  cbn [wf_defn]. intros H. destruct (write_ref_rt _ _ H) as (b3 & W3 & R3).
  cbn [write_definition]. pose proof H as Hk. unfold ref_ok in Hk.
  apply andb_true_iff in Hk. destruct Hk as [Hk _]. rewrite Hk. cbn [negb].
  exists b3. split; [exact W3|]. intros rest. unfold read_start_definition. rewrite R3. reflexivity.
Qed.

Lemma write_vu32_0 : write_vu32 0 = Ok [0].
Proof. reflexivity. Qed.

Lemma defn_elem_rt tab offset refs : wf_defn (DElem tab offset refs) = true ->
  rt (write_definition (DElem tab offset refs)) read_elem_definition (DElem tab offset refs).
Proof.
  cbn [wf_defn]. intros H. split_and H.
  pose proof (ref_ok_eta _ _ H) as Etab. apply Z.eqb_eq in H3. rewrite H3 in Etab.
  destruct (write_expression_rt _ H2) as (b2 & W2 & R2).
  destruct (write_vu32_rt _ H1) as (b3 & W3 & R3).
  destruct (write_refs_rt _ _ H0) as (b4 & W4 & R4).
  cbn [write_definition]. subst tab. cbn [fst snd]. cbn [String.eqb Ascii.eqb Bool.eqb negb].
  unfold write_ref at 1. cbn [snd]. rewrite write_vu32_0. cbn [bind]. rewrite W2. cbn [bind].
  rewrite W3. cbn [bind]. unfold ref_ok in H0.
  assert (Hf : forallb (fun r : (string * Z)%type => String.eqb (fst r) "func") refs = true).
  { clear -H0. induction refs as [|x l IH]; [reflexivity|]. cbn in *.
    apply andb_true_iff in H0. destruct H0 as [Hx Hl]. apply andb_true_iff in Hx. destruct Hx as [Hx _].
    rewrite Hx. cbn. auto. }
  rewrite Hf. cbn [negb]. rewrite W4. cbn [bind]. eexists. split; [reflexivity|]. intros rest.
  unfold read_elem_definition. cbn [app]. change (read_uint (0 :: ?x)) with (Ok (A:=Z * bytes) (0, x)).
  cbn [bind]. cbn [Z.eqb]. rewrite <- !app_assoc, R2. cbn [bind]. rewrite R3. cbn [bind].
  replace (Z.to_nat (len refs)) with (List.length refs) by (unfold len; lia).
  rewrite R4. reflexivity.
Qed.

Lemma write_vu32_small z : 0 <= z < 128 -> write_vu32 z = Ok [z].
Proof.
  intros H. unfold write_vu32, unsigned_leb128_encode, LEBFUEL.
  destruct (Z.ltb_spec z 0); [lia|]. cbn [uleb_enc].
  assert (E : z / 128 = 0) by lia. rewrite E. cbn.
  assert (E2 : z mod 128 = z) by lia. rewrite E2. reflexivity.
Qed.

Lemma read_uint_small z rest : 0 <= z < 128 -> read_uint (z :: rest) = Ok (z, rest).
Proof. intros H. cbn. destruct (Z.ltb_spec z 128); [reflexivity|lia]. Qed.

Lemma defn_data_rt mode data : wf_defn (DData mode data) = true ->
  rt (write_definition (DData mode data)) read_data_definition (DData mode data).
Proof.
  cbn [wf_defn]. intros H. split_and H.
  destruct (prefixed_rt _ H) as (b9 & W9 & R9).
  cbn [write_definition]. unfold read_data_definition.
  destruct mode as [[r offset]|].
  - split_and H0. pose proof (ref_ok_eta _ _ H0) as Er.
    destruct (write_ref_rt _ _ H0) as (b1 & W1 & R1).
    destruct (write_expression_rt _ H1) as (b2 & W2 & R2).
    pose proof H0 as Hk. unfold ref_ok in Hk. apply andb_true_iff in Hk. destruct Hk as [Hk Hu].
    rewrite Hk. cbn [negb].
    destruct (Z.ltb_spec 0 (snd r)) as [Hpos|Hz].
    + rewrite (write_vu32_small 2) by lia. cbn [bind]. rewrite W1, W2. cbn [bind]. rewrite W9.
      cbn [bind]. eexists. split; [reflexivity|]. intros rest. cbn [app].
      rewrite (read_uint_small 2) by lia. cbn [bind]. cbn [Z.eqb Pos.eqb].
      rewrite <- !app_assoc, R1. cbn [bind]. rewrite R2. cbn [bind]. rewrite R9. reflexivity.
    + assert (E0 : snd r = 0) by (unfold u35 in Hu; lia).
      unfold write_ref in W1. rewrite E0 in W1. rewrite write_vu32_0 in W1. injection W1 as <-.
      unfold write_ref. rewrite E0, write_vu32_0. cbn [bind]. rewrite W2. cbn [bind]. rewrite W9.
      cbn [bind]. eexists. split; [reflexivity|]. intros rest. cbn [app].
      rewrite (read_uint_small 0) by lia. cbn [bind]. cbn [Z.eqb]. cbn [bind].
      rewrite <- !app_assoc, R2. cbn [bind]. rewrite R9. rewrite Er, E0. reflexivity.
  - rewrite (write_vu32_small 1) by lia. cbn [bind]. rewrite W9. cbn [bind].
    eexists. split; [reflexivity|]. intros rest. cbn [app].
    rewrite (read_uint_small 1) by lia. cbn [bind]. cbn [Z.eqb Pos.eqb]. cbn [bind].
    rewrite <- ?app_assoc. rewrite R9. reflexivity.
Qed.

Lemma defn_datacount_rt n : wf_defn (DDataCount n) = true ->
  rt (write_definition (DDataCount n)) read_data_count_definition (DDataCount n).
Proof.
  cbn [wf_defn]. unfold datacount_ok, read_data_count_definition. cbn [write_definition].
  destruct datacount_reader; try discriminate; intros H.
  - destruct (write_vu32_rt _ H) as (b & W & R). exists b. split; [exact W|].
    intros rest. rewrite R. reflexivity.
  - destruct (write_vu32_read_int_small n) as (b & W & R); [lia|]. exists b. split; [exact W|].
    intros rest. rewrite R. reflexivity.
Qed.

(* one lemma for all the kinds that live in count-prefixed vector sections or single-definition
   sections (func and custom have their own shape below) *)
Theorem defn_rt d : wf_defn d = true ->
  match d with DFunc _ _ _ | DCustom _ _ => True | _ => rt (write_definition d) (reader_of d) d end.
Proof.
  destruct d; intros H; cbn [reader_of]; auto.
  - now apply defn_type_rt.
  - now apply defn_import_rt.
  - now apply defn_table_rt.
  - now apply defn_memory_rt.
  - now apply defn_global_rt.
  - now apply defn_export_rt.
  - now apply defn_start_rt.
  - now apply defn_elem_rt.
  - now apply defn_data_rt.
  - now apply defn_datacount_rt.
Qed.

(* ------------------------------------------------------------------ functions *)
Lemma defn_func_sound r locals instructions : wf_defn (DFunc r locals instructions) = true ->
  forall b, write_definition (DFunc r locals instructions) = Ok b ->
  forall t4f index rest, nth_error t4f index = Some (snd r) ->
  read_func_definition t4f index (b ++ rest) = Ok (DFunc r locals instructions, rest).
Proof.
  cbn [wf_defn]. intros H b Hb t4f index rest Hnth. split_and H.
  destruct (local_entries_spec locals) as [Hent Hexp].
  assert (Hentries : Forall (fun e => rt (write_local_entry e) read_local_entry e) (local_entries locals)).
  { eapply Forall_impl; [|exact Hent]. intros e [Hc Hin]. apply write_local_entry_rt.
    unfold local_entry_ok. apply andb_true_iff. split.
    - unfold u35 in *. lia.
    - rewrite forallb_forall in H1. auto. }
  assert (Hn : u35 (len (local_entries locals)) = true).
  { assert (len (local_entries locals) <= len locals); [|unfold u35 in *; unfold len in *; lia].
    rewrite <- Hexp at 2. clear -Hent. unfold len. induction Hent as [|e es [He _] _ IH]; [cbn; lia|].
    cbn [List.length map List.concat]. rewrite app_length. unfold expand_local at 1.
    rewrite repeat_length. lia. }
  destruct (write_vu32_rt _ Hn) as (b1 & W1 & R1).
  destruct (write_all_rt _ _ _ Hentries) as (b2 & W2 & R2).
  destruct (write_body_rt _ H0) as (b3 & W3 & R3).
  cbn [write_definition] in Hb. rewrite W1, W2, W3 in Hb. cbn [bind] in Hb.
  destruct (write_vu32 (len (b1 ++ b2 ++ b3 ++ [11]))) as [l| | |] eqn:El; try discriminate.
  cbn [bind] in Hb. injection Hb as <-.
  unfold read_func_definition, read_length_prefixed_bytes.
  rewrite <- app_assoc, (write_vu32_sound _ _ El). cbn [bind]. rewrite read_exactly_app. cbn [bind].
  unfold with_pushed_data.
  replace (b1 ++ b2 ++ b3 ++ [11]) with (b1 ++ b2 ++ b3 ++ [11] ++ []) by (now rewrite app_nil_r).
  rewrite R1. cbn [bind].
  replace (Z.to_nat (len (local_entries locals))) with (List.length (local_entries locals))
    by (unfold len; lia).
  rewrite R2. cbn [bind]. rewrite R3. cbn [bind]. rewrite Hexp. cbn [fst snd]. rewrite Hnth.
  rewrite <- (ref_ok_eta _ _ H). reflexivity.
Qed.

(* ------------------------------------------------------------------ custom *)
Lemma defn_custom_sound name data : wf_defn (DCustom name data) = true ->
  exists b, write_definition (DCustom name data) = Ok b /\
            read_custom_definition b = Ok (DCustom name data, []).
Proof.
  cbn [wf_defn]. intros H. destruct (write_str_rt _ H) as (b1 & W1 & R1).
  cbn [write_definition]. rewrite W1. cbn [bind]. eexists. split; [reflexivity|].
  unfold read_custom_definition. rewrite R1. reflexivity.
Qed.
