(* Proofs/C31_sets.v — membership lemmas for the interval-set model used by the regex model. *)
From PV Require Import Lib.Py Lib.Tac Spec.RegLangSpec Model.Regex.
Open Scope Z_scope.

Definition inr (c : Z) (r : Z * Z) : Prop := fst r <= c <= snd r.

Lemma in_ranges_alt c s : in_ranges c s <-> exists r, In r s /\ inr c r.
Proof.
  unfold in_ranges, inr. split.
  - intros (a & b & Hin & H). exists (a, b). auto.
  - intros ([a b] & Hin & H). exists a, b. auto.
Qed.

Lemma in_ranges_nil c : ~ in_ranges c [].
Proof. rewrite in_ranges_alt. intros (r & [] & _). Qed.

Lemma in_ranges_cons c r s : in_ranges c (r :: s) <-> inr c r \/ in_ranges c s.
Proof.
  rewrite !in_ranges_alt. split.
  - intros (x & [->|Hin] & H); [now left|right; eauto].
  - intros [H|(x & Hin & H)]; [exists r|exists x]; cbn; auto.
Qed.

Lemma in_ranges_app c s t : in_ranges c (s ++ t) <-> in_ranges c s \/ in_ranges c t.
Proof.
  induction s as [|r s IH]; cbn [app].
  - split; [now right|]. intros [H|H]; [now apply in_ranges_nil in H|assumption].
  - rewrite !in_ranges_cons, IH. tauto.
Qed.

Lemma in_range_spec c r : in_range c r = true <-> inr c r.
Proof. unfold in_range, inr. lia. Qed.

Lemma contains_spec s c : contains s c = true <-> in_ranges c s.
Proof.
  unfold contains. rewrite existsb_exists, in_ranges_alt.
  split; intros (r & Hin & H); exists r; split; auto; now apply in_range_spec.
Qed.

Lemma contains_false s c : contains s c = false <-> ~ in_ranges c s.
Proof. rewrite <- contains_spec. destruct (contains s c); split; congruence. Qed.

(* ---- sorting *)
Fixpoint sortedF (l : list (Z * Z)) : Prop :=
  match l with
  | [] => True
  | r :: l' => Forall (fun s => fst r <= fst s) l' /\ sortedF l'
  end.

Lemma insert_pair_In x p l : In x (insert_pair p l) <-> x = p \/ In x l.
Proof.
  induction l as [|q l IH]; cbn.
  - intuition.
  - destruct (pair_leb p q); cbn; rewrite ?IH; intuition.
Qed.

Lemma sort_pairs_In x l : In x (sort_pairs l) <-> In x l.
Proof.
  induction l as [|p l IH]; cbn; [tauto|]. rewrite insert_pair_In, IH. intuition.
Qed.

Lemma insert_pair_sorted p l : sortedF l -> sortedF (insert_pair p l).
Proof.
  induction l as [|q l IH]; cbn; intros H.
  - split; auto.
  - destruct H as [Hq Hl]. destruct (pair_leb p q) eqn:E; cbn.
    + split; [|split; auto]. constructor.
      * unfold pair_leb in E. lia.
      * eapply Forall_impl; [|exact Hq]. cbn. intros a Ha. unfold pair_leb in E. lia.
    + split; [|auto]. apply Forall_forall. intros x Hx. apply insert_pair_In in Hx.
      destruct Hx as [->|Hx].
      * unfold pair_leb in E. lia.
      * rewrite Forall_forall in Hq. auto.
Qed.

Lemma sort_pairs_sorted l : sortedF (sort_pairs l).
Proof. induction l; cbn; [exact I|now apply insert_pair_sorted]. Qed.

Lemma in_ranges_perm c l l' : (forall x, In x l <-> In x l') -> in_ranges c l <-> in_ranges c l'.
Proof.
  intros H. rewrite !in_ranges_alt. split; intros (r & Hin & Hr); exists r; split; auto; now apply H.
Qed.

(* ---- merging *)
Lemma merge_from_spec c l : forall r,
  Forall (fun s => fst r <= fst s) l -> sortedF l ->
  (in_ranges c (merge_from r l) <-> inr c r \/ in_ranges c l).
Proof.
  induction l as [|s l IH]; intros r Hr Hs; cbn [merge_from].
  - rewrite in_ranges_cons. reflexivity.
  - destruct Hs as [Hs1 Hs2]. inversion Hr as [|? ? Hrs Hrl]; subst.
    destruct (fst s >? snd r + 1) eqn:E.
    + rewrite !in_ranges_cons, IH by auto. tauto.
    + rewrite IH; auto.
      * rewrite in_ranges_cons. unfold inr. cbn [fst snd].
        assert (fst r <= c <= Z.max (snd r) (snd s) <-> (fst r <= c <= snd r \/ fst s <= c <= snd s)) by lia.
        tauto.
Qed.

Lemma merge_overlapping_spec c l : sortedF l ->
  (in_ranges c (merge_overlapping l) <-> in_ranges c l).
Proof.
  destruct l as [|r l]; cbn; [tauto|]. intros [H1 H2].
  rewrite merge_from_spec by auto. now rewrite in_ranges_cons.
Qed.

Lemma filter_ok_spec c l : in_ranges c (filter range_ok l) <-> in_ranges c l.
Proof.
  rewrite !in_ranges_alt. split; intros (r & Hin & Hr); exists r; split; auto.
  - now apply filter_In in Hin.
  - apply filter_In. split; auto. unfold range_ok, inr in *. lia.
Qed.

Lemma mk_iset_spec c l : in_ranges c (mk_iset l) <-> in_ranges c l.
Proof.
  unfold mk_iset. rewrite merge_overlapping_spec by apply sort_pairs_sorted.
  rewrite (in_ranges_perm c _ _ (fun x => sort_pairs_In x _)). apply filter_ok_spec.
Qed.

(* every range of a constructed set is non-empty (lo <= hi) *)
Definition valid (s : iset) : Prop := Forall (fun r => fst r <= snd r) s.

Lemma merge_from_valid l : forall r, fst r <= snd r -> valid l -> valid (merge_from r l).
Proof.
  induction l as [|s l IH]; intros r Hr Hl; cbn [merge_from].
  - constructor; auto.
  - inversion Hl; subst. destruct (fst s >? snd r + 1).
    + constructor; [auto|apply IH; auto].
    + apply IH; auto. cbn. lia.
Qed.

Lemma mk_iset_valid l : valid (mk_iset l).
Proof.
  unfold mk_iset.
  assert (H : valid (sort_pairs (filter range_ok l))).
  { apply Forall_forall. intros x Hx. apply sort_pairs_In, filter_In in Hx.
    destruct Hx as [_ Hx]. unfold range_ok in Hx. lia. }
  destruct (sort_pairs (filter range_ok l)) as [|r l']; cbn; [constructor|].
  inversion H; subst. now apply merge_from_valid.
Qed.

(* ---- union / intersection / difference *)
Lemma union_spec c a b : in_ranges c (union a b) <-> in_ranges c a \/ in_ranges c b.
Proof. unfold union. now rewrite mk_iset_spec, in_ranges_app. Qed.

Lemma in_ranges_flat_map c (f : Z * Z -> list (Z * Z)) l :
  in_ranges c (flat_map f l) <-> exists r, In r l /\ in_ranges c (f r).
Proof.
  induction l as [|x l IH]; cbn [flat_map].
  - split; [intros H; now apply in_ranges_nil in H|intros (r & [] & _)].
  - rewrite in_ranges_app, IH. split.
    + intros [H|(r & Hin & H)]; [exists x|exists r]; cbn; auto.
    + intros (r & [->|Hin] & H); [now left|right; eauto].
Qed.

Lemma inter_pair_spec c r s : in_ranges c (inter_pair r s) <-> inr c r /\ inr c s.
Proof.
  unfold inter_pair. cbv zeta. destruct (Z.max (fst r) (fst s) <=? Z.min (snd r) (snd s)) eqn:E.
  - rewrite in_ranges_cons. unfold inr. cbn [fst snd].
    split; [intros [H|H]; [lia|now apply in_ranges_nil in H]|intros H; left; lia].
  - split; [intros H; now apply in_ranges_nil in H|unfold inr; lia].
Qed.

Lemma inter_spec c a b : in_ranges c (inter a b) <-> in_ranges c a /\ in_ranges c b.
Proof.
  unfold inter. rewrite mk_iset_spec, in_ranges_flat_map. split.
  - intros (r & Hr & H). apply in_ranges_flat_map in H. destruct H as (s & Hs & H).
    apply inter_pair_spec in H. destruct H. split; apply in_ranges_alt; eauto.
  - intros [Ha Hb]. apply in_ranges_alt in Ha, Hb. destruct Ha as (r & Hr & Hcr), Hb as (s & Hs & Hcs).
    exists r. split; auto. apply in_ranges_flat_map. exists s. split; auto.
    now apply inter_pair_spec.
Qed.

Lemma punch_spec c s r : in_ranges c (punch s r) <-> inr c r /\ ~ inr c s.
Proof.
  unfold punch. rewrite in_ranges_app.
  destruct (fst r <=? Z.min (snd r) (fst s - 1)) eqn:E1;
  destruct (Z.max (fst r) (snd s + 1) <=? snd r) eqn:E2;
  rewrite ?in_ranges_cons; unfold inr; cbn [fst snd];
  (split; [intros [H|H]; try (now apply in_ranges_nil in H);
           try (destruct H as [H|H]; [|now apply in_ranges_nil in H]); lia
          | intros H; try (assert (Hc : c <= fst s - 1 \/ snd s + 1 <= c) by lia;
                           destruct Hc; [left; try left; lia|right; try left; lia])]).
Qed.

Lemma diff_fold_spec c b : forall a,
  in_ranges c (fold_left (fun acc s => flat_map (punch s) acc) b a) <->
  in_ranges c a /\ ~ in_ranges c b.
Proof.
  induction b as [|s b IH]; intros a; cbn [fold_left].
  - split; [intros H; split; auto; apply in_ranges_nil|tauto].
  - rewrite IH, in_ranges_flat_map, in_ranges_cons. split.
    + intros ((r & Hr & H) & Hb). apply punch_spec in H. destruct H.
      split; [apply in_ranges_alt; eauto|tauto].
    + intros [Ha Hn]. apply in_ranges_alt in Ha. destruct Ha as (r & Hr & Hcr).
      split; [|tauto]. exists r. split; auto. apply punch_spec. tauto.
Qed.

Lemma diff_spec c a b : in_ranges c (diff a b) <-> in_ranges c a /\ ~ in_ranges c b.
Proof. unfold diff. now rewrite mk_iset_spec, diff_fold_spec. Qed.

Lemma sigma_spec c : in_ranges c SIGMA_SET <-> in_sigma c.
Proof.
  unfold SIGMA_SET, in_sigma. rewrite in_ranges_cons. unfold inr. cbn [fst snd].
  split; [intros [H|H]; [lia|now apply in_ranges_nil in H]|intros H; now left].
Qed.

Lemma nonempty_valid_has_member s : valid s -> nonempty s = true ->
  exists r0 rest, s = r0 :: rest /\ in_ranges (fst r0) s.
Proof.
  destruct s as [|r0 rest]; cbn; [discriminate|]. intros Hv _. exists r0, rest. split; auto.
  apply in_ranges_cons. left. inversion Hv; subst. unfold inr. lia.
Qed.

(* ---- equality tests *)
Lemma iset_eqb_eq a : forall b, iset_eqb a b = true <-> a = b.
Proof.
  induction a as [|[p1 p2] a IH]; intros [|[q1 q2] b]; cbn; try (split; [discriminate|discriminate]);
  try tauto.
  rewrite !andb_true_iff, IH. split.
  - intros [[H1 H2] ->]. f_equal. f_equal; lia.
  - intros H. inversion H; subst. repeat split; lia.
Qed.

Lemma re_eqb_eq a : forall b, re_eqb a b = true <-> a = b.
Proof.
  induction a; intros []; cbn; try (split; [discriminate|discriminate]); try tauto;
  rewrite ?andb_true_iff, ?iset_eqb_eq, ?IHa, ?IHa1, ?IHa2;
  (split; [intros H; try destruct H; subst; reflexivity|intros H; inversion H; subst; auto]).
Qed.

Lemma re_eqb_refl a : re_eqb a a = true.
Proof. now apply re_eqb_eq. Qed.
