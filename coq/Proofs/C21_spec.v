(* Proofs/C21_spec.v — C21: the exported opcode table agrees with the independent reference
   table Spec/WasmOpcodeSpec.v on every instruction of the reference (reflection). *)
From PV Require Import Lib.Py Model.WasmTypes Gen.Tab_wasm_opcodes Model.WasmBin Spec.WasmOpcodeSpec.
From Coq Require Import String.
Local Open Scope string_scope.
Local Open Scope list_scope.
Open Scope Z_scope.

(* operand kind of ppci vs immediate of the specification's grammar *)
Definition kind_matches (k : akind) (s : simm) : bool :=
  match k, s with
  | KType, SBlockType | KLabelIdx, SLabelIdx | KBrTable, SLabelVec | KFuncIdx, SFuncIdx
  | KTypeIdx, STypeIdx | KTableIdx, STableIdx | KLocalIdx, SLocalIdx | KGlobalIdx, SGlobalIdx
  | KU32, SMemAlign | KU32, SMemOffset | KU8, SZeroByte | KI32, SI32 | KI64, SI64
  | KF32, SF32 | KF64, SF64 => true
  | _, _ => false
  end.

(* the writer/reader methods the dispatch tables use for that kind produce the wire format the
   specification prescribes for the immediate *)
Definition wire_matches (k : akind) (s : simm) : bool :=
  match s, assoc akind_eqb wfm k, assoc akind_eqb rfm k with
  | SBlockType, Some WType, Some RType => true
  | (SLabelIdx | SFuncIdx | STypeIdx | STableIdx | SLocalIdx | SGlobalIdx), Some WRef, Some (RSpaceRef _) => true
  | (SMemAlign | SMemOffset), Some WVu32, Some RUint => true
  | SZeroByte, Some WByte, Some RByte => true
  | SI32, Some WVs32, Some RInt => true
  | SI64, Some WVs64, Some RInt => true
  | SF32, Some WF32, Some RF32 => true
  | SF64, Some WF64, Some RF64 => true
  | SLabelVec, None, None => true
  | _, _, _ => false
  end.

Fixpoint all2 {A B} (p : A -> B -> bool) (la : list A) (lb : list B) : bool :=
  match la, lb with
  | [], [] => true
  | a :: la', b :: lb' => p a b && all2 p la' lb'
  | _, _ => false
  end.

Definition opt_string_is (o : option string) (s : string) : bool :=
  match o with Some x => String.eqb x s | None => false end.

Definition spec_entry_ok (e : string * Z * option Z * list simm) : bool :=
  let '(name, b, sub, imms) := e in
  match assoc String.eqb opcodes name, assoc String.eqb operands name with
  | Some c, Some ks =>
      code_eqb c (b, sub) && opt_string_is (assoc code_eqb reverz (b, sub)) name &&
      all2 kind_matches ks imms && all2 wire_matches ks imms
  | _, _ => false
  end.

Definition select_ok : bool :=
  match assoc String.eqb opcodes "select", assoc String.eqb operands "select" with
  | Some c, Some [KResultTypes] =>
      code_eqb c (spec_select_typed, None) &&
      opt_string_is (assoc code_eqb reverz (spec_select_plain, None)) "select" &&
      opt_string_is (assoc code_eqb reverz (spec_select_typed, None)) "select"
  | _, _ => false
  end.

(* instructions without immediates: the model writer emits exactly the reference bytes *)
Definition plain_bytes_ok (e : string * Z * option Z * list simm) : bool :=
  let '(name, b, sub, imms) := e in
  match imms with
  | [] =>
      match write_instruction (Instr name []), sub with
      | Ok bs, None => match bs with [x] => x =? b | _ => false end
      | Ok bs, Some s => match bs with [x; y] => (x =? b) && (y =? s) | _ => false end
      | _, _ => false
      end
  | _ => true
  end.

Lemma opcodes_match_spec :
  forallb spec_entry_ok spec_opcodes && select_ok && forallb plain_bytes_ok spec_opcodes = true.
Proof. vm_compute. reflexivity. Qed.

Lemma spec_table_size : List.length spec_opcodes = 194%nat.
Proof. reflexivity. Qed.
