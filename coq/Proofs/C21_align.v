(* Proofs/C21_align.v — C21: the default alignments the text writer/parser use (exported table
   [text_mem], built by calling default_alignment on every mnemonic containing ".load"/".store") are
   the natural alignments of Spec/WasmAlignSpec.v, row by row, and the two tables have the same rows. *)
From PV Require Import Lib.Py Model.WasmTypes Gen.Tab_wasm_text Spec.WasmAlignSpec.
From Coq Require Import String.
Local Open Scope string_scope.
Local Open Scope list_scope.
Open Scope Z_scope.

Definition optz_is (o : option (option Z)) (z : Z) : bool :=
  match o with Some (Some a) => a =? z | _ => false end.

(* rows of the specification whose default alignment in ppci differs (or is missing) *)
Definition bad_align_rows : list (string * Z) :=
  filter (fun r => negb (optz_is (assoc String.eqb text_mem (fst r)) (natural_align (snd r)))) spec_mem_access_bits.

(* memory mnemonics of ppci that the specification table does not list *)
Definition unknown_mem_rows : list string :=
  filter (fun n => match assoc String.eqb spec_mem_access_bits n with Some _ => false | None => true end)
         (map fst text_mem).

Lemma default_align_table : bad_align_rows = [] /\ unknown_mem_rows = [].
Proof. vm_compute. split; reflexivity. Qed.
