(* Proofs/C12_linker.v — lemmas about Model.Linker for property C12. *)
From PV Require Import Lib.Py Lib.Tac Spec.LinkSpec Model.Linker.
From Coq Require Import String.
Open Scope Z_scope.

(* ------------------------------------------------------------------ generic *)
Lemma len_app {A} (a b : list A) : len (a ++ b) = len a + len b.
Proof. unfold len. rewrite app_length. lia. Qed.

Lemma len_nonneg {A} (a : list A) : 0 <= len a.
Proof. unfold len. lia. Qed.

Lemma len_repeat {A} (x : A) n : len (repeat x n) = Z.of_nat n.
Proof. unfold len. now rewrite repeat_length. Qed.

Lemma len_one {A} (x : A) : len [x] = 1.
Proof. reflexivity. Qed.

Lemma repeat_snoc {A} (x : A) n : repeat x n ++ [x] = repeat x (S n).
Proof. induction n; cbn; [reflexivity|]. now rewrite IHn. Qed.

Lemma Forall2_mono {A B} (P Q : A -> B -> Prop) l l' :
  (forall a b, P a b -> Q a b) -> Forall2 P l l' -> Forall2 Q l l'.
Proof. intros H F. induction F; constructor; auto. Qed.

Lemma bind_Ok_inv {A B} (r : result A) (f : A -> result B) b :
  bind r f = Ok b -> exists a, r = Ok a /\ f a = Ok b.
Proof. destruct r; cbn; intros H; try discriminate. eauto. Qed.

Ltac inv_bind H :=
  let a := fresh "a" in let Ha := fresh "Ha" in
  apply bind_Ok_inv in H; destruct H as [a [Ha H]].

(* ------------------------------------------------------------------ the two while loops *)
Lemma divide_mod0 x a : a <> 0 -> (x mod a = 0 <-> (a | x)).
Proof. intros Ha. apply Z.mod_divide. assumption. Qed.

(* distance to the next multiple *)
Lemma next_multiple n a : a <> 0 ->
  let k := (- n) mod Z.abs a in 0 <= k < Z.abs a /\ (n + k) mod a = 0.
Proof.
  intros Ha k. assert (Hm : 0 < Z.abs a) by lia.
  split; [subst k; apply Z.mod_pos_bound; lia|].
  apply divide_mod0; [assumption|].
  subst k. rewrite Z.mod_eq by lia.
  replace (n + (- n - Z.abs a * (- n / Z.abs a))) with (Z.abs a * (- (- n / Z.abs a))) by ring.
  apply Z.divide_mul_l. apply Z.divide_abs_r. apply Z.divide_refl.
Qed.

Lemma pad_loop_spec fuel : forall data a k,
  a <> 0 -> 0 <= k -> (len data + k) mod a = 0 -> (Z.to_nat k <= fuel)%nat ->
  exists k', 0 <= k' <= k /\ pad_loop fuel data a = Ok (data ++ repeat 0 (Z.to_nat k')) /\
             (len data + k') mod a = 0 /\
             (forall j, 0 <= j < k' -> (len data + j) mod a <> 0).
Proof.
  induction fuel as [|f IH]; intros data a k Ha Hk Hmod Hf.
  - assert (k = 0) by lia. subst k. exists 0. cbn.
    destruct (a =? 0) eqn:E; [lia|]. rewrite Z.add_0_r in Hmod. rewrite Hmod. cbn.
    rewrite app_nil_r. repeat split; try lia. now rewrite Z.add_0_r.
  - cbn [pad_loop]. destruct (a =? 0) eqn:E; [lia|].
    destruct (len data mod a =? 0) eqn:E2.
    + exists 0. cbn. rewrite app_nil_r. rewrite Z.add_0_r. repeat split; try lia.
    + assert (k <> 0) by (intros ->; rewrite Z.add_0_r in Hmod; lia).
      destruct (IH (data ++ [0]) a (k - 1)) as [k' [Hk' [Hp [Hm Hmin]]]]; try lia.
      { rewrite len_app, len_one. replace (len data + 1 + (k - 1)) with (len data + k) by lia. assumption. }
      exists (k' + 1). split; [lia|]. split.
      { rewrite Hp. rewrite <- app_assoc. f_equal. f_equal.
        replace (Z.to_nat (k' + 1)) with (S (Z.to_nat k')) by lia. reflexivity. }
      rewrite len_app, len_one in Hm, Hmin. split.
      { replace (len data + (k' + 1)) with (len data + 1 + k') by lia. assumption. }
      intros j Hj. destruct (Z.eq_dec j 0) as [->|Hj0].
      { rewrite Z.add_0_r. lia. }
      replace (len data + j) with (len data + 1 + (j - 1)) by lia. apply Hmin. lia.
Qed.

Lemma pad_to_spec data a : a <> 0 ->
  exists k, 0 <= k < Z.abs a /\ pad_to data a = Ok (data ++ repeat 0 (Z.to_nat k)) /\
            (len data + k) mod a = 0 /\ (forall j, 0 <= j < k -> (len data + j) mod a <> 0).
Proof.
  intros Ha. destruct (next_multiple (len data) a Ha) as [Hk Hm].
  destruct (pad_loop_spec (Z.to_nat (Z.abs a)) data a _ Ha (proj1 Hk) Hm) as [k' [H1 [H2 [H3 H4]]]]; [lia|].
  exists k'. repeat split; try assumption; lia.
Qed.

Lemma pad_to_zero data : pad_to data 0 = Internal ZeroDiv.
Proof. reflexivity. Qed.

Lemma pad_to_Ok data a d : pad_to data a = Ok d -> a <> 0.
Proof. intros H ->. discriminate. Qed.

Lemma align_loop_spec fuel : forall cur a k,
  a <> 0 -> 0 <= k -> (cur + k) mod a = 0 -> (Z.to_nat k <= fuel)%nat ->
  exists k', 0 <= k' <= k /\ align_loop fuel cur a = Ok (cur + k') /\
             (cur + k') mod a = 0 /\ (forall j, 0 <= j < k' -> (cur + j) mod a <> 0).
Proof.
  induction fuel as [|f IH]; intros cur a k Ha Hk Hmod Hf.
  - assert (k = 0) by lia. subst k. exists 0. cbn.
    destruct (a =? 0) eqn:E; [lia|]. rewrite Z.add_0_r in *. rewrite Hmod. cbn.
    repeat split; try lia.
  - cbn [align_loop]. destruct (a =? 0) eqn:E; [lia|].
    destruct (cur mod a =? 0) eqn:E2.
    + exists 0. rewrite Z.add_0_r. repeat split; try lia.
    + assert (k <> 0) by (intros ->; rewrite Z.add_0_r in Hmod; lia).
      destruct (IH (cur + 1) a (k - 1)) as [k' [Hk' [Hp [Hm Hmin]]]]; try lia.
      { replace (cur + 1 + (k - 1)) with (cur + k) by lia. assumption. }
      exists (k' + 1). split; [lia|]. split.
      { rewrite Hp. f_equal. lia. }
      split.
      { replace (cur + (k' + 1)) with (cur + 1 + k') by lia. assumption. }
      intros j Hj. destruct (Z.eq_dec j 0) as [->|Hj0].
      { rewrite Z.add_0_r. lia. }
      replace (cur + j) with (cur + 1 + (j - 1)) by lia. apply Hmin. lia.
Qed.

Lemma align_up_spec cur a : a <> 0 ->
  exists k, 0 <= k < Z.abs a /\ align_up cur a = Ok (cur + k) /\
            (cur + k) mod a = 0 /\ (forall j, 0 <= j < k -> (cur + j) mod a <> 0).
Proof.
  intros Ha. destruct (next_multiple cur a Ha) as [Hk Hm].
  destruct (align_loop_spec (Z.to_nat (Z.abs a)) cur a _ Ha (proj1 Hk) Hm) as [k' [H1 [H2 [H3 H4]]]]; [lia|].
  exists k'. repeat split; try assumption; lia.
Qed.

Lemma align_up_Ok cur a c : align_up cur a = Ok c -> a <> 0.
Proof. intros H ->. discriminate. Qed.

Lemma align_up_least cur a c : align_up cur a = Ok c -> least_aligned_from cur c a /\ c - cur < Z.abs a.
Proof.
  intros H. pose proof (align_up_Ok _ _ _ H) as Ha.
  destruct (align_up_spec cur a Ha) as [k [Hk [He [Hm Hmin]]]].
  rewrite He in H. injection H as <-. unfold least_aligned_from, aligned.
  repeat split; try assumption; try lia.
  intros y Hy. replace y with (cur + (y - cur)) by lia. apply Hmin. lia.
Qed.

(* ------------------------------------------------------------------ section lists *)
Lemma find_sect_name n l s : find_sect n l = Some s -> s_name s = n.
Proof.
  induction l as [|x r IH]; cbn; [discriminate|].
  destruct (String.eqb (s_name x) n) eqn:E; intros H.
  - injection H as <-. now apply String.eqb_eq.
  - auto.
Qed.

Lemma find_sect_In n l s : find_sect n l = Some s -> In s l.
Proof.
  induction l as [|x r IH]; cbn; [discriminate|].
  destruct (String.eqb (s_name x) n); intros H; [injection H as <-; now left | right; auto].
Qed.

Lemma find_set_same n l s s' :
  find_sect n l = Some s -> s_name s' = n -> find_sect n (set_sect s' l) = Some s'.
Proof.
  intros H Hn. induction l as [|x r IH]; cbn in *; [discriminate|].
  rewrite Hn. destruct (String.eqb (s_name x) n) eqn:E.
  - cbn. rewrite Hn, String.eqb_refl. reflexivity.
  - cbn. rewrite E. auto.
Qed.

Lemma find_set_other m l s' : m <> s_name s' -> find_sect m (set_sect s' l) = find_sect m l.
Proof.
  intros Hm. induction l as [|x r IH]; cbn; [reflexivity|].
  destruct (String.eqb (s_name x) (s_name s')) eqn:E.
  - cbn. apply String.eqb_eq in E.
    assert (E1 : String.eqb (s_name s') m = false) by (apply String.eqb_neq; congruence).
    assert (E2 : String.eqb (s_name x) m = false) by (apply String.eqb_neq; congruence).
    now rewrite E1, E2.
  - cbn. destruct (String.eqb (s_name x) m); auto.
Qed.

Lemma find_app n l x :
  find_sect n (l ++ [x]) =
  match find_sect n l with Some s => Some s | None => if String.eqb (s_name x) n then Some x else None end.
Proof.
  induction l as [|y r IH]; cbn; [reflexivity|].
  destruct (String.eqb (s_name y) n); auto.
Qed.

Lemma get_section_create_spec n l l1 s :
  get_section_create n l = (l1, s) ->
  find_sect n l1 = Some s /\ s_name s = n /\
  (forall m, m <> n -> find_sect m l1 = find_sect m l) /\
  (match find_sect n l with Some s0 => s = s0 /\ l1 = l | None => s = new_sect n /\ l1 = l ++ [new_sect n] end).
Proof.
  unfold get_section_create. destruct (find_sect n l) as [s0|] eqn:E; intros H; injection H as <- <-.
  - repeat split; auto. now apply find_sect_name in E.
  - repeat split; auto.
    + rewrite find_app, E. cbn. now rewrite String.eqb_refl.
    + intros m Hm. rewrite find_app. destruct (find_sect m l); [reflexivity|].
      cbn. assert (E1 : String.eqb n m = false) by (apply String.eqb_neq; congruence). now rewrite E1.
Qed.

(* data of the section called n ([] when there is none) *)
Definition sdata (n : string) (l : list sect) : list Z :=
  match find_sect n l with Some s => s_data s | None => [] end.

(* every existing section keeps its data as a prefix *)
Definition sec_extends (l l' : list sect) : Prop :=
  forall n s, find_sect n l = Some s ->
    exists s' extra, find_sect n l' = Some s' /\ s_data s' = s_data s ++ extra.

Lemma sec_extends_refl l : sec_extends l l.
Proof. intros n s H. exists s, []. now rewrite app_nil_r. Qed.

Lemma sec_extends_trans a b c : sec_extends a b -> sec_extends b c -> sec_extends a c.
Proof.
  intros H1 H2 n s H. destruct (H1 n s H) as [s1 [e1 [F1 D1]]].
  destruct (H2 n s1 F1) as [s2 [e2 [F2 D2]]]. exists s2, (e1 ++ e2). split; [assumption|].
  rewrite D2, D1. now rewrite app_assoc.
Qed.

(* ------------------------------------------------------------------ inject_section *)
(* what one contribution looks like in the output section list:
   - recorded under the input's name, at an offset that is a multiple of the input alignment
   - the output section reads  pre ++ k zero bytes ++ input bytes ++ post  with len pre + k = off
   - the padding is minimal: no position in [len pre, off) is a multiple of the alignment *)
Definition contrib (out : list sect) (inp : sect) (rec : string * Z) : Prop :=
  fst rec = s_name inp /\ aligned (snd rec) (s_align inp) /\
  exists s pre k post,
    find_sect (s_name inp) out = Some s /\
    s_data s = pre ++ repeat 0 (Z.to_nat k) ++ s_data inp ++ post /\
    0 <= k < Z.abs (s_align inp) /\ len pre + k = snd rec /\
    s_align inp <= s_align s /\
    (forall j, 0 <= j < k -> (len pre + j) mod s_align inp <> 0).

Lemma contrib_extends out out' inp rec :
  (forall n s, find_sect n out = Some s ->
     exists s' extra, find_sect n out' = Some s' /\ s_data s' = s_data s ++ extra /\ s_align s <= s_align s') ->
  contrib out inp rec -> contrib out' inp rec.
Proof.
  intros He [H1 [H2 [s [pre [k [post [F [D [Hk [Hl [Hal Hmin]]]]]]]]]]].
  destruct (He _ _ F) as [s' [extra [F' [D' Hal']]]].
  split; [assumption|]. split; [assumption|].
  exists s', pre, k, (post ++ extra). repeat split; try assumption; try lia.
  rewrite D', D. now rewrite <- !app_assoc.
Qed.

(* the stronger step relation used for monotonicity: data grows at the end, alignment grows *)
Definition sec_grows (l l' : list sect) : Prop :=
  forall n s, find_sect n l = Some s ->
    exists s' extra, find_sect n l' = Some s' /\ s_data s' = s_data s ++ extra /\
                     s_align s <= s_align s' .

Lemma sec_grows_refl l : sec_grows l l.
Proof. intros n s H. exists s, []. rewrite app_nil_r. repeat split; auto; lia. Qed.

Lemma sec_grows_trans a b c : sec_grows a b -> sec_grows b c -> sec_grows a c.
Proof.
  intros H1 H2 n s H. destruct (H1 n s H) as [s1 [e1 [F1 [D1 A1]]]].
  destruct (H2 n s1 F1) as [s2 [e2 [F2 [D2 A2]]]]. exists s2, (e1 ++ e2). split; [assumption|].
  split; [|lia]. rewrite D2, D1. now rewrite app_assoc.
Qed.

Lemma sec_grows_extends l l' : sec_grows l l' -> sec_extends l l'.
Proof. intros H n s F. destruct (H n s F) as [s' [e [F' [D _]]]]. eauto. Qed.

Lemma inject_section_spec secs inp secs' off :
  inject_section secs inp = Ok (secs', off) ->
  contrib secs' inp (s_name inp, off) /\ sec_grows secs secs' /\
  (forall m, m <> s_name inp -> find_sect m secs' = find_sect m secs) /\
  (exists s', find_sect (s_name inp) secs' = Some s' /\
     s_data s' = sdata (s_name inp) secs ++ repeat 0 (Z.to_nat (off - len (sdata (s_name inp) secs))) ++ s_data inp /\
     s_addr s' = match find_sect (s_name inp) secs with Some s => s_addr s | None => 0 end /\
     s_align s' = Z.max (s_align inp) (match find_sect (s_name inp) secs with Some s => s_align s | None => 4 end)).
Proof.
  unfold inject_section. destruct (get_section_create (s_name inp) secs) as [secs1 out] eqn:G.
  destruct (get_section_create_spec _ _ _ _ G) as [F1 [N1 [O1 C1]]].
  intros H. inv_bind H. injection H as <- <-.
  pose proof (pad_to_Ok _ _ _ Ha) as Hal.
  destruct (pad_to_spec (s_data out) (s_align inp) Hal) as [k [Hk [Hp [Hm Hmin]]]].
  rewrite Hp in Ha. injection Ha as <-.
  set (s' := mkSect (s_name out) (s_addr out)
                    (if s_align inp >? s_align out then s_align inp else s_align out)
                    ((s_data out ++ repeat 0 (Z.to_nat k)) ++ s_data inp)).
  assert (Fs : find_sect (s_name inp) (set_sect s' secs1) = Some s')
    by (apply find_set_same with (s := out); [assumption | exact N1]).
  assert (Hoff : len (s_data out ++ repeat 0 (Z.to_nat k)) = len (s_data out) + k)
    by (rewrite len_app, len_repeat; lia).
  assert (Oth : forall m, m <> s_name inp -> find_sect m (set_sect s' secs1) = find_sect m secs).
  { intros m Hmn. rewrite find_set_other by (cbn; congruence). now apply O1. }
  assert (Hsd : s_data out = sdata (s_name inp) secs /\
                s_addr out = match find_sect (s_name inp) secs with Some s => s_addr s | None => 0 end /\
                s_align out = match find_sect (s_name inp) secs with Some s => s_align s | None => 4 end).
  { unfold sdata. destruct (find_sect (s_name inp) secs) as [s0|]; destruct C1 as [-> _]; auto. }
  destruct Hsd as [Hsd [Hsa Hsl]].
  split; [|split; [|split]].
  - split; [reflexivity|]. split; [split; [assumption|]; cbn; rewrite Hoff; assumption|].
    exists s', (s_data out), k, []. repeat split; try assumption; try lia.
    + cbn. rewrite app_nil_r. now rewrite <- app_assoc.
    + cbn. rewrite Hoff. reflexivity.
    + cbn. destruct (s_align inp >? s_align out) eqn:E; lia.
  - intros n s Fn. destruct (String.eqb n (s_name inp)) eqn:E.
    + apply String.eqb_eq in E. subst n.
      exists s', (repeat 0 (Z.to_nat k) ++ s_data inp). split; [assumption|].
      destruct (find_sect (s_name inp) secs) as [s0|] eqn:E0; [|discriminate].
      injection Fn as <-. destruct C1 as [-> _]. cbn. split; [now rewrite <- app_assoc|].
      destruct (s_align inp >? s_align s0) eqn:E; lia.
    + apply String.eqb_neq in E. exists s, []. rewrite app_nil_r. rewrite Oth by assumption.
      repeat split; auto; lia.
  - exact Oth.
  - exists s'. split; [assumption|]. cbn. rewrite Hoff, <- Hsd.
    replace (len (s_data out) + k - len (s_data out)) with k by lia.
    split; [now rewrite <- app_assoc|]. split; [assumption|].
    rewrite <- Hsl. destruct (s_align inp >? s_align out) eqn:E; lia.
Qed.

Lemma inject_sections_spec inps : forall secs secs' offs,
  inject_sections secs inps = Ok (secs', offs) ->
  Forall2 (contrib secs') inps offs /\ sec_grows secs secs'.
Proof.
  induction inps as [|i r IH]; intros secs secs' offs H; cbn in H.
  - injection H as <- <-. split; [constructor | apply sec_grows_refl].
  - inv_bind H. destruct a as [secs1 off]. inv_bind H. destruct a as [secs2 offs2].
    injection H as <- <-.
    destruct (inject_section_spec _ _ _ _ Ha) as [C [G _]].
    destruct (IH _ _ _ Ha0) as [F G2].
    split; [|eapply sec_grows_trans; eassumption].
    constructor; [|assumption]. eapply contrib_extends; [exact G2 | exact C].
Qed.

(* ------------------------------------------------------------------ symbols *)
Section WithCfg.
Variable cfg : lcfg.

Definition ids_ok (syms : list sym) : Prop :=
  forall i s, nth_error syms i = Some s -> y_id s = Z.of_nat i.

(* symbols keep their position, name, binding and id; defined symbols never change *)
Definition sym_stable (l l' : list sym) : Prop :=
  forall i s, nth_error l i = Some s ->
    exists s', nth_error l' i = Some s' /\ y_name s' = y_name s /\ y_bind s' = y_bind s /\
               y_id s' = y_id s /\ (y_value s <> None -> s' = s).

Lemma sym_stable_refl l : sym_stable l l.
Proof. intros i s H. exists s. repeat split; auto. Qed.

Lemma sym_stable_trans a b c : sym_stable a b -> sym_stable b c -> sym_stable a c.
Proof.
  intros H1 H2 i s H. destruct (H1 i s H) as [s1 [N1 [A1 [B1 [C1 D1]]]]].
  destruct (H2 i s1 N1) as [s2 [N2 [A2 [B2 [C2 D2]]]]].
  exists s2. repeat split; try congruence.
  intros Hv. specialize (D1 Hv). subst s1. auto.
Qed.

Lemma sym_stable_app l x : sym_stable l (l ++ [x]).
Proof.
  intros i s H. exists s. repeat split; auto.
  rewrite nth_error_app1; [assumption|]. apply nth_error_Some. congruence.
Qed.

Lemma ids_ok_app l x : ids_ok l -> y_id x = len l -> ids_ok (l ++ [x]).
Proof.
  intros H Hx i s Hn. destruct (Nat.lt_ge_cases i (List.length l)) as [Hi|Hi].
  - rewrite nth_error_app1 in Hn by assumption. auto.
  - rewrite nth_error_app2 in Hn by assumption.
    destruct (i - List.length l)%nat as [|k] eqn:E; cbn in Hn.
    + injection Hn as <-. rewrite Hx. unfold len. lia.
    + destruct k; discriminate.
Qed.

Lemma nth_error_snoc {A} (l : list A) x : nth_error (l ++ [x]) (Z.to_nat (len l)) = Some x.
Proof.
  unfold len. rewrite Nat2Z.id. rewrite nth_error_app2 by lia. now rewrite Nat.sub_diag.
Qed.

Lemma is_global_eq b : is_global b = true -> b = GLOBAL.
Proof. unfold is_global. apply String.eqb_eq. Qed.

Lemma find_global_define n v sc l s :
  find_global n l = Some s ->
  is_global (y_bind s) = true /\ y_name s = n /\
  exists i, nth_error l i = Some s /\
    nth_error (define_global n v sc l) i =
      Some (mkSym (y_id s) (y_name s) (y_bind s) (Some v) sc (y_typ s) (y_size s)) /\
    (forall j, j <> i -> nth_error (define_global n v sc l) j = nth_error l j).
Proof.
  induction l as [|x r IH]; cbn; [discriminate|].
  destruct (is_global (y_bind x) && String.eqb (y_name x) n) eqn:E; intros H.
  - injection H as <-. apply andb_true_iff in E. destruct E as [E1 E2]. apply String.eqb_eq in E2.
    repeat split; auto. exists 0%nat. cbn. repeat split; auto.
    intros j Hj. destruct j; [congruence|reflexivity].
  - destruct (IH H) as [G [N [i [A [B C]]]]]. repeat split; auto.
    exists (S i). cbn. repeat split; auto. intros j Hj. destruct j; cbn; [reflexivity|].
    apply C. congruence.
Qed.

Lemma define_global_stable n v sc l s :
  find_global n l = Some s -> y_value s = None -> sym_stable l (define_global n v sc l).
Proof.
  intros F Hv. destruct (find_global_define n v sc l s F) as [_ [_ [i [A [B C]]]]].
  intros j t Hj. destruct (Nat.eq_dec j i) as [->|Hne].
  - rewrite A in Hj. injection Hj as <-. eexists. split; [exact B|]. cbn. repeat split; auto.
    intros Hc. congruence.
  - exists t. rewrite C by assumption. repeat split; auto.
Qed.

Lemma define_global_ids n v sc l s :
  find_global n l = Some s -> ids_ok l -> ids_ok (define_global n v sc l).
Proof.
  intros F Hi. destruct (find_global_define n v sc l s F) as [_ [_ [i [A [B C]]]]].
  intros j t Hj. destruct (Nat.eq_dec j i) as [->|Hne].
  - rewrite B in Hj. injection Hj as <-. cbn. auto.
  - rewrite C in Hj by assumption. auto.
Qed.

Lemma inject_symbol_spec syms name bind sc value typ size syms' id :
  inject_symbol syms name bind sc value typ size = Ok (syms', id) ->
  syms' = syms ++ [mkSym (len syms) name bind value sc typ size] /\ id = len syms.
Proof.
  unfold inject_symbol. destruct (if is_global bind then find_global name syms else None);
    intros H; [discriminate|]. injection H as <- <-. auto.
Qed.

(* the destination symbol an input symbol was mapped to *)
Definition sym_mapped (offs : list (string * Z)) (out : list sym) (s : sym) (id : Z) : Prop :=
  0 <= id /\
  exists s', nth_error out (Z.to_nat id) = Some s' /\ y_id s' = id /\
             y_name s' = y_name s /\ y_bind s' = y_bind s /\
             (forall v, y_value s = Some v ->
                (exists sc off, y_sect s = Some sc /\ lookup sc offs = Some off /\
                                y_value s' = Some (off + v) /\ y_sect s' = Some sc) \/
                (fix_abs cfg = true /\ y_sect s = None /\ y_value s' = Some v /\ y_sect s' = None)).

Lemma sym_mapped_stable offs out out' s id :
  sym_stable out out' -> sym_mapped offs out s id -> sym_mapped offs out' s id.
Proof.
  intros St [H0 [s' [N [I [A [B C]]]]]]. split; [assumption|].
  destruct (St _ _ N) as [s'' [N' [A' [B' [I' D]]]]].
  exists s''. repeat split; try congruence.
  intros v Hv. destruct (C v Hv) as [[sc [off [S1 [L [V S2]]]]]|[Fx [S1 [V S2]]]];
    (assert (s'' = s') by (apply D; congruence)); subst s''; [left; eauto 8 | right; auto].
Qed.

Lemma merge_global_symbol_spec syms name sc value typ size syms' id :
  ids_ok syms ->
  merge_global_symbol syms name sc value typ size = Ok (syms', id) ->
  sym_stable syms syms' /\ ids_ok syms' /\ 0 <= id /\
  exists s', nth_error syms' (Z.to_nat id) = Some s' /\ y_id s' = id /\ y_name s' = name /\
             y_bind s' = GLOBAL /\
             (forall v, value = Some v -> y_value s' = Some v /\ y_sect s' = sc).
Proof.
  intros Hids. unfold merge_global_symbol. destruct (find_global name syms) as [s0|] eqn:F.
  - destruct (find_global_define name 0 sc syms s0 F) as [G [N [i [A _]]]].
    pose proof (Hids _ _ A) as Hid.
    destruct value as [v|].
    + destruct (y_value s0) eqn:V; intros H; [discriminate|]. injection H as <- <-.
      destruct (find_global_define name v sc syms s0 F) as [_ [_ [i' [A' [B' _]]]]].
      pose proof (Hids _ _ A') as Hid'.
      split; [eapply define_global_stable; eassumption|].
      split; [eapply define_global_ids; eassumption|]. split; [lia|].
      eexists. rewrite Hid', Nat2Z.id. split; [exact B'|]. cbn.
      repeat split; auto using is_global_eq; congruence.
    + intros H. injection H as <- <-. split; [apply sym_stable_refl|]. split; [assumption|].
      split; [lia|]. exists s0. rewrite Hid, Nat2Z.id. repeat split; auto using is_global_eq; discriminate.
  - intros H. apply inject_symbol_spec in H. destruct H as [-> ->].
    split; [apply sym_stable_app|]. split; [apply ids_ok_app; auto|]. split; [apply len_nonneg|].
    eexists. split; [apply nth_error_snoc|]. cbn. repeat split; auto; congruence.
Qed.

Lemma inject_sym_spec offs syms s syms' id :
  ids_ok syms -> inject_sym cfg offs syms s = Ok (syms', id) ->
  sym_mapped offs syms' s id /\ sym_stable syms syms' /\ ids_ok syms'.
Proof.
  intros Hids H. unfold inject_sym in H. inv_bind H. destruct a as [value sect]. cbn [fst snd] in H.
  assert (Hvs : forall v, y_value s = Some v ->
            (exists sc off, y_sect s = Some sc /\ lookup sc offs = Some off /\
                            value = Some (off + v) /\ sect = Some sc) \/
            (fix_abs cfg = true /\ y_sect s = None /\ value = Some v /\ sect = None)).
  { intros v Hv. rewrite Hv in Ha. destruct (y_sect s) as [sc|].
    - destruct (lookup sc offs) as [off|] eqn:L; [|discriminate]. injection Ha as <- <-. left. eauto 8.
    - destruct (fix_abs cfg) eqn:Fx; [|discriminate]. injection Ha as <- <-. right. auto. }
  destruct (is_global (y_bind s)) eqn:G.
  - destruct (merge_global_symbol_spec _ _ _ _ _ _ _ _ Hids H) as [St [I2 [H0 [s' [N [I [A [B C]]]]]]]].
    split; [|auto]. split; [assumption|]. exists s'. repeat split; auto.
    + apply is_global_eq in G. congruence.
    + intros v Hv. destruct (Hvs v Hv) as [[sc [off [S1 [L [-> ->]]]]]|[Fx [S1 [-> ->]]]];
        destruct (C _ eq_refl) as [V S2]; [left; eauto 8 | right; auto].
  - apply inject_symbol_spec in H. destruct H as [-> ->].
    split; [|split; [apply sym_stable_app | apply ids_ok_app; auto]].
    split; [apply len_nonneg|]. eexists. split; [apply nth_error_snoc|]. cbn. repeat split; auto.
Qed.

Lemma inject_syms_spec offs inps : forall syms syms' ids,
  ids_ok syms -> inject_syms cfg offs syms inps = Ok (syms', ids) ->
  Forall2 (sym_mapped offs syms') inps ids /\ sym_stable syms syms' /\ ids_ok syms'.
Proof.
  induction inps as [|s r IH]; intros syms syms' ids Hids H; cbn in H.
  - injection H as <- <-. split; [constructor|]. split; [apply sym_stable_refl | assumption].
  - inv_bind H. destruct a as [syms1 id]. inv_bind H. destruct a as [syms2 ids2].
    injection H as <- <-.
    destruct (inject_sym_spec _ _ _ _ _ Hids Ha) as [M [S1 I1]].
    destruct (IH _ _ _ I1 Ha0) as [F [S2 I2]].
    split; [|split; [eapply sym_stable_trans; eassumption | assumption]].
    constructor; [|assumption]. eapply sym_mapped_stable; eassumption.
Qed.

Lemma map_result_spec {A B} (f : A -> result B) l : forall l',
  map_result f l = Ok l' -> Forall2 (fun a b => f a = Ok b) l l'.
Proof.
  induction l as [|a r IH]; intros l' H; cbn in H.
  - injection H as <-. constructor.
  - inv_bind H. inv_bind H. injection H as <-. constructor; auto.
Qed.

(* ------------------------------------------------------------------ inject_object, merge_objects *)
Definition obj_grows (d d' : obj) : Prop :=
  sec_grows (o_sects d) (o_sects d') /\ sym_stable (o_syms d) (o_syms d') /\
  exists rels, o_relocs d' = o_relocs d ++ rels.

Lemma obj_grows_refl d : obj_grows d d.
Proof. split; [apply sec_grows_refl|]. split; [apply sym_stable_refl|]. exists []. now rewrite app_nil_r. Qed.

Lemma obj_grows_trans a b c : obj_grows a b -> obj_grows b c -> obj_grows a c.
Proof.
  intros [S1 [Y1 [r1 R1]]] [S2 [Y2 [r2 R2]]].
  split; [eapply sec_grows_trans; eassumption|]. split; [eapply sym_stable_trans; eassumption|].
  exists (r1 ++ r2). rewrite R2, R1. now rewrite app_assoc.
Qed.

(* what the output holds for one input object, given what inject_object cfg recorded for it *)
Definition injected (out o : obj) (t : trace) : Prop :=
  Forall2 (contrib (o_sects out)) (o_sects o) (fst t) /\
  Forall2 (sym_mapped (fst t) (o_syms out)) (o_syms o) (snd t) /\
  exists pre rels post,
    o_relocs out = pre ++ rels ++ post /\
    Forall2 (fun r r' => inject_reloc (fst t) (combine (map y_id (o_syms o)) (snd t)) r = Ok r')
            (o_relocs o) rels.

Lemma injected_grows out out' o t : obj_grows out out' -> injected out o t -> injected out' o t.
Proof.
  intros [S [Y [extra R]]] [C [M [pre [rels [post [E F]]]]]].
  split; [|split].
  - eapply Forall2_mono; [|exact C]. intros a b. apply contrib_extends. exact S.
  - eapply Forall2_mono; [|exact M]. intros a b. now apply sym_mapped_stable.
  - exists pre, rels, (post ++ extra). split; [|assumption]. rewrite R, E. now rewrite <- !app_assoc.
Qed.

Lemma inject_object_spec d o d' t :
  ids_ok (o_syms d) -> inject_object cfg d o = Ok (d', t) ->
  injected d' o t /\ obj_grows d d' /\ ids_ok (o_syms d') /\ o_images d' = o_images d.
Proof.
  intros Hids H. unfold inject_object in H.
  inv_bind H. destruct a as [secs offs]. inv_bind H. destruct a as [syms ids].
  inv_bind H. inv_bind H. injection H as <- <-. cbn [fst snd].
  destruct (inject_sections_spec _ _ _ _ Ha) as [C G].
  destruct (inject_syms_spec _ _ _ _ _ Hids Ha0) as [M [St I2]].
  pose proof (map_result_spec _ _ _ Ha1) as R.
  split; [|split; [|split]]; cbn; auto.
  - split; [assumption|]. split; [assumption|]. exists (o_relocs d), a, []. rewrite app_nil_r. auto.
  - split; [assumption|]. split; [assumption|]. exists a. reflexivity.
Qed.

Lemma merge_objects_spec objs : forall d d' ts,
  ids_ok (o_syms d) -> merge_objects cfg d objs = Ok (d', ts) ->
  Forall2 (injected d') objs ts /\ obj_grows d d' /\ ids_ok (o_syms d') /\ o_images d' = o_images d.
Proof.
  induction objs as [|o r IH]; intros d d' ts Hids H; cbn in H.
  - injection H as <- <-. split; [constructor|]. split; [apply obj_grows_refl|]. auto.
  - inv_bind H. destruct a as [d1 t]. inv_bind H. destruct a as [d2 ts2]. injection H as <- <-.
    destruct (inject_object_spec _ _ _ _ Hids Ha) as [J [G [I1 Im1]]].
    destruct (IH _ _ _ I1 Ha0) as [F [G2 [I2 Im2]]].
    split; [|split; [eapply obj_grows_trans; eassumption | split; [assumption | congruence]]].
    constructor; [|assumption]. eapply injected_grows; eassumption.
Qed.

(* ------------------------------------------------------------------ Image.data *)
Definition blocks (ss : list sect) : list (Z * list Z) := map (fun s => (s_addr s, s_data s)) ss.

(* gap-filled concatenation *)
Fixpoint fill (cur : Z) (ss : list sect) : list Z :=
  match ss with
  | [] => []
  | s :: r => repeat 0 (Z.to_nat (s_addr s - cur)) ++ s_data s ++ fill (s_addr s + len (s_data s)) r
  end.

Lemma image_data_loop_ok ss : forall cur data,
  ordered_from cur (blocks ss) -> image_data_loop cur data ss = Ok (data ++ fill cur ss).
Proof.
  induction ss as [|s r IH]; intros cur data H; cbn in *.
  - now rewrite app_nil_r.
  - destruct H as [H1 H2]. destruct (s_addr s <? cur) eqn:E; [lia|].
    rewrite IH by assumption. f_equal.
    destruct (s_addr s >? cur) eqn:E2.
    + now rewrite <- !app_assoc.
    + replace (s_addr s - cur) with 0 by lia. cbn. now rewrite <- !app_assoc.
Qed.

Lemma image_data_loop_err ss : forall cur data,
  ~ ordered_from cur (blocks ss) -> image_data_loop cur data ss = Internal ValueErrorI.
Proof.
  induction ss as [|s r IH]; intros cur data H; cbn in *.
  - tauto.
  - destruct (s_addr s <? cur) eqn:E; [reflexivity|].
    apply IH. intros Ho. apply H. split; [lia | assumption].
Qed.

Lemma image_data_loop_inv ss cur data out :
  image_data_loop cur data ss = Ok out -> ordered_from cur (blocks ss) /\ out = data ++ fill cur ss.
Proof.
  intros H.
  assert (Ho : ordered_from cur (blocks ss)).
  { revert cur data H. induction ss as [|s r IH]; intros cur data H; cbn in *; [exact I|].
    destruct (s_addr s <? cur) eqn:E; [discriminate|]. split; [lia|]. eapply IH. exact H. }
  split; [assumption|]. rewrite image_data_loop_ok in H by assumption. congruence.
Qed.

Lemma end_of_ge bl : forall c, ordered_from c bl -> c <= end_of c bl.
Proof.
  induction bl as [|[a d] r IH]; intros c H; cbn in *; [lia|].
  destruct H as [H1 H2]. specialize (IH _ H2). pose proof (len_nonneg d). lia.
Qed.

Lemma len_fill ss : forall cur, ordered_from cur (blocks ss) -> len (fill cur ss) = end_of cur (blocks ss) - cur.
Proof.
  induction ss as [|s r IH]; intros cur H; cbn in *; [unfold len; cbn; lia|]. fold (blocks r) in *.
  destruct H as [H1 H2]. rewrite !len_app, len_repeat, IH by assumption. lia.
Qed.

Lemma mem_byte_before bl : forall c a, ordered_from c bl -> a < c -> mem_byte bl a = 0.
Proof.
  induction bl as [|[ad d] r IH]; intros c a H Ha; cbn in *; [reflexivity|].
  destruct H as [H1 H2]. destruct (ad <=? a) eqn:E; [lia|]. cbn.
  apply IH with (c := ad + len d); [assumption|]. pose proof (len_nonneg d). lia.
Qed.

Lemma nth_repeat0 n i : nth i (repeat 0 n) 0 = 0.
Proof. revert i. induction n; intros [|i]; cbn; auto. Qed.

Lemma fill_mem_byte ss : forall cur a,
  ordered_from cur (blocks ss) -> cur <= a < end_of cur (blocks ss) ->
  nth (Z.to_nat (a - cur)) (fill cur ss) 0 = mem_byte (blocks ss) a.
Proof.
  induction ss as [|s r IH]; intros cur a H Ha; cbn in *; [lia|]. fold (blocks r) in *.
  destruct H as [H1 H2].
  destruct (Z.lt_ge_cases a (s_addr s)) as [Hlt|Hge].
  - rewrite app_nth1 by (rewrite repeat_length; lia). rewrite nth_repeat0.
    destruct (s_addr s <=? a) eqn:E; [lia|]. cbn. symmetry.
    apply mem_byte_before with (c := s_addr s + len (s_data s)); [assumption|].
    pose proof (len_nonneg (s_data s)). lia.
  - rewrite app_nth2 by (rewrite repeat_length; lia). rewrite repeat_length.
    destruct (Z.lt_ge_cases a (s_addr s + len (s_data s))) as [Hin|Hout].
    + assert (E1 : (s_addr s <=? a) && (a <? s_addr s + len (s_data s)) = true) by lia. rewrite E1.
      rewrite app_nth1 by (unfold len in Hin; lia). f_equal. lia.
    + assert (E1 : (s_addr s <=? a) && (a <? s_addr s + len (s_data s)) = false) by lia. rewrite E1.
      rewrite app_nth2 by (unfold len in Hout; lia).
      rewrite <- (IH (s_addr s + len (s_data s)) a) by (try assumption; lia). f_equal. unfold len in *. lia.
Qed.

Lemma ordered_from_app bl : forall c a d,
  ordered_from c (bl ++ [(a, d)]) <-> ordered_from c bl /\ end_of c bl <= a.
Proof.
  induction bl as [|[a0 d0] r IH]; intros c a d; cbn.
  - tauto.
  - rewrite IH. tauto.
Qed.

Lemma end_of_app bl : forall c a d, end_of c (bl ++ [(a, d)]) = a + len d.
Proof. induction bl as [|[a0 d0] r IH]; intros c a d; cbn; auto. Qed.

Lemma ordered_from_In bl : forall c b, ordered_from c bl -> In b bl ->
  c <= fst b /\ fst b + len (snd b) <= end_of c bl.
Proof.
  induction bl as [|[a d] r IH]; intros c b H Hin; cbn in *; [tauto|].
  destruct H as [H1 H2]. destruct Hin as [<-|Hin]; cbn.
  - split; [assumption|]. now apply end_of_ge.
  - destruct (IH _ _ H2 Hin). pose proof (len_nonneg d). split; lia.
Qed.

Lemma ordered_from_pairs bl : forall c i j b1 b2, ordered_from c bl -> (i < j)%nat ->
  nth_error bl i = Some b1 -> nth_error bl j = Some b2 -> fst b1 + len (snd b1) <= fst b2.
Proof.
  induction bl as [|[a d] r IH]; intros c i j b1 b2 H Hij N1 N2; [destruct i; discriminate|].
  cbn in H. destruct H as [H1 H2]. destruct j as [|j]; [lia|]. cbn in N2.
  destruct i as [|i]; cbn in N1.
  - injection N1 as <-. cbn. apply nth_error_In in N2.
    destruct (ordered_from_In _ _ _ H2 N2). lia.
  - apply (IH _ i j b1 b2 H2); [lia | assumption | assumption].
Qed.

(* ------------------------------------------------------------------ layout_sections *)
Arguments sd_name : simpl never.

Definition input_name (i : minput) : list string :=
  match i with
  | ISection n => [n]
  | ISectionData n => [sd_name n]
  | ISymDef n => [sd_name n]
  | IAlign _ => []
  end.
Definition placed_names (l : list minput) : list string := flat_map input_name l.

Lemma resolve_app secs a b : resolve secs (a ++ b) = resolve secs a ++ resolve secs b.
Proof. unfold resolve. apply flat_map_app. Qed.

Lemma resolve_ext l l' names :
  (forall n, In n names -> find_sect n l' = find_sect n l) -> resolve l' names = resolve l names.
Proof.
  induction names as [|n r IH]; intros H; cbn; [reflexivity|].
  rewrite H by now left. f_equal. apply IH. intros m Hm. apply H. now right.
Qed.

Definition sect_aligned (s : sect) : Prop := aligned (s_addr s) (s_align s).

Definition linv (loc : Z) (d : obj) (cur : Z) (names : list string) : Prop :=
  (forall n, In n names -> find_sect n (o_sects d) <> None) /\
  ordered_from loc (blocks (resolve (o_sects d) names)) /\
  end_of loc (blocks (resolve (o_sects d) names)) <= cur /\
  Forall sect_aligned (resolve (o_sects d) names).

(* sections that exist and are not among the names P keep everything *)
Definition frame (d d' : obj) (P : list string) : Prop :=
  forall n, find_sect n (o_sects d) <> None -> ~ In n P ->
            find_sect n (o_sects d') = find_sect n (o_sects d).

Lemma frame_refl d : frame d d [].
Proof. intros n _ _. reflexivity. Qed.

Lemma frame_trans a b c P Q : frame a b P -> frame b c Q -> frame a c (P ++ Q).
Proof.
  intros H1 H2 n Hn Hnot. rewrite in_app_iff in Hnot.
  assert (E : find_sect n (o_sects b) = find_sect n (o_sects a)) by (apply H1; tauto).
  rewrite <- E. apply H2; [congruence | tauto].
Qed.

Lemma blocks_app a b : blocks (a ++ b) = blocks a ++ blocks b.
Proof. unfold blocks. apply map_app. Qed.

Lemma find_app_existing m l x : find_sect m l <> None -> find_sect m (l ++ [x]) = find_sect m l.
Proof. intros H. rewrite find_app. destruct (find_sect m l); congruence. Qed.

Lemma linv_extend loc d cur names d' cur' s' n :
  linv loc d cur names ->
  (forall m, In m names -> find_sect m (o_sects d') = find_sect m (o_sects d)) ->
  find_sect n (o_sects d') = Some s' -> sect_aligned s' ->
  cur <= s_addr s' -> s_addr s' + len (s_data s') <= cur' ->
  linv loc d' cur' (names ++ [n]).
Proof.
  intros [R [O [E A]]] Fr Fn Al H1 H2.
  assert (Rs : resolve (o_sects d') (names ++ [n]) = resolve (o_sects d) names ++ [s']).
  { rewrite resolve_app. rewrite (resolve_ext (o_sects d) (o_sects d')) by assumption.
    cbn. rewrite Fn. reflexivity. }
  unfold linv. rewrite Rs, blocks_app. cbn [blocks map].
  split; [|split; [|split]].
  - intros m Hm. apply in_app_iff in Hm. destruct Hm as [Hm|[<-|[]]].
    + rewrite Fr by assumption. now apply R.
    + congruence.
  - apply ordered_from_app. split; [assumption | lia].
  - rewrite end_of_app. lia.
  - apply Forall_app. split; [assumption|]. constructor; [assumption | constructor].
Qed.

Lemma sect_aligned_one a c : sect_aligned (mkSect a c 1 []) .
Proof. split; cbn; [lia | apply Z.mod_1_r]. Qed.

Lemma with_sects_grows d secs :
  sec_grows (o_sects d) secs -> obj_grows d (with_sects d secs).
Proof.
  intros H. split; [exact H|]. split; [apply sym_stable_refl|]. exists []. cbn. now rewrite app_nil_r.
Qed.

Lemma sec_grows_app l x : find_sect (s_name x) l = None -> sec_grows l (l ++ [x]).
Proof.
  intros Hx n s F. exists s, []. rewrite app_nil_r. rewrite find_app_existing by congruence.
  repeat split; auto; lia.
Qed.

Lemma NoDup_app_inv {A} (a b : list A) :
  NoDup (a ++ b) -> NoDup a /\ NoDup b /\ forall x, In x a -> ~ In x b.
Proof.
  induction a as [|x t IH]; cbn; intros H.
  - split; [constructor|]. split; [assumption|]. tauto.
  - inversion H as [|? ? Hx ND]; subst. destruct (IH ND) as [N1 [N2 D]].
    split; [constructor; [rewrite in_app_iff in Hx; tauto | assumption]|].
    split; [assumption|]. intros y [<-|Hy]; [rewrite in_app_iff in Hx; tauto | auto].
Qed.

Lemma layout_input_step loc d cur names i d' cur' names' :
  ids_ok (o_syms d) -> layout_input cfg (d, cur, names) i = Ok (d', cur', names') ->
  ((forall n, In n (input_name i) -> ~ In n names) -> linv loc d cur names -> linv loc d' cur' names') /\
  names' = names ++ input_name i /\ cur <= cur' /\
  obj_grows d d' /\ frame d d' (input_name i) /\ ids_ok (o_syms d') /\ o_images d' = o_images d.
Proof.
  intros Hids H. cbn [layout_input] in H. destruct i as [n|n|n|a].
  - (* Section *)
    destruct (fix_twice cfg && existsb (String.eqb n) (placed_so_far d names)) eqn:Tw; [discriminate|].
    destruct (get_section_create n (o_sects d)) as [secs1 s] eqn:G.
    destruct (get_section_create_spec _ _ _ _ G) as [F1 [N1 [O1 C1]]].
    inv_bind H. injection H as <- <- <-.
    destruct (align_up_least _ _ _ Ha) as [[Al [Hge _]] _].
    set (s' := mkSect (s_name s) a (s_align s) (s_data s)).
    assert (Fs : find_sect n (set_sect s' secs1) = Some s') by (eapply find_set_same; eauto).
    assert (Oth : forall m, m <> n -> find_sect m (set_sect s' secs1) = find_sect m (o_sects d)).
    { intros m Hm. rewrite find_set_other by (cbn; congruence). now apply O1. }
    split; [|split; [reflexivity|split; [pose proof (len_nonneg (s_data s)); lia|split; [|split; [|split]]]]]; cbn; auto.
    + intros Hnew Inv. assert (Hn : ~ In n names) by (apply Hnew; now left).
      apply linv_extend with (d := d) (cur := cur) (s' := s').
      * assumption.
      * intros m Hm. cbn. apply Oth. congruence.
      * exact Fs.
      * exact Al.
      * cbn; lia.
      * cbn; lia.
    + apply with_sects_grows. intros m t Fm. destruct (String.eqb m n) eqn:E.
      * apply String.eqb_eq in E. subst m. exists s', []. rewrite app_nil_r.
        rewrite Fm in C1. destruct C1 as [-> _]. cbn. repeat split; auto; lia.
      * apply String.eqb_neq in E. exists t, []. rewrite app_nil_r, Oth by assumption.
        repeat split; auto; lia.
    + intros m Hm Hnot. cbn. apply Oth. intros ->. apply Hnot. now left.
  - (* SectionData *)
    destruct (find_sect (sd_name n) (o_sects d)) eqn:E1; [discriminate|].
    destruct (find_sect n (o_sects d)) as [src|] eqn:E2; [|discriminate].
    injection H as <- <- <-.
    set (s' := mkSect (sd_name n) cur 1 (s_data src)).
    assert (Ex : forall m, find_sect m (o_sects d) <> None ->
                           find_sect m (o_sects d ++ [s']) = find_sect m (o_sects d))
      by (intros; now apply find_app_existing).
    split; [|split; [reflexivity|split; [pose proof (len_nonneg (s_data src)); lia|split; [|split; [|split]]]]]; cbn; auto.
    + intros Hnew Inv. pose proof (proj1 Inv) as R.
      apply linv_extend with (d := d) (cur := cur) (s' := s').
      * assumption.
      * intros m Hm. cbn. apply Ex. now apply R.
      * cbn. rewrite find_app, E1. cbn. now rewrite String.eqb_refl.
      * split; cbn; [lia | apply Z.mod_1_r].
      * cbn; lia.
      * cbn; lia.
    + apply with_sects_grows. now apply sec_grows_app.
    + intros m Hm _. cbn. now apply Ex.
  - (* SymbolDefinition *)
    destruct (find_sect (sd_name n) (o_sects d)) eqn:E1; [discriminate|].
    inv_bind H. destruct a as [syms id0]. injection H as <- <- <-.
    destruct (merge_global_symbol_spec _ _ _ _ _ _ _ _ Hids Ha) as [St [I2 _]].
    set (s' := mkSect (sd_name n) cur 1 []).
    assert (Ex : forall m, find_sect m (o_sects d) <> None ->
                           find_sect m (o_sects d ++ [s']) = find_sect m (o_sects d))
      by (intros; now apply find_app_existing).
    split; [|split; [reflexivity|split; [lia|split; [|split; [|split]]]]]; cbn; auto.
    + intros Hnew Inv. pose proof (proj1 Inv) as R.
      apply linv_extend with (d := d) (cur := cur) (s' := s').
      * assumption.
      * intros m Hm. cbn. apply Ex. now apply R.
      * cbn. rewrite find_app, E1. cbn. now rewrite String.eqb_refl.
      * apply sect_aligned_one.
      * cbn; lia.
      * cbn. unfold len. cbn. lia.
    + split; [now apply sec_grows_app|]. split; [assumption|]. exists []. cbn. now rewrite app_nil_r.
    + intros m Hm _. cbn. now apply Ex.
  - (* Align *)
    inv_bind H. injection H as <- <- <-.
    destruct (align_up_least _ _ _ Ha) as [[_ [Hge _]] _].
    split; [|split; [cbn; now rewrite app_nil_r|split; [assumption|split; [apply obj_grows_refl|split; [|auto]]]]].
    + intros _ [R [O [E A]]]. repeat split; auto. lia.
    + intros m _ _. reflexivity.
Qed.

Lemma layout_inputs_spec loc l : forall d cur names d' cur' names',
  ids_ok (o_syms d) -> layout_inputs cfg (d, cur, names) l = Ok (d', cur', names') ->
  (NoDup (names ++ placed_names l) -> linv loc d cur names -> linv loc d' cur' names') /\
  names' = names ++ placed_names l /\
  obj_grows d d' /\ frame d d' (placed_names l) /\ ids_ok (o_syms d') /\ o_images d' = o_images d.
Proof.
  induction l as [|i r IH]; intros d cur names d' cur' names' Hids H; cbn in H.
  - injection H as <- <- <-. cbn. rewrite app_nil_r.
    split; [auto|]. split; [reflexivity|]. split; [apply obj_grows_refl|].
    split; [apply frame_refl|]. auto.
  - inv_bind H. destruct a as [[d1 cur1] names1].
    destruct (layout_input_step loc _ _ _ _ _ _ _ Hids Ha) as [L1 [-> [_ [G1 [F1 [I1 Im1]]]]]].
    destruct (IH _ _ _ _ _ _ I1 H) as [L2 [-> [G2 [F2 [I2 Im2]]]]].
    split; [|split; [cbn; now rewrite <- app_assoc|
      split; [eapply obj_grows_trans; eassumption|
      split; [cbn; eapply frame_trans; eassumption|split; [assumption | congruence]]]]].
    intros ND Inv. cbn [placed_names flat_map] in ND. fold (placed_names r) in ND.
    apply L2; [now rewrite <- app_assoc|]. apply L1; [|assumption].
    destruct (NoDup_app_inv _ _ ND) as [_ [_ D]].
    intros n Hn Hin. apply (D n Hin). apply in_app_iff. now left.
Qed.

(* what layout_sections cfg establishes for one memory and its image (in destination d) *)
Definition mem_placed (d : obj) (m : memory) (img : image) : Prop :=
  i_name img = m_name m /\ i_addr img = m_loc m /\ i_sects img = placed_names (m_inputs m) /\
  (forall n, In n (i_sects img) -> find_sect n (o_sects d) <> None) /\
  ordered_from (m_loc m) (blocks (resolve (o_sects d) (i_sects img))) /\
  end_of (m_loc m) (blocks (resolve (o_sects d) (i_sects img))) <= m_loc m + m_size m /\
  Forall sect_aligned (resolve (o_sects d) (i_sects img)) /\
  image_data (o_sects d) img = Ok (fill (m_loc m) (resolve (o_sects d) (i_sects img))).

Lemma mem_placed_frame d d' m img :
  mem_placed d m img ->
  (forall n, In n (i_sects img) -> find_sect n (o_sects d') = find_sect n (o_sects d)) ->
  mem_placed d' m img.
Proof.
  intros [A [B [C [R [O [E [Al Im]]]]]]] Fr.
  pose proof (resolve_ext (o_sects d) (o_sects d') (i_sects img) Fr) as Rs.
  unfold mem_placed, image_data in *. rewrite Rs.
  repeat split; auto. intros n Hn. rewrite Fr by assumption. auto.
Qed.

Lemma layout_memory_grows d m d' :
  ids_ok (o_syms d) -> layout_memory cfg d m = Ok d' ->
  obj_grows d d' /\ frame d d' (placed_names (m_inputs m)) /\ ids_ok (o_syms d') /\
  exists img, o_images d' = o_images d ++ [img] /\ i_sects img = placed_names (m_inputs m) /\
    (NoDup (placed_names (m_inputs m)) -> mem_placed d' m img).
Proof.
  intros Hids H. unfold layout_memory in H. inv_bind H. destruct a as [[d1 cur] names].
  inv_bind H. destruct (len a >? m_size m) eqn:Sz; [discriminate|]. injection H as <-.
  destruct (layout_inputs_spec (m_loc m) _ _ _ _ _ _ _ Hids Ha) as [L [-> [G [F [I Im]]]]].
  cbn [app] in *.
  split; [|split; [|split]]; cbn.
  - destruct G as [G1 [G2 G3]]. split; [exact G1|]. split; [exact G2|]. exact G3.
  - exact F.
  - exact I.
  - eexists. split; [rewrite Im; reflexivity|]. split; [reflexivity|]. intros ND.
    assert (Inv0 : linv (m_loc m) d (m_loc m) []).
    { split; [intros n []|]. cbn. repeat split; [lia | constructor]. }
    destruct (L ND Inv0) as [R [O [E Al]]].
    unfold image_data in Ha0. cbn [i_addr i_sects] in Ha0.
    destruct (image_data_loop_inv _ _ _ _ Ha0) as [_ Hd]. cbn [app] in Hd. subst a.
    rewrite len_fill in Sz by assumption.
    unfold mem_placed, image_data. cbn [i_name i_addr i_sects o_sects]. repeat split; auto. lia.
Qed.

Definition all_placed (mems : list memory) : list string :=
  flat_map (fun m => placed_names (m_inputs m)) mems.

Lemma layout_sections_spec mems : forall d d',
  ids_ok (o_syms d) -> layout_sections cfg d mems = Ok d' ->
  obj_grows d d' /\ frame d d' (all_placed mems) /\ ids_ok (o_syms d') /\
  exists imgs, o_images d' = o_images d ++ imgs /\ flat_map i_sects imgs = all_placed mems /\
    (NoDup (all_placed mems) -> Forall2 (mem_placed d') mems imgs).
Proof.
  induction mems as [|m r IH]; intros d d' Hids H; cbn in H.
  - injection H as <-. split; [apply obj_grows_refl|]. split; [apply frame_refl|]. split; [assumption|].
    exists []. rewrite app_nil_r. split; [reflexivity|]. split; [reflexivity|]. constructor.
  - inv_bind H. destruct (layout_memory_grows _ _ _ Hids Ha) as [G1 [F1 [I1 [img [Im1 [Is1 P1]]]]]].
    destruct (IH _ _ I1 H) as [G2 [F2 [I2 [imgs [Im2 [Is2 P2]]]]]].
    split; [eapply obj_grows_trans; eassumption|].
    split; [cbn; eapply frame_trans; eassumption|]. split; [assumption|].
    exists (img :: imgs). split; [rewrite Im2, Im1; now rewrite <- app_assoc|].
    split; [cbn; now rewrite Is1, Is2|].
    intros ND. cbn in ND. destruct (NoDup_app_inv _ _ ND) as [N1 [N2 D]].
    constructor; [|auto].
    apply mem_placed_frame with (d := a); [auto|].
    intros n Hn. specialize (P1 N1). destruct P1 as [_ [_ [C [R _]]]].
    apply F2; [now apply R|]. apply D. now rewrite <- C.
Qed.

(* ------------------------------------------------------------------ whole link *)
Lemma inject_extra_spec extra : forall syms syms',
  ids_ok syms -> inject_extra syms extra = Ok syms' -> ids_ok syms'.
Proof.
  induction extra as [|[n v] r IH]; intros syms syms' Hids H; cbn in H.
  - now injection H as <-.
  - inv_bind H. destruct a as [syms1 id]. apply inject_symbol_spec in Ha. destruct Ha as [-> _].
    eapply IH; [|exact H]. apply ids_ok_app; auto.
Qed.

Lemma ids_ok_nil : ids_ok [].
Proof. intros [|i] s H; discriminate. Qed.

Definition entry_name (lay : option layout) (entry : option string) : option string :=
  match entry with
  | Some e => Some e
  | None => match lay with Some l => l_entry l | None => None end
  end.

Lemma link_trace_inv objs lay partial entry extra out ts :
  link_trace cfg objs lay partial entry extra = Ok (out, ts) ->
  exists d1, ids_ok (o_syms d1) /\ o_images d1 = [] /\ Forall2 (injected d1) objs ts /\
    ((partial = true /\ lay = None /\ out = d1) \/
     (partial = false /\ check_undefined_symbols out = Ok tt /\
      match lay with Some l => layout_sections cfg d1 (l_mems l) = Ok out | None => out = d1 end)).
Proof.
  unfold link_trace. destruct objs as [|o0 objs0]; [discriminate|]. set (objs := o0 :: objs0).
  fold (entry_name lay entry). intros H.
  inv_bind H. destruct a as [syms0 eid]. inv_bind H. inv_bind H. destruct a0 as [d1 ts1].
  assert (I0 : ids_ok syms0).
  { destruct (entry_name lay entry) as [e|].
    - inv_bind Ha. destruct a0 as [sy i]. injection Ha as <- <-.
      apply inject_symbol_spec in Ha2. destruct Ha2 as [-> _]. apply ids_ok_app; [apply ids_ok_nil | reflexivity].
    - injection Ha as <- <-. apply ids_ok_nil. }
  pose proof (inject_extra_spec _ _ _ I0 Ha0) as I1.
  destruct (merge_objects_spec objs (mkObj [] a [] [] eid) _ _ I1 Ha1) as [F [G [I2 Im]]]. cbn in Im.
  exists d1. split; [assumption|]. split; [assumption|].
  destruct partial.
  - destruct lay; [discriminate|]. injection H as <- <-. split; [assumption|]. left. auto.
  - inv_bind H. inv_bind H. injection H as <- <-. split; [assumption|]. right.
    destruct a1. split; [reflexivity|]. split; [assumption|].
    destruct lay as [l|]; [assumption|]. now injection Ha2 as <-.
Qed.

Lemma link_trace_injected objs lay partial entry extra out ts :
  link_trace cfg objs lay partial entry extra = Ok (out, ts) -> Forall2 (injected out) objs ts.
Proof.
  intros H. destruct (link_trace_inv _ _ _ _ _ _ _ H) as [d1 [I [Im [F C]]]].
  destruct C as [[_ [_ ->]]|[_ [_ L]]]; [assumption|].
  destruct lay as [l|]; [|now subst].
  destruct (layout_sections_spec _ _ _ I L) as [G _].
  eapply Forall2_mono; [|exact F]. intros o t. now apply injected_grows.
Qed.

Lemma link_trace_layout objs l entry extra out ts :
  link_trace cfg objs (Some l) false entry extra = Ok (out, ts) ->
  NoDup (all_placed (l_mems l)) -> Forall2 (mem_placed out) (l_mems l) (o_images out).
Proof.
  intros H ND. destruct (link_trace_inv _ _ _ _ _ _ _ H) as [d1 [I [Im [F C]]]].
  destruct C as [[? _]|[_ [_ L]]]; [discriminate|].
  destruct (layout_sections_spec _ _ _ I L) as [_ [_ [_ [imgs [E [_ P]]]]]].
  rewrite Im in E. cbn in E. rewrite E. auto.
Qed.

Lemma link_trace_defined objs lay entry extra out ts :
  link_trace cfg objs lay false entry extra = Ok (out, ts) ->
  forall s, In s (o_syms out) -> is_global (y_bind s) = true -> y_value s <> None.
Proof.
  intros H s Hs G. destruct (link_trace_inv _ _ _ _ _ _ _ H) as [d1 [_ [_ [_ C]]]].
  destruct C as [[? _]|[_ [U _]]]; [discriminate|].
  unfold check_undefined_symbols in U.
  destruct (existsb undefined_global (o_syms out)) eqn:E; [discriminate|].
  intros Hv. assert (existsb undefined_global (o_syms out) = true); [|congruence].
  apply existsb_exists. exists s. split; [assumption|]. unfold undefined_global, y_undefined.
  now rewrite Hv, G.
Qed.

(* ---- element-wise readings *)
Lemma Forall2_nth {A B} (P : A -> B -> Prop) l l' i a b :
  Forall2 P l l' -> nth_error l i = Some a -> nth_error l' i = Some b -> P a b.
Proof.
  intros F. revert i. induction F; intros [|i] H1 H2; cbn in *; try discriminate.
  - now injection H1 as <-; injection H2 as <-.
  - eauto.
Qed.

Lemma Forall2_len {A B} (P : A -> B -> Prop) l l' : Forall2 P l l' -> List.length l = List.length l'.
Proof. induction 1; cbn; auto. Qed.

Lemma contrib_contribution out inp rec :
  contrib out inp rec ->
  fst rec = s_name inp /\
  exists os, find_sect (s_name inp) out = Some os /\ s_align inp <= s_align os /\
             contribution_at (s_data os) (s_align inp) (snd rec) (s_data inp).
Proof.
  intros [H1 [H2 [s [pre [k [post [F [D [Hk [Hl [Hal Hmin]]]]]]]]]]].
  split; [assumption|]. exists s. split; [assumption|]. split; [assumption|].
  exists pre, k, post. split; [assumption|]. split; [lia|]. split; [|split; [lia|lia]].
  split; [assumption|]. split; [lia|]. intros y Hy.
  replace y with (len pre + (y - len pre)) by lia. apply Hmin. lia.
Qed.

Lemma contribution_bytes_at out a off bytes :
  contribution_at out a off bytes -> bytes_at out off bytes /\ aligned off a.
Proof.
  intros [pre [k [post [E [Hk [[Al _] [Ho _]]]]]]]. split; [|assumption].
  exists (pre ++ repeat 0 (Z.to_nat k)), post. split; [rewrite E; now rewrite <- app_assoc|].
  rewrite len_app, len_repeat. lia.
Qed.

Lemma c12_contents objs lay partial entry extra out ts :
  link_trace cfg objs lay partial entry extra = Ok (out, ts) ->
  List.length ts = List.length objs /\
  forall i o t, nth_error objs i = Some o -> nth_error ts i = Some t ->
    List.length (fst t) = List.length (o_sects o) /\
    forall j s rec, nth_error (o_sects o) j = Some s -> nth_error (fst t) j = Some rec ->
      fst rec = s_name s /\
      exists os, find_sect (s_name s) (o_sects out) = Some os /\ s_align s <= s_align os /\
                 contribution_at (s_data os) (s_align s) (snd rec) (s_data s).
Proof.
  intros H. pose proof (link_trace_injected _ _ _ _ _ _ _ H) as F.
  split; [symmetry; eapply Forall2_len; exact F|].
  intros i o t Ho Ht. destruct (Forall2_nth _ _ _ _ _ _ F Ho Ht) as [C _].
  split; [symmetry; eapply Forall2_len; exact C|].
  intros j s rec Hs Hr. apply contrib_contribution. eapply Forall2_nth; eassumption.
Qed.

Lemma c12_offsets objs lay partial entry extra out ts i o t j s rec :
  link_trace cfg objs lay partial entry extra = Ok (out, ts) ->
  nth_error objs i = Some o -> nth_error ts i = Some t ->
  nth_error (o_sects o) j = Some s -> nth_error (fst t) j = Some rec ->
  fst rec = s_name s /\ aligned (snd rec) (s_align s).
Proof.
  intros H Ho Ht Hs Hr. destruct (c12_contents _ _ _ _ _ _ _ H) as [_ C].
  destruct (C _ _ _ Ho Ht) as [_ C2]. destruct (C2 _ _ _ Hs Hr) as [N [os [_ [_ K]]]].
  split; [assumption|]. now destruct (contribution_bytes_at _ _ _ _ K).
Qed.

Lemma c12_symbols objs lay partial entry extra out ts i o t k sy id v :
  link_trace cfg objs lay partial entry extra = Ok (out, ts) ->
  nth_error objs i = Some o -> nth_error ts i = Some t ->
  nth_error (o_syms o) k = Some sy -> nth_error (snd t) k = Some id -> y_value sy = Some v ->
  exists ds, 0 <= id /\ nth_error (o_syms out) (Z.to_nat id) = Some ds /\ y_id ds = id /\
    y_name ds = y_name sy /\ y_bind ds = y_bind sy /\
    ((exists sc off, y_sect sy = Some sc /\ lookup sc (fst t) = Some off /\
                     y_value ds = Some (off + v) /\ y_sect ds = Some sc) \/
     (fix_abs cfg = true /\ y_sect sy = None /\ y_value ds = Some v /\ y_sect ds = None)).
Proof.
  intros H Ho Ht Hs Hi Hv. pose proof (link_trace_injected _ _ _ _ _ _ _ H) as F.
  destruct (Forall2_nth _ _ _ _ _ _ F Ho Ht) as [_ [M _]].
  destruct (Forall2_nth _ _ _ _ _ _ M Hs Hi) as [H0 [ds [N [I [A [B C]]]]]].
  exists ds. repeat split; auto.
Qed.

(* every symbol of every input is represented (same name and binding), defined or not *)
Lemma c12_symbols_present objs lay partial entry extra out ts i o t k sy :
  link_trace cfg objs lay partial entry extra = Ok (out, ts) ->
  nth_error objs i = Some o -> nth_error ts i = Some t ->
  nth_error (o_syms o) k = Some sy ->
  exists id ds, nth_error (snd t) k = Some id /\ nth_error (o_syms out) (Z.to_nat id) = Some ds /\
                y_name ds = y_name sy /\ y_bind ds = y_bind sy.
Proof.
  intros H Ho Ht Hs. pose proof (link_trace_injected _ _ _ _ _ _ _ H) as F.
  destruct (Forall2_nth _ _ _ _ _ _ F Ho Ht) as [_ [M _]].
  pose proof (Forall2_len _ _ _ M) as L.
  destruct (nth_error (snd t) k) as [id|] eqn:E.
  - destruct (Forall2_nth _ _ _ _ _ _ M Hs E) as [H0 [ds [N [I [A [B C]]]]]]. eauto 8.
  - apply nth_error_None in E. assert (k < List.length (o_syms o))%nat by (apply nth_error_Some; congruence). lia.
Qed.

(* the recorded offset a symbol is shifted by is the offset of its section, when the object's
   section names are unique *)
Lemma lookup_unique sects : forall offs j s rec,
  Forall2 (fun s rec => fst rec = s_name s) sects offs -> NoDup (map s_name sects) ->
  nth_error sects j = Some s -> nth_error offs j = Some rec -> lookup (s_name s) offs = Some (snd rec).
Proof.
  induction sects as [|x r IH]; intros offs j s rec F ND Hs Hr; [destruct j; discriminate|].
  inversion F as [|? [n0 off0] ? offs' Hx F']; subst. cbn in Hx. subst n0.
  inversion ND as [|? ? Hnot ND']; subst. cbn [lookup].
  destruct j as [|j]; cbn in Hs, Hr.
  - injection Hs as <-. injection Hr as <-. cbn.
    assert (L : lookup (s_name x) offs' = None).
    { clear - F' Hnot. revert offs' F'. induction r as [|y t IHt]; intros offs' F'; inversion F' as [|? [n1 o1] ? ? Hy F'']; subst; cbn; [reflexivity|].
      cbn in Hy. subst n1. rewrite IHt; [|cbn in Hnot; tauto|assumption].
      destruct (String.eqb (s_name y) (s_name x)) eqn:E; [|reflexivity].
      apply String.eqb_eq in E. cbn in Hnot. tauto. }
    rewrite L. now rewrite String.eqb_refl.
  - rewrite (IH _ _ _ _ F' ND' Hs Hr). reflexivity.
Qed.

Lemma mem_placed_facts d m img :
  mem_placed d m img ->
  let ss := resolve (o_sects d) (i_sects img) in
  i_name img = m_name m /\ i_addr img = m_loc m /\ i_sects img = placed_names (m_inputs m) /\
  (forall s, In s ss -> aligned (s_addr s) (s_align s) /\
                        m_loc m <= s_addr s /\ s_addr s + len (s_data s) <= m_loc m + m_size m) /\
  (forall i j s1 s2, (i < j)%nat -> nth_error ss i = Some s1 -> nth_error ss j = Some s2 ->
                     s_addr s1 + len (s_data s1) <= s_addr s2) /\
  exists bytes, image_data (o_sects d) img = Ok bytes /\ len bytes <= m_size m /\
    forall k, 0 <= k < len bytes -> nth (Z.to_nat k) bytes 0 = mem_byte (blocks ss) (m_loc m + k).
Proof.
  intros [A [B [C [R [O [E [Al Im]]]]]]] ss. fold ss in O, E, Al, Im.
  split; [assumption|]. split; [assumption|]. split; [assumption|]. split; [|split].
  - intros s Hs. split; [eapply Forall_forall in Al; eauto|].
    assert (Hb : In (s_addr s, s_data s) (blocks ss)) by (unfold blocks; apply in_map_iff; eauto).
    destruct (ordered_from_In _ _ _ O Hb) as [X Y]. cbn in X, Y. lia.
  - intros i j s1 s2 Hij N1 N2.
    apply (ordered_from_pairs (blocks ss) (m_loc m) i j (s_addr s1, s_data s1) (s_addr s2, s_data s2) O Hij);
      unfold blocks; rewrite nth_error_map; [now rewrite N1 | now rewrite N2].
  - eexists. split; [exact Im|]. rewrite len_fill by assumption. split; [lia|].
    intros k Hk. rewrite <- (fill_mem_byte ss (m_loc m) (m_loc m + k)) by (try assumption; lia). f_equal. lia.
Qed.

Lemma image_data_spec secs img :
  let ss := resolve secs (i_sects img) in
  (ordered_from (i_addr img) (blocks ss) ->
     exists bytes, image_data secs img = Ok bytes /\ bytes = fill (i_addr img) ss /\
       len bytes = end_of (i_addr img) (blocks ss) - i_addr img /\
       forall k, 0 <= k < len bytes -> nth (Z.to_nat k) bytes 0 = mem_byte (blocks ss) (i_addr img + k)) /\
  (~ ordered_from (i_addr img) (blocks ss) -> image_data secs img = Internal ValueErrorI).
Proof.
  intros ss. unfold image_data. fold ss. split.
  - intros O. eexists. split; [now apply image_data_loop_ok|]. cbn [app]. split; [reflexivity|].
    rewrite len_fill by assumption. split; [reflexivity|].
    intros k Hk. rewrite <- (fill_mem_byte ss (i_addr img) (i_addr img + k)) by (try assumption; lia). f_equal. lia.
  - apply image_data_loop_err.
Qed.

Definition placed_ok (out : obj) (m : memory) (img : image) : Prop :=
  let ss := resolve (o_sects out) (i_sects img) in
  i_name img = m_name m /\ i_addr img = m_loc m /\ i_sects img = placed_names (m_inputs m) /\
  (forall s, In s ss -> aligned (s_addr s) (s_align s) /\
                        m_loc m <= s_addr s /\ s_addr s + len (s_data s) <= m_loc m + m_size m) /\
  (forall i j s1 s2, (i < j)%nat -> nth_error ss i = Some s1 -> nth_error ss j = Some s2 ->
                     s_addr s1 + len (s_data s1) <= s_addr s2) /\
  exists bytes, image_data (o_sects out) img = Ok bytes /\ len bytes <= m_size m /\
    forall k, 0 <= k < len bytes -> nth (Z.to_nat k) bytes 0 = mem_byte (blocks ss) (m_loc m + k).

Lemma c12_layout objs l entry extra out ts :
  link_trace cfg objs (Some l) false entry extra = Ok (out, ts) ->
  NoDup (all_placed (l_mems l)) -> Forall2 (placed_ok out) (l_mems l) (o_images out).
Proof.
  intros H ND. eapply Forall2_mono; [|eapply link_trace_layout; eassumption].
  intros m img P. exact (mem_placed_facts _ _ _ P).
Qed.

Definition reloc_shifted (t : trace) (o : obj) (r r' : reloc) : Prop :=
  exists off id, lookup (r_sect r) (fst t) = Some off /\
    lookupZ (r_sym r) (combine (map y_id (o_syms o)) (snd t)) = Some id /\
    r' = mkReloc (r_type r) id (r_sect r) (off + r_off r) (r_addend r).

Lemma c12_relocs objs lay partial entry extra out ts i o t :
  link_trace cfg objs lay partial entry extra = Ok (out, ts) ->
  nth_error objs i = Some o -> nth_error ts i = Some t ->
  exists pre rels post, o_relocs out = pre ++ rels ++ post /\
                        Forall2 (reloc_shifted t o) (o_relocs o) rels.
Proof.
  intros H Ho Ht. pose proof (link_trace_injected _ _ _ _ _ _ _ H) as F.
  destruct (Forall2_nth _ _ _ _ _ _ F Ho Ht) as [_ [_ [pre [rels [post [E R]]]]]].
  exists pre, rels, post. split; [assumption|]. eapply Forall2_mono; [|exact R].
  intros r r' Hr. unfold inject_reloc in Hr. unfold reloc_shifted.
  destruct (lookup (r_sect r) (fst t)) as [off|]; [|discriminate].
  destruct (lookupZ (r_sym r) _) as [id|]; [|discriminate]. injection Hr as <-. eauto.
Qed.

Lemma c12_final_address addr a_out off a :
  aligned addr a_out -> (a | a_out) -> aligned off a -> aligned (addr + off) a.
Proof.
  intros [H1 H2] D [H3 H4]. split; [assumption|].
  apply divide_mod0; [assumption|]. apply Z.divide_add_r.
  - apply Z.divide_trans with a_out; [assumption|]. now apply divide_mod0.
  - now apply divide_mod0.
Qed.

Lemma loops_total x data a : a <> 0 ->
  (exists c, align_up x a = Ok c) /\ (exists d, pad_to data a = Ok d).
Proof.
  intros Ha. split.
  - destruct (align_up_spec x a Ha) as [k [_ [E _]]]. eauto.
  - destruct (pad_to_spec data a Ha) as [k [_ [E _]]]. eauto.
Qed.

(* ------------------------------------------------------------------ duplicate definitions *)
(* global definitions contributed by the inputs, in processing order *)
Definition sym_def (s : sym) : list string :=
  if is_global (y_bind s) && negb (y_undefined s) then [y_name s] else [].
Definition obj_defs (o : obj) : list string := flat_map sym_def (o_syms o).
Definition input_def (i : minput) : list string := match i with ISymDef n => [n] | _ => [] end.
Definition mem_defs (m : memory) : list string := flat_map input_def (m_inputs m).
Definition all_defs (objs : list obj) (lay : option layout) (partial : bool)
           (extra : list (string * Z)) : list string :=
  map fst extra ++ flat_map obj_defs objs ++
  (if partial then [] else match lay with Some l => flat_map mem_defs (l_mems l) | None => [] end).

(* D = names defined so far: duplicate free, and exactly the defined globals of the destination *)
Definition DInv (syms : list sym) (D : list string) : Prop :=
  NoDup D /\ forall n, In n D <-> exists s, find_global n syms = Some s /\ y_value s <> None.

Lemma find_global_app l x n :
  find_global n (l ++ [x]) =
  match find_global n l with
  | Some s => Some s
  | None => if is_global (y_bind x) && String.eqb (y_name x) n then Some x else None
  end.
Proof.
  induction l as [|y r IH]; cbn; [reflexivity|].
  destruct (is_global (y_bind y) && String.eqb (y_name y) n); auto.
Qed.

Lemma find_global_define_other m n v sc l : m <> n ->
  find_global m (define_global n v sc l) = find_global m l.
Proof.
  intros Hm. induction l as [|x r IH]; cbn; [reflexivity|].
  destruct (is_global (y_bind x) && String.eqb (y_name x) n) eqn:E; cbn.
  - apply andb_true_iff in E. destruct E as [E1 E2]. apply String.eqb_eq in E2.
    assert (E3 : String.eqb (y_name x) m = false) by (apply String.eqb_neq; congruence).
    now rewrite E3, !andb_false_r.
  - destruct (is_global (y_bind x) && String.eqb (y_name x) m); auto.
Qed.

Lemma find_global_define_same n v sc l s :
  find_global n l = Some s ->
  find_global n (define_global n v sc l) =
    Some (mkSym (y_id s) (y_name s) (y_bind s) (Some v) sc (y_typ s) (y_size s)).
Proof.
  induction l as [|x r IH]; cbn; [discriminate|].
  destruct (is_global (y_bind x) && String.eqb (y_name x) n) eqn:E; cbn; intros H.
  - injection H as Hx. subst s. unfold is_global in *. now rewrite E.
  - rewrite E. auto.
Qed.

Lemma DInv_not_in syms D n : DInv syms D ->
  (forall s, find_global n syms = Some s -> y_value s = None) -> ~ In n D.
Proof.
  intros [_ I] H Hin. apply I in Hin. destruct Hin as [s [F V]]. apply V. auto.
Qed.

Lemma NoDup_snoc {A} (l : list A) x : NoDup l -> ~ In x l -> NoDup (l ++ [x]).
Proof.
  intros N H. induction N as [|y t Hy N IH]; cbn.
  - constructor; [tauto | constructor].
  - constructor.
    + rewrite in_app_iff. cbn. intros [?|[?|[]]]; [tauto|]. subst. apply H. now left.
    + apply IH. intros Hx. apply H. now right.
Qed.

Lemma merge_def_D syms D n sc v typ size syms' id :
  DInv syms D -> merge_global_symbol syms n sc (Some v) typ size = Ok (syms', id) ->
  DInv syms' (D ++ [n]).
Proof.
  intros Inv H. unfold merge_global_symbol in H.
  destruct (find_global n syms) as [s0|] eqn:F.
  - destruct (y_value s0) eqn:V; [discriminate|]. injection H as <- <-.
    assert (Hn : ~ In n D).
    { apply (DInv_not_in _ _ _ Inv). intros s Hs. congruence. }
    destruct Inv as [ND I]. split; [now apply NoDup_snoc|].
    intros m. rewrite in_app_iff. cbn. destruct (String.eqb m n) eqn:E.
    + apply String.eqb_eq in E. subst m. rewrite (find_global_define_same _ _ _ _ _ F).
      split; [intros _; eexists; split; [reflexivity | cbn; discriminate] | tauto].
    + apply String.eqb_neq in E. rewrite find_global_define_other by assumption. rewrite I.
      split; [intros [?|[?|[]]]; [assumption | congruence] | tauto].
  - apply inject_symbol_spec in H. destruct H as [-> ->].
    assert (Hn : ~ In n D).
    { apply (DInv_not_in _ _ _ Inv). intros s Hs. congruence. }
    destruct Inv as [ND I]. split; [now apply NoDup_snoc|].
    intros m. rewrite in_app_iff, find_global_app. cbn. destruct (String.eqb m n) eqn:E.
    + apply String.eqb_eq in E. subst m. rewrite F. cbn. rewrite String.eqb_refl.
      split; [intros _; eexists; split; [reflexivity | cbn; discriminate] | tauto].
    + apply String.eqb_neq in E. rewrite I.
      assert (E2 : String.eqb n m = false) by (apply String.eqb_neq; congruence). rewrite E2.
      destruct (find_global m syms) as [s1|]; cbn.
      * split; [intros [?|[?|[]]]; [assumption | congruence] | tauto].
      * split; [intros [[s [? _]]|[?|[]]]; [discriminate | congruence] | intros [s [? _]]; discriminate].
Qed.

Lemma append_nondef_D syms D x :
  DInv syms D -> (is_global (y_bind x) = true -> y_value x = None /\ find_global (y_name x) syms = None) ->
  DInv (syms ++ [x]) D.
Proof.
  intros [ND I] Hx. split; [assumption|]. intros m. rewrite I, find_global_app.
  destruct (find_global m syms) as [s|] eqn:F; [reflexivity|].
  destruct (is_global (y_bind x) && String.eqb (y_name x) m) eqn:E.
  - apply andb_true_iff in E. destruct E as [E1 E2]. destruct (Hx E1) as [V _].
    split; [intros [s [? _]]; discriminate | intros [s [Hs Hv]]; injection Hs as <-; congruence].
  - reflexivity.
Qed.

Lemma merge_undef_D syms D n sc typ size syms' id :
  DInv syms D -> merge_global_symbol syms n sc None typ size = Ok (syms', id) -> DInv syms' D.
Proof.
  intros Inv H. unfold merge_global_symbol in H.
  destruct (find_global n syms) as [s0|] eqn:F.
  - now injection H as <- <-.
  - apply inject_symbol_spec in H. destruct H as [-> ->].
    apply append_nondef_D; [assumption|]. cbn. auto.
Qed.

Lemma inject_sym_D offs syms D s syms' id :
  DInv syms D -> inject_sym cfg offs syms s = Ok (syms', id) -> DInv syms' (D ++ sym_def s).
Proof.
  intros Inv H. unfold inject_sym in H. inv_bind H. destruct a as [value sect]. cbn [fst snd] in H.
  unfold sym_def, y_undefined. destruct (is_global (y_bind s)) eqn:G; cbn [andb].
  - destruct (y_value s) as [v|]; cbn [negb].
    + destruct (y_sect s).
      * destruct (lookup s0 offs); [|discriminate]. injection Ha as <- <-. eapply merge_def_D; eassumption.
      * destruct (fix_abs cfg); [|discriminate]. injection Ha as <- <-. eapply merge_def_D; eassumption.
    + injection Ha as <- <-. rewrite app_nil_r. eapply merge_undef_D; eassumption.
  - rewrite app_nil_r. apply inject_symbol_spec in H. destruct H as [-> ->].
    apply append_nondef_D; [assumption|]. cbn [y_bind]. congruence.
Qed.

Lemma inject_syms_D offs inps : forall syms D syms' ids,
  DInv syms D -> inject_syms cfg offs syms inps = Ok (syms', ids) ->
  DInv syms' (D ++ flat_map sym_def inps).
Proof.
  induction inps as [|s r IH]; intros syms D syms' ids Inv H; cbn in H.
  - injection H as <- <-. cbn. now rewrite app_nil_r.
  - inv_bind H. destruct a as [syms1 id]. inv_bind H. destruct a as [syms2 ids2]. injection H as <- <-.
    cbn. rewrite app_assoc. eapply IH; [|eassumption]. eapply inject_sym_D; eassumption.
Qed.

Lemma merge_objects_D objs : forall d D d' ts,
  DInv (o_syms d) D -> merge_objects cfg d objs = Ok (d', ts) ->
  DInv (o_syms d') (D ++ flat_map obj_defs objs).
Proof.
  induction objs as [|o r IH]; intros d D d' ts Inv H; cbn in H.
  - injection H as <- <-. cbn. now rewrite app_nil_r.
  - inv_bind H. destruct a as [d1 t]. inv_bind H. destruct a as [d2 ts2]. injection H as <- <-.
    cbn. rewrite app_assoc. eapply IH; [|eassumption].
    unfold inject_object in Ha. inv_bind Ha. destruct a as [secs offs]. inv_bind Ha. destruct a as [syms ids].
    inv_bind Ha. inv_bind Ha. injection Ha as <- _. cbn. eapply inject_syms_D; eassumption.
Qed.

Lemma layout_inputs_D l : forall st D st',
  DInv (o_syms (fst (fst st))) D -> layout_inputs cfg st l = Ok st' ->
  DInv (o_syms (fst (fst st'))) (D ++ flat_map input_def l).
Proof.
  induction l as [|i r IH]; intros st D st' Inv H; cbn in H.
  - injection H as <-. cbn. now rewrite app_nil_r.
  - inv_bind H. cbn. rewrite app_assoc. eapply IH; [|eassumption].
    destruct st as [[d cur] names]. cbn [layout_input fst] in *. destruct i as [n|n|n|al]; cbn [input_def].
    + destruct (fix_twice cfg && existsb (String.eqb n) (placed_so_far d names)); [discriminate|].
      destruct (get_section_create n (o_sects d)) as [secs1 s]. inv_bind Ha. injection Ha as <-.
      cbn. now rewrite app_nil_r.
    + destruct (find_sect (sd_name n) (o_sects d)); [discriminate|].
      destruct (find_sect n (o_sects d)); [|discriminate]. injection Ha as <-. cbn. now rewrite app_nil_r.
    + destruct (find_sect (sd_name n) (o_sects d)); [discriminate|].
      inv_bind Ha. destruct a0 as [syms id0]. injection Ha as <-. cbn. eapply merge_def_D; eassumption.
    + inv_bind Ha. injection Ha as <-. cbn. now rewrite app_nil_r.
Qed.

Lemma layout_sections_D mems : forall d D d',
  DInv (o_syms d) D -> layout_sections cfg d mems = Ok d' ->
  DInv (o_syms d') (D ++ flat_map mem_defs mems).
Proof.
  induction mems as [|m r IH]; intros d D d' Inv H; cbn in H.
  - injection H as <-. cbn. now rewrite app_nil_r.
  - inv_bind H. cbn. rewrite app_assoc. eapply IH; [|eassumption].
    unfold layout_memory in Ha. inv_bind Ha. destruct a0 as [[d1 cur] names]. inv_bind Ha.
    destruct (len a0 >? m_size m); [discriminate|]. injection Ha as <-. cbn.
    apply (layout_inputs_D _ (d, m_loc m, []) D _ Inv Ha0).
Qed.

Lemma inject_extra_D extra : forall syms D syms',
  DInv syms D -> inject_extra syms extra = Ok syms' -> DInv syms' (D ++ map fst extra).
Proof.
  induction extra as [|[n v] r IH]; intros syms D syms' Inv H; cbn in H.
  - injection H as <-. cbn. now rewrite app_nil_r.
  - inv_bind H. destruct a as [syms1 id]. cbn. change (n :: map fst r) with ([n] ++ map fst r).
    rewrite app_assoc. eapply IH; [|eassumption].
    assert (M : merge_global_symbol syms n None (Some v) OBJECT 0 = Ok (syms1, id)).
    { unfold merge_global_symbol. destruct (find_global n syms) eqn:F2; [|exact Ha].
      unfold inject_symbol in Ha. cbn in Ha. rewrite F2 in Ha. discriminate. }
    eapply merge_def_D; eassumption.
Qed.

Lemma link_trace_no_duplicate_definitions objs lay partial entry extra out ts :
  link_trace cfg objs lay partial entry extra = Ok (out, ts) ->
  NoDup (all_defs objs lay partial extra).
Proof.
  unfold link_trace. destruct objs as [|o0 objs0]; [discriminate|]. set (objs := o0 :: objs0).
  fold (entry_name lay entry). intros H.
  inv_bind H. destruct a as [syms0 eid]. inv_bind H. inv_bind H. destruct a0 as [d1 ts1].
  assert (I0 : DInv syms0 []).
  { destruct (entry_name lay entry) as [e|].
    - inv_bind Ha. destruct a0 as [sy i]. injection Ha as <- <-.
      apply inject_symbol_spec in Ha2. destruct Ha2 as [-> _].
      apply (append_nondef_D [] []); [|cbn; auto].
      split; [constructor|]. intros n. cbn. split; [tauto | intros [s [? _]]; discriminate].
    - injection Ha as <- <-. split; [constructor|]. intros n. cbn.
      split; [tauto | intros [s [? _]]; discriminate]. }
  pose proof (inject_extra_D _ _ _ _ I0 Ha0) as I1. cbn [app] in I1.
  pose proof (merge_objects_D objs (mkObj [] a [] [] eid) _ _ _ I1 Ha1) as I2.
  unfold all_defs. destruct partial.
  - rewrite app_nil_r. apply I2.
  - inv_bind H. inv_bind H. injection H as <- <-. destruct lay as [l|].
    + pose proof (layout_sections_D _ _ _ _ I2 Ha2) as I3. rewrite <- app_assoc in I3. apply I3.
    + rewrite app_nil_r. apply I2.
Qed.

(* step-level exactness of the three diagnostics *)
Lemma merge_global_symbol_diag syms n sc value typ size c :
  merge_global_symbol syms n sc value typ size = Diag c <->
  c = 1 /\ exists s v v0, find_global n syms = Some s /\ y_value s = Some v0 /\ value = Some v.
Proof.
  unfold merge_global_symbol, inject_symbol. cbn.
  destruct (find_global n syms) as [s|] eqn:F.
  - destruct value as [v|]; [destruct (y_value s) as [v0|] eqn:V|].
    + split; [intros H; injection H as <-; eauto 8 | intros [-> _]; reflexivity].
    + split; [discriminate | intros [_ [s' [v' [v0 [E [V' _]]]]]]; congruence].
    + split; [discriminate | intros [_ [s' [v' [v0 [_ [_ E]]]]]]; discriminate].
  - split; [discriminate | intros [_ [s' [v' [v0 [E _]]]]]; discriminate].
Qed.

Lemma check_undefined_diag d :
  (check_undefined_symbols d = Diag 5 <->
   exists s, In s (o_syms d) /\ is_global (y_bind s) = true /\ y_value s = None) /\
  (check_undefined_symbols d = Ok tt \/ check_undefined_symbols d = Diag 5).
Proof.
  unfold check_undefined_symbols. destruct (existsb undefined_global (o_syms d)) eqn:E.
  - split; [|now right]. split; [intros _|reflexivity].
    apply existsb_exists in E. destruct E as [s [Hs U]]. exists s. split; [assumption|].
    unfold undefined_global, y_undefined in U. apply andb_true_iff in U. destruct U as [U1 U2].
    split; [assumption|]. destruct (y_value s); [discriminate | reflexivity].
  - split; [|now left]. split; [discriminate|]. intros [s [Hs [G V]]].
    assert (existsb undefined_global (o_syms d) = true); [|congruence].
    apply existsb_exists. exists s. split; [assumption|]. unfold undefined_global, y_undefined.
    now rewrite V, G.
Qed.

Lemma layout_memory_size_check d m d1 cur names data :
  layout_inputs cfg (d, m_loc m, []) (m_inputs m) = Ok (d1, cur, names) ->
  image_data (o_sects d1) (mkImage (m_name m) (m_loc m) names) = Ok data ->
  (layout_memory cfg d m = Diag 4 <-> len data > m_size m) /\
  (len data <= m_size m -> exists d', layout_memory cfg d m = Ok d').
Proof.
  intros L I. unfold layout_memory. rewrite L. cbn [bind]. rewrite I. cbn [bind].
  destruct (len data >? m_size m) eqn:E.
  - split; [split; [lia | reflexivity] | lia].
  - split; [split; [discriminate | lia] | eauto].
Qed.

(* ------------------------------------------------------------------ with fix_twice: no section is placed twice *)
Definition pinv (d : obj) (names : list string) : Prop :=
  NoDup (placed_so_far d names) /\
  forall n, In n (placed_so_far d names) -> find_sect n (o_sects d) <> None.

Lemma sec_grows_exists l l' n : sec_grows l l' -> find_sect n l <> None -> find_sect n l' <> None.
Proof.
  intros G H. destruct (find_sect n l) as [s|] eqn:F; [|congruence].
  destruct (G _ _ F) as [s' [e [F' _]]]. congruence.
Qed.

Lemma layout_input_new d cur names i d' cur' names' :
  layout_input cfg (d, cur, names) i = Ok (d', cur', names') ->
  forall n, In n (input_name i) ->
    find_sect n (o_sects d') <> None /\
    (fix_twice cfg = true -> ~ In n (placed_so_far d names) \/ find_sect n (o_sects d) = None).
Proof.
  intros H n Hn. cbn [layout_input] in H. destruct i as [m|m|m|a]; cbn in Hn; try tauto;
    destruct Hn as [<-|[]].
  - destruct (fix_twice cfg && existsb (String.eqb m) (placed_so_far d names)) eqn:Tw; [discriminate|].
    destruct (get_section_create m (o_sects d)) as [secs1 s] eqn:G.
    destruct (get_section_create_spec _ _ _ _ G) as [F1 [N1 _]].
    inv_bind H. injection H as <- <- <-. cbn. split.
    + erewrite find_set_same; [discriminate | exact F1 | exact N1].
    + intros Fx. left. rewrite Fx in Tw. cbn in Tw. intros Hin.
      assert (existsb (String.eqb m) (placed_so_far d names) = true); [|congruence].
      apply existsb_exists. exists m. split; [assumption | apply String.eqb_refl].
  - destruct (find_sect (sd_name m) (o_sects d)) eqn:E1; [discriminate|].
    destruct (find_sect m (o_sects d)); [|discriminate]. injection H as <- <- <-. cbn. split; [|auto].
    rewrite find_app, E1. cbn. rewrite String.eqb_refl. discriminate.
  - destruct (find_sect (sd_name m) (o_sects d)) eqn:E1; [discriminate|].
    inv_bind H. destruct a as [syms id0]. injection H as <- <- <-. cbn. split; [|auto].
    rewrite find_app, E1. cbn. rewrite String.eqb_refl. discriminate.
Qed.

Lemma layout_input_pinv d cur names i d' cur' names' :
  fix_twice cfg = true -> ids_ok (o_syms d) ->
  layout_input cfg (d, cur, names) i = Ok (d', cur', names') -> pinv d names -> pinv d' names'.
Proof.
  intros Fx Hids H [ND Ex].
  destruct (layout_input_step 0 _ _ _ _ _ _ _ Hids H) as [_ [-> [_ [[G _] [_ [_ Im]]]]]].
  pose proof (layout_input_new _ _ _ _ _ _ _ H) as New.
  unfold pinv, placed_so_far in *. rewrite Im, app_assoc.
  assert (Hnew : forall n, In n (input_name i) -> ~ In n (flat_map i_sects (o_images d) ++ names)).
  { intros n Hn Hin. destruct (New n Hn) as [_ K]. destruct (K Fx) as [K1|K1]; [tauto|].
    apply (Ex n Hin). exact K1. }
  split.
  - destruct i as [m|m|m|a]; cbn [input_name]; try (now rewrite app_nil_r);
      apply NoDup_snoc; auto; apply Hnew; now left.
  - intros n Hn. apply in_app_iff in Hn. destruct Hn as [Hn|Hn].
    + eapply sec_grows_exists; [exact G | auto].
    + now destruct (New n Hn).
Qed.

Lemma layout_inputs_pinv l : forall d cur names d' cur' names',
  fix_twice cfg = true -> ids_ok (o_syms d) ->
  layout_inputs cfg (d, cur, names) l = Ok (d', cur', names') -> pinv d names -> pinv d' names'.
Proof.
  induction l as [|i r IH]; intros d cur names d' cur' names' Fx Hids H P; cbn [layout_inputs] in H.
  - now injection H as <- <- <-.
  - inv_bind H. destruct a as [[d1 cur1] names1].
    destruct (layout_input_step 0 _ _ _ _ _ _ _ Hids Ha) as [_ [_ [_ [_ [_ [I1 _]]]]]].
    apply (IH _ _ _ _ _ _ Fx I1 H). exact (layout_input_pinv _ _ _ _ _ _ _ Fx Hids Ha P).
Qed.

Lemma layout_sections_pinv mems : forall d d',
  fix_twice cfg = true -> ids_ok (o_syms d) ->
  layout_sections cfg d mems = Ok d' -> pinv d [] -> pinv d' [].
Proof.
  induction mems as [|m r IH]; intros d d' Fx Hids H P; cbn in H.
  - now injection H as <-.
  - inv_bind H. destruct (layout_memory_grows _ _ _ Hids Ha) as [_ [_ [I1 _]]].
    apply (IH _ _ Fx I1 H).
    unfold layout_memory in Ha. inv_bind Ha. destruct a0 as [[d1 cur] names]. inv_bind Ha.
    destruct (len a0 >? m_size m); [discriminate|]. injection Ha as <-.
    pose proof (layout_inputs_pinv _ _ _ _ _ _ _ Fx Hids Ha0 P) as [ND Ex].
    unfold pinv, placed_so_far in *. cbn [o_images o_sects]. rewrite flat_map_app. cbn [flat_map i_sects].
    rewrite !app_nil_r. split; assumption.
Qed.

Lemma link_trace_fixed_nodup objs l entry extra out ts :
  fix_twice cfg = true ->
  link_trace cfg objs (Some l) false entry extra = Ok (out, ts) -> NoDup (all_placed (l_mems l)).
Proof.
  intros Fx H. destruct (link_trace_inv _ _ _ _ _ _ _ H) as [d1 [I [Im [F C]]]].
  destruct C as [[? _]|[_ [_ L]]]; [discriminate|].
  assert (P0 : pinv d1 []).
  { unfold pinv, placed_so_far. rewrite Im. cbn. split; [constructor | tauto]. }
  destruct (layout_sections_pinv _ _ _ Fx I L P0) as [ND _].
  destruct (layout_sections_spec _ _ _ I L) as [_ [_ [_ [imgs [E [Is _]]]]]].
  unfold placed_so_far in ND. rewrite app_nil_r, E, Im in ND. cbn in ND. now rewrite Is in ND.
Qed.

Lemma c12_layout_fixed objs l entry extra out ts :
  fix_twice cfg = true ->
  link_trace cfg objs (Some l) false entry extra = Ok (out, ts) ->
  Forall2 (placed_ok out) (l_mems l) (o_images out).
Proof.
  intros Fx H. eapply c12_layout; [exact H|]. eapply link_trace_fixed_nodup; eassumption.
Qed.

End WithCfg.
