(* Proofs/C24_rt.v — the runtime object's two-region memory: alloca / store / load / free discipline *)
From PV Require Import Lib.Py Lib.Tac Spec.IRSemArith Gen.ir2py_runtime Model.Ir2Py Proofs.C24_ir2py Model.Ir2PyRt.
From Coq Require Import String.
Open Scope Z_scope.

Lemma int_size_pos t : In t ir_int_types -> 1 <= bits t / 8.
Proof.
  intro H. cbn in H.
  destruct H as [<-|[<-|[<-|[<-|[<-|[<-|[<-|[<-|[]]]]]]]]]; vm_compute; discriminate.
Qed.

Lemma pop_n_firstn : forall n s, (n <= List.length s)%nat -> pop_n n s = Ok (firstn (List.length s - n) s).
Proof.
  induction n as [|n IH]; intros s H.
  - cbn. now rewrite Nat.sub_0_r, firstn_all.
  - destruct s as [|x s']; [cbn in H; lia|].
    cbn [pop_n]. rewrite IH.
    + rewrite removelast_firstn_len. rewrite firstn_length, firstn_firstn. f_equal. f_equal. cbn [List.length]. lia.
    + rewrite removelast_firstn_len, firstn_length. cbn [List.length] in *. lia.
Qed.

Lemma heap_store_load r t a v :
  In t ir_int_types -> 0 <= a -> a + bits t / 8 <= len (heap r) -> in_range t v ->
  exists r', rt_store (ity_name t) r (heap_start + a) v = Ok r' /\ stack r' = stack r /\
    len (heap r') = len (heap r) /\ rt_load (ity_name t) r' (heap_start + a) = Ok v /\
    firstn (Z.to_nat a) (heap r') = firstn (Z.to_nat a) (heap r) /\
    skipn (Z.to_nat (a + bits t / 8)) (heap r') = skipn (Z.to_nat (a + bits t / 8)) (heap r).
Proof.
  intros Hin Ha Hfit Hr.
  destruct (loadstore_exact t (heap r) a v Hin Ha Hfit Hr) as (m & Hs & Hl & _ & Hld & Hf & Hk).
  exists (mk_rt m (stack r)).
  unfold rt_store, rt_load, get_memory.
  assert (E : (heap_start <=? heap_start + a) = true) by lia. rewrite E.
  replace (heap_start + a - heap_start) with a by lia.
  assert (E2 : (a <? 0) = false) by lia. rewrite E2. cbn [region set_region heap stack].
  rewrite Hs. cbn. rewrite Hld. repeat split; assumption.
Qed.

Lemma alloca_store_load_free r n t o v :
  0 <= n -> len (stack r) + n <= heap_start ->
  In t ir_int_types -> 0 <= o -> o + bits t / 8 <= n -> in_range t v ->
  exists r1 r2,
    alloca r n = Ok (r1, (len (stack r), n)) /\
    rt_store (ity_name t) r1 (len (stack r) + o) v = Ok r2 /\
    rt_load (ity_name t) r2 (len (stack r) + o) = Ok v /\
    heap r2 = heap r /\ len (stack r2) = len (stack r) + n /\
    firstn (List.length (stack r)) (stack r2) = stack r /\
    free r2 n = Ok r.
Proof.
  intros Hn Hfit Hin Ho Hsz Hr.
  pose proof (int_size_pos t Hin) as Hpos.
  set (p := len (stack r)) in *.
  assert (Hp : 0 <= p) by (unfold p, len; lia).
  set (m1 := stack r ++ repeat 0 (Z.to_nat n)).
  assert (Hlen1 : len m1 = p + n).
  { unfold m1, len. rewrite app_length, repeat_length. unfold p, len. lia. }
  destruct (loadstore_exact t m1 (p + o) v Hin ltac:(lia) ltac:(lia) Hr) as (m & Hs & Hl & _ & Hld & Hf & _).
  exists (mk_rt (heap r) m1), (mk_rt (heap r) m).
  assert (E1 : (n <? 0) = false) by lia.
  assert (E2 : (heap_start <=? p + o) = false) by lia.
  assert (E3 : (p + o <? 0) = false) by lia.
  unfold alloca, rt_store, rt_load, get_memory. fold p. fold m1.
  rewrite E1, E2, E3. cbn [region set_region heap stack].
  rewrite Hs. cbn [bind]. rewrite Hld.
  assert (Hfirst : firstn (List.length (stack r)) m = stack r).
  { assert (Hle : (List.length (stack r) <= Z.to_nat (p + o))%nat) by (unfold p, len; lia).
    rewrite <- (Nat.min_l _ _ Hle), <- firstn_firstn, Hf, firstn_firstn, (Nat.min_l _ _ Hle).
    unfold m1. rewrite firstn_app, Nat.sub_diag, firstn_all. cbn. now rewrite app_nil_r. }
  repeat split; try reflexivity; try assumption.
  - rewrite Hl. exact Hlen1.
  - unfold free. cbn [stack heap].
    assert (Hlm : List.length m = (List.length (stack r) + Z.to_nat n)%nat).
    { unfold len in Hl, Hlen1. unfold p, len in Hlen1. lia. }
    rewrite pop_n_firstn by lia.
    replace (List.length m - Z.to_nat n)%nat with (List.length (stack r)) by lia.
    rewrite Hfirst. cbn. now destruct r.
Qed.
