(* Proofs/C37_stmt.v -- the code the C3 statement model emits simulates the big-step semantics. *)
From PV Require Import Lib.Py Lib.Tac Lib.Val Spec.IRSyntax Spec.IRSem Spec.C3Spec Spec.C3StmtSpec
  Model.C3Lower Model.StmtCode Model.C3Stmt Proofs.C37_c3 Proofs.StmtCode_lemmas.
Open Scope Z_scope.
Arguments sw_reg : simpl never.

Lemma set_nth_var x v env : set_nth x v env = set_var x v env.
Proof. revert env. induction x; destruct env; cbn; auto; try (now rewrite IHx). Qed.

(* ---- conditions *)
Lemma graft_runs w ls env rg t ky kn v b :
  eval_k env t = ODone b -> cruns w ls env rg (if b then ky else kn) v ->
  cruns w ls env rg (graft t ky kn) v.
Proof.
  revert b. induction t as [| | c a b0 y IHy n IHn]; intros b He Hr; cbn [graft].
  - cbn in He. inversion He; subst. exact Hr.
  - cbn in He. inversion He; subst. exact Hr.
  - cbn [eval_k] in He.
    destruct (eval_l env a) as [xa| | | |] eqn:Ea; try discriminate.
    destruct (eval_l env b0) as [xb| | | |] eqn:Eb; try discriminate. cbn [obind] in He.
    eapply R_cj; eauto. destruct (eval_cond c xa xb); eauto.
Qed.

Lemma graft_top_ok d t (ky kn : ccode) : top_ok d ky -> top_ok d kn -> top_ok d (graft t ky kn).
Proof. intros. induction t; cbn [graft top_ok]; auto. Qed.

(* ---- implicit conversion of assignment / return *)
Lemma coerce_conv w env from to tr tr' x x' : wok w ->
  coerce_tree w from to tr = Some tr' -> conv w from to x = Some x' ->
  eval_l env tr = ODone x -> eval_l env tr' = ODone x'.
Proof.
  intros Hw Hc Hv He. destruct (ir_int_ok w Hw) as (it & Hit & Hti & Htb).
  unfold coerce_tree, do_coerce in Hc. unfold conv in Hv.
  destruct from, to; cbn [cty_eqb tclass_of numeric andb] in *; try discriminate;
    try (inversion Hc; inversion Hv; subst; exact He).
  - (* int -> byte *)
    inversion Hc; inversion Hv; subst. cbn [eval_l]. rewrite He. cbn [obind].
    now rewrite (wrap_ty_norm w CByte U8 x Hw eq_refl).
  - (* byte -> int *)
    cbn [bits_of] in Hc. destruct (8 <? w - 1); [|discriminate]. rewrite Hti in Hc.
    inversion Hc; inversion Hv; subst. cbn [eval_l]. rewrite He. cbn [obind].
    now rewrite (wrap_ty_norm w CInt it x Hw Hti).
Qed.

(* ---- induction principle for the nested statement type *)
Fixpoint cstmt_ind' (P : cstmt -> Prop)
    (Hskip : P SSkip) (Hass : forall x t e, P (SAssign x t e))
    (Hseq : forall a b, P a -> P b -> P (SSeq a b))
    (Hif : forall c a b, P a -> P b -> P (SIf c a b))
    (Hwh : forall c b, P b -> P (SWhile c b))
    (Hfor : forall i c st b, P i -> P st -> P b -> P (SFor i c st b))
    (Hsw : forall e cases d, Forall (fun zs => P (snd zs)) cases -> P d -> P (SSwitch e cases d))
    (Hret : forall e, P (SRet e)) (Hop : forall x t o e, P (SAssignOp x t o e)) (s : cstmt) : P s :=
  let rec := cstmt_ind' P Hskip Hass Hseq Hif Hwh Hfor Hsw Hret Hop in
  match s with
  | SSkip => Hskip
  | SAssign x t e => Hass x t e
  | SSeq a b => Hseq a b (rec a) (rec b)
  | SIf c a b => Hif c a b (rec a) (rec b)
  | SWhile c b => Hwh c b (rec b)
  | SFor i c st b => Hfor i c st b (rec i) (rec st) (rec b)
  | SSwitch e cases d =>
      Hsw e cases d ((fix go (l : list (Z * cstmt)) : Forall (fun zs => P (snd zs)) l :=
                        match l with
                        | [] => Forall_nil _
                        | zs :: r => Forall_cons zs (rec (snd zs)) (go r)
                        end) cases) (rec d)
  | SRet e => Hret e
  | SAssignOp x t o e => Hop x t o e
  end.

Lemma compile_top_ok w rt : forall s d k c, compile w rt d s k = Some c -> top_ok d k -> top_ok d c.
Proof.
  induction s as [| x t e | a b IHa IHb | c0 a b IHa IHb | c0 b IHb | i c0 st b IHi IHst IHb
                  | e cases dflt IHc IHd | e | x t o e] using cstmt_ind'; intros d k c Hc Hk; cbn [compile] in Hc.
  - inversion Hc; subst; auto.
  - destruct (lower w e) as [[[te ve] ?]|]; [|discriminate].
    destruct (coerce_tree w te t ve); inversion Hc; subst. exact Hk.
  - destruct (compile w rt d b k) as [kb|] eqn:Hb; [|discriminate]. eauto.
  - destruct (lower w c0) as [[[[| |] ?] kc]|]; try discriminate.
    destruct (compile w rt d a k) as [ca|] eqn:Ha; [|discriminate].
    destruct (compile w rt d b k) as [cb|] eqn:Hb; [|discriminate]. inversion Hc; subst.
    apply graft_top_ok; eauto.
  - destruct (lower w c0) as [[[[| |] ?] kc]|]; try discriminate.
    destruct (compile w rt (S d) b (KBack d)); inversion Hc; subst. cbn [top_ok]. lia.
  - destruct (compile w rt (S d) st (KBack d)) as [cs|]; [|discriminate].
    destruct (lower w c0) as [[[[| |] ?] kc]|]; try discriminate.
    destruct (compile w rt (S d) b cs) as [cb|]; [|discriminate].
    eapply IHi; eauto. cbn [top_ok]. lia.
  - destruct (lower w e) as [[[[| |] ve] ?]|]; try discriminate.
    destruct (sw_chain _ _ d cases) as [cc|] eqn:Hch; [|discriminate]. inversion Hc; subst.
    cbn [top_ok]. clear Hc. revert cc Hch. induction IHc as [|[z s1] r Hs1 Hr IHr]; intros cc Hch; cbn in Hch.
    + eauto.
    + destruct (compile w rt d s1 k) as [c1|] eqn:H1; [|discriminate].
      destruct (sw_chain _ _ d r) as [cr|] eqn:H2; [|discriminate]. inversion Hch; subst.
      cbn [top_ok]. split; eauto.
  - destruct (lower w e) as [[[te ve] ?]|]; [|discriminate].
    destruct (coerce_tree w te rt ve); inversion Hc; subst. exact I.
  - destruct (shorthand_ok o && numeric t); [|discriminate].
    destruct (lower w e) as [[[te ve] ?]|]; [|discriminate]. destruct (ir_ty w t); [|discriminate].
    destruct (coerce_tree w te t ve); inversion Hc; subst. exact Hk.
Qed.

Lemma compile_for_desugar w rt d i c st b k :
  compile w rt d (SFor i c st b) k = compile w rt d (SSeq i (SWhile c (SSeq b st))) k.
Proof.
  cbn [compile]. destruct (compile w rt (S d) st (KBack d)) as [cs|]; [|].
  - destruct (lower w c) as [[[[| |] ?] kc]|]; try reflexivity;
      try (destruct (compile w rt (S d) b cs); reflexivity).
  - destruct (lower w c) as [[[[| |] ?] kc]|]; reflexivity.
Qed.

(* ---- switch: the chain of tests reaches the code of the selected statement *)
Lemma switch_dispatch w rt d k cases dflt cc ls env rg v x :
  sw_chain (fun s1 => compile w rt d s1 k) (compile w rt d dflt k) d cases = Some cc ->
  Forall (fun zs => in_range w CInt (fst zs) = true) cases -> wok w ->
  rg (sw_reg d) = x ->
  exists csel, compile w rt d (select x cases dflt) k = Some csel /\
               (cruns w ls env rg csel v -> cruns w ls env rg cc v).
Proof.
  intros Hch HF Hw Hx. subst x. revert cc Hch. induction HF as [|[z s1] r Hz Hr IH]; intros cc Hch; cbn in Hch.
  - cbn [select]. eauto.
  - destruct (compile w rt d s1 k) as [c1|] eqn:H1; [|discriminate].
    destruct (sw_chain _ _ d r) as [cr|] eqn:H2; [|discriminate]. inversion Hch; subst cc. clear Hch.
    cbn [select]. cbn [fst] in Hz.
    assert (Wz : wrap_int w z = z) by (apply (norm_id w CInt z Hw eq_refl Hz)).
    destruct (rg (sw_reg d) =? z) eqn:E.
    + exists c1. split; [exact H1|]. intros R. apply R_rcj. cbn [ropv eval_cond]. rewrite Wz, E. exact R.
    + destruct (IH cr eq_refl) as (csel & Hs & Hrun). exists csel. split; [exact Hs|].
      intros R. apply R_rcj. cbn [ropv eval_cond]. rewrite Wz, E. auto.
Qed.

Definition agree_below (n : nat) (rg' rg : nat -> Z) : Prop := forall r, (r < n)%nat -> rg' r = rg r.

Theorem stmt_sim w rt : wok w -> forall s env out, cexec w rt s env out ->
  forall d k c ls rg v, compile w rt d s k = Some c -> length ls = d -> top_ok d k ->
  match out with
  | ONormal env' => forall rg', agree_below (2 * d) rg' rg -> cruns w ls env' rg' k v
  | OReturn x => v = x
  end -> cruns w ls env rg c v.
Proof.
  intros Hw. induction 1; intros d k0 c0 ls rg v0 Hc Hl Hk Hout; cbn [compile] in Hc.
  - (* skip *) inversion Hc; subst. apply Hout. intros r _. reflexivity.
  - (* assign *)
    destruct (lower w e) as [[[te2 ve] kb]|] eqn:Hlow; [|discriminate].
    destruct (lower_exact w env Hw e te2 ve kb v Hlow H0) as (T & V & _).
    rewrite H in T. inversion T; subst te2.
    destruct (coerce_tree w te t ve) as [ce|] eqn:Hco; [|discriminate]. inversion Hc; subst.
    eapply R_store.
    + eapply coerce_conv; eauto.
    + rewrite set_nth_var. eassumption.
    + apply Hout. intros r _. reflexivity.
  - (* seq, first part normal *)
    destruct (compile w rt d b k0) as [kb|] eqn:Hb; [|discriminate].
    eapply IHcexec1; eauto using compile_top_ok.
    intros rg' Ha. eapply IHcexec2; eauto.
    destruct o; auto. intros rg'' Ha'. apply Hout. intros r Hr. rewrite Ha' by exact Hr. now apply Ha.
  - (* seq, first part returns *)
    destruct (compile w rt d b k0) as [kb|] eqn:Hb; [|discriminate].
    eapply IHcexec; eauto using compile_top_ok.
  - (* if *)
    destruct (lower w c) as [[[[| |] vc] kc]|] eqn:Hlow; try discriminate.
    destruct (compile w rt d a k0) as [ca|] eqn:Ha; [|discriminate].
    destruct (compile w rt d b k0) as [cb|] eqn:Hb; [|discriminate]. inversion Hc; subst.
    eapply graft_runs; [eapply cond_exact; eauto|].
    destruct (x =? 1); eapply IHcexec; eauto.
  - (* while, condition false *)
    destruct (lower w c) as [[[[| |] vc] kc]|] eqn:Hlow; try discriminate.
    destruct (compile w rt (S d) b (KBack d)) as [cb|] eqn:Hb; [|discriminate]. inversion Hc; subst.
    apply R_loop. rewrite firstn_all. eapply graft_runs; [eapply cond_exact; eauto|]. cbn.
    apply weaken; [|exact Hk]. apply Hout. intros r _. reflexivity.
  - (* while, one iteration then the rest *)
    destruct (lower w c) as [[[[| |] vc] kc]|] eqn:Hlow; try discriminate.
    destruct (compile w rt (S d) b (KBack d)) as [cb|] eqn:Hb; [|discriminate]. inversion Hc; subst.
    set (L := graft (kc KYes KNo) cb k0).
    apply R_loop. rewrite firstn_all. eapply graft_runs; [eapply cond_exact; eauto|]. cbn.
    eapply IHcexec1; eauto.
    + rewrite app_length. cbn. lia.
    + cbn [top_ok]. lia.
    + intros rg' Ha. eapply R_back.
      * rewrite nth_error_app2 by lia. rewrite Nat.sub_diag. reflexivity.
      * rewrite firstn_all2 by (rewrite app_length; cbn; lia).
        assert (RL : cruns w ls e1 rg' (KLoop (length ls) L) v0).
        { eapply IHcexec2; eauto.
          - cbn [compile]. rewrite Hlow, Hb. reflexivity.
          - destruct o; auto. intros rg'' Ha'. apply Hout. intros r Hr. rewrite Ha' by exact Hr.
            apply Ha. lia. }
        apply runs_loop_inv in RL. rewrite firstn_all in RL. exact RL.
  - (* while, body returns *)
    destruct (lower w c) as [[[[| |] vc] kc]|] eqn:Hlow; try discriminate.
    destruct (compile w rt (S d) b (KBack d)) as [cb|] eqn:Hb; [|discriminate]. inversion Hc; subst.
    apply R_loop. rewrite firstn_all. eapply graft_runs; [eapply cond_exact; eauto|]. cbn.
    eapply IHcexec; eauto.
    + rewrite app_length. cbn. lia.
    + cbn [top_ok]. lia.
  - (* for *)
    eapply IHcexec; eauto. rewrite <- compile_for_desugar. exact Hc.
  - (* switch *)
    destruct (lower w e) as [[[[| |] ve] kb]|] eqn:Hlow; try discriminate.
    destruct (sw_chain _ _ d cases) as [cc|] eqn:Hch; [|discriminate]. inversion Hc; subst.
    destruct (lower_exact w env Hw e CInt ve kb v Hlow H0) as (_ & V & _).
    eapply R_set; [exact V|].
    destruct (switch_dispatch w rt (length ls) k0 cases dflt cc ls env (updr rg (sw_reg (length ls)) v) v0 v
                Hch H1 Hw) as (csel & Hs & Hrun).
    { unfold updr. now rewrite Nat.eqb_refl. }
    apply Hrun. eapply IHcexec; eauto.
    destruct o; auto. intros rg' Ha. apply Hout. intros r Hr. rewrite Ha by exact Hr.
    unfold updr, sw_reg. destruct (Nat.eqb r (2 * length ls)) eqn:E; [apply Nat.eqb_eq in E; lia|reflexivity].
  - (* return *)
    destruct (lower w e) as [[[te2 ve] kb]|] eqn:Hlow; [|discriminate].
    destruct (lower_exact w env Hw e te2 ve kb v Hlow H0) as (T & V & _).
    rewrite H in T. inversion T; subst te2.
    destruct (coerce_tree w te rt ve) as [ce|] eqn:Hco; [|discriminate]. inversion Hc; subst.
    apply R_ret. eapply coerce_conv; eauto.
  - (* x o= e *)
    destruct (shorthand_ok o && numeric t); [|discriminate].
    destruct (lower w e) as [[[te2 ve] kb]|] eqn:Hlow; [|discriminate].
    destruct (lower_exact w env Hw e te2 ve kb v Hlow H1) as (T & V & _).
    rewrite H0 in T. inversion T; subst te2.
    destruct (ir_ty w t) as [vt|] eqn:Hvt; [|discriminate].
    destruct (coerce_tree w te t ve) as [ce|] eqn:Hco; [|discriminate]. inversion Hc; subst.
    eapply R_store.
    + cbn [eval_l]. rewrite H3. cbn [of_opt obind].
      rewrite (coerce_conv w env te t ve ce v v' Hw Hco H2 V). cbn [obind].
      eapply binop_exact; eauto.
    + rewrite set_nth_var. eassumption.
    + apply Hout. intros r0 _. reflexivity.
Qed.

(* whole function body: no enclosing loop, nothing after it *)
Theorem body_exact w rt body env v c rg : wok w ->
  cexec w rt body env (OReturn v) -> compile w rt 0 body KStuck = Some c ->
  cruns w [] env rg c v.
Proof.
  intros Hw He Hc.
  eapply (stmt_sim w rt Hw body env (OReturn v) He 0%nat KStuck c [] rg v); cbn; auto.
Qed.

(* ---- an inhabitant of the hypotheses (Props/C37.v c37_stmt_nonvacuous) *)
Definition ex_vx := EVar CInt 0. Definition ex_vy := EVar CInt 1.
(* y = 0; while (x > 0) { switch (x) { case 2: y = y + 10; default: y = y + 1; } x = x - 1; } return y; *)
Definition ex37_body : cstmt :=
  SSeq (SAssign 1 CInt (ELit 0))
  (SSeq (SWhile (ECmp KGt ex_vx (ELit 0))
           (SSeq (SSwitch ex_vx [(2, SAssign 1 CInt (EBin BAdd ex_vy (ELit 10)))] (SAssign 1 CInt (EBin BAdd ex_vy (ELit 1))))
                 (SAssign 0 CInt (EBin BSub ex_vx (ELit 1)))))
        (SRet ex_vy)).
Local Ltac ev := first [ reflexivity | vm_compute; reflexivity ].
Lemma ex37_run : cexec 32 CInt ex37_body [2; 5] (OReturn 11).
Proof.
  unfold ex37_body.
  eapply X_seq_n. { eapply X_assign; ev. }
  eapply X_seq_n.
  { eapply X_while_t; [ev | ev | | ].
    { eapply X_seq_n. { eapply X_switch; [ev | ev | repeat constructor | ]. cbn. eapply X_assign; ev. }
      eapply X_assign; ev. }
    eapply X_while_t; [ev | ev | | ].
    { eapply X_seq_n. { eapply X_switch; [ev | ev | repeat constructor | ]. cbn. eapply X_assign; ev. }
      eapply X_assign; ev. }
    eapply X_while_f; ev. }
  eapply X_ret; ev.
Qed.
