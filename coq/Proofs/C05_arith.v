(* Proofs/C05_arith.v — C05: per-opcode lemmas.  An RV32 ALU operation applied to registers that REPRESENT
   IR values of an integer type (low [bits] bits agree; upper bits arbitrary) yields a register that
   represents the IRSem result of the IR operator. *)
From PV Require Import Lib.Py Lib.Tac Spec.IRSyntax Spec.IRSem Spec.RV32Decode Spec.RV32Exec.
From Coq Require Import String Znumtheory.
Open Scope Z_scope.

Definition rv_cfg : cfg := mk_cfg 4 65536 16777216.

(* the IR value of type (bits, sg) a register content stands for *)
Definition val (bits : Z) (sg : bool) (a : Z) : Z := wrap_bits bits sg a.
(* register content r represents the IR value v at width bits *)
Definition rep (bits r v : Z) : Prop := r mod 2 ^ bits = v mod 2 ^ bits.

Lemma wrap_bits_mod n sg z : 0 < n -> wrap_bits n sg z mod 2 ^ n = z mod 2 ^ n.
Proof.
  intros Hn. unfold wrap_bits. assert (0 < 2 ^ n) by (apply Z.pow_pos_nonneg; lia).
  destruct (sg && (2 ^ (n - 1) <=? z mod 2 ^ n)).
  - replace (z mod 2 ^ n - 2 ^ n) with (z mod 2 ^ n + (-1) * 2 ^ n) by ring.
    rewrite Z.mod_add by lia. now rewrite Z.mod_mod by lia.
  - now rewrite Z.mod_mod by lia.
Qed.

Lemma mod32_modn n x : 0 <= n <= 32 -> (x mod W32) mod 2 ^ n = x mod 2 ^ n.
Proof.
  intros Hn. symmetry. apply Zmod_div_mod; [apply Z.pow_pos_nonneg; lia|reflexivity|].
  exists (2 ^ (32 - n)). unfold W32. change 4294967296 with (2 ^ 32).
  rewrite <- Z.pow_add_r by lia. f_equal. lia.
Qed.

Lemma eqm_add n a a' b b' : a mod n = a' mod n -> b mod n = b' mod n -> (a + b) mod n = (a' + b') mod n.
Proof. intros H1 H2. rewrite (Zplus_mod a b), (Zplus_mod a' b'). now rewrite H1, H2. Qed.
Lemma eqm_sub n a a' b b' : a mod n = a' mod n -> b mod n = b' mod n -> (a - b) mod n = (a' - b') mod n.
Proof. intros H1 H2. rewrite (Zminus_mod a b), (Zminus_mod a' b'). now rewrite H1, H2. Qed.
Lemma eqm_mul n a a' b b' : a mod n = a' mod n -> b mod n = b' mod n -> (a * b) mod n = (a' * b') mod n.
Proof. intros H1 H2. rewrite (Zmult_mod a b), (Zmult_mod a' b'). now rewrite H1, H2. Qed.

Lemma land_mod n a b : 0 <= n -> Z.land a b mod 2 ^ n = Z.land (a mod 2 ^ n) (b mod 2 ^ n).
Proof.
  intros Hn. rewrite <- !Z.land_ones by lia. apply Z.bits_inj'. intros k Hk.
  rewrite !Z.land_spec. destruct (Z.testbit a k), (Z.testbit b k), (Z.testbit (Z.ones n) k); reflexivity.
Qed.
Lemma lor_mod n a b : 0 <= n -> Z.lor a b mod 2 ^ n = Z.lor (a mod 2 ^ n) (b mod 2 ^ n).
Proof.
  intros Hn. rewrite <- !Z.land_ones by lia. apply Z.bits_inj'. intros k Hk.
  rewrite !Z.land_spec, !Z.lor_spec, !Z.land_spec.
  destruct (Z.testbit a k), (Z.testbit b k), (Z.testbit (Z.ones n) k); reflexivity.
Qed.
Lemma lxor_mod n a b : 0 <= n -> Z.lxor a b mod 2 ^ n = Z.lxor (a mod 2 ^ n) (b mod 2 ^ n).
Proof.
  intros Hn. rewrite <- !Z.land_ones by lia. apply Z.bits_inj'. intros k Hk.
  rewrite !Z.land_spec, !Z.lxor_spec, !Z.land_spec.
  destruct (Z.testbit a k), (Z.testbit b k), (Z.testbit (Z.ones n) k); reflexivity.
Qed.

Lemma eqm_land n a a' b b' : 0 <= n -> a mod 2 ^ n = a' mod 2 ^ n -> b mod 2 ^ n = b' mod 2 ^ n ->
  Z.land a b mod 2 ^ n = Z.land a' b' mod 2 ^ n.
Proof. intros Hn H1 H2. rewrite (land_mod n a b), (land_mod n a' b') by lia. now rewrite H1, H2. Qed.
Lemma eqm_lor n a a' b b' : 0 <= n -> a mod 2 ^ n = a' mod 2 ^ n -> b mod 2 ^ n = b' mod 2 ^ n ->
  Z.lor a b mod 2 ^ n = Z.lor a' b' mod 2 ^ n.
Proof. intros Hn H1 H2. rewrite (lor_mod n a b), (lor_mod n a' b') by lia. now rewrite H1, H2. Qed.
Lemma eqm_lxor n a a' b b' : 0 <= n -> a mod 2 ^ n = a' mod 2 ^ n -> b mod 2 ^ n = b' mod 2 ^ n ->
  Z.lxor a b mod 2 ^ n = Z.lxor a' b' mod 2 ^ n.
Proof. intros Hn H1 H2. rewrite (lxor_mod n a b), (lxor_mod n a' b') by lia. now rewrite H1, H2. Qed.

Lemma s32_is_wrap a : s32 a = wrap_bits 32 true a.
Proof.
  unfold s32, wrap_bits, W32. change (2 ^ 32) with 4294967296. change (2 ^ (32 - 1)) with 2147483648.
  cbn [andb]. destruct (a mod 4294967296 <? 2147483648) eqn:E1; destruct (2147483648 <=? a mod 4294967296) eqn:E2; lia.
Qed.

Lemma wrap32u a : 0 <= a < 2 ^ 32 -> wrap_bits 32 false a = a.
Proof. intros H. unfold wrap_bits. cbn [andb]. apply Z.mod_small. lia. Qed.

(* which RV32 register-register operation implements IR operator o at type (bits, sg) *)
Definition rr_op (o : binop) (bits : Z) (sg : bool) : option rop :=
  match o with
  | Add => Some RADD | Sub => Some RSUB | Mul => Some RMUL
  | And => Some RAND | Or => Some ROR | Xor => Some RXOR
  | Shl => Some RSLL
  | Shr => if bits =? 32 then Some (if sg then RSRA else RSRL) else None
  | Div => if bits =? 32 then Some (if sg then RDIV else RDIVU) else None
  | Rem => if bits =? 32 then Some (if sg then RREM else RREMU) else None
  | Rol | Ror => None
  end.

Definition ty_ok (t : ty) : bool := match t with I8 | I16 | I32 | U8 | U16 | U32 => true | _ => false end.

Lemma shape_of t : ty_ok t = true ->
  exists bits sg, int_shape rv_cfg t = Some (bits, sg) /\ (bits = 8 \/ bits = 16 \/ bits = 32).
Proof. destruct t; try discriminate; intros _; cbn; eauto 6. Qed.

Lemma shamt_eq bits sg b : (bits = 8 \/ bits = 16 \/ bits = 32) -> 0 <= wrap_bits bits sg b < bits ->
  b mod 32 = wrap_bits bits sg b.
Proof.
  intros Hb Hr. assert (Hm := wrap_bits_mod bits sg b ltac:(lia)).
  rewrite (Z.mod_small (wrap_bits bits sg b)) in Hm
    by (split; [lia|]; destruct Hb as [-> | [-> | ->]]; cbn; lia).
  rewrite Hm in *. destruct Hb as [-> | [-> | ->]].
  - change (2 ^ 8) with 256 in *. lia.
  - change (2 ^ 16) with 65536 in *. lia.
  - change (2 ^ 32) with 4294967296 in *. lia.
Qed.



Lemma s32_zero b : 0 <= b < 4294967296 -> (s32 b =? 0) = (b =? 0).
Proof.
  intros H. unfold s32, W32. rewrite Z.mod_small by lia.
  destruct (b <? 2147483648) eqn:E; lia.
Qed.

Theorem alu_rr_sound t o bits sg ro a b v :
  int_shape rv_cfg t = Some (bits, sg) -> (bits = 8 \/ bits = 16 \/ bits = 32) ->
  rr_op o bits sg = Some ro ->
  0 <= a < 2 ^ 32 -> 0 <= b < 2 ^ 32 ->
  eval_binop rv_cfg t o (val bits sg a) (val bits sg b) = ODone v ->
  rep bits (alu_r ro a b) v.
Proof.
  intros Hs Hb Hro Ha Hbb Hev.
  assert (Hn1 : 0 < bits) by (clear - Hb; lia). assert (Hn0 : 0 <= bits <= 32) by (clear - Hb; lia).
  assert (Hn2 : 0 <= bits) by (clear - Hb; lia).
  unfold eval_binop in Hev. rewrite Hs in Hev. unfold rep, val in *.
  assert (Ea := wrap_bits_mod bits sg a Hn1). assert (Eb := wrap_bits_mod bits sg b Hn1).
  destruct o; cbn [rr_op] in Hro; try discriminate.
  - (* Add *) inversion Hro; inversion Hev; subst. cbn [alu_r]. unfold u32.
    rewrite (mod32_modn bits _ Hn0), (wrap_bits_mod bits sg _ Hn1). apply eqm_add; congruence.
  - (* Sub *) inversion Hro; inversion Hev; subst. cbn [alu_r]. unfold u32.
    rewrite (mod32_modn bits _ Hn0), (wrap_bits_mod bits sg _ Hn1). apply eqm_sub; congruence.
  - (* Mul *) inversion Hro; inversion Hev; subst. cbn [alu_r]. unfold u32.
    rewrite (mod32_modn bits _ Hn0), (wrap_bits_mod bits sg _ Hn1). apply eqm_mul; congruence.
  - (* Div *)
    destruct (bits =? 32) eqn:E32; [|discriminate]. assert (bits = 32) by (clear - E32; lia). subst bits.
    clear Ea Eb. change (2 ^ 32) with 4294967296 in Ha, Hbb.
    destruct (wrap_bits 32 sg b =? 0) eqn:Ez; [discriminate|].
    destruct sg; cbn [andb] in Hev; inversion Hro; subst ro; cbn [alu_r].
    + rewrite <- ?(s32_is_wrap a), <- ?(s32_is_wrap b) in Hev. rewrite <- (s32_is_wrap b) in Ez. unfold div_overflow.
      rewrite (s32_zero b Hbb) in Ez. rewrite Ez.
      change (- 2 ^ (32 - 1)) with (-2147483648) in Hev.
      destruct ((s32 a =? -2147483648) && (s32 b =? -1)) eqn:Eo; [discriminate|].
      inversion Hev; subst v. unfold u32.
      rewrite (mod32_modn 32 _ Hn0), (wrap_bits_mod 32 true _ Hn1). reflexivity.
    + assert (Wa : wrap_bits 32 false a = a) by (apply wrap32u; change (2 ^ 32) with 4294967296; assumption).
      assert (Wb : wrap_bits 32 false b = b) by (apply wrap32u; change (2 ^ 32) with 4294967296; assumption).
      rewrite Wa, Wb in Hev. rewrite Wb in Ez. rewrite Ez.
      inversion Hev; subst v.
      rewrite (wrap_bits_mod 32 false _ Hn1). assert (Hb0 : 0 < b) by (apply Z.eqb_neq in Ez; clear - Hbb Ez; lia).
      rewrite Z.quot_div_nonneg by (clear - Ha Hb0; lia). reflexivity.
  - (* Rem *)
    destruct (bits =? 32) eqn:E32; [|discriminate]. assert (bits = 32) by (clear - E32; lia). subst bits.
    clear Ea Eb. change (2 ^ 32) with 4294967296 in Ha, Hbb.
    destruct (wrap_bits 32 sg b =? 0) eqn:Ez; [discriminate|].
    destruct sg; cbn [andb] in Hev; inversion Hro; subst ro; cbn [alu_r].
    + rewrite <- ?(s32_is_wrap a), <- ?(s32_is_wrap b) in Hev. rewrite <- (s32_is_wrap b) in Ez. unfold div_overflow.
      rewrite (s32_zero b Hbb) in Ez. rewrite Ez.
      change (- 2 ^ (32 - 1)) with (-2147483648) in Hev.
      destruct ((s32 a =? -2147483648) && (s32 b =? -1)) eqn:Eo; [discriminate|].
      inversion Hev; subst v. unfold u32.
      rewrite (mod32_modn 32 _ Hn0), (wrap_bits_mod 32 true _ Hn1). reflexivity.
    + assert (Wa : wrap_bits 32 false a = a) by (apply wrap32u; change (2 ^ 32) with 4294967296; assumption).
      assert (Wb : wrap_bits 32 false b = b) by (apply wrap32u; change (2 ^ 32) with 4294967296; assumption).
      rewrite Wa, Wb in Hev. rewrite Wb in Ez. rewrite Ez.
      inversion Hev; subst v.
      rewrite (wrap_bits_mod 32 false _ Hn1). assert (Hb0 : 0 < b) by (apply Z.eqb_neq in Ez; clear - Hbb Ez; lia).
      rewrite Z.rem_mod_nonneg by (clear - Ha Hb0; lia). reflexivity.
  - (* Or *) inversion Hro; inversion Hev; subst. cbn [alu_r].
    rewrite (wrap_bits_mod bits sg _ Hn1). apply eqm_lor; [assumption|congruence|congruence].
  - (* And *) inversion Hro; inversion Hev; subst. cbn [alu_r].
    rewrite (wrap_bits_mod bits sg _ Hn1). apply eqm_land; [assumption|congruence|congruence].
  - (* Xor *) inversion Hro; inversion Hev; subst. cbn [alu_r].
    rewrite (wrap_bits_mod bits sg _ Hn1). apply eqm_lxor; [assumption|congruence|congruence].
  - (* Shl *) inversion Hro; subst ro.
    destruct ((0 <=? wrap_bits bits sg b) && (wrap_bits bits sg b <? bits)) eqn:Ok; [|discriminate].
    inversion Hev; subst v. cbn [alu_r].
    rewrite (shamt_eq bits sg b Hb) by (clear - Ok; lia). unfold u32.
    rewrite (mod32_modn bits _ Hn0), (wrap_bits_mod bits sg _ Hn1). apply eqm_mul; congruence.
  - (* Shr *)
    destruct (bits =? 32) eqn:E32; [|discriminate]. assert (bits = 32) by (clear - E32; lia). subst bits.
    destruct ((0 <=? wrap_bits 32 sg b) && (wrap_bits 32 sg b <? 32)) eqn:Ok; [|discriminate].
    inversion Hev; subst v. rewrite (wrap_bits_mod 32 sg _ Hn1).
    assert (Hsh : b mod 32 = wrap_bits 32 sg b) by (apply shamt_eq; [assumption|clear - Ok; lia]).
    destruct sg; inversion Hro; subst ro; cbn [alu_r]; rewrite Hsh.
    + unfold u32. rewrite (mod32_modn 32 _ Hn0). now rewrite (s32_is_wrap a).
    + now rewrite (wrap32u a Ha).
Qed.
