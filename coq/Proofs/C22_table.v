(* Proofs/C22_table.v — the exported opcode -> IR table has the expected shape, and every
   expected program computes the WasmNumSpec operator under the python-target semantics. *)
From PV Require Import Lib.Py Lib.Tac Spec.BitsSpec Spec.WasmNumSpec Model.WasmIr.
From PV Require Import Gen.wasm_irmap Proofs.C39_bitfun Proofs.C22_base Proofs.C22_helpers Proofs.C22_mapping.
From PV Require Gen.irpy_rt Gen.wasm_runtime.
Open Scope Z_scope.

(* ------------------------------------------------------------------ expected programs *)
Definition sty (w : width) : ity := Ity (bits w) true.
Definition uty (w : width) : ity := Ity (bits w) false.

Definition direct (op : bop) (w : width) : irprog := ([IBinop op (sty w) 0%nat 1%nat], 2%nat).
Definition via_unsigned (op : bop) (w : width) : irprog :=
  ([ICast (uty w) 0%nat; ICast (uty w) 1%nat; IBinop op (uty w) 2%nat 3%nat; ICast (sty w) 4%nat], 5%nat).
Definition call2 (f : rtfn) : irprog := ([ICall f [0%nat; 1%nat]], 2%nat).
Definition call1 (f : rtfn) : irprog := ([ICall f [0%nat]], 1%nat).
Definition cmp_s (c : cop) : irprog := ([ICmp c 0%nat 1%nat], 2%nat).
Definition cmp_u (c : cop) (w : width) : irprog :=
  ([ICast (uty w) 0%nat; ICast (uty w) 1%nat; ICmp c 2%nat 3%nat], 4%nat).

Definition rot_fn (w : width) (left : bool) : rtfn :=
  match w, left with
  | W32, true => Rt_i32_rotl | W32, false => Rt_i32_rotr
  | W64, true => Rt_i64_rotl | W64, false => Rt_i64_rotr
  end.
Definition un_fn (w : width) (u : iun) : rtfn :=
  match w, u with
  | W32, Clz => Rt_i32_clz | W32, Ctz => Rt_i32_ctz | W32, Popcnt => Rt_i32_popcnt
  | W32, Ext8S => Rt_i32_extend8_s | W32, Ext16S => Rt_i32_extend16_s
  | W64, Clz => Rt_i64_clz | W64, Ctz => Rt_i64_ctz | W64, Popcnt => Rt_i64_popcnt
  | W64, Ext8S => Rt_i64_extend8_s | W64, Ext16S => Rt_i64_extend16_s
  | _, Ext32S => Rt_i64_extend32_s
  end.

Definition expected (o : wop) : irprog :=
  match o with
  | Bin w Add => direct OAdd w | Bin w Sub => direct OSub w | Bin w Mul => direct OMul w
  | Bin w DivS => direct ODiv w | Bin w RemS => direct ORem w
  | Bin w DivU => via_unsigned ODiv w | Bin w RemU => via_unsigned ORem w
  | Bin w And => direct OAnd w | Bin w Or => direct OOr w | Bin w Xor => direct OXor w
  | Bin w Shl => direct OShl w | Bin w ShrS => direct OShr w | Bin w ShrU => via_unsigned OShr w
  | Bin w Rotl => call2 (rot_fn w true) | Bin w Rotr => call2 (rot_fn w false)
  | Un w u => call1 (un_fn w u)
  | Eqz w => ([IConst (sty w) 0; ICmp CEq 0%nat 1%nat], 2%nat)
  | Rel w Eq => cmp_s CEq | Rel w Ne => cmp_s CNe
  | Rel w LtS => cmp_s CLt | Rel w GtS => cmp_s CGt | Rel w LeS => cmp_s CLe | Rel w GeS => cmp_s CGe
  | Rel w LtU => cmp_u CLt w | Rel w GtU => cmp_u CGt w | Rel w LeU => cmp_u CLe w | Rel w GeU => cmp_u CGe w
  | WrapI64 => ([ICast (Ity 32 true) 0%nat], 1%nat)
  | ExtendI32S => ([ICast (Ity 64 true) 0%nat], 1%nat)
  | ExtendI32U => ([ICast (Ity 32 false) 0%nat; ICast (Ity 64 true) 1%nat], 2%nat)
  end.

(* the table exported from the current wasm2ppci is exactly the expected one, for all 66 opcodes *)
Theorem table_expected : table = map (fun o => (o, expected o)) all_wops.
Proof. vm_compute. reflexivity. Qed.

Lemma all_wops_complete o : valid_op o = true -> In o all_wops.
Proof.
  intros H.
  destruct o as [[] []|[] []|[]|[] []| | |]; try discriminate H;
    vm_compute; repeat (first [left; reflexivity | right]).
Qed.

Lemma table_sound o p : In (o, p) table -> p = expected o /\ valid_op o = true.
Proof.
  rewrite table_expected. intros H. apply in_map_iff in H. destruct H as (o' & E & I).
  inversion E; subst. split; [reflexivity|].
  unfold all_wops in I. apply filter_In in I. tauto.
Qed.

Lemma table_complete o : valid_op o = true -> In (o, expected o) table.
Proof.
  intros H. rewrite table_expected. apply in_map_iff. exists o. split; [reflexivity|].
  now apply all_wops_complete.
Qed.

(* ------------------------------------------------------------------ operands *)
Definition args_ok (o : wop) (args : list Z) : Prop :=
  Forall2 (fun w a => in_s (bits w) a) (arg_widths o) args.

Lemma args_ok_2 o w1 w2 args : args_ok o args -> arg_widths o = [w1; w2] ->
  exists a b, args = [a; b] /\ in_s (bits w1) a /\ in_s (bits w2) b.
Proof.
  unfold args_ok. intros H E. rewrite E in H. inversion H as [|? a ? l Ha H1]; subst.
  inversion H1 as [|? b ? l' Hb H2]; subst. inversion H2; subst. now exists a, b.
Qed.
Lemma args_ok_1 o w1 args : args_ok o args -> arg_widths o = [w1] ->
  exists a, args = [a] /\ in_s (bits w1) a.
Proof.
  unfold args_ok. intros H E. rewrite E in H. inversion H as [|? a ? l Ha H1]; subst. inversion H1; subst. now exists a.
Qed.

Lemma bits_ok w : 1 <= bits w /\ width_ok (bits w).
Proof. destruct w; (split; [cbn; lia|]); [apply width_ok_32|apply width_ok_64]. Qed.

Ltac step := cbv delta [py_run direct via_unsigned call1 call2 cmp_s cmp_u sty uty];
             cbn [py_run expected direct via_unsigned call1 call2 cmp_s cmp_u fst snd py_exec py_ins sty uty
                  getv nth_error bind py_binop app getvs rt_call cmp_sem rot_fn un_fn].
Ltac run := repeat (step; rewrite ?irpy_correct_s, ?irpy_correct_u, ?irpy_ishl, ?irpy_ishr by lia);
            repeat match goal with |- context [unsigned_of ?n ?v] => change (unsigned_of n v) with (unsigned n v) end.
Ltac spec_in H := unfold wop_sem_signed in H;
                  cbn [arg_widths combine map wop_sem bin_sem un_sem rel_sem res_width] in H.

Ltac call H := step; rewrite H by assumption; step; cbn [bits]; reflexivity.

(* ------------------------------------------------------------------ binary operators *)
Lemma py_bin fuel w b x y r : (64 < fuel)%nat ->
  in_s (bits w) x -> in_s (bits w) y ->
  wop_sem_signed (Bin w b) [x; y] = Some r ->
  py_run fuel (expected (Bin w b)) [x; y] = Ok r.
Proof.
  intros F Hx Hy S. destruct (bits_ok w) as [HN W]. spec_in S.
  assert (Ux := unsigned_range (bits w) x ltac:(lia)). assert (Uy := unsigned_range (bits w) y ltac:(lia)).
  destruct b; spec_in S.
  - (* add *) injection S as <-. run. f_equal. now apply sem_add.
  - injection S as <-. run. f_equal. now apply sem_sub.
  - injection S as <-. run. f_equal. now apply sem_mul.
  - (* div_s *) unfold idiv_s in S. rewrite !signed_unsigned in S by assumption.
    destruct (Z.eqb_spec y 0); [discriminate|].
    destruct (Z.quot x y =? 2 ^ (bits w - 1)); [discriminate|]. injection S as <-.
    run. rewrite irpy_idiv by assumption. run. f_equal. now apply sem_signed_result.
  - (* div_u *) unfold idiv_u in S. destruct (Z.eqb_spec (unsigned (bits w) y) 0); [discriminate|].
    injection S as <-. run. rewrite irpy_idiv by assumption. run. f_equal.
    apply sem_unsigned_result; [lia|]. apply quot_u_range; lia.
  - (* rem_s *) unfold irem_s in S. rewrite !signed_unsigned in S by assumption.
    destruct (Z.eqb_spec y 0); [discriminate|]. injection S as <-.
    run. rewrite irpy_irem by assumption. run. f_equal. now apply sem_signed_result.
  - (* rem_u *) unfold irem_u in S. destruct (Z.eqb_spec (unsigned (bits w) y) 0); [discriminate|].
    injection S as <-. run. rewrite irpy_irem by assumption. run. f_equal.
    apply sem_unsigned_result; [lia|]. apply rem_u_range; lia.
  - injection S as <-. run. f_equal. now apply sem_and.
  - injection S as <-. run. f_equal. now apply sem_or.
  - injection S as <-. run. f_equal. now apply sem_xor.
  - (* shl *) injection S as <-. run. f_equal. now apply sem_shl.
  - (* shr_s *) injection S as <-. run. f_equal. now apply sem_shr_s.
  - (* shr_u *) injection S as <-. run. f_equal. now apply sem_shr_u.
  - (* rotl *) injection S as <-. destruct w; step.
    + call helper_i32_rotl. + call helper_i64_rotl.
  - injection S as <-. destruct w; step.
    + call helper_i32_rotr. + call helper_i64_rotr.
Qed.

(* ------------------------------------------------------------------ unary operators *)
Lemma py_un fuel w u x r : (64 < fuel)%nat -> valid_op (Un w u) = true ->
  in_s (bits w) x ->
  wop_sem_signed (Un w u) [x] = Some r ->
  py_run fuel (expected (Un w u)) [x] = Ok r.
Proof.
  intros F V Hx S. spec_in S. injection S as <-.
  destruct w, u; try discriminate V; step.
  - call helper_i32_clz. - call helper_i32_ctz. - call helper_i32_popcnt.
  - call helper_i32_extend8_s. - call helper_i32_extend16_s.
  - call helper_i64_clz. - call helper_i64_ctz. - call helper_i64_popcnt.
  - call helper_i64_extend8_s. - call helper_i64_extend16_s. - call helper_i64_extend32_s.
Qed.

(* ------------------------------------------------------------------ comparisons *)
Lemma b2z_bool_i c : b2z c = bool_i c. Proof. reflexivity. Qed.

Lemma py_rel fuel w c x y r :
  in_s (bits w) x -> in_s (bits w) y ->
  wop_sem_signed (Rel w c) [x; y] = Some r ->
  py_run fuel (expected (Rel w c)) [x; y] = Ok r.
Proof.
  intros Hx Hy S. destruct (bits_ok w) as [HN W].
  destruct c; spec_in S; injection S as <-;
    unfold ieq, ine, ilt_s, ilt_u, igt_s, igt_u, ile_s, ile_u, ige_s, ige_u;
    cbn [bits]; rewrite signed32_bool; run; f_equal;
    rewrite ?(signed_unsigned (bits w) x), ?(signed_unsigned (bits w) y), ?eqb_unsigned by (assumption || lia);
    reflexivity.
Qed.

Lemma py_eqz fuel w x r :
  in_s (bits w) x ->
  wop_sem_signed (Eqz w) [x] = Some r ->
  py_run fuel (expected (Eqz w)) [x] = Ok r.
Proof.
  intros Hx S. destruct (bits_ok w) as [HN W]. spec_in S. injection S as <-.
  unfold ieqz. cbn [bits]. rewrite signed32_bool. step. f_equal. f_equal.
  rewrite <- (unsigned_0 (bits w)) at 2 by lia. symmetry. apply eqb_unsigned; [lia|assumption|apply in_s_0; lia].
Qed.

(* ------------------------------------------------------------------ conversions *)
Lemma py_wrap fuel x r : in_s 64 x ->
  wop_sem_signed WrapI64 [x] = Some r -> py_run fuel (expected WrapI64) [x] = Ok r.
Proof.
  intros Hx S. spec_in S. injection S as <-. run. f_equal. cbn [bits].
  rewrite signed_of_signed by lia. unfold wrap_i64, wrap, unsigned. now rewrite mod_mod_pow by lia.
Qed.

Lemma py_extend_s fuel x r : in_s 32 x ->
  wop_sem_signed ExtendI32S [x] = Some r -> py_run fuel (expected ExtendI32S) [x] = Ok r.
Proof.
  intros Hx S. spec_in S. injection S as <-. run. f_equal. cbn [bits]. unfold extend_i32_s.
  rewrite (signed_unsigned 32 x) by (assumption || lia). apply sem_signed_result; lia.
Qed.

Lemma py_extend_u fuel x r : in_s 32 x ->
  wop_sem_signed ExtendI32U [x] = Some r -> py_run fuel (expected ExtendI32U) [x] = Ok r.
Proof.
  intros Hx S. spec_in S. injection S as <-. run. f_equal. cbn [bits]. unfold extend_i32_u.
  assert (U := unsigned_range 32 x ltac:(lia)).
  rewrite signed_of_signed by lia. f_equal. apply Z.mod_small.
  change (2 ^ 32) with 4294967296 in U. change (2 ^ 64) with 18446744073709551616. lia.
Qed.

(* ------------------------------------------------------------------ the mapping theorem (python target) *)
Theorem py_run_value fuel o args r : (64 < fuel)%nat -> valid_op o = true -> args_ok o args ->
  wop_sem_signed o args = Some r -> py_run fuel (expected o) args = Ok r.
Proof.
  intros F V A S. destruct o.
  - destruct (args_ok_2 _ _ _ _ A eq_refl) as (a & b & -> & Ha & Hb). now apply py_bin.
  - destruct (args_ok_1 _ _ _ A eq_refl) as (a & -> & Ha). now apply py_un.
  - destruct (args_ok_1 _ _ _ A eq_refl) as (a & -> & Ha). now apply py_eqz.
  - destruct (args_ok_2 _ _ _ _ A eq_refl) as (a & b & -> & Ha & Hb). now apply py_rel.
  - destruct (args_ok_1 _ _ _ A eq_refl) as (a & -> & Ha). now apply py_wrap.
  - destruct (args_ok_1 _ _ _ A eq_refl) as (a & -> & Ha). now apply py_extend_s.
  - destruct (args_ok_1 _ _ _ A eq_refl) as (a & -> & Ha). now apply py_extend_u.
Qed.

(* divisor zero: the spec traps, the python target raises ZeroDivisionError
   (PythonWasmFunc.__call__ turns it into WasmTrapException: validated by execution) *)
Definition is_div (b : ibin) : bool := match b with DivS | DivU | RemS | RemU => true | _ => false end.

Theorem py_run_div_zero fuel w b x : is_div b = true -> in_s (bits w) x ->
  wop_sem_signed (Bin w b) [x; 0] = None /\ py_run fuel (expected (Bin w b)) [x; 0] = Internal ZeroDiv.
Proof.
  intros D Hx. destruct (bits_ok w) as [HN W].
  assert (U0 : unsigned (bits w) 0 = 0) by (apply unsigned_0; lia).
  assert (S0 : signed (bits w) 0 = 0).
  { rewrite <- U0 at 1. apply signed_unsigned; [lia|apply in_s_0; lia]. }
  destruct b; try discriminate D; (split;
    [unfold wop_sem_signed; cbn [arg_widths combine map wop_sem bin_sem];
     unfold idiv_s, idiv_u, irem_s, irem_u; rewrite U0, ?S0; reflexivity
    |run; rewrite ?U0; rewrite ?irpy_idiv_zero, ?irpy_irem_zero; reflexivity]).
Qed.

(* the spec traps exactly for divisor 0 and for div_s overflow *)
Lemma spec_trap_cases o args : valid_op o = true -> args_ok o args -> wop_sem_signed o args = None ->
  exists w b x y, o = Bin w b /\ args = [x; y] /\ is_div b = true /\
                  (y = 0 \/ (b = DivS /\ x = - 2 ^ (bits w - 1) /\ y = -1)).
Proof.
  intros V A S. destruct o.
  - destruct (args_ok_2 _ _ _ _ A eq_refl) as (x & y & -> & Hx & Hy).
    destruct (bits_ok w) as [HN W]. exists w, o, x, y. spec_in S.
    assert (E0 : (unsigned (bits w) y =? 0) = (y =? 0)).
    { rewrite <- (unsigned_0 (bits w)) at 1 by lia. apply eqb_unsigned; [lia|assumption|apply in_s_0; lia]. }
    destruct o; spec_in S; try discriminate S; (split; [reflexivity|split; [reflexivity|split; [reflexivity|]]]).
    + unfold idiv_s in S. rewrite !signed_unsigned in S by assumption.
      destruct (Z.eqb_spec y 0); [now left|]. right.
      destruct (Z.eqb_spec (Z.quot x y) (2 ^ (bits w - 1))) as [Q|]; [|discriminate].
      split; [reflexivity|]. unfold in_s in *. assert (P := pow2_pos (bits w - 1) ltac:(lia)).
      rewrite Z.quot_div in Q by assumption.
      assert (Z.abs x / Z.abs y <= Z.abs x) by (apply Z.div_le_upper_bound; nia).
      nia.
    + unfold idiv_u in S. rewrite E0 in S. destruct (Z.eqb_spec y 0); [now left|discriminate].
    + unfold irem_s in S. rewrite !signed_unsigned in S by assumption.
      destruct (Z.eqb_spec y 0); [now left|discriminate].
    + unfold irem_u in S. rewrite E0 in S. destruct (Z.eqb_spec y 0); [now left|discriminate].
  - destruct (args_ok_1 _ _ _ A eq_refl) as (a & -> & Ha). discriminate S.
  - destruct (args_ok_1 _ _ _ A eq_refl) as (a & -> & Ha). discriminate S.
  - destruct (args_ok_2 _ _ _ _ A eq_refl) as (a & b & -> & Ha & Hb). discriminate S.
  - destruct (args_ok_1 _ _ _ A eq_refl) as (a & -> & Ha). discriminate S.
  - destruct (args_ok_1 _ _ _ A eq_refl) as (a & -> & Ha). discriminate S.
  - destruct (args_ok_1 _ _ _ A eq_refl) as (a & -> & Ha). discriminate S.
Qed.

(* REFUTED: iN.div_s MIN -1 must trap; the emitted IR returns MIN on the python target *)
Theorem div_s_overflow_not_trapped :
  exists o p args r, In (o, p) table /\ args_ok o args /\
                     wop_sem_signed o args = None /\ py_run 100 p args = Ok r.
Proof.
  exists (Bin W32 DivS), (expected (Bin W32 DivS)), [-2147483648; -1], (-2147483648).
  split; [apply table_complete; reflexivity|]. split.
  - repeat constructor; unfold in_s; cbn; lia.
  - split; vm_compute; reflexivity.
Qed.

(* ------------------------------------------------------------------ statements about the exported table *)
Lemma table_covers o : valid_op o = true -> exists p, In (o, p) table.
Proof. intros H. exists (expected o). now apply table_complete. Qed.

Lemma table_value fuel o p args r : (64 < fuel)%nat ->
  In (o, p) table -> args_ok o args ->
  wop_sem_signed o args = Some r -> py_run fuel p args = Ok r.
Proof. intros F I A S. destruct (table_sound o p I) as [-> V]. now apply py_run_value. Qed.

Lemma table_div_zero fuel w b p x : is_div b = true -> In (Bin w b, p) table ->
  in_s (bits w) x ->
  wop_sem_signed (Bin w b) [x; 0] = None /\ py_run fuel p [x; 0] = Internal ZeroDiv.
Proof. intros D I Hx. destruct (table_sound _ p I) as [-> V]. now apply py_run_div_zero. Qed.

(* REFUTED for the target-independent reading of the IR (Model.WasmIr.ir_run: shifts are defined only for
   0 <= count < width): wasm2ppci does not mask the count, so i32.shl 1 32 (spec: 1) is undefined behaviour
   of the emitted IR.  The python target masks inside IrPy.ishl/ishr (table_value above covers it). *)
Theorem shift_count_unmasked_in_ir :
  exists o p args r, In (o, p) table /\ args_ok o args /\
                     wop_sem_signed o args = Some r /\ ir_run 100 p args = None /\ py_run 100 p args = Ok r.
Proof.
  exists (Bin W32 Shl), (expected (Bin W32 Shl)), [1; 32], 1.
  split; [apply table_complete; reflexivity|]. split.
  - repeat constructor; unfold in_s; cbn; lia.
  - repeat split; vm_compute; reflexivity.
Qed.
