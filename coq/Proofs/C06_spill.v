(* Proofs/C06_spill.v — local correctness of the spill rewriting of one instruction
   (rewrite_program): load the fresh register from the slot before a use, run the instruction with
   the spilled register replaced by the fresh one, store the fresh register to the slot after a
   definition.  PARTIAL: the statement is about one rewritten instruction (any semantics, any
   state); stitching the blocks into a whole-program simulation and the memory behaviour of the
   real load/store instructions are not proved here (the structure is checked per frame by
   tools/props/c06.py check_spill_py). *)
From Coq Require Import ZArith List Bool Arith Lia.
From PV Require Import Spec.RegAllocSpec Model.RegAllocCheck Proofs.C06_regalloc.
Import ListNotations.
Open Scope Z_scope.

Definition sigma (t t2 : reg) (r : reg) : reg := if r =? t then t2 else r.

(* register effect of one instruction whose outputs are computed by g *)
Definition exec (al : reg -> reg -> bool) (J : junk_t) (g : list value -> list value)
  (i : instr) (rf : regfile) : regfile :=
  writes al J (i_defs i ++ i_clob i)
         (if i_move i then map rf (i_uses i) else g (map rf (i_uses i))) rf.

Definition memory := Z -> value.

(* load (only when the instruction reads t); renamed instruction; store (only when it writes t) *)
Definition spilled_block (al : reg -> reg -> bool) (J : junk_t) (g : list value -> list value)
  (t t2 : reg) (slot : Z) (i : instr) (rf' : regfile) (mem : memory) : regfile * regfile * memory :=
  let rf1 := if memz t (i_uses i) then write al J t2 (mem slot) rf' else rf' in
  let rf2 := exec al J g (rename (sigma t t2) i) rf1 in
  let mem2 := if memz t (i_defs i) then (fun s => if s =? slot then rf2 t2 else mem s) else mem in
  (rf1, rf2, mem2).

(* the spilled register lives in its slot; every other old register is unchanged *)
Definition spill_rel (t t2 : reg) (slot : Z) (rf rf' : regfile) (mem : memory) : Prop :=
  (forall r, r <> t -> r <> t2 -> rf' r = rf r) /\ mem slot = rf t.

Lemma write_ext : forall al1 al2 J d x rf r, (forall a b, al1 a b = al2 a b) ->
  write al1 J d x rf r = write al2 J d x rf r.
Proof. intros; unfold write; now rewrite H. Qed.

Lemma write_rf_ext : forall al J d x rf1 rf2, (forall r, rf1 r = rf2 r) ->
  forall r, write al J d x rf1 r = write al J d x rf2 r.
Proof. intros; unfold write; now rewrite H. Qed.

Lemma writes_rf_ext : forall al J W outs rf1 rf2, (forall r, rf1 r = rf2 r) ->
  forall r, writes al J W outs rf1 r = writes al J W outs rf2 r.
Proof.
  intros al J W; induction W as [|d W IH]; intros outs rf1 rf2 H r; cbn [writes]; auto.
  apply IH. now apply write_rf_ext.
Qed.

Lemma writes_ext : forall al1 al2 J W outs rf, (forall a b, al1 a b = al2 a b) ->
  forall r, writes al1 J W outs rf r = writes al2 J W outs rf r.
Proof.
  intros al1 al2 J W; induction W as [|d W IH]; intros outs rf H r; cbn [writes]; auto.
  rewrite IH by auto. apply writes_rf_ext. intros r'; now apply write_ext.
Qed.

Lemma writes_unchanged : forall al J W outs rf r, ~ In r W -> (forall d, In d W -> al d r = false) ->
  writes al J W outs rf r = rf r.
Proof.
  intros al J W; induction W as [|d W IH]; intros outs rf r Hn Ha; cbn [writes]; auto.
  rewrite IH.
  - unfold write. destruct (Z.eqb_spec r d) as [->|]; [exfalso; apply Hn; now left|].
    rewrite Ha; auto; now left.
  - intros H; apply Hn; now right.
  - intros d' Hd'; apply Ha; now right.
Qed.

Section Spill.
Variables (isph : reg -> bool) (al0 : reg -> reg -> bool) (J : junk_t)
          (g : list value -> list value) (t t2 : reg) (slot : Z) (i : instr).
Let al := src_alias isph al0.
Hypothesis Ht : isph t = false.
Hypothesis Ht2 : isph t2 = false.
Hypothesis Hne : t2 <> t.
Hypothesis Hfresh : ~ In t2 (i_uses i) /\ ~ In t2 (i_defs i) /\ ~ In t2 (i_clob i).
Hypothesis Hclob : ~ In t (i_clob i).

Lemma al_nonphys_l : forall a b, isph a = false -> al a b = false.
Proof. intros a b H; unfold al, src_alias; now rewrite H. Qed.
Lemma al_nonphys_r : forall a b, isph b = false -> al a b = false.
Proof. intros a b H; unfold al, src_alias; rewrite H; now rewrite andb_false_r. Qed.

Lemma sigma_phys : forall v, isph v = true -> sigma t t2 v = v.
Proof.
  intros v H; unfold sigma. destruct (Z.eqb_spec v t); auto. subst; congruence.
Qed.

Theorem spill_block_sound : forall rf rf' mem,
  spill_rel t t2 slot rf rf' mem ->
  let '(rf1, rf2, mem2) := spilled_block al J g t t2 slot i rf' mem in
  map rf1 (i_uses (rename (sigma t t2) i)) = map rf (i_uses i) /\
  spill_rel t t2 slot (exec al J g i rf) rf2 mem2.
Proof.
  intros rf rf' mem [HR HM]. unfold spilled_block.
  set (rf1 := if memz t (i_uses i) then write al J t2 (mem slot) rf' else rf').
  destruct Hfresh as [F1 [F2 F3]].
  assert (R1 : forall r, r <> t -> r <> t2 -> rf1 r = rf r).
  { intros r N1 N2. subst rf1. destruct (memz t (i_uses i)); auto.
    unfold write. destruct (Z.eqb_spec r t2); [congruence|].
    rewrite al_nonphys_l by auto. auto. }
  assert (R2 : In t (i_uses i) -> rf1 t2 = rf t).
  { intros Hin. subst rf1. apply memz_In in Hin; rewrite Hin.
    unfold write; rewrite Z.eqb_refl; auto. }
  assert (HU : map rf1 (i_uses (rename (sigma t t2) i)) = map rf (i_uses i)).
  { cbn [rename i_uses]. rewrite map_map. apply map_ext_in; intros u Hu. unfold sigma.
    destruct (Z.eqb_spec u t) as [->|N]; auto.
    apply R1; auto. intros ->; contradiction. }
  split; auto.
  unfold exec. rewrite HU. cbn [rename i_move i_defs i_clob]. rewrite <- map_app.
  set (W := i_defs i ++ i_clob i).
  set (outs := if i_move i then map rf (i_uses i) else g (map rf (i_uses i))).
  assert (FW : ~ In t2 W) by (unfold W; intros H; apply in_app_or in H; tauto).
  set (L := fun v : reg => v <> t2 /\ (v = t -> In t (i_uses i) \/ In t W)).
  assert (SIM : forall v, L v ->
            writes al J (map (sigma t t2) W) outs rf1 (sigma t t2 v) = writes al J W outs rf v).
  { intros v Lv.
    rewrite (writes_sim (sigma t t2) al isph J sigma_phys L W outs rf rf1); auto.
    - apply writes_ext. intros a b; unfold al, src_alias.
      destruct (isph a), (isph b); reflexivity.
    - intros d v' Hd [Lv1 _] Hn.
      destruct (isph d && isph v') eqn:P; [left; now apply andb_true_iff|right].
      assert (D2 : d <> t2) by (intros ->; contradiction).
      unfold conflict. rewrite !orb_false_iff. repeat split.
      + apply Z.eqb_neq. unfold sigma.
        destruct (Z.eqb_spec d t), (Z.eqb_spec v' t); subst; congruence.
      + apply andb_false_iff in P. unfold sigma. destruct P as [P|P].
        * apply al_nonphys_l. destruct (Z.eqb_spec d t); auto.
        * apply al_nonphys_r. destruct (Z.eqb_spec v' t); auto.
      + apply andb_false_iff in P. unfold sigma. destruct P as [P|P].
        * apply al_nonphys_r. destruct (Z.eqb_spec d t); auto.
        * apply al_nonphys_l. destruct (Z.eqb_spec v' t); auto.
    - intros v' [Lv1 Lv2] Hn. unfold sigma. destruct (Z.eqb_spec v' t) as [->|N].
      + destruct (Lv2 eq_refl) as [H|H]; [auto|contradiction].
      + apply R1; auto. }
  split.
  - intros r N1 N2. specialize (SIM r). unfold sigma in SIM at 2.
    destruct (Z.eqb_spec r t); [contradiction|]. apply SIM. split; auto. intros; contradiction.
  - destruct (memz t (i_defs i)) eqn:D.
    + rewrite Z.eqb_refl. apply memz_In in D.
      specialize (SIM t). unfold sigma in SIM at 2. rewrite Z.eqb_refl in SIM. apply SIM.
      split; auto. intros _; right; unfold W; apply in_or_app; now left.
    + apply memz_false in D. rewrite HM. symmetry. apply writes_unchanged.
      * unfold W; intros H; apply in_app_or in H; tauto.
      * intros d _; now apply al_nonphys_r.
Qed.

End Spill.
