(* Proofs/C02_clean.v — fuel monotonicity of IRSem and soundness of the CFG validator check_cfg
   (Model/OptValidateCfg.v): block-local changes + glued blocks + bypassed empty blocks. *)
From PV Require Import Lib.Py Lib.Tac Spec.IRSyntax Spec.IRSem Model.OptValidate Model.OptValidateFn Model.OptValidateCfg
  Proofs.C02_rules Proofs.C02_validate Proofs.C02_local.
From Coq Require Import String.
Open Scope Z_scope.

(* ------------------------------------------------------------------ more fuel never hurts *)
Section Mono.
  Variable c : cfg.
  Variable m : modul.
  Variable ge : list (string * Z).

  Lemma do_call_mono (rec1 rec2 : func -> list value -> st -> outcome (option value * st)) :
    (forall g vs s0 r0, rec1 g vs s0 = ODone r0 -> rec2 g vs s0 = ODone r0) ->
    forall w cal vs s r, do_call m rec1 w cal vs s = ODone r -> do_call m rec2 w cal vs s = ODone r.
  Proof.
    intros Hrec w cal vs s r H. destruct cal; simpl in *; try discriminate.
    destruct (find_func m name) as [g|]; [|exact H].
    destruct (negb (Nat.eqb (List.length vs) (List.length (f_params g)))); [discriminate|].
    destruct (rec1 g vs s) as [[rr ss]| | | |] eqn:E; cbn [obind] in H; try discriminate.
    rewrite (Hrec _ _ _ _ E). exact H.
  Qed.

  Lemma go_mono rec1 rec2 K1 K2 f args :
    (forall g vs s0 r0, rec1 g vs s0 = ODone r0 -> rec2 g vs s0 = ODone r0) ->
    (forall t e s r0, K1 t e s = ODone r0 -> K2 t e s = ODone r0) ->
    forall l e s r, go c m ge rec1 K1 f args l e s = ODone r -> go c m ge rec2 K2 f args l e s = ODone r.
  Proof.
    intros Hrec HK. induction l as [|i l IH]; intros e s r H; [discriminate H|].
    destruct i; cbn [go] in *;
      try (destruct (step_simple c m ge f args e s _) as [[e1 s1]| | | |]; cbn [obind] in *; try discriminate H;
           apply IH; exact H).
    - destruct (omap (eval_ref m ge false e args) args0) as [vs| | | |]; cbn [obind] in *; try discriminate H.
      destruct (do_call m rec1 true callee vs s) as [[rv sb]| | | |] eqn:E; cbn [obind] in *; try discriminate H.
      rewrite (do_call_mono _ _ Hrec _ _ _ _ _ E). cbn [obind]. destruct rv; [apply IH; exact H|discriminate H].
    - destruct (omap (eval_ref m ge false e args) args0) as [vs| | | |]; cbn [obind] in *; try discriminate H.
      destruct (do_call m rec1 false callee vs s) as [[rv sb]| | | |] eqn:E; cbn [obind] in *; try discriminate H.
      rewrite (do_call_mono _ _ Hrec _ _ _ _ _ E). cbn [obind]. apply IH; exact H.
    - apply HK. exact H.
    - destruct (eval_int m ge e args a); cbn [obind] in *; try discriminate H.
      destruct (eval_int m ge e args b); cbn [obind] in *; try discriminate H. apply HK. exact H.
    - exact H.
    - exact H.
  Qed.

  Lemma exec_block_mono : forall n f args pred b e s r,
    exec_block c m ge n f args pred b e s = ODone r -> exec_block c m ge (S n) f args pred b e s = ODone r.
  Proof.
    induction n as [|n IH]; intros f args pred b e s r H; [discriminate H|].
    rewrite exec_block_S in *. destruct (find_block f b) as [blk|]; [|discriminate H].
    destruct (eval_phis m ge pred e args (b_ins blk)) as [ph| | | |]; cbn [obind] in *; try discriminate H.
    eapply go_mono; [| |exact H].
    - intros g vs s0 r0. unfold rec_of. destruct (entry_bid g); [apply IH|discriminate].
    - intros t e1 s1 r0. apply IH.
  Qed.
  Lemma exec_block_le : forall n n' f args pred b e s r, (n <= n')%nat ->
    exec_block c m ge n f args pred b e s = ODone r -> exec_block c m ge n' f args pred b e s = ODone r.
  Proof. intros n n' f args pred b e s r Hle. induction Hle; intros Hx; [exact Hx|]. apply exec_block_mono. auto. Qed.
End Mono.

(* ------------------------------------------------------------------ flattening and resolving *)
Lemma lastopt_app {A} (l : list A) x : lastopt l = Some x -> l = removelast l ++ [x].
Proof.
  induction l as [|a l IH]; [discriminate|]. destruct l as [|b l].
  - simpl. intros H. inversion H. reflexivity.
  - intros H. change (lastopt (a :: b :: l)) with (lastopt (b :: l)) in H.
    change (removelast (a :: b :: l)) with (a :: removelast (b :: l)). simpl. f_equal. apply IH. exact H.
Qed.

Lemma eval_phis_nophis m ge pred e args : forall l, no_phis l = true -> eval_phis m ge pred e args l = ODone [].
Proof.
  induction l as [|i l IH]; [reflexivity|]. simpl. intros H. apply Bool.andb_true_iff in H. destruct H as [Hi Hl].
  destruct i; try (apply IH; exact Hl). discriminate Hi.
Qed.

Section Flat.
  Variable c : cfg.
  Variable m : modul.
  Variable ge : list (string * Z).
  Variable f : func.
  Variable args : list value.
  Variable beta : list (bid * bid).
  Notation Kn n b := (fun t e1 s1 => exec_block c m ge n f args (Some b) t e1 s1).

  Lemma go_prefix rec K1 K2 l1 l2 r : forall body e s, no_terms body = true ->
    (forall e1 s1, go c m ge rec K1 f args l1 e1 s1 = ODone r -> go c m ge rec K2 f args l2 e1 s1 = ODone r) ->
    go c m ge rec K1 f args (body ++ l1) e s = ODone r -> go c m ge rec K2 f args (body ++ l2) e s = ODone r.
  Proof.
    induction body as [|i body IH]; intros e s Hn Hk H; [apply Hk; exact H|].
    simpl in Hn. apply Bool.andb_true_iff in Hn. destruct Hn as [Hi Hn].
    change ((i :: body) ++ l1) with (i :: (body ++ l1)) in H. change ((i :: body) ++ l2) with (i :: (body ++ l2)).
    destruct i; try discriminate Hi; cbn [go] in *;
      try (destruct (step_simple c m ge f args e s _) as [[e1 s1]| | | |]; cbn [obind] in *; try discriminate H;
           apply IH; assumption).
    - destruct (omap (eval_ref m ge false e args) args0) as [vs| | | |]; cbn [obind] in *; try discriminate H.
      destruct (do_call m rec true callee vs s) as [[rv sb]| | | |]; cbn [obind] in *; try discriminate H.
      destruct rv; [apply IH; assumption|discriminate H].
    - destruct (omap (eval_ref m ge false e args) args0) as [vs| | | |]; cbn [obind] in *; try discriminate H.
      destruct (do_call m rec false callee vs s) as [[rv sb]| | | |]; cbn [obind] in *; try discriminate H.
      apply IH; assumption.
  Qed.

  Lemma go_flat : forall k h l last, flat f beta k h = Some (l, last) ->
    forall hb, find_block f h = Some hb -> forall n e s r,
    go c m ge (rec_of c m ge n) (Kn n h) f args (b_ins hb) e s = ODone r ->
    go c m ge (rec_of c m ge n) (Kn n last) f args l e s = ODone r.
  Proof.
    induction k as [|k IH]; intros h l last Hf hb Hh n e s r Hgo; [discriminate Hf|].
    cbn [flat] in Hf. rewrite Hh in Hf.
    destruct (lastopt (b_ins hb)) as [ti|] eqn:El; [|discriminate Hf].
    assert (Hsame : Some (b_ins hb, h) = Some (l, last) -> go c m ge (rec_of c m ge n) (Kn n last) f args l e s = ODone r).
    { intros Hx. inversion Hx; subst. exact Hgo. }
    destruct ti; try (apply Hsame; exact Hf).
    destruct (is_head beta b); [apply Hsame; exact Hf|]. clear Hsame.
    destruct (find_block f b) as [tb|] eqn:Et; [|discriminate Hf].
    destruct (flat f beta k b) as [[lt last']|] eqn:Ef; [|discriminate Hf].
    destruct (no_phis (b_ins tb) && no_terms (removelast (b_ins hb))) eqn:Ec; [|discriminate Hf].
    apply Bool.andb_true_iff in Ec. destruct Ec as [Ep Ent]. inversion Hf; subst l last'.
    rewrite (lastopt_app _ _ El) in Hgo.
    eapply go_prefix; [exact Ent| |exact Hgo].
    intros e1 s1 Hj. cbn [go] in Hj. destruct n as [|n1]; [discriminate Hj|].
    rewrite exec_block_S, Et, (eval_phis_nophis _ _ _ _ _ _ Ep) in Hj. cbn [obind app] in Hj.
    eapply (IH _ _ _ Ef _ Et (S n1)).
    eapply go_mono; [| |exact Hj].
    - intros g vs s0 r0. unfold rec_of. destruct (entry_bid g); [apply exec_block_mono|discriminate].
    - intros t e2 s2 r0. apply exec_block_mono.
  Qed.

  Lemma resolve_sound : forall k p u h q, resolve f beta k p u = Some (h, q) ->
    forall n e s r, exec_block c m ge n f args (Some p) u e s = ODone r ->
                    exec_block c m ge n f args (Some q) h e s = ODone r.
  Proof.
    induction k as [|k IH]; intros p u h q Hr n e s r Hex.
    - simpl in Hr. destruct (is_head beta u); [inversion Hr; subst; exact Hex|discriminate Hr].
    - cbn [resolve] in Hr. destruct (is_head beta u); [inversion Hr; subst; exact Hex|].
      destruct (find_block f u) as [blk|] eqn:Eu; [|discriminate Hr].
      destruct (b_ins blk) as [|[] [|? ?]] eqn:Eb; try discriminate Hr.
      destruct n as [|n1]; [discriminate Hex|]. rewrite exec_block_S, Eu, Eb in Hex.
      cbn [eval_phis obind go app] in Hex. apply (IH _ _ _ _ Hr). apply exec_block_mono. exact Hex.
  Qed.
End Flat.

(* ------------------------------------------------------------------ phis along one resolved edge *)
Section PhiEdge.
  Variable m m' : modul.
  Variable ge : list (string * Z).
  Variable args : list value.
  Variable rho : list (vid * vid).
  Hypothesis Hctx : forall ph e r, eval_ref m' ge ph e args r = eval_ref m ge ph e args r.

  Definition phi_edge_l (l l' : list instr) (q p' : bid) : bool :=
    forallb (fun i' => match i' with
                       | IPhi v' _ _ ins' =>
                           match rget rho v' with
                           | Some v =>
                               match find_phi l v with
                               | Some ins =>
                                   match find (fun x => Pos.eqb (fst x) q) ins,
                                         find (fun x => Pos.eqb (fst x) p') ins' with
                                   | Some x, Some x' => ref_rel rho (snd x) (snd x')
                                   | _, _ => false
                                   end
                               | None => false
                               end
                           | None => false
                           end
                       | _ => true
                       end) l'.

  Lemma phis_edge q p' e e' l : Rel rho e e' -> forall l' ph,
    phi_edge_l l l' q p' = true -> eval_phis m ge (Some q) e args l = ODone ph ->
    exists ph', eval_phis m' ge (Some p') e' args l' = ODone ph' /\
      (forall v' v, rget rho v' = Some v -> In v' (phi_vids l') -> env_get ph' v' = env_get ph v) /\
      (forall v', ~ In v' (phi_vids l') -> env_get ph' v' = None).
  Proof.
    intros HR. induction l' as [|i' l' IH]; intros ph Hck Hev.
    - exists []. split; [reflexivity|]. split; [intros v' v _ []|reflexivity].
    - simpl in Hck. apply Bool.andb_true_iff in Hck. destruct Hck as [Hi Hck].
      destruct (IH ph Hck Hev) as (pr & Hpr & Hp1 & Hp2).
      destruct i'; try (exists pr; split; [exact Hpr|split; assumption]).
      destruct (rget rho v) as [w|] eqn:Er; [|discriminate Hi].
      destruct (find_phi l w) as [ins0|] eqn:Ef; [|discriminate Hi].
      destruct (eval_phis_some m ge args _ _ _ _ Hev _ _ Ef) as (p & qx & x & Hp & Hq & Hx & Hg).
      inversion Hp; subst p. rewrite Hq in Hi.
      destruct (find (fun x0 => Pos.eqb (fst x0) p') ins) as [x'|] eqn:Eq'; [|discriminate Hi].
      exists ((v, x) :: pr). split.
      + cbn [eval_phis]. rewrite Eq'. rewrite (ref_rel_eval m m' ge args rho Hctx true e e' _ _ HR Hi), Hx. cbn [obind].
        rewrite Hpr. reflexivity.
      + split.
        * intros v' w' Hr Hin. simpl. destruct (Pos.eqb_spec v v').
          -- subst. rewrite Er in Hr. inversion Hr; subst. symmetry. exact Hg.
          -- apply Hp1; [exact Hr|]. simpl in Hin. destruct Hin as [Hin|Hin]; [contradiction|exact Hin].
        * intros v' Hn. simpl. destruct (Pos.eqb_spec v v'); [exfalso; apply Hn; left; assumption|].
          apply Hp2. intros Hin. apply Hn. right. exact Hin.
  Qed.
End PhiEdge.

(* ------------------------------------------------------------------ modules *)
Lemma check_funcs_cfg_find c : forall l l' hs name,
  check_funcs_cfg c l l' hs = true ->
  match find (fun g => String.eqb (f_name g) name) l with
  | Some g => exists g' h, find (fun g => String.eqb (f_name g) name) l' = Some g' /\ check_cfg c g g' h = true
  | None => find (fun g => String.eqb (f_name g) name) l' = None
  end.
Proof.
  induction l as [|g l IH]; intros [|g' l'] [|h hs] name H; try discriminate; [reflexivity|].
  simpl in H. apply Bool.andb_true_iff in H. destruct H as [Hl Hr].
  assert (Hn : f_name g = f_name g').
  { unfold check_cfg in Hl. repeat (apply Bool.andb_true_iff in Hl; destruct Hl as [Hl _]).
    apply String.eqb_eq. exact Hl. }
  simpl. rewrite <- Hn. destruct (String.eqb (f_name g) name); [eauto|]. eapply IH. exact Hr.
Qed.

Definition edge_rel (f f' : func) (beta : list (bid * bid)) (pred pred' : option bid) (u u' : bid) : Prop :=
  match pred, pred' with
  | Some p, Some p' => edge_ok f f' (mk_rho f f') beta p p' u u' = true
  | None, None => rget beta u' = Some u /\
                  (exists hb, find_block f u = Some hb /\ no_phis (b_ins hb) = true) /\
                  (exists kb, find_block f' u' = Some kb /\ no_phis (b_ins kb) = true)
  | _, _ => False
  end.

Section ModulCfg.
  Variable c : cfg.
  Variable m m' : modul.
  Variable hs : list (list (bid * bid)).
  Hypothesis Hc : cfg_ok c.
  Hypothesis Hext : m_externals m = m_externals m'.
  Hypothesis Hvars : m_vars m = m_vars m'.
  Hypothesis Hfuncs : check_funcs_cfg c (m_funcs m) (m_funcs m') hs = true.
  Let ge := layout c m.

  Lemma ctx_eq2 args ph e r : eval_ref m' ge ph e args r = eval_ref m ge ph e args r.
  Proof.
    destruct r; try reflexivity. simpl. destruct (assoc_str name ge); [reflexivity|].
    unfold find_ext. rewrite <- Hext. unfold find_func.
    pose proof (check_funcs_cfg_find c _ _ _ name Hfuncs) as H.
    destruct (find (fun f => String.eqb (f_name f) name) (m_funcs m)).
    - destruct H as (g' & h & -> & _). reflexivity.
    - rewrite H. reflexivity.
  Qed.

  Definition sound_at_cfg (n : nat) : Prop :=
    forall f f' beta, check_cfg c f f' beta = true ->
    forall args pred pred' u u' e e' s r, Rel (mk_rho f f') e e' -> edge_rel f f' beta pred pred' u u' ->
      exec_block c m ge n f args pred u e s = ODone r ->
      exec_block c m' ge n f' args pred' u' e' s = ODone r.

  Lemma cfg_entry f f' beta : check_cfg c f f' beta = true ->
    List.length (f_params f') = List.length (f_params f) /\
    match entry_bid f with
    | Some eb => exists eb', entry_bid f' = Some eb' /\ edge_rel f f' beta None None eb eb'
    | None => True
    end.
  Proof.
    unfold check_cfg. intros H. repeat (apply Bool.andb_true_iff in H; destruct H as [H ?]).
    split; [unfold params_eqb in H4; apply dec2b_spec in H4; congruence|].
    unfold check_entry in H1. unfold entry_bid.
    destruct (f_blocks f) as [|k l] eqn:Ef; [exact I|]. destruct (f_blocks f') as [|k' l'] eqn:Ef'; [discriminate H1|].
    apply Bool.andb_true_iff in H1. destruct H1 as [H1 Hp']. apply Bool.andb_true_iff in H1. destruct H1 as [Hb Hp].
    destruct (rget beta (b_id k')) as [h|] eqn:Er; [|discriminate Hb]. apply Pos.eqb_eq in Hb. subst h.
    exists (b_id k'). split; [reflexivity|]. split; [exact Er|]. split.
    - exists k. split; [|exact Hp]. unfold find_block. rewrite Ef. simpl. rewrite Pos.eqb_refl. reflexivity.
    - exists k'. split; [|exact Hp']. unfold find_block. rewrite Ef'. simpl. rewrite Pos.eqb_refl. reflexivity.
  Qed.

  Lemma call_sound_cfg n : sound_at_cfg n -> forall want cal vs s r s1,
    do_call m (rec_of c m ge n) want cal vs s = ODone (r, s1) ->
    do_call m' (rec_of c m' ge n) want cal vs s = ODone (r, s1).
  Proof.
    intros IH want cal vs s r s1 H. destruct cal; simpl in *; try discriminate.
    unfold find_func in *. pose proof (check_funcs_cfg_find c _ _ _ name Hfuncs) as Hf.
    destruct (find (fun f => String.eqb (f_name f) name) (m_funcs m)) as [g|].
    - destruct Hf as (g' & h & -> & Hl). destruct (cfg_entry _ _ _ Hl) as [Hp He]. rewrite Hp.
      destruct (negb (Nat.eqb (List.length vs) (List.length (f_params g)))); [discriminate|].
      unfold rec_of in *. destruct (entry_bid g) as [eb|]; [|discriminate].
      destruct He as (eb' & -> & Hedge).
      destruct (exec_block c m ge n g vs None eb [] s) as [[rr ss]| | | |] eqn:Ex; cbn [obind] in H; try discriminate.
      rewrite (IH g g' h Hl vs None None eb eb' [] [] s (rr, ss) (fun _ _ _ => eq_refl) Hedge Ex). cbn [obind]. exact H.
    - rewrite Hf. unfold find_ext in *. rewrite <- Hext. exact H.
  Qed.
End ModulCfg.

Section ModulCfg2.
  Variable c : cfg.
  Variable m m' : modul.
  Variable hs : list (list (bid * bid)).
  Hypothesis Hc : cfg_ok c.
  Hypothesis Hext : m_externals m = m_externals m'.
  Hypothesis Hvars : m_vars m = m_vars m'.
  Hypothesis Hfuncs : check_funcs_cfg c (m_funcs m) (m_funcs m') hs = true.

  Lemma head_step n f f' beta args : sound_at_cfg c m m' n -> check_cfg c f f' beta = true ->
    forall h u' q pred' e e' s r hb kb ph ph',
    In (u', h) beta -> find_block f h = Some hb -> find_block f' u' = Some kb ->
    Rel (mk_rho f f') e e' ->
    eval_phis m (layout c m) q e args (b_ins hb) = ODone ph ->
    eval_phis m' (layout c m) pred' e' args (b_ins kb) = ODone ph' ->
    (forall v' v, rget (mk_rho f f') v' = Some v -> In v' (phi_vids (b_ins kb)) -> env_get ph' v' = env_get ph v) ->
    (forall v', ~ In v' (phi_vids (b_ins kb)) -> env_get ph' v' = None) ->
    go c m (layout c m) (rec_of c m (layout c m) n)
       (fun t e1 s1 => exec_block c m (layout c m) n f args (Some h) t e1 s1) f args (b_ins hb) (ph ++ e) s = ODone r ->
    go c m' (layout c m) (rec_of c m' (layout c m) n)
       (fun t e1 s1 => exec_block c m' (layout c m) n f' args (Some u') t e1 s1) f' args (b_ins kb) (ph' ++ e') s = ODone r.
  Proof.
    intros IH Hl h u' q pred' e e' s r hb kb ph ph' Hin Hh Hk HR Eph Eph' Hp1 Hp2 Hgo.
    pose proof Hl as Hl0. unfold check_cfg in Hl0.
    apply Bool.andb_true_iff in Hl0. destruct Hl0 as [Hl0 Hheads].
    apply Bool.andb_true_iff in Hl0. destruct Hl0 as [Hl0 _].
    apply Bool.andb_true_iff in Hl0. destruct Hl0 as [_ Hnd].
    rewrite forallb_forall in Hheads. specialize (Hheads _ Hin). unfold check_head in Hheads.
    rewrite Hk, Hh in Hheads.
    destruct (flat f beta (nblocks f) h) as [[l last]|] eqn:Efl; [|discriminate Hheads].
    apply Bool.andb_true_iff in Hheads. destruct Hheads as [Hplace Hbody].
    pose proof (go_flat c m (layout c m) f args beta _ _ _ _ Efl _ Hh n _ _ _ Hgo) as Hgo2.
    destruct r as [rv sr].
    eapply (check_body_sound c m m' (layout c m) f f' args (mk_rho f f') _ _ _ _
              (edge_ok f f' (mk_rho f f') beta last u')); try eassumption.
    - apply ctx_eq2 with (hs := hs); assumption.
    - apply call_sound_cfg with (hs := hs); assumption.
    - intros t t' e1 e1' s2 r2 s3 Ht HR2 Hkk. eapply (IH f f' beta Hl args (Some last) (Some u')); eassumption.
    - intros v' v Hr. rewrite !env_get_app.
      destruct (mem_pos v' (phi_vids (b_ins kb))) eqn:Em.
      + rewrite (Hp1 _ _ Hr (proj1 (mem_pos_in _ _) Em)). destruct (env_get ph v); [reflexivity|apply HR; exact Hr].
      + rewrite Hp2 by (intros Hi; apply mem_pos_in in Hi; congruence).
        unfold place_ok in Hplace. rewrite forallb_forall in Hplace.
        specialize (Hplace _ (rget_in _ _ _ Hr)). cbn [fst snd] in Hplace. rewrite Em in Hplace.
        apply Bool.eqb_prop in Hplace.
        rewrite (eval_phis_none _ _ _ _ _ _ _ Eph v) by (intros Hi; apply mem_pos_in in Hi; congruence).
        apply HR. exact Hr.
  Qed.
End ModulCfg2.

Section ModulCfg3.
  Variable c : cfg.
  Variable m m' : modul.
  Variable hs : list (list (bid * bid)).
  Hypothesis Hc : cfg_ok c.
  Hypothesis Hext : m_externals m = m_externals m'.
  Hypothesis Hvars : m_vars m = m_vars m'.
  Hypothesis Hfuncs : check_funcs_cfg c (m_funcs m) (m_funcs m') hs = true.

  Theorem sound_all_cfg : forall n, sound_at_cfg c m m' n.
  Proof.
    induction n as [|n IH]; intros f f' beta Hl args pred pred' u u' e e' s r HR Hedge Hex; [discriminate Hex|].
    destruct pred as [p|]; destruct pred' as [p'|]; try contradiction.
    - (* a resolved edge *)
      cbn [edge_rel] in Hedge. unfold edge_ok in Hedge.
      destruct (resolve f beta (nblocks f) p u) as [[h q]|] eqn:Er; [|discriminate Hedge].
      destruct (rget beta u') as [h'|] eqn:Eb; [|discriminate Hedge].
      apply Bool.andb_true_iff in Hedge. destruct Hedge as [Hh Hphi]. apply Pos.eqb_eq in Hh. subst h'.
      pose proof (resolve_sound c m (layout c m) f args beta _ _ _ _ _ Er _ _ _ _ Hex) as Hex2.
      rewrite exec_block_S in *. unfold phi_edge in Hphi.
      destruct (find_block f h) as [hb|] eqn:Eh; [|discriminate Hphi].
      destruct (find_block f' u') as [kb|] eqn:Ek; [|discriminate Hphi].
      destruct (eval_phis m (layout c m) (Some q) e args (b_ins hb)) as [ph| | | |] eqn:Eph; cbn [obind] in Hex2; try discriminate Hex2.
      destruct (phis_edge m m' (layout c m) args (mk_rho f f') (ctx_eq2 c m m' hs Hext Hfuncs args)
                  q p' e e' (b_ins hb) HR (b_ins kb) ph Hphi Eph) as (ph' & Eph' & Hp1 & Hp2).
      rewrite Eph'. cbn [obind].
      eapply (head_step c m m' hs Hc Hext Hfuncs n f f' beta args IH Hl h u' (Some q) (Some p'));
        try eassumption. apply rget_in. exact Eb.
    - (* function entry *)
      cbn [edge_rel] in Hedge. destruct Hedge as (Eb & (hb & Eh & Hnp) & (kb & Ek & Hnp')).
      rewrite exec_block_S in *. rewrite Eh in Hex. rewrite Ek.
      rewrite (eval_phis_nophis _ _ _ _ _ _ Hnp) in Hex. rewrite (eval_phis_nophis _ _ _ _ _ _ Hnp'). cbn [obind] in *.
      eapply (head_step c m m' hs Hc Hext Hfuncs n f f' beta args IH Hl u u' None None e e' s r hb kb [] []);
        try eassumption.
      + apply rget_in. exact Eb.
      + apply eval_phis_nophis. exact Hnp.
      + apply eval_phis_nophis. exact Hnp'.
      + intros v' v _ _. reflexivity.
      + intros v' _. reflexivity.
  Qed.

  Theorem run_function_cfg : forall fname args s n r,
    run_function c m fname args s n = ODone r -> run_function c m' fname args s n = ODone r.
  Proof.
    intros fname args s n r H. unfold run_function in *. unfold find_func in *.
    pose proof (check_funcs_cfg_find c _ _ _ fname Hfuncs) as Hf.
    destruct (find (fun f => String.eqb (f_name f) fname) (m_funcs m)) as [g|]; [|discriminate H].
    destruct Hf as (g' & h & -> & Hl). destruct (cfg_entry c _ _ _ Hl) as [Hp He]. rewrite Hp.
    destruct (negb (Nat.eqb (List.length args) (List.length (f_params g)))); [discriminate H|].
    destruct (entry_bid g) as [eb|]; [|discriminate H]. destruct He as (eb' & -> & Hedge).
    rewrite (layout_eq c m m' Hvars).
    exact (sound_all_cfg n g g' h Hl args None None eb eb' [] [] s r (fun _ _ _ => eq_refl) Hedge H).
  Qed.
End ModulCfg3.

Theorem check_modul_cfg_sound : forall c m m' hs, cfg_ok c -> check_modul_cfg c m m' hs = true ->
  forall fname args s n r,
    run_function c m fname args s n = ODone r -> run_function c m' fname args s n = ODone r.
Proof.
  intros c m m' hs Hc H. unfold check_modul_cfg in H.
  apply Bool.andb_true_iff in H. destruct H as [H Hf].
  apply Bool.andb_true_iff in H. destruct H as [He Hv].
  apply dec2b_spec in He. apply dec2b_spec in Hv.
  apply run_function_cfg with (hs := hs); assumption.
Qed.

Theorem check_modul_cfg_run_main : forall c m m' hs, cfg_ok c -> check_modul_cfg c m m' hs = true ->
  forall fname args n res, run_main c m fname args n = ODone res -> run_main c m' fname args n = ODone res.
Proof.
  intros c m m' hs Hc H fname args n res Hr. pose proof H as H0. unfold check_modul_cfg in H0.
  apply Bool.andb_true_iff in H0. destruct H0 as [H0 _]. apply Bool.andb_true_iff in H0. destruct H0 as [_ Hv].
  apply dec2b_spec in Hv. unfold run_main in *.
  assert (Hi : init_st c m' = init_st c m) by (unfold init_st, layout; rewrite Hv; reflexivity).
  rewrite Hi.
  destruct (run_function c m fname args (init_st c m) n) as [[r s]| | | |] eqn:Ef; cbn [obind] in Hr; try discriminate Hr.
  rewrite (check_modul_cfg_sound c m m' hs Hc H _ _ _ _ _ Ef). cbn [obind].
  unfold global_bytes, layout in *. rewrite <- Hv. exact Hr.
Qed.
