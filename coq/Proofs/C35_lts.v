(* Proofs/C35_lts.v — acknowledgement / retransmission: sendpkt against the sender spec, the
   NAK-retransmit step, the retry budget over all schedules, and the receiver invariant
   (no loss, no duplication) over all traces of the LTS. *)
From PV Require Import Lib.Py Lib.Tac Spec.RspSpec Model.Rsp Proofs.C35_frame.
Open Scope Z_scope.

(* ------------------------------------------------------------ sendpkt = sender spec *)
Definition outcome_flag (o : option outcome) : option bool :=
  match o with Some Acked => Some true | Some _ => Some false | None => None end.

Lemma acks_run_spec cf acks : retry_fix cf = true -> forall r f, 0 <= r ->
  (outcome_flag (fst (acks_run cf r f acks)), snd (acks_run cf r f acks)) =
  sender_spec (Z.to_nat r) acks.
Proof.
  intros Hf. induction acks as [|a rest IH]; intros r f Hr; [reflexivity|].
  cbn [acks_run sender_spec]. unfold snd_get. rewrite Hf.
  destruct (a =? 43); [reflexivity|].
  destruct (Z.leb_spec r 0) as [H0|H0].
  - replace r with 0 by lia. reflexivity.
  - replace (Z.to_nat r) with (S (Z.to_nat (r - 1))) by lia.
    specialize (IH (r - 1) false ltac:(lia)).
    destruct (acks_run cf (r - 1) false rest) as [o n].
    destruct (sender_spec (Z.to_nat (r - 1)) rest) as [o' n'].
    cbn [fst snd] in *. inversion IH. reflexivity.
Qed.

Lemma sender_spec_bound acks : forall n, (snd (sender_spec n acks) <= S n)%nat.
Proof.
  induction acks as [|a rest IH]; intros n; cbn [sender_spec]; [cbn; lia|].
  destruct (a =? 43); [cbn; lia|]. destruct n as [|k]; [cbn; lia|].
  specialize (IH k). destruct (sender_spec k rest). cbn [snd] in *. lia.
Qed.

Lemma sender_spec_naks_then_ack k : forall n, (k <= n)%nat ->
  sender_spec n (repeat 45 k ++ [43]) = (Some true, S k).
Proof.
  induction k as [|k IH]; intros n H; [reflexivity|].
  destruct n as [|n]; [lia|]. cbn [repeat app sender_spec]. cbn [Z.eqb Pos.eqb].
  rewrite IH by lia. reflexivity.
Qed.

Lemma sender_spec_all_naks n : sender_spec n (repeat 45 (S n)) = (Some false, S n).
Proof.
  induction n as [|n IH]; [reflexivity|].
  change (repeat 45 (S (S n))) with (45 :: repeat 45 (S n)).
  cbn [sender_spec]. cbn [Z.eqb Pos.eqb]. rewrite IH. reflexivity.
Qed.

Lemma retry_budget cf r f acks : retry_fix cf = true -> 0 <= r ->
  (snd (acks_run cf r f acks) <= S (Z.to_nat r))%nat.
Proof.
  intros Hf Hr. pose proof (acks_run_spec cf acks Hf r f Hr) as E.
  pose proof (sender_spec_bound acks (Z.to_nat r)) as B.
  rewrite <- E in B. exact B.
Qed.

Lemma ack_within_budget cf r f k : retry_fix cf = true -> 0 <= r -> (k <= Z.to_nat r)%nat ->
  acks_run cf r f (repeat 45 k ++ [43]) = (Some Acked, S k).
Proof.
  intros Hf Hr Hk. pose proof (acks_run_spec cf (repeat 45 k ++ [43]) Hf r f Hr) as E.
  rewrite sender_spec_naks_then_ack in E by exact Hk.
  destruct (acks_run cf r f (repeat 45 k ++ [43])) as [o n]. cbn [fst snd] in E.
  inversion E as [[Ho Hn]]. f_equal.
  destruct o as [[]|]; cbn in Ho; congruence.
Qed.

Lemma orig_last_retry_raises :
  acks_run orig 1 true [45; 43] = (Some RetryFail, 2%nat) /\
  sender_spec 1 [45; 43] = (Some true, 2%nat).
Proof. split; reflexivity. Qed.

(* ------------------------------------------------------------ one NAK = one retransmission *)
Lemma nak_retransmits cf s wire r f :
  nak_fix cf = true -> retry_fix cf = true ->
  snd_ s = SWait wire r f -> 0 < r ->
  dec s = DIdle -> q s = None -> blk s = None -> dead s = false ->
  let s' := run cf s [LRecv 45; LGet] in
  out s' = out s ++ wire /\ snd_ s' = SWait wire (r - 1) false /\
  sent s' = S (sent s) /\ q s' = None /\ results s' = results s.
Proof.
  intros Hn Hf Hs Hr Hd Hq Hb Hdead.
  destruct s as [d0 q0 b0 dd0 sn0 o0 dl0 rs0 rl0 ro0 se0]. cbn in *. subst.
  unfold run, step_or_skip, step, process_byte, dec_step, snd_get. cbn.
  rewrite Hn, Hf. cbn.
  destruct (Z.leb_spec r 0); [lia|]. cbn. auto.
Qed.

Lemma orig_nak_dropped :
  let s := run orig init [LSend [115] 10] in
  let s' := run orig s [LRecv 45] in
  snd_ s = SWait (rsp_pack [115]) 10 true /\
  q s' = None /\ out s' = out s /\ step orig s' LGet = None /\
  results (run orig s' [LGet; LTimeout]) = [TimedOut].
Proof. vm_compute. repeat split. Qed.

(* ------------------------------------------------------------ retry budget over all schedules *)
Definition no_send (tr : list label) : bool :=
  forallb (fun l => match l with LSend _ _ => false | _ => true end) tr.

Definition budget_inv (N : Z) (s : st) : Prop :=
  match snd_ s with
  | SIdle => Z.of_nat (sent s) <= N
  | SWait _ r _ => 0 <= r /\ Z.of_nat (sent s) + r <= N
  end.

Lemma budget_step cf N s l :
  retry_fix cf = true ->
  (match l with LSend _ _ => false | _ => true end) = true ->
  budget_inv N s -> budget_inv N (step_or_skip cf s l).
Proof.
  intros Hf Hl B. unfold step_or_skip, step.
  destruct s as [d0 q0 b0 dd0 sn0 o0 dl0 rs0 rl0 ro0 se0]. unfold budget_inv in *. cbn in *.
  destruct l as [p r|b| | |]; [discriminate| | | |].
  - destruct dd0; [exact B|]. destruct b0; [exact B|].
    destruct (process_byte cf d0 b) as [d' e]. destruct e; cbn; try exact B.
    destruct q0; [destruct (full_fix cf)|]; exact B.
  - destruct sn0 as [|wire r f]; [exact B|]. destruct q0 as [c|]; [|exact B].
    unfold snd_get. rewrite Hf.
    destruct (Z.eqb_spec c 43); destruct (Z.leb_spec r 0); cbn [snd_ sent]; lia.
  - destruct sn0 as [|wire r f]; [exact B|]. destruct q0; [exact B|]. cbn [snd_ sent]. lia.
  - destruct b0; exact B.
Qed.

Lemma budget_run cf N tr : retry_fix cf = true -> forall s,
  no_send tr = true -> budget_inv N s -> budget_inv N (run cf s tr).
Proof.
  intros Hf. induction tr as [|l tr IH]; intros s Hn B; [exact B|].
  cbn [no_send forallb] in Hn. apply andb_prop in Hn as [Hl Hn].
  cbn [run fold_left]. apply (IH (step_or_skip cf s l) Hn).
  now apply budget_step.
Qed.

Lemma budget_all_schedules cf p r tr :
  retry_fix cf = true -> 0 <= r -> no_send tr = true ->
  Z.of_nat (sent (run cf init (LSend p r :: tr))) <= 1 + r.
Proof.
  intros Hf Hr Hn.
  assert (B : budget_inv (1 + r) (step_or_skip cf init (LSend p r))).
  { unfold step_or_skip, step, budget_inv. cbn [snd_ init].
    destruct (forallb is_ascii_b p); cbn [snd_ sent]; change (sent init) with O; lia. }
  pose proof (budget_run cf (1 + r) tr Hf _ Hn B) as B'.
  change (run cf init (LSend p r :: tr)) with (run cf (step_or_skip cf init (LSend p r)) tr).
  unfold budget_inv in B'. destruct (snd_ (run cf (step_or_skip cf init (LSend p r)) tr)); lia.
Qed.

(* ------------------------------------------------------------ receiver invariant *)
Definition deliveries (evs : list rxev) : list (list Z) :=
  flat_map (fun e => match e with RDeliver p => [p] | _ => [] end) evs.
Definition replies (evs : list rxev) : list Z :=
  flat_map (fun e => match e with RDeliver _ => [43] | RNak => [45] | _ => [] end) evs.

Definition rx_inv (cf : cfg) (s : st) : Prop :=
  dec s = fst (rx_feed cf DIdle (rxlog s)) /\
  dlv s = deliveries (snd (rx_feed cf DIdle (rxlog s))) /\
  rxout s = replies (snd (rx_feed cf DIdle (rxlog s))).

Lemma rx_feed_snoc cf bs b :
  rx_feed cf DIdle (bs ++ [b]) =
  (fst (process_byte cf (fst (rx_feed cf DIdle bs)) b),
   snd (rx_feed cf DIdle bs) ++ [snd (process_byte cf (fst (rx_feed cf DIdle bs)) b)]).
Proof.
  rewrite rx_feed_app. destruct (rx_feed cf DIdle bs) as [d1 e1]. cbn [rx_feed fst snd].
  destruct (process_byte cf d1 b) as [d2 e]. reflexivity.
Qed.

Lemma rx_inv_step cf s l : rx_inv cf s -> rx_inv cf (step_or_skip cf s l).
Proof.
  intros (I1 & I2 & I3). unfold step_or_skip, step.
  destruct s as [d0 q0 b0 dd0 sn0 o0 dl0 rs0 rl0 ro0 se0]. unfold rx_inv in *. cbn in *.
  destruct l as [p r|b| | |].
  - destruct sn0; [|cbn; auto]. destruct (forallb is_ascii_b p); cbn; auto.
  - destruct dd0; [cbn; auto|]. destruct b0; [cbn; auto|].
    rewrite I1.
    pose proof (rx_feed_snoc cf rl0 b) as E.
    destruct (process_byte cf (fst (rx_feed cf DIdle rl0)) b) as [d' e] eqn:P.
    cbn [fst snd] in E.
    assert (D : forall x, deliveries (snd (rx_feed cf DIdle rl0) ++ [x]) =
                          dl0 ++ deliveries [x])
      by (intros x; unfold deliveries; rewrite flat_map_app; fold deliveries; now rewrite I2).
    assert (R : forall x, replies (snd (rx_feed cf DIdle rl0) ++ [x]) = ro0 ++ replies [x])
      by (intros x; unfold replies; rewrite flat_map_app; fold replies; now rewrite I3).
    destruct e; try (destruct q0; [destruct (full_fix cf)|]); cbn; rewrite E; cbn [fst snd]; rewrite D, R; cbn;
      rewrite ?app_nil_r; auto.
  - destruct sn0 as [|wire r f]; [cbn; auto|]. destruct q0 as [c|]; [|cbn; auto].
    destruct (snd_get cf r f c) as [o|[r' f']]; cbn; auto.
  - destruct sn0 as [|wire r f]; [cbn; auto|]. destruct q0; cbn; auto.
  - destruct b0; cbn; auto.
Qed.

Lemma rx_inv_run cf tr : forall s, rx_inv cf s -> rx_inv cf (run cf s tr).
Proof.
  induction tr as [|l tr IH]; intros s I; [exact I|].
  cbn [run fold_left]. apply (IH (step_or_skip cf s l)). now apply rx_inv_step.
Qed.

Lemma rx_inv_init cf : rx_inv cf init.
Proof. repeat split. Qed.

(* ------------------------------------------------------------ what the peer sent *)
Inductive item := IFrame (payload : list Z) | IAck | INak | IJunk (b : Z).

Definition item_bytes (i : item) : list Z :=
  match i with IFrame p => rsp_pack p | IAck => [43] | INak => [45] | IJunk b => [b] end.
Definition item_ok (i : item) : Prop :=
  match i with
  | IFrame p => forallb is_ascii_b p = true
  | IJunk b => b <> 36 /\ b <> 43 /\ b <> 45
  | _ => True
  end.
Definition stream (items : list item) : list Z := flat_map item_bytes items.
Definition payloads (items : list item) : list (list Z) :=
  flat_map (fun i => match i with IFrame p => [p] | _ => [] end) items.
Definition expected_replies (items : list item) : list Z :=
  flat_map (fun i => match i with IFrame _ => [43] | _ => [] end) items.

Lemma deliveries_app a b : deliveries (a ++ b) = deliveries a ++ deliveries b.
Proof. apply flat_map_app. Qed.
Lemma replies_app a b : replies (a ++ b) = replies a ++ replies b.
Proof. apply flat_map_app. Qed.
Lemma deliveries_silent n : deliveries (repeat RNone n) = [].
Proof. induction n; cbn; auto. Qed.
Lemma replies_silent n : replies (repeat RNone n) = [].
Proof. induction n; cbn; auto. Qed.

Lemma rx_item cf i :
  nak_fix cf = true -> esc_fix cf = true -> item_ok i ->
  exists evs, rx_feed cf DIdle (item_bytes i) = (DIdle, evs) /\
    deliveries evs = payloads [i] /\ replies evs = expected_replies [i].
Proof.
  intros Hn He Hok. destruct i as [p| | |b]; cbn [item_bytes].
  - eexists. split.
    + rewrite rsp_pack_frame. apply good_frame_delivered; auto using frame_is_frame, frame_ascii.
    + rewrite deliveries_app, replies_app, deliveries_silent, replies_silent. split; reflexivity.
  - eexists. split; [reflexivity|]. split; reflexivity.
  - eexists. split; [cbn [rx_feed]; unfold process_byte, dec_step; cbn [Z.eqb Pos.eqb orb];
                     rewrite Hn; reflexivity|]. split; reflexivity.
  - destruct Hok as (N1 & N2 & N3). apply Z.eqb_neq in N1, N2, N3.
    eexists. split; [cbn [rx_feed]; unfold process_byte, dec_step;
                     rewrite N1, N2, N3, andb_false_r; reflexivity|]. split; reflexivity.
Qed.

Lemma rx_stream cf items :
  nak_fix cf = true -> esc_fix cf = true -> Forall item_ok items ->
  exists evs, rx_feed cf DIdle (stream items) = (DIdle, evs) /\
    deliveries evs = payloads items /\ replies evs = expected_replies items.
Proof.
  intros Hn He. induction 1 as [|i items Hi _ IH].
  - exists []. repeat split.
  - destruct IH as (e2 & F2 & D2 & R2).
    destruct (rx_item cf i Hn He Hi) as (e1 & F1 & D1 & R1).
    exists (e1 ++ e2). cbn [stream flat_map]. fold (stream items).
    rewrite rx_feed_app, F1, F2. split; [reflexivity|].
    rewrite deliveries_app, replies_app, D1, D2, R1, R2.
    cbn [payloads expected_replies flat_map]. rewrite !app_nil_r. split; reflexivity.
Qed.

(* every schedule: after consuming the items the peer sent (plus possibly a proper prefix of the
   next packet) exactly the payloads of those packets were delivered, in order, once each, and
   exactly one '+' was written per packet *)
Lemma no_loss_no_dup cf tr items pre :
  nak_fix cf = true -> esc_fix cf = true ->
  Forall item_ok items ->
  (pre = [] \/ exists p suf, forallb is_ascii_b p = true /\ rsp_pack p = pre ++ suf /\ suf <> []) ->
  rxlog (run cf init tr) = stream items ++ pre ->
  dlv (run cf init tr) = payloads items /\ rxout (run cf init tr) = expected_replies items.
Proof.
  intros Hn He Hok Hpre Hlog.
  destruct (rx_inv_run cf tr init (rx_inv_init cf)) as (_ & I2 & I3).
  rewrite I2, I3, Hlog, rx_feed_app.
  destruct (rx_stream cf items Hn He Hok) as (evs & F & D & R). rewrite F.
  assert (S : snd (rx_feed cf DIdle pre) = repeat RNone (length pre)).
  { destruct Hpre as [->|(p & suf & Ha & Hp & Hs)]; [reflexivity|].
    eapply (proper_prefix_silent cf (rsp_pack p) pre suf); eauto.
    rewrite rsp_pack_frame. apply good_frame_delivered; auto using frame_is_frame, frame_ascii. }
  destruct (rx_feed cf DIdle pre) as [d2 e2]. cbn [snd] in *. subst e2.
  rewrite deliveries_app, replies_app, deliveries_silent, replies_silent, !app_nil_r. auto.
Qed.
