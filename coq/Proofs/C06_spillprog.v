(* Proofs/C06_spillprog.v — soundness of Model.SpillCheck.check_spill: the rewritten program
   simulates the program before the spill round. *)
From Coq Require Import ZArith List Bool Arith Lia.
From PV Require Import Spec.RegAllocSpec Spec.SpillSpec Model.RegAllocCheck Model.SpillCheck
                       Proofs.C06_regalloc Proofs.C06_spill.
Import ListNotations.
Open Scope Z_scope.

(* ---------------------------------------------------------------- counting *)
Lemma cntb_ins_step : forall marks pc, nth_error marks pc = Some true ->
  cntb marks (S pc) = cntb marks pc.
Proof.
  induction marks as [|b t IH]; intros pc H; [destruct pc; discriminate|].
  destruct pc.
  - cbn in H; inversion H; subst; destruct t; reflexivity.
  - cbn [nth_error] in H. specialize (IH pc H).
    destruct b; cbn [cntb] in *; rewrite IH; reflexivity.
Qed.

Lemma cntb_keep_step : forall marks pc, nth_error marks pc = Some false ->
  cntb marks (S pc) = S (cntb marks pc).
Proof.
  induction marks as [|b t IH]; intros pc H; [destruct pc; discriminate|].
  destruct pc.
  - cbn in H; inversion H; subst; destruct t; reflexivity.
  - cbn [nth_error] in H. specialize (IH pc H).
    destruct b; cbn [cntb] in *; rewrite IH; reflexivity.
Qed.

Lemma origb_cntb : forall marks pc, nth_error marks pc = Some false ->
  origb marks (cntb marks pc) = pc.
Proof.
  induction marks as [|b t IH]; intros pc H; [destruct pc; discriminate|].
  destruct pc.
  - cbn in H; inversion H; subst; reflexivity.
  - cbn [nth_error] in H. destruct b; cbn [cntb origb]; f_equal; eauto.
Qed.

(* ---------------------------------------------------------------- boolean helpers *)
Lemma loc_eqb_eq : forall a b, loc_eqb a b = true <-> a = b.
Proof.
  intros [x|x] [y|y]; cbn; split; intros H; try discriminate; try congruence.
  - apply Z.eqb_eq in H; now subst.
  - inversion H; apply Z.eqb_refl.
  - apply Z.eqb_eq in H; now subst.
  - inversion H; apply Z.eqb_refl.
Qed.

Lemma memf_In : forall f F, memf f F = true -> In f F.
Proof.
  unfold memf; intros f F H. apply existsb_exists in H. destruct H as [g [Hg E]].
  unfold fact_eqb in E. apply andb_true_iff in E. destruct E as [E1 E2].
  apply loc_eqb_eq in E1. apply Z.eqb_eq in E2.
  destruct f, g; cbn in *; subst; auto.
Qed.

Lemma list_nat_eqb_eq : forall a b : list nat, list_eqb Nat.eqb a b = true -> a = b.
Proof.
  induction a as [|x a IH]; destruct b as [|y b]; cbn; try discriminate; auto.
  intros E; apply andb_true_iff in E; destruct E as [E1 E2]. apply Nat.eqb_eq in E1.
  f_equal; auto.
Qed.

Section Sound.
Variables (physl special : list reg) (al0 : reg -> reg -> bool).
Let isph := isphys physl.
Let al := src_alias isph al0.
Let spb := sp physl special.
Let kf := keepf special.
(* kept registers that are clean or have been rewritten (acc) *)
Definition Kacc (D acc : list reg) (r : reg) : bool :=
  keepf special r && (negb (memz r D) || memz r acc).

Lemma spill_sim_mono : forall (K1 K2 : reg -> bool) F rf' mem rf,
  (forall r, K2 r = true -> K1 r = true) ->
  spill_sim K1 F rf' mem rf -> spill_sim K2 F rf' mem rf.
Proof. intros K1 K2 F rf' mem rf H [A B]; split; auto. Qed.

Lemma Kacc_kf : forall D acc r, Kacc D acc r = true -> kf r = true.
Proof. unfold Kacc, kf; intros D acc r H; apply andb_true_iff in H; tauto. Qed.

Lemma Kacc_cons_neq : forall D acc d r, r <> d -> Kacc D (d :: acc) r = Kacc D acc r.
Proof.
  intros D acc d r N. unfold Kacc, memz; cbn [existsb].
  destruct (Z.eqb_spec r d); [contradiction|]. reflexivity.
Qed.

Lemma sp_nonphys : forall r, spb r = true -> isph r = false /\ kf r = false.
Proof.
  unfold spb, sp, kf, keepf, isph; intros r H. apply andb_true_iff in H. destruct H as [H1 H2].
  apply negb_true_iff in H2. rewrite H1; auto.
Qed.

Lemma al_np_l : forall a b, isph a = false -> al a b = false.
Proof. intros a b H; unfold al, src_alias; now rewrite H. Qed.
Lemma al_np_r : forall a b, isph b = false -> al a b = false.
Proof. intros a b H; unfold al, src_alias; rewrite H; now rewrite andb_false_r. Qed.

Lemma sp_keep_neq : forall a b, spb a = true -> kf b = true -> a <> b.
Proof.
  intros a b Ha Hb E; subst. apply sp_nonphys in Ha. destruct Ha; congruence.
Qed.

Definition facts_valid (F : list fact) : Prop := forall f, In f F -> fact_ok physl special f = true.

Lemma fact_ok_parts : forall f, fact_ok physl special f = true ->
  spb (snd f) = true /\ (forall q, fst f = LReg q -> spb q = true).
Proof.
  unfold fact_ok; intros [l r] H; cbn in *. apply andb_true_iff in H. destruct H as [H1 H2].
  split; auto. intros q E; subst; auto.
Qed.

(* ---------------------------------------------------------------- one paired write *)
Lemma pair_write_sound : forall D acc J F F1 d' d x rf' mem rf,
  spill_sim (Kacc D acc) F rf' mem rf -> facts_valid F ->
  pair_write physl special F d' d = Some F1 ->
  spill_sim (Kacc D (d' :: acc)) F1 (write al J d' x rf') mem (write al J d x rf) /\ facts_valid F1.
Proof.
  intros D acc J F F1 d' d x rf' mem rf [HK HF] HV HP. unfold pair_write in HP.
  set (F0 := filter (fun f => negb (loc_eqb (fst f) (LReg d')) && negb (snd f =? d)) F) in *.
  assert (OLD : forall f, In f F0 -> holds (write al J d' x rf') mem (write al J d x rf) f
                                     /\ fact_ok physl special f = true).
  { intros [l r0] Hf. apply filter_In in Hf. destruct Hf as [Hin Hc]. cbn [fst snd] in Hc.
    apply andb_true_iff in Hc. destruct Hc as [C1 C2].
    apply negb_true_iff in C1, C2. apply Z.eqb_neq in C2.
    split; [|now apply HV].
    destruct (fact_ok_parts _ (HV _ Hin)) as [S1 S2]. cbn [fst snd] in S1, S2.
    specialize (HF _ Hin). unfold holds in *. cbn [fst snd] in *.
    assert (R : write al J d x rf r0 = rf r0).
    { unfold write. destruct (Z.eqb_spec r0 d); [contradiction|].
      rewrite al_np_r; auto. now apply sp_nonphys in S1. }
    rewrite R. destruct l as [q|s]; auto.
    unfold write. destruct (Z.eqb_spec q d') as [->|N].
    - exfalso. cbn in C1. rewrite Z.eqb_refl in C1. discriminate.
    - rewrite al_np_r; auto. specialize (S2 q eq_refl). now apply sp_nonphys in S2. }
  change (keepf special d) with (kf d) in HP.
  change (sp physl special d') with (spb d') in HP. change (sp physl special d) with (spb d) in HP.
  destruct ((d' =? d) && kf d) eqn:CA.
  - (* same kept register *)
    apply andb_true_iff in CA. destruct CA as [E Kd]. apply Z.eqb_eq in E. subst d'.
    inversion HP; subst F1; clear HP. split.
    + split.
      * intros r Kr. unfold write. destruct (Z.eqb_spec r d) as [->|N]; auto.
        rewrite Kacc_cons_neq in Kr by auto. rewrite (HK r Kr). reflexivity.
      * intros f Hf. now apply OLD.
    + intros f Hf. now apply OLD.
  - destruct (spb d' && spb d) eqn:CB; [|discriminate].
    apply andb_true_iff in CB. destruct CB as [S1 S2].
    inversion HP; subst F1; clear HP. split.
    + split.
      * intros r Kr. pose proof (Kacc_kf _ _ _ Kr) as Kk. unfold write.
        destruct (Z.eqb_spec r d'); [subst; apply sp_nonphys in S1; destruct S1; congruence|].
        destruct (Z.eqb_spec r d); [subst; apply sp_nonphys in S2; destruct S2; congruence|].
        rewrite Kacc_cons_neq in Kr by auto.
        rewrite (al_np_l d'), (al_np_l d); auto; now apply sp_nonphys.
      * intros f [<-|Hf]; [|now apply OLD].
        unfold holds, write; cbn [fst snd]. now rewrite !Z.eqb_refl.
    + intros f [<-|Hf]; [|now apply OLD].
      unfold fact_ok; cbn [fst snd]. fold spb. now rewrite S1, S2.
Qed.

Lemma pair_writes_sound : forall D J W' W acc F F1 outs rf' mem rf,
  spill_sim (Kacc D acc) F rf' mem rf -> facts_valid F ->
  pair_writes physl special F W' W = Some F1 ->
  spill_sim (Kacc D (rev W' ++ acc)) F1 (writes al J W' outs rf') mem (writes al J W outs rf).
Proof.
  intros D J W'; induction W' as [|d' a IH]; intros W acc F F1 outs rf' mem rf HS HV HP;
    destruct W as [|d b]; cbn [pair_writes] in HP; try discriminate.
  - inversion HP; subst; exact HS.
  - destruct (pair_write physl special F d' d) as [F2|] eqn:E; [|discriminate].
    destruct (pair_write_sound D acc J F F2 d' d (hd 0 outs) rf' mem rf HS HV E) as [HS2 HV2].
    cbn [writes rev]. rewrite <- app_assoc. cbn [app]. eapply IH; eauto.
Qed.

Lemma uses_ok_sound : forall D F us' us rf' mem rf,
  spill_sim (kclean special D) F rf' mem rf -> uses_ok special D F us' us = true ->
  map rf' us' = map rf us.
Proof.
  intros D F us'; induction us' as [|u' a IH]; intros us rf' mem rf HS H;
    destruct us as [|u b]; cbn [uses_ok] in H; try discriminate; auto.
  apply andb_true_iff in H. destruct H as [H1 H2]. cbn [map]. f_equal; [|eapply IH; eauto].
  destruct HS as [HK HF]. apply orb_true_iff in H1. destruct H1 as [H1|H1].
  - apply andb_true_iff in H1. destruct H1 as [E K]. apply Z.eqb_eq in E. subst. now apply HK.
  - apply memf_In in H1. exact (HF _ H1).
Qed.

(* ---------------------------------------------------------------- the checked program *)
Variables (xp : list xinstr) (marks : list bool) (P : list instr) (facts : list (list fact))
          (dirty : list (list reg)).
Hypothesis CHK : check_spill physl special al0 xp marks P facts dirty = true.
Variables (S : semantics) (junk : nat -> junk_t).

Let S0 := reindex_semb S marks.
Let junk0 := reindex_junkb junk marks.

Lemma chk_len : length marks = length xp.
Proof.
  unfold check_spill in CHK. rewrite !andb_true_iff in CHK. destruct CHK as [[H _] _].
  now apply Nat.eqb_eq.
Qed.

Lemma chk_valid : forall pc, facts_valid (facts_at facts pc).
Proof.
  intros pc f Hf. unfold check_spill in CHK. rewrite !andb_true_iff in CHK.
  destruct CHK as [[_ H] _]. rewrite forallb_forall in H. unfold facts_at in Hf.
  destruct (Nat.lt_ge_cases pc (length facts)) as [L|L].
  - specialize (H (nth pc facts []) (nth_In _ _ L)). rewrite forallb_forall in H. auto.
  - rewrite nth_overflow in Hf by auto. contradiction.
Qed.

Lemma chk_point : forall pc x, nth_error xp pc = Some x ->
  check_point physl special al0 xp marks P facts dirty pc = true /\
  nth_error marks pc = Some (nth pc marks false).
Proof.
  intros pc x Hx. assert (L : (pc < length xp)%nat) by (apply nth_error_Some; congruence).
  split.
  - unfold check_spill in CHK. rewrite !andb_true_iff in CHK. destruct CHK as [_ H].
    apply (forallb_seq _ _ H pc L).
  - apply nth_error_nth'. rewrite chk_len; auto.
Qed.

Lemma succ_ok_sound : forall s post rf' mem rf,
  succ_ok facts s post = true -> (forall f, In f post -> holds rf' mem rf f) ->
  forall f, In f (facts_at facts s) -> holds rf' mem rf f.
Proof.
  intros s post rf' mem rf H HP f Hf. unfold succ_ok in H. rewrite forallb_forall in H.
  apply HP. apply memf_In. auto.
Qed.

Definition related (xs : xstate) (ps : state) : Prop :=
  let '(pc', rf', mem) := xs in
  fst ps = cntb marks pc' /\
  spill_sim (kclean special (dirty_at dirty pc')) (facts_at facts pc') rf' mem (snd ps).

Lemma kclean_sub : forall D1 D2 r, subset D1 D2 = true ->
  kclean special D2 r = true -> kclean special D1 r = true.
Proof.
  unfold kclean; intros D1 D2 r H K. apply andb_true_iff in K. destruct K as [K1 K2].
  rewrite K1; cbn. apply negb_true_iff in K2. apply negb_true_iff.
  destruct (memz r D1) eqn:E; auto. apply memz_In in E. apply (subset_In _ _ H) in E.
  apply memz_In in E. congruence.
Qed.

Lemma step_spill : forall xs ps, related xs ps ->
  related (xstep al junk S xp xs) ps \/
  related (xstep al junk S xp xs) (step al junk0 S0 (map Some P) ps).
Proof.
  intros [[pc' rf'] mem] [pc rf] [Epc HS]. cbn [fst snd] in *. subst pc.
  unfold xstep. destruct (nth_error xp pc') as [x|] eqn:Hx; [|left; split; auto].
  destruct (chk_point pc' x Hx) as [CP HM]. unfold check_point in CP. rewrite Hx in CP.
  pose proof (chk_valid pc') as HV.
  set (D := dirty_at dirty pc') in *.
  destruct (nth pc' marks false) eqn:Mk.
  - (* inserted instruction: the original program does not move *)
    left. destruct HS as [HK HF].
    destruct x as [j|d s|s r].
    + destruct (i_clob j) eqn:Cj; [|discriminate]. destruct (i_jumps j) eqn:Jj; [|discriminate].
      rewrite !andb_true_iff in CP. destruct CP as [[CD CSub] CS]. rewrite forallb_forall in CD.
      unfold related, next_pc; rewrite Jj. cbn [fst snd]. split; [now rewrite cntb_ins_step|].
      rewrite app_nil_r.
      set (outs := if i_move j then map rf' (i_uses j) else sem_out S pc' (map rf' (i_uses j))).
      split.
      * intros r Kr.
        assert (Kr0 : kclean special D r = true).
        { eapply kclean_sub; [|exact Kr]. unfold subset in *. rewrite forallb_forall in *.
          intros y Hy. apply CSub. apply in_or_app; now left. }
        rewrite <- (HK r Kr0).
        assert (NP : ~ In r (filter (fun r0 => memz r0 (i_defs j)
                                       || existsb (fun d => al0 d r0) (i_defs j)) physl)).
        { intros Hin. unfold kclean in Kr. apply andb_true_iff in Kr. destruct Kr as [_ Kr].
          apply negb_true_iff in Kr. apply memz_false in Kr. apply Kr.
          eapply subset_In; [exact CSub|]. apply in_or_app; now right. }
        apply writes_unchanged.
        -- intros Hin. specialize (CD r Hin). apply orb_true_iff in CD. destruct CD as [CD|CD].
           ++ apply sp_nonphys in CD. destruct CD as [_ CD]. unfold kclean in Kr0.
              apply andb_true_iff in Kr0. destruct Kr0 as [Kr0 _]. unfold kf in CD. congruence.
           ++ apply andb_true_iff in CD. destruct CD as [CD _]. apply NP. apply filter_In. split.
              ** now apply memz_In.
              ** apply orb_true_iff; left. now apply memz_In.
        -- intros d Hd. destruct (al d r) eqn:E; auto. exfalso.
           unfold al, src_alias in E. rewrite !andb_true_iff in E. destruct E as [[E1 E2] E3].
           apply NP. apply filter_In. split; [now apply memz_In|].
           apply orb_true_iff; right. apply existsb_exists. exists d; split; auto.
      * eapply succ_ok_sound; eauto. intros f Hf. apply filter_In in Hf. destruct Hf as [Hin Hc].
        specialize (HF f Hin). unfold holds in *.
        destruct (fact_ok_parts f (HV f Hin)) as [_ S2].
        destruct (fst f) as [q|s0] eqn:El; auto.
        rewrite writes_unchanged; auto.
        -- apply negb_true_iff in Hc. now apply memz_false.
        -- intros d _. apply al_np_r. specialize (S2 q eq_refl). now apply sp_nonphys in S2.
    + rewrite !andb_true_iff in CP. destruct CP as [[Sd CSub] CS].
      unfold related. cbn [fst snd]. split; [now rewrite cntb_ins_step|].
      destruct (sp_nonphys d Sd) as [Nd Kd].
      split.
      * intros r Kr. pose proof (kclean_sub _ _ r CSub Kr) as Kr0.
        unfold write. destruct (Z.eqb_spec r d).
        -- subst. unfold kclean in Kr0. apply andb_true_iff in Kr0. destruct Kr0 as [Kr0 _].
           unfold kf in Kd. congruence.
        -- rewrite al_np_l; auto.
      * eapply succ_ok_sound; eauto. intros f Hf. apply in_app_or in Hf. destruct Hf as [Hf|Hf].
        -- apply in_map_iff in Hf. destruct Hf as [g [<- Hg]]. apply filter_In in Hg.
           destruct Hg as [Hin Hc]. apply loc_eqb_eq in Hc. specialize (HF g Hin).
           unfold holds in *; cbn [fst snd]. rewrite Hc in HF. unfold write. now rewrite Z.eqb_refl.
        -- apply filter_In in Hf. destruct Hf as [Hin Hc]. apply negb_true_iff in Hc.
           specialize (HF f Hin). unfold holds in *. destruct (fst f) as [q|s0]; auto.
           unfold write. destruct (Z.eqb_spec q d) as [->|N].
           ++ cbn in Hc. rewrite Z.eqb_refl in Hc. discriminate.
           ++ rewrite al_np_l; auto.
    + rewrite !andb_true_iff in CP. destruct CP as [CSub CS].
      unfold related. cbn [fst snd]. split; [now rewrite cntb_ins_step|].
      split; [intros r0 Kr; apply HK; eapply kclean_sub; eauto|].
      eapply succ_ok_sound; eauto. intros f Hf. apply in_app_or in Hf. destruct Hf as [Hf|Hf].
      * apply in_map_iff in Hf. destruct Hf as [g [<- Hg]]. apply filter_In in Hg.
        destruct Hg as [Hin Hc]. apply loc_eqb_eq in Hc. specialize (HF g Hin).
        unfold holds in *; cbn [fst snd]. rewrite Hc in HF. now rewrite Z.eqb_refl.
      * apply filter_In in Hf. destruct Hf as [Hin Hc]. apply negb_true_iff in Hc.
        specialize (HF f Hin). unfold holds in *. destruct (fst f) as [q|s0]; auto.
        destruct (Z.eqb_spec s0 s) as [->|N]; auto.
        cbn in Hc. rewrite Z.eqb_refl in Hc. discriminate.
  - (* an instruction of the original program *)
    right. destruct x as [i'| |]; try discriminate.
    destruct (nth_error P (cntb marks pc')) as [i|] eqn:Hi; [|discriminate].
    rewrite !andb_true_iff in CP. destruct CP as [[[CM CJ] CU] CW].
    apply Bool.eqb_prop in CM. apply list_nat_eqb_eq in CJ.
    destruct (pair_writes physl special (facts_at facts pc') (i_defs i' ++ i_clob i')
                (i_defs i ++ i_clob i)) as [post|] eqn:PW; [|discriminate].
    rewrite forallb_forall in CW.
    pose proof (uses_ok_sound _ _ _ _ _ _ _ HS CU) as EV.
    unfold step. rewrite nth_error_map, Hi. cbn [option_map].
    assert (EO : origb marks (cntb marks pc') = pc') by (apply origb_cntb; auto).
    unfold related. cbn [fst snd].
    assert (EN : next_pc S0 (cntb marks pc') i (map rf (i_uses i))
                 = cntb marks (next_pc S pc' i' (map rf' (i_uses i')))).
    { unfold next_pc, S0, reindex_semb; cbn [sem_br]. rewrite EO, EV, <- CJ.
      destruct (i_jumps i') as [|j js]; cbn [map].
      - symmetry. now apply cntb_keep_step.
      - change (cntb marks j :: map (cntb marks) js) with (map (cntb marks) (j :: js)).
        now rewrite map_nth. }
    split; [exact EN|].
    assert (EOUT : (if i_move i then map rf (i_uses i)
                    else sem_out S0 (cntb marks pc') (map rf (i_uses i)))
                   = (if i_move i' then map rf' (i_uses i')
                      else sem_out S pc' (map rf' (i_uses i')))).
    { unfold S0, reindex_semb; cbn [sem_out]. now rewrite EO, EV, CM. }
    rewrite EOUT. unfold junk0, reindex_junkb. rewrite EO.
    assert (HS0 : spill_sim (Kacc D []) (facts_at facts pc') rf' mem rf).
    { eapply spill_sim_mono; [|exact HS]. intros r0 K0. unfold Kacc in K0. unfold kclean.
      cbn in K0. now rewrite orb_false_r in K0. }
    pose proof (pair_writes_sound D (junk pc') _ _ [] _ _
                  (if i_move i' then map rf' (i_uses i') else sem_out S pc' (map rf' (i_uses i')))
                  rf' mem rf HS0 HV PW) as [HK2 HF2].
    assert (SUCC : In (next_pc S pc' i' (map rf' (i_uses i')))
                      (match i_jumps i' with [] => [Datatypes.S pc'] | js => js end)).
    { unfold next_pc. destruct (i_jumps i') as [|j js]; [now left|].
      destruct (Nat.lt_ge_cases (sem_br S pc' (map rf' (i_uses i'))) (length (j :: js))).
      + now apply nth_In.
      + rewrite nth_overflow by auto; now left. }
    specialize (CW _ SUCC). apply andb_true_iff in CW. destruct CW as [CW1 CW2].
    split.
    + intros r0 Kr. apply HK2. unfold kclean in Kr. apply andb_true_iff in Kr.
      destruct Kr as [K1 K2]. unfold Kacc. rewrite K1; cbn [andb]. rewrite app_nil_r.
      apply negb_true_iff in K2.
      destruct (memz r0 D) eqn:ED; cbn [negb orb]; auto.
      destruct (memz r0 (rev (i_defs i' ++ i_clob i'))) eqn:EW; auto. exfalso.
      apply memz_false in K2. apply K2. eapply subset_In; [exact CW2|].
      apply filter_In. split; [now apply memz_In|]. apply negb_true_iff. apply memz_false.
      intros Hin. apply memz_false in EW. apply EW. now apply in_rev in Hin.
    + eapply succ_ok_sound; eauto.
Qed.

Lemma run_spill : forall n xs ps, related xs ps ->
  exists m, (m <= n)%nat /\
    related (xrun al junk S xp n xs) (run al junk0 S0 (map Some P) m ps).
Proof.
  induction n as [|n IH]; intros xs ps HR; cbn [xrun].
  - exists 0%nat; split; auto.
  - destruct (step_spill xs ps HR) as [H|H].
    + destruct (IH _ _ H) as [m [Hm R]]. exists m; split; auto.
    + destruct (IH _ _ H) as [m [Hm R]]. exists (Datatypes.S m); split; [lia|]. exact R.
Qed.

(* at an original instruction the rewritten program reads exactly the values the original reads *)
Lemma reads_spill : forall pc' rf' mem ps i', related (pc', rf', mem) ps ->
  nth_error xp pc' = Some (XI i') -> nth pc' marks false = false ->
  reads (map Some P) ps = Some (map rf' (i_uses i')).
Proof.
  intros pc' rf' mem [pc rf] i' [Epc HS] Hx Mk. cbn [fst snd] in *. subst pc.
  destruct (chk_point pc' _ Hx) as [CP _]. unfold check_point in CP. rewrite Hx, Mk in CP.
  destruct (nth_error P (cntb marks pc')) as [i|] eqn:Hi; [|discriminate].
  rewrite !andb_true_iff in CP. destruct CP as [[[_ _] CU] _].
  unfold reads; cbn [fst snd]. rewrite nth_error_map, Hi; cbn [option_map].
  f_equal. symmetry. eapply uses_ok_sound; eauto.
Qed.

End Sound.

Theorem check_spill_sound : forall physl special al0 xp marks P facts dirty,
  check_spill physl special al0 xp marks P facts dirty = true ->
  forall (S : semantics) (junk : nat -> junk_t) rf' mem rf,
  spill_sim (kclean special (dirty_at dirty 0)) (facts_at facts 0) rf' mem rf ->
  forall n, exists m, (m <= n)%nat /\
    let al := src_alias (isphys physl) al0 in
    let xs := xrun al junk S xp n (0%nat, rf', mem) in
    let ps := run al (reindex_junkb junk marks) (reindex_semb S marks) (map Some P) m (0%nat, rf) in
    fst ps = cntb marks (fst (fst xs)) /\
    spill_sim (kclean special (dirty_at dirty (fst (fst xs)))) (facts_at facts (fst (fst xs)))
              (snd (fst xs)) (snd xs) (snd ps) /\
    (forall i', nth_error xp (fst (fst xs)) = Some (XI i') ->
                nth (fst (fst xs)) marks false = false ->
                reads (map Some P) ps = Some (map (snd (fst xs)) (i_uses i'))).
Proof.
  intros physl special al0 xp marks P facts dirty CHK S junk rf' mem rf H0 n.
  destruct (run_spill physl special al0 xp marks P facts dirty CHK S junk n (0%nat, rf', mem) (0%nat, rf))
    as [m [Hm R]].
  { unfold related; cbn [fst snd]; split; [destruct marks; reflexivity|exact H0]. }
  exists m; split; auto. cbv zeta.
  destruct (xrun (src_alias (isphys physl) al0) junk S xp n (0%nat, rf', mem)) as [[pc' rfn] memn].
  cbn [fst snd]. pose proof R as R'. destruct R as [E HS]. split; auto. split; auto.
  intros i' Hx Mk. eapply reads_spill; eauto.
Qed.

Definition slot_apart (x y : Z * Z * Z) : Prop :=
  let '(_, o, sz) := x in let '(_, o2, s2) := y in o + sz <= o2 \/ o2 + s2 <= o.

Theorem slots_disjoint_sound : forall l, slots_disjoint l = true -> ForallOrdPairs slot_apart l.
Proof.
  induction l as [|[[n o] sz] t IH]; intros H; [constructor|].
  cbn [slots_disjoint] in H. rewrite !andb_true_iff in H. destruct H as [[_ H1] H2].
  constructor; auto. rewrite forallb_forall in H1. apply Forall_forall. intros [[n2 o2] s2] Hin.
  specialize (H1 _ Hin). cbn in H1. unfold slot_apart. apply orb_true_iff in H1.
  destruct H1 as [H1|H1]; apply Z.leb_le in H1; auto.
Qed.
