(* Proofs/C35_regs.v — the hex payload codec and the register block of the GDB client
   (Model.RspRegs): what write_mem / set_registers put on the wire is read back unchanged by
   read_mem / _get_general_registers, for every byte string, every register list and all values. *)
From PV Require Import Lib.Py Lib.Tac.
From PV Require Import Model.RspRegs.
Open Scope Z_scope.

Definition byte (b : Z) : Prop := 0 <= b < 256.

Lemma hexnib_hexdigit n : 0 <= n < 16 -> hexnib (hexdigit n) = Some n.
Proof.
  intros H.
  assert (n = 0 \/ n = 1 \/ n = 2 \/ n = 3 \/ n = 4 \/ n = 5 \/ n = 6 \/ n = 7 \/ n = 8 \/ n = 9
          \/ n = 10 \/ n = 11 \/ n = 12 \/ n = 13 \/ n = 14 \/ n = 15) as C by lia.
  repeat (destruct C as [C | C]; [subst n; reflexivity |]). subst n; reflexivity.
Qed.

Lemma hex_roundtrip data : Forall byte data -> a2b_hex (b2a_hex data) = Ok data.
Proof.
  induction 1 as [| b r Hb _ IH]; [reflexivity |].
  change (b2a_hex (b :: r)) with (hexdigit (b / 16) :: hexdigit (b mod 16) :: b2a_hex r).
  cbn [a2b_hex]. unfold byte in Hb.
  rewrite !hexnib_hexdigit by lia. rewrite IH. cbn [bind].
  f_equal. f_equal. lia.
Qed.

Lemma b2a_hex_length data : length (b2a_hex data) = (2 * length data)%nat.
Proof. induction data as [| b r IH]; [reflexivity |]. cbn [b2a_hex flat_map app length] in *. unfold b2a_hex in IH. lia. Qed.

Lemma b2a_hex_digits data : Forall byte data ->
  Forall (fun c => 48 <= c <= 57 \/ 97 <= c <= 102) (b2a_hex data).
Proof.
  induction 1 as [| b r Hb _ IH]; [constructor |].
  change (b2a_hex (b :: r)) with (hexdigit (b / 16) :: hexdigit (b mod 16) :: b2a_hex r).
  unfold byte in Hb.
  constructor; [| constructor; [| exact IH]]; unfold hexdigit;
    match goal with |- context [?x <? 10] => destruct (x <? 10) eqn:E end; lia.
Qed.

(* little-endian integer codec *)
Lemma le_bytes_length n v : length (le_bytes n v) = n.
Proof. revert v; induction n; intros; cbn; [reflexivity | now rewrite IHn]. Qed.

Lemma le_bytes_bytes n v : Forall byte (le_bytes n v).
Proof. revert v; induction n; intros; cbn; constructor; [unfold byte; lia | apply IHn]. Qed.

Lemma le_value_le_bytes n v : 0 <= v < 2 ^ (8 * Z.of_nat n) -> le_value (le_bytes n v) = v.
Proof.
  revert v; induction n as [| n IH]; intros v Hv.
  - cbn in *. lia.
  - cbn [le_bytes le_value].
    replace (8 * Z.of_nat (S n)) with (8 + 8 * Z.of_nat n) in Hv by lia.
    rewrite Z.pow_add_r in Hv by lia. change (2 ^ 8) with 256 in Hv.
    rewrite IH; [lia |].
    split; [apply Z.div_pos; lia | apply Z.div_lt_upper_bound; lia].
Qed.

Lemma firstn_app_len {A} (a b : list A) n : length a = n -> firstn n (a ++ b) = a.
Proof. intros <-. induction a; cbn; [now destruct b | now f_equal]. Qed.
Lemma skipn_app_len {A} (a b : list A) n : length a = n -> skipn n (a ++ b) = b.
Proof. intros <-. induction a; cbn; [reflexivity | assumption]. Qed.

Lemma pack_register_ok bs v d : pack_register bs v = Ok d ->
  std_size (bs / 8) = true /\ 0 <= v < 2 ^ (8 * (bs / 8)) /\ d = le_bytes (Z.to_nat (bs / 8)) v.
Proof.
  unfold pack_register. destruct (std_size (bs / 8)); [| discriminate].
  destruct ((0 <=? v) && (v <? 2 ^ (8 * (bs / 8)))) eqn:E; [| discriminate].
  intros [= <-]. repeat split; lia.
Qed.

Lemma unpack_pack_register bs v d : pack_register bs v = Ok d -> unpack_register false bs d = Ok v.
Proof.
  intros H. apply pack_register_ok in H. destruct H as (Hs & Hv & ->).
  unfold unpack_register. rewrite le_bytes_length.
  assert (0 <= bs / 8) as Hp by (unfold std_size in Hs; lia).
  rewrite Z2Nat.id by exact Hp. rewrite Z.eqb_refl, Hs.
  assert (bs / 8 =? 3 = false) as -> by (unfold std_size in Hs; lia).
  f_equal. apply le_value_le_bytes. rewrite Z2Nat.id by exact Hp. exact Hv.
Qed.

Lemma regs_block_bytes regs : forall vals d, regs_block regs vals = Ok d -> Forall byte d.
Proof.
  induction regs as [| bs regs IH]; intros vals d H; cbn in H.
  - injection H as <-. constructor.
  - destruct vals as [| v vals]; [discriminate |].
    destruct (pack_register bs v) as [d1 | | |] eqn:E1; try discriminate. cbn [bind] in H.
    destruct (regs_block regs vals) as [d2 | | |] eqn:E2; try discriminate. cbn [bind] in H.
    injection H as <-. apply Forall_app; split; [| eauto].
    apply pack_register_ok in E1. destruct E1 as (_ & _ & ->). apply le_bytes_bytes.
Qed.

Lemma unpack_block_regs_block regs : forall vals d,
  regs_block regs vals = Ok d -> length vals = length regs -> unpack_block false regs d = Ok vals.
Proof.
  induction regs as [| bs regs IH]; intros vals d H L; cbn in H.
  - destruct vals; [reflexivity | discriminate].
  - destruct vals as [| v vals]; [discriminate |].
    destruct (pack_register bs v) as [d1 | | |] eqn:E1; try discriminate. cbn [bind] in H.
    destruct (regs_block regs vals) as [d2 | | |] eqn:E2; try discriminate. cbn [bind] in H.
    injection H as <-. cbn [unpack_block].
    assert (length d1 = Z.to_nat (bs / 8)) as Ld.
    { pose proof (pack_register_ok _ _ _ E1) as (_ & _ & ->). apply le_bytes_length. }
    rewrite firstn_app_len, skipn_app_len by exact Ld.
    rewrite (unpack_pack_register _ _ _ E1). cbn [bind].
    rewrite (IH vals d2 E2) by (cbn in L; lia). reflexivity.
Qed.

(* set_registers followed by get_registers on a little-endian target that echoes the block *)
Lemma registers_roundtrip regs vals cmd :
  length vals = length regs -> set_registers_cmd regs vals = Ok cmd ->
  firstn 2 cmd = [71; 32] /\ get_general_registers false regs (skipn 2 cmd) = Ok vals.
Proof.
  intros L H. unfold set_registers_cmd in H.
  destruct (regs_block regs vals) as [d | | |] eqn:E; try discriminate. cbn [bind] in H.
  injection H as <-. split; [reflexivity |].
  cbn [app skipn].
  unfold get_general_registers. rewrite hex_roundtrip by (eapply regs_block_bytes; eauto).
  cbn [bind]. now apply unpack_block_regs_block.
Qed.

(* set_registers succeeds exactly on values that fit their registers *)
Lemma regs_block_defined regs : forall vals,
  length vals = length regs ->
  Forall2 (fun bs v => std_size (bs / 8) = true /\ 0 <= v < 2 ^ (8 * (bs / 8))) regs vals ->
  exists d, regs_block regs vals = Ok d /\
            Z.of_nat (length d) = fold_right (fun bs a => bs / 8 + a) 0 regs.
Proof.
  induction regs as [| bs regs IH]; intros vals L F.
  - destruct vals; [| discriminate]. exists []. split; reflexivity.
  - inversion F as [| ? v ? vals' [Hs Hv] F']; subst. cbn in L.
    destruct (IH vals' ltac:(lia) F') as (d2 & E2 & L2).
    exists (le_bytes (Z.to_nat (bs / 8)) v ++ d2). cbn [regs_block fold_right].
    unfold pack_register. rewrite Hs.
    assert ((0 <=? v) && (v <? 2 ^ (8 * (bs / 8))) = true) as -> by lia.
    cbn [bind]. rewrite E2. cbn [bind]. split; [reflexivity |].
    rewrite app_length, le_bytes_length, Nat2Z.inj_add, L2.
    rewrite Z2Nat.id by (unfold std_size in Hs; lia). reflexivity.
Qed.

(* write_mem followed by read_mem of a target that echoes the data *)
Lemma mem_roundtrip data : Forall byte data ->
  read_mem_reply (write_mem_data data) = Ok data /\
  length (write_mem_data data) = (2 * length data)%nat.
Proof. intros H. split; [now apply hex_roundtrip | apply b2a_hex_length]. Qed.
