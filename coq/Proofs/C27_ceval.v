(* Proofs/C27_ceval.v — the (fixed) constant-expression evaluator and global packing of ppci agree
   with Spec/CIntSpec.v on the fragment where ppci's expression typing coincides with C typing. *)
From PV Require Import Lib.Py Lib.Tac Spec.CIntSpec Gen.ceval Model.CEval Model.CSema Model.CEvalOrig.
From Coq Require Import String.
Open Scope Z_scope.

(* the data model of a CContext *)
Definition dm_of (c : cctx) : datamodel :=
  mkdm 8 16 (8 * int_size c) (8 * long_size c) (8 * llong_size c) true.
Definition wf_ctx (c : cctx) : Prop := 2 <= int_size c /\ int_size c <= long_size c /\ long_size c <= llong_size c.

Lemma signed_wrap v X : 0 < X ->
  (v + X) mod (2 * X) - X = if X <=? v mod (2 * X) then v mod (2 * X) - 2 * X else v mod (2 * X).
Proof.
  intros HX.
  pose proof (Z.div_mod v (2 * X) ltac:(lia)) as D. pose proof (Z.mod_pos_bound v (2 * X) ltac:(lia)) as B.
  destruct (Z.leb_spec X (v mod (2 * X))).
  - rewrite <- (Z.mod_unique_pos (v + X) (2 * X) (v / (2 * X) + 1) (v mod (2 * X) - X)); nia.
  - rewrite <- (Z.mod_unique_pos (v + X) (2 * X) (v / (2 * X)) (v mod (2 * X) + X)); nia.
Qed.

Lemma pow2_half n : 1 <= n -> 2 ^ n = 2 * 2 ^ (n - 1).
Proof. intros H. replace n with (1 + (n - 1)) at 1 by lia. rewrite Z.pow_add_r by lia. reflexivity. Qed.

Ltac dmsimp := unfold dm_of; cbn [bits bits_char bits_short bits_int bits_long bits_llong is_signed char_signed].

Section Ctx.
Variable c : cctx.
Hypothesis Hwf : wf_ctx c.
Let dm := dm_of c.

Lemma bits_sizeof t : bits dm t = 8 * sizeof c t.
Proof. destruct t; reflexivity. Qed.
Lemma signed_m t : is_signed dm t = is_signed_m t.
Proof. destruct t; reflexivity. Qed.
Lemma integer_m t : is_integer_m t = true.
Proof. destruct t; reflexivity. Qed.
Lemma bits_ge8 t : 8 <= bits dm t.
Proof. destruct Hwf as (A & B & C). unfold dm. destruct t; dmsimp; lia. Qed.
Lemma bits_int_ge16 : 16 <= bits dm TInt.
Proof. destruct Hwf as (A & B & C). unfold dm. dmsimp; lia. Qed.

Lemma half_pow t : 2 ^ bits dm t / 2 = 2 ^ (bits dm t - 1).
Proof.
  pose proof (bits_ge8 t). rewrite (pow2_half (bits dm t)) by lia.
  rewrite Z.mul_comm, Z.div_mul by lia. reflexivity.
Qed.

(* c_wrap = convert *)
Lemma convert_m_ok t v : convert_m c t v = Ok (convert dm t v).
Proof.
  unfold convert_m. rewrite integer_m. unfold c_wrap, convert.
  rewrite <- bits_sizeof, <- signed_m. pose proof (bits_ge8 t) as B.
  assert (P : 0 < 2 ^ (bits dm t - 1)) by (apply Z.pow_pos_nonneg; lia).
  rewrite half_pow.
  guard_ok. rewrite !shiftl1_pow by lia. rewrite land_ones_mod by lia.
  destruct (is_signed dm t); cbn [implb andb].
  - guard_ok. rewrite (pow2_half (bits dm t)) by lia. rewrite signed_wrap by lia.
    rewrite Z.geb_leb. destruct (2 ^ (bits dm t - 1) <=? v mod (2 * 2 ^ (bits dm t - 1))); cbv iota.
    + reflexivity.
    + reflexivity.
  - reflexivity.
Qed.

Lemma convert_in_range t v : in_range dm t (convert dm t v) = true.
Proof.
  unfold in_range, tmin, tmax, convert. rewrite half_pow. pose proof (bits_ge8 t) as B.
  assert (P : 0 < 2 ^ (bits dm t - 1)) by (apply Z.pow_pos_nonneg; lia).
  pose proof (pow2_half (bits dm t) ltac:(lia)) as E.
  pose proof (Z.mod_pos_bound (v + 2 ^ (bits dm t - 1)) (2 ^ bits dm t) ltac:(lia)).
  pose proof (Z.mod_pos_bound v (2 ^ bits dm t) ltac:(lia)).
  destruct (is_signed dm t); lia.
Qed.

Lemma convert_id t v : in_range dm t v = true -> convert dm t v = v.
Proof.
  unfold in_range, tmin, tmax, convert. rewrite half_pow. pose proof (bits_ge8 t) as B.
  assert (P : 0 < 2 ^ (bits dm t - 1)) by (apply Z.pow_pos_nonneg; lia).
  pose proof (pow2_half (bits dm t) ltac:(lia)) as E.
  destruct (is_signed dm t); intros H.
  - rewrite Z.mod_small by lia. lia.
  - rewrite Z.mod_small by lia. reflexivity.
Qed.

Lemma fit_convert t z r : fit dm t z = Some r -> convert dm t z = r.
Proof.
  unfold fit. destruct (is_signed dm t) eqn:S.
  - destruct (in_range dm t z) eqn:R; [|discriminate]. intros [= <-]. now apply convert_id.
  - intros [= <-]. unfold convert. now rewrite S.
Qed.

Lemma fit_in_range t z r : fit dm t z = Some r -> in_range dm t r = true.
Proof. intros H. rewrite <- (fit_convert _ _ _ H). apply convert_in_range. Qed.

Lemma bool_in_int (b : bool) : in_range dm TInt (CIntSpec.b2z b) = true.
Proof.
  pose proof bits_int_ge16 as B. unfold in_range, tmin, tmax. cbn [is_signed].
  assert (2 ^ 15 <= 2 ^ (bits dm TInt - 1)) by (apply Z.pow_le_mono_r; lia).
  destruct b; cbn [CIntSpec.b2z]; lia.
Qed.

Lemma small_in_range t n : 0 <= n < bits dm t -> in_range dm t n = true.
Proof.
  intros H. pose proof (bits_ge8 t) as B. unfold in_range, tmin, tmax.
  assert (bits dm t - 1 < 2 ^ (bits dm t - 1)) by (apply Z.pow_gt_lin_r; lia).
  assert (P : 0 < 2 ^ (bits dm t - 1)) by (apply Z.pow_pos_nonneg; lia).
  pose proof (pow2_half (bits dm t) ltac:(lia)) as E.
  destruct (is_signed dm t); lia.
Qed.

(* ---- every defined value is in the range of its type ---- *)
Lemma arith_in_range t op a b r :
  arith dm t op a b = Some r -> in_range dm (if is_int_result op then TInt else t) r = true.
Proof.
  destruct op; cbn [arith is_int_result]; intros H;
    try (injection H as <-; first [apply bool_in_int | apply convert_in_range]);
    try (eapply fit_in_range; eassumption); try discriminate.
  - destruct (b =? 0); [discriminate|]. eapply fit_in_range; eassumption.
  - destruct (b =? 0); [discriminate|]. destruct (fit dm t (a ÷ b)); [|discriminate].
    eapply fit_in_range; eassumption.
Qed.

Lemma shift_in_range t op a n r : shift dm t op a n = Some r -> in_range dm t r = true.
Proof.
  unfold shift. destruct ((n <? 0) || (bits dm t <=? n)); [discriminate|].
  destruct op; try discriminate.
  - destruct (is_signed dm t) eqn:S.
    + destruct (a <? 0); [discriminate|]. destruct (in_range dm t (a * 2 ^ n)) eqn:R; [|discriminate].
      now intros [= <-].
    + intros [= <-]. pose proof (convert_in_range t (a * 2 ^ n)) as H. unfold convert in H. now rewrite S in H.
  - intros [= <-]. apply convert_in_range.
Qed.

Lemma eval_in_range e v : eval dm e = Some v -> in_range dm (type_of dm e) v = true.
Proof.
  destruct e as [t z|t a|op a|op a b|x a b]; cbn [eval type_of].
  - destruct (in_range dm t z) eqn:R; [|discriminate]. now intros [= <-].
  - destruct (eval dm a); [|discriminate]. intros [= <-]. apply convert_in_range.
  - destruct (eval dm a) as [va|]; [|discriminate].
    destruct op; intros H; try (injection H as <-).
    + eapply fit_in_range; eassumption.
    + apply convert_in_range.
    + apply bool_in_int.
    + apply convert_in_range.
  - destruct op;
      try (destruct (eval dm a) as [va|]; [|discriminate]; destruct (eval dm b) as [vb|]; [|discriminate];
           cbn [is_shift is_int_result]; intros H;
           first [ apply (arith_in_range _ _ _ _ _ H) | apply (shift_in_range _ _ _ _ _ H) ]).
    + destruct (eval dm a) as [va|]; [|discriminate]. cbn [is_int_result].
      destruct (va =? 0); [intros [= <-]; apply (bool_in_int false)|].
      destruct (eval dm b) as [vb|]; [|discriminate]. intros [= <-]. apply bool_in_int.
    + destruct (eval dm a) as [va|]; [|discriminate]. cbn [is_int_result].
      destruct (va =? 0); [|intros [= <-]; apply (bool_in_int true)].
      destruct (eval dm b) as [vb|]; [|discriminate]. intros [= <-]. apply bool_in_int.
  - destruct (eval dm x) as [vc|]; [|discriminate].
    destruct (eval dm (if vc =? 0 then b else a)); [|discriminate]. intros [= <-]. apply convert_in_range.
Qed.

(* ---- the module-level helpers of eval.py ---- *)
Lemma c_div_ok x y : y <> 0 -> c_div x y = Ok (Z.quot x y).
Proof.
  intros Hy. unfold c_div. guard_ok. f_equal. rewrite (Z.quot_div x y Hy).
  destruct (Z.sgn_spec x) as [[? ->]|[[? ->]|[? ->]]], (Z.sgn_spec y) as [[? ->]|[[? ->]|[? ->]]];
    try lia;
    destruct (Z.ltb_spec x 0), (Z.ltb_spec y 0); try lia; cbn [Bool.eqb negb]; subst;
    try (cbn [Z.abs]; rewrite ?Z.div_0_l by lia); lia.
Qed.

Lemma c_rem_ok x y : y <> 0 -> c_rem x y = Ok (Z.rem x y).
Proof.
  intros Hy. unfold c_rem. rewrite c_div_ok by assumption. cbn [bind]. f_equal.
  pose proof (Z.quot_rem' x y). lia.
Qed.

(* ---- coerce / promote ---- *)
Lemma ity_eqb_true a b : ity_eqb a b = true -> a = b.
Proof. destruct a, b; cbn; intros H; try discriminate; reflexivity. Qed.

Lemma typ_coerce x t : typ_of (coerce x t) = t.
Proof. unfold coerce. destruct (ity_eqb (typ_of x) t) eqn:E; [now apply ity_eqb_true|reflexivity]. Qed.

Lemma eval_coerce x t v :
  eval_expr c x = Ok v -> in_range dm (typ_of x) v = true ->
  eval_expr c (coerce x t) = Ok (convert dm t v).
Proof.
  intros H R. unfold coerce. destruct (ity_eqb (typ_of x) t) eqn:E.
  - apply ity_eqb_true in E. subst t. now rewrite convert_id.
  - cbn [eval_expr]. rewrite H. cbn [bind]. apply convert_m_ok.
Qed.

Ltac streq :=
  repeat match goal with
  | |- context [String.eqb ?a ?b] =>
      let r := eval vm_compute in (String.eqb a b) in change (String.eqb a b) with r
  end.

(* ---- packing ---- *)
Lemma le_bytes_m_eq n v : le_bytes_m n v = le_bytes n v.
Proof.
  revert v. induction n as [|n IH]; intros v; cbn [le_bytes_m le_bytes]; [reflexivity|].
  rewrite IH. change 255 with (2 ^ 8 - 1). rewrite land_ones_mod, shiftr_div by lia. reflexivity.
Qed.

Lemma pack_in_range t v :
  llong_size c = 8 -> in_range dm t v = true ->
  pack c t v = Ok (bytes_of (little_endian c) (sizeof c t) v).
Proof.
  intros H8 R. unfold pack.
  assert (G : (sizeof c t =? match t with TLLong | TULLong => 8 | _ => sizeof c t end) = true)
    by (destruct t; cbn [sizeof]; lia).
  rewrite G. unfold guard, pack_int. unfold in_range, tmin, tmax in R.
  rewrite bits_sizeof, signed_m in R.
  destruct (is_signed_m t); rewrite R; unfold bytes_of; now rewrite le_bytes_m_eq.
Qed.



Section Generic.
Variable pr : ity -> ity.
Variable cm : ity -> ity -> ity.
Local Notation promote_m := (promote_g pr).
Local Notation pp_t := (pp_g pr).
Local Notation elab := (elab_g pr cm).
Local Notation elab_init := (elab_init_g pr cm).
Local Notation sema_agrees := (sema_agrees_g pr cm).
Local Notation common_type := cm.

Lemma typ_promote x : typ_of (promote_m x) = pp_t (typ_of x).
Proof. unfold promote_g, pp_g. destruct (mem_ty (typ_of x) promotable_types); [apply typ_coerce|reflexivity]. Qed.

Lemma eval_promote x v :
  eval_expr c x = Ok v -> in_range dm (typ_of x) v = true ->
  eval_expr c (promote_m x) = Ok (convert dm (pp_t (typ_of x)) v).
Proof.
  intros H R. unfold promote_g, pp_g. destruct (mem_ty (typ_of x) promotable_types).
  - now apply eval_coerce.
  - now rewrite convert_id.
Qed.

(* an operand after integer promotion *)
Lemma operand a x va :
  typ_of x = type_of dm a -> eval_expr c x = Ok va -> eval dm a = Some va ->
  ity_eqb (pp_t (type_of dm a)) (promote dm (type_of dm a)) = true ->
  typ_of (promote_m x) = promote dm (type_of dm a) /\
  eval_expr c (promote_m x) = Ok (convert dm (promote dm (type_of dm a)) va).
Proof.
  intros T E S A. apply ity_eqb_true in A. split.
  - now rewrite typ_promote, T.
  - rewrite <- A, <- T. apply eval_promote; [assumption|]. rewrite T. now apply eval_in_range.
Qed.


(* arithmetic, bitwise and comparison operators on operands converted to the common type *)
Lemma binop_arith op x y t pa pb r :
  is_shift op = false -> op <> BLAnd -> op <> BLOr ->
  eval_expr c x = Ok pa -> in_range dm (typ_of x) pa = true ->
  eval_expr c y = Ok pb -> in_range dm (typ_of y) pb = true ->
  arith dm t op (convert dm t pa) (convert dm t pb) = Some r ->
  eval_expr c (BinOp (coerce x t) (binop_str op) (coerce y t) (if is_int_result op then TInt else t)) = Ok r.
Proof.
  intros Hs Ha Ho Ex Rx Ey Ry H.
  cbn [eval_expr]. rewrite (eval_coerce x t pa Ex Rx), (eval_coerce y t pb Ey Ry).
  set (A := convert dm t pa) in *. set (B := convert dm t pb) in *.
  destruct op; try discriminate; try congruence; cbn [binop_str is_int_result]; streq; cbv iota;
    cbn [bind]; cbv [lookup binop_table]; streq; cbv iota beta; cbn [arith] in H.
  - (* + *) cbn [bind]. rewrite convert_m_ok. f_equal. now apply fit_convert.
  - cbn [bind]. rewrite convert_m_ok. f_equal. now apply fit_convert.
  - cbn [bind]. rewrite convert_m_ok. f_equal. now apply fit_convert.
  - (* / *) destruct (Z.eqb_spec B 0); [discriminate|]. rewrite c_div_ok by assumption.
    cbn [bind]. rewrite convert_m_ok. f_equal. now apply fit_convert.
  - (* % *) destruct (Z.eqb_spec B 0); [discriminate|]. rewrite c_rem_ok by assumption.
    destruct (fit dm t (A ÷ B)); [|discriminate].
    cbn [bind]. rewrite convert_m_ok. f_equal. now apply fit_convert.
  - cbn [bind]. rewrite convert_m_ok. now injection H as <-.
  - cbn [bind]. rewrite convert_m_ok. now injection H as <-.
  - cbn [bind]. rewrite convert_m_ok. now injection H as <-.
  - cbn [bind]. rewrite convert_m_ok. injection H as <-. f_equal. apply convert_id, bool_in_int.
  - cbn [bind]. rewrite convert_m_ok. injection H as <-. f_equal. apply convert_id, bool_in_int.
  - cbn [bind]. rewrite convert_m_ok. injection H as <-. f_equal. apply convert_id, bool_in_int.
  - cbn [bind]. rewrite convert_m_ok. injection H as <-. f_equal. apply convert_id, bool_in_int.
  - cbn [bind]. rewrite convert_m_ok. injection H as <-. f_equal. apply convert_id, bool_in_int.
  - cbn [bind]. rewrite convert_m_ok. injection H as <-. f_equal. apply convert_id, bool_in_int.
Qed.

Lemma binop_shift op x y pa pb r :
  is_shift op = true ->
  eval_expr c x = Ok pa ->
  eval_expr c y = Ok pb -> in_range dm (typ_of y) pb = true ->
  shift dm (typ_of x) op pa pb = Some r ->
  eval_expr c (BinOp x (binop_str op) (coerce y (typ_of x)) (typ_of x)) = Ok r.
Proof.
  intros Hs Ex Ey Ry H. set (t := typ_of x) in *.
  cbn [eval_expr]. rewrite Ex, (eval_coerce y t pb Ey Ry).
  unfold shift in H. destruct ((pb <? 0) || (bits dm t <=? pb)) eqn:Hn; [discriminate|].
  assert (N : 0 <= pb < bits dm t) by lia.
  rewrite (convert_id t pb (small_in_range t pb N)).
  pose proof (bits_ge8 t) as B8.
  destruct op; try discriminate; cbn [binop_str]; streq; cbv iota; cbn [bind];
    cbv [lookup binop_table]; streq; cbv iota beta.
  - (* << *) unfold binop_12. guard_ok. cbn [bind]. rewrite convert_m_ok, shiftl_mul by lia. f_equal.
    destruct (is_signed dm t) eqn:S.
    + destruct (pa <? 0); [discriminate|]. destruct (in_range dm t (pa * 2 ^ pb)) eqn:R; [|discriminate].
      injection H as <-. now apply convert_id.
    + injection H as <-. unfold convert. now rewrite S.
  - (* >> *) unfold binop_11. guard_ok. cbn [bind]. rewrite convert_m_ok, shiftr_div by lia. now injection H as <-.
Qed.

(* ---- typing: elab computes the C type on the fragment ---- *)
Lemma elab_type e : sema_agrees dm e = true -> typ_of (elab e) = type_of dm e.
Proof.
  induction e as [t z|t a IHa|op a IHa|op a IHa b IHb|x IHx a IHa b IHb]; intros SA.
  - reflexivity.
  - reflexivity.
  - destruct op; cbn [sema_agrees_g] in SA; try (apply andb_prop in SA as [SA A]; apply ity_eqb_true in A);
      cbn [elab_g type_of typ_of]; rewrite ?typ_promote, ?IHa by assumption; auto.
  - cbn [sema_agrees_g] in SA. apply andb_prop in SA as [SA Aop]. apply andb_prop in SA as [SAa SAb].
    specialize (IHa SAa). specialize (IHb SAb).
    destruct op; cbn [elab_g type_of typ_of is_int_result is_shift]; try reflexivity;
      rewrite ?typ_promote, ?IHa, ?IHb;
      try (apply andb_prop in Aop as [Aop A3]; apply andb_prop in Aop as [A1 A2];
           apply ity_eqb_true in A3; exact A3);
      try (apply andb_prop in Aop as [A1 A2]; apply ity_eqb_true in A1; exact A1).
  - cbn [sema_agrees_g] in SA.
    apply andb_prop in SA as [SA Ac]. apply andb_prop in SA as [SA Ab]. apply andb_prop in SA as [SA Aa].
    apply andb_prop in SA as [SA SAb]. apply andb_prop in SA as [SAx SAa].
    cbn [elab_g type_of typ_of]. rewrite !typ_promote, IHa, IHb by assumption. now apply ity_eqb_true.
Qed.

(* ---- main theorem: evaluator = spec where ppci's typing is C's ---- *)
Theorem eval_exact e : forall v,
  sema_agrees dm e = true -> eval dm e = Some v -> eval_expr c (elab e) = Ok v.
Proof.
  induction e as [t z|t a IHa|op a IHa|op a IHa b IHb|x IHx a IHa b IHb]; intros v SA EV.
  - (* literal *) cbn in *. destruct (in_range dm t z); [|discriminate]. now injection EV as <-.
  - (* cast *) cbn [sema_agrees_g eval elab eval_expr] in *.
    destruct (eval dm a) as [va|] eqn:Ea; [|discriminate]. injection EV as <-.
    rewrite (IHa va SA eq_refl). cbn [bind]. apply convert_m_ok.
  - (* unary *)
    cbn [eval] in EV. destruct (eval dm a) as [va|] eqn:Ea; [|discriminate].
    destruct op; cbn [sema_agrees_g] in SA.
    + apply andb_prop in SA as [SA A]. pose proof (elab_type a SA) as T. pose proof (IHa va SA eq_refl) as E.
      destruct (operand a (elab a) va T E Ea A) as [T2 E2].
      cbn [elab_g unop_str]. cbn [eval_expr]. streq. cbn [orb]. cbv iota.
      rewrite E2. cbn [bind]. cbv [lookup unop_table]. streq. cbv iota beta. cbn [bind].
      rewrite convert_m_ok, T2. f_equal. unfold unop_0. now apply fit_convert.
    + apply andb_prop in SA as [SA A]. pose proof (elab_type a SA) as T. pose proof (IHa va SA eq_refl) as E.
      destruct (operand a (elab a) va T E Ea A) as [T2 E2].
      cbn [elab_g unop_str]. cbn [eval_expr]. streq. cbn [orb]. cbv iota.
      rewrite E2. cbn [bind]. cbv [lookup unop_table]. streq. cbv iota beta. cbn [bind].
      rewrite convert_m_ok, T2. unfold unop_1. now injection EV as <-.
    + pose proof (IHa va SA eq_refl) as E.
      cbn [elab_g]. cbn [eval_expr]. streq. cbn [orb]. cbv iota.
      rewrite E. cbn [bind]. cbv [lookup unop_table]. streq. cbv iota beta. cbn [bind].
      rewrite convert_m_ok. injection EV as <-. f_equal. apply convert_id, bool_in_int.
    + apply andb_prop in SA as [SA A]. pose proof (elab_type a SA) as T. pose proof (IHa va SA eq_refl) as E.
      destruct (operand a (elab a) va T E Ea A) as [T2 E2].
      cbn [elab_g]. rewrite E2. now injection EV as <-.
  - (* binary *)
    cbn [sema_agrees_g] in SA. apply andb_prop in SA as [SA Aop]. apply andb_prop in SA as [SAa SAb].
    destruct (eval dm a) as [va|] eqn:Ea.
    2:{ destruct op; cbn [eval] in EV; rewrite Ea in EV; discriminate. }
    pose proof (elab_type a SAa) as Ta. pose proof (elab_type b SAb) as Tb.
    pose proof (IHa va SAa eq_refl) as E1.
    destruct (Bool.bool_dec (is_shift op) true) as [Hs|Hs].
    + (* shifts *)
      destruct (eval dm b) as [vb|] eqn:Eb.
      2:{ destruct op; try discriminate; cbn [eval] in EV; rewrite Ea, Eb in EV; discriminate. }
      pose proof (IHb vb SAb eq_refl) as E2.
      assert (A2 : ity_eqb (pp_t (type_of dm a)) (promote dm (type_of dm a)) = true /\
                   ity_eqb (pp_t (type_of dm b)) (promote dm (type_of dm b)) = true)
        by (destruct op; try discriminate; apply andb_prop in Aop; assumption).
      destruct A2 as [Aa Ab].
      destruct (operand a (elab a) va Ta E1 Ea Aa) as [T1 P1].
      destruct (operand b (elab b) vb Tb E2 Eb Ab) as [T2 P2].
      assert (EV' : shift dm (promote dm (type_of dm a)) op
                      (convert dm (promote dm (type_of dm a)) va)
                      (convert dm (promote dm (type_of dm b)) vb) = Some v)
        by (destruct op; try discriminate; cbn [eval] in EV; rewrite Ea, Eb in EV; exact EV).
      rewrite <- T1 in EV' at 1.
      assert (G : elab (EBin op a b) =
                  BinOp (promote_m (elab a)) (binop_str op)
                        (coerce (promote_m (elab b)) (typ_of (promote_m (elab a)))) (typ_of (promote_m (elab a))))
        by (destruct op; try discriminate; reflexivity).
      rewrite G. apply (binop_shift op _ _ _ _ v Hs P1 P2); [|exact EV'].
      rewrite T2. apply convert_in_range.
    + apply Bool.not_true_is_false in Hs.
      destruct (Bool.bool_dec (match op with BLAnd | BLOr => true | _ => false end) true) as [Hl|Hl].
      * (* && || *)
        destruct op; try discriminate; cbn [eval] in EV; rewrite Ea in EV;
          cbn [elab_g binop_str eval_expr]; streq; cbv iota; rewrite E1; cbn [bind].
        -- destruct (va =? 0); [now injection EV as <-|].
           destruct (eval dm b) as [vb|] eqn:Eb; [|discriminate].
           rewrite (IHb vb SAb eq_refl). cbn [bind]. now injection EV as <-.
        -- destruct (va =? 0); cbn [negb]; [|now injection EV as <-].
           destruct (eval dm b) as [vb|] eqn:Eb; [|discriminate].
           rewrite (IHb vb SAb eq_refl). cbn [bind]. now injection EV as <-.
      * (* arithmetic / bitwise / comparison *)
        apply Bool.not_true_is_false in Hl.
        destruct (eval dm b) as [vb|] eqn:Eb.
        2:{ destruct op; try discriminate; cbn [eval] in EV; rewrite Ea, Eb in EV; discriminate. }
        pose proof (IHb vb SAb eq_refl) as E2.
        assert (A3 : ity_eqb (pp_t (type_of dm a)) (promote dm (type_of dm a)) = true /\
                     ity_eqb (pp_t (type_of dm b)) (promote dm (type_of dm b)) = true /\
                     ity_eqb (common_type (pp_t (type_of dm a)) (pp_t (type_of dm b)))
                             (uac dm (promote dm (type_of dm a)) (promote dm (type_of dm b))) = true).
        { destruct op; try discriminate; apply andb_prop in Aop as [Aop A3];
            apply andb_prop in Aop as [A1 A2]; auto. }
        destruct A3 as (Aa & Ab & Ac).
        destruct (operand a (elab a) va Ta E1 Ea Aa) as [T1 P1].
        destruct (operand b (elab b) vb Tb E2 Eb Ab) as [T2 P2].
        apply ity_eqb_true in Ac. pose proof (ity_eqb_true _ _ Aa) as Aa'. pose proof (ity_eqb_true _ _ Ab) as Ab'.
        assert (EV' : arith dm (uac dm (promote dm (type_of dm a)) (promote dm (type_of dm b))) op
                        (convert dm (uac dm (promote dm (type_of dm a)) (promote dm (type_of dm b)))
                                 (convert dm (promote dm (type_of dm a)) va))
                        (convert dm (uac dm (promote dm (type_of dm a)) (promote dm (type_of dm b)))
                                 (convert dm (promote dm (type_of dm b)) vb)) = Some v)
          by (destruct op; try discriminate; cbn [eval] in EV; rewrite Ea, Eb in EV; exact EV).
        set (t := uac dm (promote dm (type_of dm a)) (promote dm (type_of dm b))) in *.
        assert (G : elab (EBin op a b) =
                    BinOp (coerce (promote_m (elab a)) t) (binop_str op) (coerce (promote_m (elab b)) t)
                          (if is_int_result op then TInt else t)).
        { rewrite <- Ac, <- Ta, <- Tb, <- !typ_promote.
          destruct op; try discriminate; reflexivity. }
        rewrite G.
        apply (binop_arith op _ _ t _ _ v Hs (ltac:(destruct op; discriminate)) (ltac:(destruct op; discriminate))
                 P1 (ltac:(rewrite T1; apply convert_in_range)) P2 (ltac:(rewrite T2; apply convert_in_range)) EV').
  - (* ?: *)
    cbn [sema_agrees_g] in SA.
    apply andb_prop in SA as [SA Ac]. apply andb_prop in SA as [SA Ab]. apply andb_prop in SA as [SA Aa].
    apply andb_prop in SA as [SA SAb]. apply andb_prop in SA as [SAx SAa].
    cbn [eval] in EV. destruct (eval dm x) as [vx|] eqn:Ex; [|discriminate].
    pose proof (IHx vx SAx eq_refl) as E0.
    pose proof (elab_type a SAa) as Ta. pose proof (elab_type b SAb) as Tb.
    apply ity_eqb_true in Ac. pose proof (ity_eqb_true _ _ Aa) as Aa'. pose proof (ity_eqb_true _ _ Ab) as Ab'.
    cbn [type_of] in EV.
    cbn [elab_g]. rewrite !typ_promote, Ta, Tb, Ac. cbn [eval_expr]. rewrite E0. cbn [bind].
    destruct (vx =? 0); cbn [negb].
    + destruct (eval dm b) as [vb|] eqn:Eb; [|discriminate]. injection EV as <-.
      destruct (operand b (elab b) vb Tb (IHb vb SAb eq_refl) Eb Ab) as [T2 P2].
      apply eval_coerce; [assumption|]. rewrite T2. apply convert_in_range.
    + destruct (eval dm a) as [va|] eqn:Ea; [|discriminate]. injection EV as <-.
      destruct (operand a (elab a) va Ta (IHa va SAa eq_refl) Ea Aa) as [T1 P1].
      apply eval_coerce; [assumption|]. rewrite T1. apply convert_in_range.
Qed.

Theorem init_exact t e v :
  llong_size c = 8 -> sema_agrees dm e = true -> eval dm e = Some v ->
  global_init c t (elab_init t e) = Ok (bytes_of (little_endian c) (sizeof c t) (convert dm t v)).
Proof.
  intros H8 SA EV. unfold global_init, elab_init_g.
  rewrite (eval_coerce (elab e) t v (eval_exact e v SA EV)).
  - cbn [bind]. apply pack_in_range; [assumption|apply convert_in_range].
  - rewrite (elab_type e SA). now apply eval_in_range.
Qed.

End Generic.

(* ---- the current helpers (c83990b) are C's integer promotions / usual arithmetic conversions ---- *)
Lemma promote_ok t : pp_g (promote_t c) t = promote dm t.
Proof.
  destruct Hwf as (A & B & C). unfold pp_g, promote_t, promote, dm.
  destruct t; cbn [mem_ty existsb promotable_types ity_eqb orb rank is_signed_m signed_types negb andb sizeof
                   Z.ltb Z.compare Pos.compare Pos.compare_cont]; dmsimp; try reflexivity;
    cbn [orb]; try reflexivity.
  - destruct (Z.ltb_spec 8 (8 * int_size c)), (Z.geb_spec 1 (int_size c)); try lia; reflexivity.
  - destruct (Z.ltb_spec 16 (8 * int_size c)), (Z.geb_spec 2 (int_size c)); try lia; reflexivity.
Qed.

Lemma common_ok a b : common_type_c c a b = uac dm a b.
Proof.
  destruct Hwf as (A & B & C). unfold common_type_c, uac, dm.
  destruct a, b; cbn -[Z.mul Z.gtb Z.geb Z.ltb Z.leb int_size long_size llong_size]; try reflexivity;
    repeat match goal with
    | |- context [?x >? ?y] => destruct (Z.gtb_spec x y); try lia
    | |- context [?x <? ?y] => destruct (Z.ltb_spec x y); try lia
    end; reflexivity.
Qed.

Lemma ity_eqb_refl t : ity_eqb t t = true.
Proof. destruct t; reflexivity. Qed.

Lemma sema_agrees_all e : sema_agrees c dm e = true.
Proof.
  unfold sema_agrees.
  induction e as [t z|t a IHa|op a IHa|op a IHa b IHb|x IHx a IHa b IHb]; cbn [sema_agrees_g].
  - reflexivity.
  - assumption.
  - destruct op; rewrite ?IHa, ?promote_ok, ?ity_eqb_refl; reflexivity.
  - rewrite IHa, IHb. destruct op; rewrite ?promote_ok, ?common_ok, ?ity_eqb_refl; reflexivity.
  - rewrite IHx, IHa, IHb, !promote_ok, common_ok, !ity_eqb_refl. reflexivity.
Qed.

End Ctx.

(* ---- statements used by Props/C27.v ---- *)
Definition x86_64 : cctx := mkctx 4 8 8 true.
Definition arm32 : cctx := mkctx 4 4 8 true.
Definition msp430 : cctx := mkctx 2 4 8 true.

(* full statements: the typing helpers of the current code are C's on every operand pair *)
Lemma eval_exact_full c e ty v :
  wf_ctx c -> const_eval (dm_of c) e = Some (ty, v) ->
  eval_expr c (elab c e) = Ok v /\ typ_of (elab c e) = ty.
Proof.
  intros W H. unfold const_eval in H. destruct (eval (dm_of c) e) as [v'|] eqn:E; [|discriminate].
  injection H as <- <-. pose proof (sema_agrees_all c W e) as SA. unfold elab. split.
  - now apply eval_exact.
  - now apply elab_type.
Qed.

Lemma converted_full c t e ty v :
  wf_ctx c -> llong_size c = 8 -> const_eval (dm_of c) e = Some (ty, v) ->
  global_init c t (elab_init c t e) =
  Ok (bytes_of (little_endian c) (sizeof c t) (convert (dm_of c) t v)).
Proof.
  intros W H8 H. unfold const_eval in H. destruct (eval (dm_of c) e) as [v'|] eqn:E; [|discriminate].
  injection H as _ <-. unfold elab_init. apply init_exact; try assumption. apply (sema_agrees_all c W).
Qed.

(* the same for any typing helpers, on the fragment where they agree with C (used for the old rule) *)
Lemma eval_exact_partial pr cm c e ty v :
  wf_ctx c -> sema_agrees_g pr cm (dm_of c) e = true -> const_eval (dm_of c) e = Some (ty, v) ->
  eval_expr c (elab_g pr cm e) = Ok v /\ typ_of (elab_g pr cm e) = ty.
Proof.
  intros W SA H. unfold const_eval in H. destruct (eval (dm_of c) e) as [v'|] eqn:E; [|discriminate].
  injection H as <- <-. split; [now apply eval_exact|now apply elab_type].
Qed.

(* the defects of the evaluator before the fixes (model Model/CEvalOrig.v) *)
Definition lit (z : Z) := ELit TInt z.
Definition refute0 (c : cctx) (e : expr) : bool :=
  match eval (dm_of c) e, eval_expr0 (elab0 e) with
  | Some v, Ok v' => negb (v =? v')
  | Some _, _ => true
  | None, _ => false
  end.
Lemma refute0_sound c e : refute0 c e = true ->
  exists ty v, const_eval (dm_of c) e = Some (ty, v) /\ eval_expr0 (elab0 e) <> Ok v.
Proof.
  unfold refute0, const_eval. destruct (eval (dm_of c) e) as [v|]; [|discriminate].
  intros H. exists (type_of (dm_of c) e), v. split; [reflexivity|].
  destruct (eval_expr0 (elab0 e)) as [v'| | |]; try discriminate.
  intros [= ->]. rewrite Z.eqb_refl in H. discriminate.
Qed.

Definition w_mod := EBin BMod (lit 7) (lit 3).
Definition w_lt := EBin BLt (lit 1) (lit 2).
Definition w_land := EBin BLAnd (lit 1) (lit 2).
Definition w_cond := ECond (lit 1) (lit 2) (lit 3).
Definition w_lnot := EUn ULNot (lit 5).
Definition w_div := EBin BDiv (EUn UNeg (lit 7)) (lit 2).
Definition w_wrap := EBin BAdd (ELit TUInt 4294967295) (ELit TUInt 1).
Definition w_cast := ECast TChar (lit 200).

Lemma refuted_witnesses :
  forallb (refute0 x86_64) [w_mod; w_lt; w_land; w_cond; w_lnot; w_div; w_wrap; w_cast] = true.
Proof. vm_compute. reflexivity. Qed.

Lemma witness_values :
  (eval_expr0 (elab0 w_mod) = Internal KeyError /\ eval (dm_of x86_64) w_mod = Some 1) /\
  (eval_expr0 (elab0 w_lt) = Internal KeyError /\ eval (dm_of x86_64) w_lt = Some 1) /\
  (eval_expr0 (elab0 w_cond) = Internal NotImplemented /\ eval (dm_of x86_64) w_cond = Some 2) /\
  (eval_expr0 (elab0 w_div) = Ok (-4) /\ eval (dm_of x86_64) w_div = Some (-3)) /\
  (eval_expr0 (elab0 w_wrap) = Ok 4294967296 /\ eval (dm_of x86_64) w_wrap = Some 0) /\
  (eval_expr0 (elab0 w_cast) = Ok 200 /\ eval (dm_of x86_64) w_cast = Some (-56)).
Proof. vm_compute. repeat split. Qed.

(* unsigned char g = 300; *)
Lemma converted_refuted :
  const_eval (dm_of x86_64) (lit 300) = Some (TInt, 300) /\
  global_init0 x86_64 TUChar (elab_init0 TUChar (lit 300)) = Internal StructError /\
  bytes_of true 1 (convert (dm_of x86_64) TUChar 300) = [44].
Proof. vm_compute. repeat split. Qed.

(* the helpers BEFORE c83990b (promote = always int, get_common_type = max rank): where they differ from C *)
Definition agree_pair (dm : datamodel) (a b : ity) : bool :=
  ity_eqb (pp_t a) (promote dm a) && ity_eqb (pp_t b) (promote dm b) &&
  ity_eqb (common_type (pp_t a) (pp_t b)) (uac dm (promote dm a) (promote dm b)).
Definition all_ty := [TChar; TUChar; TShort; TUShort; TInt; TUInt; TLong; TULong; TLLong; TULLong].
Definition disagreeing (dm : datamodel) : list (ity * ity) :=
  filter (fun p => negb (agree_pair dm (fst p) (snd p))) (list_prod all_ty all_ty).

Lemma fragment_lp64 : disagreeing (dm_of x86_64) = [(TULong, TLLong); (TLLong, TULong)].
Proof. vm_compute. reflexivity. Qed.
Lemma fragment_ilp32 : disagreeing (dm_of arm32) = [(TUInt, TLong); (TLong, TUInt)].
Proof. vm_compute. reflexivity. Qed.
Lemma fragment_int16_ushort :
  forallb (fun p => ity_eqb (fst p) TUShort || ity_eqb (snd p) TUShort) (disagreeing (dm_of msp430)) = true.
Proof. vm_compute. reflexivity. Qed.

Lemma all_ty_complete t : In t all_ty.
Proof. destruct t; cbn; tauto. Qed.

Lemma nonvacuous :
  wf_ctx x86_64 /\ llong_size x86_64 = 8 /\
    const_eval (dm_of x86_64) (EBin BDiv (EUn UNeg (lit 7)) (ELit TUInt 2)) = Some (TUInt, 2147483644).
Proof. unfold wf_ctx. vm_compute. repeat split; discriminate. Qed.

(* ---- eval_binop, EnumType branch (operands of enumerated type are integers, C11 6.7.2.2): every operator it
   installs is the operator of the integer branch ---- *)
Definition enum_entry_agrees (kf : string * (Z -> Z -> result Z)) : Prop :=
  match lookup (fst kf) binop_table with
  | Some g => forall x y, snd kf x y = g x y
  | None => False
  end.
Ltac streq_e :=
  repeat match goal with
  | |- context [String.eqb ?a ?b] =>
      let r := eval vm_compute in (String.eqb a b) in change (String.eqb a b) with r
  end.
Lemma enum_table_agrees : Forall enum_entry_agrees binop_enum_table.
Proof.
  unfold binop_enum_table.
  repeat (apply Forall_cons; [unfold enum_entry_agrees; cbn [fst snd]; cbv [lookup binop_table]; streq_e; cbv iota beta; intros; reflexivity|]).
  apply Forall_nil.
Qed.
