(* Proofs/C09_tables.v — reflected per-ISA facts about the exported syntax/grammar tables (tie I):
   every entry of stab_<arch> is well-formed (production = syntax without whitespace, no glued elements,
   literals and register words are keywords, registers recognised under their printed names), the entries of
   nonwf_<arch> are not, and ambiguous_<arch> is exactly the list of production pairs that unify. *)
From PV Require Import Lib.Py Model.AsmSyntax Proofs.C09_syntax.
From PV Require Import Gen.Tab_syntax_riscv.
From PV Require Import Gen.Tab_syntax_riscv_rvc.
From PV Require Import Gen.Tab_syntax_arm.
From PV Require Import Gen.Tab_syntax_thumb.
From PV Require Import Gen.Tab_syntax_x86_64.
From PV Require Import Gen.Tab_syntax_msp430.
From PV Require Import Gen.Tab_syntax_avr.
From PV Require Import Gen.Tab_syntax_m68k.
From PV Require Import Gen.Tab_syntax_mips.
From PV Require Import Gen.Tab_syntax_or1k.
From PV Require Import Gen.Tab_syntax_xtensa.
From PV Require Import Gen.Tab_syntax_microblaze.

Lemma facts_riscv : table_facts kws_riscv regs_riscv stab_riscv extra_riscv nonwf_riscv ambiguous_riscv.
Proof. apply table_facts_reflect. vm_compute. reflexivity. Qed.

Lemma facts_riscv_rvc : table_facts kws_riscv_rvc regs_riscv_rvc stab_riscv_rvc extra_riscv_rvc nonwf_riscv_rvc ambiguous_riscv_rvc.
Proof. apply table_facts_reflect. vm_compute. reflexivity. Qed.

Lemma facts_arm : table_facts kws_arm regs_arm stab_arm extra_arm nonwf_arm ambiguous_arm.
Proof. apply table_facts_reflect. vm_compute. reflexivity. Qed.

Lemma facts_thumb : table_facts kws_thumb regs_thumb stab_thumb extra_thumb nonwf_thumb ambiguous_thumb.
Proof. apply table_facts_reflect. vm_compute. reflexivity. Qed.

Lemma facts_x86_64 : table_facts kws_x86_64 regs_x86_64 stab_x86_64 extra_x86_64 nonwf_x86_64 ambiguous_x86_64.
Proof. apply table_facts_reflect. vm_compute. reflexivity. Qed.

Lemma facts_msp430 : table_facts kws_msp430 regs_msp430 stab_msp430 extra_msp430 nonwf_msp430 ambiguous_msp430.
Proof. apply table_facts_reflect. vm_compute. reflexivity. Qed.

Lemma facts_avr : table_facts kws_avr regs_avr stab_avr extra_avr nonwf_avr ambiguous_avr.
Proof. apply table_facts_reflect. vm_compute. reflexivity. Qed.

Lemma facts_m68k : table_facts kws_m68k regs_m68k stab_m68k extra_m68k nonwf_m68k ambiguous_m68k.
Proof. apply table_facts_reflect. vm_compute. reflexivity. Qed.

Lemma facts_mips : table_facts kws_mips regs_mips stab_mips extra_mips nonwf_mips ambiguous_mips.
Proof. apply table_facts_reflect. vm_compute. reflexivity. Qed.

Lemma facts_or1k : table_facts kws_or1k regs_or1k stab_or1k extra_or1k nonwf_or1k ambiguous_or1k.
Proof. apply table_facts_reflect. vm_compute. reflexivity. Qed.

Lemma facts_xtensa : table_facts kws_xtensa regs_xtensa stab_xtensa extra_xtensa nonwf_xtensa ambiguous_xtensa.
Proof. apply table_facts_reflect. vm_compute. reflexivity. Qed.

Lemma facts_microblaze : table_facts kws_microblaze regs_microblaze stab_microblaze extra_microblaze nonwf_microblaze ambiguous_microblaze.
Proof. apply table_facts_reflect. vm_compute. reflexivity. Qed.
