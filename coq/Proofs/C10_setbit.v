(* Proofs/C10_setbit.v — wave 5: the int-key branch of Token.__setitem__ (= Token.set_bit), regenerated from
   ppci/arch/token.py by the flattening pre-pass + py2coq as Gen.token_fields.tok_setbit.
   Exact behaviour for every token size, token state, bit index and value; it never range-checks the value. *)
From PV Require Import Lib.Py Lib.Tac Spec.FieldSpec.
From PV Require Gen.token_fields.
Open Scope Z_scope.
Module G := PV.Gen.token_fields.

Lemma testbit_shiftl1 i j : 0 <= i -> 0 <= j -> Z.testbit (Z.shiftl 1 i) j = (j =? i).
Proof.
  intros Hi Hj. rewrite Z.shiftl_spec by assumption.
  destruct (j =? i) eqn:E.
  - apply Z.eqb_eq in E. subst. now rewrite Z.sub_diag.
  - apply Z.eqb_neq in E. destruct (Z.ltb_spec j i).
    + apply Z.testbit_neg_r. lia.
    + replace (j - i) with (Z.succ (j - i - 1)) by lia.
      change 1 with (2 * 0 + 1) at 1.
      rewrite (Z.testbit_succ_r 0 true) by lia. apply Z.testbit_0_l.
Qed.

Lemma setbit_exact size bv i v : 0 <= i < size ->
  exists bv', G.tok_setbit size bv i v = Ok bv' /\
    forall j, 0 <= j -> Z.testbit bv' j = if j =? i then negb (v =? 0) else Z.testbit bv j.
Proof.
  intros Hi. unfold G.tok_setbit.
  replace ((0 <=? i) && (i <? size)) with true by lia. replace (0 <=? i) with true by lia.
  unfold guard. eexists. split; [reflexivity|].
  intros j Hj. destruct (v =? 0); cbn [negb].
  - rewrite Z.land_spec, Z.lnot_spec, testbit_shiftl1 by lia. destruct (j =? i); [apply andb_false_r|apply andb_true_r].
  - rewrite Z.lor_spec, testbit_shiftl1 by lia. destruct (j =? i); [apply orb_true_r|apply orb_false_r].
Qed.

Lemma setbit_rejects size bv i v : ~ (0 <= i < size) -> G.tok_setbit size bv i v = Internal AssertionError.
Proof.
  intros H. unfold G.tok_setbit. replace ((0 <=? i) && (i <? size)) with false by lia. reflexivity.
Qed.

(* reading the one-bit slice [i, i+1) with the regenerated Token.__getitem__ *)
Lemma getbit_reads bv i : 0 <= i -> G.tok_getitem bv i (i + 1) = Ok (Z.b2z (Z.testbit bv i)).
Proof.
  intros Hi. unfold G.tok_getitem. replace (i + 1 - i) with 1 by lia.
  replace (0 <=? i) with true by lia. cbn -[Z.shiftl Z.shiftr Z.land Z.testbit Z.b2z].
  f_equal. change (Z.shiftl 1 1 - 1) with 1. rewrite Z.shiftr_land, Z.shiftr_shiftl_l by lia. rewrite Z.sub_diag. cbn [Z.shiftl].
  match goal with |- Z.land ?x 1 = _ => change (Z.land x (Z.ones 1) = Z.b2z (Z.testbit bv i)) end.
  rewrite Z.land_ones by lia. change (2 ^ 1) with 2.
  rewrite <- Z.bit0_mod. now rewrite Z.shiftr_spec by lia.
Qed.

(* write then read: the stored bit is (v != 0) — the operand itself exactly when it fits one unsigned bit *)
Lemma setbit_readback size bv i v : 0 <= i < size ->
  exists bv', G.tok_setbit size bv i v = Ok bv' /\
    G.tok_getitem bv' i (i + 1) = Ok (if v =? 0 then 0 else 1) /\
    (fits false 1 v -> G.tok_getitem bv' i (i + 1) = Ok v).
Proof.
  intros Hi. destruct (setbit_exact size bv i v Hi) as (bv' & Hs & Hb).
  exists bv'. split; [exact Hs|].
  assert (Hg : G.tok_getitem bv' i (i + 1) = Ok (if v =? 0 then 0 else 1)).
  { rewrite getbit_reads by lia. rewrite Hb by lia. rewrite Z.eqb_refl. now destruct (v =? 0). }
  split; [exact Hg|]. intros Hf. rewrite Hg. unfold fits in Hf. change (2 ^ 1) with 2 in Hf.
  destruct (v =? 0) eqn:E; f_equal; lia.
Qed.

(* no range check: every value outside {0, 1} is accepted and stored as 1 *)
Lemma setbit_truncates size bv i v : 0 <= i < size -> ~ fits false 1 v ->
  exists bv', G.tok_setbit size bv i v = Ok bv' /\ G.tok_getitem bv' i (i + 1) = Ok 1 /\ v <> 1.
Proof.
  intros Hi Hf. destruct (setbit_readback size bv i v Hi) as (bv' & Hs & Hg & _).
  exists bv'. split; [exact Hs|]. unfold fits in Hf. change (2 ^ 1) with 2 in Hf.
  destruct (v =? 0) eqn:E; [lia|]. split; [exact Hg|lia].
Qed.
