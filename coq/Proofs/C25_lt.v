(* Proofs/C25_lt.v — bounded theorem for the model of Lengauer-Tarjan (Model/LengauerTarjan.v):
   on EVERY graph with 1..4 nodes (all 2^(n*n) edge relations, self loops and unreachable nodes
   included, entry 0) the model returns exactly the reference immediate dominators of
   Model/DomRef.v (proved equal to the path definition in Proofs/C25_ref.v), or KeyError exactly
   when a node unreachable from the entry has an edge to a reachable non-entry node.
   Checked for two iteration orders of the successor/predecessor sets (ascending, descending). *)
From PV Require Import Lib.Py.
From PV Require Import Spec.CfgSpec Model.DomRef Model.DomTree Model.LengauerTarjan.
Close Scope Z_scope.
Open Scope nat_scope.

(* the code's domain: every predecessor of a reachable non-entry node is reachable *)
Definition lt_domain (g : graph) (e : nat) : bool :=
  let R := reach_from g e in
  forallb (fun v => implb (mem v R && negb (v =? e))
                          (forallb (fun u => mem u R) (nth v (preds_of g) [])))
          (seq 0 (length g)).

Definition res_eqb (r : result dict) (expect : result dict) : bool :=
  match r, expect with
  | Ok a, Ok b => (length a =? length b) &&
                  forallb (fun w => opt_eqb (nth w a None) (nth w b None)) (seq 0 (length b))
  | Internal KeyError, Internal KeyError => true
  | _, _ => false
  end.

Definition lt_expected (g : graph) (e : nat) : result dict :=
  if lt_domain g e then Ok (idom_list g e) else Internal KeyError.

Definition chk_lt (g : graph) : bool :=
  res_eqb (lt_idom g (preds_of g) 0) (lt_expected g 0) &&
  res_eqb (lt_idom (map (@rev nat) g) (map (@rev nat) (preds_of g)) 0) (lt_expected g 0).

Definition small_graphs : list graph :=
  all_graphs 1 ++ all_graphs 2 ++ all_graphs 3 ++ all_graphs 4.

Lemma small_graphs_in n g : 1 <= n <= 4 -> In g (all_graphs n) -> In g small_graphs.
Proof.
  intros Hn Hg. unfold small_graphs. rewrite !in_app_iff.
  assert (E : n = 1 \/ n = 2 \/ n = 3 \/ n = 4) by lia.
  destruct E as [->|[->|[->| ->]]].
  - left; exact Hg.
  - right; left; exact Hg.
  - right; right; left; exact Hg.
  - right; right; right; exact Hg.
Qed.

Lemma all_small_lt : forallb chk_lt small_graphs = true.
Proof. vm_cast_no_check (eq_refl true). Qed.

Lemma opt_eqb_eq a b : opt_eqb a b = true -> a = b.
Proof.
  destruct a, b; simpl; intros H; try discriminate; auto. apply Nat.eqb_eq in H. now subst.
Qed.

Lemma res_eqb_eq r x : res_eqb r x = true -> r = x.
Proof.
  destruct r as [a| |err|], x as [b| |err'|]; try destruct err; try destruct err';
    simpl; intros H; try discriminate; try reflexivity.
  apply andb_true_iff in H. destruct H as [Hl H]. apply Nat.eqb_eq in Hl. f_equal.
  rewrite forallb_forall in H.
  apply (nth_ext a b None None Hl). intros i Hi.
  apply opt_eqb_eq, H, in_seq. lia.
Qed.

Theorem lt_bounded n g : 1 <= n <= 4 -> In g (all_graphs n) ->
  lt_idom g (preds_of g) 0 = lt_expected g 0 /\
  lt_idom (map (@rev nat) g) (map (@rev nat) (preds_of g)) 0 = lt_expected g 0.
Proof.
  intros Hn Hg. pose proof all_small_lt as H. rewrite forallb_forall in H.
  specialize (H g (small_graphs_in n g Hn Hg)). unfold chk_lt in H.
  apply andb_true_iff in H. destruct H as [H1 H2].
  split; now apply res_eqb_eq.
Qed.

(* ---- 5 nodes, no self loops: 16^5 graphs, split by the successor set of node 0 into 16 shards;
   each shard is checked by vm_compute in the thorough tier of tools/props/c25.py
   (Goal forallb chk_lt (shard5 k) = true), it is not part of the theorems above *)
Definition noloop_rows (n i : nat) : list (list nat) :=
  filter (fun l => negb (mem i l)) (sublists (seq 0 n)).

Fixpoint product {A} (rows : list (list A)) : list (list A) :=
  match rows with
  | [] => [[]]
  | r :: rest => flat_map (fun c => map (cons c) (product rest)) r
  end.

Definition shard5 (k : nat) : list graph :=
  map (cons (nth k (noloop_rows 5 0) []))
      (product [noloop_rows 5 1; noloop_rows 5 2; noloop_rows 5 3; noloop_rows 5 4]).
