(* Proofs/C18_reader.v — HexFile.load on ANY file the reference I32HEX reader accepts (not only files written
   by save): the loaded regions hold exactly the denoted bytes, and the start address is the denoted one. *)
From PV Require Import Lib.Py Lib.Tac Spec.IhexSpec Model.Hexfile Proofs.C18_hexfile Proofs.C18_loadsave
  Proofs.C18_complete.
From Coq Require Import String Ascii Permutation.
Open Scope Z_scope.

(* ---------------- text: the model's hex parser is the spec's *)
Lemma hexval_same c : Hexfile.hexval c = IhexSpec.hexval c.
Proof. destruct c as [[] [] [] [] [] [] [] []]; reflexivity. Qed.

Lemma hexval_nows c x : IhexSpec.hexval c = Some x -> is_ws c = false.
Proof. destruct c as [[] [] [] [] [] [] [] []]; vm_compute; congruence. Qed.

Lemma fromhex_same s : fromhex s = hex_bytes s /\ forall a, fromhex (String a s) = hex_bytes (String a s).
Proof.
  induction s as [|b r [IH1 IH2]]; [split; [reflexivity | intros a; reflexivity]|].
  split; [apply IH2|]. intros a. cbn [fromhex hex_bytes]. rewrite !hexval_same, IH1.
  destruct (IhexSpec.hexval a), (IhexSpec.hexval b), (hex_bytes r); try reflexivity. do 2 f_equal. lia.
Qed.

Lemma hex_bytes_nows s : (forall bs, hex_bytes s = Some bs -> all_nows s = true) /\
  (forall a bs, hex_bytes (String a s) = Some bs -> all_nows (String a s) = true).
Proof.
  induction s as [|b r [IH1 IH2]]; [split; [reflexivity | intros a bs H; discriminate]|].
  split; [apply IH2|]. intros a bs. cbn [hex_bytes].
  destruct (IhexSpec.hexval a) eqn:Ea; [|discriminate]. destruct (IhexSpec.hexval b) eqn:Eb; [|discriminate].
  destruct (hex_bytes r) eqn:Er; [|discriminate]. intros _.
  cbn [all_nows]. rewrite (hexval_nows _ _ Ea), (hexval_nows _ _ Eb), (IH1 _ eq_refl). reflexivity.
Qed.

Lemma ok_inj_opt {A} (a b : A) : Some a = Some b -> a = b.
Proof. congruence. Qed.

Lemma ok_inj {A} (a b : A) : Ok a = Ok b -> a = b.
Proof. congruence. Qed.

Lemma colon_char c : (Z.of_nat (nat_of_ascii c) =? 58) = true -> c = ":"%char.
Proof. destruct c as [[] [] [] [] [] [] [] []]; vm_compute; congruence. Qed.

(* a line accepted by the reference reader is parsed by from_line to the same record, and strip keeps it *)
Lemma read_line_from_line s rc : read_line s = Some rc ->
  exists tl, s = String ":" tl /\ strip s = s /\
             from_line s = Ok (mkHexLine (i_off rc) (i_typ rc) (i_data rc)).
Proof.
  unfold read_line, parse_line. destruct s as [|c r]; [discriminate|].
  destruct (Z.of_nat (nat_of_ascii c) =? 58) eqn:Ec; [|discriminate]. apply colon_char in Ec. subst c.
  destruct (hex_bytes r) as [bs|] eqn:Eh; [|discriminate]. intros Hd.
  exists r. split; [reflexivity|]. split.
  { apply strip_nows. cbn [all_nows]. change (is_ws ":") with false. cbn [negb andb].
    eapply (proj1 (hex_bytes_nows r)); eauto. }
  unfold from_line. change (Ascii.eqb ":" ":") with true. cbn [negb].
  rewrite (proj1 (fromhex_same r)), Eh.
  unfold decode in Hd. destruct bs as [|ll [|ah [|al [|ty rest]]]]; try discriminate.
  destruct (all_byte (ll :: ah :: al :: ty :: rest) && (ll =? len (removelast rest)) && (1 <=? len rest) &&
            (last rest 0 =? (- (ll + ah + al + ty + sumZ (removelast rest))) mod 256)) eqn:E; [|discriminate].
  apply ok_inj_opt in Hd. subst rc. cbn [i_off i_typ i_data].
  apply andb_true_iff in E. destruct E as [E E4]. apply andb_true_iff in E. destruct E as [E E3].
  apply andb_true_iff in E. destruct E as [E1 E2].
  assert (Hrest : rest = removelast rest ++ [last rest 0]).
  { apply app_removelast_last. intros ->. cbn in E3. discriminate. }
  set (d := removelast rest) in *. set (ck := last rest 0) in *. rewrite Hrest.
  assert (EL : len (ll :: ah :: al :: ty :: d ++ [ck]) = ll + 5).
  { rewrite !len_cons, len_app. change (len [ck]) with 1. lia. }
  rewrite EL. replace (ll + 5 =? ll + 5) with true by lia. cbn [negb].
  assert (ES : Z.land (sumZ (ll :: ah :: al :: ty :: d ++ [ck])) 255 = 0).
  { change 255 with (2 ^ 8 - 1). rewrite land_ones_mod by lia. change (2 ^ 8) with 256.
    cbn [sumZ]. rewrite sumZ_app. cbn [sumZ]. lia. }
  rewrite ES. change (0 =? 0) with true. cbn [negb].
  unfold sliceZ at 1. change (Z.to_nat (3 - 1)) with 2%nat. change (Z.to_nat 1) with 1%nat.
  cbn [skipn firstn unpack_H bind].
  unfold nthZ. change (3 <? 0) with false. change (Z.to_nat 3) with 3%nat. cbn [nth_error].
  unfold sliceZ. change (Z.to_nat 4) with 4%nat. cbn [skipn].
  replace (Z.to_nat (ll + 5 - 1 - 4)) with (List.length d) by (unfold len in *; lia).
  rewrite firstn_len_app. do 2 f_equal. lia.
Qed.

(* ---------------- lockstep: the reference interpreter and load *)
Lemma load_step_gen hl s tl rest st : s = String ":" tl -> strip s = s -> from_line s = Ok hl ->
  load_st (s :: rest) st = st' <- step hl st ;; load_st rest st'.
Proof.
  intros E Hstrip Hf. unfold load_st. cbn [load_loop]. rewrite Hstrip. rewrite E in Hf |- *.
  change (Ascii.eqb ":" ":") with true. cbn [negb]. rewrite Hf. cbn [bind].
  unfold step. destruct st as [regs start eof ext]. cbn [st_regs st_start st_eof st_ext].
  destruct eof; [reflexivity|].
  destruct (typ hl =? 0). { destruct (check (regs ++ [(address hl + ext, data hl)])); reflexivity. }
  destruct (typ hl =? 4). { destruct (unpack_H (sliceZ (data hl) 0 2)); reflexivity. }
  destruct (typ hl =? 1). { destruct (negb (len (data hl) =? 0)); reflexivity. }
  destruct (typ hl =? 5). { destruct (unpack_I (sliceZ (data hl) 0 4)); reflexivity. }
  reflexivity.
Qed.

Lemma read_lines_cons l r recs : read_lines (l :: r) = Some recs ->
  exists x xs, recs = x :: xs /\ read_line l = Some x /\ read_lines r = Some xs.
Proof.
  cbn [read_lines]. destruct (read_line l) as [x|]; [|discriminate].
  destruct (read_lines r) as [xs|]; [|discriminate]. intros H. apply ok_inj_opt in H. subst. eauto.
Qed.

Lemma interp_blocks rs : forall ulba acc start blocks st,
  interp rs ulba acc start = Some (blocks, st) -> exists later, blocks = rev acc ++ later.
Proof.
  induction rs as [|r rest IH]; intros ulba acc start blocks st H; [discriminate|].
  cbn [interp] in H.
  destruct (i_typ r =? 1).
  { destruct rest; [|discriminate]. destruct (i_data r); [|discriminate].
    apply ok_inj_opt in H. injection H as <- _. exists []. now rewrite app_nil_r. }
  destruct (i_typ r =? 0).
  { destruct (_ <=? 4294967296); [|discriminate]. destruct (IH _ _ _ _ _ H) as (later & ->).
    cbn [rev]. rewrite <- app_assoc. eauto. }
  destruct (i_typ r =? 4). { destruct (_ =? 2); [|discriminate]. eauto. }
  destruct (i_typ r =? 5). { destruct (_ =? 4); [|discriminate]. eauto. }
  discriminate.
Qed.

Lemma NoDup_app_l {A} (l1 l2 : list A) : NoDup (l1 ++ l2) -> NoDup l1.
Proof.
  induction l1 as [|x l IH]; intros H; [constructor|]. cbn [app] in H.
  pose proof (proj1 (NoDup_cons_iff _ _) H) as [H1 H2]. constructor; [|now apply IH].
  intros Hin. apply H1. apply in_or_app. now left.
Qed.

Lemma disjoint_prefix (l1 l2 : list region) : disjoint_set (l1 ++ l2) -> disjoint_set l1.
Proof.
  intros (H1 & H2 & H3). split; [|split].
  - unfold nonempty in *. apply Forall_app in H1. tauto.
  - eapply NoDup_app_l; eauto.
  - intros r1 r2 I1 I2. apply H3; apply in_or_app; now left.
Qed.

Lemma add_one regs pre a d : canonical regs -> (forall z x, holds regs z x <-> holds pre z x) ->
  disjoint_set (pre ++ [(a, d)]) ->
  exists rs', check (regs ++ [(a, d)]) = Ok rs' /\ canonical rs' /\
              forall z x, holds rs' z x <-> holds (pre ++ [(a, d)]) z x.
Proof.
  intros Hc Hh Hd.
  destruct (add_all_gen [(a, d)] (mkHexFile regs 0) pre Hc Hh Hd) as (hf' & H1 & H2 & H3 & _).
  cbn [add_all fst snd] in H1. unfold add_region in H1. cbn [regions start_address] in H1.
  destruct (check (regs ++ [(a, d)])) as [rs'| | |]; cbn [bind] in H1; try discriminate.
  apply ok_inj in H1. subst hf'. cbn [regions] in *. eauto.
Qed.

Definition start_of (o : option Z) : Z := match o with Some v => v | None => 0 end.

Lemma be_value_2 (a b : Z) : be_value [a; b] = a * 256 + b.
Proof. unfold be_value. cbn [fold_left]. lia. Qed.
Lemma be_value_4 (a b c d : Z) : be_value [a; b; c; d] = ((a * 256 + b) * 256 + c) * 256 + d.
Proof. unfold be_value. cbn [fold_left]. lia. Qed.

Lemma lockstep lines : forall recs, read_lines lines = Some recs ->
  forall ulba acc start regs blocks st,
  interp recs ulba acc start = Some (blocks, st) -> disjoint_set blocks ->
  canonical regs -> (forall z x, holds regs z x <-> holds (rev acc) z x) -> 0 <= ulba ->
  exists hf, load_st lines (mkst regs (start_of start) false (ulba * 65536)) = Ok hf /\
             canonical (regions hf) /\ (forall z x, holds (regions hf) z x <-> holds blocks z x) /\
             start_address hf = start_of st.
Proof.
  induction lines as [|l rest IH]; intros recs Hrl ulba acc start regs blocks st Hi Hd Hc Hh Hu.
  { apply ok_inj_opt in Hrl. subst recs. discriminate. }
  destruct (read_lines_cons _ _ _ Hrl) as (r & rs & -> & Hl & Hrs).
  destruct (read_line_from_line _ _ Hl) as (tl & E & Hstrip & Hf).
  rewrite (load_step_gen _ _ _ _ _ E Hstrip Hf).
  cbn [interp] in Hi. unfold step. cbn [st_eof typ data address st_regs st_start st_ext].
  destruct (i_typ r =? 1) eqn:T1.
  { destruct rs as [|]; [|discriminate]. destruct (i_data r) eqn:Ed; [|discriminate].
    apply ok_inj_opt in Hi. injection Hi as <- <-.
    replace (i_typ r =? 0) with false by lia. replace (i_typ r =? 4) with false by lia.
    change (len [] =? 0) with true. cbn [negb bind].
    destruct rest as [|x xs]; [|apply read_lines_cons in Hrs; destruct Hrs as (? & ? & ? & _); discriminate].
    unfold load_st. cbn [load_loop st_regs st_start]. eexists. split; [reflexivity|]. cbn [regions start_address]. auto. }
  destruct (i_typ r =? 0) eqn:T0.
  { destruct (ulba * 65536 + i_off r + len (i_data r) <=? 4294967296); [|discriminate].
    destruct (interp_blocks _ _ _ _ _ _ Hi) as (later & Hb). cbn [rev] in Hb.
    assert (Hd1 : disjoint_set (rev acc ++ [(ulba * 65536 + i_off r, i_data r)])).
    { apply (disjoint_prefix _ later). rewrite <- Hb. exact Hd. }
    replace (i_off r + ulba * 65536) with (ulba * 65536 + i_off r) by lia.
    destruct (add_one regs (rev acc) _ _ Hc Hh Hd1) as (rs' & Hck & Hc' & Hh').
    rewrite Hck. cbn [bind].
    apply (IH rs Hrs ulba ((ulba * 65536 + i_off r, i_data r) :: acc) start rs' blocks st Hi Hd Hc'); [|exact Hu].
    cbn [rev]. exact Hh'. }
  destruct (i_typ r =? 4) eqn:T4.
  { destruct (len (i_data r) =? 2) eqn:L2; [|discriminate].
    destruct (i_data r) as [|a [|b [|c t]]] eqn:Ed; try (cbn in L2; discriminate).
    2:{ rewrite !len_cons in L2. pose proof (len_nonneg t). lia. }
    change (sliceZ [a; b] 0 2) with [a; b]. cbn [unpack_H bind]. rewrite be_value_2 in Hi.
    assert (Hab : 0 <= a * 256 + b).
    { unfold read_line in Hl. destruct (parse_line l) as [bs|]; [|discriminate]. unfold decode in Hl.
      destruct bs as [|ll [|ah [|al [|ty rest0]]]]; try discriminate.
      destruct (all_byte (ll :: ah :: al :: ty :: rest0) && _ && _ && _) eqn:EE; [|discriminate].
      apply ok_inj_opt in Hl. subst r. cbn [i_data] in Ed.
      apply andb_true_iff in EE. destruct EE as [EE _]. apply andb_true_iff in EE. destruct EE as [EE _].
      apply andb_true_iff in EE. destruct EE as [EB _].
      assert (Hin : all_byte (removelast rest0) = true).
      { cbn [all_byte forallb] in EB. repeat (apply andb_true_iff in EB; destruct EB as [_ EB]).
        fold (all_byte rest0) in EB. destruct rest0 as [|q0 q]; [reflexivity|].
        rewrite (app_removelast_last 0 (l := q0 :: q)) in EB by discriminate.
        rewrite all_byte_app in EB. now apply andb_true_iff in EB. }
      rewrite Ed in Hin. cbn [all_byte forallb] in Hin. unfold is_byte in Hin. lia. }
    rewrite shiftl_mul by lia. change (2 ^ 16) with 65536.
    apply (IH rs Hrs (a * 256 + b) acc start regs blocks st Hi Hd Hc Hh Hab). }
  destruct (i_typ r =? 5) eqn:T5; [|discriminate].
  destruct (len (i_data r) =? 4) eqn:L4; [|discriminate].
  destruct (i_data r) as [|a [|b [|c [|d [|e t]]]]] eqn:Ed; try (cbn in L4; discriminate).
  2:{ rewrite !len_cons in L4. pose proof (len_nonneg t). lia. }
  change (sliceZ [a; b; c; d] 0 4) with [a; b; c; d]. cbn [unpack_I bind]. rewrite be_value_4 in Hi.
  apply (IH rs Hrs ulba acc (Some (((a * 256 + b) * 256 + c) * 256 + d)) regs blocks st Hi Hd Hc Hh Hu).
Qed.

(* any file the reference reader gives a denotation, with non-empty and non-overlapping data records *)
Lemma load_denotes lines blocks st : denote_file lines = Some (blocks, st) -> disjoint_set blocks ->
  exists hf, load lines = Ok hf /\ canonical (regions hf) /\
             (forall z x, holds (regions hf) z x <-> holds blocks z x) /\
             start_address hf = start_of st.
Proof.
  unfold denote_file. destruct (read_lines lines) as [recs|] eqn:Er; [|discriminate]. intros Hi Hd.
  destruct (lockstep lines recs Er 0 [] None [] blocks st Hi Hd I) as (hf & H); [cbn; tauto | lia |].
  exists hf. exact H.
Qed.
