(* Proofs/C26_eval.v — #if evaluation: for every signed expression tree (any depth) whose value C defines
   (all intermediate results within intmax_t: pp_eval e <> None), ppci's _eval_tree with the regenerated
   OP_MAP computes exactly that value. Unbounded, by structural induction. *)
From PV Require Import Lib.Py Lib.Tac Spec.CIntSpec Proofs.C27_ceval.
From PV Require Import Gen.ppif Model.PPIf Proofs.C26_ppif.
From Coq Require Import String.
Open Scope Z_scope.

(* the #if data model is the data model of a context with 8-byte int/long/long long *)
Definition ppctx : CEval.cctx := CEval.mkctx 8 8 8 true.
Lemma ppctx_wf : wf_ctx ppctx.
Proof. unfold wf_ctx; cbn; lia. Qed.
Lemma dm_pp_eq : dm_pp = dm_of ppctx.
Proof. reflexivity. Qed.

Definition s64 (t : ity) : bool := match t with TInt | TLong | TLLong => true | _ => false end.
Fixpoint signed_e (e : pexpr) : bool :=
  match e with
  | PLit u _ => negb u
  | PUn _ a => signed_e a
  | PBin _ a b => signed_e a && signed_e b
  | PCond c a b => signed_e c && signed_e a && signed_e b
  end.

Definition R (v : Z) : Prop := -9223372036854775808 <= v <= 9223372036854775807.

Lemma s64_promote t : s64 t = true -> promote dm_pp t = t.
Proof. destruct t; try discriminate; reflexivity. Qed.
Lemma s64_uac a b : s64 a = true -> s64 b = true -> s64 (uac dm_pp a b) = true.
Proof. destruct a, b; try discriminate; reflexivity. Qed.
Lemma s64_signed t : s64 t = true -> is_signed dm_pp t = true.
Proof. destruct t; try discriminate; reflexivity. Qed.

Lemma s64_type e : signed_e e = true -> s64 (type_of dm_pp (pp_expr e)) = true.
Proof.
  induction e as [u v|op a IHa|op a IHa b IHb|c IHc a IHa b IHb]; cbn [signed_e pp_expr type_of]; intros H.
  - destruct u; [discriminate|reflexivity].
  - destruct op; try reflexivity; rewrite s64_promote; auto.
  - apply andb_prop in H as [Ha Hb]. specialize (IHa Ha). specialize (IHb Hb).
    destruct op; cbn [is_int_result is_shift]; try reflexivity;
      rewrite ?(s64_promote _ IHa), ?(s64_promote _ IHb); auto using s64_uac.
  - apply andb_prop in H as [H Hb]. apply andb_prop in H as [Hc Ha].
    rewrite (s64_promote _ (IHa Ha)), (s64_promote _ (IHb Hb)). auto using s64_uac.
Qed.

Lemma s64_range t v : s64 t = true -> (in_range dm_pp t v = true <-> R v).
Proof.
  intros S. unfold in_range, tmin, tmax, R. rewrite (s64_signed t S).
  assert (B : bits dm_pp t = 64) by (destruct t; try discriminate; reflexivity).
  rewrite B. change (2 ^ (64 - 1)) with 9223372036854775808. lia.
Qed.

Lemma conv_id t v : s64 t = true -> R v -> convert dm_pp t v = v.
Proof. intros S H. apply (convert_id ppctx ppctx_wf). now apply (s64_range t v S). Qed.

Lemma fit_s64 t z r : s64 t = true -> fit dm_pp t z = Some r -> r = z /\ R z.
Proof.
  intros S. unfold fit. rewrite (s64_signed t S). destruct (in_range dm_pp t z) eqn:E; [|discriminate].
  intros [= <-]. split; [reflexivity|]. now apply (s64_range t z S).
Qed.

Lemma eval_R e v : signed_e e = true -> eval dm_pp (pp_expr e) = Some v -> R v.
Proof.
  intros S E. apply (s64_range _ v (s64_type e S)). exact (eval_in_range ppctx ppctx_wf _ _ E).
Qed.

(* ---- range facts for the operators that C defines without an overflow check ---- *)
Lemma R_shiftr63 v : R v <-> (Z.shiftr v 63 = 0 \/ Z.shiftr v 63 = -1).
Proof. rewrite Z.shiftr_div_pow2 by lia. change (2 ^ 63) with 9223372036854775808. unfold R. lia. Qed.

Lemma R_land a b : R a -> R b -> R (Z.land a b).
Proof.
  rewrite !R_shiftr63, Z.shiftr_land. intros [-> | ->] [-> | ->]; cbn; auto.
Qed.
Lemma R_lor a b : R a -> R b -> R (Z.lor a b).
Proof.
  rewrite !R_shiftr63, Z.shiftr_lor. intros [-> | ->] [-> | ->]; cbn; auto.
Qed.
Lemma R_lxor a b : R a -> R b -> R (Z.lxor a b).
Proof.
  rewrite !R_shiftr63, Z.shiftr_lxor. intros [-> | ->] [-> | ->]; cbn; auto.
Qed.
Lemma R_lnot a : R a -> R (Z.lnot a).
Proof. unfold R, Z.lnot. lia. Qed.
Lemma R_div_pow a n : 0 <= n -> R a -> R (a / 2 ^ n).
Proof.
  intros Hn Ha. assert (D : 1 <= 2 ^ n) by (pose proof (Z.pow_pos_nonneg 2 n); lia).
  pose proof (Z.div_mod a (2 ^ n) ltac:(lia)) as E. pose proof (Z.mod_pos_bound a (2 ^ n) ltac:(lia)) as M.
  unfold R in *. set (q := a / 2 ^ n) in *. set (d := 2 ^ n) in *. set (m := a mod d) in *. nia.
Qed.
Lemma R_b2z (b : bool) : R (CIntSpec.b2z b).
Proof. unfold R; destruct b; cbn; lia. Qed.

(* the module-level helpers, as regenerated into Gen.ppif *)
Lemma pp_c_div_ok x y : y <> 0 -> ppif.c_div x y = Ok (Z.quot x y).
Proof.
  intros Hy. unfold ppif.c_div. guard_ok. f_equal. rewrite (Z.quot_div x y Hy).
  destruct (Z.sgn_spec x) as [[? ->]|[[? ->]|[? ->]]], (Z.sgn_spec y) as [[? ->]|[[? ->]|[? ->]]];
    try lia;
    destruct (Z.ltb_spec x 0), (Z.ltb_spec y 0); try lia; cbn [Bool.eqb negb]; subst;
    try (cbn [Z.abs]; rewrite ?Z.div_0_l by lia); lia.
Qed.
Lemma pp_c_rem_ok x y : y <> 0 -> ppif.c_rem x y = Ok (Z.rem x y).
Proof.
  intros Hy. unfold ppif.c_rem. rewrite pp_c_div_ok by assumption. cbn [bind]. f_equal.
  pose proof (Z.quot_rem' x y). lia.
Qed.

Ltac streq :=
  repeat match goal with
  | |- context [String.eqb ?a ?b] =>
      let r := eval vm_compute in (String.eqb a b) in change (String.eqb a b) with r
  end.

(* one lemma for all arithmetic / bitwise / comparison operators of OP_MAP *)
Lemma pp_arith op t a b r :
  s64 t = true -> R a -> R b -> is_shift op = false -> op <> BLAnd -> op <> BLOr ->
  arith dm_pp t op a b = Some r ->
  match PPIf.lookup (binop_s op) op_map with
  | Some e => match op_func e with Some f => f a b | None => Internal TypeError end
  | None => Internal KeyError
  end = Ok r.
Proof.
  intros S Ra Rb Hs Ha Ho H.
  destruct op; try discriminate; try congruence; cbn [binop_s]; cbv [PPIf.lookup op_map]; streq;
    cbv iota beta; cbv [op_func snd]; cbn [arith] in H.
  - apply (fit_s64 t _ _ S) in H as [-> _]. reflexivity.
  - apply (fit_s64 t _ _ S) in H as [-> _]. reflexivity.
  - apply (fit_s64 t _ _ S) in H as [-> _]. reflexivity.
  - destruct (Z.eqb_spec b 0); [discriminate|]. rewrite pp_c_div_ok by assumption.
    apply (fit_s64 t _ _ S) in H as [-> _]. reflexivity.
  - destruct (Z.eqb_spec b 0); [discriminate|]. rewrite pp_c_rem_ok by assumption.
    destruct (fit dm_pp t (a ÷ b)); [|discriminate]. apply (fit_s64 t _ _ S) in H as [-> _]. reflexivity.
  - injection H as <-. rewrite (conv_id t _ S (R_land a b Ra Rb)). reflexivity.
  - injection H as <-. rewrite (conv_id t _ S (R_lor a b Ra Rb)). reflexivity.
  - injection H as <-. rewrite (conv_id t _ S (R_lxor a b Ra Rb)). reflexivity.
  - now injection H as <-.
  - now injection H as <-.
  - now injection H as <-.
  - now injection H as <-.
  - now injection H as <-.
  - now injection H as <-.
Qed.

Lemma pp_shift op t a n r :
  s64 t = true -> R a -> is_shift op = true -> shift dm_pp t op a n = Some r ->
  match PPIf.lookup (binop_s op) op_map with
  | Some e => match op_func e with Some f => f a n | None => Internal TypeError end
  | None => Internal KeyError
  end = Ok r.
Proof.
  intros S Ra Hs H. unfold shift in H.
  assert (B : bits dm_pp t = 64) by (destruct t; try discriminate; reflexivity). rewrite B in H.
  destruct ((n <? 0) || (64 <=? n)) eqn:Hn; [discriminate|]. assert (N : 0 <= n < 64) by lia.
  rewrite (s64_signed t S) in H.
  destruct op; try discriminate; cbn [binop_s]; cbv [PPIf.lookup op_map]; streq; cbv iota beta; cbv [op_func snd].
  - unfold op_5. guard_ok. rewrite shiftl_mul by lia.
    destruct (a <? 0); [discriminate|]. destruct (in_range dm_pp t (a * 2 ^ n)); [|discriminate]. now injection H as <-.
  - unfold op_6. guard_ok. rewrite shiftr_div by lia. injection H as <-.
    rewrite (conv_id t _ S (R_div_pow a n ltac:(lia) Ra)). reflexivity.
Qed.

Theorem eval_signed e : forall v,
  signed_e e = true -> eval dm_pp (pp_expr e) = Some v -> eval_tree (tree_of e) = Ok v.
Proof.
  unfold eval_tree.
  induction e as [u z|op a IHa|op a IHa b IHb|c IHc a IHa b IHb]; intros v S E.
  - cbn in *. destruct u; [discriminate|]. destruct (in_range dm_pp TLLong z); [|discriminate]. now injection E as <-.
  - cbn [signed_e] in S. cbn [pp_expr eval] in E.
    destruct (eval dm_pp (pp_expr a)) as [va|] eqn:Ea; [|discriminate].
    pose proof (IHa va S eq_refl) as Ia. pose proof (eval_R a va S Ea) as Ra.
    pose proof (s64_type a S) as Ta. rewrite (s64_promote _ Ta) in E.
    rewrite (conv_id _ va Ta Ra) in E.
    destruct op; cbn [tree_of unop_s eval_tree_with]; try rewrite Ia; cbn [bind]; streq; cbv iota.
    + apply (fit_s64 _ _ _ Ta) in E as [-> _]. reflexivity.
    + injection E as <-. rewrite (conv_id _ _ Ta (R_lnot va Ra)). reflexivity.
    + injection E as <-. unfold truthy. rewrite Bool.negb_involutive. reflexivity.
    + now injection E as <-.
  - cbn [signed_e] in S. apply andb_prop in S as [Sa Sb].
    pose proof (s64_type a Sa) as Ta. pose proof (s64_type b Sb) as Tb.
    destruct (eval dm_pp (pp_expr a)) as [va|] eqn:Ea.
    2:{ destruct op; cbn [pp_expr eval] in E; rewrite Ea in E; discriminate. }
    pose proof (IHa va Sa eq_refl) as Ia. pose proof (eval_R a va Sa Ea) as Ra.
    destruct (Bool.bool_dec (match op with BLAnd | BLOr => true | _ => false end) true) as [Hl|Hl].
    + destruct op; try discriminate; cbn [pp_expr eval] in E; rewrite Ea in E;
        cbn [tree_of binop_s eval_tree_with]; streq; cbv iota; rewrite Ia; cbn [bind]; unfold truthy.
      * destruct (va =? 0) eqn:Z0; cbn [negb bind].
        -- rewrite Z0. now injection E as <-.
        -- destruct (eval dm_pp (pp_expr b)) as [vb|] eqn:Eb; [|discriminate].
           rewrite (IHb vb Sb eq_refl). cbn [bind]. now injection E as <-.
      * destruct (va =? 0) eqn:Z0; cbn [negb bind].
        -- destruct (eval dm_pp (pp_expr b)) as [vb|] eqn:Eb; [|discriminate].
           rewrite (IHb vb Sb eq_refl). cbn [bind]. now injection E as <-.
        -- rewrite Z0. now injection E as <-.
    + apply Bool.not_true_is_false in Hl.
      destruct (eval dm_pp (pp_expr b)) as [vb|] eqn:Eb.
      2:{ destruct op; try discriminate; cbn [pp_expr eval] in E; rewrite Ea, Eb in E; discriminate. }
      pose proof (IHb vb Sb eq_refl) as Ib. pose proof (eval_R b vb Sb Eb) as Rb.
      assert (G : eval_tree_with op_map (tree_of (PBin op a b)) =
                  match PPIf.lookup (binop_s op) op_map with
                  | Some e => match op_func e with Some f => f va vb | None => Internal TypeError end
                  | None => Internal KeyError
                  end).
      { cbn [tree_of eval_tree_with]. destruct op; try discriminate; cbn [binop_s]; streq; cbv iota;
          rewrite Ia, Ib; cbn [bind]; destruct (PPIf.lookup _ op_map); reflexivity. }
      rewrite G. clear G.
      set (ta := type_of dm_pp (pp_expr a)) in *. set (tb := type_of dm_pp (pp_expr b)) in *.
      destruct (Bool.bool_dec (is_shift op) true) as [Hs|Hs].
      * assert (E' : shift dm_pp ta op va vb = Some v).
        { destruct op; try discriminate; cbn [pp_expr eval is_shift] in E; rewrite Ea, Eb in E;
            fold ta tb in E; rewrite (s64_promote _ Ta), (s64_promote _ Tb), (conv_id _ va Ta Ra), (conv_id _ vb Tb Rb) in E;
            exact E. }
        exact (pp_shift op ta va vb v Ta Ra Hs E').
      * apply Bool.not_true_is_false in Hs.
        assert (E' : arith dm_pp (uac dm_pp ta tb) op va vb = Some v).
        { pose proof (s64_uac ta tb Ta Tb) as Tu.
          destruct op; try discriminate; cbn [pp_expr eval is_shift] in E; rewrite Ea, Eb in E;
            fold ta tb in E; rewrite (s64_promote _ Ta), (s64_promote _ Tb), (conv_id _ va Ta Ra), (conv_id _ vb Tb Rb),
              (conv_id _ va Tu Ra), (conv_id _ vb Tu Rb) in E; exact E. }
        apply (pp_arith op _ va vb v (s64_uac ta tb Ta Tb) Ra Rb Hs); try (destruct op; discriminate); exact E'.
  - cbn [signed_e] in S. apply andb_prop in S as [S Sb]. apply andb_prop in S as [Sc Sa].
    cbn [pp_expr eval] in E. destruct (eval dm_pp (pp_expr c)) as [vc|] eqn:Ec; [|discriminate].
    cbn [tree_of eval_tree_with]. rewrite (IHc vc Sc eq_refl). cbn [bind]. unfold truthy.
    pose proof (s64_type a Sa) as Ta. pose proof (s64_type b Sb) as Tb.
    pose proof (s64_uac _ _ Ta Tb) as Tu. cbn [type_of] in E.
    rewrite (s64_promote _ Ta), (s64_promote _ Tb) in E.
    destruct (vc =? 0); cbn [negb].
    + destruct (eval dm_pp (pp_expr b)) as [vb|] eqn:Eb; [|discriminate].
      pose proof (eval_R b vb Sb Eb) as Rb. rewrite (s64_promote _ Tb), (conv_id _ vb Tb Rb), (conv_id _ vb Tu Rb) in E.
      injection E as <-. now apply IHb.
    + destruct (eval dm_pp (pp_expr a)) as [va|] eqn:Ea; [|discriminate].
      pose proof (eval_R a va Sa Ea) as Ra. rewrite (s64_promote _ Ta), (conv_id _ va Ta Ra), (conv_id _ va Tu Ra) in E.
      injection E as <-. now apply IHa.
Qed.

Theorem if_eval_signed e v : signed_e e = true -> pp_eval e = Some v -> eval_tree (tree_of e) = Ok v.
Proof. unfold pp_eval. apply eval_signed. Qed.
