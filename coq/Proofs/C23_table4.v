(* Proofs/C23_table4.v — the exported unary-operator table (Gen/Tab_ir2wasm.v: untable) by reflection. *)
From Coq Require Import ZArith List Bool.
Import ListNotations.
From PV Require Import Spec.IRSyntax Spec.IRSem Spec.WasmNumSpec.
From PV Require Import Model.Ir2WasmOps Model.Ir2WasmPost Model.Ir2WasmUnop Gen.Tab_ir2wasm Proofs.C23_unop.

(* every NEG row of the compiler has the proved form: const 0; x; sub; re-wrapping of the type *)
Lemma untable_good : forallb unop_good untable = true.
Proof. vm_compute. reflexivity. Qed.

Theorem unop_table_exact : forall c : cfg, ptr_bytes c = 4%Z ->
  forall r, In r untable -> unop_row c r.
Proof.
  intros c Hp r H. apply unop_good_sound; auto.
  pose proof untable_good as T. rewrite forallb_forall in T. apply T. exact H.
Qed.
