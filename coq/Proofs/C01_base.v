(* Proofs/C01_base.v — range/conversion facts about Spec/CIntSpec.v over the data model of a CContext.
   These are the base lemmas of Proofs/C27_ceval.v (same statements, same proofs), copied so that C01 does
   not depend on the C27 proof file and on Model/CSema.v while those follow the evolving typing code. *)
From PV Require Import Lib.Py Lib.Tac Spec.CIntSpec Gen.ceval Model.CEval.
From Coq Require Import String.
Open Scope Z_scope.

(* the data model of a CContext *)
Definition dm_of (c : cctx) : datamodel :=
  mkdm 8 16 (8 * int_size c) (8 * long_size c) (8 * llong_size c) true.
Definition wf_ctx (c : cctx) : Prop := 2 <= int_size c /\ int_size c <= long_size c /\ long_size c <= llong_size c.

Lemma signed_wrap v X : 0 < X ->
  (v + X) mod (2 * X) - X = if X <=? v mod (2 * X) then v mod (2 * X) - 2 * X else v mod (2 * X).
Proof.
  intros HX.
  pose proof (Z.div_mod v (2 * X) ltac:(lia)) as D. pose proof (Z.mod_pos_bound v (2 * X) ltac:(lia)) as B.
  destruct (Z.leb_spec X (v mod (2 * X))).
  - rewrite <- (Z.mod_unique_pos (v + X) (2 * X) (v / (2 * X) + 1) (v mod (2 * X) - X)); nia.
  - rewrite <- (Z.mod_unique_pos (v + X) (2 * X) (v / (2 * X)) (v mod (2 * X) + X)); nia.
Qed.

Lemma pow2_half n : 1 <= n -> 2 ^ n = 2 * 2 ^ (n - 1).
Proof. intros H. replace n with (1 + (n - 1)) at 1 by lia. rewrite Z.pow_add_r by lia. reflexivity. Qed.

Ltac dmsimp := unfold dm_of; cbn [bits bits_char bits_short bits_int bits_long bits_llong is_signed char_signed].

Section Ctx.
Variable c : cctx.
Hypothesis Hwf : wf_ctx c.
Let dm := dm_of c.

Lemma bits_ge8 t : 8 <= bits dm t.
Proof. destruct Hwf as (A & B & C). unfold dm. destruct t; dmsimp; lia. Qed.
Lemma bits_int_ge16 : 16 <= bits dm TInt.
Proof. destruct Hwf as (A & B & C). unfold dm. dmsimp; lia. Qed.

Lemma half_pow t : 2 ^ bits dm t / 2 = 2 ^ (bits dm t - 1).
Proof.
  pose proof (bits_ge8 t). rewrite (pow2_half (bits dm t)) by lia.
  rewrite Z.mul_comm, Z.div_mul by lia. reflexivity.
Qed.

(* c_wrap = convert *)
Lemma convert_in_range t v : in_range dm t (convert dm t v) = true.
Proof.
  unfold in_range, tmin, tmax, convert. rewrite half_pow. pose proof (bits_ge8 t) as B.
  assert (P : 0 < 2 ^ (bits dm t - 1)) by (apply Z.pow_pos_nonneg; lia).
  pose proof (pow2_half (bits dm t) ltac:(lia)) as E.
  pose proof (Z.mod_pos_bound (v + 2 ^ (bits dm t - 1)) (2 ^ bits dm t) ltac:(lia)).
  pose proof (Z.mod_pos_bound v (2 ^ bits dm t) ltac:(lia)).
  destruct (is_signed dm t); lia.
Qed.

Lemma convert_id t v : in_range dm t v = true -> convert dm t v = v.
Proof.
  unfold in_range, tmin, tmax, convert. rewrite half_pow. pose proof (bits_ge8 t) as B.
  assert (P : 0 < 2 ^ (bits dm t - 1)) by (apply Z.pow_pos_nonneg; lia).
  pose proof (pow2_half (bits dm t) ltac:(lia)) as E.
  destruct (is_signed dm t); intros H.
  - rewrite Z.mod_small by lia. lia.
  - rewrite Z.mod_small by lia. reflexivity.
Qed.

Lemma fit_convert t z r : fit dm t z = Some r -> convert dm t z = r.
Proof.
  unfold fit. destruct (is_signed dm t) eqn:S.
  - destruct (in_range dm t z) eqn:R; [|discriminate]. intros [= <-]. now apply convert_id.
  - intros [= <-]. unfold convert. now rewrite S.
Qed.

Lemma fit_in_range t z r : fit dm t z = Some r -> in_range dm t r = true.
Proof. intros H. rewrite <- (fit_convert _ _ _ H). apply convert_in_range. Qed.

Lemma bool_in_int (b : bool) : in_range dm TInt (CIntSpec.b2z b) = true.
Proof.
  pose proof bits_int_ge16 as B. unfold in_range, tmin, tmax. cbn [is_signed].
  assert (2 ^ 15 <= 2 ^ (bits dm TInt - 1)) by (apply Z.pow_le_mono_r; lia).
  destruct b; cbn [CIntSpec.b2z]; lia.
Qed.

Lemma small_in_range t n : 0 <= n < bits dm t -> in_range dm t n = true.
Proof.
  intros H. pose proof (bits_ge8 t) as B. unfold in_range, tmin, tmax.
  assert (bits dm t - 1 < 2 ^ (bits dm t - 1)) by (apply Z.pow_gt_lin_r; lia).
  assert (P : 0 < 2 ^ (bits dm t - 1)) by (apply Z.pow_pos_nonneg; lia).
  pose proof (pow2_half (bits dm t) ltac:(lia)) as E.
  destruct (is_signed dm t); lia.
Qed.

(* ---- every defined value is in the range of its type ---- *)
Lemma arith_in_range t op a b r :
  arith dm t op a b = Some r -> in_range dm (if is_int_result op then TInt else t) r = true.
Proof.
  destruct op; cbn [arith is_int_result]; intros H;
    try (injection H as <-; first [apply bool_in_int | apply convert_in_range]);
    try (eapply fit_in_range; eassumption); try discriminate.
  - destruct (b =? 0); [discriminate|]. eapply fit_in_range; eassumption.
  - destruct (b =? 0); [discriminate|]. destruct (fit dm t (a ÷ b)); [|discriminate].
    eapply fit_in_range; eassumption.
Qed.

Lemma shift_in_range t op a n r : shift dm t op a n = Some r -> in_range dm t r = true.
Proof.
  unfold shift. destruct ((n <? 0) || (bits dm t <=? n)); [discriminate|].
  destruct op; try discriminate.
  - destruct (is_signed dm t) eqn:S.
    + destruct (a <? 0); [discriminate|]. destruct (in_range dm t (a * 2 ^ n)) eqn:R; [|discriminate].
      now intros [= <-].
    + intros [= <-]. pose proof (convert_in_range t (a * 2 ^ n)) as H. unfold convert in H. now rewrite S in H.
  - intros [= <-]. apply convert_in_range.
Qed.

End Ctx.

Lemma ity_eqb_true a b : ity_eqb a b = true -> a = b.
Proof. destruct a, b; cbn; intros H; try discriminate; reflexivity. Qed.

