(* Proofs/C35_live.v — second round: the receiver thread never dies, stray acknowledgements are
   harmless, check digits are strict, packets that are not well-formed are always NAKed, retries <= 0,
   and the witnesses showing that each new hypothesis (fix) is necessary. *)
From PV Require Import Lib.Py Lib.Tac Spec.RspSpec Model.Rsp Proofs.C35_frame Proofs.C35_lts.
Open Scope Z_scope.

(* configurations with exactly one of the second-round fixes missing *)
Definition fixed_but_dec : cfg :=
  {| nak_fix := true; esc_fix := true; retry_fix := true;
     full_fix := true; stale_fix := true; dec_fix := false; hex_fix := true |}.
Definition fixed_but_full : cfg :=
  {| nak_fix := true; esc_fix := true; retry_fix := true;
     full_fix := false; stale_fix := true; dec_fix := true; hex_fix := true |}.
Definition fixed_but_stale : cfg :=
  {| nak_fix := true; esc_fix := true; retry_fix := true;
     full_fix := true; stale_fix := false; dec_fix := true; hex_fix := true |}.
Definition fixed_but_hex : cfg :=
  {| nak_fix := true; esc_fix := true; retry_fix := true;
     full_fix := true; stale_fix := true; dec_fix := true; hex_fix := false |}.

(* ------------------------------------------------------------ decoder well-formedness *)
Definition dec_wf (d : dstate) : Prop :=
  match d with
  | DIdle => True
  | DPkt res => exists body, res = 36 :: body
  | DCk1 res => exists body, res = 36 :: body ++ [35]
  | DCk2 res => exists body h1, res = 36 :: body ++ [35; h1]
  | DDead => False
  end.

Lemma dec_step_wf cf d b : dec_fix cf = true -> dec_wf d -> dec_wf (fst (dec_step cf d b)).
Proof.
  intros Hd W. destruct d as [|res|res|res|]; cbn [dec_step].
  - destruct (b =? 36); [cbn; now exists []|].
    destruct ((b =? 43) || (nak_fix cf && (b =? 45))); exact I.
  - destruct W as [body ->].
    destruct (Z.eqb_spec b 35) as [->|N]; cbn [andb].
    + destruct (esc_fix cf || _); cbn; [now exists body|now exists (body ++ [35])].
    + cbn. now exists (body ++ [b]).
  - destruct W as [body ->]. cbn. exists body, b. now rewrite <- app_assoc.
  - rewrite Hd. exact I.
  - destruct W.
Qed.

Lemma process_byte_fst cf d b : fst (process_byte cf d b) = fst (dec_step cf d b).
Proof.
  unfold process_byte. destruct (dec_step cf d b) as [d' o].
  destruct o; try reflexivity. destruct (is_ack_msg m); reflexivity.
Qed.

Lemma unesc_loop_no_internal l : forall r,
  unesc_loop l false [] = r -> (exists p, r = Ok p) \/ (exists c, r = Diag c).
Proof.
  intros r <-. rewrite (proj1 (unesc_loop_spec l)).
  destruct (unescape l); [left|right]; eauto.
Qed.

Lemma decodepkt_no_crash cf body h1 h2 : decodepkt cf (36 :: body ++ [35; h1; h2]) <> RCrash.
Proof.
  unfold decodepkt. rewrite unpack_shape.
  destruct (hex_fix cf && negb (is_hexdigit h1 && is_hexdigit h2)); [discriminate|].
  destruct (int16_2 h1 h2); [|discriminate].
  destruct (negb (sumZ body mod 256 =? z)); [discriminate|].
  destruct (esc_fix cf); [|discriminate].
  destruct (unesc_loop_no_internal body _ eq_refl) as [[p ->]|[c ->]]; discriminate.
Qed.

Lemma process_byte_no_crash cf d b :
  dec_fix cf = true -> dec_wf d -> snd (process_byte cf d b) <> RCrash.
Proof.
  intros Hd W. unfold process_byte. destruct d as [|res|res|res|]; cbn [dec_step].
  - destruct (b =? 36); [cbn; discriminate|].
    destruct (Z.eqb_spec b 43) as [->|N1]; [cbn; discriminate|].
    destruct (Z.eqb_spec b 45) as [->|N2].
    + destruct (nak_fix cf); cbn; discriminate.
    + rewrite andb_false_r. cbn. discriminate.
  - destruct ((b =? 35) && _); cbn; discriminate.
  - cbn. discriminate.
  - rewrite Hd. cbn [orb snd]. destruct W as (body & h1 & ->).
    replace ((36 :: body ++ [35; h1]) ++ [b]) with (36 :: body ++ [35; h1; b])
      by (cbn; rewrite <- app_assoc; reflexivity).
    replace (is_ack_msg (36 :: body ++ [35; h1; b])) with (@None Z) by (destruct body; reflexivity).
    apply decodepkt_no_crash.
  - destruct W.
Qed.

(* ------------------------------------------------------------ the receiver thread never dies *)
Definition alive (s : st) : Prop := dead s = false /\ blk s = None /\ dec_wf (dec s).

Lemma alive_step cf s l :
  dec_fix cf = true -> full_fix cf = true -> alive s -> alive (step_or_skip cf s l).
Proof.
  intros Hd Hfu (A1 & A2 & A3). unfold step_or_skip, step.
  destruct s as [d0 q0 b0 dd0 sn0 o0 dl0 rs0 rl0 ro0 se0]. unfold alive in *. cbn in *. subst.
  destruct l as [p r|b| | |].
  - destruct sn0; [|cbn; auto]. destruct (stale_fix cf), (forallb is_ascii_b p); cbn; auto.
  - pose proof (process_byte_no_crash cf d0 b Hd A3) as NC.
    pose proof (process_byte_fst cf d0 b) as F.
    pose proof (dec_step_wf cf d0 b Hd A3) as W. rewrite <- F in W.
    destruct (process_byte cf d0 b) as [d' e]. cbn [fst snd] in *.
    destruct e; try congruence; try (cbn; auto; fail).
    destruct q0; [rewrite Hfu|]; cbn; auto.
  - destruct sn0 as [|wire r f]; [cbn; auto|]. destruct q0 as [c|]; [|cbn; auto].
    destruct (snd_get cf r f c) as [o|[r' f']]; cbn; auto.
  - destruct sn0 as [|wire r f]; [cbn; auto|]. destruct q0; cbn; auto.
  - cbn. auto.
Qed.

Lemma alive_run cf tr : dec_fix cf = true -> full_fix cf = true ->
  forall s, alive s -> alive (run cf s tr).
Proof.
  intros Hd Hf. induction tr as [|l tr IH]; intros s A; [exact A|].
  cbn [run fold_left]. apply (IH (step_or_skip cf s l)). now apply alive_step.
Qed.

Lemma receiver_never_dies cf tr :
  dec_fix cf = true -> full_fix cf = true ->
  dead (run cf init tr) = false /\ blk (run cf init tr) = None.
Proof.
  intros Hd Hf. destruct (alive_run cf tr Hd Hf init) as (A & B & _); [repeat split|]. auto.
Qed.

Lemma dies_without_dec_fix :
  dead (run fixed_but_dec init [LRecv 36; LRecv 97; LRecv 128; LRecv 35; LRecv 69; LRecv 49]) = true.
Proof. vm_compute. reflexivity. Qed.

Lemma dies_without_full_fix :
  dead (run fixed_but_full init [LRecv 43; LRecv 43; LPutTimeout]) = true.
Proof. vm_compute. reflexivity. Qed.

(* ------------------------------------------------------------ stray acknowledgements *)
Lemma idle_step cf s l :
  (match l with LSend _ _ => false | _ => true end) = true ->
  snd_ s = SIdle ->
  snd_ (step_or_skip cf s l) = SIdle /\ sent (step_or_skip cf s l) = sent s /\
  results (step_or_skip cf s l) = results s.
Proof.
  intros Hl Hs. unfold step_or_skip, step.
  destruct s as [d0 q0 b0 dd0 sn0 o0 dl0 rs0 rl0 ro0 se0]. cbn in *. subst.
  destruct l as [p r|b| | |]; [discriminate| | | |]; cbn; auto.
  - destruct dd0; [cbn; auto|]. destruct b0; [cbn; auto|].
    destruct (process_byte cf d0 b) as [d' e]. destruct e; cbn; auto.
    destruct q0; [destruct (full_fix cf)|]; cbn; auto.
  - destruct b0; cbn; auto.
Qed.

Lemma idle_run cf tr : forall s, no_send tr = true -> snd_ s = SIdle ->
  snd_ (run cf s tr) = SIdle /\ sent (run cf s tr) = sent s /\ results (run cf s tr) = results s.
Proof.
  induction tr as [|l tr IH]; intros s Hn Hs; [auto|].
  cbn [no_send forallb] in Hn. apply andb_prop in Hn as [Hl Hn].
  destruct (idle_step cf s l Hl Hs) as (I1 & I2 & I3).
  change (run cf s (l :: tr)) with (run cf (step_or_skip cf s l) tr).
  destruct (IH (step_or_skip cf s l) Hn I1) as (J1 & J2 & J3).
  repeat split; congruence.
Qed.

(* whatever arrives while no send is pending (stray '+', '-', packets, junk; any schedule), the
   next sendpkt starts with an empty ack queue: it transmits once and can only be completed by an
   acknowledgement that arrives after the transmission *)
Lemma stray_ack_harmless cf s tr p r :
  stale_fix cf = true -> snd_ s = SIdle -> no_send tr = true ->
  forallb is_ascii_b p = true ->
  let s2 := run cf (run cf s tr) [LSend p r] in
  q s2 = None /\ blk s2 = None /\ snd_ s2 = SWait (rsp_pack p) r true /\
  sent s2 = S (sent s) /\ results s2 = results s /\ step cf s2 LGet = None.
Proof.
  intros Hst Hs Hn Ha. destruct (idle_run cf tr s Hn Hs) as (I1 & I2 & I3).
  destruct (run cf s tr) as [d0 q0 b0 dd0 sn0 o0 dl0 rs0 rl0 ro0 se0]. cbn in *. subst.
  unfold run, step_or_skip, step. cbn. rewrite Hst, Ha. cbn. auto 10.
Qed.

Lemma stale_ack_wrong_waiter_without_fix :
  let s := run fixed_but_stale init [LRecv 43; LSend [115] 10; LGet] in
  results s = [Acked] /\ rxlog s = [43] /\ sent s = 1%nat.
Proof. vm_compute. auto. Qed.

(* ------------------------------------------------------------ exact replies *)
Lemma decodepkt_spec cf body h1 h2 :
  esc_fix cf = true -> hex_fix cf = true ->
  decodepkt cf (36 :: body ++ [35; h1; h2]) =
  match hexval h1, hexval h2 with
  | Some a, Some b =>
      if checksum body =? 16 * a + b
      then match unescape body with Some p => RDeliver p | None => RNak end
      else RNak
  | _, _ => RNak
  end.
Proof.
  intros He Hh. unfold decodepkt. rewrite unpack_shape, Hh, He. unfold is_hexdigit.
  change hexv with hexval.
  destruct (hexval h1) as [a|] eqn:E1; [|reflexivity].
  destruct (hexval h2) as [b|] eqn:E2; [|reflexivity].
  cbn [andb negb]. rewrite (int16_2_hex _ _ _ _ E1 E2). unfold checksum.
  destruct (sumZ body mod 256 =? 16 * a + b); [|reflexivity]. cbn [negb].
  rewrite (proj1 (unesc_loop_spec body)). destruct (unescape body); reflexivity.
Qed.

Lemma checksum_digits_strict cf body h1 h2 p :
  esc_fix cf = true -> hex_fix cf = true ->
  decodepkt cf (36 :: body ++ [35; h1; h2]) = RDeliver p ->
  exists a b, hexval h1 = Some a /\ hexval h2 = Some b /\ 16 * a + b = checksum body /\
              unescape body = Some p.
Proof.
  intros He Hh. rewrite decodepkt_spec by assumption.
  destruct (hexval h1) as [a|]; [|discriminate]. destruct (hexval h2) as [b|]; [|discriminate].
  destruct (Z.eqb_spec (checksum body) (16 * a + b)); [|discriminate].
  destruct (unescape body) as [p'|]; [|discriminate]. intros [= ->].
  exists a, b. auto.
Qed.

(* a packet-shaped byte string that is not a well-formed packet of any payload is NAKed *)
Lemma non_frame_nacked cf body h1 h2 :
  esc_fix cf = true -> hex_fix cf = true -> ~ In 35 body ->
  dec_fix cf || forallb is_ascii_b (36 :: body ++ [35; h1; h2]) = true ->
  (forall p, ~ is_frame_of (36 :: body ++ [35; h1; h2]) p) ->
  rx_feed cf DIdle (36 :: body ++ [35; h1; h2]) =
  (DIdle, repeat RNone (length body + 3) ++ [RNak]).
Proof.
  intros He Hh Hn Hd Hnf. rewrite (rx_packet cf body h1 h2 He Hn Hd). do 2 f_equal.
  rewrite decodepkt_spec by assumption.
  destruct (hexval h1) as [a|] eqn:E1; [|reflexivity].
  destruct (hexval h2) as [b|] eqn:E2; [|reflexivity].
  destruct (Z.eqb_spec (checksum body) (16 * a + b)) as [E|]; [|reflexivity].
  destruct (unescape body) as [p|] eqn:U; [|reflexivity].
  exfalso. apply (Hnf p). exists body, h1, h2, a, b. auto 10.
Qed.

Lemma lenient_digits_without_hex_fix :
  snd (rx_feed fixed_but_hex DIdle [36; 5; 35; 32; 53]) = repeat RNone 4 ++ [RDeliver [5]] /\
  hexval 32 = None.
Proof. split; vm_compute; reflexivity. Qed.

(* ------------------------------------------------------------ retries <= 0 *)
Lemma retry_nonpositive cf r f acks : retry_fix cf = true -> r <= 0 ->
  (snd (acks_run cf r f acks) <= 1)%nat.
Proof.
  intros Hf Hr. destruct acks as [|a rest]; cbn [acks_run]; [cbn; lia|].
  unfold snd_get. rewrite Hf. destruct (a =? 43); [cbn; lia|].
  destruct (Z.leb_spec r 0); [cbn; lia|lia].
Qed.

Lemma orig_nonpositive_unbounded n : forall r, r <= 0 ->
  acks_run orig r false (repeat 45 n) = (None, S n).
Proof.
  induction n as [|n IH]; intros r Hr; [reflexivity|].
  cbn [repeat acks_run]. unfold snd_get. cbn [retry_fix orig].
  destruct (Z.eqb_spec (r - 1) 0); [lia|]. cbn [Z.eqb Pos.eqb].
  rewrite IH by lia. reflexivity.
Qed.

Lemma orig_retries_zero_unbounded n :
  acks_run orig 0 true (repeat 45 (S n)) = (None, S (S n)).
Proof.
  cbn [repeat acks_run]. unfold snd_get. cbn [retry_fix orig]. cbn [Z.eqb Pos.eqb].
  rewrite orig_nonpositive_unbounded by lia. reflexivity.
Qed.

(* ------------------------------------------------------------ no loss / no duplication, all bytes *)
Definition item_ok_bytes (i : item) : Prop :=
  match i with IJunk b => b <> 36 /\ b <> 43 /\ b <> 45 | _ => True end.

Lemma rx_item_bytes cf i :
  nak_fix cf = true -> esc_fix cf = true -> dec_fix cf = true -> item_ok_bytes i ->
  exists evs, rx_feed cf DIdle (item_bytes i) = (DIdle, evs) /\
    deliveries evs = payloads [i] /\ replies evs = expected_replies [i].
Proof.
  intros Hn He Hd Hok. destruct i as [p| | |b]; cbn [item_bytes].
  - eexists. split.
    + rewrite rsp_pack_frame. apply good_frame_delivered_gen; auto using frame_is_frame.
      now rewrite Hd.
    + rewrite deliveries_app, replies_app, deliveries_silent, replies_silent. split; reflexivity.
  - exact (rx_item cf IAck Hn He I).
  - exact (rx_item cf INak Hn He I).
  - exact (rx_item cf (IJunk b) Hn He Hok).
Qed.

Lemma rx_stream_bytes cf items :
  nak_fix cf = true -> esc_fix cf = true -> dec_fix cf = true -> Forall item_ok_bytes items ->
  exists evs, rx_feed cf DIdle (stream items) = (DIdle, evs) /\
    deliveries evs = payloads items /\ replies evs = expected_replies items.
Proof.
  intros Hn He Hd. induction 1 as [|i items Hi _ IH].
  - exists []. repeat split.
  - destruct IH as (e2 & F2 & D2 & R2).
    destruct (rx_item_bytes cf i Hn He Hd Hi) as (e1 & F1 & D1 & R1).
    exists (e1 ++ e2). cbn [stream flat_map]. fold (stream items).
    rewrite rx_feed_app, F1, F2. split; [reflexivity|].
    rewrite deliveries_app, replies_app, D1, D2, R1, R2.
    cbn [payloads expected_replies flat_map]. rewrite !app_nil_r. split; reflexivity.
Qed.

Lemma no_loss_no_dup_bytes cf tr items pre :
  nak_fix cf = true -> esc_fix cf = true -> dec_fix cf = true ->
  Forall item_ok_bytes items ->
  (pre = [] \/ exists p suf, rsp_pack p = pre ++ suf /\ suf <> []) ->
  rxlog (run cf init tr) = stream items ++ pre ->
  dlv (run cf init tr) = payloads items /\ rxout (run cf init tr) = expected_replies items.
Proof.
  intros Hn He Hd Hok Hpre Hlog.
  destruct (rx_inv_run cf tr init (rx_inv_init cf)) as (_ & I2 & I3).
  rewrite I2, I3, Hlog, rx_feed_app.
  destruct (rx_stream_bytes cf items Hn He Hd Hok) as (evs & F & D & R). rewrite F.
  assert (S : snd (rx_feed cf DIdle pre) = repeat RNone (length pre)).
  { destruct Hpre as [->|(p & suf & Hp & Hs)]; [reflexivity|].
    eapply (proper_prefix_silent cf (rsp_pack p) pre suf); eauto.
    rewrite rsp_pack_frame. apply good_frame_delivered_gen; auto using frame_is_frame.
    now rewrite Hd. }
  destruct (rx_feed cf DIdle pre) as [d2 e2]. cbn [snd] in *. subst e2.
  rewrite deliveries_app, replies_app, deliveries_silent, replies_silent, !app_nil_r. auto.
Qed.
