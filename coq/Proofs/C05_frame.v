(* Proofs/C05_frame.v — C05: the riscv frame code (gen_prologue / gen_epilogue) is balanced, and the argument
   locations of determine_arg_locations are consistent, on the abstract frame machine of Model/RvFrame.v. *)
From PV Require Import Lib.Py Lib.Tac Model.RvFrame.
From Coq Require Import String.
Open Scope Z_scope.
Open Scope list_scope.

Lemma upd_same f k v : upd f k v k = v.
Proof. unfold upd. now rewrite Z.eqb_refl. Qed.
Lemma upd_other f k v x : x <> k -> upd f k v x = f x.
Proof. unfold upd. intros H. destruct (x =? k) eqn:E; [lia|reflexivity]. Qed.

Lemma frun_app a : forall b s, frun (a ++ b) s = frun b (frun a s).
Proof. induction a; intros; cbn; [reflexivity|]. apply IHa. Qed.

(* ---- slots ---- *)
Lemma slots_fst saved : forall k rsize, map fst (slots saved k rsize) = saved.
Proof. induction saved; intros; cbn [slots map fst]; [reflexivity|]. now rewrite IHsaved. Qed.

Lemma slots_snd_le saved : forall k rsize p, In p (slots saved k rsize) -> snd p <= rsize - 4 * k.
Proof.
  induction saved; intros k rsize p H; cbn [slots In] in H; [contradiction|]. destruct H as [<-|H]; [cbn [snd]; lia|].
  apply IHsaved in H. lia.
Qed.

Lemma slots_snd_nodup saved : forall k rsize, NoDup (map snd (slots saved k rsize)).
Proof.
  induction saved; intros k rsize; cbn [slots map snd]; constructor; [|apply IHsaved].
  intros H. apply in_map_iff in H. destruct H as (p & Hp & Hin). apply slots_snd_le in Hin. lia.
Qed.

(* ---- runs of saves / restores ---- *)
Lemma run_saves l : forall s,
  let s' := frun (map (fun p => FSave (fst p) (snd p)) l) s in
  (forall x, f_regs s' x = f_regs s x) /\
  (NoDup (map snd l) -> forall p, In p l -> f_mem s' (f_regs s SPr + snd p) = f_regs s (fst p)) /\
  (forall a, (forall p, In p l -> a <> f_regs s SPr + snd p) -> f_mem s' a = f_mem s a).
Proof.
  induction l as [|[r off] l IH]; intros s; cbn [map frun].
  - repeat split; auto. intros _ p [].
  - specialize (IH (fexec (FSave r off) s)). cbn zeta in IH. destruct IH as (IR & IM & IO).
    cbn [fexec f_regs f_mem fst snd] in *. repeat split.
    + exact IR.
    + intros Hnd p [<-|Hp]; cbn [fst snd].
      * rewrite IO; [apply upd_same|]. intros q Hq Heq. inversion Hnd; subst.
        apply H1. apply in_map_iff. exists q. split; [lia|exact Hq].
      * inversion Hnd; subst. rewrite (IM H2 p Hp). reflexivity.
    + intros a Ha. rewrite IO by (intros p Hp; apply Ha; now right).
      apply upd_other. apply (Ha (r, off)). now left.
Qed.

Lemma run_restores l : forall s, ~ In SPr (map fst l) -> NoDup (map fst l) ->
  let s' := frun (map (fun p => FRestore (fst p) (snd p)) l) s in
  (forall a, f_mem s' a = f_mem s a) /\
  (forall p, In p l -> f_regs s' (fst p) = f_mem s (f_regs s SPr + snd p)) /\
  (forall x, ~ In x (map fst l) -> f_regs s' x = f_regs s x).
Proof.
  induction l as [|[r off] l IH]; intros s Hsp Hnd; cbn [map frun].
  - repeat split; auto. intros p [].
  - cbn [map fst] in Hsp, Hnd. inversion Hnd; subst.
    assert (Hsp' : ~ In SPr (map fst l)) by (intros H; apply Hsp; now right).
    assert (Hr : r <> SPr) by (intros ->; apply Hsp; now left).
    specialize (IH (fexec (FRestore r off) s) Hsp' H2). cbn zeta in IH. destruct IH as (IM & IR & IO).
    cbn [fexec f_regs f_mem fst snd] in *. repeat split.
    + exact IM.
    + intros p [<-|Hp]; cbn [fst snd].
      * rewrite IO by exact H1. apply upd_same.
      * rewrite (IR p Hp). rewrite upd_other by congruence.
        reflexivity.
    + intros x Hx. rewrite IO by (intros H; apply Hx; now right).
      apply upd_other. intros ->. apply Hx. now left.
Qed.

(* ---- the printed instruction lists are these operations ---- *)
Lemma fops_app a : forall b oa ob, fops_of a = Some oa -> fops_of b = Some ob -> fops_of (a ++ b) = Some (oa ++ ob).
Proof.
  induction a as [|it a IH]; intros b oa ob Ha Hb; cbn in *.
  - inversion Ha. exact Hb.
  - destruct (fop_of it); [|discriminate]. destruct (fops_of a) eqn:E; [|discriminate]. inversion Ha; subst.
    now rewrite (IH b l ob eq_refl Hb).
Qed.

Lemma fops_sw l : fops_of (map (fun p => ("sw"%string, [fst p; snd p; SPr])) l) = Some (map (fun p => FSave (fst p) (snd p)) l).
Proof. induction l; cbn [map fops_of]; [reflexivity|]. rewrite IHl. reflexivity. Qed.
Lemma fops_lw l : fops_of (map (fun p => ("lw"%string, [fst p; snd p; SPr])) l) = Some (map (fun p => FRestore (fst p) (snd p)) l).
Proof. induction l; cbn [map fops_of]; [reflexivity|]. rewrite IHl. reflexivity. Qed.

Theorem prologue_is_ops stacksize saved extras :
  fops_of (prologue_items stacksize saved extras) = Some (prologue_ops stacksize saved extras).
Proof.
  unfold prologue_items, prologue_ops. apply fops_app; [reflexivity|]. apply fops_app; [apply fops_sw|].
  destruct (extras =? 0); reflexivity.
Qed.
Theorem epilogue_is_ops stacksize saved extras :
  fops_of (epilogue_items stacksize saved extras) = Some (epilogue_ops stacksize saved extras).
Proof.
  unfold epilogue_items, epilogue_ops. apply fops_app; [destruct (extras =? 0); reflexivity|].
  apply fops_app; [apply fops_lw|reflexivity].
Qed.

(* ---- balance ---- *)
Definition frame_total (stacksize : Z) (saved : list Z) (extras : Z) : Z :=
  round_up (stacksize + 8) + round_up (4 * Z.of_nat (List.length saved)) + (if extras =? 0 then 0 else round_up extras).

Ltac zeqb := repeat match goal with
  | |- context [?x =? ?y] => destruct (Z.eqb_spec x y); try lia
  end.

Lemma pro5 ssize rsize s :
  let sp0 := f_regs s SPr in
  let sA := frun [FAddSp (- ssize); FSave RAr 4; FSave FPr 0; FSetFp 8; FAddSp (- rsize)] s in
  f_regs sA SPr = sp0 - ssize - rsize /\ f_regs sA FPr = sp0 - ssize + 8 /\
  (forall x, x <> SPr -> x <> FPr -> f_regs sA x = f_regs s x) /\
  f_mem sA (sp0 - ssize + 4) = f_regs s RAr /\ f_mem sA (sp0 - ssize) = f_regs s FPr /\
  (forall a, a <> sp0 - ssize + 4 -> a <> sp0 - ssize -> f_mem sA a = f_mem s a).
Proof.
  cbn [frun fexec f_regs f_mem]. unfold upd, SPr, FPr, RAr. cbn [Z.eqb Pos.eqb].
  repeat split; intros; zeqb; try reflexivity; lia.
Qed.

Lemma epi5 ssize rsize s :
  let sp := f_regs s SPr in
  let sE := frun [FAddSp rsize; FRestore RAr 4; FRestore FPr 0; FAddSp ssize; FRet] s in
  f_regs sE SPr = sp + rsize + ssize /\ f_regs sE RAr = f_mem s (sp + rsize + 4) /\
  f_regs sE FPr = f_mem s (sp + rsize) /\
  (forall x, x <> SPr -> x <> FPr -> x <> RAr -> f_regs sE x = f_regs s x) /\
  (forall a, f_mem sE a = f_mem s a).
Proof.
  cbn [frun fexec f_regs f_mem]. unfold upd, SPr, FPr, RAr. cbn [Z.eqb Pos.eqb].
  repeat split; intros; zeqb; try reflexivity; try lia; f_equal; lia.
Qed.

Theorem frame_balanced stacksize saved extras s s2 :
  0 <= stacksize -> NoDup saved -> ~ In SPr saved -> ~ In FPr saved -> ~ In RAr saved ->
  let ssize := round_up (stacksize + 8) in
  let rsize := round_up (4 * Z.of_nat (List.length saved)) in
  let sp0 := f_regs s SPr in
  let s1 := frun (prologue_ops stacksize saved extras) s in
  f_regs s1 SPr = sp0 - frame_total stacksize saved extras /\ f_regs s1 FPr = sp0 - ssize + 8 /\
  (forall x, x <> SPr -> x <> FPr -> f_regs s1 x = f_regs s x) /\
  (forall a, sp0 <= a -> f_mem s1 a = f_mem s a) /\
  (f_regs s2 SPr = f_regs s1 SPr ->
   (forall a, sp0 - ssize - rsize <= a < sp0 - ssize + 8 -> f_mem s2 a = f_mem s1 a) ->
   let s3 := frun (epilogue_ops stacksize saved extras) s2 in
   f_regs s3 SPr = sp0 /\ f_regs s3 FPr = f_regs s FPr /\ f_regs s3 RAr = f_regs s RAr /\
   (forall r, In r saved -> f_regs s3 r = f_regs s r) /\
   (forall x, x <> SPr -> x <> FPr -> x <> RAr -> ~ In x saved -> f_regs s3 x = f_regs s2 x) /\
   (forall a, f_mem s3 a = f_mem s2 a)).
Proof.
  intros Hst Hnd Hsp Hfp Hra ssize rsize sp0 s1.
  assert (Hss : 8 < ssize) by (unfold ssize, round_up; pose proof (Z.mod_pos_bound (stacksize + 8) 16 ltac:(lia)); lia).
  assert (Hrs : 0 < rsize) by (unfold rsize, round_up; pose proof (Z.mod_pos_bound (4 * Z.of_nat (List.length saved)) 16 ltac:(lia)); lia).
  assert (Hrs4 : 4 * Z.of_nat (List.length saved) <= rsize)
    by (unfold rsize, round_up; pose proof (Z.mod_pos_bound (4 * Z.of_nat (List.length saved)) 16 ltac:(lia)); lia).
  set (ex := if extras =? 0 then 0 else round_up extras).
  set (sl := slots saved 1 rsize).
  (* prologue *)
  unfold s1, prologue_ops. fold ssize rsize sl. rewrite frun_app, frun_app.
  destruct (pro5 ssize rsize s) as (A1 & A2 & A3 & A4 & A5 & A6). fold sp0 in A1, A2, A4, A5, A6.
  set (sA := frun [FAddSp (- ssize); FSave RAr 4; FSave FPr 0; FSetFp 8; FAddSp (- rsize)] s) in *.
  destruct (run_saves sl sA) as (B1 & B2 & B3).
  set (sB := frun (map (fun p => FSave (fst p) (snd p)) sl) sA) in *.
  assert (Hsl_off : forall p, In p sl -> 0 <= snd p <= rsize - 4 /\ In (fst p) saved).
  { intros p Hp. split.
    - pose proof (slots_snd_le saved 1 rsize p Hp).
      assert (Hge : forall sv k q, In q (slots sv k rsize) -> rsize - 4 * (k + Z.of_nat (List.length sv) - 1) <= snd q).
      { induction sv as [|x sv IH]; intros k q Hq; cbn [slots In] in Hq; [contradiction|].
        destruct Hq as [<-|Hq]; [cbn [snd List.length]; lia|]. apply IH in Hq. cbn [List.length]. lia. }
      pose proof (Hge saved 1 p Hp). lia.
    - rewrite <- (slots_fst saved 1 rsize). now apply in_map. }
  assert (C : f_regs (frun (if extras =? 0 then [] else [FAddSp (- round_up extras)]) sB) SPr = sp0 - ssize - rsize - ex /\
              (forall x, x <> SPr -> f_regs (frun (if extras =? 0 then [] else [FAddSp (- round_up extras)]) sB) x = f_regs sB x) /\
              (forall a, f_mem (frun (if extras =? 0 then [] else [FAddSp (- round_up extras)]) sB) a = f_mem sB a)).
  { unfold ex. destruct (extras =? 0); cbn [frun fexec f_regs f_mem].
    - rewrite B1, A1. repeat split; auto. lia.
    - split; [|split].
      + rewrite upd_same, B1, A1. lia.
      + intros x Hx. now rewrite upd_other.
      + reflexivity. }
  destruct C as (C1 & C2 & C3).
  set (s1' := frun (if extras =? 0 then [] else [FAddSp (- round_up extras)]) sB) in *.
  assert (Htot : frame_total stacksize saved extras = ssize + rsize + ex) by reflexivity.
  split; [rewrite C1, Htot; lia|]. split; [rewrite C2, B1, A2 by (unfold SPr, FPr; lia); reflexivity|].
  split; [intros x Hx1 Hx2; rewrite C2, B1 by exact Hx1; now apply A3|].
  split.
  { intros a Ha. rewrite C3. rewrite B3.
    - apply A6; lia.
    - intros p Hp. rewrite A1. destruct (Hsl_off p Hp). lia. }
  (* epilogue *)
  intros Hsp2 Hmem2.
  unfold epilogue_ops. fold ssize rsize sl. rewrite frun_app, frun_app.
  set (sC := frun (if extras =? 0 then [] else [FAddSp (round_up extras)]) s2).
  assert (D : f_regs sC SPr = sp0 - ssize - rsize /\ (forall x, x <> SPr -> f_regs sC x = f_regs s2 x) /\
              (forall a, f_mem sC a = f_mem s2 a)).
  { unfold sC, ex in *. destruct (extras =? 0); cbn [frun fexec f_regs f_mem].
    - repeat split; auto. rewrite Hsp2, C1. lia.
    - split; [|split].
      + rewrite upd_same, Hsp2, C1. lia.
      + intros x Hx. now rewrite upd_other.
      + reflexivity. }
  destruct D as (D1 & D2 & D3).
  assert (Hsp_sl : ~ In SPr (map fst sl)) by (unfold sl; now rewrite slots_fst).
  assert (Hnd_sl : NoDup (map fst sl)) by (unfold sl; now rewrite slots_fst).
  destruct (run_restores sl sC Hsp_sl Hnd_sl) as (E1 & E2 & E3).
  set (sD := frun (map (fun p => FRestore (fst p) (snd p)) sl) sC) in *.
  destruct (epi5 ssize rsize sD) as (F1 & F2 & F3 & F4 & F5).
  set (sE := frun [FAddSp rsize; FRestore RAr 4; FRestore FPr 0; FAddSp ssize; FRet] sD) in *.
  assert (HspD : f_regs sD SPr = sp0 - ssize - rsize) by (rewrite E3 by exact Hsp_sl; exact D1).
  rewrite HspD in F1, F2, F3.
  assert (Hsaved_sl : map fst sl = saved) by (unfold sl; apply slots_fst).
  split; [rewrite F1; lia|].
  split.
  { rewrite F3, E1, D3, Hmem2 by lia. replace (sp0 - ssize - rsize + rsize) with (sp0 - ssize) by lia.
    rewrite C3, B3; [exact A5|]. intros p Hp. rewrite A1. destruct (Hsl_off p Hp). lia. }
  split.
  { rewrite F2, E1, D3, Hmem2 by lia. replace (sp0 - ssize - rsize + rsize + 4) with (sp0 - ssize + 4) by lia.
    rewrite C3, B3; [exact A4|]. intros p Hp. rewrite A1. destruct (Hsl_off p Hp). lia. }
  split.
  { intros r Hr. rewrite <- Hsaved_sl in Hr. apply in_map_iff in Hr. destruct Hr as (p & <- & Hp).
    destruct (Hsl_off p Hp) as (Ho & Hin).
    assert (fst p <> SPr /\ fst p <> FPr /\ fst p <> RAr) as (N1 & N2 & N3)
      by (repeat split; intros E; rewrite E in Hin; contradiction).
    rewrite F4 by assumption. rewrite (E2 p Hp), D1, D3, Hmem2 by lia. rewrite C3.
    rewrite <- A1. rewrite (B2 (slots_snd_nodup saved 1 rsize) p Hp). now apply A3. }
  split.
  { intros x X1 X2 X3 X4. rewrite F4 by assumption. rewrite E3 by (rewrite Hsaved_sl; exact X4). now apply D2. }
  intros a. now rewrite F5, E1, D3.
Qed.

(* ---- argument locations ---- *)
Fixpoint stack_ok (l : list aloc) (lo : Z) : Prop :=
  match l with
  | [] => True
  | AReg _ :: r => stack_ok r lo
  | AStack off sz :: r => lo <= off /\ stack_ok r (off + sz)
  end.

Fixpoint regs_of (l : list aloc) : list Z :=
  match l with [] => [] | AReg x :: r => x :: regs_of r | AStack _ _ :: r => regs_of r end.

(* stack slots are laid out in argument order without overlap: each starts at or after the end of the previous *)
Theorem arg_locs_stack args : forall regs off, stack_ok (arg_locs args regs off) off.
Proof.
  induction args as [|[b sz] args IH]; intros regs off; cbn [arg_locs stack_ok]; [exact I|].
  destruct b; [split; [lia|apply IH]|]. destruct regs; cbn [stack_ok]; [split; [lia|apply IH]|apply IH].
Qed.

(* the registers used are an initial segment of x12..x17, in order (hence pairwise distinct) *)
Theorem arg_locs_regs args : forall regs off, exists n, regs_of (arg_locs args regs off) = firstn n regs.
Proof.
  induction args as [|[b sz] args IH]; intros regs off; cbn [arg_locs regs_of]; [exists 0%nat; reflexivity|].
  destruct b; [apply IH|]. destruct regs as [|x regs]; cbn [regs_of].
  - destruct (IH [] (off + sz)) as (n & Hn). exists n. exact Hn.
  - destruct (IH regs off) as (n & Hn). exists (S n). cbn [firstn]. now rewrite Hn.
Qed.

Lemma in_firstn_in {A} (x : A) : forall n l, In x (firstn n l) -> In x l.
Proof.
  induction n; intros l H; cbn in H; [contradiction|]. destruct l; [contradiction|].
  destruct H; [now left|right; auto].
Qed.

Lemma nodup_firstn {A} : forall n (l : list A), NoDup l -> NoDup (firstn n l).
Proof.
  induction n; intros l H; cbn [firstn]; [constructor|]. destruct l; [constructor|].
  inversion H; subst. constructor; [|auto]. intros Hin. apply H2. eapply in_firstn_in; eauto.
Qed.

Theorem arg_regs_distinct args : NoDup (regs_of (determine_arg_locations args)).
Proof.
  destruct (arg_locs_regs args [12; 13; 14; 15; 16; 17] 0) as (n & Hn). unfold determine_arg_locations. rewrite Hn.
  apply nodup_firstn. repeat constructor; cbn; intuition lia.
Qed.

(* a stack argument the caller stores at sp_call + off is read by the callee at fp + off + (ssize - 8)
   (Lw(arg, off, FP) with fprel adjusted by RiscvArch.peephole): the same address *)
Theorem callee_sees_caller_slot stacksize saved extras s off :
  0 <= stacksize -> NoDup saved -> ~ In SPr saved -> ~ In FPr saved -> ~ In RAr saved ->
  f_regs (frun (prologue_ops stacksize saved extras) s) FPr + (off + (round_up (stacksize + 8) - 8)) = f_regs s SPr + off.
Proof.
  intros H0 H1 H2 H3 H4. destruct (frame_balanced stacksize saved extras s s H0 H1 H2 H3 H4) as (_ & Hfp & _).
  rewrite Hfp. lia.
Qed.
