(* Proofs/C11_bits.v — word-level meaning of the byte/token writes of Model/Reloc.v:
   BitView.__setitem__ and Token.__setitem__ replace exactly bits [a, b) of the little-endian word. *)
From PV Require Import Lib.Py Lib.Tac Spec.RelocSpec Model.Reloc.
Open Scope Z_scope.

(* replace bits [a, a+n) of W by the low n bits of v *)
Definition wset (W a n v : Z) : Z :=
  Z.lor (Z.land W (Z.lnot (Z.shiftl (Z.ones n) a))) (Z.shiftl (Z.land v (Z.ones n)) a).

Ltac dcmp :=
  repeat match goal with
  | |- context [?a <? ?b] => destruct (Z.ltb_spec a b)
  | |- context [?a <=? ?b] => destruct (Z.leb_spec a b)
  | |- context [?a >? ?b] => rewrite (Z.gtb_ltb a b)
  | |- context [?a >=? ?b] => rewrite (Z.geb_leb a b)
  end.

Lemma ones_tb n i : 0 <= n -> 0 <= i -> Z.testbit (Z.ones n) i = (i <? n).
Proof. intros. apply Z.testbit_ones_nonneg; lia. Qed.

Lemma ones_nonneg n : 0 <= n -> 0 <= Z.ones n.
Proof. intros. rewrite Z.ones_equiv. assert (0 < 2 ^ n) by (apply Z.pow_pos_nonneg; lia). lia. Qed.

Lemma wset_testbit W a n v i : 0 <= a -> 0 <= n -> 0 <= i ->
  Z.testbit (wset W a n v) i = if (a <=? i) && (i <? a + n) then Z.testbit v (i - a) else Z.testbit W i.
Proof.
  intros Ha Hn Hi. unfold wset.
  rewrite Z.lor_spec, Z.land_spec, Z.lnot_spec by lia.
  rewrite !Z.shiftl_spec by lia.
  destruct (Z.leb_spec a i); cbn [andb].
  - rewrite Z.land_spec, !ones_tb by lia.
    destruct (Z.ltb_spec i (a + n)); destruct (Z.ltb_spec (i - a) n); try lia; cbn.
    + rewrite andb_false_r, andb_true_r. reflexivity.
    + rewrite andb_false_r, andb_true_r, orb_false_r. reflexivity.
  - rewrite !(Z.testbit_neg_r _ (i - a)) by lia. cbn. rewrite andb_true_r, orb_false_r. reflexivity.
Qed.

Lemma bits_eq w a n : 0 <= a -> 0 <= n -> bits w a n = Z.land (Z.shiftr w a) (Z.ones n).
Proof. intros. unfold bits. rewrite Z.land_ones, Z.shiftr_div_pow2 by lia. reflexivity. Qed.

Lemma bits_testbit w a n i : 0 <= a -> 0 <= n -> 0 <= i ->
  Z.testbit (bits w a n) i = (i <? n) && Z.testbit w (i + a).
Proof.
  intros. rewrite bits_eq by lia. rewrite Z.land_spec, Z.shiftr_spec, ones_tb by lia. apply andb_comm.
Qed.

Lemma bits_range w a n : 0 <= n -> 0 <= bits w a n < 2 ^ n.
Proof. intros. unfold bits. apply Z.mod_pos_bound. apply Z.pow_pos_nonneg; lia. Qed.

Lemma bits_wset_same W a n v : 0 <= a -> 0 <= n -> bits (wset W a n v) a n = v mod 2 ^ n.
Proof.
  intros. rewrite <- Z.land_ones by lia. apply Z.bits_inj'. intros i Hi.
  rewrite bits_testbit, wset_testbit, Z.land_spec, ones_tb by lia.
  replace (i + a - a) with i by lia.
  destruct (Z.ltb_spec i n); cbn; [|now rewrite andb_false_r].
  destruct (Z.leb_spec a (i + a)); destruct (Z.ltb_spec (i + a) (a + n)); try lia. cbn.
  now rewrite andb_true_r.
Qed.

Lemma bits_wset_other W a n v a' n' : 0 <= a -> 0 <= n -> 0 <= a' -> 0 <= n' ->
  a' + n' <= a \/ a + n <= a' -> bits (wset W a n v) a' n' = bits W a' n'.
Proof.
  intros. apply Z.bits_inj'. intros i Hi.
  rewrite !bits_testbit, wset_testbit by lia.
  destruct (Z.ltb_spec i n'); cbn; [|reflexivity].
  destruct (Z.leb_spec a (i + a')); destruct (Z.ltb_spec (i + a') (a + n)); try lia; reflexivity.
Qed.

Lemma wset_outside W a n v i : 0 <= a -> 0 <= n -> 0 <= i -> i < a \/ a + n <= i ->
  Z.testbit (wset W a n v) i = Z.testbit W i.
Proof.
  intros. rewrite wset_testbit by lia.
  destruct (Z.leb_spec a i); destruct (Z.ltb_spec i (a + n)); try lia; reflexivity.
Qed.

Lemma wset_range W a n v size : 0 <= a -> 0 <= n -> a + n <= size -> 0 <= W < 2 ^ size ->
  0 <= wset W a n v < 2 ^ size.
Proof.
  intros Ha Hn Hs HW.
  assert (H0 : 0 <= wset W a n v).
  { unfold wset. apply Z.lor_nonneg. split.
    - apply Z.land_nonneg. left. lia.
    - apply Z.shiftl_nonneg. apply Z.land_nonneg. right. apply ones_nonneg. lia. }
  split; [exact H0|]. apply bits_lt_pow2; try lia.
  intros i Hi. rewrite wset_testbit by lia.
  destruct (Z.leb_spec a i); destruct (Z.ltb_spec i (a + n)); try lia; cbn;
    apply (testbit_small W size); lia.
Qed.

(* ---------------------------------------------------------------- byte lists *)
Definition wf (data : list Z) : Prop := Forall (fun d => 0 <= d < 256) data.

Lemma le_value_word data : le_value data = le_word data.
Proof. induction data as [|d r IH]; cbn [le_value le_word]; [reflexivity|now rewrite IH]. Qed.

Lemma le_value_range data : wf data -> 0 <= le_value data < 2 ^ (8 * len data).
Proof.
  induction 1 as [|d r Hd Hr IH]; cbn [le_value].
  - cbn. lia.
  - unfold len in *. cbn [length]. rewrite Nat2Z.inj_succ.
    replace (8 * Z.succ (Z.of_nat (length r))) with (8 + 8 * Z.of_nat (length r)) by lia.
    rewrite Z.pow_add_r by lia. change (2 ^ 8) with 256. nia.
Qed.

Lemma testbit_cons d w i : 0 <= d < 256 -> 0 <= i ->
  Z.testbit (d + 256 * w) i = if i <? 8 then Z.testbit d i else Z.testbit w (i - 8).
Proof.
  intros Hd Hi. replace (d + 256 * w) with (Z.lor d (Z.shiftl w 8)).
  2:{ rewrite lor_disjoint_add by (change (2 ^ 8) with 256; lia). change (2 ^ 8) with 256. lia. }
  rewrite Z.lor_spec, Z.shiftl_spec by lia.
  destruct (Z.ltb_spec i 8).
  - rewrite (Z.testbit_neg_r w) by lia. apply orb_false_r.
  - rewrite (testbit_small d 8 i) by (change (2 ^ 8) with 256; lia). reflexivity.
Qed.

Lemma newbyte_testbit d j a b v i : 0 <= d < 256 -> 0 <= j -> 0 <= a -> a < b -> a < j * 8 + 8 -> j * 8 < b ->
  0 <= i ->
  Z.testbit (bv_newbyte d j a b v) i =
    if i <? 8 then (if (a <=? i + 8 * j) && (i + 8 * j <? b) then Z.testbit v (i + 8 * j - a) else Z.testbit d i)
    else false.
Proof.
  intros Hd Hj Ha Hab H1 H2 Hi. unfold bv_newbyte.
  set (p1 := if a >? j * 8 then a else j * 8).
  set (p2 := if b <? j * 8 + 8 then b else j * 8 + 8).
  assert (Hp1 : j * 8 <= p1 /\ a <= p1 /\ (p1 = a \/ p1 = j * 8))
    by (subst p1; rewrite Z.gtb_ltb; destruct (Z.ltb_spec (j * 8) a); lia).
  assert (Hp2 : p2 <= j * 8 + 8 /\ p2 <= b /\ (p2 = b \/ p2 = j * 8 + 8))
    by (subst p2; destruct (Z.ltb_spec b (j * 8 + 8)); lia).
  assert (Hlt : p1 < p2) by lia.
  replace (Z.shiftl 1 (p2 - p1) - 1) with (Z.ones (p2 - p1)) by (unfold Z.ones; lia).
  change 255 with (Z.ones 8).
  rewrite Z.lor_spec, Z.land_spec, Z.lxor_spec, !Z.shiftl_spec, Z.land_spec by lia.
  rewrite ones_tb by lia.
  destruct (Z.ltb_spec i 8).
  - destruct (Z.ltb_spec (i - (p1 - j * 8)) 0).
    + rewrite !(Z.testbit_neg_r _ (i - (p1 - j * 8))) by lia. cbn [andb orb negb xorb].
      destruct (Z.leb_spec a (i + 8 * j)); destruct (Z.ltb_spec (i + 8 * j) b); try lia; cbn [andb orb negb xorb];
        now rewrite andb_true_r, orb_false_r.
    + rewrite Z.shiftr_spec, !ones_tb by lia.
      replace (i - (p1 - j * 8) + (p1 - a)) with (i + 8 * j - a) by lia.
      destruct (Z.ltb_spec (i - (p1 - j * 8)) (p2 - p1));
      destruct (Z.leb_spec a (i + 8 * j)); destruct (Z.ltb_spec (i + 8 * j) b); try lia; cbn [andb orb negb xorb];
        rewrite ?andb_true_r, ?andb_false_r, ?orb_false_r; reflexivity.
  - rewrite (testbit_small d 8 i) by (change (2 ^ 8) with 256; lia). cbn [andb orb negb xorb].
    destruct (Z.ltb_spec (i - (p1 - j * 8)) 0).
    + rewrite !(Z.testbit_neg_r _ (i - (p1 - j * 8))) by lia. reflexivity.
    + rewrite ones_tb by lia. destruct (Z.ltb_spec (i - (p1 - j * 8)) (p2 - p1)); try lia; try reflexivity.
Qed.

Lemma newbyte_range d j a b v : 0 <= d < 256 -> 0 <= j -> 0 <= a -> a < b -> a < j * 8 + 8 -> j * 8 < b ->
  0 <= bv_newbyte d j a b v < 256.
Proof.
  intros Hd Hj Ha Hab H1 H2.
  assert (H0 : 0 <= bv_newbyte d j a b v).
  { unfold bv_newbyte. apply Z.lor_nonneg. split.
    - apply Z.land_nonneg. left. lia.
    - apply Z.shiftl_nonneg. apply Z.land_nonneg. left.
      match goal with |- 0 <= Z.shiftl 1 ?x - 1 => replace (Z.shiftl 1 x - 1) with (Z.ones x) by (unfold Z.ones; lia) end.
      apply ones_nonneg.
      rewrite Z.gtb_ltb. destruct (Z.ltb_spec (j * 8) a); destruct (Z.ltb_spec b (j * 8 + 8)); lia. }
  split; [exact H0|]. change 256 with (2 ^ 8). apply bits_lt_pow2; try lia.
  intros i Hi. rewrite newbyte_testbit by lia. destruct (Z.ltb_spec i 8); [lia|reflexivity].
Qed.

Lemma bv_loop_nil n j a b v : 0 <= j -> a < b -> b <= 8 * j -> bv_loop n j [] a b v = Ok [].
Proof.
  revert j. induction n; intros j Hj Hab Hb; cbn [bv_loop]; [reflexivity|].
  rewrite Z.geb_leb. destruct (Z.leb_spec (j * 8 + 8) a); [lia|].
  destruct (Z.leb_spec b (j * 8)); [reflexivity|lia].
Qed.

Lemma bv_loop_spec n : forall j rest a b v,
  wf rest -> 0 <= j -> 0 <= a -> a < b -> b <= 8 * (j + len rest) -> (length rest <= n)%nat ->
  exists r', bv_loop n j rest a b v = Ok r' /\ wf r' /\ length r' = length rest /\
    forall i, 0 <= i -> Z.testbit (le_value r') i =
      if (a <=? i + 8 * j) && (i + 8 * j <? b) then Z.testbit v (i + 8 * j - a) else Z.testbit (le_value rest) i.
Proof.
  induction n; intros j rest a b v Hwf Hj Ha Hab Hb Hn.
  - destruct rest; [|cbn [length] in Hn; lia]. exists []. cbn [bv_loop le_value]. repeat split; auto.
    intros i Hi. assert (Hb0 : b <= 8 * j) by (unfold len in Hb; cbn [length] in Hb; lia).
    destruct (Z.leb_spec a (i + 8 * j)); destruct (Z.ltb_spec (i + 8 * j) b); try lia; reflexivity.
  - destruct rest as [|d r].
    + assert (Hb0 : b <= 8 * j) by (unfold len in Hb; cbn [length] in Hb; lia).
      rewrite bv_loop_nil by lia. exists []. repeat split; auto.
      intros i Hi.
      destruct (Z.leb_spec a (i + 8 * j)); destruct (Z.ltb_spec (i + 8 * j) b); try lia; reflexivity.
    + inversion Hwf as [|? ? Hd Hr]; subst.
      assert (Hlen : len (d :: r) = 1 + len r) by (unfold len; cbn [length]; lia).
      cbn [bv_loop]. rewrite Z.geb_leb.
      destruct (Z.leb_spec (j * 8 + 8) a) as [Hc|Hc].
      * destruct (IHn (j + 1) r a b v) as (r' & E & Hw' & Hl' & Hb'); auto; try lia. { cbn [length] in Hn. lia. }
        rewrite E. cbn [bind]. exists (d :: r'). split; [reflexivity|]. split; [constructor; auto|].
        split; [cbn [length]; lia|]. intros i Hi. cbn [le_value]. rewrite !testbit_cons by lia.
        destruct (Z.ltb_spec i 8).
        -- destruct (Z.leb_spec a (i + 8 * j)); destruct (Z.ltb_spec (i + 8 * j) b); try lia; reflexivity.
        -- rewrite Hb' by lia. replace (i - 8 + 8 * (j + 1)) with (i + 8 * j) by lia. reflexivity.
      * destruct (Z.leb_spec b (j * 8)) as [Hc2|Hc2].
        -- exists (d :: r). repeat split; auto. intros i Hi.
           destruct (Z.leb_spec a (i + 8 * j)); destruct (Z.ltb_spec (i + 8 * j) b); try lia; reflexivity.
        -- destruct (IHn (j + 1) r a b v) as (r' & E & Hw' & Hl' & Hb'); auto; try lia. { cbn [length] in Hn. lia. }
           rewrite E. cbn [bind]. exists (bv_newbyte d j a b v :: r'). split; [reflexivity|].
           split; [constructor; auto; apply newbyte_range; lia|].
           split; [cbn [length]; lia|]. intros i Hi. cbn [le_value].
           rewrite !testbit_cons by (try apply newbyte_range; lia).
           destruct (Z.ltb_spec i 8) as [Hi8|Hi8].
           ++ rewrite newbyte_testbit by lia. destruct (Z.ltb_spec i 8); [reflexivity|lia].
           ++ rewrite Hb' by lia. replace (i - 8 + 8 * (j + 1)) with (i + 8 * j) by lia. reflexivity.
Qed.

(* BitView(data, 0, length)[a:b] = v writes exactly bits [a, b) of the little-endian word *)
Lemma bv_set_wset data length a b v :
  wf data -> 0 <= a -> a < b -> b <= 8 * len data -> len data <= length -> v < 2 ^ (b - a) ->
  exists d', bv_set data length a b v = Ok d' /\ wf d' /\ len d' = len data /\
             le_value d' = wset (le_value data) a (b - a) v.
Proof.
  intros Hwf Ha Hab Hb Hl Hv. unfold bv_set, asrt.
  rewrite shiftl1_pow by lia.
  assert (E1 : (b - a >? 0) = true) by lia. rewrite E1.
  assert (E2 : (b <=? length * 8) = true) by lia. rewrite E2.
  assert (E3 : (v <? 2 ^ (b - a)) = true) by lia. rewrite E3. unfold guard.
  destruct (bv_loop_spec (Z.to_nat length) 0 data a b v) as (r' & E & Hw' & Hl' & Hb'); auto; try lia.
  { unfold len in Hl. lia. }
  exists r'. split; [exact E|]. split; [exact Hw'|]. split; [unfold len; lia|].
  apply Z.bits_inj'. intros i Hi. rewrite Hb', wset_testbit by lia.
  replace (i + 8 * 0) with i by lia. replace (a + (b - a)) with b by lia. reflexivity.
Qed.

(* ---------------------------------------------------------------- tokens *)
Lemma tok_set_wset ts W s e v :
  0 <= W < 2 ^ ts -> 0 <= s -> s < e -> e <= ts -> - 2 ^ (e - s) < v < 2 ^ (e - s) ->
  tok_set ts W s e v = Ok (wset W s (e - s) v).
Proof.
  intros HW Hs Hse He Hv. unfold tok_set, asrt. rewrite !shiftl1_pow by lia.
  assert (E1 : (e - s >? 0) = true) by lia. rewrite E1. unfold guard at 1.
  assert (Hp : 0 < 2 ^ (e - s)) by (apply Z.pow_pos_nonneg; lia).
  destruct (Z.geb_spec v (2 ^ (e - s))); [lia|].
  set (v' := if v <? 0 then 2 ^ (e - s) + v else v).
  assert (Hv' : 0 <= v' < 2 ^ (e - s)) by (subst v'; destruct (Z.ltb_spec v 0); lia).
  assert (E2 : ((v' >=? 0) && (v' <? 2 ^ (e - s))) = true) by lia. rewrite E2. unfold guard.
  f_equal. apply Z.bits_inj'. intros i Hi.
  rewrite wset_testbit by lia.
  replace (2 ^ ts - 1) with (Z.ones ts) by (rewrite Z.ones_equiv; lia).
  replace (2 ^ (e - s) - 1) with (Z.ones (e - s)) by (rewrite Z.ones_equiv; lia).
  rewrite Z.lor_spec, Z.land_spec, Z.lxor_spec, !Z.shiftl_spec by lia.
  replace (s + (e - s)) with e by lia.
  assert (Hv'b : forall k, 0 <= k < e - s -> Z.testbit v' k = Z.testbit v k).
  { intros k Hk. subst v'. destruct (Z.ltb_spec v 0); [|reflexivity].
    rewrite <- (Z.mod_pow2_bits_low (2 ^ (e - s) + v) (e - s)) by lia.
    rewrite <- (Z.mod_pow2_bits_low v (e - s) k) by lia. f_equal.
    rewrite <- Z.add_mod_idemp_l by lia. rewrite Z.mod_same by lia. reflexivity. }
  destruct (Z.leb_spec s i); cbn [andb].
  - rewrite !ones_tb by lia.
    destruct (Z.ltb_spec i e).
    + destruct (Z.ltb_spec (i - s) (e - s)); [|lia].
      destruct (Z.ltb_spec i ts); [|lia]. cbn. rewrite andb_false_r. cbn. apply Hv'b. lia.
    + destruct (Z.ltb_spec (i - s) (e - s)); [lia|].
      rewrite (testbit_small v' (e - s) (i - s)) by lia. rewrite orb_false_r.
      destruct (Z.ltb_spec i ts); cbn; [now rewrite andb_true_r|].
      rewrite (testbit_small W ts i) by lia. reflexivity.
  - rewrite !(Z.testbit_neg_r _ (i - s)) by lia. rewrite orb_false_r.
    rewrite ones_tb by lia. destruct (Z.ltb_spec i ts); [|lia]. cbn. now rewrite andb_true_r.
Qed.

Lemma tok_set_diag ts W s e v : s < e -> 0 <= e - s -> 2 ^ (e - s) <= v -> tok_set ts W s e v = Diag 1.
Proof.
  intros Hse _ Hv. unfold tok_set, asrt. rewrite !shiftl1_pow by lia.
  assert (E1 : (e - s >? 0) = true) by lia. rewrite E1. unfold guard at 1.
  destruct (Z.geb_spec v (2 ^ (e - s))); [reflexivity|lia].
Qed.

(* pack / unpack *)
Lemma pack_spec_aux value n : forall a, 0 <= a -> 0 <= value ->
  let l := map (fun x => Z.land (Z.shiftr value (x * 8)) 255) (seqZ_from a n) in
  wf l /\ length l = n /\ le_value l = bits value (a * 8) (8 * Z.of_nat n).
Proof.
  induction n; intros a Ha Hv; cbn [seqZ_from map].
  - cbn. repeat split; [constructor|]. unfold bits. cbn. now rewrite Z.mod_1_r.
  - destruct (IHn (a + 1)) as (Hw & Hl & He); try lia.
    cbn zeta. split; [|split].
    + constructor; [|exact Hw]. change 255 with (Z.ones 8). rewrite Z.land_ones by lia.
      change (2 ^ 8) with 256. apply Z.mod_pos_bound. lia.
    + cbn [length]. now rewrite Hl.
    + cbn [le_value]. rewrite He. change 255 with (Z.ones 8). rewrite Z.land_ones, Z.shiftr_div_pow2 by lia.
      unfold bits. rewrite Nat2Z.inj_succ.
      replace (8 * Z.succ (Z.of_nat n)) with (8 + 8 * Z.of_nat n) by lia.
      replace ((a + 1) * 8) with (a * 8 + 8) by lia.
      rewrite !Z.pow_add_r by lia. set (q := value / 2 ^ (a * 8)).
      rewrite <- Z.div_div by (try apply Z.pow_pos_nonneg; lia). fold q.
      assert (Hp : 0 < 2 ^ (8 * Z.of_nat n)) by (apply Z.pow_pos_nonneg; lia).
      change (2 ^ 8) with 256. rewrite (Z.mul_comm 256), Z.rem_mul_r by lia. lia.
Qed.

Lemma pack_spec size value : 0 <= size -> 0 <= value ->
  wf (pack size value) /\ len (pack size value) = size /\ le_value (pack size value) = value mod 2 ^ (8 * size).
Proof.
  intros Hs Hv. unfold pack, rangeZ. destruct (pack_spec_aux value (Z.to_nat (size - 0)) 0) as (Hw & Hl & He); try lia.
  cbn zeta in *. split; [exact Hw|]. split; [unfold len; rewrite Hl; lia|].
  rewrite He. unfold bits. change (0 * 8) with 0. rewrite Z.pow_0_r, Z.div_1_r.
  replace (8 * Z.of_nat (Z.to_nat (size - 0))) with (8 * size) by lia. reflexivity.
Qed.

Lemma unpack_ok size data : len data = size -> unpack size data = Ok (le_value data).
Proof. intros H. unfold unpack. rewrite H, Z.eqb_refl. reflexivity. Qed.
