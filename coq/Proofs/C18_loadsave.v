(* Proofs/C18_loadsave.v — load (save hf) = hf for every well-formed HexFile (unbounded). *)
From PV Require Import Lib.Py Lib.Tac Spec.IhexSpec Model.Hexfile Proofs.C18_hexfile.
From Coq Require Import String Ascii.
Open Scope Z_scope.

(* ---------------- strip leaves emitted lines alone *)
Fixpoint all_nows (s : string) : bool :=
  match s with EmptyString => true | String c r => negb (is_ws c) && all_nows r end.

Lemma all_nows_srev s : forall acc, all_nows (srev_acc s acc) = all_nows s && all_nows acc.
Proof.
  induction s as [|c r IH]; intros acc; [reflexivity|].
  cbn [srev_acc all_nows]. rewrite IH. cbn [all_nows]. destruct (negb (is_ws c)), (all_nows r); reflexivity.
Qed.

Lemma lstrip_nows s : all_nows s = true -> lstrip s = s.
Proof. destruct s as [|c r]; [reflexivity|]. cbn [all_nows lstrip]. destruct (is_ws c); [discriminate|reflexivity]. Qed.

Lemma srev_srev s : forall acc acc', srev_acc (srev_acc s acc) acc' = srev_acc acc (append s acc').
Proof.
  induction s as [|c r IH]; intros acc acc'; [reflexivity|].
  cbn [srev_acc append]. rewrite IH. reflexivity.
Qed.

Lemma append_nil s : append s EmptyString = s.
Proof. induction s as [|c r IH]; [reflexivity|]. cbn [append]. now rewrite IH. Qed.

Lemma strip_nows s : all_nows s = true -> strip s = s.
Proof.
  intros H. unfold strip. rewrite (lstrip_nows s H).
  rewrite lstrip_nows by (rewrite all_nows_srev, H; reflexivity).
  rewrite srev_srev. cbn [srev_acc]. apply append_nil.
Qed.

Lemma hexdigit_nows n : 0 <= n < 16 -> is_ws (hexdigit_lower n) = false.
Proof.
  intros H.
  assert (A : forallb (fun n => negb (is_ws (hexdigit_lower n))) (rangeZ 0 16) = true) by (vm_compute; reflexivity).
  rewrite forallb_forall in A. specialize (A n). rewrite rangeZ_In in A. specialize (A H).
  now destruct (is_ws (hexdigit_lower n)).
Qed.

Lemma hexlify_nows bs : all_byte bs = true -> all_nows (hexlify bs) = true.
Proof.
  induction bs as [|b r IH]; intros H; [reflexivity|].
  cbn [all_byte forallb] in H. apply andb_true_iff in H. destruct H as [Hb Hr]. unfold is_byte in Hb.
  cbn [hexlify all_nows]. rewrite !hexdigit_nows by lia. fold (all_byte r) in Hr. now rewrite (IH Hr).
Qed.

(* what load needs to know about an emitted line *)
Lemma emitted_line hl s : valid_line hl -> to_line hl = Ok s ->
  exists tl, s = String ":" tl /\ strip s = s /\ from_line s = Ok hl.
Proof.
  intros Hv Hs. pose proof (to_line_ok hl Hv) as Ht.
  assert (E : s = String ":" (hexlify (line_bytes hl))) by congruence. subst s.
  destruct (line_roundtrip hl Hv) as (s' & Hs' & Hf).
  assert (E : s' = String ":" (hexlify (line_bytes hl))) by congruence. subst s'.
  eexists. split; [reflexivity|]. split; [|exact Hf].
  apply strip_nows. cbn [all_nows]. change (is_ws ":") with false. cbn [negb andb].
  apply hexlify_nows, line_bytes_all_byte, Hv.
Qed.

(* ---------------- load as a state machine over HexLines *)
Record lstate := mkst { st_regs : list region; st_start : Z; st_eof : bool; st_ext : Z }.

Definition load_st (lines : list string) (st : lstate) : result HexFile :=
  load_loop lines (st_regs st) (st_start st) (st_eof st) (st_ext st).

Definition step (hl : HexLine) (st : lstate) : result lstate :=
  if st_eof st then Diag 1
  else if typ hl =? 0 then
    regs' <- check (st_regs st ++ [(address hl + st_ext st, data hl)]) ;;
    Ok (mkst regs' (st_start st) (st_eof st) (st_ext st))
  else if typ hl =? 4 then
    v <- unpack_H (sliceZ (data hl) 0 2) ;;
    Ok (mkst (st_regs st) (st_start st) (st_eof st) (Z.shiftl v 16))
  else if typ hl =? 1 then
    if negb (len (data hl) =? 0) then Diag 1
    else Ok (mkst (st_regs st) (st_start st) true (st_ext st))
  else if typ hl =? 5 then
    v <- unpack_I (sliceZ (data hl) 0 4) ;;
    Ok (mkst (st_regs st) v (st_eof st) (st_ext st))
  else Internal NotImplemented.

Fixpoint run (hls : list HexLine) (st : lstate) : result lstate :=
  match hls with [] => Ok st | hl :: r => st' <- step hl st ;; run r st' end.

Definition emits (hls : list HexLine) (ls : list string) : Prop :=
  Forall2 (fun hl s => valid_line hl /\ to_line hl = Ok s) hls ls.

Lemma load_step hl s rest st : valid_line hl -> to_line hl = Ok s ->
  load_st (s :: rest) st = st' <- step hl st ;; load_st rest st'.
Proof.
  intros Hv Hs. destruct (emitted_line hl s Hv Hs) as (tl & E & Hstrip & Hf).
  unfold load_st. cbn [load_loop]. rewrite Hstrip. rewrite E in Hf |- *.
  change (Ascii.eqb ":" ":") with true. cbn [negb]. rewrite Hf. cbn [bind].
  unfold step. destruct st as [regs start eof ext]. cbn [st_regs st_start st_eof st_ext].
  destruct eof; [reflexivity|].
  destruct (typ hl =? 0).
  { destruct (check (regs ++ [(address hl + ext, data hl)])); reflexivity. }
  destruct (typ hl =? 4).
  { destruct (unpack_H (sliceZ (data hl) 0 2)); reflexivity. }
  destruct (typ hl =? 1).
  { destruct (negb (len (data hl) =? 0)); reflexivity. }
  destruct (typ hl =? 5).
  { destruct (unpack_I (sliceZ (data hl) 0 4)); reflexivity. }
  reflexivity.
Qed.

Lemma load_emits hls ls : emits hls ls -> forall rest st,
  load_st (ls ++ rest) st = st' <- run hls st ;; load_st rest st'.
Proof.
  induction 1 as [|hl s hls ls (Hv & Hs) _ IH]; intros rest st; [reflexivity|].
  cbn [app run]. rewrite (load_step hl s _ st Hv Hs).
  destruct (step hl st) as [st1| | |]; cbn [bind]; try reflexivity. apply IH.
Qed.

Lemma emits_app a la b lb : emits a la -> emits b lb -> emits (a ++ b) (la ++ lb).
Proof. apply Forall2_app. Qed.

Lemma run_app a : forall b st, run (a ++ b) st = st' <- run a st ;; run b st'.
Proof.
  induction a as [|x a IH]; intros b st; [reflexivity|].
  cbn [app run]. destruct (step x st); cbn [bind]; try reflexivity. apply IH.
Qed.

(* ---------------- check on a canonical list with one region appended at the end *)
Fixpoint sortedle (l : list region) : Prop :=
  match l with
  | [] => True
  | r :: tl => match tl with [] => True | r2 :: _ => fst r <= fst r2 end /\ sortedle tl
  end.

Lemma sort_sorted l : sortedle l -> sort_regions l = l.
Proof.
  induction l as [|r tl IH]; intros H; [reflexivity|].
  destruct H as [H1 H2]. cbn [sort_regions]. rewrite (IH H2).
  destruct tl as [|r2 t]; [reflexivity|]. cbn [insert_region].
  now replace (fst r <=? fst r2) with true by lia.
Qed.

Lemma separated_app_l a : forall b, separated (a ++ b) -> separated a.
Proof.
  induction a as [|r tl IH]; intros b H; [exact I|].
  cbn [app separated] in *. destruct H as [H1 H2]. split; [|eapply IH; eauto].
  destruct tl as [|r2 t]; [exact I|]. exact H1.
Qed.

(* the last element may change its data (not its address) *)
Lemma separated_last a : forall x d d', separated (a ++ [(x, d)]) -> separated (a ++ [(x, d')]).
Proof.
  induction a as [|r tl IH]; intros x d d' H; [cbn; auto|].
  cbn [app separated] in *. destruct H as [H1 H2]. split; [|eapply IH; eauto].
  destruct tl as [|r2 t]; [exact H1 | exact H1].
Qed.

Lemma separated_sortedle_snoc a : forall r x, separated (a ++ [r]) -> fst r <= fst x ->
  sortedle ((a ++ [r]) ++ [x]).
Proof.
  induction a as [|r0 tl IH]; intros r x H Hx.
  - cbn. auto.
  - cbn [app separated sortedle] in *. destruct H as [H1 H2]. split; [|now apply IH].
    pose proof (len_nonneg (snd r0)). unfold r_end in H1.
    destruct tl as [|r2 t]; cbn [app] in *; lia.
Qed.

Lemma separated_sortedle l : separated l -> sortedle l.
Proof.
  induction l as [|r tl IH]; intros H; [exact I|]. destruct H as [H1 H2]. split; [|now apply IH].
  destruct tl as [|r2 t]; [exact I|]. pose proof (len_nonneg (snd r)). unfold r_end in H1. lia.
Qed.

Lemma scan_separated l : separated l -> scan l = Ok None.
Proof.
  induction l as [|r tl IH]; intros H; [reflexivity|]. destruct H as [H1 H2].
  cbn [scan]. destruct tl as [|r2 t]; [reflexivity|].
  replace (r_end r =? fst r2) with false by lia. replace (r_end r >? fst r2) with false by lia.
  rewrite (IH H2). reflexivity.
Qed.

Lemma scan_merge_last a : forall r1 r2, separated (a ++ [r1]) -> r_end r1 = fst r2 ->
  scan (a ++ [r1; r2]) = Ok (Some (a ++ [(fst r1, snd r1 ++ snd r2)])).
Proof.
  induction a as [|r0 tl IH]; intros r1 r2 H He.
  - cbn [app scan]. now replace (r_end r1 =? fst r2) with true by lia.
  - cbn [app separated] in H. destruct H as [H1 H2].
    assert (E : exists y t, tl ++ [r1; r2] = y :: t /\ (match tl ++ [r1] with [] => True | y' :: _ => r_end r0 < fst y' end -> r_end r0 < fst y)).
    { destruct tl as [|y t]; cbn [app]; eauto. }
    destruct E as (y & t & E & Hy). cbn [app scan]. rewrite E. rewrite <- E.
    specialize (Hy H1).
    replace (r_end r0 =? fst y) with false by lia. replace (r_end r0 >? fst y) with false by lia.
    rewrite (IH r1 r2 H2 He). reflexivity.
Qed.

Lemma len_ge2 {A} (a : list A) x y : (len (a ++ [x; y]) <=? 1) = false.
Proof. rewrite len_app. change (len [x; y]) with 2. pose proof (len_nonneg a). lia. Qed.

(* a chunk that continues the last region is merged into it *)
Lemma check_extend (a : list region) A p c : separated (a ++ [(A, p)]) ->
  check ((a ++ [(A, p)]) ++ [(A + len p, c)]) = Ok (a ++ [(A, p ++ c)]).
Proof.
  intros H. unfold check.
  rewrite sort_sorted by (apply separated_sortedle_snoc; [assumption | cbn [fst]; pose proof (len_nonneg p); lia]).
  rewrite <- app_assoc. cbn [app].
  assert (EL : List.length (a ++ [(A, p); (A + len p, c)] : list region) = S (S (List.length a)))
    by (rewrite app_length; cbn [List.length]; lia).
  rewrite EL.
  cbn [check_loop]. rewrite len_ge2.
  rewrite (scan_merge_last a (A, p) (A + len p, c) H eq_refl). cbn [bind fst snd].
  destruct (len (a ++ [(A, p ++ c)]) <=? 1); [reflexivity|].
  rewrite scan_separated by (eapply separated_last; eauto). reflexivity.
Qed.

(* a region that starts after a gap is appended *)
Lemma check_append (a : list region) r : separated (a ++ [r]) -> check (a ++ [r]) = Ok (a ++ [r]).
Proof.
  intros H. unfold check. rewrite sort_sorted by now apply separated_sortedle.
  cbn [check_loop]. destruct (len (a ++ [r]) <=? 1); [reflexivity|].
  now rewrite scan_separated.
Qed.

(* ---------------- the HexLines save emits *)
Definition hl4 (e : Z) : HexLine := mkHexLine 0 4 [e / 256; e mod 256].

Fixpoint hl_chunks (chs : list (list Z)) (ext addr : Z) : list HexLine :=
  match chs with
  | [] => []
  | c :: r =>
      if addr >=? 65536
      then hl4 (Z.shiftr (ext + 65536) 16) :: mkHexLine (addr - 65536) 0 c
             :: hl_chunks r (ext + 65536) (addr - 65536 + len c)
      else mkHexLine addr 0 c :: hl_chunks r ext (addr + len c)
  end.

Lemma valid_data a c : 0 <= a < 65536 -> all_byte c = true -> len c < 256 -> valid_line (mkHexLine a 0 c).
Proof. intros. repeat split; cbn; auto; lia. Qed.

Lemma ext_line_emits e : 0 <= e < 65536 ->
  exists s, (x <- pack_H e ;; to_line (mkHexLine 0 4 x)) = Ok s /\
            valid_line (hl4 e) /\ to_line (hl4 e) = Ok s.
Proof.
  intros H. unfold pack_H, hl4. replace ((0 <=? e) && (e <? 65536)) with true by lia. cbn [bind].
  assert (Hv : valid_line (mkHexLine 0 4 [e / 256; e mod 256])).
  { repeat split; cbn [address typ data]; try lia; try reflexivity.
    cbn [all_byte forallb]. unfold is_byte. lia. }
  destruct (line_roundtrip _ Hv) as (s & Hs & _). eauto.
Qed.

Lemma save_chunks_emits n : forall l ext addr, n = nchunks l -> all_byte l = true -> chunk_inv ext addr l ->
  exists ls, save_chunks (chunk_list n l) ext addr = Ok ls /\
             emits (hl_chunks (chunk_list n l) ext addr) ls.
Proof.
  induction n as [|n IH]; intros l ext addr Hn Hb Hi; [cbn; eexists; split; [reflexivity|constructor]|].
  pose proof (nchunks_pos _ _ Hn) as Hl. rewrite (nchunks_S _ Hl) in Hn. injection Hn as Hn.
  cbn [chunk_list save_chunks hl_chunks].
  pose proof (len_firstn30 l) as Hf.
  destruct (addr >=? 65536) eqn:Ea.
  - destruct (chunk_inv_step _ _ _ Hi Hl Ea) as (Hi' & He & _).
    destruct (ext_line_emits _ He) as (s1 & Hs1 & Hv1 & Ht1).
    destruct (pack_H (Z.shiftr (ext + 65536) 16)) as [x| | |] eqn:Ep; cbn [bind] in Hs1; try discriminate.
    cbn [bind]. rewrite Hs1. cbn [bind].
    assert (Hv2 : valid_line (mkHexLine (addr - 65536) 0 (firstn 30 l))).
    { apply valid_data; [destruct Hi as (_ & _ & ? & _); lia | now apply all_byte_firstn | lia]. }
    destruct (line_roundtrip _ Hv2) as (s2 & Hs2 & _). rewrite Hs2. cbn [bind].
    destruct (IH (skipn 30 l) (ext + 65536) (addr - 65536 + len (firstn 30 l)) Hn (all_byte_skipn 30 l Hb) Hi')
      as (ls & Hls & Hes).
    rewrite Hls. cbn [bind]. eexists. split; [reflexivity|].
    constructor; [split; assumption|]. constructor; [split; assumption|]. exact Hes.
  - pose proof (chunk_inv_step2 _ _ _ Hi Ea) as Hi'.
    assert (Hv2 : valid_line (mkHexLine addr 0 (firstn 30 l))).
    { apply valid_data; [destruct Hi as (_ & _ & ? & _); lia | now apply all_byte_firstn | lia]. }
    destruct (line_roundtrip _ Hv2) as (s2 & Hs2 & _). rewrite Hs2. cbn [bind].
    destruct (IH (skipn 30 l) ext (addr + len (firstn 30 l)) Hn (all_byte_skipn 30 l Hb) Hi') as (ls & Hls & Hes).
    rewrite Hls. cbn [bind]. eexists. split; [reflexivity|].
    constructor; [split; assumption|]. exact Hes.
Qed.

Definition hl_region (r : region) : list HexLine :=
  let ext := Z.land (fst r) 4294901760 in
  hl4 (Z.shiftr ext 16) :: hl_chunks (chunk_list (nchunks (snd r)) (snd r)) ext (fst r - ext).

Lemma save_region_emits r : region_ok r ->
  exists ls, save_region r = Ok ls /\ emits (hl_region r) ls.
Proof.
  intros Hr. destruct (region_ext r Hr) as (Hi & He & _). destruct Hr as (H1 & H2 & H3 & H4).
  unfold save_region, hl_region. rewrite chunks_chunk_list.
  set (ext := Z.land (fst r) 4294901760) in *.
  destruct (ext_line_emits _ He) as (s1 & Hs1 & Hv1 & Ht1).
  destruct (pack_H (Z.shiftr ext 16)) as [x| | |] eqn:Ep; cbn [bind] in Hs1; try discriminate.
  cbn [bind]. rewrite Hs1. cbn [bind].
  destruct (save_chunks_emits (nchunks (snd r)) (snd r) ext (fst r - ext) eq_refl H4 Hi) as (ls & Hls & Hes).
  rewrite Hls. cbn [bind]. eexists. split; [reflexivity|]. constructor; [split; assumption | exact Hes].
Qed.

Fixpoint hl_regions (rs : list region) : list HexLine :=
  match rs with [] => [] | r :: t => hl_region r ++ hl_regions t end.

Lemma save_regions_emits rs : Forall region_ok rs ->
  exists ls, save_regions rs = Ok ls /\ emits (hl_regions rs) ls.
Proof.
  induction rs as [|r t IH]; intros H; [cbn; eexists; split; [reflexivity|constructor]|].
  inversion H as [|? ? Hr Ht]; subst. cbn [save_regions hl_regions].
  destruct (save_region_emits r Hr) as (l1 & Hl1 & He1). destruct (IH Ht) as (l2 & Hl2 & He2).
  rewrite Hl1, Hl2. cbn [bind]. eexists. split; [reflexivity|]. now apply emits_app.
Qed.

(* ---------------- running load over the emitted HexLines *)
Lemma step_hl4 e regs start ext : 0 <= e ->
  step (hl4 e) (mkst regs start false ext) = Ok (mkst regs start false (e * 65536)).
Proof.
  intros H. unfold step, hl4. cbn [st_eof typ data st_regs st_start st_ext].
  change (4 =? 0) with false. change (4 =? 4) with true. cbn iota.
  change (sliceZ [e / 256; e mod 256] 0 2) with [e / 256; e mod 256]. cbn [unpack_H bind].
  rewrite shiftl_mul by lia. change (2 ^ 16) with 65536. do 2 f_equal. lia.
Qed.

Lemma step_data a c regs start ext :
  step (mkHexLine a 0 c) (mkst regs start false ext) =
  regs' <- check (regs ++ [(a + ext, c)]) ;; Ok (mkst regs' start false ext).
Proof. reflexivity. Qed.

Lemma nchunks_O l : O = nchunks l -> l = [].
Proof.
  unfold nchunks, len. intros H. destruct l; [reflexivity|]. cbn [List.length] in H. lia.
Qed.

Lemma run_chunks n : forall l ext addr (done : list region) A p start,
  n = nchunks l -> chunk_inv ext addr l -> separated (done ++ [(A, p)]) -> A + len p = ext + addr ->
  exists ext', run (hl_chunks (chunk_list n l) ext addr) (mkst (done ++ [(A, p)]) start false ext)
               = Ok (mkst (done ++ [(A, p ++ l)]) start false ext').
Proof.
  induction n as [|n IH]; intros l ext addr done A p start Hn Hi Hs Ha.
  - rewrite (nchunks_O l Hn). cbn [chunk_list hl_chunks run]. rewrite app_nil_r. eauto.
  - pose proof (nchunks_pos _ _ Hn) as Hl. rewrite (nchunks_S _ Hl) in Hn. injection Hn as Hn.
    cbn [chunk_list hl_chunks].
    assert (Hcat : (p ++ firstn 30 l) ++ skipn 30 l = p ++ l) by (rewrite <- app_assoc, firstn_skipn; reflexivity).
    destruct (addr >=? 65536) eqn:Ea.
    + destruct (chunk_inv_step _ _ _ Hi Hl Ea) as (Hi' & He & He2).
      cbn [run]. rewrite step_hl4 by lia. cbn [bind]. rewrite step_data.
      replace (addr - 65536 + Z.shiftr (ext + 65536) 16 * 65536) with (A + len p) by lia.
      rewrite check_extend by assumption. cbn [bind]. rewrite He2.
      destruct (IH (skipn 30 l) (ext + 65536) (addr - 65536 + len (firstn 30 l)) done A (p ++ firstn 30 l) start
                   Hn Hi') as (e' & He').
      * eapply separated_last; eauto.
      * rewrite len_app. lia.
      * rewrite He', Hcat. eauto.
    + pose proof (chunk_inv_step2 _ _ _ Hi Ea) as Hi'.
      cbn [run]. rewrite step_data. replace (addr + ext) with (A + len p) by lia.
      rewrite check_extend by assumption. cbn [bind].
      destruct (IH (skipn 30 l) ext (addr + len (firstn 30 l)) done A (p ++ firstn 30 l) start Hn Hi') as (e' & He').
      * eapply separated_last; eauto.
      * rewrite len_app. lia.
      * rewrite He', Hcat. eauto.
Qed.

Lemma run_region (done : list region) r start ext0 : region_ok r -> separated (done ++ [r]) ->
  exists ext', run (hl_region r) (mkst done start false ext0) = Ok (mkst (done ++ [r]) start false ext').
Proof.
  intros Hr Hs. destruct (region_ext r Hr) as (Hi & He & He2). destruct r as [A d].
  destruct Hr as (H1 & H2 & H3 & H4). cbn [fst snd] in *.
  unfold hl_region. cbn [fst snd]. set (ext := Z.land A 4294901760) in *.
  cbn [run]. rewrite step_hl4 by lia. cbn [bind]. rewrite He2.
  destruct (nchunks d) as [|n] eqn:En; [pose proof (nchunks_O d (eq_sym En)); subst d; cbn in H2; lia|].
  symmetry in En. pose proof (nchunks_pos _ _ En) as Hl. pose proof En as En'.
  rewrite (nchunks_S _ Hl) in En'. injection En' as En'.
  cbn [chunk_list hl_chunks].
  assert (Ea : (A - ext >=? 65536) = false) by (destruct Hi as (_ & Hm & Hr & _); unfold ext in *; rewrite land_hi in * by lia; lia).
  rewrite Ea. cbn [run]. rewrite step_data. replace (A - ext + ext) with A by lia.
  rewrite check_append by (eapply separated_last; eauto). cbn [bind].
  pose proof (chunk_inv_step2 _ _ _ Hi Ea) as Hi'.
  destruct (run_chunks n (skipn 30 d) ext (A - ext + len (firstn 30 d)) done A (firstn 30 d) start En' Hi') as (e' & He').
  - eapply separated_last; eauto.
  - lia.
  - rewrite He', firstn_skipn. eauto.
Qed.

Lemma run_regions rs : Forall region_ok rs -> forall (done : list region) start ext0,
  separated (done ++ rs) ->
  exists ext', run (hl_regions rs) (mkst done start false ext0) = Ok (mkst (done ++ rs) start false ext').
Proof.
  induction rs as [|r t IH]; intros H done start ext0 Hs.
  - cbn [hl_regions run]. rewrite app_nil_r. eauto.
  - inversion H as [|? ? Hr Ht]; subst. cbn [hl_regions]. rewrite run_app.
    assert (Hs1 : separated (done ++ [r])).
    { apply (separated_app_l (done ++ [r]) t). rewrite <- app_assoc. exact Hs. }
    destruct (run_region done r start ext0 Hr Hs1) as (e1 & He1). rewrite He1. cbn [bind].
    destruct (IH Ht (done ++ [r]) start e1) as (e2 & He2); [rewrite <- app_assoc; exact Hs|].
    rewrite He2, <- app_assoc. eauto.
Qed.

(* ---------------- the theorem *)
Definition wf_hexfile (hf : HexFile) : Prop := hexfile_ok hf /\ canonical (regions hf).

Lemma canonical_separated l : canonical l -> separated l.
Proof.
  induction l as [|r tl IH]; intros H; [exact I|]. destruct H as (H1 & H2 & H3).
  split; [|now apply IH]. destruct tl as [|r2 t]; [exact I|]. unfold r_end. exact H2.
Qed.

Lemma load_save hf : wf_hexfile hf -> exists lines, save hf = Ok lines /\ load lines = Ok hf.
Proof.
  intros ((Hr & Hs) & Hc). destruct hf as [rs start]. cbn [regions start_address] in *.
  unfold save. cbn [regions start_address].
  destruct (save_regions_emits rs Hr) as (body & Hb & Heb). rewrite Hb. cbn [bind].
  assert (Hve : valid_line (mkHexLine 0 1 [])) by (repeat split; cbn; try lia; reflexivity).
  destruct (line_roundtrip _ Hve) as (le & Hle & _).
  destruct (run_regions rs Hr [] 0 0 (canonical_separated _ Hc)) as (e' & Hrun). cbn [app] in Hrun.
  assert (Hend : forall st0 e0, load_st [le] (mkst rs st0 false e0) = Ok (mkHexFile rs st0)).
  { intros st0 e0. rewrite (load_step _ _ _ _ Hve Hle). reflexivity. }
  unfold load. change (load_loop ?l [] 0 false 0) with (load_st l (mkst [] 0 false 0)).
  destruct (start =? 0) eqn:E0; cbn [negb bind].
  - rewrite Hle. cbn [bind app]. eexists. split; [reflexivity|].
    rewrite (load_emits _ _ Heb), Hrun. cbn [bind]. rewrite Hend. f_equal. f_equal. lia.
  - unfold pack_I. replace ((0 <=? start) && (start <? 4294967296)) with true by lia. cbn [bind].
    set (d5 := [start / 16777216; (start / 65536) mod 256; (start / 256) mod 256; start mod 256]).
    assert (Hv5 : valid_line (mkHexLine 0 5 d5)).
    { repeat split; cbn [address typ data]; try lia; try reflexivity.
      unfold d5. cbn [all_byte forallb]. unfold is_byte. lia. }
    destruct (line_roundtrip _ Hv5) as (l5 & Hl5 & _). rewrite Hl5. cbn [bind]. rewrite Hle. cbn [bind].
    eexists. split; [reflexivity|].
    rewrite (load_emits _ _ Heb), Hrun. cbn [bind app].
    rewrite (load_step _ _ _ _ Hv5 Hl5).
    assert (E5 : step (mkHexLine 0 5 d5) (mkst rs 0 false e') = Ok (mkst rs start false e')).
    { unfold step. cbn [st_eof typ data st_regs st_start st_ext].
      change (5 =? 0) with false. change (5 =? 4) with false. change (5 =? 1) with false. change (5 =? 5) with true.
      cbn iota. change (sliceZ d5 0 4) with d5. unfold d5. cbn [unpack_I bind]. do 2 f_equal. lia. }
    rewrite E5. cbn [bind]. apply Hend.
Qed.
