(* Proofs/C15_lexer.v — the lexer layer of the IR text format (property C15), unbounded:
   lex c (render l) = Ok (toks l) for every layout l whose tokens are well-formed spellings and whose
   token boundaries are separated as the regular expression of tokenize needs (Model.IrText.lay_ok).
   Maximal-munch argument: one step lemma per token class (identifier, integer via Coq DecimalString,
   FLOAT spellings via an extension lemma for lex_number, string, operator) + induction on the layout. *)
From PV Require Import Lib.Py Lib.Val Lib.Json Spec.IRSyntax Model.IrJson Model.IrText.
From Coq Require Import String Ascii List Lia ZArith DecimalString DecimalZ.
Import ListNotations.
Local Open Scope string_scope.
Local Open Scope list_scope.
(* ---- strings *)
Lemma app_nil_r_s (s : string) : (s ++ "")%string = s.
Proof. induction s; cbn; congruence. Qed.
Lemma app_assoc_s (a b c : string) : ((a ++ b) ++ c)%string = (a ++ b ++ c)%string.
Proof. induction a; cbn; congruence. Qed.
Lemma length_app_s (a b : string) : String.length (a ++ b) = (String.length a + String.length b)%nat.
Proof. induction a; cbn; congruence. Qed.
Lemma render_cons x r : render (x :: r) = (ltok_text x ++ render r)%string.
Proof. unfold render. cbn [map]. destruct r; cbn; [now rewrite app_nil_r_s|reflexivity]. Qed.

Definition head_fails (p : ascii -> bool) (s : string) : Prop :=
  match s with EmptyString => True | String ch _ => p ch = false end.
Lemma span_app p s rest a b : span p s = (a, b) -> head_fails p rest ->
  span p (s ++ rest) = (a, (b ++ rest)%string).
Proof.
  revert a b. induction s as [|ch s IH]; intros a b H Hr.
  - cbn in H. inversion H; subst. cbn. destruct rest as [|x r]; [reflexivity|]. cbn in *. now rewrite Hr.
  - cbn in *. destruct (p ch).
    + destruct (span p s) as [a' b'] eqn:E. inversion H; subst. now rewrite (IH a' b eq_refl Hr).
    + inversion H; subst. reflexivity.
Qed.
Lemma span_split p s a b : span p s = (a, b) -> s = (a ++ b)%string.
Proof.
  revert a b. induction s as [|ch s IH]; intros a b H; cbn in H.
  - inversion H; reflexivity.
  - destruct (p ch); [|inversion H; reflexivity].
    destruct (span p s) as [a' b'] eqn:E. inversion H; subst. cbn. f_equal. now apply IH.
Qed.
Lemma span_all p s : all_chars p s = true -> span p s = (s, "").
Proof. induction s as [|ch s IH]; cbn; [reflexivity|]. intros H. apply Bool.andb_true_iff in H. destruct H as [H1 H2]. now rewrite H1, IH. Qed.
Lemma span_all_inv p s a : span p s = (a, "") -> all_chars p s = true /\ a = s.
Proof.
  revert a. induction s as [|ch s IH]; intros a H; cbn in *.
  - inversion H; auto.
  - destruct (p ch) eqn:E; [|discriminate]. destruct (span p s) as [a' b'] eqn:E2. inversion H; subst.
    destruct (IH a' eq_refl). subst. auto.
Qed.

(* ---- characters: brute force over the 256 ascii codes *)
Lemma alpha_facts ch : is_alpha ch = true ->
  Ascii.eqb ch "-" = false /\ is_digit ch = false /\ Ascii.eqb ch "'" = false /\ is_idchar ch = true.
Proof. destruct ch as [[] [] [] [] [] [] [] []]; cbn; intros H; try discriminate; repeat split. Qed.
Lemma digit_facts ch : is_digit ch = true -> Ascii.eqb ch "-" = false /\ is_idchar ch = true /\ Ascii.eqb ch "i" = false.
Proof. destruct ch as [[] [] [] [] [] [] [] []]; cbn; intros H; try discriminate; repeat split. Qed.

Section L.
Variable c : tcfg.

(* one step of the lexer on a non-empty string *)
Lemma step_space f r : lex_fuel c (S f) (String " " r) = lex_fuel c f r.
Proof. reflexivity. Qed.
Lemma step_nl f r : lex_fuel c (S f) (nl ++ r) = lex_fuel c f r.
Proof. reflexivity. Qed.
Lemma step_spaces n : forall f r, (n <= f)%nat -> lex_fuel c f (spaces n ++ r) = lex_fuel c (f - n) r.
Proof.
  induction n as [|n IH]; intros f r Hf; cbn [spaces append].
  - now rewrite Nat.sub_0_r.
  - destruct f; [lia|]. rewrite step_space. rewrite IH by lia. reflexivity.
Qed.

Lemma sep_word_idchar rest : sep_word rest = true -> head_fails is_idchar rest.
Proof. destruct rest as [|ch r]; cbn; [auto|]. intros H. apply Bool.andb_true_iff in H. destruct H as [H _]. now destruct (is_idchar ch). Qed.

Lemma step_id f s rest : is_ident s = true -> sep_word rest = true ->
  lex_fuel c (S f) (s ++ rest) = (ts <- lex_fuel c f rest ;; Ok (TId s :: ts)).
Proof.
  intros Hs Hr. destruct s as [|ch tl]; [discriminate|]. cbn in Hs.
  apply Bool.andb_true_iff in Hs. destruct Hs as [Ha Ht].
  destruct (alpha_facts ch Ha) as (E1 & E2 & E3 & E4).
  destruct (span is_idchar tl) as [w b] eqn:Esp. destruct b; [|discriminate].
  destruct (span_all_inv _ _ _ Esp) as [Hall ->].
  assert (Hspan : span is_idchar (String ch tl ++ rest) = (String ch tl, rest)).
  { change (String ch tl ++ rest)%string with (String ch (tl ++ rest)). cbn [span]. rewrite E4.
    rewrite (span_app is_idchar tl rest tl "" Esp (sep_word_idchar _ Hr)). reflexivity. }
  change (String ch tl ++ rest)%string with (String ch (tl ++ rest)) in *.
  cbn [lex_fuel]. rewrite E1, E2, E3, Ha. rewrite Hspan. reflexivity.
Qed.
End L.

Section L2.
Variable c : tcfg.

Lemma step_str f s rest : all_chars str_char_ok s = true ->
  lex_fuel c (S f) (("'" ++ s ++ "'") ++ rest) = (ts <- lex_fuel c f rest ;; Ok (TStr s :: ts)).
Proof.
  intros Hs. rewrite app_assoc_s. change ("'" ++ (s ++ "'") ++ rest)%string with (String "'" ((s ++ "'") ++ rest)).
  rewrite app_assoc_s. change ("'" ++ rest)%string with (String "'" rest).
  cbn [lex_fuel]. change (Ascii.eqb "'" "-") with false. change (is_digit "'") with false.
  change (Ascii.eqb "'" "'") with true. cbv iota.
  change (fun x : ascii => negb (Ascii.eqb x "'") && negb (Ascii.eqb x newline_char)) with str_char_ok.
  rewrite (span_app str_char_ok s (String "'" rest) s "" (span_all _ _ Hs)) by reflexivity.
  reflexivity.
Qed.

Lemma nonid_facts ch : is_idchar ch = false -> is_digit ch = false /\ Ascii.eqb "i" ch = false.
Proof. destruct ch as [[] [] [] [] [] [] [] []]; cbn; intros H; try discriminate; repeat split. Qed.

Lemma step_minus f rest : sep_op "-" rest = true ->
  lex_fuel c (S f) (String "-" rest) = (ts <- lex_fuel c f rest ;; Ok (TOp "-" :: ts)).
Proof.
  intros Hr.
  assert (H1 : strip_prefix "inf" rest = None).
  { destruct rest as [|x r]; [reflexivity|]. cbn in Hr. apply Bool.negb_true_iff in Hr.
    destruct (nonid_facts x Hr) as [_ E]. cbn [strip_prefix]. now rewrite E. }
  assert (H2 : lex_number c "-" rest = None).
  { unfold lex_number. destruct rest as [|x r]; [reflexivity|]. cbn in Hr. apply Bool.negb_true_iff in Hr.
    destruct (nonid_facts x Hr) as [E _]. cbn [span]. now rewrite E. }
  cbn [lex_fuel]. change (Ascii.eqb "-" "-") with true. cbv iota. rewrite H1, H2.
  destruct (fx_float c); reflexivity.
Qed.

Local Arguments Ascii.eqb : simpl nomatch.
Lemma step_op f s rest : mem_str s (op_names c) = true -> sep_op s rest = true ->
  lex_fuel c (S f) (s ++ rest) = (ts <- lex_fuel c f rest ;; Ok (TOp s :: ts)).
Proof.
  intros Hs Hr. unfold op_names in Hs.
  destruct (fx_ops c) eqn:Eo; cbn in Hs;
  repeat (apply Bool.orb_true_iff in Hs; destruct Hs as [Hs|Hs]); try discriminate;
  apply String.eqb_eq in Hs; subst s; cbn [append];
  try (apply step_minus; assumption);
  try (cbn [lex_fuel]; cbn; rewrite ?Eo; reflexivity).
  all: destruct rest as [|x r]; cbn in Hr; cbn [lex_fuel]; cbn; rewrite ?Eo; cbn; try reflexivity.
  all: try (apply Bool.negb_true_iff in Hr; repeat (apply Bool.orb_false_iff in Hr; destruct Hr as [Hr ?]);
            repeat match goal with H : Ascii.eqb _ _ = false |- _ => rewrite H; clear H end; cbn; reflexivity).
Qed.
End L2.

(* ---- decimal numbers *)
Open Scope Z_scope.
Lemma dv_acc u : forall acc, digits_val (Zpos acc) (NilEmpty.string_of_uint u) = Zpos (Pos.of_uint_acc u acc).
Proof.
  induction u; intros acc; cbn [NilEmpty.string_of_uint digits_val Pos.of_uint_acc]; try reflexivity;
    rewrite <- IHu; f_equal;
    match goal with |- context [digit_val ?ch] => let v := eval vm_compute in (digit_val ch) in change (digit_val ch) with v end; lia.
Qed.
Lemma dv_uint u : digits_val 0 (NilEmpty.string_of_uint u) = Z.of_N (Pos.of_uint u).
Proof.
  induction u; cbn [NilEmpty.string_of_uint digits_val Pos.of_uint]; try reflexivity;
    try (change (10 * 0 + digit_val _) with 0; exact IHu);
    match goal with |- digits_val ?a _ = _ => let v := eval cbv in a in change a with v end;
    rewrite dv_acc; reflexivity.
Qed.
Lemma digits_all u : all_chars is_digit (NilEmpty.string_of_uint u) = true.
Proof. induction u; cbn; auto. Qed.
Lemma nz_uint u : let s := NilZero.string_of_uint u in
  all_chars is_digit s = true /\ s <> EmptyString /\ digits_val 0 s = Z.of_uint u.
Proof.
  destruct u; cbn zeta; unfold NilZero.string_of_uint; repeat split;
    try apply digits_all; try (cbn; discriminate); try reflexivity; unfold Z.of_uint; rewrite <- dv_uint; reflexivity.
Qed.

Lemma nonid_facts2 ch : is_idchar ch = false -> Ascii.eqb ch "e" = false /\ is_digit ch = false.
Proof. destruct ch as [[] [] [] [] [] [] [] []]; cbn; intros H; try discriminate; repeat split. Qed.
Lemma sep_word_digit rest : sep_word rest = true -> head_fails is_digit rest.
Proof.
  destruct rest as [|ch r]; cbn; [auto|]. intros H. apply Bool.andb_true_iff in H. destruct H as [H _].
  apply Bool.negb_true_iff in H. now destruct (nonid_facts2 ch H).
Qed.
Lemma lex_exponent_sep rest : sep_word rest = true -> lex_exponent rest = None.
Proof.
  destruct rest as [|ch r]; [reflexivity|]. cbn [sep_word]. intros H. apply Bool.andb_true_iff in H. destruct H as [H _].
  apply Bool.negb_true_iff in H. destruct (nonid_facts2 ch H) as [E _]. unfold lex_exponent. destruct r; [reflexivity|].
  now rewrite E.
Qed.
Lemma lex_exponent_app r e r3 rest : lex_exponent r = Some (e, r3) -> head_fails is_digit rest ->
  lex_exponent (r ++ rest) = Some (e, (r3 ++ rest)%string).
Proof.
  intros H Hr. destruct r as [|a [|b r']]; try discriminate. cbn [append]. unfold lex_exponent in *.
  destruct (Ascii.eqb a "e" && (Ascii.eqb b "+" || Ascii.eqb b "-"))%bool; [|discriminate].
  destruct (span is_digit r') as [d r2] eqn:E. rewrite (span_app _ _ rest d r2 E Hr).
  destruct d; [discriminate|]. inversion H; subst. reflexivity.
Qed.

Section L3.
Variable c : tcfg.
Lemma with_exp_app sg m r2 tk t rest : with_exp c sg m r2 (tk, r2) = (t, EmptyString) -> sep_word rest = true ->
  with_exp c sg m (r2 ++ rest) (tk, (r2 ++ rest)%string) = (t, rest).
Proof.
  intros H Hr. unfold with_exp in *. destruct (fx_float c).
  - destruct (lex_exponent r2) as [[e r3]|] eqn:Ee.
    + inversion H; subst. rewrite (lex_exponent_app _ _ _ rest Ee (sep_word_digit _ Hr)). reflexivity.
    + inversion H; subst. cbn [append]. now rewrite lex_exponent_sep.
  - inversion H; subst. reflexivity.
Qed.
Lemma lex_number_app sg s t rest : lex_number c sg s = Some (t, EmptyString) -> sep_word rest = true ->
  lex_number c sg (s ++ rest) = Some (t, rest).
Proof.
  intros H Hr. unfold lex_number in *. destruct (span is_digit s) as [d r] eqn:E.
  rewrite (span_app _ _ rest d r E (sep_word_digit _ Hr)). destruct d as [|d0 d']; [discriminate|].
  destruct r as [|dot r1].
  - cbn [append]. destruct rest as [|x rr]; [exact H|]. inversion H as [H1].
    assert (Hw := with_exp_app sg (String d0 d') "" _ t (String x rr) H1 Hr). cbn [append] in Hw.
    assert (Ex : Ascii.eqb x "." = false).
    { cbn in Hr. apply Bool.andb_true_iff in Hr. destruct Hr as [_ Hr]. now apply Bool.negb_true_iff in Hr. }
    rewrite Ex. f_equal. exact Hw.
  - cbn [append]. destruct (Ascii.eqb dot ".") eqn:Ed.
    + destruct (span is_digit r1) as [d2 r2] eqn:E2.
      rewrite (span_app _ _ rest d2 r2 E2 (sep_word_digit _ Hr)). destruct d2 as [|x2 d2'].
      * inversion H as [H1].
        assert (Hw := with_exp_app sg (String d0 d') (String dot r1) _ t rest H1 Hr). cbn [append] in Hw. f_equal. exact Hw.
      * inversion H as [H1]. f_equal. now apply with_exp_app.
    + inversion H as [H1].
      assert (Hw := with_exp_app sg (String d0 d') (String dot r1) _ t rest H1 Hr). cbn [append] in Hw. f_equal. exact Hw.
Qed.

Lemma lex_number_digit sg s t : lex_number c sg s = Some t -> exists ch tl, s = String ch tl /\ is_digit ch = true.
Proof.
  unfold lex_number. destruct s as [|ch tl]; [cbn; discriminate|]. cbn [span]. destruct (is_digit ch) eqn:E; [eauto|discriminate].
Qed.

Lemma step_num_pos f s t rest : lex_number c "" s = Some (t, EmptyString) -> sep_word rest = true ->
  lex_fuel c (S f) (s ++ rest) = (ts <- lex_fuel c f rest ;; Ok (t :: ts)).
Proof.
  intros H Hr. destruct (lex_number_digit _ _ _ H) as (ch & tl & -> & Hd).
  destruct (digit_facts ch Hd) as (E1 & _).
  pose proof (lex_number_app "" _ t rest H Hr) as Hn.
  change (String ch tl ++ rest)%string with (String ch (tl ++ rest)) in *.
  cbn [lex_fuel]. rewrite E1, Hd. rewrite Hn. reflexivity.
Qed.
Lemma step_num_neg f s t rest : lex_number c "-" s = Some (t, EmptyString) -> sep_word rest = true ->
  lex_fuel c (S f) (String "-" (s ++ rest)) = (ts <- lex_fuel c f rest ;; Ok (t :: ts)).
Proof.
  intros H Hr. destruct (lex_number_digit _ _ _ H) as (ch & tl & -> & Hd).
  destruct (digit_facts ch Hd) as (_ & _ & E3).
  pose proof (lex_number_app "-" _ t rest H Hr) as Hn.
  change (String ch tl ++ rest)%string with (String ch (tl ++ rest)) in *.
  cbn [lex_fuel]. change (Ascii.eqb "-" "-") with true. cbv iota.
  assert (Hs : strip_prefix "inf" (String ch (tl ++ rest)) = None).
  { cbn [strip_prefix]. rewrite Ascii.eqb_sym. now rewrite E3. }
  rewrite Hs, Hn. destruct (fx_float c); reflexivity.
Qed.
Lemma step_neginf f rest : fx_float c = true -> sep_word rest = true ->
  lex_fuel c (S f) ("-inf" ++ rest) = (ts <- lex_fuel c f rest ;; Ok (TFloat "-inf" :: ts)).
Proof.
  intros Hc Hr. change ("-inf" ++ rest)%string with (String "-" ("inf" ++ rest)).
  cbn [lex_fuel]. change (Ascii.eqb "-" "-") with true. cbv iota. rewrite Hc.
  change (strip_prefix "inf" ("inf" ++ rest)) with (Some rest).
  assert (Hi : starts_idchar rest = false).
  { destruct rest as [|x r]; [reflexivity|]. cbn in *. apply Bool.andb_true_iff in Hr. destruct Hr as [Hr _]. now apply Bool.negb_true_iff in Hr. }
  cbv beta iota. rewrite Hi. reflexivity.
Qed.

Lemma lex_number_digits sg d : all_chars is_digit d = true -> d <> EmptyString ->
  lex_number c sg d = Some (TInt (if String.eqb sg "-" then - digits_val 0 d else digits_val 0 d), EmptyString).
Proof.
  intros Ha Hn. unfold lex_number. rewrite (span_all _ _ Ha). destruct d; [congruence|].
  unfold with_exp. destruct (fx_float c); reflexivity.
Qed.

Lemma step_int f z rest : sep_word rest = true ->
  lex_fuel c (S f) (dec_of_Z z ++ rest) = (ts <- lex_fuel c f rest ;; Ok (TInt z :: ts)).
Proof.
  intros Hr. unfold dec_of_Z. pose proof (Coq.Numbers.DecimalZ.of_to z) as Hz.
  destruct (Z.to_int z) as [u|u]; cbn [NilZero.string_of_int]; destruct (nz_uint u) as (Ha & Hn & Hv); cbn zeta in *.
  - apply step_num_pos; [|assumption]. rewrite (lex_number_digits "" _ Ha Hn). cbn [String.eqb].
    rewrite Hv. cbn in Hz. now rewrite Hz.
  - change (String "-" (NilZero.string_of_uint u) ++ rest)%string with (String "-" (NilZero.string_of_uint u ++ rest)).
    apply step_num_neg; [|assumption]. rewrite (lex_number_digits "-" _ Ha Hn).
    change (String.eqb "-" "-") with true. cbv iota. rewrite Hv. cbn in Hz. now rewrite Hz.
Qed.
End L3.

Section L4.
Variable c : tcfg.
Lemma step_float f s rest : float_ok c s = true -> sep_word rest = true ->
  lex_fuel c (S f) (s ++ rest) = (ts <- lex_fuel c f rest ;; Ok (TFloat s :: ts)).
Proof.
  intros Hs Hr. destruct s as [|ch r]; [discriminate|]. cbn [float_ok] in Hs.
  destruct (Ascii.eqb ch "-") eqn:E.
  - apply Ascii.eqb_eq in E. subst ch. apply Bool.orb_true_iff in Hs. destruct Hs as [Hs|Hs].
    + apply Bool.andb_true_iff in Hs. destruct Hs as [Hc Hi]. apply String.eqb_eq in Hi. subst r.
      now apply step_neginf.
    + unfold num_ok in Hs. destruct (lex_number c "-" r) as [[[x|x|x|x|x] [|? ?]]|] eqn:En; try discriminate.
      apply String.eqb_eq in Hs. subst x. change (String "-" r ++ rest)%string with (String "-" (r ++ rest)).
      now apply (step_num_neg c f r (TFloat ("-" ++ r)) rest).
  - unfold num_ok in Hs. destruct (lex_number c "" (String ch r)) as [[[x|x|x|x|x] [|? ?]]|] eqn:En; try discriminate.
    apply String.eqb_eq in Hs. subst x. now apply (step_num_pos c f (String ch r) (TFloat ("" ++ String ch r)) rest).
Qed.

Lemma step_token f t rest : tok_ok c t = true -> sep_ok t rest = true ->
  lex_fuel c (S f) (token_text t ++ rest) = (ts <- lex_fuel c f rest ;; Ok (t :: ts)).
Proof.
  destruct t; cbn [tok_ok sep_ok token_text]; intros Ht Hr.
  - now apply step_id.
  - now apply step_int.
  - now apply step_float.
  - now apply step_str.
  - now apply step_op.
Qed.
Lemma token_nonempty t : tok_ok c t = true -> (1 <= String.length (token_text t))%nat.
Proof.
  destruct t; cbn [tok_ok token_text]; intros H.
  - destruct s; [discriminate|cbn; lia].
  - unfold dec_of_Z. destruct (Z.to_int z) as [u|u]; cbn [NilZero.string_of_int]; [|cbn; lia].
    destruct (nz_uint u) as (_ & Hn & _). cbn zeta in Hn. destruct (NilZero.string_of_uint u); [congruence|cbn; lia].
  - destruct txt; [discriminate|cbn; lia].
  - cbn; lia.
  - destruct s; [|cbn; lia]. unfold op_names in H. destruct (fx_ops c); discriminate.
Qed.
Lemma length_spaces n : String.length (spaces n) = n.
Proof. induction n; cbn; congruence. Qed.

Theorem lex_render_fuel l : lay_ok c l = true -> forall fuel, (String.length (render l) < fuel)%nat ->
  lex_fuel c fuel (render l) = Ok (toks l).
Proof.
  induction l as [|x r IH]; intros Hl fuel Hf.
  - destruct fuel; [lia|]. reflexivity.
  - cbn [lay_ok] in Hl. apply Bool.andb_true_iff in Hl. destruct Hl as [Hx Hl].
    rewrite render_cons in *. rewrite length_app_s in Hf.
    destruct x as [t| |n|]; cbn [ltok_text] in *.
    + apply Bool.andb_true_iff in Hx. destruct Hx as [Ht Hs].
      pose proof (token_nonempty t Ht). destruct fuel; [lia|].
      rewrite (step_token fuel t (render r) Ht Hs). rewrite (IH Hl) by lia. reflexivity.
    + destruct fuel; [lia|]. change (" " ++ render r)%string with (String " " (render r)).
      rewrite step_space. cbn in Hf. apply (IH Hl). lia.
    + rewrite length_spaces in Hf. rewrite step_spaces by lia. apply (IH Hl). lia.
    + destruct fuel; [lia|]. rewrite step_nl. cbn in Hf. apply (IH Hl). lia.
Qed.
Theorem lex_render l : lay_ok c l = true -> lex c (render l) = Ok (toks l).
Proof. intros H. unfold lex. apply lex_render_fuel; [assumption|lia]. Qed.
End L4.
