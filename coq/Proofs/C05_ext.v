From PV Require Import Lib.Py Lib.Tac Spec.IRSyntax Spec.IRSem Spec.RV32Decode Spec.RV32Exec Model.RvRules
  Proofs.C07_exec Proofs.C05_arith Proofs.C05_rules Proofs.C05_mem.
From Coq Require Import String.
Open Scope Z_scope.
Open Scope list_scope.

Definition ext_op (sg : bool) : iop := if sg then ISRAI else ISRLI.
Definition ext_val (bits : Z) (sg : bool) (a : Z) : Z := alu_i (ext_op sg) (alu_i ISLLI a (32 - bits)) (32 - bits).

Lemma ext_correct bits sg a : (bits = 8 \/ bits = 16) -> 0 <= a < 4294967296 ->
  0 <= ext_val bits sg a < 4294967296 /\ wrap_bits 32 sg (ext_val bits sg a) = wrap_bits bits sg a.
Proof.
  intros Hb Ha. unfold ext_val, ext_op.
  destruct Hb as [-> | ->]; destruct sg; cbn [alu_i]; unfold u32, s32, wrap_bits, W32; cbn [andb];
    change ((32 - 8) mod 32) with 24; change ((32 - 16) mod 32) with 16;
    change (2 ^ 24) with 16777216; change (2 ^ 16) with 65536; change (2 ^ 32) with 4294967296;
    change (2 ^ (32 - 1)) with 2147483648; change (2 ^ 8) with 256; change (2 ^ (8 - 1)) with 128;
    change (2 ^ (16 - 1)) with 32768.
  - repeat match goal with |- context [if ?c then _ else _] => destruct c eqn:? end; lia.
  - repeat match goal with |- context [if ?c then _ else _] => destruct c eqn:? end; lia.
  - repeat match goal with |- context [if ?c then _ else _] => destruct c eqn:? end; lia.
  - repeat match goal with |- context [if ?c then _ else _] => destruct c eqn:? end; lia.
Qed.

(* ------------------------------------------------------------------ 32-bit branch vs IR comparison *)
Lemma branch32_correct c sg bc sw x y :
  bc = fst (cj_expect c sg) ->
  Bool.eqb sw (snd (cj_expect c sg)) || (match c with Ceq | Cne => true | _ => false end) = true ->
  0 <= x < 4294967296 -> 0 <= y < 4294967296 ->
  branch_taken bc (if sw then y else x) (if sw then x else y) = eval_cond c (wrap_bits 32 sg x) (wrap_bits 32 sg y).
Proof.
  intros -> Hsw Rx Ry. rewrite (wrap32_cases sg x Rx), (wrap32_cases sg y Ry).
  destruct sw; destruct c, sg; cbn [cj_expect fst snd Bool.eqb orb] in *; try discriminate;
    cbn [branch_taken eval_cond]; rewrite ?(s32_small x Rx), ?(s32_small y Ry), ?Z.gtb_ltb, ?Z.geb_leb;
    repeat match goal with
    | |- context [?p <? ?q] => destruct (Z.ltb_spec p q)
    | |- context [?p <=? ?q] => destruct (Z.leb_spec p q)
    | |- context [?p =? ?q] => destruct (Z.eqb_spec p q)
    end; cbn [negb]; try reflexivity; lia.
Qed.

(* ------------------------------------------------------------------ sub-word conditional jumps with extension *)
Definition shift_mn (sg : bool) : string := if sg then "srai"%string else "srli"%string.

Definition cj_ext_body (r : rule) (k : Z) (sg : bool) : option string :=
  match r_body r with
  | [(m1, o1); (m2, o2); (m3, o3); (m4, o4); (bmn, o5); (jmn, o6)] =>
      if String.eqb m1 "slli" && sopnds_eqb o1 [SFresh 0; SChild 0; SLit k] &&
         String.eqb m2 (shift_mn sg) && sopnds_eqb o2 [SFresh 0; SFresh 0; SLit k] &&
         String.eqb m3 "slli" && sopnds_eqb o3 [SFresh 1; SChild 1; SLit k] &&
         String.eqb m4 (shift_mn sg) && sopnds_eqb o4 [SFresh 1; SFresh 1; SLit k] &&
         sopnds_eqb o5 [SFresh 0; SFresh 1; SOther "label:yes"] &&
         String.eqb jmn "j" && sopnds_eqb o6 [SOther "label:no"]
      then Some bmn else None
  | _ => None
  end.

Definition check_cjmp_ext (r : rule) : bool :=
  match tree_sem2 (r_tree r) with
  | Some (MCjmp t c) =>
      match shape t with
      | Some (bits, sg) =>
          ((bits =? 8) || (bits =? 16)) &&
          match cj_ext_body r (32 - bits) sg with
          | Some bmn =>
              match assoc_br branches bmn with
              | Some (bc, sw) =>
                  bcond_eqb bc (fst (cj_expect c sg)) &&
                  (Bool.eqb sw (snd (cj_expect c sg)) || (match c with Ceq | Cne => true | _ => false end))
              | None => false
              end
          | None => false
          end
      | None => false
      end
  | _ => false
  end.

Definition ext_seq (sg : bool) (k d0 c0 d1 c1 : Z) : list rvinstr :=
  [ROpImm ISLLI d0 c0 k; ROpImm (ext_op sg) d0 d0 k; ROpImm ISLLI d1 c1 k; ROpImm (ext_op sg) d1 d1 k].

Definition cjmp_ext_correct (r : rule) : Prop :=
  forall t c bits sg,
  tree_sem2 (r_tree r) = Some (MCjmp t c) -> shape t = Some (bits, sg) ->
  exists bmn bc sw, cj_ext_body r (32 - bits) sg = Some bmn /\ assoc_br branches bmn = Some (bc, sw) /\
    forall s c0 c1 d0 d1, d0 <> 0 -> d1 <> 0 -> d0 <> d1 -> d0 <> c1 ->
      let s' := exec_seq (ext_seq sg (32 - bits) d0 c0 d1 c1) s in
      branch_taken bc (getreg s' (if sw then d1 else d0)) (getreg s' (if sw then d0 else d1)) =
        eval_cond c (val bits sg (getreg s c0)) (val bits sg (getreg s c1)) /\
      (forall x, x <> d0 -> x <> d1 -> getreg s' x = getreg s x) /\
      (forall a, loadbyte s' a = loadbyte s a).

Lemma ext_pair sg k d a s : d <> 0 ->
  let s' := exec_seq [ROpImm ISLLI d a k; ROpImm (ext_op sg) d d k] s in
  getreg s' d = u32 (alu_i (ext_op sg) (u32 (alu_i ISLLI (getreg s a) k)) k) /\
  (forall x, x <> d -> getreg s' x = getreg s x) /\ (forall m, loadbyte s' m = loadbyte s m).
Proof.
  intros Hd. cbn [exec_seq].
  destruct (exec_ropimm ISLLI d a k s Hd) as (V1 & F1 & M1).
  destruct (exec_ropimm (ext_op sg) d d k (exec (ROpImm ISLLI d a k) s) Hd) as (V2 & F2 & M2).
  split; [|split].
  - rewrite V2, V1. reflexivity.
  - intros x Hx. now rewrite F2, F1.
  - intros m. now rewrite M2, M1.
Qed.

Lemma u32_alu_slli a k : u32 (alu_i ISLLI a k) = alu_i ISLLI a k.
Proof. cbn [alu_i]. apply u32_idem. Qed.

Lemma ext_reg bits sg a : (bits = 8 \/ bits = 16) -> 0 <= a < 4294967296 ->
  let e := u32 (alu_i (ext_op sg) (u32 (alu_i ISLLI a (32 - bits))) (32 - bits)) in
  0 <= e < 4294967296 /\ wrap_bits 32 sg e = wrap_bits bits sg a.
Proof.
  intros Hb Ha. cbv zeta. rewrite u32_alu_slli. destruct (ext_correct bits sg a Hb Ha) as (R & E).
  unfold ext_val in *.
  assert (X : u32 (alu_i (ext_op sg) (alu_i ISLLI a (32 - bits)) (32 - bits)) = alu_i (ext_op sg) (alu_i ISLLI a (32 - bits)) (32 - bits))
    by (unfold u32, W32; apply Z.mod_small; exact R).
  rewrite X. split; assumption.
Qed.

Theorem check_cjmp_ext_sound r : check_cjmp_ext r = true -> cjmp_ext_correct r.
Proof.
  unfold check_cjmp_ext. intros Hck t c bits sg Hsem Hshape. rewrite Hsem, Hshape in Hck.
  apply andb_prop in Hck. destruct Hck as [Hb Hck].
  assert (Hbits : bits = 8 \/ bits = 16) by (apply orb_prop in Hb; destruct Hb as [H|H]; apply Z.eqb_eq in H; auto).
  destruct (cj_ext_body r (32 - bits) sg) as [bmn|]; [|discriminate].
  destruct (assoc_br branches bmn) as [[bc sw]|] eqn:Hbr; [|discriminate].
  apply andb_prop in Hck. destruct Hck as [Hbc Hsw]. apply bcond_eqb_eq in Hbc.
  exists bmn, bc, sw. split; [reflexivity|]. split; [exact Hbr|].
  intros s c0 c1 d0 d1 H0 H1 H01 H0c1. unfold ext_seq.
  change [ROpImm ISLLI d0 c0 (32 - bits); ROpImm (ext_op sg) d0 d0 (32 - bits);
          ROpImm ISLLI d1 c1 (32 - bits); ROpImm (ext_op sg) d1 d1 (32 - bits)]
    with ([ROpImm ISLLI d0 c0 (32 - bits); ROpImm (ext_op sg) d0 d0 (32 - bits)] ++
          [ROpImm ISLLI d1 c1 (32 - bits); ROpImm (ext_op sg) d1 d1 (32 - bits)]).
  assert (Happ : forall l1 l2 st, exec_seq (l1 ++ l2) st = exec_seq l2 (exec_seq l1 st))
    by (induction l1; intros; cbn; auto).
  rewrite Happ. cbv zeta.
  destruct (ext_pair sg (32 - bits) d0 c0 s H0) as (V0 & F0 & M0).
  set (sa := exec_seq [ROpImm ISLLI d0 c0 (32 - bits); ROpImm (ext_op sg) d0 d0 (32 - bits)] s) in *.
  destruct (ext_pair sg (32 - bits) d1 c1 sa H1) as (V1 & F1 & M1).
  set (sb := exec_seq [ROpImm ISLLI d1 c1 (32 - bits); ROpImm (ext_op sg) d1 d1 (32 - bits)] sa) in *.
  assert (Gc1 : getreg sa c1 = getreg s c1) by (apply F0; congruence).
  assert (G0 : getreg sb d0 = getreg sa d0) by (apply F1; congruence).
  pose proof (getreg_range s c0) as R0. pose proof (getreg_range s c1) as R1.
  change (2 ^ 32) with 4294967296 in R0, R1.
  destruct (ext_reg bits sg (getreg s c0) Hbits R0) as (Re0 & Ee0).
  destruct (ext_reg bits sg (getreg s c1) Hbits R1) as (Re1 & Ee1).
  split; [|split].
  - unfold val. rewrite <- Ee0, <- Ee1.
    assert (X0 : getreg sb d0 = u32 (alu_i (ext_op sg) (u32 (alu_i ISLLI (getreg s c0) (32 - bits))) (32 - bits)))
      by (rewrite G0; exact V0).
    assert (X1 : getreg sb d1 = u32 (alu_i (ext_op sg) (u32 (alu_i ISLLI (getreg s c1) (32 - bits))) (32 - bits)))
      by (rewrite V1, Gc1; reflexivity).
    destruct sw; rewrite X0, X1; now apply (branch32_correct c sg bc _ _ _ Hbc Hsw).
  - intros x Hx0 Hx1. rewrite F1, F0 by assumption. reflexivity.
  - intros a. now rewrite M1, M0.
Qed.

(* ------------------------------------------------------------------ unary value rules: casts, neg, inv, REG *)
Inductive usem := UCast (from to : ty) | UNeg (t : ty) | UInv (t : ty) | UReg.

Definition tree_sem3 (t : tree) : option usem :=
  match t with
  | TOp op tyn frm [] => if String.eqb op "REG" then Some UReg else None
  | TOp op tyn frm [a] =>
      if is_nt a "reg" then
        match ty_of tyn with
        | Some ty =>
            if String.eqb op "CAST" then match ty_of frm with Some f => Some (UCast f ty) | None => None end
            else if String.eqb op "NEG" then Some (UNeg ty)
            else if String.eqb op "INV" then Some (UInv ty)
            else None
        | None => None
        end
      else None
  | _ => None
  end.

Definition ures_shape (u : usem) : option (Z * bool) :=
  match u with UCast _ t | UNeg t | UInv t => shape t | UReg => None end.
Definition usrc_shape (u : usem) : option (Z * bool) :=
  match u with UCast f _ => shape f | UNeg t | UInv t => shape t | UReg => None end.

(* IR value of the tree on the operand's represented value *)
Definition uvalue (u : usem) (a : Z) : option (outcome Z) :=
  match u with
  | UCast f t => match shape f, shape t with
                 | Some (fb, fs), Some (tb, ts) => Some (ODone (wrap_bits tb ts (val fb fs a)))
                 | _, _ => None
                 end
  | UNeg t => match shape t with Some (b, sg) => Some (eval_unop rv_cfg t Neg (val b sg a)) | None => None end
  | UInv t => match shape t with Some (b, sg) => Some (eval_unop rv_cfg t Inv (val b sg a)) | None => None end
  | UReg => None
  end.

Definition body_is (r : rule) (b : list (string * list sopnd)) : bool :=
  (fix go (x y : list (string * list sopnd)) : bool :=
     match x, y with
     | [], [] => true
     | (m, o) :: x', (m', o') :: y' => String.eqb m m' && sopnds_eqb o o' && go x' y'
     | _, _ => false
     end) (r_body r) b.

Lemma body_is_eq r b : body_is r b = true -> r_body r = b.
Proof.
  unfold body_is. generalize (r_body r). intros x. revert b.
  induction x as [|[m o] x IH]; intros [|[m' o'] b] H; try discriminate; [reflexivity|].
  apply andb_prop in H. destruct H as [H H3]. apply andb_prop in H. destruct H as [H1 H2].
  apply String.eqb_eq in H1. apply sopnds_eqb_eq in H2. subst. f_equal. now apply IH.
Qed.

Definition res_is (r : rule) (o : list sopnd) : bool := sopnds_eqb (r_result r) o.

Definition check_unary (r : rule) : bool :=
  match tree_sem3 (r_tree r) with
  | Some UReg => body_is r [] && res_is r [SValue]
  | Some (UCast f t) =>
      match shape f, shape t with
      | Some (fb, fs), Some (tb, ts) =>
          (* truncation / same width: no code, same register *)
          ((tb <=? fb) && body_is r [] && res_is r [SChild 0]) ||
          (* extension of an 8/16-bit source into a fresh register according to the SOURCE signedness *)
          (((fb =? 8) || (fb =? 16)) &&
           body_is r [("slli"%string, [SFresh 0; SChild 0; SLit (32 - fb)]);
                      (shift_mn fs, [SFresh 0; SFresh 0; SLit (32 - fb)])] && res_is r [SFresh 0])
      | _, _ => false
      end
  | Some (UNeg t) =>
      match shape t with
      | Some _ => body_is r [("sub"%string, [SFresh 0; SPhys 0; SChild 0])] && res_is r [SFresh 0]
      | None => false
      end
  | Some (UInv t) =>
      match shape t with
      | Some _ => body_is r [("xori"%string, [SFresh 0; SChild 0; SLit (-1)])] && res_is r [SFresh 0]
      | None => false
      end
  | None => false
  end.

Definition unary_correct (r : rule) : Prop :=
  forall u e s il,
  tree_sem3 (r_tree r) = Some u -> env_ok e -> instantiate r e = Some il ->
  match u with
  | UReg => il = [] /\ r_result r = [SValue]
  | _ =>
    forall c0 bits sg v, nth_error (e_child e) 0 = Some c0 -> ures_shape u = Some (bits, sg) ->
    uvalue u (getreg s c0) = Some (ODone v) ->
    exists rd, opnds_val e (r_result r) = Some [rd] /\
      rep bits (getreg (exec_seq il s) rd) v /\
      (forall x, ~ In x (e_fresh e) -> getreg (exec_seq il s) x = getreg s x) /\
      (forall a, loadbyte (exec_seq il s) a = loadbyte s a)
  end.

Lemma trunc_rep fb fs tb ts a : (fb = 8 \/ fb = 16 \/ fb = 32) -> (tb = 8 \/ tb = 16 \/ tb = 32) -> tb <= fb ->
  rep tb a (wrap_bits tb ts (wrap_bits fb fs a)).
Proof.
  intros Hf Ht Hle. unfold rep. rewrite wrap_bits_mod by lia.
  unfold wrap_bits. destruct (fs && (2 ^ (fb - 1) <=? a mod 2 ^ fb));
    destruct Hf as [-> | [-> | ->]]; destruct Ht as [-> | [-> | ->]]; try lia;
    change (2 ^ 8) with 256; change (2 ^ 16) with 65536; change (2 ^ 32) with 4294967296; lia.
Qed.

Lemma unop_neg_sub t a : eval_unop rv_cfg t Neg a = eval_binop rv_cfg t Sub 0 a.
Proof. unfold eval_unop, eval_binop. destruct (int_shape rv_cfg t) as [[b sg]|]; [|reflexivity]. reflexivity. Qed.

Lemma unop_inv_xor t a : eval_unop rv_cfg t Inv a = eval_binop rv_cfg t Xor a (-1).
Proof.
  unfold eval_unop, eval_binop. destruct (int_shape rv_cfg t) as [[b sg]|]; [|reflexivity].
  f_equal. f_equal. rewrite Z.lxor_m1_r. unfold Z.lnot. lia.
Qed.

Lemma wrap_bits_0 bits sg : (bits = 8 \/ bits = 16 \/ bits = 32) -> wrap_bits bits sg 0 = 0.
Proof. intros [-> | [-> | ->]]; destruct sg; reflexivity. Qed.

Lemma rep_of_wrap32 tb fs e x : 0 <= tb <= 32 -> wrap_bits 32 fs e = x -> rep tb e x.
Proof.
  intros Ht <-. unfold rep.
  rewrite <- (mod32_modn tb e Ht), <- (mod32_modn tb (wrap_bits 32 fs e) Ht). f_equal.
  unfold W32. change 4294967296 with (2 ^ 32). symmetry. apply wrap_bits_mod. lia.
Qed.

Theorem check_unary_sound r : check_unary r = true -> unary_correct r.
Proof.
  unfold check_unary. intros Hck u e s il Hsem Henv Hinst. rewrite Hsem in Hck.
  destruct u as [f t|t|t|].
  - (* casts *)
    destruct (shape f) as [[fb fs]|] eqn:Hf; [|discriminate]. destruct (shape t) as [[tb ts]|] eqn:Ht; [|discriminate].
    destruct (shape_props _ _ _ Hf) as [_ Hfb]. destruct (shape_props _ _ _ Ht) as [_ Htb].
    intros c0 bits sg v H0 Hres Hval. cbn [ures_shape] in Hres. rewrite Ht in Hres. inversion Hres; subst bits sg.
    cbn [uvalue] in Hval. rewrite Hf, Ht in Hval. inversion Hval; subst v. clear Hval Hres.
    apply orb_prop in Hck. destruct Hck as [Hck|Hck].
    + apply andb_prop in Hck. destruct Hck as [Hck Hr]. apply andb_prop in Hck. destruct Hck as [Hle Hb].
      apply body_is_eq in Hb. apply sopnds_eqb_eq in Hr. unfold instantiate in Hinst. rewrite Hb in Hinst.
      cbn in Hinst. inversion Hinst; subst il. exists c0. rewrite Hr. cbn [opnds_val opnd_val]. rewrite H0.
      split; [reflexivity|]. cbn [exec_seq]. split; [|split; auto].
      unfold val. apply trunc_rep; auto. lia.
    + apply andb_prop in Hck. destruct Hck as [Hck Hr]. apply andb_prop in Hck. destruct Hck as [Hfb8 Hb].
      assert (Hfb' : fb = 8 \/ fb = 16) by (apply orb_prop in Hfb8; destruct Hfb8 as [H|H]; apply Z.eqb_eq in H; auto).
      apply body_is_eq in Hb. apply sopnds_eqb_eq in Hr. unfold instantiate in Hinst. rewrite Hb in Hinst.
      cbn [body_items opnds_val opnd_val] in Hinst. rewrite H0 in Hinst.
      destruct (nth_error (e_fresh e) 0) as [d|] eqn:Hd; [|discriminate].
      destruct (fresh0_facts e d Henv Hd) as (Hd0 & _ & Hfr).
      assert (T1 : to_rv ("slli"%string, [d; c0; 32 - fb]) = Some (ROpImm ISLLI d c0 (32 - fb))) by reflexivity.
      assert (T2 : to_rv (shift_mn fs, [d; d; 32 - fb]) = Some (ROpImm (ext_op fs) d d (32 - fb)))
        by (destruct fs; reflexivity).
      assert (E1 : expand_item "slli" [d; c0; 32 - fb] = [("slli"%string, [d; c0; 32 - fb])]) by reflexivity.
      assert (E2 : expand_item (shift_mn fs) [d; d; 32 - fb] = [(shift_mn fs, [d; d; 32 - fb])])
        by (destruct fs; reflexivity).
      rewrite E1, E2 in Hinst. cbn [List.app to_rv_all] in Hinst. rewrite T1, T2 in Hinst.
      assert (Hil : il = [ROpImm ISLLI d c0 (32 - fb); ROpImm (ext_op fs) d d (32 - fb)]) by congruence. subst il.
      destruct (ext_pair fs (32 - fb) d c0 s Hd0) as (V & F & M).
      pose proof (getreg_range s c0) as R0. change (2 ^ 32) with 4294967296 in R0.
      destruct (ext_reg fb fs (getreg s c0) Hfb' R0) as (_ & Ee).
      exists d. rewrite Hr. cbn [opnds_val opnd_val]. rewrite Hd. split; [reflexivity|].
      split; [|split].
      * rewrite V. unfold rep. rewrite wrap_bits_mod by lia. unfold val.
        apply (rep_of_wrap32 tb fs _ _ ltac:(lia) Ee).
      * intros x Hx. apply F. now apply Hfr.
      * exact M.
  - (* neg *)
    destruct (shape t) as [[b sg0]|] eqn:Ht; [|discriminate]. destruct (shape_props _ _ _ Ht) as [Hs Hb].
    intros c0 bits sg v H0 Hres Hval. cbn [ures_shape] in Hres. rewrite Ht in Hres. inversion Hres; subst b sg0.
    cbn [uvalue] in Hval. rewrite Ht in Hval. inversion Hval as [Hev]. clear Hval.
    apply andb_prop in Hck. destruct Hck as [Hbd Hr]. apply body_is_eq in Hbd. apply sopnds_eqb_eq in Hr.
    unfold instantiate in Hinst. rewrite Hbd in Hinst. cbn [body_items opnds_val opnd_val] in Hinst. rewrite H0 in Hinst.
    destruct (nth_error (e_fresh e) 0) as [d|] eqn:Hd; [|discriminate].
    destruct (fresh0_facts e d Henv Hd) as (Hd0 & _ & Hfr).
    assert (E1 : expand_item "sub" [d; 0; c0] = [("sub"%string, [d; 0; c0])]) by reflexivity.
    assert (T1 : to_rv ("sub"%string, [d; 0; c0]) = Some (ROp RSUB d 0 c0)) by reflexivity.
    rewrite E1 in Hinst. cbn [List.app to_rv_all] in Hinst. rewrite T1 in Hinst. inversion Hinst; subst il.
    cbn [exec_seq]. destruct (exec_rop RSUB d 0 c0 s Hd0) as (V & F & M).
    exists d. rewrite Hr. cbn [opnds_val opnd_val]. rewrite Hd. split; [reflexivity|]. split; [|split; [|exact M]].
    + rewrite V. apply rep_u32; [lia|]. rewrite getreg_0.
      eapply (alu_rr_sound t Sub bits sg RSUB 0 (getreg s c0) v Hs Hb eq_refl); [cbn; lia|apply getreg_range|].
      unfold val at 1. rewrite (wrap_bits_0 bits sg Hb). rewrite <- unop_neg_sub. exact Hev.
    + intros x Hx. apply F. now apply Hfr.
  - (* inv *)
    destruct (shape t) as [[b sg0]|] eqn:Ht; [|discriminate]. destruct (shape_props _ _ _ Ht) as [Hs Hb].
    intros c0 bits sg v H0 Hres Hval. cbn [ures_shape] in Hres. rewrite Ht in Hres. inversion Hres; subst b sg0.
    cbn [uvalue] in Hval. rewrite Ht in Hval. inversion Hval as [Hev]. clear Hval.
    apply andb_prop in Hck. destruct Hck as [Hbd Hr]. apply body_is_eq in Hbd. apply sopnds_eqb_eq in Hr.
    unfold instantiate in Hinst. rewrite Hbd in Hinst. cbn [body_items opnds_val opnd_val] in Hinst. rewrite H0 in Hinst.
    destruct (nth_error (e_fresh e) 0) as [d|] eqn:Hd; [|discriminate].
    destruct (fresh0_facts e d Henv Hd) as (Hd0 & _ & Hfr).
    assert (E1 : expand_item "xori" [d; c0; -1] = [("xori"%string, [d; c0; -1])]) by reflexivity.
    assert (T1 : to_rv ("xori"%string, [d; c0; -1]) = Some (ROpImm IXORI d c0 (imm12 (-1)))) by reflexivity.
    rewrite E1 in Hinst. cbn [List.app to_rv_all] in Hinst. rewrite T1 in Hinst. inversion Hinst; subst il.
    cbn [exec_seq]. destruct (exec_ropimm IXORI d c0 (imm12 (-1)) s Hd0) as (V & F & M).
    exists d. rewrite Hr. cbn [opnds_val opnd_val]. rewrite Hd. split; [reflexivity|]. split; [|split; [|exact M]].
    + rewrite V. apply rep_u32; [lia|].
      apply (alu_ri_sound t Xor bits sg IXORI (getreg s c0) (-1) v Hs Hb eq_refl (getreg_range s c0));
        [intros _; lia|intros H; discriminate H|].
      rewrite <- unop_inv_xor. exact Hev.
    + intros x Hx. apply F. now apply Hfr.
  - (* REG *)
    apply andb_prop in Hck. destruct Hck as [Hb Hr]. apply body_is_eq in Hb. apply sopnds_eqb_eq in Hr.
    unfold instantiate in Hinst. rewrite Hb in Hinst. cbn in Hinst. inversion Hinst. auto.
Qed.

Definition in_scope3 (r : rule) : bool :=
  match tree_sem3 (r_tree r) with Some _ => true | None => false end.
