(* Proofs/C36_py2ir.v -- lemmas for C36 (Python front-end, expression/condition lowering and
   the for-range skeleton). *)
From PV Require Import Lib.Py Lib.Tac Lib.Val Spec.IRSyntax Spec.IRSem Spec.PyExprSpec Model.Py2Ir.
From Coq Require Import String.
Open Scope Z_scope.

(* ------------------------------------------------------------------ 64-bit facts *)
Lemma in64_spec z : in64 z = true <-> - 9223372036854775808 <= z < 9223372036854775808.
Proof. unfold in64. change (2 ^ 63) with 9223372036854775808. lia. Qed.

Lemma wrap64_id z : in64 z = true -> wrap_bits 64 true z = z.
Proof.
  intros H. apply in64_spec in H. unfold wrap_bits.
  change (2 ^ (64 - 1)) with 9223372036854775808. change (2 ^ 64) with 18446744073709551616.
  cbn [andb]. destruct (9223372036854775808 <=? z mod 18446744073709551616) eqn:E; lia.
Qed.

Lemma chk64_some z v : chk64 z = Some v -> v = z /\ in64 z = true.
Proof. unfold chk64. destruct (in64 z); intros H; inversion H; auto. Qed.

Lemma eval64_in64 env e v : eval64 env e = Some v -> in64 v = true.
Proof.
  destruct e; cbn [eval64]; intros H.
  - apply chk64_some in H. destruct H; subst; auto.
  - destruct (nth_error env n); try discriminate. apply chk64_some in H. destruct H; subst; auto.
  - destruct (eval64 env e1); try discriminate. destruct (eval64 env e2); try discriminate.
    destruct (py_binop o z z0); try discriminate. apply chk64_some in H. destruct H; subst; auto.
  - destruct (eval64 env e); try discriminate. apply chk64_some in H. destruct H; subst; auto.
Qed.

Lemma shape64 : int_shape default_cfg I64 = Some (64, true).
Proof. reflexivity. Qed.

Ltac eb_start := unfold eval_binop; rewrite shape64; cbv beta iota zeta.

Lemma eb_add a b : in64 (a + b) = true -> eval_binop default_cfg I64 Add a b = ODone (a + b).
Proof. intros. eb_start. now rewrite wrap64_id. Qed.
Lemma eb_sub a b : in64 (a - b) = true -> eval_binop default_cfg I64 Sub a b = ODone (a - b).
Proof. intros. eb_start. now rewrite wrap64_id. Qed.
Lemma eb_mul a b : in64 (a * b) = true -> eval_binop default_cfg I64 Mul a b = ODone (a * b).
Proof. intros. eb_start. now rewrite wrap64_id. Qed.
Lemma eb_and a b : in64 (Z.land a b) = true -> eval_binop default_cfg I64 And a b = ODone (Z.land a b).
Proof. intros. eb_start. now rewrite wrap64_id. Qed.
Lemma eb_or a b : in64 (Z.lor a b) = true -> eval_binop default_cfg I64 Or a b = ODone (Z.lor a b).
Proof. intros. eb_start. now rewrite wrap64_id. Qed.
Lemma eb_xor a b : in64 (Z.lxor a b) = true -> eval_binop default_cfg I64 Xor a b = ODone (Z.lxor a b).
Proof. intros. eb_start. now rewrite wrap64_id. Qed.

Lemma quot_in64 a b : in64 a = true -> in64 b = true -> b <> 0 -> in64 (a / b) = true ->
  in64 (Z.quot a b) = true.
Proof.
  intros Ha Hb Hb0 Hq. rewrite in64_spec in *.
  pose proof (Z.quot_rem' a b) as E. pose proof (Z.rem_bound_abs a b Hb0) as R.
  pose proof (Z.rem_sign_mul a b Hb0) as S.
  pose proof (Z.div_mod a b Hb0) as E2. pose proof (Z.mod_bound_or a b Hb0) as M.
  set (q := Z.quot a b) in *. set (r := Z.rem a b) in *. set (q' := a / b) in *. set (r' := a mod b) in *.
  clearbody q r q' r'. nia.
Qed.

Lemma eb_div a b : in64 a = true -> in64 b = true -> b <> 0 -> in64 (a / b) = true ->
  eval_binop default_cfg I64 Div a b = ODone (Z.quot a b).
Proof.
  intros Ha Hb Hb0 Hq. pose proof (quot_in64 a b Ha Hb Hb0 Hq) as Hqq.
  eb_start. destruct (b =? 0) eqn:E0; [lia|].
  replace (true && (a =? - 2 ^ (64 - 1)) && (b =? -1)) with false.
  - now rewrite wrap64_id.
  - symmetry. destruct (a =? - 2 ^ (64 - 1)) eqn:E1; destruct (b =? -1) eqn:E2; try reflexivity.
    exfalso. apply Z.eqb_eq in E1, E2. subst. vm_compute in Hq. discriminate.
Qed.

Definition mask (x : Z) : Z := if x <? 0 then -1 else 0.
Lemma eb_shr63 x : in64 x = true -> eval_binop default_cfg I64 Shr x 63 = ODone (mask x).
Proof.
  intros H. eb_start. change ((0 <=? 63) && (63 <? 64)) with true. cbv iota.
  apply in64_spec in H. unfold mask. change (2 ^ 63) with 9223372036854775808.
  destruct (x <? 0) eqn:E.
  - replace (x / 9223372036854775808) with (-1) by lia. reflexivity.
  - replace (x / 9223372036854775808) with 0 by lia. reflexivity.
Qed.

(* the arithmetic behind the sequence *)
Lemma floor_from_trunc a b : b <> 0 ->
  let q := Z.quot a b in let r := a - q * b in
  a / b = q + (if negb (r =? 0) && xorb (r <? 0) (b <? 0) then -1 else 0).
Proof.
  intros Hb q r. subst q r.
  pose proof (Z.quot_rem' a b) as E. pose proof (Z.rem_bound_abs a b Hb) as R.
  pose proof (Z.rem_sign_mul a b Hb) as S.
  set (q := Z.quot a b) in *. set (r := Z.rem a b) in *. clearbody q r.
  replace (a - q * b) with r by lia.
  destruct (r =? 0) eqn:E0; cbn [negb andb].
  - symmetry. apply Z.div_unique with (r := 0); lia.
  - destruct (r <? 0) eqn:E1; destruct (b <? 0) eqn:E2; cbn [xorb].
    + symmetry. apply Z.div_unique with (r := r); lia.
    + symmetry. apply Z.div_unique with (r := r + b); lia.
    + symmetry. apply Z.div_unique with (r := r + b); lia.
    + symmetry. apply Z.div_unique with (r := r); lia.
Qed.

Lemma rem_facts a b : in64 a = true -> in64 b = true -> b <> 0 -> in64 (a / b) = true ->
  in64 (Z.quot a b * b) = true /\ in64 (a - Z.quot a b * b) = true /\
  in64 (0 - (a - Z.quot a b * b)) = true.
Proof.
  intros Ha Hb Hb0 Hq. pose proof (quot_in64 a b Ha Hb Hb0 Hq) as Hqq. rewrite !in64_spec in *.
  pose proof (Z.quot_rem' a b) as E. pose proof (Z.rem_bound_abs a b Hb0) as R.
  pose proof (Z.rem_sign_mul a b Hb0) as S.
  set (q := Z.quot a b) in *. set (r := Z.rem a b) in *. clearbody q r.
  replace (a - q * b) with r by lia. replace (q * b) with (a - r) by lia.
  split; [|split]; nia.
Qed.

(* the program the repaired front-end emits for integer a // b *)
Definition floor_prog : sprog :=
  [("/", SA, SB); ("*", SR 0, SB); ("-", SA, SR 1); (">>", SR 2, SK 63); (">>", SB, SK 63);
   ("-", SK 0, SR 2); (">>", SR 5, SK 63); ("^", SR 3, SR 4); ("|", SR 3, SR 6);
   ("&", SR 7, SR 8); ("+", SR 0, SR 9)]%string.

Local Opaque eval_binop.

Lemma run_prog_step s x y a b acc o vx vy r rest :
  binop_of_name s = Some o -> sref_val a b acc x = ODone vx -> sref_val a b acc y = ODone vy ->
  eval_binop default_cfg I64 o vx vy = ODone r ->
  run_prog ((s, x, y) :: rest) a b acc = run_prog rest a b (r :: acc).
Proof. intros H1 H2 H3 H4. cbn [run_prog]. rewrite H1, H2, H3. cbn [obind]. rewrite H4. reflexivity. Qed.

Lemma mask_in64 x : in64 (mask x) = true.
Proof. unfold mask. destruct (x <? 0); reflexivity. Qed.

Lemma floor_prog_exact x y : in64 x = true -> in64 y = true -> y <> 0 -> in64 (x / y) = true ->
  run_prog floor_prog x y [] = ODone (x / y).
Proof.
  intros Hx Hy Hy0 Hq.
  destruct (rem_facts x y Hx Hy Hy0 Hq) as (F1 & F2 & F3).
  pose proof (floor_from_trunc x y Hy0) as FL. cbv zeta in FL.
  pose proof (eb_div x y Hx Hy Hy0 Hq) as D.
  set (q := Z.quot x y) in *. set (r := x - q * y) in *.
  unfold floor_prog.
  erewrite run_prog_step; [| reflexivity | reflexivity | reflexivity | exact D].
  erewrite run_prog_step; [| reflexivity | reflexivity | reflexivity | apply eb_mul; exact F1].
  erewrite run_prog_step; [| reflexivity | reflexivity | reflexivity | apply eb_sub; exact F2].
  fold r.
  erewrite run_prog_step with (vy := 63); [| reflexivity | reflexivity | reflexivity | apply eb_shr63; exact F2].
  erewrite run_prog_step with (vy := 63); [| reflexivity | reflexivity | reflexivity | apply eb_shr63; exact Hy].
  erewrite run_prog_step with (vx := 0); [| reflexivity | reflexivity | reflexivity | apply eb_sub; exact F3].
  erewrite run_prog_step with (vy := 63); [| reflexivity | reflexivity | reflexivity | apply eb_shr63; exact F3].
  assert (A : exists adj, adj = (if negb (r =? 0) && xorb (r <? 0) (y <? 0) then -1 else 0) /\
     Z.land (Z.lxor (mask r) (mask y)) (Z.lor (mask r) (mask (0 - r))) = adj).
  { eexists; split; [reflexivity|]. unfold mask.
    destruct (r =? 0) eqn:E0; destruct (r <? 0) eqn:E1; destruct (y <? 0) eqn:E2;
      destruct (0 - r <? 0) eqn:E3; try reflexivity; lia. }
  destruct A as (adj & Hadj & HA).
  erewrite run_prog_step; [| reflexivity | reflexivity | reflexivity | apply eb_xor].
  2:{ unfold mask. destruct (r <? 0); destruct (y <? 0); reflexivity. }
  erewrite run_prog_step; [| reflexivity | reflexivity | reflexivity | apply eb_or].
  2:{ unfold mask. destruct (r <? 0); destruct (0 - r <? 0); reflexivity. }
  erewrite run_prog_step; [| reflexivity | reflexivity | reflexivity | apply eb_and].
  2:{ rewrite HA, Hadj. destruct (negb (r =? 0) && xorb (r <? 0) (y <? 0)); reflexivity. }
  rewrite HA.
  erewrite run_prog_step; [| reflexivity | reflexivity | reflexivity | apply eb_add].
  2:{ rewrite Hadj, <- FL. exact Hq. }
  cbn [run_prog]. rewrite Hadj, <- FL. reflexivity.
Qed.

(* ------------------------------------------------------------------ expression lowering *)
Definition sound_binop (o : pbin) (io : binop) : bool :=
  match o, io with
  | PAdd, Add | PSub, Sub | PMult, Mul | PBitAnd, And | PBitOr, Or | PBitXor, Xor => true
  | PTrueDiv, _ => true       (* no integer value to be exact about *)
  | _, _ => false
  end.
Definition sound_cmp (o : pcmp) (c : cond) : bool :=
  match o, c with
  | PEq, Ceq | PNotEq, Cne | PLt, Clt | PLtE, Cle | PGt, Cgt | PGtE, Cge => true
  | _, _ => false
  end.
(* every table entry that exists is a semantically exact one; integer // goes through a program *)
Definition sound_tabs (k : lowcfg) : Prop :=
  lc_floordiv k <> [] /\
  (forall o io, o <> PFloorDiv -> irop_eff k o = Some io -> sound_binop o io = true) /\
  (forall o c, ircond_of (lc_cmps k) o = Some c -> sound_cmp o c = true).

Definition fd_exact_at (k : lowcfg) (x y : Z) : Prop :=
  run_prog (lc_floordiv k) x y [] = ODone (x / y).
(* the // program is exact at every // node reached (with the operand values CPython has there) *)
Fixpoint fd_ok (k : lowcfg) (env : list Z) (e : pexpr) : Prop :=
  match e with
  | PBin o a b =>
      fd_ok k env a /\ fd_ok k env b /\
      (o = PFloorDiv -> forall x y, eval64 env a = Some x -> eval64 env b = Some y -> y <> 0 ->
                        in64 (x / y) = true -> fd_exact_at k x y)
  | PNeg a => fd_ok k env a
  | _ => True
  end.

Lemma wrap_ty_i64 z : wrap_ty default_cfg I64 z = Some (wrap_bits 64 true z).
Proof. reflexivity. Qed.

Lemma lower_exact k env : sound_tabs k -> forall e v t,
  fd_ok k env e -> eval64 env e = Some v -> lower k e = Some t -> eval_tree env t = ODone v.
Proof.
  intros (Hne & Hb & _). induction e as [z | n | o a IHa b IHb | a IHa]; intros v t Hfd He Hl.
  - cbn in He, Hl. apply chk64_some in He. destruct He as [-> Hi]. inversion Hl; subst.
    cbn [eval_tree]. rewrite wrap_ty_i64. cbn [of_opt]. now rewrite wrap64_id.
  - cbn in He, Hl. inversion Hl; subst. cbn [eval_tree].
    destruct (nth_error env n); try discriminate. apply chk64_some in He. destruct He as [-> _].
    reflexivity.
  - cbn [eval64] in He. cbn [lower] in Hl. destruct Hfd as (Fa & Fb & Fo).
    destruct (eval64 env a) as [x|] eqn:Ea; try discriminate.
    destruct (eval64 env b) as [y|] eqn:Eb; try discriminate.
    destruct (py_binop o x y) as [r|] eqn:Eo; try discriminate.
    apply chk64_some in He. destruct He as [-> Hr].
    destruct (lower k a) as [ta|] eqn:La; try discriminate.
    destruct (lower k b) as [tb|] eqn:Lb; try discriminate.
    specialize (IHa x ta Fa eq_refl eq_refl). specialize (IHb y tb Fb eq_refl eq_refl).
    pose proof (eval64_in64 _ _ _ Ea) as Hx. pose proof (eval64_in64 _ _ _ Eb) as Hy.
    assert (G : forall io, o <> PFloorDiv -> irop_eff k o = Some io ->
                eval_tree env (TBin io ta tb) = ODone r).
    { intros io Hnf Hio. specialize (Hb o io Hnf Hio). cbn [eval_tree]. rewrite IHa, IHb. cbn [obind].
      destruct o; destruct io; try discriminate; cbn in Eo; inversion Eo; subst.
      - now apply eb_add. - now apply eb_sub. - now apply eb_mul.
      - now apply eb_and. - now apply eb_or. - now apply eb_xor. }
    destruct o.
    11: (exfalso; cbn in Eo; discriminate).
    1-3, 5-10: (destruct (irop_eff k _) as [io|] eqn:Hio; try discriminate;
                inversion Hl; subst; apply G; [discriminate | reflexivity]).
    destruct (lc_floordiv k) as [|i p] eqn:Hp; [contradiction|].
    inversion Hl; subst. cbn [eval_tree]. rewrite IHa, IHb. cbn [obind].
    cbn in Eo. destruct (y =? 0) eqn:Ey; try discriminate. inversion Eo; subst.
    specialize (Fo eq_refl x y eq_refl eq_refl). unfold fd_exact_at in Fo. rewrite Hp in Fo.
    apply Fo; [lia | exact Hr].
  - cbn in Hl. discriminate.
Qed.

Definition fd_exact (k : lowcfg) : Prop :=
  forall x y, in64 x = true -> in64 y = true -> y <> 0 -> in64 (x / y) = true -> fd_exact_at k x y.

Lemma fd_ok_all k env e : fd_exact k -> fd_ok k env e.
Proof.
  intros F. induction e; cbn; auto. repeat split; auto.
  intros _ x y Ea Eb Hy Hq. apply F; eauto using eval64_in64.
Qed.

(* ------------------------------------------------------------------ conditions *)
Lemma cmp_exact o c x y : sound_cmp o c = true -> eval_cond c x y = py_cmp o x y.
Proof.
  destruct o; destruct c; try discriminate; intros _; cbn; try reflexivity.
  - apply Z.gtb_ltb. - apply Z.geb_leb.
Qed.

(* induction principle for the nested type (operands of a BoolOp) *)
Fixpoint pcond_rect' (P : pcond -> Prop)
    (Hcmp : forall o a b, P (PCmp o a b))
    (Hbool : forall isand vs, Forall P vs -> P (PBoolOp isand vs))
    (Hnot : forall a, P a -> P (PNot a)) (c : pcond) : P c :=
  match c with
  | PCmp o a b => Hcmp o a b
  | PBoolOp isand vs =>
      Hbool isand vs ((fix go (l : list pcond) : Forall P l :=
                         match l with
                         | [] => Forall_nil P
                         | x :: r => Forall_cons x (pcond_rect' P Hcmp Hbool Hnot x) (go r)
                         end) vs)
  | PNot a => Hnot a (pcond_rect' P Hcmp Hbool Hnot a)
  end.

Definition cond_ok (k : lowcfg) (env : list Z) (c : pcond) : Prop :=
  forall yes no t bv, evalc64 env c = Some bv -> lower_cond k c yes no = Some t ->
                      eval_ctree env t = eval_ctree env (if bv then yes else no).

(* the loop of gen_bool_op over values[:-1] followed by the last value *)
Lemma chain_exact k env isand : forall l, Forall (cond_ok k env) l -> forall yes no t bv,
  chain_eval (evalc64 env) isand l = Some bv ->
  chain_lower (lower_cond k) isand yes no l = Some t ->
  eval_ctree env t = eval_ctree env (if bv then yes else no).
Proof.
  induction l as [|x r IH]; intros HF yes no t bv He Hl; [discriminate|].
  inversion HF as [|? ? Hx Hr]; subst.
  cbn [chain_eval] in He. destruct (evalc64 env x) as [v|] eqn:Ex; [|discriminate].
  destruct r as [|y r'].
  - cbn [chain_lower] in Hl.
    assert (bv = v).
    { destruct (Bool.eqb v isand) eqn:E; cbn [chain_eval] in He; inversion He; subst; auto.
      symmetry. now apply Bool.eqb_prop. }
    subst. now apply (Hx yes no t v Ex Hl).
  - change (chain_lower (lower_cond k) isand yes no (x :: y :: r'))
      with (match chain_lower (lower_cond k) isand yes no (y :: r') with
            | Some next => if isand then lower_cond k x next no else lower_cond k x yes next
            | None => None end) in Hl.
    destruct (chain_lower (lower_cond k) isand yes no (y :: r')) as [next|] eqn:Hn; [|discriminate].
    destruct (Bool.eqb v isand) eqn:E.
    + apply Bool.eqb_prop in E. subst v.
      specialize (IH Hr yes no next bv He Hn).
      destruct isand.
      * rewrite (Hx next no t true Ex Hl). exact IH.
      * rewrite (Hx yes next t false Ex Hl). exact IH.
    + inversion He; subst bv. destruct isand; destruct v; try discriminate.
      * apply (Hx next no t false Ex Hl).
      * apply (Hx yes next t true Ex Hl).
Qed.

Lemma lower_cond_exact k env : sound_tabs k -> fd_exact k -> forall c, cond_ok k env c.
Proof.
  intros HS HF. pose proof HS as (_ & _ & Hc).
  induction c as [o a b | isand vs IH | a IHa] using pcond_rect'; intros yes no t bv He Hl.
  - cbn [evalc64] in He. cbn [lower_cond] in Hl.
    destruct (eval64 env a) as [x|] eqn:Ea; try discriminate.
    destruct (eval64 env b) as [y|] eqn:Eb; try discriminate. inversion He; subst.
    destruct (lower k a) as [ta|] eqn:La; try discriminate.
    destruct (lower k b) as [tb|] eqn:Lb; try discriminate.
    destruct (ircond_of (lc_cmps k) o) as [io|] eqn:Hio; try discriminate. inversion Hl; subst.
    cbn [eval_ctree].
    rewrite (lower_exact k env HS a x ta (fd_ok_all _ _ _ HF) Ea La).
    rewrite (lower_exact k env HS b y tb (fd_ok_all _ _ _ HF) Eb Lb). cbn [obind].
    rewrite (cmp_exact o io x y (Hc _ _ Hio)). destruct (py_cmp o x y); reflexivity.
  - cbn [evalc64] in He. cbn [lower_cond] in Hl. eapply chain_exact; eauto.
  - cbn in Hl. discriminate.
Qed.

(* a deciding operand after a prefix of non-deciding ones fixes the value of the chain *)
Lemma chain_eval_decided env isand pre a post :
  Forall (fun c => evalc64 env c = Some isand) pre -> evalc64 env a = Some (negb isand) ->
  chain_eval (evalc64 env) isand (pre ++ a :: post) = Some (negb isand).
Proof.
  intros HF Ha. induction HF as [|x r Hx Hr IH]; cbn [app chain_eval].
  - rewrite Ha. destruct isand; reflexivity.
  - rewrite Hx. rewrite Bool.eqb_reflx. exact IH.
Qed.

(* ------------------------------------------------------------------ gen_for skeleton *)
Definition last_opt (l : list Z) : option Z := match rev l with [] => None | x :: _ => Some x end.
Lemma last_opt_snoc l x : last_opt (l ++ [x]) = Some x.
Proof. unfold last_opt. rewrite rev_app_distr. reflexivity. Qed.

(* a skeleton whose back edge (and continue edge, when the body uses continue) reaches the test
   block from a block for which the phi has the incremented value *)
Definition back_ok (g : for_cfg) : Prop := phi_lookup (fc_phi g) (fc_back g) = Some SrcInc.
Definition cont_ok (g : for_cfg) (body : Z -> exit_kind) : Prop :=
  (forall i, body i <> Cont) \/
  (fc_continue g = BInc /\ phi_lookup (fc_phi g) BInc = Some SrcInc).

Lemma run_for_inv g lv body init n : back_ok g -> cont_ok g body -> n < 2 ^ 63 ->
  forall k fuel pred iprev i slot acc,
    phi_lookup (fc_phi g) pred = Some SrcInc -> i = iprev + 1 -> - 2 ^ 63 <= i <= n ->
    k = Z.to_nat (n - i) -> (k < fuel)%nat -> slot = last_opt acc ->
    exists a, run_for g lv body init n fuel pred iprev slot acc
              = FDone (acc ++ py_loop_values body (zrange_from i k)) a /\
              (lv = LVSlot -> a = last_opt (acc ++ py_loop_values body (zrange_from i k))).
Proof.
  intros Hb Hc Hn. induction k as [|k IH]; intros fuel pred iprev i slot acc Hp Hi Hlo Hk Hf Hs.
  - destruct fuel as [|fuel]; [lia|]. cbn [run_for]. rewrite Hp.
    assert (W : wrap_bits 64 true (iprev + 1) = i).
    { rewrite wrap64_id; [lia|]. apply in64_spec. change (2 ^ 63) with 9223372036854775808 in *. lia. }
    rewrite W. destruct (i <? n) eqn:E; [lia|]. cbn [zrange_from py_loop_values]. rewrite app_nil_r.
    eexists; split; [reflexivity|]. intros ->. exact Hs.
  - destruct fuel as [|fuel]; [lia|]. cbn [run_for]. rewrite Hp.
    assert (W : wrap_bits 64 true (iprev + 1) = i).
    { rewrite wrap64_id; [lia|]. apply in64_spec. change (2 ^ 63) with 9223372036854775808 in *. lia. }
    rewrite W. destruct (i <? n) eqn:E; [|lia]. cbn [zrange_from py_loop_values].
    assert (Hk' : k = Z.to_nat (n - (i + 1))) by lia.
    destruct (body i) eqn:Eb.
    + destruct (IH fuel (fc_back g) i (i + 1) (Some i) (acc ++ [i])) as (a & Ha & Hlv);
        try lia; auto using last_opt_snoc, eq_sym.
      exists a. rewrite Ha. rewrite <- app_assoc. cbn [app]. split; [reflexivity|].
      intros L. rewrite (Hlv L). rewrite <- app_assoc. reflexivity.
    + destruct Hc as [Hc | (Hc1 & Hc2)]; [exfalso; eapply Hc; eauto|]. rewrite Hc1.
      destruct (IH fuel BInc i (i + 1) (Some i) (acc ++ [i])) as (a & Ha & Hlv);
        try lia; auto using last_opt_snoc, eq_sym.
      exists a. rewrite Ha. rewrite <- app_assoc. cbn [app]. split; [reflexivity|].
      intros L. rewrite (Hlv L). rewrite <- app_assoc. reflexivity.
    + eexists; split; [reflexivity|]. intros ->. now rewrite last_opt_snoc.
Qed.

Lemma run_for_loop_exact g lv body init n fuel :
  phi_lookup (fc_phi g) BEntry = Some SrcInit -> back_ok g -> cont_ok g body ->
  in64 init = true -> n < 2 ^ 63 -> (Z.to_nat (n - init) < fuel)%nat ->
  exists a, run_for_loop g lv body init n fuel = FDone (py_for body init n) a /\
            (lv = LVSlot -> a = py_for_var_after body init n).
Proof.
  intros He Hb Hc Hi Hn Hf. apply in64_spec in Hi.
  unfold run_for_loop, py_for_var_after, py_for, py_range.
  destruct fuel as [|fuel]; [lia|]. cbn [run_for]. rewrite He.
  remember (Z.to_nat (n - init)) as k eqn:Hk. destruct k as [|k].
  - destruct (init <? n) eqn:E; [lia|]. cbn [zrange_from py_loop_values rev]. eexists; split; [reflexivity|]. now intros ->.
  - destruct (init <? n) eqn:E; [|lia]. cbn [zrange_from py_loop_values app].
    destruct (body init) eqn:Eb.
    + destruct (run_for_inv g lv body init n Hb Hc Hn k fuel (fc_back g) init (init + 1) (Some init) [init])
        as (a & Ha & Hlv); try lia; auto.
      exists a. rewrite Ha. split; [reflexivity|]. intros L. rewrite (Hlv L). reflexivity.
    + destruct Hc as [Hc | (Hc1 & Hc2)]; [exfalso; eapply Hc; eauto|]. rewrite Hc1.
      destruct (run_for_inv g lv body init n Hb (or_intror (conj Hc1 Hc2)) Hn k fuel BInc init (init + 1)
                  (Some init) [init]) as (a & Ha & Hlv); try lia; auto.
      exists a. rewrite Ha. split; [reflexivity|]. intros L. rewrite (Hlv L). reflexivity.
    + eexists; split; [reflexivity|]. now intros ->.
Qed.
