(* Proofs/C23_table3.v — the exported load / store tables (Gen/Tab_ir2wasm.v) by reflection. *)
From Coq Require Import ZArith List Bool.
Import ListNotations.
From PV Require Import Spec.IRSyntax Spec.IRSem Spec.WasmNumSpec Spec.WasmMemSpec.
From PV Require Import Model.Ir2WasmOps Model.Ir2WasmMem Gen.Tab_ir2wasm Proofs.C23_mem.

(* rows of the compiler that are not of the proved form (the check requires this to be empty) *)
Definition mem_bad_rows : list (ty * width * nat * bool) :=
  filter (fun r => negb (load_good r)) loadtable
  ++ map (fun '(t, w, n) => (t, w, n, false)) (filter (fun r => negb (store_good r)) storetable).

Lemma loadtable_good : forallb load_good loadtable = true.
Proof. vm_compute. reflexivity. Qed.
Lemma storetable_good : forallb store_good storetable = true.
Proof. vm_compute. reflexivity. Qed.

Section T.
Variable c : cfg.
Hypothesis Hp : ptr_bytes c = 4%Z.

Theorem loadstore_table_sound :
  (forall r, In r loadtable -> load_row c r) /\ (forall r, In r storetable -> store_row c r).
Proof.
  split; intros r H.
  - apply load_good_sound; auto.
    pose proof loadtable_good as T. rewrite forallb_forall in T. apply T. exact H.
  - apply store_good_sound; auto.
    pose proof storetable_good as T. rewrite forallb_forall in T. apply T. exact H.
Qed.
End T.
