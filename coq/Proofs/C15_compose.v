(* Proofs/C15_compose.v — composition of the layers of the IR text format (property C15). *)
From PV Require Import Lib.Py Lib.Val Lib.Json Spec.IRSyntax Model.IrJson Model.IrText
  Proofs.C15_irtext Proofs.C15_lexer Proofs.C15_layout Proofs.C15_module Proofs.C15_resolve.
From Coq Require Import String Ascii List Lia.
Import ListNotations.

Lemma printable_rlex c fr fp m : printable c fr fp m = true -> rlex_ok c (erase fr c m) = true.
Proof.
  unfold printable. intros H.
  do 4 (apply Bool.andb_true_iff in H; destruct H as [H _]).
  apply Bool.andb_true_iff in H. now destruct H.
Qed.
Theorem print_lexes c fr fp m : printable c fr fp m = true ->
  lex c (print_text c fr m) = Ok (print_tokens c fr m).
Proof.
  intros H. unfold print_text, print_tokens, print_layout.
  apply lex_render, layout_lexable. eapply printable_rlex; eassumption.
Qed.
(* lexer + parser: the characters of a printable module are read back to its raw form *)
Theorem text_parses c fr fp m : printable c fr fp m = true ->
  (ts <- lex c (print_text c fr m) ;; parse c ts) = Ok (erase fr c m).
Proof.
  intros H. rewrite (print_lexes c fr fp m H). cbn [bind]. now apply (module_parse_printable c fr fp).
Qed.

(* ---- the normal form prints identically *)
Lemma pair_leb_total p q : pair_leb p q = false -> pair_leb q p = true.
Proof.
  unfold pair_leb. rewrite (String.compare_antisym (fst q) (fst p)), (String.compare_antisym (snd q) (snd p)).
  destruct (String.compare (fst p) (fst q)); cbn; try discriminate; try reflexivity.
  destruct (String.compare (snd p) (snd q)); cbn; try discriminate; reflexivity.
Qed.
Fixpoint adj_sorted (l : list (string * string)) : Prop :=
  match l with
  | [] => True
  | p :: r => match r with [] => True | q :: _ => pair_leb p q = true end /\ adj_sorted r
  end.
Lemma insert_sorted p l : adj_sorted l -> adj_sorted (insert_pair p l).
Proof.
  induction l as [|q r IH]; [cbn; auto|]. intros [Hq Hr]. cbn [insert_pair].
  destruct (pair_leb p q) eqn:E.
  - cbn [adj_sorted]. repeat split; auto.
  - specialize (IH Hr). cbn [adj_sorted]. split; [|exact IH].
    destruct r as [|s r']; cbn [insert_pair]; [now apply pair_leb_total|].
    destruct (pair_leb p s); [now apply pair_leb_total|exact Hq].
Qed.
Lemma sort_sorted l : adj_sorted (sort_pairs l).
Proof. induction l as [|p r IH]; [exact I|]. cbn. now apply insert_sorted. Qed.
Lemma sort_id l : adj_sorted l -> sort_pairs l = l.
Proof.
  induction l as [|p r IH]; [reflexivity|]. intros [Hp Hr]. cbn [sort_pairs fold_right].
  change (fold_right insert_pair [] r) with (sort_pairs r). rewrite (IH Hr).
  destruct r as [|q r']; [reflexivity|]. cbn [insert_pair]. now rewrite Hp.
Qed.
Lemma sort_idem l : sort_pairs (sort_pairs l) = sort_pairs l.
Proof. apply sort_id, sort_sorted. Qed.

Lemma norm_func_defs c f : func_defs (norm_func c f) = func_defs f.
Proof.
  unfold func_defs, func_instrs, norm_func. cbn [f_blocks]. rewrite flat_map_concat_map, map_map. cbn [b_ins].
  rewrite <- flat_map_concat_map. unfold instrs_defs. rewrite !flat_map_concat_map, !concat_map, !map_map.
  f_equal. f_equal. apply map_ext. intros k. rewrite !map_map. apply map_ext. intros i. now rewrite norm_def.
Qed.
Lemma norm_ref_name c f r : ref_name (norm_func c f) r = ref_name f r.
Proof. destruct r; cbn [ref_name]; try reflexivity. unfold find_def. now rewrite norm_func_defs. Qed.
Lemma norm_block_name c f b : block_name (norm_func c f) b = block_name f b.
Proof.
  unfold block_name, find_block, norm_func. cbn [f_blocks]. induction (f_blocks f) as [|k l IH]; [reflexivity|].
  cbn [map find b_id]. destruct (Pos.eqb (b_id k) b); [reflexivity|exact IH].
Qed.
Lemma erase_norm_instr fr c f i : erase_instr fr c (norm_func c f) (norm_instr c f i) = erase_instr fr c f i.
Proof.
  destruct i; cbn [norm_instr erase_instr]; rewrite ?norm_ref_name, ?norm_block_name; try reflexivity.
  - destruct (fx_volatile c); reflexivity.
  - destruct (fx_volatile c); reflexivity.
  - f_equal. change (fun p : bid * vref => (block_name (norm_func c f) (fst p), ref_name (norm_func c f) (snd p))) with (pkey (norm_func c f)).
    change (fun p : bid * vref => (block_name f (fst p), ref_name f (snd p))) with (pkey f).
    assert (E : forall l, map (pkey (norm_func c f)) l = map (pkey f) l).
    { intros l. apply map_ext. intros p. unfold pkey. now rewrite norm_ref_name, norm_block_name. }
    rewrite E, <- sort_key. apply sort_idem.
  - f_equal. apply map_ext. intros a. apply norm_ref_name.
  - f_equal. apply map_ext. intros a. apply norm_ref_name.
Qed.
Lemma erase_norm fr c m : erase fr c (norm c m) = erase fr c m.
Proof.
  unfold erase, norm. cbn [m_name m_externals m_vars m_funcs]. f_equal. f_equal. f_equal.
  - rewrite map_map. apply map_ext. intros g. f_equal. unfold erase_var, norm_var. cbn. destruct (fx_init c); reflexivity.
  - rewrite map_map. apply map_ext. intros f. f_equal. unfold erase_func. cbn [norm_func f_binding f_ret f_name f_params f_blocks].
    f_equal. rewrite map_map. apply map_ext. intros k. unfold erase_block. cbn [b_name b_ins]. f_equal.
    rewrite map_map. apply map_ext. intros i. apply (erase_norm_instr fr c f i).
Qed.

(* ---- the whole reader on the characters of a printable module *)
Theorem text_roundtrip_all c fr fp m :
  fx_fwd c = true -> fx_ru_generic c = true -> fx_ru_phi c = true -> fx_ru_call c = true ->
  wf_modul m = true -> printable c fr fp m = true ->
  read_text c fp (print_text c fr m) = Ok (norm c m) /\
  print_text c fr (norm c m) = print_text c fr m /\ print_tokens c fr (norm c m) = print_tokens c fr m.
Proof.
  intros H1 H2 H3 H4 Hwf Hp. split; [|split].
  - unfold read_text. rewrite (print_lexes c fr fp m Hp). cbn [bind]. unfold read_tokens.
    rewrite (module_parse_printable c fr fp m Hp). cbn [bind]. now apply resolve_roundtrip.
  - unfold print_text, print_layout. now rewrite erase_norm.
  - unfold print_tokens, print_layout. now rewrite erase_norm.
Qed.
