(* Proofs/C14_classes.v — the debug record classes of ppci/binutils/debuginfo.py (exported by
   introspection into Gen/dbgclasses.v on every run) are exactly the constructors of the model. *)
From PV Require Import Lib.Py Lib.Json Gen.dbgclasses Model.DebugInfo.
From Coq Require Import String Ascii.
Open Scope string_scope.

Definition type_samples : list dtype := [TBase "" 0 0; TStruct []; TArray 0 0; TPointer 0].
Definition addr_samples : list daddr := [AFixed 0; AFprel 0 0; AUnknown].

Lemma covered_by {A} (cls : A -> string) (samples : list A) (l : list string) :
  forallb (fun c => existsb (fun t => String.eqb (cls t) c) samples) l = true ->
  forall c, In c l -> exists t, cls t = c.
Proof.
  intros H c Hc. rewrite forallb_forall in H. apply H in Hc.
  apply existsb_exists in Hc. destruct Hc as [t [_ E]]. apply String.eqb_eq in E. now exists t.
Qed.

Lemma classes_covered :
  (forall c, In c dbg_type_classes -> exists t, dtype_class t = c)
  /\ (forall c, In c dbg_addr_classes -> exists a, daddr_class a = c)
  /\ (forall c, In c dbg_record_classes -> In c record_classes).
Proof.
  split; [|split].
  - apply (covered_by dtype_class type_samples). vm_compute. reflexivity.
  - apply (covered_by daddr_class addr_samples). vm_compute. reflexivity.
  - intros c Hc.
    assert (H : forallb (fun c => existsb (String.eqb c) record_classes) dbg_record_classes = true)
      by (vm_compute; reflexivity).
    rewrite forallb_forall in H. apply H in Hc. apply existsb_exists in Hc.
    destruct Hc as [y [Hy E]]. apply String.eqb_eq in E. now subst.
Qed.

(* conversely every constructor of the model is a class of the module *)
Lemma classes_exact :
  (forall t, In (dtype_class t) dbg_type_classes)
  /\ (forall a, In (daddr_class a) dbg_addr_classes)
  /\ (forall c, In c record_classes -> In c dbg_record_classes).
Proof.
  split; [|split].
  - intros t. destruct t; vm_compute; tauto.
  - intros a. destruct a; vm_compute; tauto.
  - intros c Hc.
    assert (H : forallb (fun c => existsb (String.eqb c) dbg_record_classes) record_classes = true)
      by (vm_compute; reflexivity).
    rewrite forallb_forall in H. apply H in Hc. apply existsb_exists in Hc.
    destruct Hc as [y [Hy E]]. apply String.eqb_eq in E. now subst.
Qed.
