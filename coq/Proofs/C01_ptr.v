(* Proofs/C01_ptr.v — pointer +/- integer as lowered by gen_binop (Model/CGenPtr.v) is the C address
   arithmetic a +/- n * sizeof(element) modulo the pointer width: for every element size, every index value
   and both operators when the index is scaled in the pointer type (fixes/C01-pointer-index-scaling.diff),
   and only when n * esize fits the index type for the code as found (witness of the defect below). *)
From PV Require Import Lib.Py Lib.Tac Model.CGenExpr Model.CGenPtr Spec.IRSyntax Spec.IRSem.
Open Scope Z_scope.

Definition pw (k : cfg) : Z := 2 ^ (8 * ptr_bytes k).      (* number of addresses *)
Definition c_ptr (k : cfg) (sub : bool) (a n esize : Z) : Z :=
  (if sub then a - n * esize else a + n * esize) mod pw k.

Lemma wrap_ptr (k : cfg) (z : Z) : wrap_bits (8 * ptr_bytes k) false z = z mod pw k.
Proof. reflexivity. Qed.

Lemma pw_pos (k : cfg) : 0 <= ptr_bytes k -> 0 < pw k.
Proof. intros H. unfold pw. apply Z.pow_pos_nonneg; lia. Qed.

Lemma add_sub_mod (k : cfg) (sub : bool) (a x y : Z) : 0 <= ptr_bytes k -> x mod pw k = y mod pw k ->
  (if sub then a - x else a + x) mod pw k = (if sub then a - y else a + y) mod pw k.
Proof.
  intros Hk E. pose proof (pw_pos k Hk) as P. destruct sub.
  - rewrite <- (Zminus_mod_idemp_r a x), E, Zminus_mod_idemp_r. reflexivity.
  - rewrite <- (Zplus_mod_idemp_r x a), E, Zplus_mod_idemp_r. reflexivity.
Qed.

Lemma final_op (k : cfg) (sub : bool) (a r : Z) : eval_binop k Ptr (if sub then Sub else Add) a r =
  ODone ((if sub then a - r else a + r) mod pw k).
Proof. destruct sub; reflexivity. Qed.

Theorem ptr_arith_fixed (k : cfg) (sub : bool) (it : ty) (a n esize : Z) : 0 <= ptr_bytes k ->
  ptr_arith k true sub it a n esize = ODone (c_ptr k sub a n esize).
Proof.
  intros Hk. pose proof (pw_pos k Hk) as P.
  unfold ptr_arith, scale_in_ptr, c_ptr. unfold eval_cast, eval_const, wrap_ty. cbn [int_shape as_int obind].
  rewrite !wrap_ptr. destruct (esize =? 1) eqn:E1.
  - apply Z.eqb_eq in E1. subst esize. cbn [obind]. rewrite final_op. f_equal.
    apply (add_sub_mod k sub a); [assumption|]. rewrite Z.mul_1_r. apply Z.mod_mod. lia.
  - cbn [obind]. unfold eval_binop at 1. cbn [int_shape]. cbn [obind]. rewrite wrap_ptr, final_op. f_equal.
    apply (add_sub_mod k sub a); [assumption|]. rewrite Z.mod_mod by lia.
    rewrite <- Z.mul_mod by lia. reflexivity.
Qed.

(* in bounds: exactly the C address *)
Corollary ptr_arith_fixed_inbounds (k : cfg) (sub : bool) (it : ty) (a n esize : Z) : 0 <= ptr_bytes k ->
  0 <= (if sub then a - n * esize else a + n * esize) < pw k ->
  ptr_arith k true sub it a n esize = ODone (if sub then a - n * esize else a + n * esize).
Proof. intros Hk B. rewrite ptr_arith_fixed by assumption. unfold c_ptr. now rewrite Z.mod_small. Qed.

(* the code as found: correct when the scaled index still fits the index type *)
Theorem ptr_arith_orig (k : cfg) (sub : bool) (it : ty) (b : Z) (sg : bool) (a n esize : Z) : 0 <= ptr_bytes k ->
  int_shape k it = Some (b, sg) -> wrap_bits b sg esize = esize -> wrap_bits b sg (n * esize) = n * esize ->
  ptr_arith k false sub it a n esize = ODone (c_ptr k sub a n esize).
Proof.
  intros Hk Hs He Hm. pose proof (pw_pos k Hk) as P.
  unfold ptr_arith, scale_in_index, c_ptr. destruct (esize =? 1) eqn:E1.
  - apply Z.eqb_eq in E1. subst esize. unfold eval_cast, wrap_ty. cbn [int_shape as_int obind].
    rewrite wrap_ptr, final_op. f_equal. apply (add_sub_mod k sub a); [assumption|].
    rewrite Z.mul_1_r. apply Z.mod_mod. lia.
  - unfold eval_const, wrap_ty. rewrite Hs, He. cbn [as_int obind]. unfold eval_binop at 1. rewrite Hs, Hm.
    cbn [obind]. unfold eval_cast, wrap_ty. cbn [int_shape as_int obind]. rewrite wrap_ptr, final_op. f_equal.
    apply (add_sub_mod k sub a); [assumption|]. apply Z.mod_mod. lia.
Qed.

(* long long *p; char n = 31: p + n is computed as p - 8 (31 * 8 = 248 wraps to -8 in i8) *)
Lemma ptr_scaling_refuted :
  ptr_arith default_cfg false false I8 1000 31 8 = ODone 992 /\ c_ptr default_cfg false 1000 31 8 = 1248 /\
  ptr_arith default_cfg true false I8 1000 31 8 = ODone 1248.
Proof. vm_compute. repeat split. Qed.
