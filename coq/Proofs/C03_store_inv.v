(* Proofs/C03_store_inv.v — UNBOUNDED invariant theorems for the repaired def-use mutators of
   ppci/ir.py (Model/IRStore.v, configuration all_fixed).
   INV s = for every instruction object: stored uses is duplicate-free and equals the operand set;
   every used_by set is duplicate-free and contains exactly the instructions whose uses contain the
   value; every record has the shape of its kind.  Theorems: replace_use (plain, call, phi — with
   repeated operands), Value.replace_by, Phi.set_incoming, Phi.del_incoming map INV states to INV
   states whenever they return Ok.  Technique: every mutator is a sequence of put_i (operand slots
   only) / add_use / del_use on ONE instruction i; these steps preserve the link W between i and
   the used_by sets and leave everything else alone (relation R), so that only
   "uses = operands of i" must be re-established at the end (DU_close).
   Not covered here (bounded theorem in Proofs/C03_store.v only): Block.references
   (set_target_block / change_target / delete), replace_incoming, remove_from_block, attachment. *)
From PV Require Import Lib.Py Model.IRStore.
From Coq Require Import String.
Open Scope nat_scope.


(* ---------------------------------------------------------------- containers *)
Lemma memn_In x l : memn x l = true <-> In x l.
Proof.
  induction l as [|y r IH]; cbn; [split; [discriminate|tauto]|].
  rewrite orb_true_iff, IH, Nat.eqb_eq. split; intros [H|H]; auto.
Qed.
Lemma memn_false x l : memn x l = false <-> ~ In x l.
Proof. rewrite <- memn_In. destruct (memn x l); split; congruence. Qed.
Lemma In_removen x y l : In y (removen x l) <-> In y l /\ y <> x.
Proof.
  induction l as [|z r IH]; cbn; [tauto|].
  destruct (Nat.eqb x z) eqn:E.
  - apply Nat.eqb_eq in E. subst z. rewrite IH. intuition congruence.
  - apply Nat.eqb_neq in E. cbn. rewrite IH. intuition congruence.
Qed.
Lemma NoDup_removen x l : NoDup l -> NoDup (removen x l).
Proof.
  induction 1 as [|z r H1 H2 IH]; cbn; [constructor|].
  destruct (Nat.eqb x z); auto. constructor; auto. rewrite In_removen. tauto.
Qed.
Lemma In_os_add x y l : In y (os_add x l) <-> In y l \/ y = x.
Proof.
  unfold os_add. destruct (memn x l) eqn:E.
  - apply memn_In in E. intuition congruence.
  - rewrite in_app_iff. cbn. intuition.
Qed.
Lemma NoDup_os_add x l : NoDup l -> NoDup (os_add x l).
Proof.
  unfold os_add. destruct (memn x l) eqn:E; auto. apply memn_false in E. intro H.
  induction l as [|z r IH]; cbn.
  - constructor; auto.
  - inversion H; subst. constructor.
    + rewrite in_app_iff. cbn. intuition. subst. apply E. now left.
    + apply IH; auto. intro. apply E. now right.
Qed.
Lemma os_remove_ok x l l' : os_remove x l = Ok l' -> In x l /\ l' = removen x l.
Proof. unfold os_remove. destruct (memn x l) eqn:E; [|discriminate]. apply memn_In in E. intro H. injection H as <-. auto. Qed.

Lemma nget_nset {A} k (v : A) l j : nget j (nset k v l) = if Nat.eqb j k then Some v else nget j l.
Proof.
  induction l as [|[k' v'] r IH]; cbn.
  - destruct (Nat.eqb j k); reflexivity.
  - destruct (Nat.eqb k k') eqn:E; cbn.
    + apply Nat.eqb_eq in E. subst k'. destruct (Nat.eqb j k); reflexivity.
    + rewrite IH. destruct (Nat.eqb j k') eqn:E2; auto.
      destruct (Nat.eqb j k) eqn:E3; auto.
      apply Nat.eqb_eq in E2, E3. subst. rewrite Nat.eqb_refl in E. discriminate.
Qed.

(* ---------------------------------------------------------------- frame lemmas *)
Lemma get_i_put_i s i x j : get_i (put_i s i x) j = if Nat.eqb j i then Ok x else get_i s j.
Proof. unfold get_i, put_i. cbn. rewrite nget_nset. destruct (Nat.eqb j i); reflexivity. Qed.
Lemma get_ub_put_i s i x v : get_ub (put_i s i x) v = get_ub s v.
Proof. reflexivity. Qed.
Lemma get_ub_put_ub s v l w : get_ub (put_ub s v l) w = if Nat.eqb w v then l else get_ub s w.
Proof. unfold get_ub, put_ub. cbn. rewrite nget_nset. destruct (Nat.eqb w v); reflexivity. Qed.
Lemma get_i_put_ub s v l j : get_i (put_ub s v l) j = get_i s j.
Proof. reflexivity. Qed.
Lemma get_refs_put_i s i x b : get_refs (put_i s i x) b = get_refs s b.
Proof. reflexivity. Qed.
Lemma get_refs_put_ub s v l b : get_refs (put_ub s v l) b = get_refs s b.
Proof. reflexivity. Qed.

Lemma bind_ok {A B} (a : result A) (k : A -> result B) r :
  bind a k = Ok r -> exists x, a = Ok x /\ k x = Ok r.
Proof. destruct a; cbn; try discriminate. eauto. Qed.

(* effect of add_use / del_use *)
Lemma add_use_spec s i v s' : add_use s i v = Ok s' ->
  exists x, get_i s i = Ok x /\
    (forall j, get_i s' j = if Nat.eqb j i then Ok (with_uses x (os_add v (i_uses x))) else get_i s j) /\
    (forall w, get_ub s' w = if Nat.eqb w v then os_add i (get_ub s v) else get_ub s w) /\
    (forall b, get_refs s' b = get_refs s b).
Proof.
  unfold add_use. intro H. apply bind_ok in H. destruct H as (x & Hx & H). injection H as <-.
  exists x. split; auto. split; [|split].
  - intro j. rewrite get_i_put_ub, get_i_put_i. reflexivity.
  - intro w. rewrite get_ub_put_ub, get_ub_put_i. reflexivity.
  - reflexivity.
Qed.
Lemma del_use_spec s i v s' : del_use s i v = Ok s' ->
  exists x, get_i s i = Ok x /\ In v (i_uses x) /\ In i (get_ub s v) /\
    (forall j, get_i s' j = if Nat.eqb j i then Ok (with_uses x (removen v (i_uses x))) else get_i s j) /\
    (forall w, get_ub s' w = if Nat.eqb w v then removen i (get_ub s v) else get_ub s w) /\
    (forall b, get_refs s' b = get_refs s b).
Proof.
  unfold del_use. intro H. apply bind_ok in H. destruct H as (x & Hx & H).
  apply bind_ok in H. destruct H as (u & Hu & H). apply os_remove_ok in Hu. destruct Hu as [Hu ->].
  apply bind_ok in H. destruct H as (ub & Hub & H). apply os_remove_ok in Hub.
  destruct Hub as [Hub ->]. injection H as <-. rewrite get_ub_put_i in *.
  exists x. repeat split; auto.
  - intro j. rewrite get_i_put_ub, get_i_put_i. reflexivity.
  - intro w. rewrite get_ub_put_ub, get_ub_put_i. reflexivity.
Qed.


(* ---------------------------------------------------------------- the def-use invariant *)
(* stored uses = operands for every instruction object, stored used_by = derived users *)
Definition DU (s : store) : Prop :=
  (forall i x, get_i s i = Ok x ->
     NoDup (i_uses x) /\ (forall v, In v (i_uses x) <-> In v (operands x)))
  /\ (forall v, NoDup (get_ub s v))
  /\ (forall v i, In i (get_ub s v) <-> exists x, get_i s i = Ok x /\ In v (i_uses x)).

(* s' differs from s only in instruction i and in the membership of i in used_by sets *)
Definition R (i : oid) (s s' : store) : Prop :=
  (forall j, j <> i -> get_i s' j = get_i s j) /\
  (forall w j, j <> i -> (In j (get_ub s' w) <-> In j (get_ub s w))) /\
  (forall b, get_refs s' b = get_refs s b).
(* the link between instruction i and the used_by sets *)
Definition W (i : oid) (s : store) : Prop :=
  (forall v, NoDup (get_ub s v)) /\
  (forall x, get_i s i = Ok x ->
     NoDup (i_uses x) /\ forall w, In i (get_ub s w) <-> In w (i_uses x)).

Lemma R_refl i s : R i s s.
Proof. repeat split; auto. Qed.
Lemma R_trans i s1 s2 s3 : R i s1 s2 -> R i s2 s3 -> R i s1 s3.
Proof.
  intros (A1 & A2 & A3) (B1 & B2 & B3). repeat split.
  - intros j Hj. rewrite B1, A1; auto.
  - intro H0. apply A2; auto. apply B2; auto.
  - intro H0. apply B2; auto. apply A2; auto.
  - intro b. rewrite B3, A3. reflexivity.
Qed.

Lemma DU_W s i : DU s -> W i s.
Proof.
  intros (D1 & D2 & D3). split; auto. intros x Hx. split; [apply (D1 i x Hx)|].
  intro w. rewrite D3. split.
  - intros (x' & E & H). congruence.
  - eauto.
Qed.

Lemma eqb_neq_false j i : j <> i -> Nat.eqb j i = false.
Proof. apply Nat.eqb_neq. Qed.

(* the three building blocks *)
Lemma put_i_step s i x x' : get_i s i = Ok x -> i_uses x' = i_uses x -> W i s ->
  W i (put_i s i x') /\ R i s (put_i s i x').
Proof.
  intros Hx Hu (W1 & W2). split; [split|repeat split]; auto.
  - intros y Hy. rewrite get_i_put_i, Nat.eqb_refl in Hy. injection Hy as <-.
    rewrite Hu. apply W2; auto.
  - intros j Hj. rewrite get_i_put_i, eqb_neq_false; auto.
Qed.

Lemma add_use_step s i v s' : add_use s i v = Ok s' -> W i s ->
  W i s' /\ R i s s' /\
  exists x, get_i s i = Ok x /\ get_i s' i = Ok (with_uses x (os_add v (i_uses x))).
Proof.
  intros H (W1 & W2). apply add_use_spec in H. destruct H as (x & Hx & Hi & Hub & Hr).
  destruct (W2 x Hx) as [N L]. split; [split|split].
  - intro w. rewrite Hub. destruct (Nat.eqb w v); auto. now apply NoDup_os_add.
  - intros y Hy. rewrite Hi, Nat.eqb_refl in Hy. injection Hy as <-. cbn.
    split; [now apply NoDup_os_add|]. intro w. rewrite Hub, In_os_add.
    destruct (Nat.eqb w v) eqn:E.
    + apply Nat.eqb_eq in E. subst w. rewrite In_os_add. intuition.
    + apply Nat.eqb_neq in E. rewrite L. intuition.
  - split; [|split].
    + intros j Hj. rewrite Hi, eqb_neq_false; auto.
    + intros w j Hj. rewrite Hub. destruct (Nat.eqb w v) eqn:E; [|tauto].
      apply Nat.eqb_eq in E. subst w. rewrite In_os_add. intuition.
    + auto.
  - exists x. split; auto. rewrite Hi, Nat.eqb_refl. reflexivity.
Qed.

Lemma del_use_step s i v s' : del_use s i v = Ok s' -> W i s ->
  W i s' /\ R i s s' /\
  exists x, get_i s i = Ok x /\ get_i s' i = Ok (with_uses x (removen v (i_uses x))).
Proof.
  intros H (W1 & W2). apply del_use_spec in H.
  destruct H as (x & Hx & Hv & Hiu & Hi & Hub & Hr).
  destruct (W2 x Hx) as [N L]. split; [split|split].
  - intro w. rewrite Hub. destruct (Nat.eqb w v); auto. now apply NoDup_removen.
  - intros y Hy. rewrite Hi, Nat.eqb_refl in Hy. injection Hy as <-. cbn.
    split; [now apply NoDup_removen|]. intro w. rewrite Hub, In_removen.
    destruct (Nat.eqb w v) eqn:E.
    + apply Nat.eqb_eq in E. subst w. rewrite In_removen. intuition.
    + apply Nat.eqb_neq in E. rewrite L. intuition.
  - split; [|split].
    + intros j Hj. rewrite Hi, eqb_neq_false; auto.
    + intros w j Hj. rewrite Hub. destruct (Nat.eqb w v) eqn:E; [|tauto].
      apply Nat.eqb_eq in E. subst w. rewrite In_removen. intuition.
    + auto.
  - exists x. split; auto. rewrite Hi, Nat.eqb_refl. reflexivity.
Qed.

(* closing lemma: only "uses = operands" of the rewritten instruction remains to be shown *)
Lemma DU_close s s' i x' : DU s -> R i s s' -> W i s' -> get_i s' i = Ok x' ->
  (forall v, In v (i_uses x') <-> In v (operands x')) -> DU s'.
Proof.
  intros (D1 & D2 & D3) (R1 & R2 & R3) (W1 & W2) Hx' Hop.
  destruct (W2 x' Hx') as [N L]. split; [|split]; auto.
  - intros j y Hy. destruct (Nat.eq_dec j i) as [->|Hj].
    + rewrite Hx' in Hy. injection Hy as <-. auto.
    + rewrite R1 in Hy by auto. eauto.
  - intros v j. destruct (Nat.eq_dec j i) as [->|Hj].
    + rewrite L. split; [eauto|]. intros (y & E & H). congruence.
    + rewrite R2, D3, R1 by auto. reflexivity.
Qed.


Lemma In_subst old new v l :
  In v (map (subst_n old new) l) <-> (In v l /\ v <> old) \/ (v = new /\ In old l).
Proof.
  induction l as [|y r IH]; cbn; [tauto|]. rewrite IH. unfold subst_n.
  destruct (Nat.eqb y old) eqn:E.
  - apply Nat.eqb_eq in E. subst y. intuition congruence.
  - apply Nat.eqb_neq in E. intuition congruence.
Qed.
Lemma map_snd_subst {A} old new (l : list (A * oid)) :
  map snd (map (fun p => (fst p, subst_n old new (snd p))) l) = map (subst_n old new) (map snd l).
Proof. rewrite !map_map. reflexivity. Qed.

(* shape of the record per kind (constructors of ir.py) *)
Definition kind_ok (x : inst) : Prop :=
  match i_kind x with
  | KPlain | KJump => i_args x = [] /\ i_inputs x = []
  | KCall => i_inputs x = []
  | KPhi => i_vars x = [] /\ i_args x = []
  end.

Definition U1 (old new : oid) (u : list oid) : list oid := os_add new (removen old u).
Lemma In_U1 old new u v : In v (U1 old new u) <-> (In v u /\ v <> old) \/ v = new.
Proof. unfold U1. rewrite In_os_add, In_removen. tauto. Qed.

(* Instruction.replace_use, repaired *)
Lemma base_spec s i old new s' x :
  W i s -> get_i s i = Ok x -> replace_use_base all_fixed s i old new = Ok s' ->
  W i s' /\ R i s s' /\
  get_i s' i = Ok (if memn old (map snd (i_vars x))
                   then with_uses (with_vars x (map (fun p => (fst p, subst_n old new (snd p))) (i_vars x)))
                                  (U1 old new (i_uses x))
                   else x).
Proof.
  intros HW Hx H. unfold replace_use_base in H. rewrite Hx in H. cbn in H.
  destruct (memn old (map snd (i_vars x))) eqn:E.
  - apply bind_ok in H. destruct H as (s2 & H2 & H3).
    set (x1 := with_vars x (map (fun p => (fst p, subst_n old new (snd p))) (i_vars x))) in *.
    destruct (put_i_step s i x x1 Hx eq_refl HW) as [W1 R1].
    assert (G1 : get_i (put_i s i x1) i = Ok x1) by (rewrite get_i_put_i, Nat.eqb_refl; auto).
    destruct (del_use_step _ _ _ _ H2 W1) as (W2 & R2 & y & Gy & G2).
    rewrite G1 in Gy. injection Gy as <-.
    destruct (add_use_step _ _ _ _ H3 W2) as (W3 & R3 & z & Gz & G3).
    rewrite G2 in Gz. injection Gz as <-.
    split; auto. split; [eapply R_trans; [eapply R_trans|]; eauto|]. exact G3.
  - injection H as <-. split; auto. split; [apply R_refl|auto].
Qed.

Lemma replace_use_plain_DU s i old new s' x :
  DU s -> get_i s i = Ok x -> i_args x = [] -> i_inputs x = [] ->
  replace_use_base all_fixed s i old new = Ok s' -> DU s'.
Proof.
  intros HD Hx Ha Hi H.
  destruct (base_spec s i old new s' x (DU_W s i HD) Hx H) as (W' & R' & G).
  eapply DU_close; eauto.
  destruct HD as (D1 & _). destruct (D1 i x Hx) as [_ L].
  destruct (memn old (map snd (i_vars x))) eqn:E; [|exact L].
  apply memn_In in E. intro v. cbn. unfold operands in *. cbn. rewrite Ha, Hi in *. cbn in *.
  rewrite app_nil_r in *. rewrite map_snd_subst, In_subst, In_U1, L.
  intuition.
Qed.


Definition KOK (s : store) : Prop := forall i x, get_i s i = Ok x -> kind_ok x.
Definition INV (s : store) : Prop := DU s /\ KOK s.

Lemma KOK_close s s' i x x' : KOK s -> R i s s' -> get_i s i = Ok x -> get_i s' i = Ok x' ->
  (kind_ok x -> kind_ok x') -> KOK s'.
Proof.
  intros K (R1 & _) Hx Hx' Hk j y Hy. destruct (Nat.eq_dec j i) as [->|Hj].
  - rewrite Hx' in Hy. injection Hy as <-. apply Hk. eapply K; eauto.
  - rewrite R1 in Hy by auto. eapply K; eauto.
Qed.

(* ---- FunctionCall / ProcedureCall.replace_use, repaired *)
Lemma call_spec s i old new s' x :
  W i s -> get_i s i = Ok x -> replace_use_call all_fixed s i old new = Ok s' ->
  exists x', W i s' /\ R i s s' /\ get_i s' i = Ok x' /\ i_kind x' = i_kind x /\
    i_inputs x' = i_inputs x /\ i_bmap x' = i_bmap x /\
    i_vars x' = (if memn old (map snd (i_vars x))
                 then map (fun p => (fst p, subst_n old new (snd p))) (i_vars x) else i_vars x) /\
    i_args x' = (if memn old (i_args x) then map (subst_n old new) (i_args x) else i_args x) /\
    (forall v, In v (i_uses x') <->
       if memn old (map snd (i_vars x)) || memn old (i_args x)
       then (In v (i_uses x) /\ v <> old) \/ v = new else In v (i_uses x)).
Proof.
  intros HW Hx H. unfold replace_use_call in H.
  apply bind_ok in H. destruct H as (s1 & Hb & H).
  destruct (base_spec s i old new s1 x HW Hx Hb) as (W1 & R1 & G1).
  rewrite G1 in H. cbn in H.
  set (xb := if memn old (map snd (i_vars x)) then _ else x) in *.
  assert (Eargs : i_args xb = i_args x) by (unfold xb; destruct (memn old (map snd (i_vars x))); reflexivity).
  rewrite Eargs in H.
  destruct (memn old (i_args x)) eqn:EA.
  - apply bind_ok in H. destruct H as (s3 & H3 & H4).
    set (x2 := with_args xb (map (subst_n old new) (i_args x))) in *.
    destruct (put_i_step s1 i xb x2 G1 eq_refl W1) as [W2 R2].
    assert (G2 : get_i (put_i s1 i x2) i = Ok x2) by (rewrite get_i_put_i, Nat.eqb_refl; auto).
    destruct (memn old (i_uses xb)) eqn:EU.
    + destruct (del_use_step _ _ _ _ H3 W2) as (W3 & R3 & y & Gy & G3).
      rewrite G2 in Gy. injection Gy as <-.
      destruct (add_use_step _ _ _ _ H4 W3) as (W4 & R4 & z & Gz & G4).
      rewrite G3 in Gz. injection Gz as <-.
      eexists. split; [exact W4|]. split; [eapply R_trans; [eapply R_trans; [eapply R_trans|]|]; eauto|].
      split; [exact G4|]. cbn. unfold xb.
      destruct (memn old (map snd (i_vars x))); cbn; repeat (split; [reflexivity|]);
        intro v; rewrite In_os_add, In_removen; cbn; rewrite ?In_U1; intuition.
    + injection H3 as <-.
      destruct (add_use_step _ _ _ _ H4 W2) as (W4 & R4 & z & Gz & G4).
      rewrite G2 in Gz. injection Gz as <-.
      apply memn_false in EU.
      eexists. split; [exact W4|]. split; [eapply R_trans; [eapply R_trans|]; eauto|].
      split; [exact G4|]. cbn. unfold xb in *.
      destruct (memn old (map snd (i_vars x))); cbn in *; repeat (split; [reflexivity|]);
        intro v; rewrite In_os_add; cbn; rewrite ?In_U1 in *.
      * tauto.
      * split; [intros [Hv|Hv]; auto; left; split; auto; intro; subst; auto|tauto].
  - injection H as <-. exists xb. split; auto. split; auto. split; auto. unfold xb.
    destruct (memn old (map snd (i_vars x))); cbn; repeat (split; [reflexivity|]); intro v; rewrite ?In_U1; tauto.
Qed.


Lemma orb_memn_app old a b : memn old a || memn old b = true <-> In old (a ++ b).
Proof. rewrite orb_true_iff, !memn_In, in_app_iff. tauto. Qed.

Lemma replace_use_call_INV s i old new s' x :
  INV s -> get_i s i = Ok x -> i_kind x = KCall ->
  replace_use_call all_fixed s i old new = Ok s' -> INV s'.
Proof.
  intros [HD HK] Hx Hk H.
  destruct (call_spec s i old new s' x (DU_W s i HD) Hx H)
    as (x' & W' & R' & G & E1 & E2 & E3 & E4 & E5 & E6).
  pose proof (HK i x Hx) as K. unfold kind_ok in K. rewrite Hk in K.
  split.
  - eapply DU_close; eauto.
    destruct HD as (D1 & _). destruct (D1 i x Hx) as [_ L].
    intro v. rewrite E6. unfold operands in *. rewrite E2, E4, E5, K in *. cbn in *.
    rewrite app_nil_r in *.
    destruct (memn old (map snd (i_vars x))) eqn:A; destruct (memn old (i_args x)) eqn:B; cbn;
      rewrite ?map_snd_subst, in_app_iff, ?In_subst, L, in_app_iff.
    + apply memn_In in A. apply memn_In in B. intuition.
    + apply memn_In in A. apply memn_false in B. split.
      * intros [[[Hv|Hv] Hn]|Hv]; auto.
      * intros [[[Hv Hn]|[Hv Ho]]|Hv]; auto. left. split; auto. intro; subst; auto.
    + apply memn_false in A. apply memn_In in B. split.
      * intros [[[Hv|Hv] Hn]|Hv]; auto.
      * intros [Hv|[[Hv Hn]|[Hv Ho]]]; auto. left. split; auto. intro; subst; auto.
    + tauto.
  - eapply KOK_close; eauto. unfold kind_ok. rewrite E1, E2, Hk. auto.
Qed.

(* ---- Instruction.replace_use on instructions without argument list / phi inputs *)
Lemma replace_use_base_INV s i old new s' x :
  INV s -> get_i s i = Ok x -> (i_kind x = KPlain \/ i_kind x = KJump) ->
  replace_use_base all_fixed s i old new = Ok s' -> INV s'.
Proof.
  intros [HD HK] Hx Hk H.
  pose proof (HK i x Hx) as K. unfold kind_ok in K.
  assert (K' : i_args x = [] /\ i_inputs x = []) by (destruct Hk as [E|E]; rewrite E in K; exact K).
  destruct K' as [Ka Ki]. split.
  - eapply replace_use_plain_DU; eauto.
  - destruct (base_spec s i old new s' x (DU_W s i HD) Hx H) as (W' & R' & G).
    eapply KOK_close; eauto. unfold kind_ok.
    destruct (memn old (map snd (i_vars x))); cbn; auto.
    destruct Hk as [E|E]; rewrite E; auto.
Qed.

(* ---- Phi.replace_use, repaired *)
Lemma replace_use_phi_INV s i old new s' x :
  INV s -> get_i s i = Ok x -> i_kind x = KPhi ->
  replace_use_phi all_fixed s i old new = Ok s' -> INV s'.
Proof.
  intros [HD HK] Hx Hk H. pose proof (DU_W s i HD) as HW.
  pose proof (HK i x Hx) as K. unfold kind_ok in K. rewrite Hk in K. destruct K as [Kv Ka].
  unfold replace_use_phi in H. rewrite Hx in H. cbn in H.
  destruct (memn old (map snd (i_inputs x))) eqn:E; [|discriminate].
  apply bind_ok in H. destruct H as (s2 & H2 & H3).
  set (x1 := with_inputs x (map (fun p => (fst p, subst_n old new (snd p))) (i_inputs x))) in *.
  destruct (put_i_step s i x x1 Hx eq_refl HW) as [W1 R1].
  assert (G1 : get_i (put_i s i x1) i = Ok x1) by (rewrite get_i_put_i, Nat.eqb_refl; auto).
  destruct (del_use_step _ _ _ _ H2 W1) as (W2 & R2 & y & Gy & G2).
  rewrite G1 in Gy. injection Gy as <-.
  destruct (add_use_step _ _ _ _ H3 W2) as (W3 & R3 & z & Gz & G3).
  rewrite G2 in Gz. injection Gz as <-.
  assert (RR : R i s s') by (eapply R_trans; [eapply R_trans|]; eauto).
  split.
  - eapply DU_close; eauto.
    destruct HD as (D1 & _). destruct (D1 i x Hx) as [_ L]. apply memn_In in E.
    intro v. cbn. unfold operands in *. cbn. rewrite Kv, Ka in *. cbn in *.
    rewrite map_snd_subst, In_subst, In_os_add, In_removen, L. intuition.
  - eapply KOK_close; eauto. unfold kind_ok. cbn. rewrite Hk. auto.
Qed.

(* ---- the dispatcher and Value.replace_by *)
Theorem replace_use_INV s i old new s' :
  INV s -> replace_use all_fixed s i old new = Ok s' -> INV s'.
Proof.
  intros HI H. unfold replace_use in H. apply bind_ok in H. destruct H as (x & Hx & H).
  destruct (i_kind x) eqn:K.
  - eapply replace_use_base_INV; eauto.
  - eapply replace_use_call_INV; eauto.
  - eapply replace_use_phi_INV; eauto.
  - eapply replace_use_base_INV; eauto.
Qed.

Lemma replace_by_loop_INV v new : forall users s s',
  INV s -> replace_by_loop all_fixed s v new users = Ok s' -> INV s'.
Proof.
  induction users as [|u r IH]; cbn; intros s s' HI H.
  - injection H as <-. exact HI.
  - apply bind_ok in H. destruct H as (s1 & H1 & H2).
    eapply IH; [|exact H2]. eapply replace_use_INV; eauto.
Qed.
Theorem replace_by_INV s v new s' : INV s -> replace_by all_fixed s v new = Ok s' -> INV s'.
Proof. unfold replace_by. apply replace_by_loop_INV. Qed.


Lemma snd_split {A} b (l : list (nat * A)) w :
  In w (map snd l) <-> nget b l = Some w \/ In w (map snd (ndel b l)).
Proof.
  induction l as [|[k v] r IH]; cbn; [intuition discriminate|].
  destruct (Nat.eqb b k); cbn; [intuition congruence|]. rewrite IH. tauto.
Qed.
Lemma snd_nset {A} b (v : A) l w :
  In w (map snd (nset b v l)) <-> w = v \/ In w (map snd (ndel b l)).
Proof.
  induction l as [|[k v'] r IH]; cbn; [intuition|].
  destruct (Nat.eqb b k); cbn; [intuition|]. rewrite IH. tauto.
Qed.
Lemma ndel_none {A} b (l : list (nat * A)) : nget b l = None -> ndel b l = l.
Proof.
  induction l as [|[k v] r IH]; cbn; auto. destruct (Nat.eqb b k); [discriminate|].
  intro H. now rewrite IH.
Qed.

Lemma INV_close s s' i x x' : INV s -> R i s s' -> W i s' -> get_i s i = Ok x ->
  get_i s' i = Ok x' -> (forall v, In v (i_uses x') <-> In v (operands x')) ->
  (kind_ok x -> kind_ok x') -> INV s'.
Proof.
  intros [HD HK] HR HW Hx Hx' Hop Hk. split.
  - eapply DU_close; eauto.
  - eapply KOK_close; eauto.
Qed.

(* ---- Phi.del_incoming, repaired *)
Theorem del_incoming_INV s i b s' x :
  INV s -> get_i s i = Ok x -> i_kind x = KPhi ->
  del_incoming all_fixed s i b = Ok s' -> INV s'.
Proof.
  intros [HD HK] Hx Hk H. pose proof (DU_W s i HD) as HW.
  pose proof (HK i x Hx) as K. unfold kind_ok in K. rewrite Hk in K. destruct K as [Kv Ka].
  pose proof HD as (D1 & D2 & D3). destruct (D1 i x Hx) as [_ L].
  unfold del_incoming in H. rewrite Hx in H. cbn in H.
  destruct (nget b (i_inputs x)) as [v|] eqn:E; [|discriminate]. cbn in H.
  set (x1 := with_inputs x (ndel b (i_inputs x))) in *.
  destruct (put_i_step s i x x1 Hx eq_refl HW) as [W1 R1].
  assert (G1 : get_i (put_i s i x1) i = Ok x1) by (rewrite get_i_put_i, Nat.eqb_refl; auto).
  assert (Lx : forall w, In w (i_uses x) <-> w = v \/ In w (map snd (ndel b (i_inputs x)))).
  { intro w. rewrite L. unfold operands. rewrite Kv, Ka. cbn. rewrite (snd_split b (i_inputs x) w), E.
    intuition congruence. }
  assert (KK : kind_ok x -> kind_ok x1) by (unfold kind_ok; cbn; rewrite Hk; auto).
  match type of H with context [if ?c then _ else _] => destruct c eqn:M end.
  - injection H as <-.
    eapply (INV_close s _ i x x1); [split; assumption|exact R1|exact W1|exact Hx|exact G1| |exact KK].
    intro w. cbn. unfold operands. cbn. rewrite Kv, Ka. cbn. rewrite Lx.
    apply memn_In in M. cbn in M. intuition. subst. auto.
  - destruct (del_use_step _ _ _ _ H W1) as (W2 & R2 & y & Gy & G2).
    rewrite G1 in Gy. injection Gy as <-.
    eapply (INV_close s s' i x); [split; assumption|eapply R_trans; [exact R1|exact R2]|exact W2|exact Hx|exact G2| |exact KK].
    intro w. cbn. unfold operands. cbn. rewrite Kv, Ka. cbn. rewrite In_removen, Lx.
    apply memn_false in M. cbn in M. intuition. subst. auto.
Qed.

(* ---- Phi.set_incoming, repaired *)
Theorem set_incoming_INV s i b v s' x :
  INV s -> get_i s i = Ok x -> i_kind x = KPhi ->
  set_incoming all_fixed s i b v = Ok s' -> INV s'.
Proof.
  intros [HD HK] Hx Hk H. pose proof (DU_W s i HD) as HW.
  pose proof (HK i x Hx) as K. unfold kind_ok in K. rewrite Hk in K. destruct K as [Kv Ka].
  pose proof HD as (D1 & D2 & D3). destruct (D1 i x Hx) as [_ L].
  unfold set_incoming in H. rewrite Hx in H. cbn in H.
  set (x1 := with_inputs x (nset b v (i_inputs x))) in *.
  destruct (put_i_step s i x x1 Hx eq_refl HW) as [W1 R1].
  assert (G1 : get_i (put_i s i x1) i = Ok x1) by (rewrite get_i_put_i, Nat.eqb_refl; auto).
  assert (KK : kind_ok x -> kind_ok x1) by (unfold kind_ok; cbn; rewrite Hk; auto).
  assert (Lx : forall w, In w (i_uses x) <-> In w (map snd (i_inputs x))).
  { intro w. rewrite L. unfold operands. rewrite Kv, Ka. cbn. tauto. }
  apply bind_ok in H. destruct H as (s2 & H2 & H3).
  assert (Hop : forall w, In w (operands x1) <-> w = v \/ In w (map snd (ndel b (i_inputs x)))).
  { intro w. unfold operands. cbn. rewrite Kv, Ka. cbn. apply snd_nset. }
  destruct (nget b (i_inputs x)) as [o|] eqn:E.
  - cbn in H2. match type of H2 with context [if ?c then _ else _] => destruct c eqn:M end.
    + injection H2 as <-.
      destruct (add_use_step _ _ _ _ H3 W1) as (W3 & R3 & z & Gz & G3).
      rewrite G1 in Gz. injection Gz as <-.
      eapply (INV_close s s' i x); [split; assumption|eapply R_trans; [exact R1|exact R3]|exact W3|exact Hx|exact G3| |exact KK].
      * intro w. cbn [i_uses with_uses]. change (i_uses x1) with (i_uses x). rewrite In_os_add, Lx.
        change (operands (with_uses x1 (os_add v (i_uses x1)))) with (operands x1). rewrite Hop.
        rewrite (snd_split b (i_inputs x) w), E. apply memn_In in M. rewrite snd_nset in M.
        split; [intros [[Hs|Hr]|Hv]; auto; injection Hs as <-; destruct M; auto | intros [Hv|Hr]; auto].
    + destruct (del_use_step _ _ _ _ H2 W1) as (W2 & R2 & y & Gy & G2).
      rewrite G1 in Gy. injection Gy as <-.
      destruct (add_use_step _ _ _ _ H3 W2) as (W3 & R3 & z & Gz & G3).
      rewrite G2 in Gz. injection Gz as <-.
      eapply (INV_close s s' i x); [split; assumption|eapply R_trans; [eapply R_trans; [exact R1|exact R2]|exact R3]|exact W3|exact Hx|exact G3| |exact KK].
      * intro w. cbn [i_uses with_uses]. change (i_uses x1) with (i_uses x). rewrite In_os_add, In_removen, Lx.
        change (operands (with_uses (with_uses x1 (removen o (i_uses x1)))
                                    (os_add v (removen o (i_uses x1))))) with (operands x1).
        rewrite Hop. rewrite (snd_split b (i_inputs x) w), E. apply memn_false in M. rewrite snd_nset in M.
        split; [intros [[[Hs|Hr] Hn]|Hv]; auto; congruence | intros [Hv|Hr]; auto; left; split; auto; intro; subst; apply M; auto].
  - injection H2 as <-.
    destruct (add_use_step _ _ _ _ H3 W1) as (W3 & R3 & z & Gz & G3).
    rewrite G1 in Gz. injection Gz as <-.
    eapply (INV_close s s' i x); [split; assumption|eapply R_trans; [exact R1|exact R3]|exact W3|exact Hx|exact G3| |exact KK].
    intro w. cbn [i_uses with_uses]. change (i_uses x1) with (i_uses x). rewrite In_os_add, Lx.
    change (operands (with_uses x1 (os_add v (i_uses x1)))) with (operands x1). rewrite Hop.
    rewrite (ndel_none b _ E). tauto.
Qed.

Lemma INV_empty : INV empty_store.
Proof.
  split; [split; [|split]|].
  - intros i x H. discriminate H.
  - intro v. constructor.
  - intros v i. cbn. split; [tauto|]. intros (x & H & _). discriminate H.
  - intros i x H. discriminate H.
Qed.
