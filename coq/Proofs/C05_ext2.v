(* Proofs/C05_ext2.v — C05: the multi-instruction sub-word rules (SHRU8/16, SHRI8/16 extend the left operand
   then shift; DIVU16/REMU16 (and 8) zero-extend both operands then divide) are sound in the sense of
   [rule_correct]; the address-producing rows without code (mem: reg, mem: FPRELU32) and reg: FPRELU32. *)
From PV Require Import Lib.Py Lib.Tac Spec.IRSyntax Spec.IRSem Spec.RV32Decode Spec.RV32Exec Model.RvRules
  Proofs.C07_exec Proofs.C05_arith Proofs.C05_rules Proofs.C05_mem Proofs.C05_ext.
From Coq Require Import String.
Open Scope Z_scope.
Open Scope list_scope.

Lemma nth_fresh_facts e i d : env_ok e -> nth_error (e_fresh e) i = Some d ->
  d <> 0 /\ ~ In d (e_child e) /\ In d (e_fresh e).
Proof.
  intros [H _] Hd. assert (In d (e_fresh e)) by (eapply nth_error_In; eauto). destruct (H d H0). auto.
Qed.

Lemma nth_fresh_neq e i j di dj : env_ok e -> i <> j ->
  nth_error (e_fresh e) i = Some di -> nth_error (e_fresh e) j = Some dj -> di <> dj.
Proof.
  intros [_ Hnd] Hij Hi Hj E. subst dj. rewrite NoDup_nth_error in Hnd.
  apply Hij. apply Hnd; [apply nth_error_Some; congruence|congruence].
Qed.

Lemma ext_seq_state bits sg d0 c0 d1 c1 s :
  (bits = 8 \/ bits = 16) -> d0 <> 0 -> d1 <> 0 -> d0 <> d1 -> d0 <> c1 ->
  let s' := exec_seq (ext_seq sg (32 - bits) d0 c0 d1 c1) s in
  (0 <= getreg s' d0 < 4294967296 /\ wrap_bits 32 sg (getreg s' d0) = wrap_bits bits sg (getreg s c0)) /\
  (0 <= getreg s' d1 < 4294967296 /\ wrap_bits 32 sg (getreg s' d1) = wrap_bits bits sg (getreg s c1)) /\
  (forall x, x <> d0 -> x <> d1 -> getreg s' x = getreg s x) /\
  (forall a, loadbyte s' a = loadbyte s a).
Proof.
  intros Hbits H0 H1 H01 H0c1. unfold ext_seq.
  change [ROpImm ISLLI d0 c0 (32 - bits); ROpImm (ext_op sg) d0 d0 (32 - bits);
          ROpImm ISLLI d1 c1 (32 - bits); ROpImm (ext_op sg) d1 d1 (32 - bits)]
    with ([ROpImm ISLLI d0 c0 (32 - bits); ROpImm (ext_op sg) d0 d0 (32 - bits)] ++
          [ROpImm ISLLI d1 c1 (32 - bits); ROpImm (ext_op sg) d1 d1 (32 - bits)]).
  assert (Happ : forall l1 l2 st, exec_seq (l1 ++ l2) st = exec_seq l2 (exec_seq l1 st))
    by (induction l1; intros; cbn; auto).
  rewrite Happ. cbv zeta.
  destruct (ext_pair sg (32 - bits) d0 c0 s H0) as (V0 & F0 & M0).
  set (sa := exec_seq [ROpImm ISLLI d0 c0 (32 - bits); ROpImm (ext_op sg) d0 d0 (32 - bits)] s) in *.
  destruct (ext_pair sg (32 - bits) d1 c1 sa H1) as (V1 & F1 & M1).
  set (sb := exec_seq [ROpImm ISLLI d1 c1 (32 - bits); ROpImm (ext_op sg) d1 d1 (32 - bits)] sa) in *.
  assert (Gc1 : getreg sa c1 = getreg s c1) by (apply F0; congruence).
  assert (G0 : getreg sb d0 = getreg sa d0) by (apply F1; congruence).
  pose proof (getreg_range s c0) as R0. pose proof (getreg_range s c1) as R1.
  change (2 ^ 32) with 4294967296 in R0, R1.
  destruct (ext_reg bits sg (getreg s c0) Hbits R0) as (Re0 & Ee0).
  destruct (ext_reg bits sg (getreg s c1) Hbits R1) as (Re1 & Ee1).
  split; [rewrite G0, V0; split; assumption|].
  split; [rewrite V1, Gc1; split; assumption|].
  split.
  - intros x Hx0 Hx1. rewrite F1, F0 by assumption. reflexivity.
  - intros a. now rewrite M1, M0.
Qed.

Lemma expand_plain mn ops : String.eqb mn "li" = false -> expand_item mn ops = [(mn, ops)].
Proof. unfold expand_item. now intros ->. Qed.
Lemma trv_slli d a k : to_rv ("slli"%string, [d; a; k]) = Some (ROpImm ISLLI d a k). Proof. reflexivity. Qed.
Lemma trv_srli d a k : to_rv ("srli"%string, [d; a; k]) = Some (ROpImm ISRLI d a k). Proof. reflexivity. Qed.
Lemma trv_srai d a k : to_rv ("srai"%string, [d; a; k]) = Some (ROpImm ISRAI d a k). Proof. reflexivity. Qed.
Lemma trv_srl d a b : to_rv ("srl"%string, [d; a; b]) = Some (ROp RSRL d a b). Proof. reflexivity. Qed.
Lemma trv_sra d a b : to_rv ("sra"%string, [d; a; b]) = Some (ROp RSRA d a b). Proof. reflexivity. Qed.
Lemma trv_divu d a b : to_rv ("divu"%string, [d; a; b]) = Some (ROp RDIVU d a b). Proof. reflexivity. Qed.
Lemma trv_remu d a b : to_rv ("remu"%string, [d; a; b]) = Some (ROp RREMU d a b). Proof. reflexivity. Qed.

Ltac norm_inst H :=
  rewrite ?(expand_plain "slli"), ?(expand_plain "srli"), ?(expand_plain "srai"), ?(expand_plain "srl"),
          ?(expand_plain "sra"), ?(expand_plain "divu"), ?(expand_plain "remu") in H by reflexivity;
  cbn [List.app to_rv_all] in H;
  rewrite ?trv_slli, ?trv_srli, ?trv_srai, ?trv_srl, ?trv_sra, ?trv_divu, ?trv_remu in H.

Definition shr_mn (sg : bool) : string := if sg then "sra"%string else "srl"%string.
Definition shr_op (sg : bool) : rop := if sg then RSRA else RSRL.

Definition check_subword_bin (r : rule) : bool :=
  match r_cond r with CTrue => true | _ => false end &&
  match tree_sem (r_tree r) with
  | Some (SemBin o t (LChild 0) (LChild 1)) =>
      match shape t with
      | Some (bits, sg) =>
          ((bits =? 8) || (bits =? 16)) &&
          match o with
          | Shr =>
              body_is r [("slli"%string, [SFresh 0; SChild 0; SLit (32 - bits)]);
                         (shift_mn sg, [SFresh 0; SFresh 0; SLit (32 - bits)]);
                         (shr_mn sg, [SFresh 0; SFresh 0; SChild 1])] && res_is r [SFresh 0]
          | Div | Rem =>
              negb sg &&
              body_is r [("slli"%string, [SFresh 0; SChild 0; SLit (32 - bits)]);
                         ("srli"%string, [SFresh 0; SFresh 0; SLit (32 - bits)]);
                         ("slli"%string, [SFresh 1; SChild 1; SLit (32 - bits)]);
                         ("srli"%string, [SFresh 1; SFresh 1; SLit (32 - bits)]);
                         ((match o with Div => "divu" | _ => "remu" end)%string, [SFresh 2; SFresh 0; SFresh 1])] &&
              res_is r [SFresh 2]
          | _ => false
          end
      | None => false
      end
  | _ => false
  end.

Lemma rep_wrap bits sg x : 0 < bits <= 32 -> rep bits (u32 x) (wrap_bits bits sg x).
Proof. intros H. apply rep_u32; [lia|]. unfold rep. now rewrite wrap_bits_mod by lia. Qed.

Theorem check_subword_bin_sound r : check_subword_bin r = true -> rule_correct r.
Proof.
  unfold check_subword_bin. intros Hck. apply andb_prop in Hck. destruct Hck as [_ Hck].
  intros sem e s il bits sg v Hsem Hshape Henv Hcond Htyped Hc32 Hinst Hval.
  rewrite Hsem in Hck.
  destruct sem as [o t [[|?]|?] [[|[|?]]|?]|t]; try discriminate Hck.
  cbn [sem_type] in Hshape. rewrite Hshape in Hck.
  apply andb_prop in Hck. destruct Hck as [Hb8 Hck].
  assert (Hbits : bits = 8 \/ bits = 16) by (apply orb_prop in Hb8; destruct Hb8 as [H|H]; apply Z.eqb_eq in H; auto).
  destruct (shape_props _ _ _ Hshape) as [Hs Hb].
  cbn [sem_value] in Hval. rewrite Hshape in Hval. cbn [leaf_val] in Hval.
  destruct (nth_error (e_child e) 0) as [c0|] eqn:H0; [|discriminate].
  destruct (nth_error (e_child e) 1) as [c1|] eqn:H1; [|discriminate].
  inversion Hval as [Hev]. clear Hval. unfold eval_binop in Hev. rewrite Hs in Hev. unfold val in Hev.
  pose proof (getreg_range s c0) as R0. pose proof (getreg_range s c1) as R1.
  change (2 ^ 32) with 4294967296 in R0, R1.
  set (a := getreg s c0) in *. set (b := getreg s c1) in *.
  destruct o; try discriminate Hck.
  - (* Div *)
    apply andb_prop in Hck. destruct Hck as [Hck Hr]. apply andb_prop in Hck. destruct Hck as [Hsg Hbd].
    destruct sg; [discriminate|]. apply body_is_eq in Hbd. apply sopnds_eqb_eq in Hr.
    unfold instantiate in Hinst. rewrite Hbd in Hinst. cbn [body_items opnds_val opnd_val] in Hinst. rewrite H0, H1 in Hinst.
    destruct (nth_error (e_fresh e) 0) as [d0|] eqn:Hd0; [|discriminate].
    destruct (nth_error (e_fresh e) 1) as [d1|] eqn:Hd1; [|discriminate].
    destruct (nth_error (e_fresh e) 2) as [d2|] eqn:Hd2; [|discriminate].
    destruct (nth_fresh_facts e _ _ Henv Hd0) as (N0 & C0 & I0). destruct (nth_fresh_facts e _ _ Henv Hd1) as (N1 & C1 & I1).
    destruct (nth_fresh_facts e _ _ Henv Hd2) as (N2 & C2 & I2).
    assert (D01 : d0 <> d1) by (eapply (nth_fresh_neq e 0 1); eauto).
    assert (D02 : d0 <> d2) by (eapply (nth_fresh_neq e 0 2); eauto).
    assert (D12 : d1 <> d2) by (eapply (nth_fresh_neq e 1 2); eauto).
    assert (D0c1 : d0 <> c1) by (intros ->; apply C0; eapply nth_error_In; eauto).
    assert (Hil : il = ext_seq false (32 - bits) d0 c0 d1 c1 ++ [ROp RDIVU d2 d0 d1])
      by (norm_inst Hinst; unfold ext_seq; cbn [ext_op List.app]; congruence).
    subst il.
    assert (Happ : forall l1 l2 st, exec_seq (l1 ++ l2) st = exec_seq l2 (exec_seq l1 st))
      by (induction l1; intros; cbn; auto).
    rewrite Happ. destruct (ext_seq_state bits false d0 c0 d1 c1 s Hbits N0 N1 D01 D0c1) as ((Ra & Ea) & (Rb & Eb) & F & M).
    set (s1 := exec_seq (ext_seq false (32 - bits) d0 c0 d1 c1) s) in *. fold a in Ea. fold b in Eb.
    cbn [exec_seq]. destruct (exec_rop RDIVU d2 d0 d1 s1 N2) as (V & F2 & M2).
    rewrite (wrap32u _ ltac:(change (2 ^ 32) with 4294967296; exact Ra)) in Ea.
    rewrite (wrap32u _ ltac:(change (2 ^ 32) with 4294967296; exact Rb)) in Eb.
    destruct (wrap_bits bits false b =? 0) eqn:Ez; [discriminate|]. cbn [andb] in Hev. inversion Hev; subst v.
    exists d2. rewrite Hr. cbn [opnds_val opnd_val]. rewrite Hd2. split; [reflexivity|]. split; [|split].
    + rewrite V, Ea, Eb. cbn [alu_r]. rewrite Ez.
      assert (0 <= wrap_bits bits false a) by (rewrite <- Ea; lia).
      assert (0 < wrap_bits bits false b) by (apply Z.eqb_neq in Ez; rewrite <- Eb in *; lia).
      rewrite Z.quot_div_nonneg by lia. apply rep_wrap. lia.
    + intros x Hx. rewrite F2, F; auto; intros ->; contradiction.
    + intros m. now rewrite M2, M.
  - (* Rem *)
    apply andb_prop in Hck. destruct Hck as [Hck Hr]. apply andb_prop in Hck. destruct Hck as [Hsg Hbd].
    destruct sg; [discriminate|]. apply body_is_eq in Hbd. apply sopnds_eqb_eq in Hr.
    unfold instantiate in Hinst. rewrite Hbd in Hinst. cbn [body_items opnds_val opnd_val] in Hinst. rewrite H0, H1 in Hinst.
    destruct (nth_error (e_fresh e) 0) as [d0|] eqn:Hd0; [|discriminate].
    destruct (nth_error (e_fresh e) 1) as [d1|] eqn:Hd1; [|discriminate].
    destruct (nth_error (e_fresh e) 2) as [d2|] eqn:Hd2; [|discriminate].
    destruct (nth_fresh_facts e _ _ Henv Hd0) as (N0 & C0 & I0). destruct (nth_fresh_facts e _ _ Henv Hd1) as (N1 & C1 & I1).
    destruct (nth_fresh_facts e _ _ Henv Hd2) as (N2 & C2 & I2).
    assert (D01 : d0 <> d1) by (eapply (nth_fresh_neq e 0 1); eauto).
    assert (D0c1 : d0 <> c1) by (intros ->; apply C0; eapply nth_error_In; eauto).
    assert (Hil : il = ext_seq false (32 - bits) d0 c0 d1 c1 ++ [ROp RREMU d2 d0 d1])
      by (norm_inst Hinst; unfold ext_seq; cbn [ext_op List.app]; congruence).
    subst il.
    assert (Happ : forall l1 l2 st, exec_seq (l1 ++ l2) st = exec_seq l2 (exec_seq l1 st))
      by (induction l1; intros; cbn; auto).
    rewrite Happ. destruct (ext_seq_state bits false d0 c0 d1 c1 s Hbits N0 N1 D01 D0c1) as ((Ra & Ea) & (Rb & Eb) & F & M).
    set (s1 := exec_seq (ext_seq false (32 - bits) d0 c0 d1 c1) s) in *. fold a in Ea. fold b in Eb.
    cbn [exec_seq]. destruct (exec_rop RREMU d2 d0 d1 s1 N2) as (V & F2 & M2).
    rewrite (wrap32u _ ltac:(change (2 ^ 32) with 4294967296; exact Ra)) in Ea.
    rewrite (wrap32u _ ltac:(change (2 ^ 32) with 4294967296; exact Rb)) in Eb.
    destruct (wrap_bits bits false b =? 0) eqn:Ez; [discriminate|]. cbn [andb] in Hev. inversion Hev; subst v.
    exists d2. rewrite Hr. cbn [opnds_val opnd_val]. rewrite Hd2. split; [reflexivity|]. split; [|split].
    + rewrite V, Ea, Eb. cbn [alu_r]. rewrite Ez.
      assert (0 <= wrap_bits bits false a) by (rewrite <- Ea; lia).
      assert (0 < wrap_bits bits false b) by (apply Z.eqb_neq in Ez; rewrite <- Eb in *; lia).
      rewrite Z.rem_mod_nonneg by lia. apply rep_wrap. lia.
    + intros x Hx. rewrite F2, F; auto; intros ->; contradiction.
    + intros m. now rewrite M2, M.
  - (* Shr *)
    apply andb_prop in Hck. destruct Hck as [Hbd Hr]. apply body_is_eq in Hbd. apply sopnds_eqb_eq in Hr.
    unfold instantiate in Hinst. rewrite Hbd in Hinst. cbn [body_items opnds_val opnd_val] in Hinst. rewrite H0, H1 in Hinst.
    destruct (nth_error (e_fresh e) 0) as [d|] eqn:Hd0; [|discriminate].
    destruct (nth_fresh_facts e _ _ Henv Hd0) as (N0 & C0 & I0).
    assert (Dc1 : c1 <> d) by (intros ->; apply C0; eapply nth_error_In; eauto).
    assert (Hil : il = [ROpImm ISLLI d c0 (32 - bits); ROpImm (ext_op sg) d d (32 - bits)] ++ [ROp (shr_op sg) d d c1])
      by (destruct sg; cbn [shift_mn shr_mn] in Hinst; norm_inst Hinst; cbn [ext_op shr_op List.app]; congruence).
    subst il.
    assert (Happ : forall l1 l2 st, exec_seq (l1 ++ l2) st = exec_seq l2 (exec_seq l1 st))
      by (induction l1; intros; cbn; auto).
    rewrite Happ. destruct (ext_pair sg (32 - bits) d c0 s N0) as (V0 & F0 & M0).
    set (s1 := exec_seq [ROpImm ISLLI d c0 (32 - bits); ROpImm (ext_op sg) d d (32 - bits)] s) in *.
    destruct (ext_reg bits sg a Hbits R0) as (Re & Ee). fold a in V0.
    cbn [exec_seq]. destruct (exec_rop (shr_op sg) d d c1 s1 N0) as (V & F2 & M2).
    destruct ((0 <=? wrap_bits bits sg b) && (wrap_bits bits sg b <? bits)) eqn:Ok; [|discriminate].
    inversion Hev; subst v.
    assert (Hsh : b mod 32 = wrap_bits bits sg b) by (apply shamt_eq; [lia|clear - Ok; lia]).
    exists d. rewrite Hr. cbn [opnds_val opnd_val]. rewrite Hd0. split; [reflexivity|]. split; [|split].
    + rewrite V, V0, (F0 c1 Dc1). fold b.
      set (E := u32 (alu_i (ext_op sg) (u32 (alu_i ISLLI a (32 - bits))) (32 - bits))) in *.
      destruct sg; cbn [shr_op alu_r]; rewrite Hsh.
      * rewrite (s32_is_wrap E), Ee. apply rep_u32; [lia|]. apply rep_wrap. lia.
      * rewrite <- Ee. rewrite (wrap32u E) by (change (2 ^ 32) with 4294967296; exact Re).
        apply rep_u32; [lia|]. unfold rep. rewrite wrap_bits_mod by lia. reflexivity.
    + intros x Hx. rewrite F2, F0; auto; intros ->; contradiction.
    + intros m. now rewrite M2, M0.
Qed.

(* ------------------------------------------------------------------ address rows *)
Definition off12_cond (r : rule) : bool :=
  (-2048 <=? cond_lo (r_cond r) [] 32 true) && (cond_hi (r_cond r) [] 32 true <=? 2048) && cond_known (r_cond r).

(* mem-producing rows: no code; the (base, offset) pair handed to the load/store rows has a 12-bit offset *)
Definition check_memprod (r : rule) : bool :=
  String.eqb (r_nt r) "mem" && body_is r [] &&
  match r_tree r with
  | TNT nt => String.eqb nt "reg" && res_is r [SChild 0; SLit 0]
  | TOp op _ _ [] => String.eqb op "FPREL" && res_is r [SPhys 8; SConst []] && off12_cond r
  | _ => false
  end.

Definition memprod_correct (r : rule) : Prop :=
  r_body r = [] /\
  forall e b off, cond_holds (r_cond r) (e_const e) -> consts_i32 e ->
    opnds_val e (r_result r) = Some [b; off] -> -2048 <= off < 2048.

Theorem check_memprod_sound r : check_memprod r = true -> memprod_correct r.
Proof.
  unfold check_memprod. intros H. apply andb_prop in H. destruct H as [H Ht]. apply andb_prop in H. destruct H as [_ Hb].
  apply body_is_eq in Hb. split; [exact Hb|]. intros e b off Hc Hi Hres.
  destruct (r_tree r) as [nt|op ty frm [|? ?]]; try discriminate.
  - apply andb_prop in Ht. destruct Ht as [_ Hr]. apply sopnds_eqb_eq in Hr. rewrite Hr in Hres.
    cbn [opnds_val opnd_val] in Hres. destruct (nth_error (e_child e) 0); [|discriminate]. inversion Hres. lia.
  - apply andb_prop in Ht. destruct Ht as [Ht Hoff]. apply andb_prop in Ht. destruct Ht as [_ Hr].
    apply sopnds_eqb_eq in Hr. rewrite Hr in Hres. cbn [opnds_val opnd_val] in Hres.
    destruct (const_at (e_const e) []) as [c|] eqn:Hcst; [|discriminate]. inversion Hres; subst.
    unfold off12_cond in Hoff. apply andb_prop in Hoff. destruct Hoff as [Hoff _].
    pose proof (cond_bounds _ _ _ 32 true _ Hc Hcst (Hi _ _ Hcst)). lia.
Qed.

(* reg: FPRELU32 - the address fp + offset (before RiscvArch.peephole adds the frame adjustment) *)
Definition check_fprel_reg (r : rule) : bool :=
  String.eqb (r_nt r) "reg" &&
  match r_tree r with
  | TOp op _ _ [] => String.eqb op "FPREL"
  | _ => false
  end && body_is r [("addi"%string, [SFresh 0; SPhys 8; SConst []])] && res_is r [SFresh 0] && off12_cond r.

Definition fprel_correct (r : rule) : Prop :=
  forall e s il c, env_ok e -> cond_holds (r_cond r) (e_const e) -> consts_i32 e ->
    const_at (e_const e) [] = Some c -> instantiate r e = Some il ->
    exists d, opnds_val e (r_result r) = Some [d] /\
      getreg (exec_seq il s) d = u32 (getreg s 8 + c) /\
      (forall x, ~ In x (e_fresh e) -> getreg (exec_seq il s) x = getreg s x) /\
      (forall a, loadbyte (exec_seq il s) a = loadbyte s a).

Theorem check_fprel_reg_sound r : check_fprel_reg r = true -> fprel_correct r.
Proof.
  unfold check_fprel_reg. intros H. apply andb_prop in H. destruct H as [H Hoff]. apply andb_prop in H. destruct H as [H Hr].
  apply andb_prop in H. destruct H as [_ Hb]. apply body_is_eq in Hb. apply sopnds_eqb_eq in Hr.
  intros e s il c Henv Hc Hi Hcst Hinst.
  unfold off12_cond in Hoff. apply andb_prop in Hoff. destruct Hoff as [Hoff _].
  pose proof (cond_bounds _ _ _ 32 true _ Hc Hcst (Hi _ _ Hcst)) as Hcb.
  unfold instantiate in Hinst. rewrite Hb in Hinst. cbn [body_items opnds_val opnd_val] in Hinst. rewrite Hcst in Hinst.
  destruct (nth_error (e_fresh e) 0) as [d|] eqn:Hd; [|discriminate].
  destruct (fresh0_facts e d Henv Hd) as (Hd0 & _ & Hfr).
  rewrite (expand_plain "addi") in Hinst by reflexivity. cbn [List.app to_rv_all] in Hinst.
  assert (T : to_rv ("addi"%string, [d; 8; c]) = Some (ROpImm IADDI d 8 (imm12 c))) by reflexivity.
  rewrite T in Hinst. assert (Hil : il = [ROpImm IADDI d 8 (imm12 c)]) by congruence. subst il.
  cbn [exec_seq]. destruct (exec_ropimm IADDI d 8 (imm12 c) s Hd0) as (V & F & M).
  exists d. rewrite Hr. cbn [opnds_val opnd_val]. rewrite Hd. split; [reflexivity|]. split; [|split; [|exact M]].
  - rewrite V. cbn [alu_i]. rewrite sext12_small by lia. apply u32_idem.
  - intros x Hx. apply F. now apply Hfr.
Qed.

Definition check_rule4 (r : rule) : bool := check_subword_bin r || check_memprod r || check_fprel_reg r.
