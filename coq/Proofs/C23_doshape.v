(* Proofs/C23_doshape.v — the control skeleton emitted by do_shape (block/loop/if + br depth
   indices) executes like the shape tree it was generated from (C23). *)
From Coq Require Import List Bool Arith Lia.
Import ListNotations.
From PV Require Import Spec.StructSpec Spec.WasmCtlSpec Model.ShapeCheck Model.ShapeCompile.
From PV Require Import Proofs.C23_shape.

(* ---- unfolding *)
Lemma wexec_0 : forall g o c h, wexec g o 0 c h = WFuel h.
Proof. reflexivity. Qed.
Lemma wexec_S : forall g o f c h, wexec g o (S f) c h = wseq (wstep g o (wexec g o f)) c h.
Proof. reflexivity. Qed.
Lemma wseq_nil : forall ex h, wseq ex [] h = WNormal h.
Proof. reflexivity. Qed.
Lemma wseq_cons : forall ex i r h,
  wseq ex (i :: r) h = match ex i h with WNormal h1 => wseq ex r h1 | x => x end.
Proof. reflexivity. Qed.
Lemma wseq_app : forall ex a b h,
  wseq ex (a ++ b) h = match wseq ex a h with WNormal h1 => wseq ex b h1 | x => x end.
Proof.
  induction a as [|i a IH]; intros b h; simpl app.
  - reflexivity.
  - rewrite !wseq_cons. destruct (ex i h); auto.
Qed.
Lemma wseq_single : forall ex i h, wseq ex [i] h = ex i h.
Proof. intros. rewrite wseq_cons. destruct (ex i h); reflexivity. Qed.

Lemma wstep_code : forall g o rs b h,
  wstep g o rs (WCode b) h = match term_of g b with
                             | Some TRet => WHalt (b :: h)
                             | Some _ => WNormal (b :: h)
                             | None => WStuck h
                             end.
Proof. reflexivity. Qed.
Lemma wstep_block : forall g o rs body h,
  wstep g o rs (WBlock body) h = unlabel (wseq (wstep g o rs) body h).
Proof. reflexivity. Qed.
Lemma wstep_loop : forall g o rs body h,
  wstep g o rs (WLoop body) h =
  match wseq (wstep g o rs) body h with
  | WBranch O h1 => rs [WLoop body] h1
  | WBranch (S k) h1 => WBranch k h1
  | x => x
  end.
Proof. reflexivity. Qed.
Lemma wstep_if : forall g o rs t e b h,
  wstep g o rs (WIf t e) (b :: h) =
  match term_of g b with
  | Some (TBr _ _) =>
      if o (b :: h) then unlabel (wseq (wstep g o rs) t (b :: h))
      else match e with
           | Some e' => unlabel (wseq (wstep g o rs) e' (b :: h))
           | None => WNormal (b :: h)
           end
  | _ => WStuck (b :: h)
  end.
Proof. reflexivity. Qed.
Lemma wstep_br : forall g o rs k h, wstep g o rs (WBr k) h = WBranch k h.
Proof. reflexivity. Qed.

Arguments wexec : simpl never.
Arguments wstep : simpl never.
Arguments wseq : simpl never.

(* ---- how results correspond.  st = the _block_stack of do_shape at the place of the shape. *)
Definition res_rel (st : list frame) (r : res) (w : wres) : Prop :=
  match r with
  | RNormal h => w = WNormal h
  | RHalt h => w = WHalt h
  | RFuel h => w = WFuel h
  | RBreak O h => exists i, block_level st = Some i /\ w = WBranch (S i) h
  | RCont O h => exists i, block_level st = Some i /\ w = WBranch i h
  | RBreak (S _) _ | RCont (S _) _ => False     (* do_shape refuses levels <> 0 *)
  | RStuck _ => True                             (* ill-formed shapes: no claim *)
  end.

(* a LoopShape against its `loop ... end` alone: a break is still pending for the outer block *)
Definition loop_rel (r : res) (w : wres) : Prop :=
  match r with
  | RNormal h => w = WNormal h \/ w = WBranch 0 h
  | RHalt h => w = WHalt h
  | RFuel h => w = WFuel h
  | RStuck _ => True
  | _ => False
  end.

Section Sound.
Variable g : cfg.
Variable o : oracle.

Definition S_stmt (fuel : nat) : Prop :=
  forall s st c h, compile st s = Some c -> res_rel st (exec g o fuel s h) (wexec g o fuel c h).
Definition L_stmt (fuel : nat) : Prop :=
  forall body st cb h, compile (FLoop :: st) body = Some cb ->
    loop_rel (exec g o fuel (SLoop body) h) (wexec g o fuel [WLoop cb] h).

(* one loop round at fuel S f, given the body at S f and the restarted loop at f *)
Lemma loop_round : forall f body st cb h,
  (forall h', res_rel (FLoop :: st) (exec g o (S f) body h') (wexec g o (S f) cb h')) ->
  (forall h', loop_rel (exec g o f (SLoop body) h') (wexec g o f [WLoop cb] h')) ->
  loop_rel (exec g o (S f) (SLoop body) h) (wexec g o (S f) [WLoop cb] h).
Proof.
  intros f body st cb h HB HL.
  rewrite exec_S, wexec_S, wseq_single, wstep_loop, <- wexec_S.
  specialize (HB h). unfold res_rel in HB.
  destruct (exec g o (S f) body h) as [h1|k h1|k h1|h1|h1|h1]; simpl in *.
  - rewrite HB. left; reflexivity.
  - destruct k; [|contradiction]. destruct HB as [i [Hi ->]]. inversion Hi; subst i.
    right; reflexivity.
  - destruct k; [|contradiction]. destruct HB as [i [Hi ->]]. inversion Hi; subst i.
    apply HL.
  - rewrite HB. reflexivity.
  - rewrite HB. reflexivity.
  - exact I.
Qed.

Lemma unlabel_if : forall st r w,
  res_rel (FIf :: st) r w -> res_rel st r (unlabel w).
Proof.
  intros st r w H. unfold res_rel in *.
  destruct r as [h1|k h1|k h1|h1|h1|h1]; try (subst w; reflexivity); auto.
  - destruct k; [|contradiction]. destruct H as [i [Hi ->]]. simpl in Hi.
    destruct (block_level st) as [j|]; [|discriminate]. inversion Hi; subst i.
    exists j. split; reflexivity.
  - destruct k; [|contradiction]. destruct H as [i [Hi ->]]. simpl in Hi.
    destruct (block_level st) as [j|]; [|discriminate]. inversion Hi; subst i.
    exists j. split; reflexivity.
Qed.

Lemma cseq_cons : forall comp s1 r,
  cseq comp (s1 :: r) =
  if is_none s1 then cseq comp r
  else match comp s1, cseq comp r with Some a, Some b => Some (a ++ b) | _, _ => None end.
Proof. reflexivity. Qed.

Lemma exec_none : forall fuel s h, is_none s = true -> exec g o (S fuel) s h = RNormal h.
Proof. intros fuel s h H. destruct s; try discriminate. rewrite exec_S. reflexivity. Qed.

Lemma S_step : forall f, L_stmt f -> S_stmt (S f).
Proof.
  intros f HL. unfold S_stmt.
  induction s using shape_ind'; intros st c h C; simpl in C.
  - discriminate.
  - (* SBasic *)
    inversion C; subst c. rewrite exec_S, wexec_S, wseq_single, wstep_code.
    destruct (term_of g b) as [[| |]|]; simpl; auto.
  - (* SSeq *)
    rewrite exec_S. revert c h C.
    induction H as [|s1 r Hs Hr IH]; intros c h C.
    + inversion C; subst c. rewrite wexec_S, wseq_nil. reflexivity.
    + rewrite seq_run_cons. rewrite cseq_cons in C.
      destruct (is_none s1) eqn:N.
      * rewrite exec_none by assumption. apply IH. exact C.
      * destruct (compile st s1) as [a|] eqn:Ca; [|discriminate].
        destruct (cseq (compile st) r) as [b'|] eqn:Cr; [|discriminate].
        inversion C; subst c.
        rewrite wexec_S, wseq_app, <- !wexec_S.
        specialize (Hs st a h Ca). unfold res_rel in Hs.
        destruct (exec g o (S f) s1 h) as [h1|k h1|k h1|h1|h1|h1] eqn:X; simpl in Hs |- *.
        -- rewrite Hs. apply IH. reflexivity.
        -- destruct k; [|contradiction]. destruct Hs as [i [Hi ->]]. exists i; auto.
        -- destruct k; [|contradiction]. destruct Hs as [i [Hi ->]]. exists i; auto.
        -- rewrite Hs; reflexivity.
        -- rewrite Hs; reflexivity.
        -- exact I.
  - (* SIf *)
    destruct (if is_none s1 then Some [] else compile (FIf :: st) s1) as [cy|] eqn:Cy; [|discriminate].
    destruct (if is_none s2 then Some None
              else match compile (FIf :: st) s2 with Some cn => Some (Some cn) | None => None end)
      as [cn|] eqn:Cn; [|discriminate].
    inversion C; subst c.
    rewrite exec_S, wexec_S, wseq_cons, wstep_code.
    destruct (term_of g b) as [[|t|ty tn]|] eqn:T; try exact I.
    cbv iota beta. rewrite wseq_single, wstep_if, T.
    destruct (o (b :: h)).
    + (* then *)
      destruct (is_none s1) eqn:N1.
      * inversion Cy; subst cy. rewrite exec_none by assumption. rewrite wseq_nil. reflexivity.
      * specialize (IHs1 (FIf :: st) cy (b :: h) Cy). rewrite wexec_S in IHs1.
        apply unlabel_if in IHs1.
        destruct (exec g o (S f) s1 (b :: h)) as [h1|k h1|k h1|h1|h1|h1]; simpl in IHs1 |- *;
          try (rewrite IHs1; reflexivity); auto.
    + (* else *)
      destruct (is_none s2) eqn:N2.
      * inversion Cn; subst cn. rewrite exec_none by assumption. reflexivity.
      * destruct (compile (FIf :: st) s2) as [cn'|] eqn:Cn'; [|discriminate].
        inversion Cn; subst cn.
        specialize (IHs2 (FIf :: st) cn' (b :: h) Cn'). rewrite wexec_S in IHs2.
        apply unlabel_if in IHs2.
        destruct (exec g o (S f) s2 (b :: h)) as [h1|k h1|k h1|h1|h1|h1]; simpl in IHs2 |- *;
          try (rewrite IHs2; reflexivity); auto.
  - (* SLoop *)
    destruct (compile (FLoop :: st) s) as [cb|] eqn:Cb; [|discriminate].
    inversion C; subst c.
    assert (LR : loop_rel (exec g o (S f) (SLoop s) h) (wexec g o (S f) [WLoop cb] h)).
    { apply (loop_round f s st cb h).
      - intros h'. apply IHs. exact Cb.
      - intros h'. apply (HL s st cb h' Cb). }
    rewrite wexec_S, wseq_single, wstep_block, <- wexec_S.
    unfold loop_rel in LR.
    destruct (exec g o (S f) (SLoop s) h) as [h1|k h1|k h1|h1|h1|h1]; simpl in LR |- *;
      try contradiction; try (rewrite LR; reflexivity); auto.
    destruct LR as [-> | ->]; reflexivity.
  - (* SBreak *)
    destruct k; [|discriminate].
    destruct (block_level st) as [i|] eqn:B; [|discriminate]. inversion C; subst c.
    rewrite exec_S, wexec_S, wseq_single, wstep_br. simpl. exists i; auto.
  - (* SContinue *)
    destruct k; [|discriminate].
    destruct (block_level st) as [i|] eqn:B; [|discriminate]. inversion C; subst c.
    rewrite exec_S, wexec_S, wseq_single, wstep_br. simpl. exists i; auto.
Qed.

Lemma SL_all : forall fuel, S_stmt fuel /\ L_stmt fuel.
Proof.
  induction fuel as [|f [IS IL]].
  - split.
    + intros s st c h C. rewrite exec_0, wexec_0. reflexivity.
    + intros body st cb h C. rewrite exec_0, wexec_0. reflexivity.
  - pose proof (S_step f IL) as SS. split; [exact SS|].
    intros body st cb h C. apply (loop_round f body st cb h).
    + intros h'. apply SS. exact C.
    + intros h'. apply (IL body st cb h' C).
Qed.

Theorem do_shape_exec : forall s c fuel h,
  compile [] s = Some c -> res_rel [] (exec g o fuel s h) (wexec g o fuel c h).
Proof. intros s c fuel h C. apply (proj1 (SL_all fuel)). exact C. Qed.

(* with the validator: the emitted control flow follows the CFG *)
Theorem do_shape_follows_cfg : forall s c fuel,
  check_shape g s = true -> compile [] s = Some c -> wagrees g o c fuel.
Proof.
  intros s c fuel K C.
  pose proof (shape_sound g o s fuel K) as A.
  pose proof (do_shape_exec s c fuel [] C) as R.
  unfold agrees in A. unfold wagrees. destruct A as [k A]. exists k.
  unfold res_rel in R.
  destruct (exec g o fuel s []) as [h1|k1 h1|k1 h1|h1|h1|h1]; try contradiction.
  - rewrite R. exact A.
  - rewrite R. exact A.
Qed.
End Sound.

(* ---- the two models of do_shape agree: tokens of the compiled program = ShapeCheck.do_shape *)
Lemma flat_app : forall a b, flat (a ++ b) = flat a ++ flat b.
Proof. intros. unfold flat. apply flat_map_app. Qed.

Lemma flat_compile : forall s st c, compile st s = Some c -> do_shape st s = flat c.
Proof.
  induction s using shape_ind'; intros st c C; simpl in C.
  - discriminate.
  - inversion C; subst. reflexivity.
  - simpl do_shape. revert c C. induction H as [|s1 r Hs Hr IH]; intros c C.
    + inversion C; subst. reflexivity.
    + change (cseq (compile st) (s1 :: r)) with (if is_none s1 then cseq (compile st) r else match compile st s1, cseq (compile st) r with Some a, Some b => Some (a ++ b) | _, _ => None end) in C. simpl flat_map.
      destruct (is_none s1) eqn:N.
      * destruct s1; try discriminate. simpl. apply IH. exact C.
      * destruct (compile st s1) as [a|] eqn:Ca; [|discriminate].
        destruct (cseq (compile st) r) as [b'|] eqn:Cr; [|discriminate].
        inversion C; subst c. rewrite flat_app, <- (IH b' eq_refl), <- (Hs st a Ca).
        destruct s1; try discriminate; reflexivity.
  - destruct (if is_none s1 then Some [] else compile (FIf :: st) s1) as [cy|] eqn:Cy; [|discriminate].
    destruct (if is_none s2 then Some None
              else match compile (FIf :: st) s2 with Some cn => Some (Some cn) | None => None end)
      as [cn|] eqn:Cn; [|discriminate].
    inversion C; subst c. simpl do_shape. unfold flat. simpl flat_map.
    rewrite app_nil_r.
    assert (Y : match s1 with SNone => [] | _ => do_shape (FIf :: st) s1 end = flat_map flat_i cy).
    { destruct (is_none s1) eqn:N1.
      - destruct s1; try discriminate. inversion Cy; subst. reflexivity.
      - rewrite (IHs1 _ _ Cy). destruct s1; try discriminate; reflexivity. }
    assert (Nn : match s2 with SNone => [] | _ => CElse :: do_shape (FIf :: st) s2 end
                 = match cn with Some e' => CElse :: flat_map flat_i e' | None => [] end).
    { destruct (is_none s2) eqn:N2.
      - destruct s2; try discriminate. inversion Cn; subst. reflexivity.
      - destruct (compile (FIf :: st) s2) as [cn'|] eqn:Cn'; [|discriminate].
        inversion Cn; subst cn. rewrite (IHs2 _ _ Cn').
        destruct s2; try discriminate; reflexivity. }
    rewrite Y, Nn. reflexivity.
  - destruct (compile (FLoop :: st) s) as [cb|] eqn:Cb; [|discriminate].
    inversion C; subst c. simpl do_shape. rewrite (IHs _ _ Cb).
    unfold flat. simpl. rewrite !app_nil_r, <- app_assoc. reflexivity.
  - destruct k; [|discriminate].
    destruct (block_level st) as [i|] eqn:B; [|discriminate]. inversion C; subst.
    simpl. rewrite B. reflexivity.
  - destruct k; [|discriminate].
    destruct (block_level st) as [i|] eqn:B; [|discriminate]. inversion C; subst.
    simpl. rewrite B. reflexivity.
Qed.
