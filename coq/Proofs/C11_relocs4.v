(* Proofs/C11_relocs4.v — C11: ARM LDR (literal) (ldr_imm12): the class ORs into the field, so the template must have
   the field bits 8..11 and the U bit zero (what the assembler emits). *)
From PV Require Import Lib.Py Lib.Tac Spec.RelocSpec Gen.bitfun Model.Reloc Proofs.C11_bits Proofs.C11_relocs
  Proofs.C11_final.
Open Scope Z_scope.

Lemma lor_low a b s : 0 <= s -> 0 <= a < 2 ^ s -> 0 <= b -> b mod 2 ^ s = 0 -> Z.lor b a = b + a.
Proof.
  intros Hs Ha Hb Hm. rewrite Z.lor_comm.
  assert (E : b = Z.shiftl (b / 2 ^ s) s).
  { rewrite Z.shiftl_mul_pow2 by lia. pose proof (Z.div_mod b (2 ^ s)). assert (0 < 2 ^ s) by (apply Z.pow_pos_nonneg; lia). lia. }
  rewrite E at 1. rewrite lor_disjoint_add by lia.
  pose proof (Z.div_mod b (2 ^ s)). assert (0 < 2 ^ s) by (apply Z.pow_pos_nonneg; lia). lia.
Qed.

Lemma exact_arm_ldr_lit A S P data : bytes_ok 4 data -> S mod 4 = 0 -> P mod 4 = 0 ->
  bits (le_word data) 8 4 = 0 -> bits (le_word data) 23 1 = 0 ->
  - 4096 < S - (P + 8) < 4096 ->
  exists d', apply ArmLdrImm12 A S data P = Ok d' /\ bytes_ok 4 d' /\ arm_ldr_lit_addr (le_word d') P = S /\
    bits (le_word d') 12 11 = bits (le_word data) 12 11 /\ bits (le_word d') 24 8 = bits (le_word data) 24 8.
Proof.
  intros [Hw Hl] HS HP F1 F2 Hr.
  destruct data as [|b0 [|b1 [|b2 [|b3 [|? ?]]]]]; unfold len in Hl; cbn [length] in Hl; try lia.
  inversion Hw as [|? ? B0 Hw1]; subst. inversion Hw1 as [|? ? B1 Hw2]; subst.
  inversion Hw2 as [|? ? B2 Hw3]; subst. inversion Hw3 as [|? ? B3 _]; subst.
  cbn [le_word] in F1, F2. unfold bits in F1, F2. pows.
  assert (N1 : b1 mod 16 = 0) by lia. assert (N2 : b2 < 128) by lia.
  unfold apply, asrt. rewrite (proj2 (Z.eqb_eq _ _) HS), (proj2 (Z.eqb_eq _ _) HP). unfold guard.
  set (o := S - (P + 8)) in *.
  set (U := if o <? 0 then 0 else 1). set (m := if o <? 0 then - o else o).
  assert (Hm : 0 <= m < 4096) by (subst m; destruct (Z.ltb_spec o 0); lia).
  assert (HU : U = 0 \/ U = 1) by (subst U; destruct (o <? 0); auto).
  assert (E : (m <? 4096) = true) by lia. rewrite E.
  cbn [set_nth bind].
  rewrite !shiftr_div, !shiftl_mul by lia. rewrite (land_lit _ 15 4), (land_lit m 255 8) by (reflexivity || lia). pows.
  rewrite (Z.lor_comm b2 (U * 128)), (lor_low b2 (U * 128) 7) by (pows; lia).
  assert (G1 : ((0 <=? U * 128 + b2) && (U * 128 + b2 <? 256)) = true) by lia. rewrite G1. cbn [bind set_nth].
  rewrite (lor_low ((m / 256) mod 16) b1 4) by (pows; lia).
  assert (G2 : ((0 <=? b1 + (m / 256) mod 16) && (b1 + (m / 256) mod 16 <? 256)) = true) by lia. rewrite G2. cbn [bind set_nth].
  assert (G3 : ((0 <=? m mod 256) && (m mod 256 <? 256)) = true) by lia. rewrite G3.
  eexists. split; [reflexivity|]. split.
  { split; [|reflexivity]. repeat constructor; lia. }
  cbn [le_word]. unfold arm_ldr_lit_addr, bits. pows.
  assert (Eo : o = if o <? 0 then - m else m) by (subst m; destruct (Z.ltb_spec o 0); lia).
  destruct (Z.ltb_spec o 0); subst U.
  - destruct (Z.eqb_spec (((m mod 256 + 256 * (b1 + (m / 256) mod 16 + 256 * (0 * 128 + b2 + 256 * (b3 + 256 * 0)))) / 8388608) mod 2) 1);
      repeat split; lia.
  - destruct (Z.eqb_spec (((m mod 256 + 256 * (b1 + (m / 256) mod 16 + 256 * (1 * 128 + b2 + 256 * (b3 + 256 * 0)))) / 8388608) mod 2) 1);
      repeat split; lia.
Qed.
