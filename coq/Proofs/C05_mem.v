(* Proofs/C05_mem.v — C05: memory, move and control rules of the riscv back-end.
   Loads/stores: the little-endian byte memory of Spec/RV32Exec against IRSem's read_bytes/write_bytes/
   le_decode/le_encode, related by [mem_rel]; MOV; conditional jumps (branch taken iff IRSem.eval_cond);
   JMP.  Same table (Gen/Tab_rv_patterns.v), separate syntactic checks, each proved sound once. *)
From PV Require Import Lib.Py Lib.Tac Spec.IRSyntax Spec.IRSem Spec.RV32Decode Spec.RV32Exec Model.RvRules
  Proofs.C07_exec Proofs.C05_arith Proofs.C05_rules.
From Coq Require Import String.
Open Scope Z_scope.
Open Scope list_scope.

(* ------------------------------------------------------------------ IR memory vs machine memory *)
Definition mem_rel (m : IRSem.mem) (s : state) : Prop :=
  forall a b, mem_get m a = Some b -> 0 <= a < 4294967296 /\ 0 <= b < 256 /\ loadbyte s a = b.

Lemma u32_succ a a' : u32 a = u32 a' -> u32 (a + 1) = u32 (a' + 1).
Proof. unfold u32. intros H. rewrite (Zplus_mod a), (Zplus_mod a'). now rewrite H. Qed.

Lemma loadbyte_congr s a a' : u32 a = u32 a' -> loadbyte s a = loadbyte s a'.
Proof. unfold loadbyte. now intros ->. Qed.

Lemma load_le_congr s n : forall a a', u32 a = u32 a' -> load_le s n a = load_le s n a'.
Proof.
  induction n; intros a a' H; cbn [load_le]; [reflexivity|].
  rewrite (loadbyte_congr s a a' H). f_equal. f_equal. apply IHn. now apply u32_succ.
Qed.

Lemma load_le_read m s : mem_rel m s -> forall n a bs, read_bytes m a n = Some bs -> load_le s n a = le_decode bs.
Proof.
  intros Hr. induction n; intros a bs H; cbn [read_bytes load_le] in *.
  - inversion H. reflexivity.
  - destruct (mem_get m a) as [b|] eqn:Hb; [|discriminate].
    destruct (read_bytes m (a + 1) n) as [r|] eqn:Hn; [|discriminate]. inversion H; subst bs.
    cbn [le_decode]. destruct (Hr a b Hb) as (_ & _ & ->). now rewrite (IHn _ _ Hn).
Qed.

Lemma mem_set_get m : forall a b m', mem_set m a b = Some m' ->
  forall a', mem_get m' a' = if a' =? a then Some b else mem_get m a'.
Proof.
  induction m as [|[k v] m IH]; intros a b m' H a'; cbn [mem_set] in H; [discriminate|].
  destruct (k =? a) eqn:Eka.
  - inversion H; subst m'. cbn [mem_get]. apply Z.eqb_eq in Eka. subst k.
    destruct (Z.eqb_spec a' a) as [->|Hne]; [now rewrite Z.eqb_refl|].
    assert ((a =? a') = false) as -> by (apply Z.eqb_neq; congruence). reflexivity.
  - destruct (mem_set m a b) as [r'|] eqn:Hs; [|discriminate]. inversion H; subst m'. cbn [mem_get].
    destruct (k =? a') eqn:Eka'.
    + apply Z.eqb_eq in Eka'. subst a'. now rewrite Eka.
    + apply (IH _ _ _ Hs).
Qed.

Lemma mem_set_key m : forall a b m', mem_set m a b = Some m' -> exists b0, mem_get m a = Some b0.
Proof.
  induction m as [|[k v] m IH]; intros a b m' H; cbn [mem_set] in H; [discriminate|]. cbn [mem_get].
  destruct (k =? a); [eauto|]. destruct (mem_set m a b) as [r'|] eqn:Hs; [|discriminate]. eapply IH; eauto.
Qed.

Lemma div256_congr z r M : 0 < M -> z mod (256 * M) = r mod (256 * M) -> (z / 256) mod M = (r / 256) mod M.
Proof.
  intros HM H. rewrite !Z.rem_mul_r in H by lia.
  assert (0 <= z mod 256 < 256) by (apply Z.mod_pos_bound; lia).
  assert (0 <= r mod 256 < 256) by (apply Z.mod_pos_bound; lia).
  lia.
Qed.

Lemma mod256_congr z r M : 0 < M -> z mod (256 * M) = r mod (256 * M) -> z mod 256 = r mod 256.
Proof.
  intros HM H. rewrite !Z.rem_mul_r in H by lia.
  assert (0 <= z mod 256 < 256) by (apply Z.mod_pos_bound; lia).
  assert (0 <= r mod 256 < 256) by (apply Z.mod_pos_bound; lia).
  lia.
Qed.

Lemma store_rel : forall n m s A x z r m',
  mem_rel m s -> u32 A = u32 x -> z mod 256 ^ Z.of_nat n = r mod 256 ^ Z.of_nat n ->
  write_bytes m A (le_encode z n) = Some m' -> mem_rel m' (store_le s n x r).
Proof.
  induction n; intros m s A x z r m' Hr HA Hz Hw; cbn [le_encode write_bytes store_le] in *.
  - inversion Hw; subst. exact Hr.
  - destruct (mem_set m A (z mod 256)) as [m1|] eqn:Hs; [|discriminate].
    rewrite Nat2Z.inj_succ, Z.pow_succ_r in Hz by lia.
    assert (HM : 0 < 256 ^ Z.of_nat n) by (apply Z.pow_pos_nonneg; lia).
    apply (IHn m1 (storebyte s x r) (A + 1) (x + 1) (z / 256) (r / 256) m'); auto.
    + intros a b Hab. rewrite (mem_set_get _ _ _ _ Hs) in Hab.
      destruct (mem_set_key _ _ _ _ Hs) as (b0 & Hb0). destruct (Hr _ _ Hb0) as (HAr & _ & _).
      rewrite loadbyte_storebyte. destruct (a =? A) eqn:EaA.
      * apply Z.eqb_eq in EaA. subst a. inversion Hab; subst b. rewrite HA, Z.eqb_refl.
        split; [exact HAr|]. split; [apply Z.mod_pos_bound; lia|]. symmetry. eapply mod256_congr; eauto.
      * destruct (Hr _ _ Hab) as (Har & Hbr & Hl). split; [exact Har|]. split; [exact Hbr|].
        rewrite <- HA. unfold u32, W32. rewrite !Z.mod_small by lia.
        assert ((a =? A) = false) as -> by exact EaA. exact Hl.
    + now apply u32_succ.
    + eapply div256_congr; eauto.
Qed.

(* ------------------------------------------------------------------ printed forms *)
Lemma to_rv_L mn k d off a : assoc_fmt rv_formats mn = Some (FL k) ->
  to_rv (mn, [d; off; a]) = Some (RLoad k d (imm12 off) a).
Proof. intros H. enum_mn H mn; inversion H; subst; reflexivity. Qed.

Lemma to_rv_S mn k v off a : assoc_fmt rv_formats mn = Some (FS k) ->
  to_rv (mn, [v; off; a]) = Some (RStore k v (imm12 off) a).
Proof. intros H. enum_mn H mn; inversion H; subst; reflexivity. Qed.

Definition branches : list (string * (bcond * bool)) :=
  [("beq", (BEQ, false)); ("bne", (BNE, false)); ("blt", (BLT, false)); ("bge", (BGE, false));
   ("bltu", (BLTU, false)); ("bgeu", (BGEU, false)); ("bgt", (BLT, true)); ("ble", (BGE, true));
   ("bgtu", (BLTU, true)); ("bleu", (BGEU, true))]%string.

Fixpoint assoc_br (l : list (string * (bcond * bool))) (mn : string) : option (bcond * bool) :=
  match l with
  | [] => None
  | (k, f) :: r => if String.eqb k mn then Some f else assoc_br r mn
  end.

Lemma to_rv_B mn bc sw a b off : assoc_br branches mn = Some (bc, sw) ->
  to_rv (mn, [a; b; off]) = Some (if sw then RBranch bc b a off else RBranch bc a b off).
Proof.
  intros H. cbn [assoc_br branches] in H.
  repeat match type of H with
  | (if String.eqb ?k mn then _ else _) = _ =>
      destruct (String.eqb_spec k mn) as [<-|_]; [inversion H; subst; reflexivity|]
  end. discriminate.
Qed.

(* ------------------------------------------------------------------ reading of the trees *)
Inductive msem :=
  | MLoad (t : ty) (off : option (list nat))
  | MStore (t : ty) (off : option (list nat))
  | MMov (t : ty)
  | MCjmp (t : ty) (c : IRSyntax.cond)
  | MJmp.

Definition cond_of (s : string) : option IRSyntax.cond :=
  if String.eqb s "<" then Some Clt else if String.eqb s ">" then Some Cgt else if String.eqb s "==" then Some Ceq
  else if String.eqb s "!=" then Some Cne else if String.eqb s ">=" then Some Cge else if String.eqb s "<=" then Some Cle
  else None.

Definition is_nt (t : tree) (nm : string) : bool := match t with TNT nt => String.eqb nt nm | _ => false end.
Definition is_add_reg_const (t : tree) : bool :=
  match t with
  | TOp op ty _ [a; TOp cop cty _ []] =>
      String.eqb op "ADD" && (String.eqb ty "I32" || String.eqb ty "U32") && is_nt a "reg" &&
      String.eqb cop "CONST" && String.eqb cty ty
  | _ => false
  end.

Definition tree_sem2 (t : tree) : option msem :=
  match t with
  | TOp op tyn frm kids =>
      if String.eqb op "JMP" then match kids with [] => Some MJmp | _ => None end
      else match ty_of tyn with
      | None => None
      | Some ty =>
        if String.eqb op "LDR" then
          match kids with
          | [a] => if is_nt a "reg" then Some (MLoad ty None)
                   else if is_nt a "mem" then Some (MLoad ty (Some [90%nat]))
                   else if is_add_reg_const a then Some (MLoad ty (Some [0%nat; 1%nat]))
                   else None
          | _ => None
          end
        else if String.eqb op "STR" then
          match kids with
          | [a; v] => if is_nt v "reg" then
                        if is_nt a "reg" then Some (MStore ty None)
                        else if is_nt a "mem" then Some (MStore ty (Some [90%nat])) else None
                      else None
          | _ => None
          end
        else if String.eqb op "MOV" then
          match kids with [a] => if is_nt a "reg" then Some (MMov ty) else None | _ => None end
        else if String.eqb op "CJMP" then
          match kids, cond_of frm with
          | [a; b], Some c => if is_nt a "reg" && is_nt b "reg" then Some (MCjmp ty c) else None
          | _, _ => None
          end
        else None
      end
  | _ => None
  end.

Definition off_opnd (off : option (list nat)) : sopnd := match off with None => SLit 0 | Some p => SConst p end.

Definition sopnd_eqb (a b : sopnd) : bool :=
  match a, b with
  | SChild x, SChild y | SFresh x, SFresh y => Nat.eqb x y
  | SPhys x, SPhys y | SLit x, SLit y => x =? y
  | SConst p, SConst q => path_eqb p q
  | SValue, SValue => true
  | SOther x, SOther y => String.eqb x y
  | _, _ => false
  end.
Lemma sopnd_eqb_eq a b : sopnd_eqb a b = true -> a = b.
Proof.
  destruct a, b; cbn; intros H; try discriminate; try (apply Nat.eqb_eq in H; congruence);
    try (apply Z.eqb_eq in H; congruence); try (apply path_eqb_eq in H; congruence);
    try (apply String.eqb_eq in H; congruence); reflexivity.
Qed.
Fixpoint sopnds_eqb (a b : list sopnd) : bool :=
  match a, b with
  | [], [] => true
  | x :: a', y :: b' => sopnd_eqb x y && sopnds_eqb a' b'
  | _, _ => false
  end.
Lemma sopnds_eqb_eq a : forall b, sopnds_eqb a b = true -> a = b.
Proof.
  induction a as [|x a IH]; intros [|y b] H; try discriminate; [reflexivity|].
  cbn in H. apply andb_prop in H. destruct H as [H1 H2]. apply sopnd_eqb_eq in H1. subst. f_equal. auto.
Qed.

(* a rule body consisting of exactly one instruction with the given operands *)
Definition one_instr (r : rule) (ops : list sopnd) : option string :=
  match r_body r with
  | [(mn, os)] => if sopnds_eqb os ops then Some mn else None
  | _ => None
  end.
Lemma one_instr_eq r ops mn : one_instr r ops = Some mn -> r_body r = [(mn, ops)].
Proof.
  unfold one_instr. destruct (r_body r) as [|[m os] [|? ?]]; try discriminate.
  destruct (sopnds_eqb os ops) eqn:E; [|discriminate]. intros H. inversion H; subst.
  apply sopnds_eqb_eq in E. now subst.
Qed.

Definition lk_bytes (k : lkind) : Z := match k with LB | LBU => 1 | LH | LHU => 2 | LW => 4 end.
Definition sk_bytes (k : skind) : Z := match k with SB => 1 | SH => 2 | SW => 4 end.

(* the offset constant is confined to the 12-bit range: by the rule's condition, or - for the (base, offset)
   pair of a mem child, path [90] - by the rules producing mem (hypothesis [mem_off_ok] below) *)
Definition off_ok (r : rule) (off : option (list nat)) : bool :=
  match off with
  | None => true
  | Some p => if path_eqb p [90%nat] then true
              else (-2048 <=? cond_lo (r_cond r) p 32 true) && (cond_hi (r_cond r) p 32 true <=? 2048)
  end.

Definition check_load (r : rule) : bool :=
  cond_known (r_cond r) &&
  match tree_sem2 (r_tree r) with
  | Some (MLoad t off) =>
      match shape t, one_instr r [SFresh 0; off_opnd off; SChild 0], r_result r with
      | Some (bits, _), Some mn, [SFresh 0] =>
          match assoc_fmt rv_formats mn with
          | Some (FL k) => (8 * lk_bytes k =? bits) && off_ok r off
          | _ => false
          end
      | _, _, _ => false
      end
  | _ => false
  end.

Definition check_store (r : rule) : bool :=
  cond_known (r_cond r) &&
  match tree_sem2 (r_tree r) with
  | Some (MStore t off) =>
      match shape t, one_instr r [SChild 1; off_opnd off; SChild 0], r_result r with
      | Some (bits, _), Some mn, [] =>
          match assoc_fmt rv_formats mn with
          | Some (FS k) => (8 * sk_bytes k =? bits) && off_ok r off
          | _ => false
          end
      | _, _, _ => false
      end
  | _ => false
  end.

Definition check_mov (r : rule) : bool :=
  match tree_sem2 (r_tree r) with
  | Some (MMov t) =>
      match shape t, one_instr r [SValue; SChild 0], r_result r with
      | Some _, Some mn, [SValue] => String.eqb mn "mv"
      | _, _, _ => false
      end
  | _ => false
  end.

Definition bcond_eqb (a b : bcond) : bool :=
  match a, b with BEQ, BEQ | BNE, BNE | BLT, BLT | BGE, BGE | BLTU, BLTU | BGEU, BGEU => true | _, _ => false end.
Lemma bcond_eqb_eq a b : bcond_eqb a b = true -> a = b.
Proof. destruct a, b; cbn; intros; congruence. Qed.

(* the branch that implements an IR comparison at a 32-bit type: (condition, operands swapped) *)
Definition cj_expect (c : IRSyntax.cond) (sg : bool) : bcond * bool :=
  match c with
  | Ceq => (BEQ, false) | Cne => (BNE, false)
  | Clt => (if sg then BLT else BLTU, false) | Cgt => (if sg then BLT else BLTU, true)
  | Cge => (if sg then BGE else BGEU, false) | Cle => (if sg then BGE else BGEU, true)
  end.

Definition cj_body (r : rule) : option string :=
  match r_body r with
  | [(bmn, [SChild 0; SChild 1; SOther ly]); (jmn, [SOther ln])] =>
      if String.eqb ly "label:yes" && String.eqb ln "label:no" && String.eqb jmn "j" then Some bmn else None
  | _ => None
  end.

Definition check_cjmp (r : rule) : bool :=
  match tree_sem2 (r_tree r), cj_body r with
  | Some (MCjmp t c), Some bmn =>
      match shape t, assoc_br branches bmn with
      | Some (bits, sg), Some (bc, sw) =>
          (bits =? 32) && bcond_eqb bc (fst (cj_expect c sg)) &&
          (Bool.eqb sw (snd (cj_expect c sg)) || (match c with Ceq | Cne => true | _ => false end))
      | _, _ => false
      end
  | _, _ => false
  end.

Definition check_jmp (r : rule) : bool :=
  match tree_sem2 (r_tree r), r_body r, r_result r with
  | Some MJmp, [(mn, [SOther l])], [] => String.eqb mn "j" && String.eqb l "label:tgt"
  | _, _, _ => false
  end.

(* ------------------------------------------------------------------ correctness statements *)
Definition consts_i32 (e : env) : Prop :=
  forall p v, const_at (e_const e) p = Some v -> ty_lo 32 true <= v < ty_hi 32 true.
Definition mem_off_ok (e : env) : Prop :=
  forall v, const_at (e_const e) [90%nat] = Some v -> -2048 <= v < 2048.

Definition load_correct (r : rule) : Prop :=
  forall t off e s il bits sg c0 c m A bs,
  tree_sem2 (r_tree r) = Some (MLoad t off) -> shape t = Some (bits, sg) ->
  env_ok e -> cond_holds (r_cond r) (e_const e) -> consts_i32 e -> mem_off_ok e ->
  opnd_val e (off_opnd off) = Some c -> nth_error (e_child e) 0 = Some c0 ->
  instantiate r e = Some il ->
  mem_rel m s -> u32 A = u32 (getreg s c0 + c) ->
  read_bytes m A (Z.to_nat (bits / 8)) = Some bs ->
  exists rd, opnds_val e (r_result r) = Some [rd] /\
    rep bits (getreg (exec_seq il s) rd) (wrap_bits bits sg (le_decode bs)) /\
    (forall x, ~ In x (e_fresh e) -> getreg (exec_seq il s) x = getreg s x) /\
    (forall a, loadbyte (exec_seq il s) a = loadbyte s a).

Definition store_correct (r : rule) : Prop :=
  forall t off e s il bits sg c0 c1 c m A z m',
  tree_sem2 (r_tree r) = Some (MStore t off) -> shape t = Some (bits, sg) ->
  cond_holds (r_cond r) (e_const e) -> consts_i32 e -> mem_off_ok e ->
  opnd_val e (off_opnd off) = Some c ->
  nth_error (e_child e) 0 = Some c0 -> nth_error (e_child e) 1 = Some c1 ->
  instantiate r e = Some il ->
  mem_rel m s -> u32 A = u32 (getreg s c0 + c) -> rep bits z (getreg s c1) ->
  write_bytes m A (le_encode z (Z.to_nat (bits / 8))) = Some m' ->
  mem_rel m' (exec_seq il s) /\ (forall x, getreg (exec_seq il s) x = getreg s x).

Definition mov_correct (r : rule) : Prop :=
  forall t e s il c0,
  tree_sem2 (r_tree r) = Some (MMov t) -> e_value e <> 0 -> nth_error (e_child e) 0 = Some c0 ->
  instantiate r e = Some il ->
  opnds_val e (r_result r) = Some [e_value e] /\
  getreg (exec_seq il s) (e_value e) = getreg s c0 /\
  (forall x, x <> e_value e -> getreg (exec_seq il s) x = getreg s x) /\
  (forall a, loadbyte (exec_seq il s) a = loadbyte s a).

Definition cjmp_correct (r : rule) : Prop :=
  forall t c bits sg,
  tree_sem2 (r_tree r) = Some (MCjmp t c) -> shape t = Some (bits, sg) ->
  exists bmn bc sw, cj_body r = Some bmn /\ assoc_br branches bmn = Some (bc, sw) /\
    forall s c0 c1,
      branch_taken bc (getreg s (if sw then c1 else c0)) (getreg s (if sw then c0 else c1)) =
      eval_cond c (val bits sg (getreg s c0)) (val bits sg (getreg s c1)).

(* what the two emitted instructions do with pc (offsets = whatever the relocations put there) *)
Lemma exec_branch bc x y off s :
  getpc (exec (RBranch bc x y off) s) =
    (if branch_taken bc (getreg s x) (getreg s y) then u32 (getpc s + off) else u32 (getpc s + 4)) /\
  (forall q, getreg (exec (RBranch bc x y off) s) q = getreg s q) /\
  (forall a, loadbyte (exec (RBranch bc x y off) s) a = loadbyte s a).
Proof.
  cbn [exec]. destruct (branch_taken bc (getreg s x) (getreg s y)); (split; [apply getpc_setpc|split; reflexivity]).
Qed.

Lemma exec_jal0 off s :
  getpc (exec (RJal 0 off) s) = u32 (getpc s + off) /\
  (forall q, getreg (exec (RJal 0 off) s) q = getreg s q) /\
  (forall a, loadbyte (exec (RJal 0 off) s) a = loadbyte s a).
Proof. cbn [exec]. split; [apply getpc_setpc|split; reflexivity]. Qed.

Lemma sext_mod n x : 0 < n -> sext n x mod 2 ^ n = x mod 2 ^ n.
Proof.
  intros Hn. unfold sext. destruct (x <? 2 ^ (n - 1)); [reflexivity|].
  replace (x - 2 ^ n) with (x + (-1) * 2 ^ n) by ring. apply Z.mod_add.
  assert (0 < 2 ^ n) by (apply Z.pow_pos_nonneg; lia). lia.
Qed.

Lemma u32_getreg s r : u32 (getreg s r) = getreg s r.
Proof. unfold getreg. destruct (r =? 0); [reflexivity|apply u32_idem]. Qed.

Lemma off_range r off e c :
  off_ok r off = true -> cond_holds (r_cond r) (e_const e) -> consts_i32 e -> mem_off_ok e ->
  opnd_val e (off_opnd off) = Some c -> -2048 <= c < 2048.
Proof.
  intros Hok Hc Ht Hm Hv. destruct off as [p|]; cbn [off_opnd opnd_val off_ok] in *.
  - destruct (path_eqb p [90%nat]) eqn:E.
    + apply path_eqb_eq in E. subst p. now apply Hm.
    + pose proof (cond_bounds _ _ _ 32 true _ Hc Hv (Ht _ _ Hv)). lia.
  - inversion Hv. lia.
Qed.

Theorem check_load_sound r : check_load r = true -> load_correct r.
Proof.
  unfold check_load. intros Hck. apply andb_prop in Hck. destruct Hck as [_ Hck].
  intros t off e s il bits sg c0 c m A bs Hsem Hshape Henv Hcond Hti Hmo Hoff H0 Hinst Hrel HA Hread.
  rewrite Hsem, Hshape in Hck.
  destruct (one_instr r [SFresh 0; off_opnd off; SChild 0]) as [mn|] eqn:Hone; [|discriminate].
  destruct (r_result r) as [|[ | [|?] | | | | | ] [|? ?]] eqn:Hres; try discriminate.
  destruct (assoc_fmt rv_formats mn) as [[ | | | |k| | | ]|] eqn:Hfmt; try discriminate.
  apply andb_prop in Hck. destruct Hck as [Hw Hok]. apply Z.eqb_eq in Hw.
  pose proof (off_range _ _ _ _ Hok Hcond Hti Hmo Hoff) as Hc.
  apply one_instr_eq in Hone. unfold instantiate in Hinst. rewrite Hone in Hinst.
  cbn [body_items opnds_val] in Hinst. rewrite Hoff in Hinst. cbn [opnd_val] in Hinst. rewrite H0 in Hinst.
  destruct (nth_error (e_fresh e) 0) as [d|] eqn:Hd; [|discriminate].
  unfold expand_item in Hinst. rewrite (fmt_not_li _ _ Hfmt) in Hinst.
  cbn [List.app to_rv_all] in Hinst. rewrite (to_rv_L _ _ _ _ _ Hfmt) in Hinst. inversion Hinst; subst il.
  destruct (fresh0_facts e d Henv Hd) as (Hd0 & _ & Hfr).
  destruct (shape_props _ _ _ Hshape) as [_ Hb].
  exists d. cbn [opnds_val opnd_val]. rewrite Hd. split; [reflexivity|].
  cbn [exec_seq exec]. rewrite sext12_small by exact Hc.
  split; [|split].
  - rewrite getreg_setpc, getreg_setreg, Z.eqb_refl. assert (d =? 0 = false) as -> by lia. cbn [andb negb].
    apply rep_u32; [lia|]. unfold rep. rewrite wrap_bits_mod by lia.
    assert (Hl : forall n, load_le s n (getreg s c0 + c) = load_le s n A)
      by (intros n; apply load_le_congr; now symmetry).
    destruct k; cbn [lk_bytes] in Hw; subst bits; cbn [load_value]; rewrite Hl;
      rewrite ?sext_mod by lia;
      (erewrite load_le_read; [reflexivity|exact Hrel|exact Hread]).
  - intros x Hx. rewrite getreg_setpc, getreg_setreg_other; [reflexivity|now apply Hfr].
  - intros a. now rewrite loadbyte_setpc, loadbyte_setreg.
Qed.

Theorem check_store_sound r : check_store r = true -> store_correct r.
Proof.
  unfold check_store. intros Hck. apply andb_prop in Hck. destruct Hck as [_ Hck].
  intros t off e s il bits sg c0 c1 c m A z m' Hsem Hshape Hcond Hti Hmo Hoff H0 H1 Hinst Hrel HA Hz Hwr.
  rewrite Hsem, Hshape in Hck.
  destruct (one_instr r [SChild 1; off_opnd off; SChild 0]) as [mn|] eqn:Hone; [|discriminate].
  destruct (r_result r) eqn:Hres; [|discriminate].
  destruct (assoc_fmt rv_formats mn) as [[ | | | | |k| | ]|] eqn:Hfmt; try discriminate.
  apply andb_prop in Hck. destruct Hck as [Hw Hok]. apply Z.eqb_eq in Hw.
  pose proof (off_range _ _ _ _ Hok Hcond Hti Hmo Hoff) as Hc.
  apply one_instr_eq in Hone. unfold instantiate in Hinst. rewrite Hone in Hinst.
  cbn [body_items opnds_val] in Hinst. rewrite Hoff in Hinst. cbn [opnd_val] in Hinst. rewrite H0, H1 in Hinst.
  unfold expand_item in Hinst. rewrite (fmt_not_li _ _ Hfmt) in Hinst.
  cbn [List.app to_rv_all] in Hinst. rewrite (to_rv_S _ _ _ _ _ Hfmt) in Hinst. inversion Hinst; subst il.
  cbn [exec_seq exec]. rewrite sext12_small by exact Hc. split.
  - intros a b Hab.
    assert (R : mem_rel m' (store_le s (store_width k) (getreg s c0 + c) (getreg s c1))).
    { destruct k; cbn [sk_bytes] in Hw; subst bits; unfold rep in Hz;
        (eapply store_rel; [exact Hrel|exact HA| |exact Hwr]); exact Hz. }
    destruct (R a b Hab) as (Ha & Hb & Hl). rewrite loadbyte_setpc. auto.
  - intros x. rewrite getreg_setpc. apply getreg_store_le.
Qed.

Theorem check_mov_sound r : check_mov r = true -> mov_correct r.
Proof.
  unfold check_mov. intros Hck t e s il c0 Hsem Hv H0 Hinst. rewrite Hsem in Hck.
  destruct (shape t); [|discriminate].
  destruct (one_instr r [SValue; SChild 0]) as [mn|] eqn:Hone; [|discriminate].
  destruct (r_result r) as [|[ | | | | |  | ] [|? ?]] eqn:Hres; try discriminate.
  apply String.eqb_eq in Hck. subst mn.
  apply one_instr_eq in Hone. unfold instantiate in Hinst. rewrite Hone in Hinst.
  cbn [body_items opnds_val opnd_val] in Hinst. rewrite H0 in Hinst.
  cbn in Hinst. inversion Hinst; subst il. split; [reflexivity|].
  cbn [exec_seq exec]. split; [|split].
  - rewrite getreg_setpc, getreg_setreg, Z.eqb_refl.
    assert (e_value e =? 0 = false) as -> by lia. cbn [andb negb alu_i].
    rewrite Z.add_0_r, u32_idem. apply u32_getreg.
  - intros x Hx. now rewrite getreg_setpc, getreg_setreg_other.
  - intros a. now rewrite loadbyte_setpc, loadbyte_setreg.
Qed.

Lemma s32_small a : 0 <= a < 4294967296 -> s32 a = if a <? 2147483648 then a else a - 4294967296.
Proof. intros H. unfold s32, W32. now rewrite Z.mod_small by lia. Qed.

Lemma wrap32_cases sg a : 0 <= a < 4294967296 ->
  wrap_bits 32 sg a = if sg then (if a <? 2147483648 then a else a - 4294967296) else a.
Proof.
  intros H. destruct sg.
  - rewrite <- s32_is_wrap. now apply s32_small.
  - apply wrap32u. change (2 ^ 32) with 4294967296. lia.
Qed.

Theorem check_cjmp_sound r : check_cjmp r = true -> cjmp_correct r.
Proof.
  unfold check_cjmp. intros Hck t c bits sg Hsem Hshape. rewrite Hsem in Hck.
  destruct (cj_body r) as [bmn|]; [|discriminate]. rewrite Hshape in Hck.
  destruct (assoc_br branches bmn) as [[bc sw]|] eqn:Hbr; [|discriminate].
  apply andb_prop in Hck. destruct Hck as [Hck Hsw]. apply andb_prop in Hck. destruct Hck as [Hb Hbc].
  apply Z.eqb_eq in Hb. subst bits. apply bcond_eqb_eq in Hbc.
  exists bmn, bc, sw. split; [reflexivity|]. split; [exact Hbr|].
  intros s c0 c1. unfold val.
  pose proof (getreg_range s c0) as R0. pose proof (getreg_range s c1) as R1.
  change (2 ^ 32) with 4294967296 in R0, R1. subst bc.
  destruct sw; revert R0 R1; generalize (getreg s c0) as a; generalize (getreg s c1) as b; intros b a R0 R1;
    rewrite (wrap32_cases sg a R0), (wrap32_cases sg b R1);
    destruct c, sg; cbn [cj_expect fst snd Bool.eqb orb] in *; try discriminate;
    cbn [branch_taken eval_cond]; rewrite ?(s32_small a R0), ?(s32_small b R1), ?Z.gtb_ltb, ?Z.geb_leb;
    repeat match goal with
    | |- context [?x <? ?y] => destruct (Z.ltb_spec x y)
    | |- context [?x <=? ?y] => destruct (Z.leb_spec x y)
    | |- context [?x =? ?y] => destruct (Z.eqb_spec x y)
    end; cbn [negb]; try reflexivity; lia.
Qed.

Theorem check_jmp_sound r : check_jmp r = true ->
  exists l, r_body r = [("j"%string, [SOther l])] /\ forall off, to_rv ("j"%string, [off]) = Some (RJal 0 off).
Proof.
  unfold check_jmp. intros H.
  destruct (tree_sem2 (r_tree r)) as [[ | | | | ]|]; try discriminate.
  destruct (r_body r) as [|[mn [|[ | | | | | |l] [|? ?]]] [|? ?]]; try discriminate.
  destruct (r_result r); [|discriminate]. apply andb_prop in H. destruct H as [H1 H2].
  apply String.eqb_eq in H1. subst mn. exists l. split; [reflexivity|]. intros off. reflexivity.
Qed.

(* ------------------------------------------------------------------ table-level helpers *)
Definition in_scope2 (r : rule) : bool := match tree_sem2 (r_tree r) with Some _ => true | None => false end.
Definition check_rule2 (r : rule) : bool :=
  check_load r || check_store r || check_mov r || check_cjmp r || check_jmp r.

(* concrete counterexample of a conditional-jump rule: register contents a, b on which the emitted branch
   is taken although IRSem.eval_cond is false (or the converse) *)
Definition cj_witness_ok (r : rule) (a b : Z) : bool :=
  match tree_sem2 (r_tree r), cj_body r with
  | Some (MCjmp t c), Some bmn =>
      match shape t, assoc_br branches bmn with
      | Some (bits, sg), Some (bc, sw) =>
          (0 <=? a) && (a <? 4294967296) && (0 <=? b) && (b <? 4294967296) &&
          negb (Bool.eqb (branch_taken bc (if sw then b else a) (if sw then a else b))
                         (eval_cond c (val bits sg a) (val bits sg b)))
      | _, _ => false
      end
  | _, _ => false
  end.
