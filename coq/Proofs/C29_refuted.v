(* C29 — the exclusions of Spec/C29Known.v are necessary: on the full language the closure check fails
   (model level: no cover from usable rules; each operator is replayed on the real selector by the check) *)
From Coq Require Import String List.
From PV Require Import Spec.BurgCoverSpec Spec.IRTrees Spec.C29Known Model.BurgCover Proofs.C29_cover
  Gen.Tab_burg_x86_64 Gen.Tab_burg_arm Gen.Tab_burg_thumb Gen.Tab_burg_riscv Gen.Tab_burg_riscv_rvc.
Import ListNotations.
Local Open Scope string_scope.

Definition t_mul8 : tree := T "MOVI8" [T "MULI8" [T "REGI8" []; T "REGI8" []]].
Definition t_rem32 : tree := T "MOVU32" [T "REMU32" [T "REGU32" []; T "REGU32" []]].
Definition t_inv32 : tree := T "MOVI32" [T "INVI32" [T "REGI32" []]].
Definition t_div8 : tree := T "MOVI8" [T "DIVI8" [T "REGI8" []; T "REGI8" []]].
Definition t_ok : tree := T "STRI32" [T "ADDU32" [T "REGU32" []; T "CONSTU32" []]; T "ADDI32" [T "REGI32" []; T "REGI32" []]].

Definition unselected (rules : list rule) (d : tdesc) (t : tree) : Prop :=
  in_lang (irtrees d []) "S" t /\ selects rules t = false.

Lemma refuted_x86_64 : unselected (usable assume_x86_64 rules_x86_64) desc_x86_64 t_mul8.
Proof. split; [apply in_langb_sound|]; vm_compute; reflexivity. Qed.
Lemma refuted_arm : unselected (usable assume_arm rules_arm) desc_arm t_rem32.
Proof. split; [apply in_langb_sound|]; vm_compute; reflexivity. Qed.
Lemma refuted_thumb : unselected (usable assume_thumb rules_thumb) desc_thumb t_inv32.
Proof. split; [apply in_langb_sound|]; vm_compute; reflexivity. Qed.
Lemma refuted_riscv : unselected (usable assume_riscv rules_riscv) desc_riscv t_div8.
Proof. split; [apply in_langb_sound|]; vm_compute; reflexivity. Qed.
Lemma refuted_riscv_rvc : unselected (usable assume_riscv_rvc rules_riscv_rvc) desc_riscv_rvc t_div8.
Proof. split; [apply in_langb_sound|]; vm_compute; reflexivity. Qed.

(* non-vacuity: the proven languages are inhabited and the hypotheses of the generic lemma hold *)
Lemma nonvacuous_arm : in_langb (irtrees desc_arm excl_arm) t_ok "S" = true /\
                       selects (usable assume_arm rules_arm) t_ok = true.
Proof. split; vm_compute; reflexivity. Qed.
