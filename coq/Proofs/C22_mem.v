(* Proofs/C22_mem.v — linear memory of the python target (Model.WasmMem, hand model of the IrPy memory
   builtins, PythonMemoryInstance and the wasm2ppci address computation) against Spec.WasmMemSpec. *)
From PV Require Import Lib.Py Lib.Tac Spec.BitsSpec Spec.WasmNumSpec Spec.WasmMemSpec Model.WasmMem.
From PV Require Import Proofs.C39_bitfun Proofs.C22_base Proofs.C22_mapping.
From PV Require Gen.irpy_rt.
Open Scope Z_scope.

(* ------------------------------------------------------------------ lists *)
Lemma skipn_skipn {A} (a b : nat) (l : list A) : skipn a (skipn b l) = skipn (b + a) l.
Proof.
  revert l. induction b; intros l; [reflexivity|]. destruct l; [now rewrite !skipn_nil|]. cbn. apply IHb.
Qed.

Lemma Forall_skipn {A} (P : A -> Prop) n (l : list A) : Forall P l -> Forall P (skipn n l).
Proof. revert l. induction n; intros l H; [exact H|]. destruct l; [constructor|]. inversion H; subst. cbn. now apply IHn. Qed.
Lemma Forall_firstn {A} (P : A -> Prop) n (l : list A) : Forall P l -> Forall P (firstn n l).
Proof. revert l. induction n; intros l H; [constructor|]. destruct l; [constructor|]. inversion H; subst. cbn. constructor; auto. Qed.

Definition bytes_ok (l : list Z) : Prop := Forall (fun b => 0 <= b < 256) l.

Lemma le_value_range l : bytes_ok l -> 0 <= le_value l < 2 ^ (8 * Z.of_nat (length l)).
Proof.
  induction 1 as [|b l Hb Hl IH]; [cbn; lia|]. cbn [le_value length].
  replace (8 * Z.of_nat (S (length l))) with (8 + 8 * Z.of_nat (length l)) by lia.
  rewrite Z.pow_add_r by lia. change (2 ^ 8) with 256. lia.
Qed.

Lemma le_bytes_length n v : length (le_bytes n v) = n.
Proof. revert v. induction n; intros v; cbn; [reflexivity|]. now rewrite IHn. Qed.
Lemma le_bytes_ok n v : bytes_ok (le_bytes n v).
Proof.
  revert v. induction n; intros v; cbn; constructor; [|apply IHn].
  apply Z.mod_pos_bound. lia.
Qed.

(* ------------------------------------------------------------------ the invariant *)
Definition mstart (m : pymem) : Z := mem0 m - HEAP_START.       (* index of the wasm memory in the heap *)
Definition wf (m : pymem) : Prop :=
  0 <= mstart m <= len (heap m) /\ bytes_ok (heap m).

Lemma wasm_mem_len m : wf m -> mlen (wasm_mem m) = len (heap m) - mstart m.
Proof.
  intros [H _]. unfold mlen, wasm_mem, len in *. fold (mstart m). rewrite skipn_length. lia.
Qed.

Lemma clampi_id n i : 0 <= i <= n -> clampi n i = i.
Proof. intros. unfold clampi. destruct (Z.ltb_spec i 0); lia. Qed.

(* an in-bounds read of the heap is the corresponding piece of the wasm memory *)
Lemma read_mem_in m ea size : wf m -> 0 <= ea -> 0 <= size -> ea + size <= mlen (wasm_mem m) ->
  read_mem m (mem0 m + ea) size = Ok (firstn (Z.to_nat size) (skipn (Z.to_nat ea) (wasm_mem m))).
Proof.
  intros Hwf Hea Hs Hb. rewrite wasm_mem_len in Hb by assumption. destruct Hwf as [Hk _].
  unfold read_mem, get_memory. unfold mstart in *.
  replace (HEAP_START <=? mem0 m + ea) with true by lia. cbn [fst snd].
  replace (mem0 m + ea - HEAP_START + size <=? len (heap m)) with true by lia. rewrite guard_true.
  f_equal. unfold pyslice. rewrite !clampi_id by lia. unfold sliceZ, wasm_mem.
  rewrite skipn_skipn. f_equal; [lia|]. f_equal. lia.
Qed.

Lemma read_mem_out m ea size : wf m -> 0 <= ea -> mlen (wasm_mem m) < ea + size ->
  read_mem m (mem0 m + ea) size = Internal AssertionError.
Proof.
  intros Hwf Hea Hb. rewrite wasm_mem_len in Hb by assumption. destruct Hwf as [Hk _].
  unfold read_mem, get_memory. unfold mstart in *.
  replace (HEAP_START <=? mem0 m + ea) with true by lia. cbn [fst snd].
  replace (mem0 m + ea - HEAP_START + size <=? len (heap m)) with false by lia. reflexivity.
Qed.

(* ------------------------------------------------------------------ loads *)
Definition sgn_ext (mb v : Z) : Z := if v <? 2 ^ (mb - 1) then v else v - 2 ^ mb.

Lemma signed_of_small mb v : 1 <= mb -> 0 <= v < 2 ^ mb -> signed_of mb v = sgn_ext mb v.
Proof.
  intros H Hv. rewrite signed_of_signed by lia. rewrite Z.mod_small by lia. reflexivity.
Qed.

Lemma some_inj {A} (a b : A) : Some a = Some b -> a = b.
Proof. intros H. now inversion H. Qed.

Section Load.
Variables (m : pymem) (size : nat) (N : Z) (s off : Z).
Hypothesis Hwf : wf m.
Hypothesis Hsize : (1 <= size)%nat.
Hypothesis HN : 8 * Z.of_nat size <= N.
Hypothesis Hs : 0 <= s.
Hypothesis Hoff : 0 <= off.
Let mb := 8 * Z.of_nat size.
Let W := wasm_mem m.
Let bytes := firstn size (skipn (Z.to_nat (s + off)) W).

Lemma bytes_facts : s + off + Z.of_nat size <= mlen W ->
  length bytes = size /\ 0 <= le_value bytes < 2 ^ mb.
Proof.
  intros Hb. assert (L : length bytes = size).
  { subst bytes. rewrite firstn_length, skipn_length. unfold mlen in Hb. lia. }
  split; [exact L|].
  assert (B : bytes_ok bytes).
  { subst bytes W. apply Forall_firstn, Forall_skipn. unfold wasm_mem. apply Forall_skipn. apply Hwf. }
  pose proof (le_value_range bytes B) as R. rewrite L in R. exact R.
Qed.

Lemma load_int_in sgn : s + off + Z.of_nat size <= mlen W ->
  load_int m sgn size (eff_address m s off)
  = Ok (if sgn then signed_of mb (le_value bytes) else le_value bytes).
Proof.
  intros Hb. unfold load_int, eff_address.
  rewrite read_mem_in by (assumption || lia). cbn [bind]. rewrite Nat2Z.id.
  destruct (bytes_facts Hb) as [L _]. unfold unpack_int. fold W. fold bytes. rewrite L, Nat.eqb_refl. reflexivity.
Qed.

(* narrow load with sign/zero extension (8*size < N) *)
Theorem load_narrow sx r : 8 * Z.of_nat size <> N ->
  mem_load W size sx N s off = Some r -> wasm_load m size sx N s off = Ok (signed N r).
Proof.
  intros Hne S. unfold mem_load in S.
  destruct (Z.leb_spec (s + off + Z.of_nat size) (mlen W)) as [Hb|]; [|discriminate].
  apply some_inj in S. subst r. unfold wasm_load. rewrite load_int_in by assumption. cbn [bind].
  replace (8 * Z.of_nat size =? N) with false by lia.
  rewrite irpy_correct_s by lia. f_equal. fold bytes. fold mb.
  destruct (bytes_facts Hb) as [_ R]. assert (P := pow2_pos mb ltac:(subst mb; lia)).
  destruct sx.
  - rewrite (signed_of_small mb (le_value bytes)) by (subst mb; lia). fold (sgn_ext mb (le_value bytes)).
    rewrite signed_of_signed by lia. reflexivity.
  - rewrite signed_of_signed by lia. f_equal. apply Z.mod_small.
    assert (2 ^ mb <= 2 ^ N) by (apply Z.pow_le_mono_r; lia). lia.
Qed.

(* full-width load: ppci loads with the signed struct format *)
Theorem load_full sx r : 8 * Z.of_nat size = N ->
  mem_load W size sx N s off = Some r -> wasm_load m size true N s off = Ok (signed N r).
Proof.
  intros He S. unfold mem_load in S.
  destruct (Z.leb_spec (s + off + Z.of_nat size) (mlen W)) as [Hb|]; [|discriminate].
  apply some_inj in S. subst r. unfold wasm_load. rewrite load_int_in by assumption. cbn [bind].
  replace (8 * Z.of_nat size =? N) with true by lia. f_equal. fold bytes. fold mb.
  destruct (bytes_facts Hb) as [_ R]. assert (E : mb = N) by (subst mb; lia).
  assert (P := pow2_pos mb ltac:(subst mb; lia)).
  rewrite E in *. rewrite signed_of_signed by lia. rewrite (Z.mod_small (le_value bytes)) by lia.
  destruct sx; [|reflexivity].
  fold (sgn_ext N (le_value bytes)). unfold sgn_ext, signed.
  destruct (Z.ltb_spec (le_value bytes) (2 ^ (N - 1))).
  - rewrite Z.mod_small by lia. destruct (Z.ltb_spec (le_value bytes) (2 ^ (N - 1))); lia.
  - assert (E2 := pow2_split N ltac:(lia)).
    assert (M : (le_value bytes - 2 ^ N) mod 2 ^ N = le_value bytes).
    { symmetry. apply (Z.mod_unique_pos _ _ (-1)); lia. }
    rewrite M. destruct (Z.ltb_spec (le_value bytes) (2 ^ (N - 1))); lia.
Qed.

(* out of bounds (for addresses 0 <= s < 2^31, i.e. non-negative as ppci passes them): always raises *)
Theorem load_oob sgn sx : mem_load W size sx N s off = None ->
  wasm_load m size sgn N s off = Internal AssertionError.
Proof.
  intros S. unfold mem_load in S.
  destruct (Z.leb_spec (s + off + Z.of_nat size) (mlen W)) as [|Hb]; [discriminate|].
  unfold wasm_load, load_int, eff_address. rewrite read_mem_out by (assumption || lia). reflexivity.
Qed.
End Load.

(* ------------------------------------------------------------------ writes *)
Lemma skipn_firstn_app {A} (k e : nat) (h X : list A) : (k + e <= length h)%nat ->
  skipn k (firstn (k + e) h ++ X) = firstn e (skipn k h) ++ X.
Proof.
  intros H. rewrite skipn_app. rewrite firstn_length. replace (k - Nat.min (k + e) (length h))%nat with 0%nat by lia.
  cbn [skipn]. f_equal. revert h H. induction k; intros h H; [reflexivity|].
  destruct h; [cbn in H; lia|]. cbn. apply IHk. cbn in H. lia.
Qed.

Lemma firstn_firstn_app {A} (k e : nat) (h X : list A) : (k + e <= length h)%nat ->
  firstn k (firstn (k + e) h ++ X) = firstn k h.
Proof.
  intros H. rewrite firstn_app. rewrite firstn_length. replace (k - Nat.min (k + e) (length h))%nat with 0%nat by lia.
  cbn [firstn]. rewrite app_nil_r. rewrite firstn_firstn. f_equal. lia.
Qed.

(* an in-bounds write: the wasm memory is updated in place, everything below mem0 is untouched *)
Lemma write_mem_in m ea data : wf m -> bytes_ok data -> 0 <= ea -> ea + len data <= mlen (wasm_mem m) ->
  exists m', write_mem m (mem0 m + ea) data = Ok m' /\
    wasm_mem m' = firstn (Z.to_nat ea) (wasm_mem m) ++ data ++ skipn (Z.to_nat ea + length data) (wasm_mem m) /\
    mem0 m' = mem0 m /\ maxp m' = maxp m /\ stack m' = stack m /\
    firstn (Z.to_nat (mstart m)) (heap m') = firstn (Z.to_nat (mstart m)) (heap m) /\ wf m'.
Proof.
  intros Hwf Hd Hea Hb. rewrite wasm_mem_len in Hb by assumption. destruct Hwf as [Hk Hbytes].
  unfold write_mem, get_memory. unfold mstart in *. unfold len in *.
  replace (HEAP_START <=? mem0 m + ea) with true by lia.
  replace (mem0 m + ea - HEAP_START + Z.of_nat (length data) <=? Z.of_nat (length (heap m))) with true by lia.
  rewrite guard_true. eexists. split; [reflexivity|].
  set (k := Z.to_nat (mem0 m - HEAP_START)). set (e := Z.to_nat ea).
  assert (A : assign_slice (heap m) (mem0 m + ea - HEAP_START) (mem0 m + ea - HEAP_START + Z.of_nat (length data)) data
              = firstn (k + e) (heap m) ++ data ++ skipn (k + e + length data) (heap m)).
  { unfold assign_slice, len. rewrite !clampi_id by lia. rewrite Z.max_r by lia.
    f_equal; [f_equal; lia|]. f_equal. f_equal. lia. }
  rewrite A. cbn [heap mem0 maxp stack]. unfold wasm_mem. cbn [heap mem0]. fold k.
  assert (Hke : (k + e + length data <= length (heap m))%nat) by lia.
  repeat split.
  - rewrite skipn_firstn_app by lia. f_equal. f_equal. rewrite skipn_skipn. f_equal. lia.
  - unfold mstart. cbn [mem0]. fold k. apply firstn_firstn_app. lia.
  - unfold mstart, len. cbn [mem0 heap]. lia.
  - unfold mstart, len. cbn [mem0 heap]. rewrite !app_length, firstn_length, skipn_length. lia.
  - cbn [heap]. apply Forall_app. split; [now apply Forall_firstn|]. apply Forall_app. split; [assumption|now apply Forall_skipn].
Qed.

Lemma write_mem_out m ea data : wf m -> 0 <= ea -> mlen (wasm_mem m) < ea + len data ->
  write_mem m (mem0 m + ea) data = Internal AssertionError.
Proof.
  intros Hwf Hea Hb. rewrite wasm_mem_len in Hb by assumption. destruct Hwf as [Hk _].
  unfold write_mem, get_memory. unfold mstart in *.
  replace (HEAP_START <=? mem0 m + ea) with true by lia.
  replace (mem0 m + ea - HEAP_START + len data <=? len (heap m)) with false by lia. reflexivity.
Qed.

(* ------------------------------------------------------------------ stores *)
Definition store_post (m m' : pymem) (W' : list Z) : Prop :=
  wasm_mem m' = W' /\ mem0 m' = mem0 m /\ maxp m' = maxp m /\ stack m' = stack m /\
  firstn (Z.to_nat (mstart m)) (heap m') = firstn (Z.to_nat (mstart m)) (heap m) /\ wf m'.

Theorem store_exact m size N s off v W' : wf m -> (1 <= size)%nat -> 8 * Z.of_nat size <= N ->
  0 <= s -> 0 <= off -> in_s N v ->
  mem_store (wasm_mem m) size s off (unsigned N v) = Some W' ->
  exists m', wasm_store m size N s off v = Ok m' /\ store_post m m' W'.
Proof.
  intros Hwf Hsize HN Hs Hoff Hv S. unfold mem_store in S.
  destruct (Z.leb_spec (s + off + Z.of_nat size) (mlen (wasm_mem m))) as [Hb|]; [|discriminate].
  apply some_inj in S. subst W'. set (mb := 8 * Z.of_nat size) in *.
  assert (Hmb : 1 <= mb) by (subst mb; lia). assert (P := pow2_pos mb ltac:(lia)).
  (* the value that reaches struct.pack and the bytes it produces *)
  assert (V : exists v', (if mb =? N then Ok v else irpy_rt.correct v mb true) = Ok v' /\
                         in_s mb v' /\ v' mod 2 ^ mb = unsigned N v mod 2 ^ mb).
  { destruct (Z.eqb_spec mb N) as [E|E].
    - exists v. split; [reflexivity|]. rewrite E. split; [assumption|]. unfold unsigned. now rewrite Z.mod_mod by lia.
    - exists (signed_of mb v). rewrite irpy_correct_s by lia. split; [reflexivity|].
      split; [apply signed_of_in_s; lia|]. destruct (signed_of_spec mb v Hmb) as [_ M]. rewrite M.
      unfold unsigned. now rewrite mod_mod_pow by lia. }
  destruct V as (v' & EV & [R1 R2] & M).
  unfold wasm_store. fold mb. rewrite EV. cbn [bind]. unfold store_int, pack_int. fold mb.
  replace ((- 2 ^ (mb - 1) <=? v') && (v' <? 2 ^ (mb - 1))) with true by lia. cbn [bind].
  rewrite M. unfold eff_address.
  destruct (write_mem_in m (s + off) (le_bytes size (unsigned N v mod 2 ^ mb)) Hwf (le_bytes_ok _ _) ltac:(lia))
    as (m' & E & Wm & R); [unfold len; rewrite le_bytes_length; lia|].
  exists m'. split; [exact E|]. unfold store_post. rewrite le_bytes_length in Wm. split; [exact Wm|exact R].
Qed.

Theorem store_oob m size N s off v : wf m -> (1 <= size)%nat -> 8 * Z.of_nat size <= N ->
  0 <= s -> 0 <= off -> in_s N v ->
  mem_store (wasm_mem m) size s off (unsigned N v) = None ->
  wasm_store m size N s off v = Internal AssertionError.
Proof.
  intros Hwf Hsize HN Hs Hoff Hv S. unfold mem_store in S.
  destruct (Z.leb_spec (s + off + Z.of_nat size) (mlen (wasm_mem m))) as [|Hb]; [discriminate|].
  set (mb := 8 * Z.of_nat size) in *. assert (Hmb : 1 <= mb) by (subst mb; lia).
  unfold wasm_store. fold mb.
  assert (V : exists v', (if mb =? N then Ok v else irpy_rt.correct v mb true) = Ok v' /\ in_s mb v').
  { destruct (Z.eqb_spec mb N) as [E|E].
    - exists v. rewrite E. now split.
    - exists (signed_of mb v). rewrite irpy_correct_s by lia. split; [reflexivity|apply signed_of_in_s; lia]. }
  destruct V as (v' & EV & [R1 R2]). rewrite EV. cbn [bind]. unfold store_int, pack_int. fold mb.
  replace ((- 2 ^ (mb - 1) <=? v') && (v' <? 2 ^ (mb - 1))) with true by lia. cbn [bind].
  unfold eff_address. apply write_mem_out; [assumption|lia|]. unfold len. rewrite le_bytes_length. lia.
Qed.

(* ------------------------------------------------------------------ data segments *)
Theorem data_init_exact m off data W' : wf m -> bytes_ok data ->
  mem_init (wasm_mem m) off data = Some W' ->
  exists m', mem_write m off data = Ok m' /\ store_post m m' W'.
Proof.
  intros Hwf Hd S. unfold mem_init in S.
  destruct (Z.leb_spec 0 off) as [H0|]; [|discriminate].
  destruct (Z.leb_spec (off + mlen data) (mlen (wasm_mem m))) as [Hb|]; [|discriminate].
  cbn [andb] in S. apply some_inj in S. subst W'. unfold mem_write.
  destruct (write_mem_in m off data Hwf Hd H0 Hb) as (m' & E & Wm & R).
  exists m'. split; [exact E|]. split; [exact Wm|exact R].
Qed.

Theorem data_init_oob m off data : wf m -> 0 <= off ->
  mem_init (wasm_mem m) off data = None -> mem_write m off data = Internal AssertionError.
Proof.
  intros Hwf H0 S. unfold mem_init in S. replace (0 <=? off) with true in S by lia. cbn [andb] in S.
  destruct (Z.leb_spec (off + mlen data) (mlen (wasm_mem m))) as [|Hb]; [discriminate|].
  unfold mem_write. now apply write_mem_out.
Qed.

(* ------------------------------------------------------------------ memory.size / memory.grow *)
(* the memory is page aligned: its length is pages * 65536 *)
Definition paged (m : pymem) (pages : Z) : Prop := mlen (wasm_mem m) = pages * PAGE /\ 0 <= pages.

Lemma mem_size_paged m pages : wf m -> paged m pages -> mem_size m = pages.
Proof.
  intros Hwf [Hp H0]. rewrite wasm_mem_len in Hp by assumption. unfold mem_size, heap_top, mstart in *.
  replace (len (heap m) + HEAP_START - mem0 m) with (pages * PAGE) by lia. apply Z.div_mul. unfold PAGE. lia.
Qed.

Theorem grow_spec m pages n : wf m -> paged m pages -> 0 <= n -> in_s 32 n ->
  exists m', mem_grow_py m n = Ok (fst (mem_grow pages (Some (maxp m)) n), m') /\
    paged m' (snd (mem_grow pages (Some (maxp m)) n)) /\
    wasm_mem m' = wasm_mem m ++ repeat 0 (Z.to_nat ((snd (mem_grow pages (Some (maxp m)) n) - pages) * PAGE)) /\
    mem0 m' = mem0 m /\ maxp m' = maxp m /\ wf m'.
Proof.
  intros Hwf Hp Hn [_ Hn2]. unfold mem_grow_py. rewrite (mem_size_paged m pages Hwf Hp).
  unfold mem_grow. change (2 ^ (32 - 1)) with 2147483648 in Hn2.
  rewrite (Z.mod_small n) by (change (2 ^ 32) with 4294967296; lia).
  destruct (Z.leb_spec (pages + n) (maxp m)) as [L|L]; cbn [fst snd].
  - replace (maxp m <? pages + n) with false by lia.
    replace (0 <=? n * PAGE) with true by (unfold PAGE; lia). rewrite guard_true.
    eexists. split; [reflexivity|]. destruct Hp as [Hp H0]. destruct Hwf as [Hk Hb].
    unfold paged, wasm_mem, mstart, mlen in *. cbn [heap mem0 maxp].
    rewrite skipn_app. rewrite skipn_length in Hp.
    replace (Z.to_nat (mem0 m - HEAP_START) - length (heap m))%nat with 0%nat by (unfold len in Hk; lia).
    cbn [skipn]. replace (pages + n - pages) with n by lia.
    repeat split; try lia.
    + rewrite app_length, skipn_length, repeat_length. unfold PAGE, len in *. lia.
    + unfold mstart, len in *. cbn [heap mem0]. rewrite ?app_length. lia.
    + unfold mstart, len in *. cbn [heap mem0]. rewrite ?app_length. lia.
    + apply Forall_app. split; [assumption|]. apply Forall_forall. intros x Hx. apply repeat_spec in Hx. lia.
  - replace (maxp m <? pages + n) with true by lia.
    exists m. split; [reflexivity|]. replace (pages - pages) with 0 by lia. cbn [Z.mul Z.to_nat repeat].
    rewrite app_nil_r. split; [exact Hp|]. split; [reflexivity|]. split; [reflexivity|]. split; [reflexivity|exact Hwf].
Qed.

(* ------------------------------------------------------------------ refuted rows (known findings) *)
Definition tiny : pymem :=
  {| heap := [9; 9; 9; 9; 1; 2; 3; 4]; stack := []; mem0 := HEAP_START + 4; maxp := 3 |}.

(* address -4 = 0xFFFFFFFC is far out of bounds, the spec traps; the model reads the 4 bytes below the memory *)
Theorem load_high_address_not_trapped :
  exists m s, wf m /\ in_s 32 s /\ mem_load (wasm_mem m) 4 false 32 (unsigned 32 s) 0 = None /\
              wasm_load m 4 true 32 s 0 = Ok 151587081.
Proof.
  exists tiny, (-4). repeat split; try (vm_compute; intuition congruence).
  repeat constructor; lia.
Qed.

(* memory.grow with an operand >= 2^31: the spec returns -1, the python instance raises ValueError *)
Theorem grow_high_operand_raises :
  exists m n, in_s 32 n /\ fst (mem_grow (mem_size m) (Some (maxp m)) n) = -1 /\
              mem_grow_py m n = Internal ValueErrorI.
Proof. exists tiny, (-1). repeat split; vm_compute; intuition congruence. Qed.

(* ------------------------------------------------------------------ closed statements (Props/C22_mem.v) *)
Lemma load_narrow_c m size N s off sx r : wf m -> (1 <= size)%nat ->
  8 * Z.of_nat size <= N -> 0 <= s -> 0 <= off -> 8 * Z.of_nat size <> N ->
  mem_load (wasm_mem m) size sx N s off = Some r -> wasm_load m size sx N s off = Ok (signed N r).
Proof. intros. eapply load_narrow; eassumption. Qed.
Lemma load_full_c m size N s off sx r : wf m -> (1 <= size)%nat ->
  8 * Z.of_nat size <= N -> 0 <= s -> 0 <= off -> 8 * Z.of_nat size = N ->
  mem_load (wasm_mem m) size sx N s off = Some r -> wasm_load m size true N s off = Ok (signed N r).
Proof. intros. eapply load_full; eassumption. Qed.
Lemma load_oob_c m size N s off sgn sx : wf m -> (1 <= size)%nat ->
  8 * Z.of_nat size <= N -> 0 <= s -> 0 <= off ->
  mem_load (wasm_mem m) size sx N s off = None -> wasm_load m size sgn N s off = Internal AssertionError.
Proof. intros. eapply load_oob; eassumption. Qed.
