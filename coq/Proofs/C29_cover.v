(* C29 — soundness of the bottom-up labeller model and of the closure check. *)
From Coq Require Import String List Bool ZArith Lia.
From PV Require Import Spec.BurgCoverSpec Model.BurgCover.
Import ListNotations.
Local Open Scope string_scope.
Local Open Scope list_scope.

(* ---------- induction principles for the nested types *)
Fixpoint pat_ind' (P : pat -> Prop) (Hn : forall n, P (PNt n))
         (Ho : forall o ps, Forall P ps -> P (POp o ps)) (p : pat) : P p :=
  match p with
  | PNt n => Hn n
  | POp o ps => Ho o ps ((fix go (l : list pat) : Forall P l :=
                            match l with
                            | [] => Forall_nil _
                            | x :: xs => Forall_cons _ (pat_ind' P Hn Ho x) (go xs)
                            end) ps)
  end.

Fixpoint tree_ind' (P : tree -> Prop)
         (H : forall o ks, Forall P ks -> P (T o ks)) (t : tree) : P t :=
  match t with
  | T o ks => H o ks ((fix go (l : list tree) : Forall P l :=
                         match l with
                         | [] => Forall_nil _
                         | x :: xs => Forall_cons _ (tree_ind' P H x) (go xs)
                         end) ks)
  end.

(* ---------- equality tests *)
Lemma pat_eqb_eq : forall p q, pat_eqb p q = true -> p = q.
Proof.
  induction p using pat_ind'; intros q Hq; destruct q; simpl in Hq; try discriminate.
  - apply String.eqb_eq in Hq. now subst.
  - destruct (String.eqb o s) eqn:Hs; [|discriminate]. rename Hq into Hl. apply String.eqb_eq in Hs. subst.
    f_equal. revert l Hl. induction H as [|x xs Hx _ IH]; intros l Hl; destruct l; try discriminate; auto.
    destruct (pat_eqb x p) eqn:H1; [|discriminate]. f_equal; [now apply Hx | now apply IH].
Qed.

Lemma mem_In : forall p s, mem p s = true -> In p s.
Proof.
  unfold mem. intros p s H. apply existsb_exists in H. destruct H as [x [Hin He]].
  apply pat_eqb_eq in He. now subst.
Qed.

Lemma smem_In : forall x l, smem x l = true -> In x l.
Proof.
  unfold smem. intros x l H. apply existsb_exists in H. destruct H as [y [Hin He]].
  apply String.eqb_eq in He. now subst.
Qed.

Lemma state_eqb_eq : forall a b, state_eqb a b = true -> a = b.
Proof.
  induction a; destruct b; simpl; intros H; try discriminate; auto.
  destruct (pat_eqb a p) eqn:H1; [|discriminate]. f_equal; [now apply pat_eqb_eq | now apply IHa].
Qed.

Lemma dedup_In : forall l p, In p (dedup l) -> In p l.
Proof.
  unfold dedup. intros l.
  assert (G : forall acc p, In p (fold_left (fun acc p => if mem p acc then acc else acc ++ [p]) l acc)
                            -> In p acc \/ In p l).
  { induction l as [|x xs IH]; simpl; intros acc p H; auto.
    apply IH in H. destruct H as [H|H]; auto.
    destruct (mem x acc); auto. apply in_app_or in H. destruct H as [H|[H|[]]]; auto. }
  intros p H. apply G in H. destruct H as [[]|H]; auto.
Qed.

(* ---------- the labeller only derives what has a cover *)
Section Sound.
  Variable rules : list rule.

  Lemma chains_rule : forall a b, In (a, b) (chains rules) ->
    exists r, In r rules /\ r_nt r = a /\ r_pat r = PNt b.
  Proof.
    unfold chains. intros a b H. apply in_flat_map in H. destruct H as [r [Hr Hin]].
    destruct (r_pat r) eqn:E; simpl in Hin; [|contradiction].
    destruct Hin as [Hin|[]]. inversion Hin; subst. exists r. auto.
  Qed.

  Lemma chain_close_sound : forall t fuel acc,
    (forall n, In n acc -> covers rules t n) ->
    forall n, In n (chain_close fuel (chains rules) acc) -> covers rules t n.
  Proof.
    intros t fuel. induction fuel as [|f IH]; simpl; intros acc Hacc n Hn; auto.
    destruct (filter _ (chains rules)) eqn:E; auto.
    revert Hn. apply IH. intros m Hm. apply in_app_or in Hm. destruct Hm as [Hm|Hm]; auto.
    apply in_map_iff in Hm. destruct Hm as [[a b] [Hab Hin]]. simpl in Hab. subst m.
    rewrite <- E in Hin. apply filter_In in Hin. destruct Hin as [Hch Hc]. simpl in Hc.
    apply andb_true_iff in Hc. destruct Hc as [Hb _]. apply smem_In in Hb.
    destruct (chains_rule _ _ Hch) as [r [Hr [Hnt Hp]]]. subst a.
    apply Cov; auto. rewrite Hp. apply PmNt. auto.
  Qed.

  Lemma close_of_map : forall (f : string -> list string) nts m n,
    In n (close_of (map (fun x => (x, f x)) nts) m) -> In n (f m).
  Proof.
    induction nts as [|x xs IH]; simpl; intros m n H; [contradiction|].
    destruct (String.eqb m x) eqn:E; auto. apply String.eqb_eq in E. now subst.
  Qed.

  Lemma restrict_mem : forall c st p, mem p (restrict c st) = true -> mem p st = true.
  Proof.
    intros c st p H. apply mem_In in H. unfold restrict in H. apply filter_In in H. tauto.
  Qed.

  Lemma match_kids_sound : forall kids,
    Forall (fun k => forall p, In p (state_of rules k) -> pmatch rules k p) kids ->
    forall cols ps, match_kids ps (restrict_all cols (map (state_of rules) kids)) = true ->
               pmatch_list rules kids ps.
  Proof.
    induction 1 as [|k ks Hk _ IH]; intros cols ps H; destruct ps; simpl in H; try discriminate.
    - constructor.
    - destruct cols; discriminate.
    - destruct cols as [|c cs]; simpl in H; [discriminate|].
      destruct (mem p (restrict c (state_of rules k))) eqn:H1; [|discriminate].
      constructor; eauto. apply Hk. apply mem_In. eapply restrict_mem; eauto.
  Qed.

  Theorem state_sound : forall t p, In p (state_of rules t) -> pmatch rules t p.
  Proof.
    induction t as [op kids IH] using tree_ind'. intros p Hp.
    simpl in Hp. unfold astate, astate_pre, astate_core in Hp.
    set (pr := mk_pre rules op) in *.
    set (rk := restrict_all (pre_cols pr) (map (state_of rules) kids)) in *.
    set (ops := filter (match_op rk) (pre_ops pr)) in *.
    assert (Hops : forall q, In q ops -> pmatch rules (T op kids) q).
    { intros q Hq. unfold ops in Hq. apply filter_In in Hq. destruct Hq as [Hq1 Hq2].
      unfold pr, mk_pre in Hq1. simpl in Hq1. apply dedup_In in Hq1. apply filter_In in Hq1.
      destruct Hq1 as [_ Hroot]. destruct q as [n|o ps]; simpl in Hroot; [discriminate|].
      apply String.eqb_eq in Hroot. subst o. simpl in Hq2. apply PmOp.
      eapply match_kids_sound; eauto. }
    apply in_app_or in Hp. destruct Hp as [Hp|Hp]; auto.
    apply in_map_iff in Hp. destruct Hp as [n [Hn Hin]]. subst p.
    apply filter_In in Hin. destruct Hin as [_ Hcl]. apply smem_In in Hcl.
    apply PmNt. apply in_flat_map in Hcl. destruct Hcl as [m [Hm Hn]].
    assert (Hpc : pre_close pr = map (fun x => (x, chain_close (S (length (chains rules))) (chains rules) [x]))
                                     (all_nts rules)) by reflexivity.
    rewrite Hpc in Hn. apply close_of_map in Hn.
    revert Hn. apply chain_close_sound. intros m' [Hm'|[]]. subst m'.
    apply in_map_iff in Hm. destruct Hm as [r [Hr Hin]]. subst m.
    apply filter_In in Hin. destruct Hin as [Hin Hmem].
    unfold pr, mk_pre in Hin. simpl in Hin. apply filter_In in Hin. destruct Hin as [Hin _].
    apply Cov; auto. apply Hops. now apply mem_In.
  Qed.

  (* nt in label rules t  ->  there is a cover of t deriving nt *)
  Theorem label_sound : forall t n, In n (label rules t) -> covers rules t n.
  Proof.
    intros t n H. unfold label, nts_of in H. apply in_flat_map in H. destruct H as [p [Hp Hin]].
    destruct p as [m|o ps]; simpl in Hin; [|contradiction]. destruct Hin as [Hin|[]]. subst m.
    apply state_sound in Hp. now inversion Hp.
  Qed.

  Lemma selects_sound : forall t, selects rules t = true -> covers rules t "stm".
  Proof.
    intros t H. unfold selects in H. apply mem_In in H. apply state_sound in H. now inversion H.
  Qed.
End Sound.

(* ---------- boolean language membership is sound *)
Lemma in_langb_sound : forall G t s, in_langb G t s = true -> in_lang G s t.
Proof.
  intros G. induction t as [op kids IH] using tree_ind'. intros s H.
  simpl in H. apply existsb_exists in H. destruct H as [p [Hp H]].
  destruct (String.eqb (p_sort p) s) eqn:Hs; [|discriminate].
  destruct (String.eqb (p_op p) op) eqn:Ho; [|discriminate].
  apply String.eqb_eq in Hs. apply String.eqb_eq in Ho. subst s op.
  apply InL; auto. clear Hp. revert H. generalize (p_args p).
  induction IH as [|k ks Hk' _ IHk]; intros ss Hk; destruct ss; try discriminate; constructor.
  - destruct (in_langb G k s) eqn:E; [auto|discriminate].
  - destruct (in_langb G k s) eqn:E; [auto|discriminate].
Qed.

(* ---------- a closed table contains the state of every tree of the language *)
Section Closure.
  Variable rules : list rule.
  Variable G : list prod.
  Variable R : rtab.
  Hypothesis Hclosed : closed rules G R = true.

  Lemma state_in_In : forall st l, state_in st l = true -> exists e, In e l /\ fst e = st.
  Proof.
    unfold state_in. intros st l H. apply existsb_exists in H. destruct H as [e [He Heq]].
    apply state_eqb_eq in Heq. eauto.
  Qed.

  Lemma tuples_In : forall (ls : list (list entry)) (tup : list entry),
    Forall2 (fun e l => In e l) tup ls -> In tup (tuples ls).
  Proof.
    induction 1 as [|e l tup ls He _ IH]; simpl; auto.
    apply in_flat_map. exists e. split; auto. now apply in_map.
  Qed.

  Lemma rentries_In : forall c l e, In e l -> exists e', In e' (rentries c l) /\ fst e' = restrict c (fst e).
  Proof.
    intros c l e. unfold rentries.
    set (f := fun acc e0 => let r := restrict c (fst e0) in
                            if state_in r acc then acc else acc ++ [(r, snd e0)]).
    assert (Hkeep : forall l1 acc x, In x acc -> In x (fold_left f l1 acc)).
    { intros l1; induction l1 as [|y ys IHy]; simpl; intros acc x Hx; auto. apply IHy. unfold f.
      destruct (state_in _ acc); auto. apply in_or_app; auto. }
    assert (HG : forall l1 acc, In e l1 -> exists e', In e' (fold_left f l1 acc) /\ fst e' = restrict c (fst e)).
    { intros l1; induction l1 as [|y ys IHy]; simpl; intros acc Hin; [contradiction|].
      destruct Hin as [Hy|Hy]; [|now apply IHy]. subst y.
      unfold f at 2. simpl. destruct (state_in (restrict c (fst e)) acc) eqn:E.
      - apply state_in_In in E. destruct E as [e' [He' Hf]]. exists e'. split; auto.
      - exists (restrict c (fst e), snd e). split; auto. apply Hkeep. apply in_or_app. right. now left. }
    apply HG.
  Qed.

  Lemma cands_In : forall ls sts,
    Forall2 (fun st l => exists e : entry, In e l /\ fst e = st) sts ls ->
    forall cols, exists tup, Forall2 (fun e l => In e l) tup (cands cols ls) /\
                             map fst tup = restrict_all cols sts.
  Proof.
    induction 1 as [|st l sts ls [e [He Hf]] _ IH]; intros cols.
    - exists []. split; constructor.
    - destruct cols as [|c cs]; simpl.
      + destruct (rentries_In [] l e He) as [e' [He' Hf']]. destruct (IH []) as [tup [Ht Hm]].
        exists (e' :: tup). split; [constructor; auto|]. simpl. rewrite Hf', Hm. now subst st.
      + destruct (rentries_In c l e He) as [e' [He' Hf']]. destruct (IH cs) as [tup [Ht Hm]].
        exists (e' :: tup). split; [constructor; auto|]. simpl. rewrite Hf', Hm. now subst st.
  Qed.

  Theorem closed_complete :
    (forall s t, in_lang G s t -> state_in (state_of rules t) (rget R s) = true) /\
    (forall ss ts, in_lang_list G ss ts ->
        Forall2 (fun st l => exists e : entry, In e l /\ fst e = st)
                (map (state_of rules) ts) (map (rget R) ss)).
  Proof.
    apply in_lang_mutind.
    - intros p kids Hp _ HF.
      unfold closed in Hclosed. rewrite forallb_forall in Hclosed. specialize (Hclosed p Hp).
      unfold closed_prod in Hclosed. rewrite forallb_forall in Hclosed.
      destruct (cands_In _ _ HF (pre_cols (mk_pre rules (p_op p)))) as [tup [Htup Heq]].
      specialize (Hclosed tup (tuples_In _ _ Htup)). rewrite Heq in Hclosed. exact Hclosed.
    - constructor.
    - intros s t ss ts _ Hst _ HF. simpl. constructor; auto. now apply state_in_In.
  Qed.
End Closure.

(* generic lemma: the closure check implies that every tree of the language has a cover *)
Theorem table_ok_complete : forall rules G root goal R,
  table_ok rules G root goal R = true ->
  forall t, in_lang G root t -> covers rules t goal.
Proof.
  intros rules G root goal R H t Ht. unfold table_ok in H. apply andb_true_iff in H. destruct H as [Hc Hr].
  destruct (closed_complete rules G R Hc) as [H1 _]. specialize (H1 _ _ Ht).
  apply state_in_In in H1. destruct H1 as [e [He Hfst]].
  unfold roots_ok in Hr. rewrite forallb_forall in Hr. specialize (Hr e He). rewrite Hfst in Hr.
  apply mem_In in Hr. apply state_sound in Hr. now inversion Hr.
Qed.

Theorem closure_ok_complete : forall rules G root goal,
  closure_ok rules G root goal = true ->
  forall t, in_lang G root t -> covers rules t goal.
Proof. intros rules G root goal H. exact (table_ok_complete _ _ _ _ _ H). Qed.
