(* Proofs/C15_resolve.v — name resolution of the IR text reader (property C15), unbounded:
   resolve c fp (erase fr c m) = Ok (norm c m) for every well-formed printable module, for every configuration
   with fx_fwd and the three replace_use switches on (= the current code + fixes/C15-*.diff).
   Invariant (Inv / MInv): after any prefix of the text the reader state is the expected one: scopes = the
   definitions seen so far, built instructions = the original ones with every reference whose definition has
   not been seen yet replaced by the placeholder Unres name ([hide]); Reader.define_value = substitution of the
   placeholder (Value.replace_by), which turns [hide vis] into [hide (vis + name)] by uniqueness of names. *)
From PV Require Import Lib.Py Lib.Val Lib.Json Spec.IRSyntax Model.IrJson Model.IrText.
From Coq Require Import String Ascii List Lia ZArith Bool.
Import ListNotations.
Local Open Scope string_scope.
Local Open Scope list_scope.

(* ---- generic *)
Lemma mapM_ok {A B} (f : A -> result B) (g : A -> B) l : (forall x, f x = Ok (g x)) -> mapM f l = Ok (map g l).
Proof. intros H. induction l as [|x r IH]; [reflexivity|]. cbn [mapM map]. now rewrite H, IH. Qed.
Lemma uses_map_refs g i : instr_uses (map_refs g i) = map g (instr_uses i).
Proof. destruct i; cbn; try reflexivity; rewrite !map_map; reflexivity. Qed.
Lemma def_map_refs g i : instr_def (map_refs g i) = instr_def i.
Proof. destruct i; reflexivity. Qed.
Lemma term_map_refs g i : is_terminator (map_refs g i) = is_terminator i.
Proof. destruct i; reflexivity. Qed.
Lemma map_refs_ext g h i : (forall r, In r (instr_uses i) -> g r = h r) -> map_refs g i = map_refs h i.
Proof.
  intros H. destruct i; cbn in *; try reflexivity;
    repeat match goal with |- context [g ?x] => rewrite (H x) by auto end; try reflexivity.
  - f_equal. apply map_ext_in. intros [b r] Hp. cbn. f_equal. apply H. now apply (in_map snd) in Hp.
  - f_equal. apply map_ext_in. intros r Hr. apply H. now right.
  - f_equal. apply map_ext_in. intros r Hr. apply H. now right.
Qed.
Lemma map_refs_comp g h i : map_refs g (map_refs h i) = map_refs (fun r => g (h r)) i.
Proof. destruct i; cbn; try reflexivity; rewrite !map_map; reflexivity. Qed.
Lemma mem_str_in s l : mem_str s l = true <-> In s l.
Proof.
  induction l as [|x r IH]; cbn; [split; [discriminate|tauto]|].
  rewrite orb_true_iff, IH, String.eqb_eq. split; intros [H|H]; auto.
Qed.
Lemma mem_str_app s a b : mem_str s (a ++ b) = mem_str s a || mem_str s b.
Proof. induction a; cbn; [reflexivity|]. now rewrite IHa, orb_assoc. Qed.

Definition sub_block n new (k : block) := mk_block (b_id k) (b_name k) (map (map_refs (sub1 n new)) (b_ins k)).
Definition sub_func n new (f : func) :=
  mk_func (f_name f) (f_binding f) (f_ret f) (f_params f) (map (sub_block n new) (f_blocks f)).

Section R.
Variable c : tcfg.
Hypothesis Hfwd : fx_fwd c = true.
Hypothesis Hru1 : fx_ru_generic c = true.
Hypothesis Hru2 : fx_ru_phi c = true.
Hypothesis Hru3 : fx_ru_call c = true.

Lemma tpatch_eq n new i : tpatch_instr c n new i = Ok (map_refs (sub1 n new) i).
Proof. destruct i; unfold tpatch_instr; rewrite ?Hru1, ?Hru2, ?Hru3; reflexivity. Qed.
Lemma tpatch_block_eq n new k : tpatch_block c n new k = Ok (sub_block n new k).
Proof. unfold tpatch_block. rewrite (mapM_ok _ (map_refs (sub1 n new))) by apply tpatch_eq. reflexivity. Qed.
Lemma tpatch_func_eq n new f : tpatch_func c n new f = Ok (sub_func n new f).
Proof. unfold tpatch_func. rewrite (mapM_ok _ (sub_block n new)) by apply tpatch_block_eq. reflexivity. Qed.

(* no occurrence of the placeholder [n] *)
Definition no_old n (i : instr) : Prop := forall r, In r (instr_uses i) -> is_old n r = false.
Lemma sub_no_old n new i : no_old n i -> map_refs (sub1 n new) i = i.
Proof.
  intros H. transitivity (map_refs (fun r => r) i).
  - apply map_refs_ext. intros r Hr. unfold sub1. now rewrite (H r Hr).
  - destruct i; cbn; try reflexivity; rewrite ?map_id; try reflexivity.
    f_equal. rewrite <- (map_id ins) at 2. apply map_ext. now intros [].
Qed.

(* define_value with the patch written as a substitution; [pend'] = pend without the first n *)
Lemma define_value_eq n r t local self st :
  (match r with Loc _ | Param _ => existsb (func_uses_old n) (ts_funcs st) = false | _ => True end) ->
  (plookup n (ts_pend st) = None ->
     Forall (fun f => Forall (fun k => Forall (no_old n) (b_ins k)) (f_blocks f)) (ts_funcs st) /\
     Forall (fun k => Forall (no_old n) (b_ins k)) (ts_blocks st) /\ Forall (no_old n) (ts_ins st) /\
     match self with Some i => no_old n i | None => True end) ->
  exists pend',
  define_value c n r t local self st =
  Ok (option_map (map_refs (sub1 n r)) self,
      mk_tst (if local then ts_glob st else (n, (r, t)) :: ts_glob st)
             (if local then (n, (r, t)) :: ts_loc st else ts_loc st)
             pend' (ts_next st) (ts_names st)
             (map (sub_func n r) (ts_funcs st)) (map (sub_block n r) (ts_blocks st))
             (map (map_refs (sub1 n r)) (ts_ins st)))
  /\ (forall x, x <> n -> plookup x (ts_pend st) <> None -> plookup x pend' <> None).
Proof.
  intros H79 Hno. unfold define_value. destruct (plookup n (ts_pend st)) as [t0|] eqn:E.
  - exists (premove n (ts_pend st)).
    assert (Hc : check (negb match r with Loc _ | Param _ => existsb (func_uses_old n) (ts_funcs st) | _ => false end) (OtherI 79) = Ok tt).
    { destruct r; try reflexivity; rewrite H79; reflexivity. }
    rewrite Hc. cbn [bind].
    rewrite (mapM_ok _ (sub_func n r)) by apply tpatch_func_eq.
    rewrite (mapM_ok _ (sub_block n r)) by apply tpatch_block_eq.
    rewrite (mapM_ok _ (map_refs (sub1 n r))) by apply tpatch_eq. cbn [bind].
    split.
    + destruct self as [i|]; [rewrite tpatch_eq|]; cbn [bind option_map]; destruct local; reflexivity.
    + intros x Hx. clear -Hx. induction (ts_pend st) as [|[k v] l IH]; [tauto|]. cbn.
      destruct (String.eqb n k) eqn:Ek.
      { apply String.eqb_eq in Ek. subst k. destruct (String.eqb x n) eqn:Ex; [apply String.eqb_eq in Ex; congruence|tauto]. }
      cbn. destruct (String.eqb x k); [discriminate|exact IH].
  - exists (ts_pend st). destruct (Hno eq_refl) as (Hf & Hb & Hi & Hs).
    assert (Ei : forall l, Forall (no_old n) l -> map (map_refs (sub1 n r)) l = l).
    { intros l Hl. induction Hl; [reflexivity|]. cbn. now rewrite sub_no_old, IHHl. }
    assert (Eb : forall l, Forall (fun k => Forall (no_old n) (b_ins k)) l -> map (sub_block n r) l = l).
    { intros l Hl. induction Hl as [|k l Hk _ IH]; [reflexivity|]. cbn. rewrite IH. unfold sub_block. rewrite (Ei _ Hk). now destruct k. }
    assert (Ef : forall l, Forall (fun f => Forall (fun k => Forall (no_old n) (b_ins k)) (f_blocks f)) l -> map (sub_func n r) l = l).
    { intros l Hl. induction Hl as [|f l Hk _ IH]; [reflexivity|]. cbn. rewrite IH. unfold sub_func. rewrite (Eb _ Hk). now destruct f. }
    rewrite (Ef _ Hf), (Eb _ Hb), (Ei _ Hi). cbn [bind]. split; [|tauto].
    destruct self as [i|]; cbn [option_map]; [rewrite (sub_no_old _ _ _ Hs)|]; destruct local; reflexivity.
Qed.
End R.

(* ---- association lists *)
Lemma nodup_str_NoDup l : nodup_str l = true -> NoDup l.
Proof.
  induction l as [|x r IH]; cbn; [constructor|]. intros H. apply andb_true_iff in H. destruct H as [H1 H2].
  constructor; [|auto]. intros Hin. apply mem_str_in in Hin. now rewrite Hin in H1.
Qed.
Lemma vlookup_in (l : vmap) k v : NoDup (map fst l) -> In (k, v) l -> vlookup k l = Some v.
Proof.
  induction l as [|[k' v'] r IH]; [intros _ []|]. cbn [map fst]. intros Hn [H|H].
  - inversion H; subst. cbn. now rewrite String.eqb_refl.
  - inversion Hn; subst. cbn. destruct (String.eqb k k') eqn:E.
    + apply String.eqb_eq in E. subst. exfalso. apply H2. now apply (in_map fst) in H.
    + now apply IH.
Qed.
Lemma vlookup_notin (l : vmap) k : ~ In k (map fst l) -> vlookup k l = None.
Proof.
  induction l as [|[k' v'] r IH]; [reflexivity|]. cbn. intros H. destruct (String.eqb k k') eqn:E.
  - apply String.eqb_eq in E. subst. tauto.
  - apply IH. tauto.
Qed.
Lemma NoDup_map_rev {A B} (g : A -> B) l : NoDup (map g l) -> NoDup (map g (rev l)).
Proof. intros H. rewrite map_rev. apply NoDup_rev. exact H. Qed.

(* ---- well-formed functions *)
Record fwf (gn : list string) (f : func) : Prop := {
  w_nodup : NoDup (func_local_names f);
  w_disj : forall s, In s (func_local_names f) -> ~ In s gn;
  w_bnodup : NoDup (map b_name (f_blocks f));
  w_defblk : forall s, In s (map def_name (func_defs f)) -> ~ In s (map b_name (f_blocks f));
  w_bids : map b_id (f_blocks f) = seq_pos 1 (List.length (f_blocks f));
  w_dids : map def_id (func_defs f) = seq_pos 1 (List.length (func_defs f));
  w_instr : forall i, In i (func_instrs f) -> wf_instr gn f i = true;
  w_shape : forall k, In k (f_blocks f) -> wf_block_shape (b_ins k) = true }.
Lemma forallb_negmem l gn : forallb (fun s => negb (mem_str s gn)) l = true -> forall s, In s l -> ~ In s gn.
Proof.
  intros H s Hs Hg. rewrite forallb_forall in H. specialize (H s Hs). apply mem_str_in in Hg. now rewrite Hg in H.
Qed.
Lemma wf_func_fwf gn f : wf_func gn f = true -> fwf gn f.
Proof.
  unfold wf_func. intros H.
  repeat match type of H with (_ && _)%bool = true => let H2 := fresh "Hw" in apply andb_true_iff in H; destruct H as [H H2] end.
  unfold list_pos_eqb in *. apply dec2b_spec in H. apply dec2b_spec in Hw6.
  constructor; auto.
  - now apply nodup_str_NoDup.
  - now apply forallb_negmem.
  - now apply nodup_str_NoDup.
  - now apply forallb_negmem.
  - rewrite forallb_forall in Hw3. exact Hw3.
  - rewrite forallb_forall in Hw4. exact Hw4.
Qed.
Lemma nodup_app_l {A} (a b : list A) : NoDup (a ++ b) -> NoDup a.
Proof. induction a as [|x r IH]; [constructor|]. cbn. intros H. inversion H; subst. constructor; [rewrite in_app_iff in *; tauto|auto]. Qed.
Lemma nodup_app_disj {A} (a b : list A) x : NoDup (a ++ b) -> In x a -> ~ In x b.
Proof. induction a as [|y r IH]; [intros _ []|]. cbn. intros H [->|Hx]; inversion H; subst; [rewrite in_app_iff in *; tauto|auto]. Qed.
Lemma nodup_app_disj_r {A} (a b : list A) x : NoDup (a ++ b) -> In x b -> ~ In x a.
Proof. intros H Hb Ha. exact (nodup_app_disj a b x H Ha Hb). Qed.
Lemma mem_str_false s l : ~ In s l -> mem_str s l = false.
Proof. intros H. destruct (mem_str s l) eqn:E; [|reflexivity]. apply mem_str_in in E. tauto. Qed.
Lemma vlookup_none_notin (l : vmap) k : vlookup k l = None -> ~ In k (map fst l).
Proof.
  induction l as [|[k' v'] r IH]; [intros _ []|]. cbn. destruct (String.eqb k k') eqn:E; [discriminate|].
  intros H [Hx|Hx]; [subst; now rewrite String.eqb_refl in E|now apply IH].
Qed.
Lemma mem_pos_in0 p l : mem_pos p l = true <-> In p l.
Proof.
  induction l as [|x r IH]; cbn; [split; [discriminate|tauto]|].
  rewrite orb_true_iff, IH, Pos.eqb_eq. split; intros [H|H]; auto.
Qed.
Lemma nodup_pos_NoDup l : nodup_pos l = true -> NoDup l.
Proof.
  induction l as [|x r IH]; cbn; [constructor|]. intros H. apply andb_true_iff in H. destruct H as [H1 H2].
  constructor; [|auto]. intros Hin. apply mem_pos_in0 in Hin. now rewrite Hin in H1.
Qed.
Lemma nodup_app_r {A} (a b : list A) : NoDup (a ++ b) -> NoDup b.
Proof. induction a as [|x r IH]; [auto|]. cbn. intros H. inversion H; auto. Qed.
Lemma forallb_map_r {A B} (p : B -> bool) (g : A -> B) l : forallb p (map g l) = forallb (fun x => p (g x)) l.
Proof. induction l; cbn; congruence. Qed.

(* ---- the expected reader state *)
Fixpoint pentries (ps : list (string * ty)) (k : nat) : vmap :=
  match ps with [] => [] | (n, t) :: r => (n, (Param k, t)) :: pentries r (S k) end.
Definition dentries (ds : list (vid * string * ty)) : vmap :=
  map (fun d => (def_name d, (Loc (def_id d), def_ty d))) ds.
Definition E_loc (f : func) ds : vmap := rev (pentries (f_params f) 0 ++ dentries ds).
Definition E_glob (gl : list string) : vmap := rev (map (fun n => (n, (Glob n, Ptr))) gl).
Definition lnames (f : func) (ds : list (vid * string * ty)) : list string := map fst (f_params f) ++ map def_name ds.
Definition vis (gl : list string) (f : func) ds (n : string) : bool := mem_str n (lnames f ds) || mem_str n gl.
Definition hide (v : string -> bool) (f : func) (r : vref) : vref :=
  if v (ref_name f r) then r else Unres (ref_name f r).

Lemma pentries_keys ps k : map fst (pentries ps k) = map fst ps.
Proof. revert k. induction ps as [|[n t] r IH]; intros k; [reflexivity|]. cbn. now rewrite IH. Qed.
Lemma dentries_keys ds : map fst (dentries ds) = map def_name ds.
Proof. unfold dentries. rewrite map_map. reflexivity. Qed.
Lemma E_loc_keys f ds : map fst (pentries (f_params f) 0 ++ dentries ds) = lnames f ds.
Proof. rewrite map_app, pentries_keys, dentries_keys. reflexivity. Qed.
Lemma pentries_nth ps : forall k j p, nth_error ps j = Some p -> In (fst p, (Param (k + j), snd p)) (pentries ps k).
Proof.
  induction ps as [|[n t] r IH]; intros k j p H; [destruct j; discriminate|].
  destruct j; cbn in H.
  - inversion H; subst. cbn. left. now rewrite Nat.add_0_r.
  - cbn. right. replace (k + S j)%nat with (S k + j)%nat by lia. now apply IH.
Qed.

Section F.
Variable gn : list string.
Variable f : func.
Hypothesis Hf : fwf gn f.

(* a prefix of the definitions of f *)
Definition dprefix ds := exists ds', func_defs f = ds ++ ds'.
Lemma lnames_sub ds : dprefix ds -> forall s, In s (lnames f ds) -> In s (func_local_names f).
Proof.
  intros [ds' E] s. unfold lnames, func_local_names. rewrite E, map_app, !in_app_iff. tauto.
Qed.
Lemma lnames_nodup ds : dprefix ds -> NoDup (lnames f ds).
Proof.
  intros [ds' E]. pose proof (w_nodup _ _ Hf) as H. unfold func_local_names in H. rewrite E, map_app, app_assoc in H.
  now apply nodup_app_l in H.
Qed.
Lemma mem_pos_in p l : mem_pos p l = true <-> In p l.
Proof.
  induction l as [|x r IH]; cbn; [split; [discriminate|tauto]|].
  rewrite orb_true_iff, IH, Pos.eqb_eq. split; intros [H|H]; auto.
Qed.
Lemma find_def_in v : mem_pos v (map def_id (func_defs f)) = true ->
  exists d, find_def f v = Some d /\ In d (func_defs f) /\ def_id d = v.
Proof.
  intros H. apply mem_pos_in, in_map_iff in H. destruct H as (d0 & Hd0 & Hin0).
  destruct (find_def f v) as [d|] eqn:E; unfold find_def in E.
  - exists d. apply find_some in E. destruct E as [E1 E2]. apply Pos.eqb_eq in E2. auto.
  - exfalso. pose proof (find_none _ _ E d0 Hin0) as Hn. cbv beta in Hn. unfold def_id in Hd0.
    apply Pos.eqb_neq in Hn. apply Hn. exact Hd0.
Qed.

(* resolution of a well-formed reference in the expected scopes *)
Lemma lookup_ref gl ds r : dprefix ds -> (forall s, In s gl -> In s gn) -> NoDup gl -> wf_ref gn f r = true ->
  let n := ref_name f r in
  if vis gl f ds n
  then exists t, ref_ty f r = Some t /\
       (vlookup n (E_loc f ds) = Some (r, t) \/ (vlookup n (E_loc f ds) = None /\ vlookup n (E_glob gl) = Some (r, t)))
  else vlookup n (E_loc f ds) = None /\ vlookup n (E_glob gl) = None.
Proof.
  intros Hp Hgl Hgn Hr. cbv zeta.
  assert (Hk : NoDup (map fst (E_loc f ds))).
  { unfold E_loc. apply NoDup_map_rev. rewrite E_loc_keys. now apply lnames_nodup. }
  assert (Hkeys : forall s, In s (map fst (E_loc f ds)) <-> In s (lnames f ds)).
  { intros s. unfold E_loc. rewrite map_rev, <- in_rev, E_loc_keys. tauto. }
  assert (Hgk : NoDup (map fst (E_glob gl))).
  { unfold E_glob. apply NoDup_map_rev. rewrite map_map. cbn. now rewrite map_id. }
  assert (Hgkeys : forall s, In s (map fst (E_glob gl)) <-> In s gl).
  { intros s. unfold E_glob. rewrite map_rev, <- in_rev, map_map. cbn. rewrite map_id. tauto. }
  unfold vis. destruct r as [v|k|s|s]; cbn [wf_ref] in Hr; [| | |discriminate].
  - destruct (find_def_in v Hr) as (d & Hfd & Hin & Hid). cbn [ref_name ref_ty]. rewrite Hfd.
    destruct Hp as [ds' E]. rewrite E in Hin. apply in_app_or in Hin. destruct Hin as [Hin|Hin].
    + assert (Hn : In (def_name d) (lnames f ds)) by (unfold lnames; rewrite in_app_iff; right; now apply in_map).
      apply mem_str_in in Hn. rewrite Hn. cbn [orb]. exists (def_ty d). split; [reflexivity|]. left.
      apply vlookup_in; [exact Hk|]. unfold E_loc. rewrite <- in_rev, in_app_iff. right. rewrite <- Hid.
      unfold dentries. apply in_map_iff. exists d. auto.
    + assert (Hl : In (def_name d) (func_local_names f)).
      { unfold func_local_names. rewrite E, map_app, !in_app_iff. right. right. now apply in_map. }
      assert (Hn : ~ In (def_name d) (lnames f ds)).
      { pose proof (w_nodup _ _ Hf) as Hnd. unfold func_local_names in Hnd. rewrite E, map_app, app_assoc in Hnd.
        apply (nodup_app_disj_r _ _ _ Hnd). now apply in_map. }
      assert (Hg : ~ In (def_name d) gl) by (intros Hx; exact (w_disj _ _ Hf _ Hl (Hgl _ Hx))).
      rewrite (mem_str_false _ _ Hn), (mem_str_false _ _ Hg). cbn [orb]. split; apply vlookup_notin.
      * now rewrite Hkeys.
      * now rewrite Hgkeys.
  - apply Nat.ltb_lt in Hr. destruct (nth_error (f_params f) k) as [p|] eqn:Ep; [|apply nth_error_None in Ep; lia].
    cbn [ref_name ref_ty]. rewrite Ep.
    assert (Hn : In (fst p) (lnames f ds)) by (unfold lnames; rewrite in_app_iff; left; apply in_map; eapply nth_error_In; eassumption).
    apply mem_str_in in Hn. rewrite Hn. cbn [orb]. exists (snd p). split; [reflexivity|]. left.
    apply vlookup_in; [exact Hk|]. unfold E_loc. rewrite <- in_rev, in_app_iff. left.
    exact (pentries_nth _ 0 k p Ep).
  - apply mem_str_in in Hr. cbn [ref_name ref_ty].
    assert (Hn : ~ In s (lnames f ds)).
    { intros Hx. apply (w_disj _ _ Hf s); [|exact Hr]. now apply (lnames_sub ds Hp). }
    rewrite (mem_str_false _ _ Hn). cbn [orb].
    assert (Hl : vlookup s (E_loc f ds) = None) by (apply vlookup_notin; now rewrite Hkeys).
    destruct (mem_str s gl) eqn:Eg.
    + apply mem_str_in in Eg. exists Ptr. split; [reflexivity|]. right. split; [exact Hl|].
      apply vlookup_in; [exact Hgk|]. unfold E_glob. rewrite <- in_rev. apply in_map_iff. exists s. auto.
    + split; [exact Hl|]. apply vlookup_notin. rewrite Hgkeys. intros Hx. apply mem_str_in in Hx. congruence.
Qed.
End F.

(* ---- the reader state against the expected one *)
Definition pend_has (p : list (string * ty)) (x : string) : Prop := plookup x p <> None.
Definition hid_ok (p : list (string * ty)) (i : instr) : Prop := forall x, In (Unres x) (instr_uses i) -> pend_has p x.
Definition with_pend (st : tst) (p : list (string * ty)) : tst :=
  mk_tst (ts_glob st) (ts_loc st) p (ts_next st) (ts_names st) (ts_funcs st) (ts_blocks st) (ts_ins st).
Definition built_in (fsd : list func) (bsd : list block) (isd : list instr) (i : instr) : Prop :=
  In i isd \/ (exists k, In k bsd /\ In i (b_ins k)) \/ (exists g k, In g fsd /\ In k (f_blocks g) /\ In i (b_ins k)).
Definition Inv (gl : list string) (fsd : list func) (f : func) ds (bnames : list string) (bsd : list block)
           (isd : list instr) (st : tst) : Prop :=
  ts_glob st = E_glob gl /\ ts_loc st = E_loc f ds /\ ts_next st = Pos.of_succ_nat (List.length ds) /\
  (forall x, mem_str x (ts_names st) = mem_str x (bnames ++ map def_name ds)) /\
  ts_funcs st = fsd /\ ts_blocks st = bsd /\ ts_ins st = isd /\
  (forall i, built_in fsd bsd isd i -> hid_ok (ts_pend st) i).
Lemma Inv_pend gl fsd f ds bn bsd isd st p :
  Inv gl fsd f ds bn bsd isd st -> (forall x, pend_has (ts_pend st) x -> pend_has p x) ->
  Inv gl fsd f ds bn bsd isd (with_pend st p).
Proof.
  intros (H1 & H2 & H3 & H4 & H5 & H6 & H7 & H8) Hp. unfold Inv, with_pend. cbn.
  repeat split; auto. intros i Hi x Hx. apply Hp. exact (H8 i Hi x Hx).
Qed.
Lemma with_pend_id st : with_pend st (ts_pend st) = st. Proof. now destruct st. Qed.

Section F2.
Variable c : tcfg.
Hypothesis Hfwd : fx_fwd c = true.
Variable gn : list string.
Variable f : func.
Hypothesis Hf : fwf gn f.

Definition res_ty (v : string -> bool) (r : vref) (dty : ty) : ty :=
  if v (ref_name f r) then match ref_ty f r with Some t => t | None => dty end else dty.

Lemma pset_has s t p x : pend_has p x -> pend_has (pset s t p) x.
Proof.
  unfold pend_has. induction p as [|[k v] l IH]; [tauto|]. cbn.
  destruct (String.eqb s k) eqn:E; cbn; destruct (String.eqb x k); auto; discriminate.
Qed.
Lemma find_ref gl fsd ds bn bsd isd st r dty :
  Inv gl fsd f ds bn bsd isd st -> dprefix f ds -> (forall s, In s gl -> In s gn) -> NoDup gl ->
  wf_ref gn f r = true ->
  exists p, find_value c (ref_name f r) dty st = ((hide (vis gl f ds) f r, res_ty (vis gl f ds) r dty), with_pend st p)
            /\ (forall x, pend_has (ts_pend st) x -> pend_has p x)
            /\ (forall x, hide (vis gl f ds) f r = Unres x -> pend_has p x).
Proof.
  intros HI Hp Hgl Hnd Hr. pose proof (lookup_ref gn f Hf gl ds r Hp Hgl Hnd Hr) as HL. cbv zeta in HL.
  destruct HI as (H1 & H2 & _). rewrite <- H1, <- H2 in HL. unfold find_value, hide, res_ty.
  destruct (vis gl f ds (ref_name f r)) eqn:Ev.
  - destruct HL as (t & Et & [HL|[HL1 HL2]]); rewrite Et.
    + rewrite HL. exists (ts_pend st). rewrite with_pend_id. repeat split; auto.
      intros x Hx. destruct r; cbn in Hr; discriminate.
    + rewrite HL1, HL2. exists (ts_pend st). rewrite with_pend_id. repeat split; auto.
      intros x Hx. destruct r; cbn in Hr; discriminate.
  - destruct HL as [HL1 HL2]. rewrite HL1, HL2.
    destruct (plookup (ref_name f r) (ts_pend st)) as [t0|] eqn:Epl.
    + rewrite Hfwd. exists (pset (ref_name f r) dty (ts_pend st)). split; [reflexivity|]. split.
      * intros x. apply pset_has.
      * intros x Hx. inversion Hx; subst x. apply pset_has. unfold pend_has. now rewrite Epl.
    + exists ((ref_name f r, dty) :: ts_pend st). split; [reflexivity|]. split.
      * intros x Hx. unfold pend_has in *. cbn. destruct (String.eqb x (ref_name f r)); [discriminate|exact Hx].
      * intros x Hx. inversion Hx; subst x. unfold pend_has. cbn. now rewrite String.eqb_refl.
Qed.
End F2.

Section F3.
Variable c : tcfg.
Hypothesis Hru1 : fx_ru_generic c = true.
Hypothesis Hru2 : fx_ru_phi c = true.
Hypothesis Hru3 : fx_ru_call c = true.

Lemma is_old_unres n r : is_old n r = true -> r = Unres n.
Proof. destruct r; cbn; try discriminate. intros H. apply String.eqb_eq in H. now subst. Qed.
Lemma hid_no_old p n i : hid_ok p i -> plookup n p = None -> no_old n i.
Proof.
  intros H Hn r Hr. destruct (is_old n r) eqn:E; [|reflexivity]. apply is_old_unres in E. subst r.
  exfalso. exact (H n Hr Hn).
Qed.
Lemma hid_sub p p' n new i : (forall x, new <> Unres x) -> hid_ok p i ->
  (forall x, x <> n -> pend_has p x -> pend_has p' x) -> hid_ok p' (map_refs (sub1 n new) i).
Proof.
  intros Hnew H Hp x Hx. rewrite uses_map_refs in Hx. apply in_map_iff in Hx. destruct Hx as (r & Er & Hr).
  unfold sub1 in Er. destruct (is_old n r) eqn:E.
  - exfalso. exact (Hnew x Er).
  - subst r. apply Hp; [|now apply H]. intros ->. cbn in E. now rewrite String.eqb_refl in E.
Qed.

Lemma finish_ok gl fsd f ds bn bsd isd st i v n t :
  Inv gl fsd f ds bn bsd isd st ->
  instr_def i = Some (v, n, t) ->
  existsb (func_uses_old n) fsd = false ->
  hid_ok (ts_pend st) i ->
  match rev isd with x :: _ => is_terminator x | [] => false end = false ->
  mem_str n (bn ++ map def_name ds) = false ->
  exists st', finish_val c i st = Ok st' /\
    Inv gl (map (sub_func n (Loc v)) fsd) f (ds ++ [(v, n, t)]) bn (map (sub_block n (Loc v)) bsd)
        (map (map_refs (sub1 n (Loc v))) isd ++ [map_refs (sub1 n (Loc v)) i]) st'.
Proof.
  intros HI Hd H79 Hi Hterm Hname.
  destruct HI as (H1 & H2 & H3 & H4 & H5 & H6 & H7 & H8).
  unfold finish_val. rewrite Hd.
  destruct (define_value_eq c Hru1 Hru2 Hru3 n (Loc v) t true (Some i) st) as (p' & Edef & Hp').
  { now rewrite H5. }
  { intros Hn. rewrite H5, H6, H7. repeat split.
    - apply Forall_forall. intros g Hg. apply Forall_forall. intros k Hk. apply Forall_forall. intros j Hj.
      apply (hid_no_old (ts_pend st)); [|exact Hn]. apply H8. right. right. eauto.
    - apply Forall_forall. intros k Hk. apply Forall_forall. intros j Hj.
      apply (hid_no_old (ts_pend st)); [|exact Hn]. apply H8. right. left. eauto.
    - apply Forall_forall. intros j Hj. apply (hid_no_old (ts_pend st)); [|exact Hn]. apply H8. now left.
    - now apply (hid_no_old (ts_pend st)). }
  rewrite Edef. cbn [bind option_map]. unfold add_ins. cbn [ts_ins ts_names ts_glob ts_loc ts_pend ts_next ts_funcs ts_blocks].
  rewrite H7.
  assert (Ht : match rev (map (map_refs (sub1 n (Loc v))) isd) with x :: _ => is_terminator x | [] => false end = false).
  { rewrite <- map_rev. destruct (rev isd); [reflexivity|]. cbn. now rewrite term_map_refs. }
  rewrite Ht. cbn [negb check bind]. rewrite def_map_refs, Hd. unfold def_name. cbn [fst snd].
  rewrite H4, Hname. cbn [negb check bind].
  eexists. split; [reflexivity|]. unfold Inv. cbn [ts_ins ts_names ts_glob ts_loc ts_pend ts_next ts_funcs ts_blocks].
  repeat split.
  - exact H1.
  - rewrite H2. unfold E_loc, dentries. rewrite map_app. cbn [map]. rewrite app_assoc, rev_unit. reflexivity.
  - rewrite H3, app_length. cbn. rewrite Nat.add_1_r. reflexivity.
  - intros x. rewrite !mem_str_app, H4, map_app, !mem_str_app. cbn. unfold def_name. cbn. now rewrite !orb_assoc.
  - now rewrite H5.
  - now rewrite H6.
  - intros j Hj. assert (Hnew : forall x, Loc v <> Unres x) by discriminate.
    destruct Hj as [Hj|[(k & Hk & Hj)|(g & k & Hg & Hk & Hj)]].
    + apply in_app_or in Hj. destruct Hj as [Hj|[<-|[]]].
      * apply in_map_iff in Hj. destruct Hj as (j0 & <- & Hj0). apply (hid_sub (ts_pend st)); auto. apply H8. left. assumption.
      * now apply (hid_sub (ts_pend st)).
    + apply in_map_iff in Hk. destruct Hk as (k0 & <- & Hk0). cbn in Hj. apply in_map_iff in Hj. destruct Hj as (j0 & <- & Hj0).
      apply (hid_sub (ts_pend st)); auto. apply H8. right. left. exists k0. split; assumption.
    + apply in_map_iff in Hg. destruct Hg as (g0 & <- & Hg0). cbn in Hk. apply in_map_iff in Hk. destruct Hk as (k0 & <- & Hk0).
      cbn in Hj. apply in_map_iff in Hj. destruct Hj as (j0 & <- & Hj0).
      apply (hid_sub (ts_pend st)); auto. apply H8. right. right. exists g0, k0. repeat split; assumption.
Qed.
End F3.

Lemma addins_ok gl fsd f ds bn bsd isd st i :
  Inv gl fsd f ds bn bsd isd st -> instr_def i = None -> hid_ok (ts_pend st) i ->
  match rev isd with x :: _ => is_terminator x | [] => false end = false ->
  exists st', add_ins i st = Ok st' /\ Inv gl fsd f ds bn bsd (isd ++ [i]) st'.
Proof.
  intros (H1 & H2 & H3 & H4 & H5 & H6 & H7 & H8) Hd Hi Ht. unfold add_ins. rewrite H7, Ht, Hd. cbn [negb check bind].
  eexists. split; [reflexivity|]. unfold Inv. cbn [ts_ins ts_names ts_glob ts_loc ts_pend ts_next ts_funcs ts_blocks].
  repeat split; auto; try congruence.
  intros j [Hj|Hj]; [|apply H8; now right]. apply in_app_or in Hj. destruct Hj as [Hj|[<-|[]]]; [apply H8; now left|exact Hi].
Qed.

Definition hide_instr (c : tcfg) (v : string -> bool) (f : func) (i : instr) : instr := map_refs (hide v f) (norm_instr c f i).
Definition hide_block (c : tcfg) (v : string -> bool) (f : func) (k : block) : block :=
  mk_block (b_id k) (b_name k) (map (hide_instr c v f) (b_ins k)).

Lemma sort_phi_in f ins p : In p (sort_phi f ins) <-> In p ins.
Proof.
  unfold sort_phi. induction ins as [|q r IH]; [cbn; tauto|]. cbn [fold_right].
  set (acc := fold_right _ [] r) in *. cbn [In]. rewrite <- IH. clear IH.
  induction acc as [|a l IHl]; [cbn; tauto|]. cbn.
  destruct (pair_leb _ _); cbn; [tauto|]. rewrite IHl. tauto.
Qed.
Lemma norm_uses c f i r : In r (instr_uses (norm_instr c f i)) <-> In r (instr_uses i).
Proof.
  destruct i; cbn [norm_instr instr_uses]; try tauto.
  rewrite !in_map_iff. split; intros ((b & x) & E & H); exists (b, x); (split; [exact E|]).
  - now apply (proj1 (sort_phi_in f ins (b, x))).
  - now apply (proj2 (sort_phi_in f ins (b, x))).
Qed.

Section F4.
Variable gn : list string.
Hypothesis Hgn : NoDup gn.
Variable f : func.
Hypothesis Hf : fwf gn f.

Lemma dprefix_all : dprefix f (func_defs f).
Proof. exists []. now rewrite app_nil_r. Qed.
Lemma name_inj r1 r2 : wf_ref gn f r1 = true -> wf_ref gn f r2 = true -> ref_name f r1 = ref_name f r2 -> r1 = r2.
Proof.
  intros H1 H2 E.
  pose proof (lookup_ref gn f Hf gn (func_defs f) r1 dprefix_all (fun s H => H) Hgn H1) as L1.
  pose proof (lookup_ref gn f Hf gn (func_defs f) r2 dprefix_all (fun s H => H) Hgn H2) as L2.
  cbv zeta in L1, L2. rewrite <- E in L2.
  destruct (vis gn f (func_defs f) (ref_name f r1)).
  - destruct L1 as (t1 & _ & L1). destruct L2 as (t2 & _ & L2).
    destruct L1 as [L1|[L1 L1']], L2 as [L2|[L2 L2']]; congruence.
  - destruct L1 as [L1 L1']. destruct r1; cbn in H1; try discriminate.
    + destruct (find_def_in f v H1) as (d & Hfd & Hin & _). exfalso.
      assert (Hn : In (ref_name f (Loc v)) (map fst (E_loc f (func_defs f)))).
      { unfold E_loc. rewrite map_rev, <- in_rev, E_loc_keys. unfold lnames. rewrite in_app_iff. right. cbn. rewrite Hfd. now apply in_map. }
      exact (vlookup_none_notin _ _ L1 Hn).
    + apply Nat.ltb_lt in H1. destruct (nth_error (f_params f) n) as [p|] eqn:Ep; [|apply nth_error_None in Ep; lia]. exfalso.
      assert (Hn : In (ref_name f (Param n)) (map fst (E_loc f (func_defs f)))).
      { unfold E_loc. rewrite map_rev, <- in_rev, E_loc_keys. unfold lnames. rewrite in_app_iff. left. cbn. rewrite Ep. apply in_map. eapply nth_error_In; eassumption. }
      exact (vlookup_none_notin _ _ L1 Hn).
    + exfalso. apply mem_str_in in H1. cbn in L1'.
      assert (Hn : In name (map fst (E_glob gn))).
      { unfold E_glob. rewrite map_rev, <- in_rev, map_map. cbn. now rewrite map_id. }
      exact (vlookup_none_notin _ _ L1' Hn).
Qed.
End F4.

Lemma seq_pos_ge p n x : In x (seq_pos p n) -> (p <= x)%positive.
Proof. revert p. induction n as [|n IH]; intros p; [intros []|]. cbn. intros [<-|H]; [lia|]. apply IH in H. lia. Qed.
Lemma seq_pos_nodup p n : NoDup (seq_pos p n).
Proof. revert p. induction n as [|n IH]; intros p; cbn; constructor; [|apply IH]. intros H. apply seq_pos_ge in H. lia. Qed.
Lemma NoDup_map_inj {A B} (g : A -> B) l a b : NoDup (map g l) -> In a l -> In b l -> g a = g b -> a = b.
Proof.
  induction l as [|x r IH]; [intros _ []|]. cbn. intros Hn [->|Ha] [->|Hb] E; inversion Hn; subst; auto.
  - exfalso. apply H1. rewrite E. now apply in_map.
  - exfalso. apply H1. rewrite <- E. now apply in_map.
Qed.

Section F5.
Variable c : tcfg.
Variable gn : list string.
Hypothesis Hgn : NoDup gn.
Variable f : func.
Hypothesis Hf : fwf gn f.

Lemma find_def_self d : In d (func_defs f) -> find_def f (def_id d) = Some d.
Proof.
  intros Hin. assert (Hm : mem_pos (def_id d) (map def_id (func_defs f)) = true) by (apply mem_pos_in; now apply in_map).
  destruct (find_def_in f _ Hm) as (d' & Hfd & Hin' & Hid). rewrite Hfd. f_equal.
  apply (NoDup_map_inj def_id (func_defs f)); auto. rewrite (w_dids _ _ Hf). apply seq_pos_nodup.
Qed.
Lemma vis_snoc gl ds d x : vis gl f (ds ++ [d]) x = vis gl f ds x || String.eqb x (def_name d).
Proof.
  unfold vis, lnames. rewrite map_app, app_assoc, mem_str_app. cbn.
  destruct (mem_str x (map fst (f_params f) ++ map def_name ds)), (String.eqb x (def_name d)), (mem_str x gl); reflexivity.
Qed.
Lemma sub_hide_ref gl ds d r : In d (func_defs f) -> wf_ref gn f r = true ->
  sub1 (def_name d) (Loc (def_id d)) (hide (vis gl f ds) f r) = hide (vis gl f (ds ++ [d])) f r.
Proof.
  intros Hd Hr. unfold hide. rewrite vis_snoc. destruct (vis gl f ds (ref_name f r)) eqn:Ev; cbn [orb].
  - unfold sub1. destruct r; cbn in Hr |- *; try reflexivity; discriminate.
  - unfold sub1. cbn [is_old]. destruct (String.eqb (ref_name f r) (def_name d)) eqn:En; [|reflexivity].
    apply String.eqb_eq in En. symmetry. apply (name_inj gn Hgn f Hf); auto.
    + cbn. apply mem_pos_in. now apply in_map.
    + cbn [ref_name]. now rewrite (find_def_self d Hd).
Qed.
Lemma sub_hide_instr gl ds d j : In d (func_defs f) -> (forall r, In r (instr_uses j) -> wf_ref gn f r = true) ->
  map_refs (sub1 (def_name d) (Loc (def_id d))) (hide_instr c (vis gl f ds) f j) = hide_instr c (vis gl f (ds ++ [d])) f j.
Proof.
  intros Hd Hr. unfold hide_instr. rewrite map_refs_comp. apply map_refs_ext. intros r Hin.
  apply sub_hide_ref; auto. apply Hr. now apply norm_uses in Hin.
Qed.

(* blocks by name *)
Lemma blookup_number l : forall p k, NoDup (map b_name l) -> map b_id l = seq_pos p (List.length l) -> In k l ->
  blookup (b_name k) (number_names p (map b_name l)) = Some (b_id k).
Proof.
  induction l as [|x r IH]; intros p k Hn Hid Hk; [destruct Hk|]. cbn in *. inversion Hid. inversion Hn; subst.
  destruct Hk as [->|Hk].
  - now rewrite String.eqb_refl.
  - destruct (String.eqb (b_name k) (b_name x)) eqn:E.
    + apply String.eqb_eq in E. exfalso. apply H3. rewrite <- E. now apply in_map.
    + now apply IH.
Qed.
Lemma block_ref_ok b : mem_pos b (map b_id (f_blocks f)) = true ->
  block_ref (number_names 1 (map b_name (f_blocks f))) (block_name f b) = Ok b.
Proof.
  intros H. apply mem_pos_in, in_map_iff in H. destruct H as (k0 & Hid & Hin).
  unfold block_name, find_block. destruct (find (fun k => Pos.eqb (b_id k) b) (f_blocks f)) as [k|] eqn:E.
  - apply find_some in E. destruct E as [Hk Eb]. apply Pos.eqb_eq in Eb. unfold block_ref.
    rewrite (blookup_number (f_blocks f) 1 k (w_bnodup _ _ Hf) (w_bids _ _ Hf) Hk). now rewrite Eb.
  - exfalso. pose proof (find_none _ _ E k0 Hin) as Hx. cbv beta in Hx. apply Pos.eqb_neq in Hx. auto.
Qed.
End F5.

(* ---- phi inputs: sorting commutes with taking names *)
Definition pkey (f : func) (p : bid * vref) : string * string := (block_name f (fst p), ref_name f (snd p)).
Fixpoint ins_phi (f : func) (p : bid * vref) (l : list (bid * vref)) : list (bid * vref) :=
  match l with
  | [] => [p]
  | q :: r => if pair_leb (pkey f p) (pkey f q) then p :: l else q :: ins_phi f p r
  end.
Lemma sort_phi_cons f q r : sort_phi f (q :: r) = ins_phi f q (sort_phi f r).
Proof. unfold sort_phi. cbn [fold_right]. generalize (fold_right
     (fun (p : bid * vref) (acc : list (bid * vref)) =>
      (fix ins (l : list (bid * vref)) : list (bid * vref) :=
         match l with
         | [] => [p]
         | q0 :: r0 =>
             if pair_leb (block_name f (fst p), ref_name f (snd p)) (block_name f (fst q0), ref_name f (snd q0))
             then p :: l
             else q0 :: ins r0
         end) acc) [] r). intros acc. induction acc as [|a l IH]; [reflexivity|]. cbn. unfold pkey at 1 2. destruct (pair_leb _ _); [reflexivity|]. now rewrite IH. Qed.
Lemma ins_key f q acc : map (pkey f) (ins_phi f q acc) = insert_pair (pkey f q) (map (pkey f) acc).
Proof. induction acc as [|a l IH]; [reflexivity|]. cbn. destruct (pair_leb _ _); [reflexivity|]. cbn. now rewrite IH. Qed.
Lemma sort_key f ins : sort_pairs (map (pkey f) ins) = map (pkey f) (sort_phi f ins).
Proof.
  induction ins as [|q r IH]; [reflexivity|]. rewrite sort_phi_cons, ins_key, <- IH. reflexivity.
Qed.
Lemma ins_phi_perm f q acc : forall x, In x (map fst (ins_phi f q acc)) <-> In x (map fst (q :: acc)).
Proof.
  induction acc as [|a l IH]; intros x; [reflexivity|]. cbn [ins_phi]. destruct (pair_leb _ _); [reflexivity|].
  cbn [map In] in *. rewrite IH. tauto.
Qed.
Lemma ins_phi_nodup f q acc : NoDup (map fst (q :: acc)) -> NoDup (map fst (ins_phi f q acc)).
Proof.
  induction acc as [|a l IH]; [auto|]. cbn [ins_phi]. destruct (pair_leb _ _); [auto|].
  cbn [map]. intros H. inversion H as [|? ? H1 H2]; subst. inversion H2 as [|? ? H3 H4]; subst. constructor.
  - rewrite ins_phi_perm. cbn [map In] in *. intuition congruence.
  - apply IH. constructor; [cbn [map In] in *; intuition congruence|auto].
Qed.
Lemma sort_phi_nodup f ins : NoDup (map fst ins) -> NoDup (map fst (sort_phi f ins)).
Proof.
  induction ins as [|q r IH]; [auto|]. rewrite sort_phi_cons. intros H. inversion H; subst. apply ins_phi_nodup.
  cbn [map]. constructor; [|auto]. intros Hx. apply H2. apply in_map_iff in Hx. destruct Hx as (p & E & Hp).
  apply sort_phi_in in Hp. rewrite <- E. now apply in_map.
Qed.

Open Scope Z_scope.
Lemma unhex_hex n : 0 <= n < 16 -> unhexdigit (hexdigit n) = Some n.
Proof.
  intros H. assert (E : n = 0 \/ n = 1 \/ n = 2 \/ n = 3 \/ n = 4 \/ n = 5 \/ n = 6 \/ n = 7 \/ n = 8 \/ n = 9 \/ n = 10
                        \/ n = 11 \/ n = 12 \/ n = 13 \/ n = 14 \/ n = 15) by lia.
  repeat (destruct E as [->|E]; [reflexivity|]). subst. reflexivity.
Qed.
Lemma unhexlify_hexlify d : all_byte d = true -> unhexlify (hexlify d) = Ok d.
Proof.
  induction d as [|b r IH]; [reflexivity|]. cbn [all_byte forallb]. intros H. apply andb_true_iff in H. destruct H as [Hb Hr].
  unfold is_byte in Hb. apply andb_true_iff in Hb. destruct Hb as [H0 H1]. apply Z.leb_le in H0. apply Z.ltb_lt in H1.
  cbn [hexlify unhexlify]. rewrite !unhex_hex.
  - fold (all_byte r) in Hr. rewrite (IH Hr). cbn [bind]. f_equal. f_equal. pose proof (Z.div_mod b 16). lia.
  - apply Z.mod_pos_bound. lia.
  - split; [apply Z.div_pos; lia|apply Z.div_lt_upper_bound; lia].
Qed.
Close Scope Z_scope.

Lemma norm_def c f i : instr_def (norm_instr c f i) = instr_def i. Proof. destruct i; reflexivity. Qed.
Lemma norm_term c f i : is_terminator (norm_instr c f i) = is_terminator i. Proof. destruct i; reflexivity. Qed.
Lemma hide_def c v f i : instr_def (hide_instr c v f i) = instr_def i.
Proof. unfold hide_instr. now rewrite def_map_refs, norm_def. Qed.
Lemma hide_term c v f i : is_terminator (hide_instr c v f i) = is_terminator i.
Proof. unfold hide_instr. now rewrite term_map_refs, norm_term. Qed.
Lemma with_pend2 st p q : with_pend (with_pend st p) q = with_pend st q. Proof. reflexivity. Qed.
Lemma rev_last_term c v f l : match rev (map (hide_instr c v f) l) with x :: _ => is_terminator x | [] => false end
                           = match rev l with x :: _ => is_terminator x | [] => false end.
Proof. rewrite <- map_rev. destruct (rev l); [reflexivity|]. cbn. apply hide_term. Qed.

Section F6.
Variable c : tcfg.
Hypothesis Hfwd : fx_fwd c = true.
Hypothesis Hru1 : fx_ru_generic c = true.
Hypothesis Hru2 : fx_ru_phi c = true.
Hypothesis Hru3 : fx_ru_call c = true.
Variable fp : string -> option Z.
Variable fr : Z -> string.
Variable gn : list string.
Hypothesis Hgn : NoDup gn.
Variable f : func.
Hypothesis Hf : fwf gn f.
Variable gl : list string.
Hypothesis Hgl : forall s, In s gl -> In s gn.
Hypothesis Hndgl : NoDup gl.
Variable fsd : list func.
Hypothesis Hfsd : forall g k j x, In g fsd -> In k (f_blocks g) -> In j (b_ins k) -> In (Unres x) (instr_uses j) -> In x gn.
Let bmap := number_names 1 (map b_name (f_blocks f)).

Lemma res_ty_ok v r t p : ref_has f r p = true -> p t = true -> p (res_ty f v r t) = true.
Proof. unfold ref_has, res_ty. destruct (v (ref_name f r)); [|auto]. destruct (ref_ty f r); [auto|discriminate]. Qed.
Lemma ty_eqb_eq a b : ty_eqb a b = true -> a = b. Proof. apply ty_eqb_spec. Qed.
Lemma ty_eqb_refl a : ty_eqb a a = true. Proof. now apply ty_eqb_spec. Qed.

Section Pos.
Variable ds : list (vid * string * ty).
Hypothesis Hdp : dprefix f ds.
Variable bn : list string.
Variable bs0 : list block.
Variable is0 : list instr.
Hypothesis Hrefs0 : forall j, (In j is0 \/ exists k, In k bs0 /\ In j (b_ins k)) -> forall r, In r (instr_uses j) -> wf_ref gn f r = true.
Let v0 := vis gl f ds.
Definition PInv (st : tst) := Inv gl fsd f ds bn (map (hide_block c v0 f) bs0) (map (hide_instr c v0 f) is0) st.

Lemma find1 st r dty : PInv st -> wf_ref gn f r = true ->
  exists p, find_value c (ref_name f r) dty st = ((hide v0 f r, res_ty f v0 r dty), with_pend st p)
            /\ PInv (with_pend st p)
            /\ (forall x, pend_has (ts_pend st) x -> pend_has p x)
            /\ (forall x, hide v0 f r = Unres x -> pend_has p x).
Proof.
  intros HI Hr. destruct (find_ref c Hfwd gn f Hf gl fsd ds bn _ _ st r dty HI Hdp Hgl Hndgl Hr) as (p & E & Hm & Hh).
  exists p. split; [exact E|]. split; [now apply Inv_pend|]. split; assumption.
Qed.
Lemma find_args_ok args : forall st, PInv st -> (forall r, In r args -> wf_ref gn f r = true) ->
  exists p, find_args c (map (ref_name f) args) st = (map (hide v0 f) args, with_pend st p)
            /\ PInv (with_pend st p)
            /\ (forall x, pend_has (ts_pend st) x -> pend_has p x)
            /\ (forall r x, In r args -> hide v0 f r = Unres x -> pend_has p x).
Proof.
  induction args as [|a l IH]; intros st HI Hr.
  - exists (ts_pend st). rewrite with_pend_id. split; [reflexivity|]. split; [exact HI|]. split; [auto|]. intros r x [].
  - cbn [map find_args]. destruct (find1 st a Ptr HI (Hr a (or_introl eq_refl))) as (p1 & E1 & HI1 & Hm1 & Hh1).
    rewrite E1. destruct (IH _ HI1 (fun r H => Hr r (or_intror H))) as (p2 & E2 & HI2 & Hm2 & Hh2).
    rewrite E2. rewrite with_pend2 in *. exists p2. split; [reflexivity|]. split; [exact HI2|]. split.
    + intros x Hx. apply Hm2. cbn. now apply Hm1.
    + intros r x [<-|Hin] Hx; [apply Hm2; cbn; now apply Hh1|eauto].
Qed.

(* finishing a value-defining instruction *)
Lemma finish_hidden st p i d ds' :
  PInv st -> (forall x, pend_has (ts_pend st) x -> pend_has p x) ->
  instr_def i = Some d -> func_defs f = ds ++ d :: ds' ->
  (forall r, In r (instr_uses i) -> wf_ref gn f r = true) ->
  hid_ok p (hide_instr c v0 f i) ->
  match rev is0 with x :: _ => is_terminator x | [] => false end = false ->
  mem_str (def_name d) (bn ++ map def_name ds) = false ->
  exists st', finish_val c (hide_instr c v0 f i) (with_pend st p) = Ok st' /\
    Inv gl fsd f (ds ++ [d]) bn (map (hide_block c (vis gl f (ds ++ [d])) f) bs0)
        (map (hide_instr c (vis gl f (ds ++ [d])) f) (is0 ++ [i])) st'.
Proof.
  intros HI Hm Hd Hds Hri Hhid Hterm Hname. destruct d as [[v n] t].
  assert (Hin : In (v, n, t) (func_defs f)) by (rewrite Hds, in_app_iff; right; now left).
  assert (Hnl : In n (func_local_names f)).
  { unfold func_local_names. rewrite in_app_iff. right. change n with (def_name (v, n, t)). now apply in_map. }
  assert (Hng : ~ In n gn) by exact (w_disj _ _ Hf _ Hnl).
  assert (Hno : forall g k j, In g fsd -> In k (f_blocks g) -> In j (b_ins k) -> no_old n j).
  { intros g k j Hg Hk Hj r Hr. destruct (is_old n r) eqn:E; [|reflexivity]. apply is_old_unres in E. subst r.
    exfalso. apply Hng. eapply Hfsd; eauto. }
  assert (H79 : existsb (func_uses_old n) fsd = false).
  { apply not_true_is_false. intros Hx. apply existsb_exists in Hx. destruct Hx as (g & Hg & Hx).
    unfold func_uses_old in Hx. apply existsb_exists in Hx. destruct Hx as (j & Hj & Hx).
    unfold func_instrs in Hj. apply in_flat_map in Hj. destruct Hj as (k & Hk & Hj).
    unfold uses_old in Hx. apply existsb_exists in Hx. destruct Hx as (r & Hr & Hx).
    now rewrite (Hno g k j Hg Hk Hj r Hr) in Hx. }
  destruct (finish_ok c Hru1 Hru2 Hru3 gl fsd f ds bn _ _ (with_pend st p) (hide_instr c v0 f i) v n t
              (Inv_pend _ _ _ _ _ _ _ _ _ HI Hm)) as (st' & E & HI'); auto.
  - now rewrite hide_def.
  - now rewrite rev_last_term.
  - exists st'. split; [exact E|].
    assert (Ef : map (sub_func n (Loc v)) fsd = fsd).
    { rewrite <- (map_id fsd) at 2. apply map_ext_in. intros g Hg. unfold sub_func.
      replace (map (sub_block n (Loc v)) (f_blocks g)) with (f_blocks g); [now destruct g|].
      rewrite <- (map_id (f_blocks g)) at 1. apply map_ext_in. intros k Hk. unfold sub_block.
      replace (map (map_refs (sub1 n (Loc v))) (b_ins k)) with (b_ins k); [now destruct k|].
      rewrite <- (map_id (b_ins k)) at 1. apply map_ext_in. intros j Hj. symmetry. apply sub_no_old. eauto. }
    rewrite Ef in HI'.
    assert (Eb : map (sub_block n (Loc v)) (map (hide_block c v0 f) bs0) = map (hide_block c (vis gl f (ds ++ [(v, n, t)])) f) bs0).
    { rewrite map_map. apply map_ext_in. intros k Hk. unfold sub_block, hide_block. cbn [b_id b_name b_ins]. f_equal.
      rewrite map_map. apply map_ext_in. intros j Hj.
      apply (sub_hide_instr c gn Hgn f Hf gl ds (v, n, t) j Hin). apply Hrefs0. right. eauto. }
    assert (Ei : map (map_refs (sub1 n (Loc v))) (map (hide_instr c v0 f) is0) ++ [map_refs (sub1 n (Loc v)) (hide_instr c v0 f i)]
                 = map (hide_instr c (vis gl f (ds ++ [(v, n, t)])) f) (is0 ++ [i])).
    { rewrite map_app. cbn [map]. f_equal.
      - rewrite map_map. apply map_ext_in. intros j Hj.
        apply (sub_hide_instr c gn Hgn f Hf gl ds (v, n, t) j Hin). apply Hrefs0. now left.
      - f_equal. exact (sub_hide_instr c gn Hgn f Hf gl ds (v, n, t) i Hin Hri). }
    rewrite Eb, Ei in HI'. exact HI'.
Qed.
Lemma addins_hidden st p i :
  PInv st -> (forall x, pend_has (ts_pend st) x -> pend_has p x) ->
  instr_def i = None -> hid_ok p (hide_instr c v0 f i) ->
  match rev is0 with x :: _ => is_terminator x | [] => false end = false ->
  exists st', add_ins (hide_instr c v0 f i) (with_pend st p) = Ok st' /\
    Inv gl fsd f ds bn (map (hide_block c v0 f) bs0) (map (hide_instr c v0 f) (is0 ++ [i])) st'.
Proof.
  intros HI Hm Hd Hhid Hterm.
  destruct (addins_ok gl fsd f ds bn _ _ (with_pend st p) (hide_instr c v0 f i) (Inv_pend _ _ _ _ _ _ _ _ _ HI Hm)) as (st' & E & HI'); auto.
  - now rewrite hide_def.
  - now rewrite rev_last_term.
  - exists st'. split; [exact E|]. rewrite map_app. exact HI'.
Qed.

Lemma phi_inputs_ok t l : forall acc st, PInv st ->
  (forall p, In p l -> wf_ref gn f (snd p) = true /\ mem_pos (fst p) (map b_id (f_blocks f)) = true /\ ref_has f (snd p) (ty_eqb t) = true) ->
  NoDup (map fst (acc ++ l)) ->
  exists q, phi_inputs c bmap t (map (pkey f) l) acc st = Ok (acc ++ map (fun p => (fst p, hide v0 f (snd p))) l, with_pend st q)
            /\ PInv (with_pend st q)
            /\ (forall x, pend_has (ts_pend st) x -> pend_has q x)
            /\ (forall p x, In p l -> hide v0 f (snd p) = Unres x -> pend_has q x).
Proof.
  induction l as [|[b r] l IH]; intros acc st HI Hl Hnd.
  - exists (ts_pend st). rewrite with_pend_id, app_nil_r. split; [reflexivity|]. split; [exact HI|]. split; [auto|]. intros p x [].
  - destruct (Hl (b, r) (or_introl eq_refl)) as (Hr & Hb & Hty). cbn [fst snd] in *.
    cbn [map phi_inputs pkey fst snd]. unfold bmap. rewrite (block_ref_ok gn f Hf b Hb). cbn [bind].
    destruct (find1 st r t HI Hr) as (p1 & E1 & HI1 & Hm1 & Hh1). rewrite E1.
    assert (Et : res_ty f v0 r t = t) by (symmetry; apply ty_eqb_eq; exact (res_ty_ok v0 r t (ty_eqb t) Hty (ty_eqb_refl t))).
    rewrite Et, ty_eqb_refl. cbn [check bind].
    assert (Hnb : mem_pos b (map fst acc) = false).
    { apply not_true_is_false. intros Hx. apply mem_pos_in in Hx. rewrite map_app in Hnd.
      apply (nodup_app_disj _ _ b Hnd Hx). now left. }
    unfold bid in *. rewrite Hnb.
    destruct (IH (acc ++ [(b, hide v0 f r)]) _ HI1 (fun p H => Hl p (or_intror H))) as (q & E2 & HI2 & Hm2 & Hh2).
    { rewrite <- app_assoc. cbn [app]. rewrite map_app in *. cbn [map fst] in *. exact Hnd. }
    unfold bmap, bid in E2. rewrite E2. rewrite with_pend2 in *. exists q. split; [now rewrite <- app_assoc|]. split; [exact HI2|]. split.
    + intros x Hx. apply Hm2. cbn. now apply Hm1.
    + intros p x [<-|Hin] Hx; [apply Hm2; cbn; now apply Hh1|eauto].
Qed.

Ltac andsplit H := repeat match type of H with (_ && _)%bool = true => let H2 := fresh "Hc" in apply andb_true_iff in H; destruct H as [H H2] end.

Lemma instr_step st i ds' :
  PInv st ->
  wf_instr gn f i = true -> ctor_ok f i = true -> instr_floats_ok c fr fp i = true ->
  rprintable_instr c (erase_instr fr c f i) = true ->
  match rev is0 with x :: _ => is_terminator x | [] => false end = false ->
  func_defs f = ds ++ (match instr_def i with Some d => [d] | None => [] end) ++ ds' ->
  (forall d, instr_def i = Some d ->
     mem_str (def_name d) (bn ++ map def_name ds) = false /\ def_id d = Pos.of_succ_nat (List.length ds)) ->
  let dsn := ds ++ match instr_def i with Some d => [d] | None => [] end in
  exists st', resolve_instr c fp bmap (erase_instr fr c f i) st = Ok st' /\
     Inv gl fsd f dsn bn (map (hide_block c (vis gl f dsn) f) bs0) (map (hide_instr c (vis gl f dsn) f) (is0 ++ [i])) st'.
Proof.
  intros HI Hwf Hct Hfl Hnc Hterm Hds Hdef. cbv zeta.
  assert (Hnext : ts_next st = Pos.of_succ_nat (List.length ds)) by (destruct HI as (_ & _ & H & _); exact H).
  unfold wf_instr in Hwf. apply andb_true_iff in Hwf. destruct Hwf as [Hwf Hphi].
  apply andb_true_iff in Hwf. destruct Hwf as [Hrefs Htg]. rewrite forallb_forall in Hrefs, Htg.
  assert (Hfin : forall d p, instr_def i = Some d -> (forall x, pend_has (ts_pend st) x -> pend_has p x) ->
                 hid_ok p (hide_instr c v0 f i) ->
                 exists st', finish_val c (hide_instr c v0 f i) (with_pend st p) = Ok st' /\
                   Inv gl fsd f (ds ++ [d]) bn (map (hide_block c (vis gl f (ds ++ [d])) f) bs0)
                       (map (hide_instr c (vis gl f (ds ++ [d])) f) (is0 ++ [i])) st').
  { intros d p Hd Hm Hh. rewrite Hd in Hds. cbn [app] in Hds. destruct (Hdef d Hd) as [Hn _].
    eapply finish_hidden; eauto. }
  assert (Hadd : forall p, instr_def i = None -> (forall x, pend_has (ts_pend st) x -> pend_has p x) ->
                 hid_ok p (hide_instr c v0 f i) ->
                 exists st', add_ins (hide_instr c v0 f i) (with_pend st p) = Ok st' /\
                   Inv gl fsd f ds bn (map (hide_block c v0 f) bs0) (map (hide_instr c v0 f) (is0 ++ [i])) st').
  { intros p Hd Hm Hh. eapply addins_hidden; eauto. }
  destruct i; cbn [instr_def ctor_ok instr_uses instr_targets] in *; try contradiction; cbn [erase_instr resolve_instr];
    try (destruct (Hdef _ eq_refl) as [_ Hv]; cbn [def_id fst] in Hv; rewrite Hnext, <- Hv);
    rewrite ?app_nil_r.
  - (* const *)
    assert (Ek : match erase_cst fr c0 with
                 | RInt z => Ok (CInt z)
                 | RFloat s => match fp s with Some b => Ok (CFloat b) | None => Internal ValueErrorI end
                 end = Ok c0).
    { destruct c0 as [z|b]; [reflexivity|]. cbn [erase_cst instr_floats_ok] in *. apply andb_true_iff in Hfl. destruct Hfl as [_ Hfl].
      destruct (fp (fr b)) as [b'|]; [|discriminate]. apply Z.eqb_eq in Hfl. now subst. }
    rewrite Ek. cbn [bind].
    destruct (Hfin _ (ts_pend st) eq_refl (fun x H => H)) as (st' & E & HI'); [intros x []|].
    rewrite with_pend_id in E. exists st'. split; [exact E|exact HI'].
  - (* binop *) rewrite Hfwd. andsplit Hct.
    destruct (find1 st a t HI (Hrefs a (or_introl eq_refl))) as (p1 & E1 & HI1 & Hm1 & Hh1). rewrite E1.
    destruct (find1 _ b t HI1 (Hrefs b (or_intror (or_introl eq_refl)))) as (p2 & E2 & HI2 & Hm2 & Hh2). rewrite E2.
    rewrite with_pend2 in *. cbn [ts_pend with_pend] in Hm2.
    rewrite <- (ty_eqb_eq _ _ (res_ty_ok v0 a t (ty_eqb t) Hct (ty_eqb_refl t))).
    rewrite <- (ty_eqb_eq _ _ (res_ty_ok v0 b t (ty_eqb t) Hc (ty_eqb_refl t))). rewrite ty_eqb_refl. cbn [check bind].
    apply (Hfin _ p2 eq_refl); [auto|]. intros x [Hx|[Hx|[]]]; [apply Hm2, Hh1|apply Hh2]; auto.
  - (* unop *) rewrite Hfwd.
    destruct (find1 st a t HI (Hrefs a (or_introl eq_refl))) as (p1 & E1 & HI1 & Hm1 & Hh1). rewrite E1.
    rewrite <- (ty_eqb_eq _ _ (res_ty_ok v0 a t (ty_eqb t) Hct (ty_eqb_refl t))). rewrite ty_eqb_refl. cbn [check bind].
    apply (Hfin _ p1 eq_refl); [auto|]. intros x [Hx|[]]. auto.
  - (* cast *)
    destruct (find1 st a Ptr HI (Hrefs a (or_introl eq_refl))) as (p1 & E1 & HI1 & Hm1 & Hh1). rewrite E1.
    apply (Hfin _ p1 eq_refl); [auto|]. intros x [Hx|[]]. auto.
  - (* load *) andsplit Hct.
    destruct (find1 st addr Ptr HI (Hrefs addr (or_introl eq_refl))) as (p1 & E1 & HI1 & Hm1 & Hh1). rewrite E1.
    rewrite <- (ty_eqb_eq _ _ (res_ty_ok v0 addr Ptr (ty_eqb Ptr) Hct (ty_eqb_refl Ptr))). rewrite ty_eqb_refl, Hc. cbn [check bind].
    apply (Hfin _ p1 eq_refl); [auto|]. intros x [Hx|[]]. auto.
  - (* store *)
    destruct (find1 st x Ptr HI (Hrefs x (or_introl eq_refl))) as (p1 & E1 & HI1 & Hm1 & Hh1). rewrite E1.
    destruct (find1 _ addr Ptr HI1 (Hrefs addr (or_intror (or_introl eq_refl)))) as (p2 & E2 & HI2 & Hm2 & Hh2). rewrite E2.
    rewrite with_pend2 in *. cbn [ts_pend with_pend] in Hm2.
    rewrite <- (ty_eqb_eq _ _ (res_ty_ok v0 addr Ptr (ty_eqb Ptr) Hct (ty_eqb_refl Ptr))). rewrite ty_eqb_refl. cbn [check bind].
    apply (Hadd p2 eq_refl); [auto|]. intros y [Hy|[Hy|[]]]; [apply Hm2, Hh1|apply Hh2]; auto.
  - (* alloc *) rewrite Hct. cbn [check bind].
    destruct (Hfin _ (ts_pend st) eq_refl (fun x H => H)) as (st' & E & HI'); [intros x []|].
    rewrite with_pend_id in E. exists st'. split; [exact E|exact HI'].
  - (* addressof *)
    destruct (find1 st a (Blob 1 1) HI (Hrefs a (or_introl eq_refl))) as (p1 & E1 & HI1 & Hm1 & Hh1). rewrite E1.
    rewrite (res_ty_ok v0 a (Blob 1 1) ty_is_blob Hct eq_refl). cbn [check bind]. rewrite ty_eqb_refl. cbn [check bind].
    apply (Hfin _ p1 eq_refl); [auto|]. intros x [Hx|[]]. auto.
  - (* literal *) rewrite (unhexlify_hexlify _ Hct).
    destruct (Hfin _ (ts_pend st) eq_refl (fun x H => H)) as (st' & E & HI'); [intros x []|].
    rewrite with_pend_id in E. exists st'. split; [exact E|exact HI'].
  - (* copyblob *)
    destruct (find1 st dst Ptr HI (Hrefs dst (or_introl eq_refl))) as (p1 & E1 & HI1 & Hm1 & Hh1). rewrite E1.
    destruct (find1 _ src Ptr HI1 (Hrefs src (or_intror (or_introl eq_refl)))) as (p2 & E2 & HI2 & Hm2 & Hh2). rewrite E2.
    rewrite with_pend2 in *. cbn [ts_pend with_pend] in Hm2.
    apply (Hadd p2 eq_refl); [auto|]. intros y [Hy|[Hy|[]]]; [apply Hm2, Hh1|apply Hh2]; auto.
  - (* phi *)
    apply andb_true_iff in Hphi. destruct Hphi as [Hnd Hblk]. rewrite forallb_forall in Hblk, Hct.
    change (map (fun p : bid * vref => (block_name f (fst p), ref_name f (snd p))) ins) with (map (pkey f) ins).
    rewrite sort_key.
    destruct (phi_inputs_ok t (sort_phi f ins) [] st HI) as (q & E & HI1 & Hm & Hh).
    { intros p Hp. apply sort_phi_in in Hp. repeat split; [apply Hrefs; now apply in_map|now apply Hblk|now apply Hct]. }
    { cbn [app]. apply sort_phi_nodup. now apply nodup_pos_NoDup. }
    unfold bid, vid in *. rewrite E. cbn [bind app].
    destruct (Hfin _ q eq_refl Hm) as (st' & E' & HI').
    { intros x Hx. cbn in Hx. rewrite map_map in Hx. apply in_map_iff in Hx. destruct Hx as (p & Ep & Hp). cbn in Ep. eauto. }
    exists st'. split; [exact E'|exact HI'].
  - (* undefined *)
    cbn [erase_instr rprintable_instr] in Hnc. destruct (fx_undef c); [|discriminate]. cbn [resolve_instr].
    destruct (Hfin _ (ts_pend st) eq_refl (fun x H => H)) as (st' & E & HI'); [intros x []|].
    rewrite with_pend_id in E. exists st'. split; [exact E|exact HI'].
  - (* callf *)
    destruct (find1 st callee Ptr HI (Hrefs callee (or_introl eq_refl))) as (p1 & E1 & HI1 & Hm1 & Hh1). rewrite E1.
    destruct (find_args_ok args _ HI1 (fun r H => Hrefs r (or_intror H))) as (p2 & E2 & HI2 & Hm2 & Hh2). rewrite E2.
    rewrite with_pend2 in *. cbn [ts_pend with_pend] in Hm2.
    rewrite <- (ty_eqb_eq _ _ (res_ty_ok v0 callee Ptr (ty_eqb Ptr) Hct (ty_eqb_refl Ptr))). rewrite ty_eqb_refl. cbn [check bind].
    apply (Hfin _ p2 eq_refl); [auto|]. intros x [Hx|Hx]; [apply Hm2, Hh1; auto|].
    apply in_map_iff in Hx. destruct Hx as (r & Er & Hr). eauto.
  - (* callp *)
    destruct (find1 st callee Ptr HI (Hrefs callee (or_introl eq_refl))) as (p1 & E1 & HI1 & Hm1 & Hh1). rewrite E1.
    destruct (find_args_ok args _ HI1 (fun r H => Hrefs r (or_intror H))) as (p2 & E2 & HI2 & Hm2 & Hh2). rewrite E2.
    rewrite with_pend2 in *. cbn [ts_pend with_pend] in Hm2.
    rewrite <- (ty_eqb_eq _ _ (res_ty_ok v0 callee Ptr (ty_eqb Ptr) Hct (ty_eqb_refl Ptr))). rewrite ty_eqb_refl. cbn [check bind].
    apply (Hadd p2 eq_refl); [auto|]. intros x [Hx|Hx]; [apply Hm2, Hh1; auto|].
    apply in_map_iff in Hx. destruct Hx as (r & Er & Hr). eauto.
  - (* jump *) unfold bmap. rewrite (block_ref_ok gn f Hf b (Htg b (or_introl eq_refl))). cbn [bind].
    destruct (Hadd (ts_pend st) eq_refl (fun x H => H)) as (st' & E & HI'); [intros x []|].
    rewrite with_pend_id in E. exists st'. split; [exact E|exact HI'].
  - (* cjump *)
    destruct (find1 st a Ptr HI (Hrefs a (or_introl eq_refl))) as (p1 & E1 & HI1 & Hm1 & Hh1). rewrite E1.
    destruct (find1 _ b Ptr HI1 (Hrefs b (or_intror (or_introl eq_refl)))) as (p2 & E2 & HI2 & Hm2 & Hh2). rewrite E2.
    rewrite with_pend2 in *. cbn [ts_pend with_pend] in Hm2.
    unfold bmap. rewrite (block_ref_ok gn f Hf yes (Htg yes (or_introl eq_refl))).
    rewrite (block_ref_ok gn f Hf no (Htg no (or_intror (or_introl eq_refl)))). cbn [bind].
    apply (Hadd p2 eq_refl); [auto|]. intros x [Hx|[Hx|[]]]; [apply Hm2, Hh1|apply Hh2]; auto.
  - (* return *)
    destruct (find1 st a Ptr HI (Hrefs a (or_introl eq_refl))) as (p1 & E1 & HI1 & Hm1 & Hh1). rewrite E1.
    apply (Hadd p1 eq_refl); [auto|]. intros x [Hx|[]]. auto.
  - (* exit *) destruct (Hadd (ts_pend st) eq_refl (fun x H => H)) as (st' & E & HI'); [intros x []|].
    rewrite with_pend_id in E. exists st'. split; [exact E|exact HI'].
Qed.
End Pos.
End F6.

Lemma seq_pos_at p n l1 x l2 : seq_pos p n = l1 ++ x :: l2 -> x = (p + Pos.of_succ_nat (List.length l1) - 1)%positive.
Proof.
  revert p n. induction l1 as [|a l IH]; intros p n H; destruct n as [|n]; cbn [seq_pos app] in H; try discriminate.
  - injection H as H1 H2. subst. cbn. lia.
  - injection H as H1 H2. apply IH in H2. subst x. cbn [List.length Pos.of_succ_nat]. lia.
Qed.
Lemma shape_cons2 b c t : wf_block_shape (b :: c :: t) = negb (is_terminator b) && wf_block_shape (c :: t).
Proof. reflexivity. Qed.
Lemma shape_mid l x y r : wf_block_shape (l ++ x :: y :: r) = true -> is_terminator x = false.
Proof.
  induction l as [|b l IH]; cbn [app].
  - rewrite shape_cons2. intros H. apply andb_true_iff in H. destruct H as [H _]. now apply negb_true_iff in H.
  - intros H. apply IH. destruct l as [|c l]; cbn [app] in *; rewrite shape_cons2 in H;
      apply andb_true_iff in H; now destruct H.
Qed.
Lemma shape_prefix is0 i rest : wf_block_shape (is0 ++ i :: rest) = true ->
  match rev is0 with x :: _ => is_terminator x | [] => false end = false.
Proof.
  destruct is0 as [|a l] using rev_ind; [reflexivity|]. rewrite rev_unit, <- app_assoc. cbn [app]. apply shape_mid.
Qed.
Lemma instrs_defs_app a b : instrs_defs (a ++ b) = instrs_defs a ++ instrs_defs b.
Proof. unfold instrs_defs. apply flat_map_app. Qed.

(* function-level facts needed by every instruction *)
Definition fok (c : tcfg) (fr : Z -> string) (fp : string -> option Z) (gn : list string) (f : func) : Prop :=
  forall j, In j (func_instrs f) ->
    wf_instr gn f j = true /\ ctor_ok f j = true /\ instr_floats_ok c fr fp j = true /\
    rprintable_instr c (erase_instr fr c f j) = true.

Section F7.
Variable c : tcfg.
Hypothesis Hfwd : fx_fwd c = true.
Hypothesis Hru1 : fx_ru_generic c = true.
Hypothesis Hru2 : fx_ru_phi c = true.
Hypothesis Hru3 : fx_ru_call c = true.
Variable fp : string -> option Z.
Variable fr : Z -> string.
Variable gn : list string.
Hypothesis Hgn : NoDup gn.
Variable f : func.
Hypothesis Hf : fwf gn f.
Hypothesis Hok : fok c fr fp gn f.
Variable gl : list string.
Hypothesis Hgl : forall s, In s gl -> In s gn.
Hypothesis Hndgl : NoDup gl.
Variable fsd : list func.
Hypothesis Hfsd : forall g k j x, In g fsd -> In k (f_blocks g) -> In j (b_ins k) -> In (Unres x) (instr_uses j) -> In x gn.
Let bmap := number_names 1 (map b_name (f_blocks f)).

Lemma all_refs j : In j (func_instrs f) -> forall r, In r (instr_uses j) -> wf_ref gn f r = true.
Proof.
  intros Hj r Hr. destruct (Hok j Hj) as (Hw & _). unfold wf_instr in Hw.
  apply andb_true_iff in Hw. destruct Hw as [Hw _]. apply andb_true_iff in Hw. destruct Hw as [Hw _].
  rewrite forallb_forall in Hw. now apply Hw.
Qed.

Section Blk.
Variable bs0 bs1 : list block.
Variable k : block.
Hypothesis Hblocks : f_blocks f = bs0 ++ k :: bs1.
Let bn := map b_name (bs0 ++ [k]).
Definition dsof (is0 : list instr) := instrs_defs (flat_map b_ins bs0 ++ is0).

Lemma in_cur is0 rest j : b_ins k = is0 ++ rest -> (In j is0 \/ exists k', In k' bs0 /\ In j (b_ins k')) -> In j (func_instrs f).
Proof.
  intros E H. unfold func_instrs. rewrite Hblocks. apply in_flat_map. destruct H as [H|(k' & Hk & Hj)].
  - exists k. split; [rewrite in_app_iff; right; now left|]. rewrite E, in_app_iff. now left.
  - exists k'. split; [rewrite in_app_iff; now left|exact Hj].
Qed.

Lemma instrs_chain rest : forall is0 st, b_ins k = is0 ++ rest ->
  Inv gl fsd f (dsof is0) bn (map (hide_block c (vis gl f (dsof is0)) f) bs0) (map (hide_instr c (vis gl f (dsof is0)) f) is0) st ->
  exists st', resolve_instrs c fp bmap (map (erase_instr fr c f) rest) st = Ok st' /\
    Inv gl fsd f (dsof (is0 ++ rest)) bn (map (hide_block c (vis gl f (dsof (is0 ++ rest))) f) bs0)
        (map (hide_instr c (vis gl f (dsof (is0 ++ rest))) f) (is0 ++ rest)) st'.
Proof.
  induction rest as [|i rest IH]; intros is0 st E HI.
  - rewrite app_nil_r. exists st. split; [reflexivity|exact HI].
  - cbn [map resolve_instrs].
    assert (Hi : In i (func_instrs f)).
    { unfold func_instrs. rewrite Hblocks. apply in_flat_map. exists k. split; [rewrite in_app_iff; right; now left|].
      rewrite E, in_app_iff. right. now left. }
    destruct (Hok i Hi) as (Hw & Hc & Hfl & Hnc).
    assert (Hdefs : func_defs f = dsof is0 ++ (match instr_def i with Some d => [d] | None => [] end)
                                  ++ instrs_defs (rest ++ flat_map b_ins bs1)).
    { unfold func_defs, func_instrs, dsof. rewrite Hblocks, flat_map_app. cbn [flat_map]. rewrite E.
      rewrite !instrs_defs_app. cbn [app]. change (i :: rest) with ([i] ++ rest). rewrite !instrs_defs_app.
      unfold instrs_defs at 3. cbn [flat_map]. rewrite app_nil_r, <- !app_assoc. reflexivity. }
    destruct (instr_step c Hfwd Hru1 Hru2 Hru3 fp fr gn Hgn f Hf gl Hgl Hndgl fsd Hfsd (dsof is0)
                (ex_intro _ _ Hdefs) bn bs0 is0
                (fun j Hj => all_refs j (in_cur is0 (i :: rest) j E Hj))
                st i (instrs_defs (rest ++ flat_map b_ins bs1)) HI Hw Hc Hfl Hnc) as (st1 & E1 & HI1).
    + apply (shape_prefix is0 i rest). rewrite <- E. apply (w_shape _ _ Hf). rewrite Hblocks, in_app_iff. right. now left.
    + exact Hdefs.
    + intros d Hd. rewrite Hd in Hdefs. cbn [app] in Hdefs. split.
      * apply not_true_is_false. intros Hx. rewrite mem_str_app in Hx. apply orb_true_iff in Hx.
        assert (Hdn : In (def_name d) (map def_name (func_defs f))) by (rewrite Hdefs, map_app, in_app_iff; right; now left).
        destruct Hx as [Hx|Hx]; apply mem_str_in in Hx.
        -- apply (w_defblk _ _ Hf _ Hdn). rewrite Hblocks. unfold bn in Hx. rewrite !map_app in *. cbn [map] in *.
           rewrite in_app_iff in *. cbn [In] in *. tauto.
        -- pose proof (w_nodup _ _ Hf) as Hnd. unfold func_local_names in Hnd. apply nodup_app_r in Hnd.
           rewrite Hdefs, map_app in Hnd. cbn [map] in Hnd. apply NoDup_remove_2 in Hnd. apply Hnd. rewrite in_app_iff. now left.
      * pose proof (w_dids _ _ Hf) as Hids. rewrite Hdefs, map_app in Hids. cbn [map] in Hids.
        symmetry in Hids. apply seq_pos_at in Hids. rewrite Hids, map_length. lia.
    + unfold bmap. rewrite E1. cbn [bind].
      assert (Eds : dsof is0 ++ match instr_def i with Some d => [d] | None => [] end = dsof (is0 ++ [i])).
      { unfold dsof. rewrite (app_assoc (flat_map b_ins bs0) is0 [i]), (instrs_defs_app (flat_map b_ins bs0 ++ is0) [i]). f_equal.
        unfold instrs_defs. cbn. destruct (instr_def i); reflexivity. }
      rewrite Eds in HI1.
      destruct (IH (is0 ++ [i]) st1) as (st' & E2 & HI2); [now rewrite <- app_assoc|exact HI1|].
      rewrite <- app_assoc in HI2. cbn [app] in HI2. exists st'. split; [exact E2|exact HI2].
Qed.
End Blk.

Lemma hide_block_name v k : b_name (hide_block c v f k) = b_name k. Proof. reflexivity. Qed.
Lemma dsof_block bs0 k : dsof bs0 (b_ins k) = dsof (bs0 ++ [k]) [].
Proof. unfold dsof. rewrite flat_map_app. cbn [flat_map]. now rewrite !app_nil_r. Qed.

Lemma block_ok bs0 k bs1 st : f_blocks f = bs0 ++ k :: bs1 ->
  Inv gl fsd f (dsof bs0 []) (map b_name bs0) (map (hide_block c (vis gl f (dsof bs0 [])) f) bs0) [] st ->
  exists st', resolve_block c fp bmap (erase_block fr c f k) st = Ok st' /\
    Inv gl fsd f (dsof (bs0 ++ [k]) []) (map b_name (bs0 ++ [k]))
        (map (hide_block c (vis gl f (dsof (bs0 ++ [k]) [])) f) (bs0 ++ [k])) [] st'.
Proof.
  intros Hb HI. pose proof HI as (H1 & H2 & H3 & H4 & H5 & H6 & H7 & H8).
  assert (Hnd : NoDup (map b_name (f_blocks f))) by exact (w_bnodup _ _ Hf).
  rewrite Hb, map_app in Hnd. cbn [map] in Hnd.
  assert (Hk0 : ~ In (b_name k) (map b_name bs0)) by (apply NoDup_remove_2 in Hnd; rewrite in_app_iff in Hnd; tauto).
  assert (Hkd : ~ In (b_name k) (map def_name (dsof bs0 []))).
  { intros Hx. apply (w_defblk _ _ Hf (b_name k)).
    - unfold func_defs, func_instrs. rewrite Hb, flat_map_app, instrs_defs_app, map_app, in_app_iff. left.
      unfold dsof in Hx. now rewrite app_nil_r in Hx.
    - rewrite Hb, map_app, in_app_iff. right. now left. }
  unfold resolve_block. cbn [erase_block rb_name rb_ins].
  rewrite H6, map_map. cbn [hide_block b_name]. change (map (fun x => b_name x) bs0) with (map b_name bs0).
  rewrite (mem_str_false _ _ Hk0). cbn [negb check bind].
  rewrite H4, mem_str_app, (mem_str_false _ _ Hk0), (mem_str_false _ _ Hkd). cbn [orb negb check bind].
  assert (Hin : In k (f_blocks f)) by (rewrite Hb, in_app_iff; right; now left).
  unfold bmap. rewrite (blookup_number (f_blocks f) 1 k (w_bnodup _ _ Hf) (w_bids _ _ Hf) Hin). cbn [bind].
  match goal with |- context [resolve_instrs _ _ _ _ ?s] => set (st0 := s) end.
  assert (HI0 : Inv gl fsd f (dsof bs0 []) (map b_name (bs0 ++ [k])) (map (hide_block c (vis gl f (dsof bs0 [])) f) bs0)
                    (map (hide_instr c (vis gl f (dsof bs0 [])) f) []) st0).
  { unfold Inv, st0. cbn [ts_ins ts_names ts_glob ts_loc ts_pend ts_next ts_funcs ts_blocks map].
    split; [exact H1|]. split; [exact H2|]. split; [exact H3|]. split; [|split; [exact H5|split; [reflexivity|split; [reflexivity|]]]].
    - intros x. rewrite map_app, !mem_str_app, H4, mem_str_app. cbn [map mem_str].
      destruct (mem_str x (map b_name bs0)), (String.eqb x (b_name k)), (mem_str x (map def_name (dsof bs0 []))); reflexivity.
    - intros j Hj. apply H8. destruct Hj as [[]|Hj]. right. exact Hj. }
  destruct (instrs_chain bs0 bs1 k Hb (b_ins k) [] st0 eq_refl HI0) as (st1 & E1 & HI1).
  cbn [app] in HI1. unfold bmap in E1. rewrite E1. cbn [bind].
  eexists. split; [reflexivity|].
  destruct HI1 as (G1 & G2 & G3 & G4 & G5 & G6 & G7 & G8).
  unfold Inv. cbn [ts_ins ts_names ts_glob ts_loc ts_pend ts_next ts_funcs ts_blocks].
  rewrite <- dsof_block. split; [exact G1|]. split; [exact G2|]. split; [exact G3|]. split; [exact G4|]. split; [exact G5|].
  split; [|split; [reflexivity|]].
  - rewrite G6, G7, map_app. reflexivity.
  - intros j Hj. apply G8. destruct Hj as [[]|[(k' & Hk' & Hj)|Hj]]; [|right; right; exact Hj].
    rewrite map_app in Hk'. apply in_app_or in Hk'. destruct Hk' as [Hk'|[<-|[]]].
    + right. left. exists k'. split; assumption.
    + left. exact Hj.
Qed.

Lemma blocks_chain bs1 : forall bs0 st, f_blocks f = bs0 ++ bs1 ->
  Inv gl fsd f (dsof bs0 []) (map b_name bs0) (map (hide_block c (vis gl f (dsof bs0 [])) f) bs0) [] st ->
  exists st', resolve_blocks c fp bmap (map (erase_block fr c f) bs1) st = Ok st' /\
    Inv gl fsd f (func_defs f) (map b_name (f_blocks f))
        (map (hide_block c (vis gl f (func_defs f)) f) (f_blocks f)) [] st'.
Proof.
  induction bs1 as [|k bs1 IH]; intros bs0 st Hb HI.
  - rewrite app_nil_r in Hb. exists st. split; [reflexivity|].
    assert (E : dsof bs0 [] = func_defs f) by (unfold dsof, func_defs, func_instrs; now rewrite app_nil_r, Hb).
    rewrite E, <- Hb in HI. exact HI.
  - cbn [map resolve_blocks]. destruct (block_ok bs0 k bs1 st Hb HI) as (st1 & E1 & HI1). rewrite E1. cbn [bind].
    apply (IH (bs0 ++ [k])); [now rewrite <- app_assoc|exact HI1].
Qed.
End F7.

(* ---- functions and modules *)
Definition hide_func (c : tcfg) (gl : list string) (g : func) : func :=
  mk_func (f_name g) (f_binding g) (f_ret g) (f_params g)
          (map (hide_block c (vis gl g (func_defs g)) g) (f_blocks g)).
Definition MInv (c : tcfg) (gl : list string) (fs : list func) (st : tst) : Prop :=
  ts_glob st = E_glob gl /\ ts_loc st = [] /\ ts_next st = 1%positive /\ ts_names st = [] /\
  ts_funcs st = map (hide_func c gl) fs /\ ts_blocks st = [] /\ ts_ins st = [] /\
  (forall g k j, In g (ts_funcs st) -> In k (f_blocks g) -> In j (b_ins k) -> hid_ok (ts_pend st) j).

Section M1.
Variable c : tcfg.
Hypothesis Hfwd : fx_fwd c = true.
Hypothesis Hru1 : fx_ru_generic c = true.
Hypothesis Hru2 : fx_ru_phi c = true.
Hypothesis Hru3 : fx_ru_call c = true.
Variable fp : string -> option Z.
Variable fr : Z -> string.
Variable gn : list string.
Hypothesis Hgn : NoDup gn.

Definition gok (g : func) : Prop := fwf gn g /\ fok c fr fp gn g.

Lemma vis_gl_snoc gl g ds s x : vis (gl ++ [s]) g ds x = vis gl g ds x || String.eqb x s.
Proof. unfold vis. rewrite mem_str_app. cbn. destruct (mem_str x (lnames g ds)), (mem_str x gl), (String.eqb x s); reflexivity. Qed.
Lemma sub_hide_glob gl g s r : fwf gn g -> In s gn -> wf_ref gn g r = true ->
  sub1 s (Glob s) (hide (vis gl g (func_defs g)) g r) = hide (vis (gl ++ [s]) g (func_defs g)) g r.
Proof.
  intros Hg Hs Hr. unfold hide. rewrite vis_gl_snoc. destruct (vis gl g (func_defs g) (ref_name g r)) eqn:Ev; cbn [orb].
  - unfold sub1. destruct r; cbn in Hr |- *; try reflexivity; discriminate.
  - unfold sub1. cbn [is_old]. destruct (String.eqb (ref_name g r) s) eqn:En; [|reflexivity].
    apply String.eqb_eq in En. symmetry. apply (name_inj gn Hgn g Hg); auto. cbn. now apply mem_str_in.
Qed.
Lemma grefs g : gok g -> forall k j r, In k (f_blocks g) -> In j (b_ins k) -> In r (instr_uses j) -> wf_ref gn g r = true.
Proof.
  intros [Hg Hok] k j r Hk Hj Hr. apply (all_refs c fp fr gn g Hok j); [|exact Hr].
  unfold func_instrs. apply in_flat_map. eauto.
Qed.
Lemma sub_hide_func gl g s : gok g -> In s gn ->
  sub_func s (Glob s) (hide_func c gl g) = hide_func c (gl ++ [s]) g.
Proof.
  intros Hg Hs. unfold sub_func, hide_func. cbn [f_name f_binding f_ret f_params f_blocks]. f_equal.
  rewrite map_map. apply map_ext_in. intros k Hk. unfold sub_block, hide_block. cbn [b_id b_name b_ins]. f_equal.
  rewrite map_map. apply map_ext_in. intros j Hj. unfold hide_instr. rewrite map_refs_comp. apply map_refs_ext.
  intros r Hr. apply sub_hide_glob; [exact (proj1 Hg)|exact Hs|]. apply norm_uses in Hr. exact (grefs g Hg k j r Hk Hj Hr).
Qed.
Lemma hide_unres_gn gl g r x : fwf gn g -> wf_ref gn g r = true ->
  hide (vis gl g (func_defs g)) g r = Unres x -> In x gn.
Proof.
  intros Hg Hr. unfold hide. destruct (vis gl g (func_defs g) (ref_name g r)) eqn:Ev.
  - intros ->. discriminate.
  - intros E. inversion E; subst x. destruct r; cbn in Hr; try discriminate.
    + exfalso. destruct (find_def_in g v Hr) as (d & Hfd & Hin & _). unfold vis in Ev. apply orb_false_iff in Ev. destruct Ev as [Ev _].
      assert (Hn : In (ref_name g (Loc v)) (lnames g (func_defs g))).
      { unfold lnames. rewrite in_app_iff. right. cbn. rewrite Hfd. now apply in_map. }
      apply mem_str_in in Hn. congruence.
    + exfalso. apply Nat.ltb_lt in Hr. destruct (nth_error (f_params g) n) as [p|] eqn:Ep; [|apply nth_error_None in Ep; lia].
      unfold vis in Ev. apply orb_false_iff in Ev. destruct Ev as [Ev _].
      assert (Hn : In (ref_name g (Param n)) (lnames g (func_defs g))).
      { unfold lnames. rewrite in_app_iff. left. cbn. rewrite Ep. apply in_map. eapply nth_error_In; eassumption. }
      apply mem_str_in in Hn. congruence.
    + cbn. now apply mem_str_in.
Qed.
Lemma hidden_gn gl fs : (forall g, In g fs -> gok g) ->
  forall g k j x, In g (map (hide_func c gl) fs) -> In k (f_blocks g) -> In j (b_ins k) -> In (Unres x) (instr_uses j) -> In x gn.
Proof.
  intros Hfs g k j x Hg Hk Hj Hx. apply in_map_iff in Hg. destruct Hg as (g0 & <- & Hg0).
  cbn in Hk. apply in_map_iff in Hk. destruct Hk as (k0 & <- & Hk0). cbn in Hj. apply in_map_iff in Hj. destruct Hj as (j0 & <- & Hj0).
  unfold hide_instr in Hx. rewrite uses_map_refs in Hx. apply in_map_iff in Hx. destruct Hx as (r & Er & Hr).
  apply (hide_unres_gn gl g0 r x (proj1 (Hfs g0 Hg0))); [|exact Er]. apply norm_uses in Hr. exact (grefs g0 (Hfs g0 Hg0) k0 j0 r Hk0 Hj0 Hr).
Qed.

(* defining a module-level name *)
Lemma define_glob gl fs st s : MInv c gl fs st -> (forall g, In g fs -> gok g) -> In s gn ->
  exists st', define_value c s (Glob s) Ptr false None st = Ok (None, st') /\ MInv c (gl ++ [s]) fs st'.
Proof.
  intros (H1 & H2 & H3 & H4 & H5 & H6 & H7 & H8) Hfs Hs.
  destruct (define_value_eq c Hru1 Hru2 Hru3 s (Glob s) Ptr false None st I) as (p' & E & Hp').
  { intros Hn. rewrite H6, H7. repeat split; try constructor.
    apply Forall_forall. intros g Hg. apply Forall_forall. intros k Hk. apply Forall_forall. intros j Hj.
    apply (hid_no_old (ts_pend st)); [|exact Hn]. eauto. }
  rewrite E. cbn [option_map]. eexists. split; [reflexivity|]. unfold MInv.
  cbn [ts_ins ts_names ts_glob ts_loc ts_pend ts_next ts_funcs ts_blocks]. rewrite H6, H7. cbn [map].
  split; [rewrite H1; unfold E_glob; rewrite map_app; cbn [map]; now rewrite rev_unit|].
  split; [exact H2|]. split; [exact H3|]. split; [exact H4|].
  assert (Ef : map (sub_func s (Glob s)) (ts_funcs st) = map (hide_func c (gl ++ [s])) fs).
  { rewrite H5, map_map. apply map_ext_in. intros g Hg. apply sub_hide_func; auto. }
  split; [exact Ef|]. split; [reflexivity|]. split; [reflexivity|].
  intros g k j Hg Hk Hj. apply in_map_iff in Hg. destruct Hg as (g0 & <- & Hg0).
  cbn in Hk. apply in_map_iff in Hk. destruct Hk as (k0 & <- & Hk0). cbn in Hj. apply in_map_iff in Hj. destruct Hj as (j0 & <- & Hj0).
  apply (hid_sub (ts_pend st)); [discriminate|eauto|exact Hp'].
Qed.
End M1.

Section M2.
Variable c : tcfg.
Hypothesis Hfwd : fx_fwd c = true.
Hypothesis Hru1 : fx_ru_generic c = true.
Hypothesis Hru2 : fx_ru_phi c = true.
Hypothesis Hru3 : fx_ru_call c = true.
Variable fp : string -> option Z.
Variable fr : Z -> string.
Variable gn : list string.
Hypothesis Hgn : NoDup gn.

Lemma params_ok ps : forall k st,
  (forall g kk j x, In g (ts_funcs st) -> In kk (f_blocks g) -> In j (b_ins kk) -> In (Unres x) (instr_uses j) -> In x gn) ->
  (forall p, In p ps -> ~ In (fst p) gn) ->
  (forall g kk j, In g (ts_funcs st) -> In kk (f_blocks g) -> In j (b_ins kk) -> hid_ok (ts_pend st) j) ->
  ts_blocks st = [] -> ts_ins st = [] ->
  exists p', define_params c (map (fun p => (snd p, fst p)) ps) k st =
             Ok (mk_tst (ts_glob st) (rev (pentries ps k) ++ ts_loc st) p' (ts_next st) (ts_names st) (ts_funcs st) [] [])
             /\ (forall g kk j, In g (ts_funcs st) -> In kk (f_blocks g) -> In j (b_ins kk) -> hid_ok p' j).
Proof.
  induction ps as [|[n t] ps IH]; intros k st Hfs Hps Hh Hb Hi.
  - exists (ts_pend st). cbn. rewrite <- Hb, <- Hi. split; [now destruct st|exact Hh].
  - cbn [map define_params fst snd].
    assert (Hn : ~ In n gn) by exact (Hps (n, t) (or_introl eq_refl)).
    assert (Hno : forall g kk j, In g (ts_funcs st) -> In kk (f_blocks g) -> In j (b_ins kk) -> no_old n j).
    { intros g kk j Hg Hk Hj r Hr. destruct (is_old n r) eqn:E; [|reflexivity]. apply is_old_unres in E. subst r.
      exfalso. apply Hn. eapply Hfs; eauto. }
    destruct (define_value_eq c Hru1 Hru2 Hru3 n (Param k) t true None st) as (p1 & E & Hp1).
    { apply not_true_is_false. intros Hx. apply existsb_exists in Hx. destruct Hx as (g & Hg & Hx).
      unfold func_uses_old in Hx. apply existsb_exists in Hx. destruct Hx as (j & Hj & Hx).
      unfold func_instrs in Hj. apply in_flat_map in Hj. destruct Hj as (kk & Hk & Hj).
      unfold uses_old in Hx. apply existsb_exists in Hx. destruct Hx as (r & Hr & Hx).
      now rewrite (Hno g kk j Hg Hk Hj r Hr) in Hx. }
    { intros _. rewrite Hb, Hi. repeat split; try constructor.
      apply Forall_forall. intros g Hg. apply Forall_forall. intros kk Hk. apply Forall_forall. intros j Hj. eauto. }
    rewrite E. cbn [bind option_map].
    assert (Ef : map (sub_func n (Param k)) (ts_funcs st) = ts_funcs st).
    { rewrite <- (map_id (ts_funcs st)) at 2. apply map_ext_in. intros g Hg. unfold sub_func.
      replace (map (sub_block n (Param k)) (f_blocks g)) with (f_blocks g); [now destruct g|].
      rewrite <- (map_id (f_blocks g)) at 1. apply map_ext_in. intros kk Hk. unfold sub_block.
      replace (map (map_refs (sub1 n (Param k))) (b_ins kk)) with (b_ins kk); [now destruct kk|].
      rewrite <- (map_id (b_ins kk)) at 1. apply map_ext_in. intros j Hj. symmetry. apply sub_no_old. eauto. }
    rewrite Ef, Hb, Hi. cbn [map].
    match goal with |- context [define_params _ _ _ ?s] => set (st1 := s) end.
    assert (A3 : forall g kk j, In g (ts_funcs st1) -> In kk (f_blocks g) -> In j (b_ins kk) -> hid_ok (ts_pend st1) j).
    { unfold st1. cbn [ts_funcs ts_pend]. intros g kk j Hg Hk Hj x Hx. apply Hp1; [|now apply (Hh g kk j Hg Hk Hj)].
      intros ->. apply Hn. eapply Hfs; eauto. }
    destruct (IH (S k) st1 Hfs (fun p Hp => Hps p (or_intror Hp)) A3 eq_refl eq_refl) as (p2 & E2 & Hh2).
    exists p2. rewrite E2. unfold st1. cbn [ts_glob ts_loc ts_next ts_names ts_funcs]. split; [|exact Hh2].
    cbn [pentries rev]. now rewrite <- app_assoc.
Qed.
End M2.

Section M3.
Variable c : tcfg.
Hypothesis Hfwd : fx_fwd c = true.
Hypothesis Hru1 : fx_ru_generic c = true.
Hypothesis Hru2 : fx_ru_phi c = true.
Hypothesis Hru3 : fx_ru_call c = true.
Variable fp : string -> option Z.
Variable fr : Z -> string.
Variable gn : list string.
Hypothesis Hgn : NoDup gn.

Lemma func_ok gl fs f st :
  MInv c gl fs st -> (forall g, In g fs -> gok c fp fr gn g) -> gok c fp fr gn f ->
  In (f_name f) gn -> (forall s, In s (gl ++ [f_name f]) -> In s gn) -> NoDup (gl ++ [f_name f]) ->
  exists st', resolve_func c fp (erase_func fr c f) st = Ok st' /\ MInv c (gl ++ [f_name f]) (fs ++ [f]) st'.
Proof.
  intros HM Hfs [Hf Hok] Hname Hgl Hnd. unfold resolve_func. cbn [erase_func rf_name rf_params rf_blocks rf_binding rf_ret].
  destruct (define_glob c Hru1 Hru2 Hru3 fp fr gn Hgn gl fs st (f_name f) HM Hfs Hname) as (st1 & E1 & HM1).
  rewrite E1. cbn [bind]. destruct HM1 as (H1 & H2 & H3 & H4 & H5 & H6 & H7 & H8).
  set (gl' := gl ++ [f_name f]) in *.
  assert (Hhid : forall g kk j x, In g (ts_funcs st1) -> In kk (f_blocks g) -> In j (b_ins kk) -> In (Unres x) (instr_uses j) -> In x gn).
  { rewrite H5. exact (hidden_gn c Hfwd Hru1 Hru2 Hru3 fp fr gn gl' fs Hfs). }
  match goal with |- context [define_params _ _ _ ?s] => set (st2 := s) end.
  assert (P2 : forall p, In p (f_params f) -> ~ In (fst p) gn).
  { intros p Hp. apply (w_disj _ _ Hf). unfold func_local_names. rewrite in_app_iff. left. now apply in_map. }
  destruct (params_ok c Hru1 Hru2 Hru3 gn (f_params f) 0%nat st2 Hhid P2 H8 eq_refl eq_refl) as (p3 & E3 & Hh3).
  rewrite E3. unfold st2. cbn [bind ts_glob ts_loc ts_next ts_names ts_funcs]. rewrite app_nil_r.
  assert (Enames : map rb_name (map (erase_block fr c f) (f_blocks f)) = map b_name (f_blocks f)) by (rewrite map_map; reflexivity).
  rewrite Enames.
  match goal with |- context [resolve_blocks _ _ _ _ ?s] => set (st3 := s) end.
  assert (HI3 : Inv gl' (ts_funcs st1) f (dsof [] []) (map b_name []) (map (hide_block c (vis gl' f (dsof [] [])) f) []) [] st3).
  { unfold Inv, st3. cbn [ts_ins ts_names ts_glob ts_loc ts_pend ts_next ts_funcs ts_blocks map dsof flat_map app instrs_defs List.length].
    split; [exact H1|]. split; [unfold E_loc, dentries; cbn [map]; now rewrite app_nil_r|]. split; [reflexivity|].
    split; [reflexivity|]. split; [reflexivity|]. split; [reflexivity|]. split; [reflexivity|].
    intros j [[]|[(k & [] & _)|(g & k & Hg & Hk & Hj)]]. eauto. }
  destruct (blocks_chain c Hfwd Hru1 Hru2 Hru3 fp fr gn Hgn f Hf Hok gl' Hgl Hnd (ts_funcs st1) Hhid (f_blocks f) [] st3 eq_refl HI3)
    as (st4 & E4 & HI4).
  rewrite E4. cbn [bind]. eexists. split; [reflexivity|].
  destruct HI4 as (G1 & G2 & G3 & G4 & G5 & G6 & G7 & G8).
  unfold MInv. cbn [ts_ins ts_names ts_glob ts_loc ts_pend ts_next ts_funcs ts_blocks].
  split; [exact G1|]. split; [reflexivity|]. split; [reflexivity|]. split; [reflexivity|].
  assert (Efn : mk_func (f_name f) (f_binding f) (f_ret f)
                  (map (fun p : ty * string => (snd p, fst p)) (map (fun p : string * ty => (snd p, fst p)) (f_params f)))
                  (ts_blocks st4) = hide_func c gl' f).
  { unfold hide_func. rewrite G6. f_equal. rewrite map_map. rewrite <- (map_id (f_params f)) at 2. apply map_ext. now intros []. }
  split; [rewrite G5, H5, Efn, map_app; reflexivity|]. split; [reflexivity|]. split; [reflexivity|].
  intros g k j Hg Hk Hj. rewrite G5 in Hg. apply in_app_or in Hg. destruct Hg as [Hg|[<-|[]]].
  - apply G8. right. right. exists g, k. rewrite <- G5 in *. auto.
  - apply G8. right. left. exists k. cbn [f_blocks] in Hk. rewrite G6 in Hk. auto.
Qed.
End M3.

Section M4.
Variable c : tcfg.
Hypothesis Hfwd : fx_fwd c = true.
Hypothesis Hru1 : fx_ru_generic c = true.
Hypothesis Hru2 : fx_ru_phi c = true.
Hypothesis Hru3 : fx_ru_call c = true.
Variable fp : string -> option Z.
Variable fr : Z -> string.
Variable gn : list string.
Hypothesis Hgn : NoDup gn.

Lemma minv_nil gl st s : MInv c gl [] st -> In s gn ->
  exists st', define_value c s (Glob s) Ptr false None st = Ok (None, st') /\ MInv c (gl ++ [s]) [] st'.
Proof. intros H Hs. apply (define_glob c Hru1 Hru2 Hru3 fp fr gn Hgn gl [] st s H); [intros g []|exact Hs]. Qed.

Lemma items_exts exts : forall gl st ae av rest, MInv c gl [] st -> (forall e, In e exts -> In (ext_name e) gn) ->
  exists st', resolve_items c fp (map RExt exts ++ rest) ae av st = resolve_items c fp rest (ae ++ exts) av st'
              /\ MInv c (gl ++ map ext_name exts) [] st'.
Proof.
  induction exts as [|e l IH]; intros gl st ae av rest HM He.
  - exists st. cbn. now rewrite !app_nil_r.
  - cbn [map app resolve_items]. destruct (minv_nil gl st (ext_name e) HM (He e (or_introl eq_refl))) as (st1 & E1 & HM1).
    rewrite E1. cbn [bind]. destruct (IH _ st1 (ae ++ [e]) av rest HM1 (fun x H => He x (or_intror H))) as (st2 & E2 & HM2).
    exists st2. rewrite E2, <- !app_assoc. cbn [app]. rewrite <- app_assoc in HM2. split; [reflexivity|exact HM2].
Qed.

Lemma resolve_var_ok g : wf_gvar gn g = true ->
  (fx_init c = true -> match g_value g with
                       | Some l => forallb (fun i => match i with InitRef t _ => ty_eqb t Ptr | _ => true end) l = true
                       | None => True end) ->
  resolve_var (erase_var c g) = Ok (norm_var c g).
Proof.
  intros Hw Hp. unfold resolve_var, erase_var, norm_var. cbn [rv_value rv_name rv_binding rv_amount rv_align].
  destruct (fx_init c) eqn:Ei; [|reflexivity]. specialize (Hp eq_refl). unfold wf_gvar in Hw.
  destruct (g_value g) as [l|]; [|reflexivity].
  assert (E : mapM resolve_init (map erase_init l) = Ok l).
  { rewrite forallb_forall in Hw, Hp. apply mapM_map_id. intros i Hi. specialize (Hw i Hi). specialize (Hp i Hi).
    destruct i as [d|t s]; cbn [erase_init resolve_init wf_init] in *.
    - now rewrite (unhexlify_hexlify d Hw).
    - apply ty_eqb_spec in Hp. now subst. }
  rewrite E. reflexivity.
Qed.
Lemma items_vars vars : forall gl st ae av rest, MInv c gl [] st -> (forall g, In g vars -> In (g_name g) gn) ->
  (forall g, In g vars -> resolve_var (erase_var c g) = Ok (norm_var c g)) ->
  exists st', resolve_items c fp (map (fun g => RVar (erase_var c g)) vars ++ rest) ae av st
              = resolve_items c fp rest ae (av ++ map (norm_var c) vars) st'
              /\ MInv c (gl ++ map g_name vars) [] st'.
Proof.
  induction vars as [|g l IH]; intros gl st ae av rest HM Hg Hv.
  - exists st. cbn. now rewrite !app_nil_r.
  - cbn [map app resolve_items]. rewrite (Hv g (or_introl eq_refl)). cbn [bind erase_var rv_name].
    destruct (minv_nil gl st (g_name g) HM (Hg g (or_introl eq_refl))) as (st1 & E1 & HM1).
    rewrite E1. cbn [bind].
    destruct (IH _ st1 ae (av ++ [norm_var c g]) rest HM1 (fun x H => Hg x (or_intror H)) (fun x H => Hv x (or_intror H))) as (st2 & E2 & HM2).
    exists st2. rewrite E2, <- !app_assoc. cbn [app]. rewrite <- app_assoc in HM2. split; [reflexivity|exact HM2].
Qed.

Lemma items_funcs funcs : forall gl fs st ae av, MInv c gl fs st -> gn = gl ++ map f_name funcs ->
  (forall g, In g fs -> gok c fp fr gn g) -> (forall g, In g funcs -> gok c fp fr gn g) ->
  exists st', resolve_items c fp (map (fun f => RFunc (erase_func fr c f)) funcs) ae av st = Ok (ae, av, st')
              /\ MInv c gn (fs ++ funcs) st'.
Proof.
  induction funcs as [|f l IH]; intros gl fs st ae av HM Egn Hfs Hfu.
  - exists st. cbn in *. rewrite app_nil_r in *. subst gl. split; [reflexivity|exact HM].
  - cbn [map resolve_items].
    assert (Egn' : gn = (gl ++ [f_name f]) ++ map f_name l) by (rewrite <- app_assoc; exact Egn).
    destruct (func_ok c Hfwd Hru1 Hru2 Hru3 fp fr gn Hgn gl fs f st HM Hfs (Hfu f (or_introl eq_refl))) as (st1 & E1 & HM1).
    + rewrite Egn, in_app_iff. right. now left.
    + intros s Hs. rewrite Egn', in_app_iff. now left.
    + rewrite Egn' in Hgn. exact (nodup_app_l _ _ Hgn).
    + rewrite E1. cbn [bind].
      destruct (IH _ (fs ++ [f]) st1 ae av HM1 Egn') as (st2 & E2 & HM2).
      * intros g Hg. apply in_app_or in Hg. destruct Hg as [Hg|[<-|[]]]; auto. apply Hfu. now left.
      * intros g Hg. apply Hfu. now right.
      * exists st2. rewrite <- app_assoc in HM2. split; [exact E2|exact HM2].
Qed.

Lemma vis_full g r : fwf gn g -> wf_ref gn g r = true -> vis gn g (func_defs g) (ref_name g r) = true.
Proof.
  intros Hg Hr. destruct (vis gn g (func_defs g) (ref_name g r)) eqn:Ev; [reflexivity|].
  assert (H : hide (vis gn g (func_defs g)) g r = Unres (ref_name g r)) by (unfold hide; now rewrite Ev).
  assert (Hin : In (ref_name g r) gn) by (eapply hide_unres_gn; eauto).
  unfold vis in Ev. apply orb_false_iff in Ev. destruct Ev as [_ Ev]. apply mem_str_in in Hin. congruence.
Qed.
Lemma hide_func_full g : gok c fp fr gn g -> hide_func c gn g = norm_func c g.
Proof.
  intros Hg. unfold hide_func, norm_func. f_equal. apply map_ext_in. intros k Hk. unfold hide_block. f_equal.
  apply map_ext_in. intros j Hj. unfold hide_instr. transitivity (map_refs (fun r => r) (norm_instr c g j)).
  - apply map_refs_ext. intros r Hr. unfold hide. rewrite vis_full; [reflexivity|exact (proj1 Hg)|].
    apply norm_uses in Hr. exact (grefs c fp fr gn g Hg k j r Hk Hj Hr).
  - generalize (norm_instr c g j). intros i. destruct i; cbn; try reflexivity; rewrite ?map_id; try reflexivity.
    f_equal. rewrite <- (map_id ins) at 2. apply map_ext. now intros [].
Qed.
End M4.

Theorem resolve_roundtrip c fp fr m :
  fx_fwd c = true -> fx_ru_generic c = true -> fx_ru_phi c = true -> fx_ru_call c = true ->
  wf_modul m = true -> printable c fr fp m = true ->
  resolve c fp (erase fr c m) = Ok (norm c m).
Proof.
  intros Hfwd Hru1 Hru2 Hru3 Hwf Hpr.
  unfold wf_modul in Hwf. apply andb_true_iff in Hwf. destruct Hwf as [Hwf Hwfu]. apply andb_true_iff in Hwf. destruct Hwf as [Hnd Hwv].
  set (gn := global_names m) in *. assert (Hgn : NoDup gn) by now apply nodup_str_NoDup.
  rewrite forallb_forall in Hwv, Hwfu.
  unfold printable in Hpr. apply andb_true_iff in Hpr. destruct Hpr as [Hpr Hpf].
  do 4 (apply andb_true_iff in Hpr; destruct Hpr as [Hpr _]). rename Hpr into Hpo. rewrite forallb_forall in Hpf.
  assert (Hgok : forall g, In g (m_funcs m) -> gok c fp fr gn g).
  { intros g Hg. pose proof (wf_func_fwf gn g (Hwfu g Hg)) as Hfw. split; [exact Hfw|].
    specialize (Hpf g Hg). unfold printable_func in Hpf.
    apply andb_true_iff in Hpf. destruct Hpf as [Hpf _]. apply andb_true_iff in Hpf. destruct Hpf as [Hpf Hrp].
    apply andb_true_iff in Hpf. destruct Hpf as [_ Hci]. rewrite forallb_forall in Hci. rewrite forallb_map_r, forallb_forall in Hrp.
    intros j Hj. specialize (Hci j Hj). specialize (Hrp j Hj). apply andb_true_iff in Hci. destruct Hci as [Hc Hfl].
    split; [exact (w_instr _ _ Hfw j Hj)|]. split; [exact Hc|]. split; [exact Hfl|exact Hrp]. }
  unfold resolve, erase. cbn [rm_items rm_name].
  assert (HM0 : MInv c [] [] tst0) by (unfold MInv, tst0; cbn; repeat split; auto; intros g k j []).
  destruct (items_exts c Hru1 Hru2 Hru3 fp fr gn Hgn (m_externals m) [] tst0 [] []
              (map (fun g => RVar (erase_var c g)) (m_vars m) ++ map (fun f => RFunc (erase_func fr c f)) (m_funcs m)) HM0)
    as (st1 & E1 & HM1).
  { intros e He. unfold gn, global_names. rewrite in_app_iff. left. now apply in_map. }
  rewrite E1.
  destruct (items_vars c Hru1 Hru2 Hru3 fp fr gn Hgn (m_vars m) _ st1 ([] ++ m_externals m) []
              (map (fun f => RFunc (erase_func fr c f)) (m_funcs m)) HM1) as (st2 & E2 & HM2).
  { intros g Hg. unfold gn, global_names. rewrite !in_app_iff. right. left. now apply in_map. }
  { intros g Hg. apply (resolve_var_ok c gn g (Hwv g Hg)). intros Hi. unfold print_ok in Hpo. rewrite Hi in Hpo. cbn [negb orb] in Hpo.
    rewrite forallb_forall in Hpo. specialize (Hpo g Hg). destruct (g_value g); [exact Hpo|exact I]. }
  rewrite E2.
  destruct (items_funcs c Hfwd Hru1 Hru2 Hru3 fp fr gn Hgn (m_funcs m) _ [] st2 ([] ++ m_externals m) ([] ++ map (norm_var c) (m_vars m)) HM2)
    as (st3 & E3 & HM3).
  { unfold gn, global_names. cbn [app]. now rewrite app_assoc. }
  { intros g []. }
  { exact Hgok. }
  cbn [app] in E3 |- *. rewrite E3. cbn [bind app]. unfold norm. f_equal. f_equal.
  destruct HM3 as (_ & _ & _ & _ & H5 & _). rewrite H5. cbn [app]. apply map_ext_in. intros g Hg.
  eapply hide_func_full; eauto.
Qed.
