(* Proofs/C08_rvfull.v — C08 (b) UNBOUNDED: for every covered class of table_riscv and ALL in-range operands
   the independent decoder reads what ppci prints.  Reflection on the shape of the descriptor: the bit sources
   of the 32 word bits (constant | bit q of operand i) are compared with those of the reference layout of the
   expected mnemonic (Spec/RV32Encode.v) through the operand view; then rv_roundtrip (Proofs/C08_rvspec.v). *)
From PV Require Import Lib.Py Lib.Tac Model.Encode Spec.RV32Decode Spec.RV32Encode.
From PV Require Import Proofs.C08_encode Proofs.C08_rvspec Proofs.C08_rv Gen.Tab_isa_riscv.
From Coq Require Import String.
Open Scope Z_scope.
Open Scope list_scope.

(* ---------- bit sources of a descriptor (token 0) ---------- *)
Inductive bsrc := BC (b : bool) | BO (i : nat) (q : Z).

Definition w_covers (w : write) (p : Z) : bool :=
  Nat.eqb (w_tok w) 0 && (w_lo w <=? p) && (p <? w_lo w + w_width w).

Fixpoint bit_src (ws : list write) (p : Z) : bsrc :=
  match ws with
  | [] => BC false
  | w :: r =>
      if w_covers w p then
        match w_src w with
        | SConst c => BC (Z.testbit c (p - w_lo w))
        | SOp i sh _ => BO i (sh + (p - w_lo w))
        end
      else bit_src r p
  end.

Definition eval_src (d : instr_desc) (ops : list Z) (s : bsrc) : bool :=
  match s with
  | BC b => b
  | BO i q => match nth_error ops i, nth_error (d_ops d) i with
              | Some v, Some o => Z.testbit (opval o v) q
              | _, _ => false
              end
  end.

Lemma bit_src_cases ws p :
  (exists w, In w ws /\ w_covers w p = true /\
             bit_src ws p = match w_src w with
                            | SConst c => BC (Z.testbit c (p - w_lo w))
                            | SOp i sh _ => BO i (sh + (p - w_lo w))
                            end) \/
  ((forall w, In w ws -> w_covers w p = false) /\ bit_src ws p = BC false).
Proof.
  induction ws as [|w r IH]; cbn [bit_src].
  - right. split; [intros w []|reflexivity].
  - destruct (w_covers w p) eqn:Ec.
    + left. exists w. split; [left; reflexivity|]. split; [exact Ec|reflexivity].
    + destruct IH as [(w' & Hin & Hc & E)|[Hn E]].
      * left. exists w'. split; [right; exact Hin|]. split; [exact Hc|exact E].
      * right. split; [|exact E]. intros w' [<-|Hin]; [exact Ec|auto].
Qed.

Lemma forall2_in_r {A B} (R : A -> B -> Prop) l1 l2 b :
  Forall2 R l1 l2 -> In b l2 -> exists a, In a l1 /\ R a b.
Proof.
  intros H. induction H as [|x y l1 l2 Hxy H IH]; intros Hin; [destruct Hin|].
  destruct Hin as [->|Hin]; [exists x; split; [left; reflexivity|assumption]|].
  destruct (IH Hin) as (a & Ha & Ra). exists a; split; [right; assumption|assumption].
Qed.

(* the word of a single-token class, bit by bit *)
Lemma word_bits d ops t p :
  wf_desc d = true -> in_range d ops = true -> d_tokens d = [t] -> 0 <= p < t_size t ->
  Z.testbit (wsum d ops 0 (d_writes d)) p = eval_src d ops (bit_src (d_writes d) p).
Proof.
  intros Hwf Hr Ht Hp. pose proof Hwf as Hwf0. unfold wf_desc in Hwf.
  apply andb_prop in Hwf. destruct Hwf as [Hwf Hops].
  apply andb_prop in Hwf. destruct Hwf as [Hwf Hdisj].
  apply andb_prop in Hwf. destruct Hwf as [Htok Hw].
  destruct (eval_writes_ok d ops Hops Hr (d_writes d) Hw) as (es & Hes & Hrel).
  assert (Hk : nth_error (d_tokens d) 0 = Some t) by (rewrite Ht; reflexivity).
  destruct (tok_facts d ops Htok Hw es Hrel 0%nat t Hk) as (Hok & Hs & Hf & Hnth).
  assert (Hsum : tokval (t_size t) 0 es = wsum d ops 0 (d_writes d)).
  { rewrite tokval_sum; auto. - eapply esum_wsum; eauto. - eapply rel_pw; eauto. }
  rewrite <- Hsum.
  destruct (bit_src_cases (d_writes d) p) as [(w & Hin & Hc & E)|[Hn E]]; rewrite E.
  - unfold w_covers in Hc. apply andb_prop in Hc. destruct Hc as [Hc H3]. apply andb_prop in Hc. destruct Hc as [H1 H2].
    apply Nat.eqb_eq in H1.
    destruct (forall2_in_l _ _ _ _ Hrel Hin) as (e & Hine & He).
    pose proof (write_bit d ops Htok Hw Hdisj es Hrel w e (p - w_lo w) Hin Hine He ltac:(lia)) as Hb.
    rewrite H1, Hnth in Hb. replace (w_lo w + (p - w_lo w)) with p in Hb by lia. rewrite Hb.
    destruct He as (_ & _ & _ & _ & Hsrc).
    destruct (w_src w) as [c|i sh m].
    + cbn. now rewrite Hsrc.
    + destruct Hsrc as (v & o & Ev & Eo & Hsh & ->). cbn [eval_src]. rewrite Ev, Eo.
      rewrite stored_bits by lia. reflexivity.
  - cbn [eval_src]. apply tokval_miss; auto.
    intros e Hine [Et Hcov].
    destruct (forall2_in_r _ _ _ _ Hrel Hine) as (w & Hinw & (E1 & E2 & E3 & _)).
    specialize (Hn w Hinw). unfold w_covers in Hn.
    rewrite <- E1, Et, <- E2, <- E3 in Hn. cbn in Hn.
    replace (e_lo e <=? p) with true in Hn by lia. replace (p <? e_lo e + e_width e) with true in Hn by lia.
    discriminate.
Qed.

(* ---------- bit sources of a reference layout ---------- *)
Definition f_covers (f : field) (p : Z) : bool :=
  let '(lo, w, _) := f in (lo <=? p) && (p <? lo + w).

Fixpoint field_at (fs : list field) (p : Z) : option field :=
  match fs with
  | [] => None
  | f :: r => if f_covers f p then Some f else field_at r p
  end.

Definition field_ok (f : field) : bool :=
  let '(lo, w, s) := f in
  (0 <=? lo) && (0 <? w) && (lo + w <=? 32) && match s with FC c => 0 <=? c | FA _ sh => 0 <=? sh end.

Definition f_disj (a b : field) : bool :=
  let '(lo1, w1, _) := a in let '(lo2, w2, _) := b in (lo1 + w1 <=? lo2) || (lo2 + w2 <=? lo1).

Fixpoint layout_disj (fs : list field) : bool :=
  match fs with [] => true | f :: r => forallb (f_disj f) r && layout_disj r end.

Definition layout_ok (fs : list field) : bool := forallb field_ok fs && layout_disj fs.

Definition f_ewrite (args : list Z) (f : field) : ewrite :=
  let '(lo, w, s) := f in
  mkE 0 lo w ((match s with FC c => c | FA j sh => nth j args 0 / 2 ^ sh end) mod 2 ^ w).

Lemma enc_esum fs args : enc_fields fs args = esum 0 (map (f_ewrite args) fs).
Proof.
  induction fs as [|[[lo w] s] r IH]; [reflexivity|].
  cbn [enc_fields fold_right map esum]. fold (enc_fields r args). rewrite IH. reflexivity.
Qed.

Lemma layout_e_ok fs args : forallb field_ok fs = true -> Forall (e_ok 32 0) (map (f_ewrite args) fs).
Proof.
  induction fs as [|[[lo w] s] r IH]; intros H; cbn; constructor.
  - cbn in H. apply andb_prop in H. destruct H as [H _]. intros _. cbn.
    assert (0 < 2 ^ w) by (apply pow2_pos; lia).
    repeat split; try lia; apply Z.mod_pos_bound; lia.
  - cbn in H. apply andb_prop in H. destruct H. auto.
Qed.

Lemma layout_pw fs args : layout_disj fs = true -> pw_disj (map (f_ewrite args) fs).
Proof.
  induction fs as [|[[lo w] s] r IH]; intros H; cbn; [exact I|].
  cbn in H. apply andb_prop in H. destruct H as [H1 H2]. split; [|auto].
  clear IH H2. induction r as [|[[lo2 w2] s2] r IH]; cbn; constructor.
  - cbn in H1. apply andb_prop in H1. destruct H1 as [H1 _]. unfold e_disj. cbn. right. lia.
  - cbn in H1. apply andb_prop in H1. destruct H1. auto.
Qed.

Lemma enc_bound fs args : layout_ok fs = true -> 0 <= enc_fields fs args < 2 ^ 32.
Proof.
  intros H. apply andb_prop in H. destruct H as [H1 H2].
  rewrite enc_esum. rewrite <- (tokval_sum 32 0); [| lia | now apply layout_e_ok | now apply layout_pw].
  apply tokval_bound; [lia|now apply layout_e_ok].
Qed.

Definition eval_field (args : list Z) (fo : option field) (p : Z) : bool :=
  match fo with
  | None => false
  | Some (lo, w, FC c) => Z.testbit c (p - lo)
  | Some (lo, w, FA j sh) => Z.testbit (nth j args 0) (sh + (p - lo))
  end.

Lemma field_at_cases fs p :
  (exists f, In f fs /\ f_covers f p = true /\ field_at fs p = Some f) \/
  ((forall f, In f fs -> f_covers f p = false) /\ field_at fs p = None).
Proof.
  induction fs as [|f r IH]; cbn [field_at].
  - right. split; [intros f []|reflexivity].
  - destruct (f_covers f p) eqn:Ec.
    + left. exists f. split; [left; reflexivity|]. split; [exact Ec|reflexivity].
    + destruct IH as [(f' & Hin & Hc & E)|[Hn E]].
      * left. exists f'. split; [right; exact Hin|]. split; [exact Hc|exact E].
      * right. split; [|exact E]. intros f' [<-|Hin]; [exact Ec|auto].
Qed.

Lemma layout_bits fs args p : layout_ok fs = true -> 0 <= p < 32 ->
  Z.testbit (enc_fields fs args) p = eval_field args (field_at fs p) p.
Proof.
  intros H Hp. apply andb_prop in H. destruct H as [H1 H2].
  rewrite enc_esum. rewrite <- (tokval_sum 32 0); [| lia | now apply layout_e_ok | now apply layout_pw].
  destruct (field_at_cases fs p) as [(f & Hin & Hc & E)|[Hn E]]; rewrite E.
  - rewrite (tokval_hit 32 0 _ (f_ewrite args f) p); [| lia | now apply layout_e_ok | now apply layout_pw | now apply in_map | ].
    + destruct f as [[lo w] s]. cbn in Hc. cbn [f_ewrite e_val e_lo eval_field].
      rewrite forallb_forall in H1. specialize (H1 _ Hin). cbn in H1.
      rewrite Z.mod_pow2_bits_low by lia.
      destruct s as [c|j sh]; [reflexivity|].
      rewrite <- Z.shiftr_div_pow2 by lia. rewrite Z.shiftr_spec by lia. f_equal. lia.
    + destruct f as [[lo w] s]. cbn in Hc. unfold covers. cbn. split; [reflexivity|lia].
  - cbn. apply tokval_miss; [lia|now apply layout_e_ok|lia|].
    intros e Hine [_ Hcov]. apply in_map_iff in Hine. destruct Hine as (f & <- & Hin).
    specialize (Hn f Hin). destruct f as [[lo w] s]. cbn in *. lia.
Qed.

(* ---------- matching ppci bit sources with the reference layout through the operand view ---------- *)
Definition op_plain (d : instr_desc) (i : nat) : bool :=
  match nth_error (d_ops d) i with
  | Some o => (o_div o =? 1) && (o_sub o =? 0) && match o_kind o with KLabel => false | _ => true end
  | None => false
  end.

Definition op_label (d : instr_desc) (i : nat) : bool :=
  match nth_error (d_ops d) i with
  | Some o => match o_kind o with KLabel => true | _ => false end
  | None => false
  end.

Definition match_bit (d : instr_desc) (view : list vsel) (ps : bsrc) (fo : option field) (p : Z) : bool :=
  match fo with
  | None => match ps with BC b => negb b | _ => false end
  | Some (lo, w, FC c) => match ps with BC b => Bool.eqb b (Z.testbit c (p - lo)) | _ => false end
  | Some (lo, w, FA j sh) =>
      let q := sh + (p - lo) in
      match nth_error view j with
      | None => false
      | Some (VOp i) =>
          if op_label d i then match ps with BC b => negb b | _ => false end
          else match ps with BO i' q' => Nat.eqb i i' && (q =? q') && op_plain d i | _ => false end
      | Some (VSext n i) =>
          if op_label d i then match ps with BC b => negb b && (0 <=? q) && (q <? n) | _ => false end
          else match ps with
               | BO i' q' => Nat.eqb i i' && (q =? q') && op_plain d i && (0 <=? q) && (q <? n)
               | _ => false
               end
      | Some (VConst c) => match ps with BC b => Bool.eqb b (Z.testbit c q) | _ => false end
      end
  end.

Lemma nth_map_some {A B} (f : A -> B) l j x z : nth_error l j = Some x -> nth j (map f l) z = f x.
Proof. revert j. induction l as [|a l IH]; intros [|j] H; try discriminate; cbn in *; [now inversion H|auto]. Qed.

Lemma nth_of_error {A} (l : list A) i v z : nth_error l i = Some v -> nth i l z = v.
Proof. revert i. induction l as [|a l IH]; intros [|i] H; try discriminate; cbn in *; [now inversion H|auto]. Qed.

Lemma label_value d ops i : in_range d ops = true -> op_label d i = true -> nth i ops 0 = 0.
Proof.
  unfold op_label. intros Hr H. destruct (nth_error (d_ops d) i) as [o|] eqn:Eo; [|discriminate].
  destruct (in_range_nth _ _ _ _ Hr Eo) as (v & Ev & Hin). rewrite (nth_of_error _ _ _ _ Ev).
  unfold op_in_range in Hin. destruct (o_kind o); try discriminate. lia.
Qed.

Lemma plain_value d ops i : in_range d ops = true -> op_plain d i = true ->
  exists v o, nth_error ops i = Some v /\ nth_error (d_ops d) i = Some o /\ opval o v = v /\ nth i ops 0 = v /\
              op_in_range o v = true /\ o_div o = 1 /\ o_sub o = 0.
Proof.
  unfold op_plain. intros Hr H. destruct (nth_error (d_ops d) i) as [o|] eqn:Eo; [|discriminate].
  destruct (in_range_nth _ _ _ _ Hr Eo) as (v & Ev & Hin). exists v, o.
  assert (o_div o = 1 /\ o_sub o = 0) as [E1 E2] by lia.
  repeat split; auto.
  - unfold opval. rewrite E1, E2, Z.div_1_r. lia.
  - now apply nth_of_error.
Qed.

Lemma sext_bits n v q : 0 <= q < n -> Z.testbit (sext n (v mod 2 ^ n)) q = Z.testbit v q.
Proof.
  intros Hq. unfold sext. destruct (v mod 2 ^ n <? 2 ^ (n - 1)).
  - apply Z.mod_pow2_bits_low. lia.
  - rewrite <- (Z.mod_pow2_bits_low (v mod 2 ^ n - 2 ^ n) n q) by lia.
    rewrite <- (Z.mod_pow2_bits_low v n q) by lia. f_equal.
    assert (0 < 2 ^ n) by (apply pow2_pos; lia).
    rewrite Zminus_mod, Z_mod_same_full, Z.sub_0_r, Z.mod_mod by lia. apply Z.mod_mod. lia.
Qed.

Lemma match_bit_sound d ops view ps fo p :
  in_range d ops = true -> match_bit d view ps fo p = true ->
  eval_src d ops ps = eval_field (map (apply_vsel ops) view) fo p.
Proof.
  intros Hr H. unfold match_bit in H.
  destruct fo as [[[lo w] [c|j sh]]|]; cbn [eval_field].
  - destruct ps as [b|]; [|discriminate]. cbn. now apply Bool.eqb_prop in H.
  - destruct (nth_error view j) as [vs|] eqn:Ev; [|discriminate].
    rewrite (nth_map_some _ _ _ _ 0 Ev).
    destruct vs as [i|n i|c]; cbn [apply_vsel].
    + destruct (op_label d i) eqn:El.
      * destruct ps as [b|]; [|discriminate]. cbn. rewrite (label_value d ops i Hr El), Z.bits_0. now destruct b.
      * destruct ps as [|i' q']; [discriminate|].
        apply andb_prop in H. destruct H as [H Hp]. apply andb_prop in H. destruct H as [Hi Hq].
        apply Nat.eqb_eq in Hi. subst i'. apply Z.eqb_eq in Hq. subst q'.
        destruct (plain_value d ops i Hr Hp) as (v & o & Ev' & Eo & Hov & Hn & _).
        cbn [eval_src]. rewrite Ev', Eo, Hov, Hn. reflexivity.
    + destruct (op_label d i) eqn:El.
      { destruct ps as [b|]; [|discriminate]. cbn.
        apply andb_prop in H. destruct H as [H Hq2]. apply andb_prop in H. destruct H as [Hb Hq1].
        rewrite sext_bits by lia. rewrite (label_value d ops i Hr El), Z.bits_0. now destruct b. }
      destruct ps as [|i' q']; [discriminate|].
      apply andb_prop in H. destruct H as [H Hq2]. apply andb_prop in H. destruct H as [H Hq1].
      apply andb_prop in H. destruct H as [H Hp]. apply andb_prop in H. destruct H as [Hi Hq].
      apply Nat.eqb_eq in Hi. subst i'. apply Z.eqb_eq in Hq. subst q'.
      destruct (plain_value d ops i Hr Hp) as (v & o & Ev' & Eo & Hov & Hn & _).
      cbn [eval_src]. rewrite Ev', Eo, Hov, Hn. rewrite sext_bits by lia. reflexivity.
    + destruct ps as [b|]; [|discriminate]. cbn. now apply Bool.eqb_prop in H.
  - destruct ps as [b|]; [|discriminate]. cbn. now destruct b.
Qed.

Definition bits_match (d : instr_desc) (fs : list field) (view : list vsel) : bool :=
  forallb (fun p => match_bit d view (bit_src (d_writes d) p) (field_at fs p) p) (rangeZ 0 32).

Lemma words_equal d ops fs view :
  wf_desc d = true -> in_range d ops = true -> d_tokens d = [mkTok 32 false] ->
  layout_ok fs = true -> bits_match d fs view = true ->
  wsum d ops 0 (d_writes d) = enc_fields fs (map (apply_vsel ops) view).
Proof.
  intros Hwf Hr Ht Hl Hm.
  destruct (encode_single_sum d ops _ Hwf Hr Ht) as [_ Hb1]. cbn in Hb1.
  pose proof (enc_bound fs (map (apply_vsel ops) view) Hl) as Hb2.
  apply Z.bits_inj'. intros p Hp. destruct (Z.lt_ge_cases p 32).
  - rewrite (word_bits d ops _ p Hwf Hr Ht) by (cbn; lia).
    rewrite layout_bits by (auto; lia).
    apply match_bit_sound; auto.
    unfold bits_match in Hm. rewrite forallb_forall in Hm. apply Hm. apply rangeZ_In. lia.
  - rewrite (testbit_high _ 32) by lia. rewrite (testbit_high _ 32) by lia. reflexivity.
Qed.

(* ---------- the view lands in the argument ranges of the reference ---------- *)
Definition arg_view_ok (d : instr_desc) (k : akind) (vs : vsel) : bool :=
  match vs with
  | VConst c =>
      match k with
      | AReg => (0 <=? c) && (c <? 32)
      | ASImm n => (- 2 ^ (n - 1) <=? c) && (c <? 2 ^ (n - 1))
      | AUImm n => (0 <=? c) && (c <? 2 ^ n)
      | ASEven n => (- 2 ^ (n - 1) <=? c) && (c <? 2 ^ (n - 1)) && (c mod 2 =? 0)
      end
  | VSext n' i => match k with ASImm n => (n =? n') && (1 <=? n) | _ => false end
  | VOp i =>
      if op_label d i then
        match k with AReg => false | ASImm n | ASEven n => 1 <=? n | AUImm n => 0 <=? n end
      else
        match nth_error (d_ops d) i with
        | Some o =>
            op_plain d i &&
            match k, o_kind o with
            | AReg, KReg nums => forallb (fun x => (0 <=? x) && (x <? 32)) nums
            | AUImm n, KImm false => (o_width o <=? n) && (0 <=? o_width o)
            | ASImm n, KImm true => (o_width o <=? n) && (1 <=? o_width o)
            | _, _ => false
            end
        | None => false
        end
  end.

Lemma sext_range n x : 1 <= n -> - 2 ^ (n - 1) <= sext n (x mod 2 ^ n) < 2 ^ (n - 1).
Proof.
  intros Hn. unfold sext.
  assert (P : 0 < 2 ^ (n - 1)) by (apply pow2_pos; lia).
  assert (E : 2 ^ n = 2 * 2 ^ (n - 1)).
  { replace n with (1 + (n - 1)) at 1 by lia. rewrite Z.pow_add_r by lia. reflexivity. }
  pose proof (Z.mod_pos_bound x (2 ^ n) ltac:(lia)).
  destruct (Z.ltb_spec (x mod 2 ^ n) (2 ^ (n - 1))); lia.
Qed.

Lemma arg_view_sound d ops k vs :
  in_range d ops = true -> arg_view_ok d k vs = true -> arg_ok k (apply_vsel ops vs).
Proof.
  intros Hr H. destruct vs as [i|n' i|c]; cbn [apply_vsel arg_view_ok] in *.
  - destruct (op_label d i) eqn:El.
    + rewrite (label_value d ops i Hr El).
      destruct k as [|n|n|n]; cbn [arg_ok]; try discriminate.
      * assert (0 < 2 ^ (n - 1)) by (apply pow2_pos; lia). lia.
      * assert (0 < 2 ^ n) by (apply pow2_pos; lia). lia.
      * assert (0 < 2 ^ (n - 1)) by (apply pow2_pos; lia). split; [lia|reflexivity].
    + destruct (nth_error (d_ops d) i) as [o|] eqn:Eo; [|discriminate].
      apply andb_prop in H. destruct H as [Hp H].
      destruct (plain_value d ops i Hr Hp) as (v & o' & Ev & Eo' & Hov & Hn & Hin & Hd & Hs).
      rewrite Eo in Eo'. inversion Eo'; subst o'. rewrite Hn.
      unfold op_in_range in Hin. unfold opval in Hin. rewrite Hd, Hs, Z.div_1_r in Hin.
      destruct k as [|n|n|n]; destruct (o_kind o) as [nums|[|]|]; try discriminate; cbn [arg_ok].
      * apply existsb_exists in Hin. destruct Hin as (x & Hx & E). apply Z.eqb_eq in E. subst x.
        rewrite forallb_forall in H. specialize (H v Hx). lia.
      * assert (2 ^ (o_width o - 1) <= 2 ^ (n - 1)) by (apply Z.pow_le_mono_r; lia). lia.
      * assert (2 ^ o_width o <= 2 ^ n) by (apply Z.pow_le_mono_r; lia). lia.
  - destruct k as [|n|n|n]; try discriminate. cbn [arg_ok].
    assert (n = n') by lia. subst n'. apply sext_range. lia.
  - destruct k as [|n|n|n]; cbn [arg_ok]; lia.
Qed.

Fixpoint views_ok (d : instr_desc) (ks : list akind) (view : list vsel) : bool :=
  match ks, view with
  | [], [] => true
  | k :: kr, v :: vr => arg_view_ok d k v && views_ok d kr vr
  | _, _ => false
  end.

Lemma views_sound d ops ks : forall view,
  in_range d ops = true -> views_ok d ks view = true -> args_ok ks (map (apply_vsel ops) view).
Proof.
  induction ks as [|k kr IH]; intros [|v vr] Hr H; try discriminate; cbn; [exact I|].
  cbn in H. apply andb_prop in H. destruct H. split; [eapply arg_view_sound; eauto|auto].
Qed.

(* ---------- bytes -> word ---------- *)
Lemma decode_pack w : 0 <= w < 2 ^ 32 -> RV32Decode.decode (pack (mkTok 32 false) w) = decode_word w.
Proof.
  intros Hw. unfold RV32Decode.decode, pack. cbn [t_size t_big].
  change (Z.to_nat (32 / 8)) with 4%nat. cbn [le_bytes word_of_bytes].
  f_equal.
  pose proof (le_value_le_bytes 4 w) as E. cbn [le_bytes le_value] in E.
  change (2 ^ (8 * Z.of_nat 4)) with (2 ^ 32) in E. rewrite Z.mod_small in E by lia. lia.
Qed.

(* ---------- the reflective class check and its soundness ---------- *)
Definition rv_full_ok (d : instr_desc) : bool :=
  match rv_expectation d with
  | None => true
  | Some (mn, view) =>
      match rv_layout mn with
      | None => false
      | Some (fs, ks) => wf_desc d && layout_ok fs && bits_match d fs view && views_ok d ks view
      end
  end.

Lemma rv32_tokens d : is_rv32_word d = true -> d_tokens d = [mkTok 32 false].
Proof.
  unfold is_rv32_word. destruct (d_tokens d) as [|[sz big] [|]]; try discriminate. cbn.
  intros H. assert (sz = 32) by lia. subst. destruct big; [discriminate|reflexivity].
Qed.

Theorem rv_full_sound d mn view :
  rv_full_ok d = true -> rv_expectation d = Some (mn, view) ->
  forall ops, in_range d ops = true ->
  exists bytes, encode_instr d ops = Ok bytes /\
                RV32Decode.decode bytes = Some (mn, map (apply_vsel ops) view).
Proof.
  intros Hok He ops Hr. unfold rv_full_ok in Hok. rewrite He in Hok.
  destruct (rv_layout mn) as [[fs ks]|] eqn:El; [|discriminate].
  apply andb_prop in Hok. destruct Hok as [Hok Hv]. apply andb_prop in Hok. destruct Hok as [Hok Hm].
  apply andb_prop in Hok. destruct Hok as [Hwf Hl].
  assert (Ht : d_tokens d = [mkTok 32 false]).
  { apply rv32_tokens. unfold rv_expectation in He. destruct (is_rv32_word d); [reflexivity|discriminate]. }
  destruct (encode_single_sum d ops _ Hwf Hr Ht) as [Henc Hb]. cbn [t_size] in Hb.
  eexists. split; [exact Henc|].
  rewrite decode_pack by exact Hb.
  rewrite (words_equal d ops fs view Hwf Hr Ht Hl Hm).
  apply (rv_roundtrip mn fs ks); [exact El|].
  apply (views_sound d ops); auto.
Qed.

(* ---------- the table ---------- *)
Fixpoint full_from (n : nat) (bad : list nat) (l : list instr_desc) : bool :=
  match l with
  | [] => true
  | d :: r => (existsb (Nat.eqb n) bad || rv_full_ok d) && full_from (S n) bad r
  end.

Lemma full_from_spec bad : forall l n k d,
  full_from n bad l = true -> nth_error l k = Some d -> ~ In (n + k)%nat bad -> rv_full_ok d = true.
Proof.
  induction l as [|d0 r IH]; intros n k d H Hk Hb; [destruct k; discriminate|].
  cbn in H. apply andb_prop in H. destruct H as [H0 Hr].
  destruct k as [|k]; cbn in Hk.
  - inversion Hk; subst. apply orb_prop in H0. destruct H0 as [H0|H0]; [|exact H0].
    exfalso. apply Hb. apply existsb_exists in H0. destruct H0 as (x & Hx & E).
    apply Nat.eqb_eq in E. subst x. now rewrite Nat.add_0_r.
  - eapply (IH (S n) k); eauto. now replace (S n + k)%nat with (n + S k)%nat by lia.
Qed.

Lemma rv_table_full : full_from 0 (map fst rvref_bad_riscv) table_riscv = true.
Proof. vm_compute. reflexivity. Qed.

(* UNBOUNDED: every covered class outside the exported disagreement list, ALL in-range operands *)
Theorem rv_reference n d e :
  nth_error table_riscv n = Some d -> ~ In n (map fst rvref_bad_riscv) -> rv_expectation d = Some e ->
  forall ops, in_range d ops = true ->
  exists bytes, encode_instr d ops = Ok bytes /\
                RV32Decode.decode bytes = Some (fst e, map (apply_vsel ops) (snd e)).
Proof.
  intros Hn Hb He ops Hr. destruct e as [mn view].
  apply (rv_full_sound d mn view); auto.
  exact (full_from_spec _ _ 0%nat n d rv_table_full Hn Hb).
Qed.
