(* Proofs/C39_bitfun2.v — clz, ctz, encode_imm32, value_to_bytes_big_endian of Gen.bitfun and the
   wasm runtime wrappers of Gen.wasm_rt_bits (ppci/wasm/execution/runtime.py). *)
From PV Require Import Lib.Py Lib.Tac Spec.BitsSpec Gen.bitfun Gen.wasm_rt_bits Proofs.C39_bitfun.
Open Scope Z_scope.


(* ---------------------------------------------------------------- clz *)
Lemma land_mask_bit v i : 0 <= i -> (Z.land v (2 ^ i) =? 0) = negb (Z.testbit v i).
Proof.
  intros Hi. pose proof (truthy_land_bit v i Hi) as T. unfold truthy in T.
  rewrite shiftl1_pow in T by lia. rewrite <- T. now rewrite negb_involutive.
Qed.

Lemma clz_loop1_spec bits v0 : 1 <= bits -> forall fuel count,
  0 <= count <= bits -> (Z.to_nat (bits - count) < fuel)%nat ->
  (forall i, bits - count <= i < bits -> Z.testbit v0 i = false) ->
  exists r v', clz_loop1 fuel bits (2 ^ (bits - 1)) count (v0 * 2 ^ count) = Ok (r, v') /\
               is_clz bits v0 r.
Proof.
  intros Hb. induction fuel as [|fuel IH]; intros count Hc Hf Hz; [lia|].
  cbn [clz_loop1]. rewrite land_mask_bit by lia. rewrite Z.mul_pow2_bits by lia.
  destruct (Z.ltb_spec count bits) as [Hlt|Hge]; cbn [andb].
  - destruct (Z.testbit v0 (bits - 1 - count)) eqn:T; cbn [negb].
    + exists count, (v0 * 2 ^ count). split; [reflexivity|].
      split; [lia|]. split; [exact Hz|]. intros _. exact T.
    + replace (v0 * 2 ^ count * 2) with (v0 * 2 ^ (count + 1))
        by (rewrite Z.pow_add_r by lia; lia).
      apply IH; [lia|lia|]. intros i Hi.
      destruct (Z.eq_dec i (bits - 1 - count)) as [->|]; [exact T|apply Hz; lia].
  - exists count, (v0 * 2 ^ count). split; [reflexivity|].
    split; [lia|]. split; [exact Hz|]. lia.
Qed.

Lemma clz_correct fuel v bits :
  1 <= bits -> (Z.to_nat bits < fuel)%nat ->
  exists r, clz fuel v bits = Ok r /\ is_clz bits v r.
Proof.
  intros Hb Hf. unfold clz. guard_ok. rewrite shiftl1_pow by lia.
  destruct (clz_loop1_spec bits v Hb fuel 0) as [r [v' [E S]]]; [lia|lia|intros; lia|].
  rewrite Z.pow_0_r, Z.mul_1_r in E. rewrite E. cbn [bind]. eauto.
Qed.

(* ---------------------------------------------------------------- ctz *)
Lemma mod2_bit v : (v mod 2 =? 0) = negb (Z.testbit v 0).
Proof.
  rewrite <- Z.bit0_mod. destruct (Z.testbit v 0); reflexivity.
Qed.

Lemma ctz_loop1_spec bits v0 : 0 <= bits -> forall fuel count,
  0 <= count <= bits -> (Z.to_nat (bits - count) < fuel)%nat ->
  (forall i, 0 <= i < count -> Z.testbit v0 i = false) ->
  exists r v', ctz_loop1 fuel bits count (v0 / 2 ^ count) = Ok (r, v') /\ is_ctz bits v0 r.
Proof.
  intros Hb. induction fuel as [|fuel IH]; intros count Hc Hf Hz; [lia|].
  cbn [ctz_loop1]. rewrite mod2_bit. rewrite Z.div_pow2_bits by lia. rewrite Z.add_0_l.
  destruct (Z.ltb_spec count bits) as [Hlt|Hge]; cbn [andb].
  - destruct (Z.testbit v0 count) eqn:T; cbn [negb].
    + exists count, (v0 / 2 ^ count). split; [reflexivity|].
      split; [lia|]. split; [exact Hz|]. intros _. exact T.
    + replace (v0 / 2 ^ count / 2) with (v0 / 2 ^ (count + 1)).
      2:{ rewrite Z.pow_add_r by lia. rewrite Z.div_div; [reflexivity| |lia].
          assert (0 < 2 ^ count) by (apply Z.pow_pos_nonneg; lia). lia. }
      apply IH; [lia|lia|]. intros i Hi.
      destruct (Z.eq_dec i count) as [->|]; [exact T|apply Hz; lia].
  - exists count, (v0 / 2 ^ count). split; [reflexivity|].
    split; [lia|]. split; [exact Hz|]. lia.
Qed.

Lemma ctz_correct fuel v bits :
  0 <= bits -> (Z.to_nat bits < fuel)%nat ->
  exists r, ctz fuel v bits = Ok r /\ is_ctz bits v r.
Proof.
  intros Hb Hf. unfold ctz.
  destruct (ctz_loop1_spec bits v Hb fuel 0) as [r [v' [E S]]]; [lia|lia|intros; lia|].
  rewrite Z.pow_0_r, Z.div_1_r in E. rewrite E. cbn [bind]. eauto.
Qed.

(* ---------------------------------------------------------------- encode_imm32 *)
Lemma ror32_range x c : 0 <= c <= 32 -> 0 <= x < 2 ^ 32 -> 0 <= ror32 x c < 2 ^ 32.
Proof. intros Hc Hx. unfold ror32. apply Z.mod_pos_bound. lia. Qed.

Lemma pow_split c : 0 <= c <= 32 -> 2 ^ 32 = 2 ^ c * 2 ^ (32 - c).
Proof. intros H. rewrite <- Z.pow_add_r by lia. f_equal. lia. Qed.

Lemma rotate_right_ror32 v n : 0 <= n <= 32 -> 0 <= v < 2 ^ 32 ->
  rotate_right v n = Ok (ror32 v n).
Proof.
  intros Hn Hv. unfold rotate_right. guards_ok. rewrite ?guard_true. f_equal.
  rewrite land_ones_mod, shiftr_div by lia.
  assert (P : 0 < 2 ^ n) by (apply Z.pow_pos_nonneg; lia).
  assert (Q : 0 < 2 ^ (32 - n)) by (apply Z.pow_pos_nonneg; lia).
  pose proof (pow_split n Hn) as E.
  pose proof (Z.div_mod v (2 ^ n) ltac:(lia)) as D.
  pose proof (Z.mod_pos_bound v (2 ^ n) P) as B.
  assert (Hq : 0 <= v / 2 ^ n < 2 ^ (32 - n)).
  { split; [apply Z.div_pos; lia|]. apply Z.div_lt_upper_bound; [lia|]. rewrite <- E. lia. }
  rewrite lor_disjoint_add by lia.
  unfold ror32. rewrite (Z.mod_small (_ + _)); [reflexivity|]. rewrite E. nia.
Qed.

Lemma rotate_left_ror32 v n : 0 <= n < 32 -> 0 <= v < 2 ^ 32 ->
  rotate_left v n = Ok (ror32 v (32 - n)).
Proof.
  intros Hn Hv. unfold rotate_left. guards_ok. rewrite rotate_right_ror32 by lia. reflexivity.
Qed.

(* rotating right by (32-c) and then by c is the identity *)
Lemma ror32_inv v c : 0 <= c <= 32 -> 0 <= v < 2 ^ 32 -> ror32 (ror32 v (32 - c)) c = v.
Proof.
  intros Hc Hv.
  assert (P : 0 < 2 ^ c) by (apply Z.pow_pos_nonneg; lia).
  assert (Q : 0 < 2 ^ (32 - c)) by (apply Z.pow_pos_nonneg; lia).
  pose proof (pow_split c Hc) as E.
  set (a := v / 2 ^ (32 - c)). set (b := v mod 2 ^ (32 - c)).
  assert (D : v = 2 ^ (32 - c) * a + b) by (apply Z.div_mod; lia).
  assert (B : 0 <= b < 2 ^ (32 - c)) by (apply Z.mod_pos_bound; lia).
  assert (A : 0 <= a < 2 ^ c).
  { split; [apply Z.div_pos; lia|]. apply Z.div_lt_upper_bound; [lia|]. rewrite Z.mul_comm, <- E. lia. }
  assert (W : ror32 v (32 - c) = a + b * 2 ^ c).
  { unfold ror32. replace (32 - (32 - c)) with c by lia. fold a b.
    apply Z.mod_small. rewrite E. nia. }
  rewrite W. unfold ror32.
  assert (D1 : (a + b * 2 ^ c) / 2 ^ c = b).
  { rewrite Z.div_add by lia. rewrite Z.div_small by lia. lia. }
  assert (D2 : (a + b * 2 ^ c) mod 2 ^ c = a).
  { rewrite Z.mod_add by lia. apply Z.mod_small; lia. }
  rewrite D1, D2. rewrite (Z.mod_small (_ + _)); [lia|]. rewrite E. nia.
Qed.

Lemma land_hi_zero v2 : 0 <= v2 < 2 ^ 32 -> (Z.land v2 4294967040 =? 0) = (v2 <? 256).
Proof.
  intros Hv.
  assert (L : Z.land v2 4294967040 = v2 / 2 ^ 8 * 2 ^ 8).
  { apply Z.bits_inj'. intros i Hi. rewrite Z.land_spec.
    change 4294967040 with ((2 ^ 24 - 1) * 2 ^ 8).
    rewrite !Z.mul_pow2_bits by lia. rewrite testbit_ones_full by lia.
    destruct (Z.lt_ge_cases i 8).
    - rewrite (Z.testbit_neg_r _ (i - 8)) by lia. replace (0 <=? i - 8) with false by lia. apply andb_false_r.
    - rewrite Z.div_pow2_bits by lia. replace (i - 8 + 8) with i by lia.
      destruct (Z.lt_ge_cases i 32).
      + replace ((0 <=? i - 8) && (i - 8 <? 24)) with true by lia. apply andb_true_r.
      + rewrite (testbit_small v2 32 i) by lia. reflexivity. }
  rewrite L. change (2 ^ 8) with 256. lia.
Qed.

Lemma imm_pack i v2 : 0 <= i -> 0 <= v2 < 256 ->
  Z.lor (Z.shiftl i 8) (Z.land v2 255) = i * 256 + v2.
Proof.
  intros Hi Hv. change 255 with (2 ^ 8 - 1). rewrite land_ones_mod by lia.
  rewrite Z.lor_comm, lor_disjoint_add by (change (2 ^ 8) with 256; lia).
  change (2 ^ 8) with 256. rewrite Z.mod_small by lia. lia.
Qed.

(* pure description of the search loop *)
Definition imm_hit (v i : Z) : bool := ror32 v (32 - i * 2) <? 256.

Lemma encode_loop_spec v : 0 <= v < 2 ^ 32 -> forall n a,
  0 <= a -> a + Z.of_nat n <= 16 ->
  (exists i, a <= i < a + Z.of_nat n /\ imm_hit v i = true /\
             (forall j, a <= j < i -> imm_hit v j = false) /\
             encode_imm32_loop1 v (seqZ_from a n) = Ok (Ret (i * 256 + ror32 v (32 - i * 2)))) \/
  ((forall j, a <= j < a + Z.of_nat n -> imm_hit v j = false) /\
   encode_imm32_loop1 v (seqZ_from a n) = Ok (Next tt)).
Proof.
  intros Hv. induction n as [|n IH]; intros a Ha Hn.
  - right. split; [intros; lia|reflexivity].
  - cbn [seqZ_from encode_imm32_loop1].
    rewrite rotate_left_ror32 by lia. cbn [bind].
    pose proof (ror32_range v (32 - a * 2) ltac:(lia) Hv) as R.
    rewrite land_hi_zero by exact R.
    destruct (ror32 v (32 - a * 2) <? 256) eqn:Hit.
    + left. exists a. split; [lia|]. split; [exact Hit|]. split; [intros; lia|].
      rewrite imm_pack by lia. reflexivity.
    + destruct (IH (a + 1) ltac:(lia) ltac:(lia)) as [[i [Hi [H1 [H2 H3]]]]|[H1 H2]].
      * left. exists i. split; [lia|]. split; [exact H1|]. split; [|exact H3].
        intros j Hj. destruct (Z.eq_dec j a) as [->|]; [exact Hit|apply H2; lia].
      * right. split; [|exact H2].
        intros j Hj. destruct (Z.eq_dec j a) as [->|]; [exact Hit|apply H1; lia].
Qed.

Lemma hit_of_representable v rot imm8 : 0 <= rot < 16 -> 0 <= imm8 < 256 ->
  ror32 imm8 (2 * rot) = v -> imm_hit v rot = true.
Proof.
  intros Hr Hi E. unfold imm_hit. subst v.
  replace (2 * rot) with (32 - (32 - rot * 2)) by lia.
  rewrite ror32_inv by lia. lia.
Qed.

Lemma representable_of_hit v i : 0 <= v < 2 ^ 32 -> 0 <= i < 16 -> imm_hit v i = true ->
  arm_imm_decode (i * 256 + ror32 v (32 - i * 2)) = v /\
  0 <= i * 256 + ror32 v (32 - i * 2) < 4096.
Proof.
  intros Hv Hi H. unfold imm_hit in H.
  pose proof (ror32_range v (32 - i * 2) ltac:(lia) Hv) as R.
  set (w := ror32 v (32 - i * 2)) in *.
  split; [|lia]. unfold arm_imm_decode.
  replace ((i * 256 + w) mod 256) with w by lia.
  replace ((i * 256 + w) / 256) with i by lia.
  subst w. replace (2 * i) with (i * 2) by lia. apply ror32_inv; lia.
Qed.

Lemma encode_imm32_cases v : 0 <= v < 2 ^ 32 ->
  (exists i, 0 <= i < 16 /\ imm_hit v i = true /\ (forall j, 0 <= j < i -> imm_hit v j = false) /\
             encode_imm32 v = Ok (i * 256 + ror32 v (32 - i * 2))) \/
  ((forall j, 0 <= j < 16 -> imm_hit v j = false) /\ encode_imm32 v = Diag 1).
Proof.
  intros Hv. unfold encode_imm32. unfold rangeZ. change (Z.to_nat (16 - 0)) with 16%nat.
  destruct (encode_loop_spec v Hv 16 0 ltac:(lia) ltac:(lia)) as [[i [Hi [H1 [H2 H3]]]]|[H1 H2]].
  - left. exists i. rewrite H3. cbn [bind]. repeat split; try lia; auto.
  - right. rewrite H2. cbn [bind]. split; [|reflexivity]. intros j Hj. apply H1. lia.
Qed.

Lemma encode_imm32_ok v x : 0 <= v < 2 ^ 32 -> encode_imm32 v = Ok x ->
  0 <= x < 4096 /\ arm_imm_decode x = v.
Proof.
  intros Hv E. destruct (encode_imm32_cases v Hv) as [[i [Hi [H1 [H2 H3]]]]|[H1 H2]]; [|congruence].
  assert (Hx : x = i * 256 + ror32 v (32 - i * 2)) by congruence. subst x. clear E.
  destruct (representable_of_hit v i Hv Hi H1). split; assumption.
Qed.

Lemma encode_imm32_diag v : 0 <= v < 2 ^ 32 ->
  ((exists c, encode_imm32 v = Diag c) <-> ~ arm_imm_representable v).
Proof.
  intros Hv. destruct (encode_imm32_cases v Hv) as [[i [Hi [H1 [H2 H3]]]]|[H1 H2]].
  - split.
    + intros [c E]. congruence.
    + intros N. exfalso. apply N. exists i, (ror32 v (32 - i * 2)).
      unfold imm_hit in H1. pose proof (ror32_range v (32 - i * 2) ltac:(lia) Hv).
      split; [lia|]. split; [lia|]. replace (2 * i) with (i * 2) by lia. apply ror32_inv; lia.
  - split.
    + intros _ [rot [imm8 [Hr [Hi E]]]].
      specialize (H1 rot Hr). rewrite (hit_of_representable v rot imm8 Hr Hi E) in H1. discriminate.
    + intros _. eauto.
Qed.

Lemma encode_imm32_total v : 0 <= v < 2 ^ 32 ->
  (exists x, encode_imm32 v = Ok x) \/ encode_imm32 v = Diag 1.
Proof.
  intros Hv. destruct (encode_imm32_cases v Hv) as [[i [Hi [H1 [H2 H3]]]]|[H1 H2]]; eauto.
Qed.

(* the loop returns the smallest rotation that works *)
Lemma encode_imm32_smallest v x rot imm8 : 0 <= v < 2 ^ 32 -> encode_imm32 v = Ok x ->
  0 <= rot < 16 -> 0 <= imm8 < 256 -> ror32 imm8 (2 * rot) = v -> x / 256 <= rot.
Proof.
  intros Hv E Hr Hi R. destruct (encode_imm32_cases v Hv) as [[i [Hi' [H1 [H2 H3]]]]|[H1 H2]]; [|congruence].
  assert (Hx : x = i * 256 + ror32 v (32 - i * 2)) by congruence. subst x. clear E.
  unfold imm_hit in H1. pose proof (ror32_range v (32 - i * 2) ltac:(lia) Hv).
  replace ((i * 256 + ror32 v (32 - i * 2)) / 256) with i by lia.
  destruct (Z.le_gt_cases i rot); [assumption|].
  specialize (H2 rot ltac:(lia)). rewrite (hit_of_representable v rot imm8 Hr Hi R) in H2. discriminate.
Qed.

(* ---------------------------------------------------------------- value_to_bytes_big_endian *)
Definition be_byte (value x : Z) : Z := Z.land (Z.shiftr value (x * 8)) 255.

Lemma be_byte_eq value x : 0 <= x -> be_byte value x = (value / 256 ^ x) mod 256.
Proof.
  intros Hx. unfold be_byte. change 255 with (2 ^ 8 - 1). rewrite land_ones_mod, shiftr_div by lia.
  replace (x * 8) with (8 * x) by lia. rewrite Z.pow_mul_r by lia. reflexivity.
Qed.

Lemma be_list_spec value n :
  let l := map (be_byte value) (rev (rangeZ 0 (Z.of_nat n))) in
  length l = n /\ Forall (fun d => 0 <= d < 256) l /\ be_value l = value mod 256 ^ (Z.of_nat n).
Proof.
  induction n as [|n IH]; cbn zeta.
  - cbn. repeat split; [constructor|]. now rewrite Z.mod_1_r.
  - replace (Z.of_nat (S n)) with (Z.of_nat n + 1) by lia.
    rewrite rangeZ_snoc by lia. rewrite rev_app_distr. cbn [rev app map].
    destruct IH as [L [F V]]. split; [cbn [length]; now rewrite L|].
    split.
    + constructor; [|exact F]. rewrite be_byte_eq by lia. apply Z.mod_pos_bound. lia.
    + cbn [be_value]. rewrite L, V, be_byte_eq by lia.
      rewrite Z.pow_add_r by lia. change (256 ^ 1) with 256.
      assert (P : 0 < 256 ^ Z.of_nat n) by (apply Z.pow_pos_nonneg; lia).
      rewrite Z.rem_mul_r by lia. lia.
Qed.

Lemma value_to_bytes_big_endian_correct value size : 0 <= size ->
  exists l, value_to_bytes_big_endian value size = Ok l /\ is_big_endian size value l.
Proof.
  intros Hs. unfold value_to_bytes_big_endian.
  destruct (be_list_spec value (Z.to_nat size)) as [L [F V]].
  rewrite Z2Nat.id in * by lia.
  fold (be_byte value) in *. 
  change (fun x => Z.land (Z.shiftr value (x * 8)) 255) with (be_byte value).
  assert (G1 : forallb (fun x => 0 <=? x * 8) (rev (rangeZ 0 size)) = true).
  { apply forallb_forall. intros x Hx. apply in_rev in Hx. apply rangeZ_In in Hx. lia. }
  rewrite G1, guard_true.
  assert (G2 : all_byte (map (be_byte value) (rev (rangeZ 0 size))) = true).
  { unfold all_byte. apply forallb_forall. intros d Hd.
    rewrite Forall_forall in F. specialize (F d Hd). unfold is_byte. lia. }
  rewrite G2, guard_true. eexists. split; [reflexivity|].
  split; [lia|]. split; assumption.
Qed.

(* ---------------------------------------------------------------- wasm runtime wrappers *)
Lemma unsigned_range n v : 0 <= n -> 0 <= unsigned_of n v < 2 ^ n.
Proof. intros H. unfold unsigned_of. apply Z.mod_pos_bound. apply Z.pow_pos_nonneg; lia. Qed.

Lemma testbit_unsigned n v i : 0 <= i < n -> Z.testbit (unsigned_of n v) i = Z.testbit v i.
Proof. intros H. unfold unsigned_of. apply Z.mod_pow2_bits_low. lia. Qed.

Lemma wrap_rotl n v cnt : 0 < n ->
  exists u, is_rotl n (unsigned_of n v) (cnt mod n) u /\
    (r1_ <- to_unsigned v n ;; r2_ <- rotl r1_ cnt n ;; r3_ <- to_signed r2_ n ;; Ok r3_)
    = Ok (signed_of n u).
Proof.
  intros Hn. rewrite to_unsigned_correct by lia. cbn [bind].
  destruct (rotl_correct (unsigned_of n v) cnt n Hn (unsigned_range n v ltac:(lia))) as [u [E R]].
  exists u. split; [exact R|]. rewrite E. cbn [bind]. rewrite to_signed_correct by lia. reflexivity.
Qed.

Lemma wrap_rotr n v cnt : 0 < n ->
  exists u, is_rotr n (unsigned_of n v) (cnt mod n) u /\
    (r1_ <- to_unsigned v n ;; r2_ <- rotr r1_ cnt n ;; r3_ <- to_signed r2_ n ;; Ok r3_)
    = Ok (signed_of n u).
Proof.
  intros Hn. rewrite to_unsigned_correct by lia. cbn [bind].
  destruct (rotr_correct (unsigned_of n v) cnt n Hn (unsigned_range n v ltac:(lia))) as [u [E R]].
  exists u. split; [exact R|]. rewrite E. cbn [bind]. rewrite to_signed_correct by lia. reflexivity.
Qed.

Lemma i32_rotl_correct v cnt :
  exists u, is_rotl 32 (unsigned_of 32 v) (cnt mod 32) u /\ i32_rotl v cnt = Ok (signed_of 32 u).
Proof. exact (wrap_rotl 32 v cnt ltac:(lia)). Qed.
Lemma i64_rotl_correct v cnt :
  exists u, is_rotl 64 (unsigned_of 64 v) (cnt mod 64) u /\ i64_rotl v cnt = Ok (signed_of 64 u).
Proof. exact (wrap_rotl 64 v cnt ltac:(lia)). Qed.
Lemma i32_rotr_correct v cnt :
  exists u, is_rotr 32 (unsigned_of 32 v) (cnt mod 32) u /\ i32_rotr v cnt = Ok (signed_of 32 u).
Proof. exact (wrap_rotr 32 v cnt ltac:(lia)). Qed.
Lemma i64_rotr_correct v cnt :
  exists u, is_rotr 64 (unsigned_of 64 v) (cnt mod 64) u /\ i64_rotr v cnt = Ok (signed_of 64 u).
Proof. exact (wrap_rotr 64 v cnt ltac:(lia)). Qed.

Lemma is_clz_unsigned n v r : is_clz n v r -> is_clz n (unsigned_of n v) r.
Proof.
  intros [H1 [H2 H3]]. split; [exact H1|]. split.
  - intros i Hi. rewrite testbit_unsigned by lia. apply H2; lia.
  - intros Hr. rewrite testbit_unsigned by lia. apply H3; lia.
Qed.
Lemma is_ctz_unsigned n v r : is_ctz n v r -> is_ctz n (unsigned_of n v) r.
Proof.
  intros [H1 [H2 H3]]. split; [exact H1|]. split.
  - intros i Hi. rewrite testbit_unsigned by lia. apply H2; lia.
  - intros Hr. rewrite testbit_unsigned by lia. apply H3; lia.
Qed.

Lemma i32_clz_correct fuel v : (32 < fuel)%nat ->
  exists r, i32_clz fuel v = Ok r /\ is_clz 32 (unsigned_of 32 v) r.
Proof.
  intros Hf. unfold i32_clz. destruct (clz_correct fuel v 32 ltac:(lia) ltac:(lia)) as [r [E S]].
  rewrite E. cbn [bind]. exists r. split; [reflexivity|now apply is_clz_unsigned].
Qed.
Lemma i64_clz_correct fuel v : (64 < fuel)%nat ->
  exists r, i64_clz fuel v = Ok r /\ is_clz 64 (unsigned_of 64 v) r.
Proof.
  intros Hf. unfold i64_clz. destruct (clz_correct fuel v 64 ltac:(lia) ltac:(lia)) as [r [E S]].
  rewrite E. cbn [bind]. exists r. split; [reflexivity|now apply is_clz_unsigned].
Qed.
Lemma i32_ctz_correct fuel v : (32 < fuel)%nat ->
  exists r, i32_ctz fuel v = Ok r /\ is_ctz 32 (unsigned_of 32 v) r.
Proof.
  intros Hf. unfold i32_ctz. destruct (ctz_correct fuel v 32 ltac:(lia) ltac:(lia)) as [r [E S]].
  rewrite E. cbn [bind]. exists r. split; [reflexivity|now apply is_ctz_unsigned].
Qed.
Lemma i64_ctz_correct fuel v : (64 < fuel)%nat ->
  exists r, i64_ctz fuel v = Ok r /\ is_ctz 64 (unsigned_of 64 v) r.
Proof.
  intros Hf. unfold i64_ctz. destruct (ctz_correct fuel v 64 ltac:(lia) ltac:(lia)) as [r [E S]].
  rewrite E. cbn [bind]. exists r. split; [reflexivity|now apply is_ctz_unsigned].
Qed.

Lemma popcount_nat_unsigned n v k : (Z.of_nat k <= n) ->
  popcount_nat (unsigned_of n v) k = popcount_nat v k.
Proof.
  induction k as [|k IH]; intros Hk; cbn [popcount_nat]; [reflexivity|].
  rewrite IH by lia. rewrite testbit_unsigned by lia. reflexivity.
Qed.
Lemma popcount_unsigned n v : 0 <= n -> popcount n (unsigned_of n v) = popcount n v.
Proof. intros Hn. unfold popcount. apply popcount_nat_unsigned. lia. Qed.

Lemma i32_popcnt_correct v : i32_popcnt v = Ok (popcount 32 (unsigned_of 32 v)).
Proof. unfold i32_popcnt. rewrite popcnt_correct by lia. cbn [bind]. now rewrite popcount_unsigned by lia. Qed.
Lemma i64_popcnt_correct v : i64_popcnt v = Ok (popcount 64 (unsigned_of 64 v)).
Proof. unfold i64_popcnt. rewrite popcnt_correct by lia. cbn [bind]. now rewrite popcount_unsigned by lia. Qed.

Lemma extend_correct x :
  i32_extend8_s x = Ok (signed_of 8 x) /\ i32_extend16_s x = Ok (signed_of 16 x) /\
  i64_extend8_s x = Ok (signed_of 8 x) /\ i64_extend16_s x = Ok (signed_of 16 x) /\
  i64_extend32_s x = Ok (signed_of 32 x).
Proof.
  unfold i32_extend8_s, i32_extend16_s, i64_extend8_s, i64_extend16_s, i64_extend32_s.
  rewrite !sign_extend_correct by lia. cbn [bind]. repeat split.
Qed.
