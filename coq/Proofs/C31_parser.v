(* Proofs/C31_parser.v — the regex parser against the reference grammar of Spec/RegLangSpec.v:
   refutation of the parser as found ("ab|cd" is read as a(b|c)d), and, for the repaired parser,
   the abstract syntax a concrete syntax tree must produce ([build_*], the smart constructors
   applied in grammar order) with the proof that it denotes the tree's language. *)
From PV Require Import Lib.Py Lib.Tac Spec.RegLangSpec Model.Regex Proofs.C31_sets Proofs.C31_regex.
Open Scope Z_scope.

Definition lit (c : Z) : elem := Elem (ALit c) MNone.
(* ab|cd *)
Definition witness_alt : alt :=
  AltCons (SCons (lit 97) (SCons (lit 98) SNil)) (AltOne (SCons (lit 99) (SCons (lit 100) SNil))).

Definition witness_orig : re := Cat (Cat (Sym [(97, 97)]) (Sym [(98, 99)])) (Sym [(100, 100)]).
Definition witness_fixed : re :=
  Or (Cat (Sym [(97, 97)]) (Sym [(98, 98)])) (Cat (Sym [(99, 99)]) (Sym [(100, 100)])).

Lemma parser_orig_refuted :
  exists (a : alt) (w : list Z) (r : re),
    wf_alt a /\ orig_parse 100 (unparse_alt a) = Ok r /\ L_alt a w /\ ~ L r w.
Proof.
  exists witness_alt, [97; 98], witness_orig.
  split; [|split; [|split]].
  - cbv [witness_alt lit wf_alt wf_seq wf_elem wf_atom].
    repeat split; unfold plain_lit, ch_lpar, ch_rpar, ch_lbrack, ch_dot, ch_bar, ch_bslash, ch_star,
      ch_plus, ch_qmark; lia.
  - vm_compute. reflexivity.
  - cbv [witness_alt lit L_alt L_seq L_elem L_atom]. left.
    exists [97], [98]. split; [reflexivity|]. split; [reflexivity|].
    exists [98], []. split; [reflexivity|]. split; reflexivity.
  - intros H. apply matches_spec in H. vm_compute in H. discriminate.
Qed.

(* the repaired parser gives the grammar's reading of the witness *)
Lemma parser_fixed_witness :
  parse 100 (unparse_alt witness_alt) = Ok witness_fixed /\
  matches witness_fixed [97; 98] = true /\ matches witness_fixed [99; 100] = true /\
  matches witness_fixed [97; 98; 100] = false.
Proof. vm_compute. repeat split. Qed.

(* ---- the abstract syntax the repaired parser must return for a concrete syntax tree: the smart
        constructors applied in the order of the grammar (sequences and alternatives fold to the
        left, as the parser's loops do) *)
Definition item_range (i : item) : Z * Z :=
  match i with ISingle c => (c, c) | IRange c d => (c, d) end.

Fixpoint build_atom (a : atom) : re :=
  match a with
  | ALit c => Symbol c
  | AEsc c => Symbol c
  | ADot => SIGMA
  | AClass items => Sym (mk_iset (map item_range items))
  | AGroup a => build_alt a
  end
with build_elem (e : elem) : re :=
  match e with
  | Elem a m =>
      match m with
      | MNone => build_atom a
      | MStar => Star (build_atom a)
      | MPlus => concatenate (build_atom a) (Star (build_atom a))
      | MOpt => logical_or (build_atom a) Eps
      end
  end
with build_seq (acc : re) (s : seq) : re :=
  match s with
  | SNil => acc
  | SCons e s' => build_seq (concatenate acc (build_elem e)) s'
  end
with build_alt (a : alt) : re :=
  match a with
  | AltOne s => build_seq Eps s
  | AltCons s a' => build_alt_from (build_seq Eps s) a'
  end
with build_alt_from (acc : re) (a : alt) : re :=
  match a with
  | AltOne s => logical_or acc (build_seq Eps s)
  | AltCons s a' => build_alt_from (logical_or acc (build_seq Eps s)) a'
  end.

Scheme atom_mind := Induction for atom Sort Prop
  with elem_mind := Induction for elem Sort Prop
  with seq_mind := Induction for seq Sort Prop
  with alt_mind := Induction for alt Sort Prop.
Combined Scheme cst_mutind from atom_mind, elem_mind, seq_mind, alt_mind.

Lemma L_Symbol c w : L (Symbol c) w <-> w = [c].
Proof.
  unfold Symbol. cbn [L]. split.
  - intros (x & -> & H). apply mk_iset_spec, in_ranges_cons in H.
    destruct H as [H|H]; [|now apply in_ranges_nil in H]. unfold inr in H. cbn in H.
    f_equal. lia.
  - intros ->. exists c. split; auto. apply mk_iset_spec, in_ranges_cons. left. unfold inr. cbn. lia.
Qed.

Lemma L_class items w :
  L (Sym (mk_iset (map item_range items))) w <-> exists c, w = [c] /\ Exists (in_item c) items.
Proof.
  cbn [L]. split; intros (c & -> & H); exists c; split; auto.
  - rewrite mk_iset_spec, in_ranges_alt in H. destruct H as (r & Hr & Hc).
    apply in_map_iff in Hr. destruct Hr as (i & <- & Hi). apply Exists_exists. exists i. split; auto.
    destruct i; unfold inr in Hc; cbn in *; lia.
  - apply Exists_exists in H. destruct H as (i & Hi & Hc). rewrite mk_iset_spec, in_ranges_alt.
    exists (item_range i). split; [now apply in_map|]. destruct i; unfold inr; cbn in *; lia.
Qed.

Lemma star_ext (P Q : list Z -> Prop) : (forall w, P w <-> Q w) -> forall w, star P w <-> star Q w.
Proof.
  intros H w. split; induction 1; constructor; auto; now apply H.
Qed.

Lemma build_meaning :
  (forall a w, L (build_atom a) w <-> L_atom a w) /\
  (forall e w, L (build_elem e) w <-> L_elem e w) /\
  (forall s acc w, L (build_seq acc s) w <-> exists u v, w = u ++ v /\ L acc u /\ L_seq s v) /\
  (forall a, (forall w, L (build_alt a) w <-> L_alt a w) /\
             (forall acc w, L (build_alt_from acc a) w <-> L acc w \/ L_alt a w)).
Proof.
  apply cst_mutind.
  - intros c w. apply L_Symbol.
  - intros c w. apply L_Symbol.
  - intros w. cbn [build_atom L_atom]. unfold SIGMA. cbn [L]. split; intros (c & -> & H); exists c; split; auto;
      now apply sigma_spec.
  - intros items w. apply L_class.
  - intros a [IH _] w. apply IH.
  - intros a IH m w. destruct m; cbn [build_elem L_elem].
    + apply IH.
    + cbn [L]. apply star_ext. exact IH.
    + rewrite concatenate_L. cbn [L]. split; intros (u & v & -> & Hu & Hv); exists u, v.
      * split; [reflexivity|]. split; [now apply IH|]. revert Hv. apply star_ext. intros x. first [apply IH | symmetry; apply IH].
      * split; [reflexivity|]. split; [now apply IH|]. revert Hv. apply star_ext. intros x. first [apply IH | symmetry; apply IH].
    + rewrite logical_or_L. cbn [L]. now rewrite IH.
  - intros acc w. cbn [build_seq L_seq]. split.
    + intros H. exists w, []. rewrite app_nil_r. auto.
    + intros (u & v & -> & Hu & ->). now rewrite app_nil_r.
  - intros e IHe s IHs acc w. cbn [build_seq L_seq]. rewrite IHs. split.
    + intros (u & v & -> & Hu & Hv). apply concatenate_L in Hu. cbn [L] in Hu.
      destruct Hu as (u1 & u2 & -> & H1 & H2). exists u1, (u2 ++ v). rewrite app_assoc.
      split; [reflexivity|]. split; [assumption|]. exists u2, v. split; [reflexivity|]. split; [now apply IHe|assumption].
    + intros (u & v & -> & Hu & (v1 & v2 & -> & H1 & H2)). exists (u ++ v1), v2. rewrite app_assoc.
      split; [reflexivity|]. split; [|assumption]. apply concatenate_L. cbn [L]. exists u, v1.
      split; [reflexivity|]. split; [assumption|now apply IHe].
  - intros s IHs. assert (Hs : forall w, L (build_seq Eps s) w <-> L_seq s w).
    { intros w. rewrite IHs. cbn [L]. split.
      - intros (u & v & -> & -> & H). exact H.
      - intros H. exists [], w. auto. }
    split.
    + intros w. cbn [build_alt L_alt]. apply Hs.
    + intros acc w. cbn [build_alt_from L_alt]. now rewrite logical_or_L, Hs.
  - intros s IHs a [IHa1 IHa2]. assert (Hs : forall w, L (build_seq Eps s) w <-> L_seq s w).
    { intros w. rewrite IHs. cbn [L]. split.
      - intros (u & v & -> & -> & H). exact H.
      - intros H. exists [], w. auto. }
    split.
    + intros w. cbn [build_alt L_alt]. now rewrite IHa2, Hs.
    + intros acc w. cbn [build_alt_from L_alt]. rewrite IHa2, logical_or_L, Hs. tauto.
Qed.

