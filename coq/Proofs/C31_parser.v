(* Proofs/C31_parser.v — the regex parser against the reference grammar of Spec/RegLangSpec.v:
   refutation of the parser as found ("ab|cd" is read as a(b|c)d), and, for the repaired parser,
   the abstract syntax a concrete syntax tree must produce ([build_*], the smart constructors
   applied in grammar order) with the proof that it denotes the tree's language. *)
From PV Require Import Lib.Py Lib.Tac Spec.RegLangSpec Model.Regex Proofs.C31_sets Proofs.C31_regex.
Open Scope Z_scope.

Definition lit (c : Z) : elem := Elem (ALit c) MNone.
(* ab|cd *)
Definition witness_alt : alt :=
  AltCons (SCons (lit 97) (SCons (lit 98) SNil)) (AltOne (SCons (lit 99) (SCons (lit 100) SNil))).

Definition witness_orig : re := Cat (Cat (Sym [(97, 97)]) (Sym [(98, 99)])) (Sym [(100, 100)]).
Definition witness_fixed : re :=
  Or (Cat (Sym [(97, 97)]) (Sym [(98, 98)])) (Cat (Sym [(99, 99)]) (Sym [(100, 100)])).

Lemma parser_orig_refuted :
  exists (a : alt) (w : list Z) (r : re),
    wf_alt a /\ orig_parse 100 (unparse_alt a) = Ok r /\ L_alt a w /\ ~ L r w.
Proof.
  exists witness_alt, [97; 98], witness_orig.
  split; [|split; [|split]].
  - cbv [witness_alt lit wf_alt wf_seq wf_elem wf_atom].
    repeat split; unfold plain_lit, ch_lpar, ch_rpar, ch_lbrack, ch_dot, ch_bar, ch_bslash, ch_star,
      ch_plus, ch_qmark; lia.
  - vm_compute. reflexivity.
  - cbv [witness_alt lit L_alt L_seq L_elem L_atom]. left.
    exists [97], [98]. split; [reflexivity|]. split; [reflexivity|].
    exists [98], []. split; [reflexivity|]. split; reflexivity.
  - intros H. apply matches_spec in H. vm_compute in H. discriminate.
Qed.

(* the repaired parser gives the grammar's reading of the witness *)
Lemma parser_fixed_witness :
  parse 100 (unparse_alt witness_alt) = Ok witness_fixed /\
  matches witness_fixed [97; 98] = true /\ matches witness_fixed [99; 100] = true /\
  matches witness_fixed [97; 98; 100] = false.
Proof. vm_compute. repeat split. Qed.
