(* Proofs/C01_expr.v — typing and value preservation of the C integer-expression path of ppci's
   front-end (Model/CGenExpr.v) against Spec/CExprSpec.v.
   Structure: (1) with the C11 typing helpers (svC = promote / uac) [elab] computes the C type and the
   lowered trees compute the C value and final store (value_C, structural induction);
   (2) a variant [sv] of the helpers elaborates identically wherever it [agrees] (elab_ext);
   (3) the C11 variant of fixes/C01-common-type.diff agrees everywhere. *)
From PV Require Import Lib.Py Lib.Tac Spec.CIntSpec Spec.CExprSpec Gen.ceval Model.CEval
                       Model.CGenExpr Spec.IRSyntax Spec.IRSem Proofs.C01_base Proofs.C01_arith.
From Coq Require Import String.
Open Scope Z_scope.

Ltac ostep := cbn [obind]; cbv beta iota.

(* unfolding equations of the mutually recursive tree runner *)
Section RunEq.
Variable k : cfg.
Lemma xrun_const t z st : xrun k (XConst t z) st = (v <~ as_int (eval_const k t (CInt z)) ;; ODone (v, st)).
Proof. reflexivity. Qed.
Lemma xrun_load t n st : xrun k (XLoad t n) st = (v <~ load_slot k t st n ;; ODone (v, st)).
Proof. reflexivity. Qed.
Lemma xrun_binop t o a b st : xrun k (XBinop t o a b) st =
  ('(va, s1) <~ xrun k a st ;; '(vb, s2) <~ xrun k b s1 ;; r <~ eval_binop k t o va vb ;; ODone (r, s2)).
Proof. reflexivity. Qed.
Lemma xrun_unop t o a st : xrun k (XUnop t o a) st =
  ('(va, s1) <~ xrun k a st ;; r <~ eval_unop k t o va ;; ODone (r, s1)).
Proof. reflexivity. Qed.
Lemma xrun_cast t a st : xrun k (XCastI t a) st =
  ('(va, s1) <~ xrun k a st ;; r <~ as_int (eval_cast k t (Vint va)) ;; ODone (r, s1)).
Proof. reflexivity. Qed.
Lemma xrun_condint t q st : xrun k (XCondInt t q) st =
  ('(b, s1) <~ crun k q st ;; r <~ as_int (eval_const k t (CInt (if b then 1 else 0))) ;; ODone (r, s1)).
Proof. reflexivity. Qed.
Lemma xrun_phi t q a b st : xrun k (XPhi t q a b) st =
  ('(bv, s1) <~ crun k q st ;; if bv then xrun k a s1 else xrun k b s1).
Proof. reflexivity. Qed.
Lemma xrun_seq a b st : xrun k (XSeq a b) st = ('(_, s1) <~ xrun k a st ;; xrun k b s1).
Proof. reflexivity. Qed.
Lemma xrun_store n a st : xrun k (XStore n a) st = ('(v, s1) <~ xrun k a st ;; ODone (v, upd s1 n v)).
Proof. reflexivity. Qed.
Lemma xrun_rmw t o n rhs st : xrun k (XRmw t o n rhs) st =
  ('(vb, s1) <~ xrun k rhs st ;; va <~ load_slot k t s1 n ;; r <~ eval_binop k t o va vb ;; ODone (r, upd s1 n r)).
Proof. reflexivity. Qed.
Lemma xrun_rmwc tx top o n rhs st : xrun k (XRmwC tx top o n rhs) st =
  ('(vb, s1) <~ xrun k rhs st ;; va <~ load_slot k tx s1 n ;;
   va' <~ (if ty_eqb top tx then ODone va else as_int (eval_cast k top (Vint va))) ;;
   r <~ eval_binop k top o va' vb ;;
   r' <~ (if ty_eqb top tx then ODone r else as_int (eval_cast k tx (Vint r))) ;;
   ODone (r', upd s1 n r')).
Proof. reflexivity. Qed.
Lemma crun_cmp cc a b st : crun k (CCmp cc a b) st =
  ('(va, s1) <~ xrun k a st ;; '(vb, s2) <~ xrun k b s1 ;; ODone (eval_cond cc va vb, s2)).
Proof. reflexivity. Qed.
Lemma crun_nz t a st : crun k (CNonZero t a) st =
  ('(v, s1) <~ xrun k a st ;; z <~ as_int (eval_const k t (CInt 0)) ;; ODone (negb (eval_cond Ceq v z), s1)).
Proof. reflexivity. Qed.
Lemma crun_and a b st : crun k (CAnd a b) st = ('(x, s1) <~ crun k a st ;; if x then crun k b s1 else ODone (false, s1)).
Proof. reflexivity. Qed.
Lemma crun_or a b st : crun k (COr a b) st = ('(x, s1) <~ crun k a st ;; if x then ODone (true, s1) else crun k b s1).
Proof. reflexivity. Qed.
Lemma crun_not a st : crun k (CNot a) st = ('(x, s1) <~ crun k a st ;; ODone (negb x, s1)).
Proof. reflexivity. Qed.
End RunEq.

Section Expr.
Variable k : cfg.
Variable g : cgen.
Local Notation c := (cg_ctx g).
Hypothesis Hwf : wf_ctx c.
Hypothesis Hf : faithful k g.
Local Notation dm := (dm_of (cg_ctx g)).
Variable te : tenv.
Variable fl : bool.                     (* how `x op= e` is elaborated (v_cassign) *)
Local Notation svC := (mk_semv (promote dm) (uac dm) fl).

Local Notation cid := (cid g Hwf).
Local Notation cir := (cir g Hwf).

(* value tree and condition tree of the same typed expression agree *)
Definition Runs (x : texpr) (st : store) (v : Z) (s1 : store) : Prop :=
  xrun k (lower g x) st = ODone (v, s1) /\ crun k (lcond g x) st = ODone (negb (v =? 0), s1).

Lemma zero_in_range t : in_range dm t 0 = true.
Proof. apply (small_in_range c Hwf). pose proof (bits_ge8 c Hwf t) as B.  lia. Qed.

Lemma nz_cond x t st v s1 :
  xrun k x st = ODone (v, s1) -> crun k (CNonZero (irty g t) x) st = ODone (negb (v =? 0), s1).
Proof.
  intros H. rewrite crun_nz, H. ostep. rewrite (const_exact k g Hwf Hf). ostep.
  rewrite (cid t 0 (zero_in_range t)). reflexivity.
Qed.

Lemma b2z_const (b : bool) :
  as_int (eval_const k (irty g TInt) (CInt (if b then 1 else 0))) = ODone (CIntSpec.b2z b).
Proof.
  rewrite (const_exact k g Hwf Hf). f_equal.
  change (if b then 1 else 0) with (CIntSpec.b2z b). apply cid, (bool_in_int c Hwf).
Qed.

Lemma b2z_nz (b : bool) : negb (CIntSpec.b2z b =? 0) = b.
Proof. now destruct b. Qed.

(* ---- casts and coercions ---- *)
Lemma runs_cast x t st v s1 :
  xrun k (lower g x) st = ODone (v, s1) -> Runs (TCast x t) st (convert dm t v) s1.
Proof.
  intros H.
  assert (E : xrun k (lower g (TCast x t)) st = ODone (convert dm t v, s1)).
  { unfold lower. cbn [low fst]. rewrite xrun_cast. fold (lower g x). rewrite H. ostep.
    rewrite (cast_exact k g Hwf Hf). ostep. reflexivity. }
  split; [exact E|]. unfold lcond. cbn [low snd]. apply nz_cond. exact E.
Qed.

Lemma ttyp_coerce x t : ttyp (coerce x t) = t.
Proof. unfold coerce. destruct (ity_eqb (ttyp x) t) eqn:E; [now apply ity_eqb_true|reflexivity]. Qed.

Lemma runs_coerce x t st v s1 :
  Runs x st v s1 -> in_range dm (ttyp x) v = true -> Runs (coerce x t) st (convert dm t v) s1.
Proof.
  intros H R. unfold coerce. destruct (ity_eqb (ttyp x) t) eqn:E.
  - apply ity_eqb_true in E. subst t. now rewrite (cid _ _ R).
  - apply runs_cast. exact (proj1 H).
Qed.

Lemma ppC t : (if mem_ty t promotable_types then promote dm t else t) = promote dm t.
Proof. destruct t; reflexivity. Qed.

Lemma ttyp_promote x : ttyp (promote_m svC x) = promote dm (ttyp x).
Proof.
  unfold promote_m. cbn [v_promote]. rewrite <- (ppC (ttyp x)).
  destruct (mem_ty (ttyp x) promotable_types); [apply ttyp_coerce|reflexivity].
Qed.

Lemma runs_promote x st v s1 :
  Runs x st v s1 -> in_range dm (ttyp x) v = true ->
  Runs (promote_m svC x) st (convert dm (promote dm (ttyp x)) v) s1.
Proof.
  intros H R. unfold promote_m. cbn [v_promote].
  pose proof (ppC (ttyp x)) as P. destruct (mem_ty (ttyp x) promotable_types).
  - now apply runs_coerce.
  - rewrite <- P. now rewrite (cid _ _ R).
Qed.

(* ---- typing with the C11 helpers ---- *)
Lemma ttyp_elabC e : ttyp (elab svC te e) = xtype_of dm te e.
Proof.
  induction e as [t z|n|t a IHa|op a IHa|op a IHa b IHb|x IHx a IHa b IHb|a IHa b IHb|n a IHa|op n a IHa].
  - reflexivity.
  - reflexivity.
  - reflexivity.
  - destruct op; cbn [elab xtype_of ttyp]; rewrite ?ttyp_promote, ?IHa; reflexivity.
  - destruct op; cbn [elab xtype_of ttyp is_int_result is_shift]; try reflexivity;
      rewrite ?ttyp_promote, ?IHa, ?IHb; reflexivity.
  - cbn [elab xtype_of ttyp]. rewrite !ttyp_promote, IHa, IHb. reflexivity.
  - cbn [elab xtype_of ttyp]. exact IHb.
  - reflexivity.
  - reflexivity.
Qed.

(* ---- stores ---- *)
Lemma nth_ok st : store_ok dm te st -> forall n v, nth_error st n = Some v -> in_range dm (tvar te n) v = true.
Proof.
  unfold store_ok, tvar. induction 1 as [|t v0 te' st' H0 HF IH]; intros n v E.
  - destruct n; discriminate.
  - destruct n as [|m]; cbn in *.
    + now injection E as <-.
    + now apply IH.
Qed.

Lemma upd_ok st : store_ok dm te st -> forall n v, in_range dm (tvar te n) v = true -> store_ok dm te (upd st n v).
Proof.
  unfold store_ok, tvar. induction 1 as [|t v0 te' st' H0 HF IH]; intros n v R.
  - destruct n; constructor.
  - destruct n as [|m]; cbn in *.
    + now constructor.
    + constructor; [assumption|]. now apply IH.
Qed.

(* every defined value is in the range of its type, and the store stays well typed *)
Lemma un_val_range t op v r : un_val dm (promote dm t) op v = Some r ->
  in_range dm (match op with ULNot => TInt | _ => promote dm t end) r = true.
Proof.
  destruct op; cbn [un_val]; intros H; try (injection H as <-).
  - eapply (fit_in_range c Hwf); eassumption.
  - apply cir.
  - apply (bool_in_int c Hwf).
  - apply cir.
Qed.

Lemma bin_val_range ta tb op va vb r : bin_val dm ta tb op va vb = Some r ->
  in_range dm (if is_int_result op then TInt else if is_shift op then ta else uac dm ta tb) r = true.
Proof.
  unfold bin_val. destruct (is_shift op) eqn:S; intros H.
  - destruct op; try discriminate; cbn [is_int_result]; eapply (shift_in_range c Hwf); eassumption.
  - pose proof (arith_in_range c Hwf _ _ _ _ _ H) as R. exact R.
Qed.

Lemma xeval_ok e : forall st v st',
  xeval dm te st e = Some (v, st') -> store_ok dm te st ->
  in_range dm (xtype_of dm te e) v = true /\ store_ok dm te st'.
Proof.
  induction e as [t z|n|t a IHa|op a IHa|op a IHa b IHb|x IHx a IHa b IHb|a IHa b IHb|n a IHa|op n a IHa];
    intros st v st' EV SO.
  - cbn in EV. destruct (in_range dm t z) eqn:R; [|discriminate]. injection EV as <- <-. now split.
  - cbn in EV. destruct (nth_error st n) as [w|] eqn:E; [|discriminate]. injection EV as <- <-.
    split; [|assumption]. cbn [xtype_of]. eapply nth_ok; eassumption.
  - cbn [xeval] in EV. destruct (xeval dm te st a) as [[va s1]|] eqn:Ea; [|discriminate].
    injection EV as <- <-. destruct (IHa _ _ _ Ea SO). split; [apply cir|assumption].
  - cbn [xeval] in EV. destruct (xeval dm te st a) as [[va s1]|] eqn:Ea; [|discriminate].
    destruct (un_val dm (promote dm (xtype_of dm te a)) op va) as [r|] eqn:U; [|discriminate].
    injection EV as <- <-. destruct (IHa _ _ _ Ea SO). split; [|assumption].
    pose proof (un_val_range _ _ _ _ U) as R. destruct op; exact R.
  - destruct (xeval dm te st a) as [[va s1]|] eqn:Ea.
    2:{ destruct op; cbn [xeval] in EV; rewrite Ea in EV; discriminate. }
    destruct (IHa _ _ _ Ea SO) as [Ra S1].
    destruct (Bool.bool_dec (match op with BLAnd | BLOr => true | _ => false end) true) as [Hl|Hl].
    + destruct op; try discriminate; cbn [xeval] in EV; rewrite Ea in EV; cbn [xtype_of is_int_result].
      * destruct (va =? 0); [injection EV as <- <-; split; [apply (bool_in_int c Hwf false)|assumption]|].
        destruct (xeval dm te s1 b) as [[vb s2]|] eqn:Eb; [|discriminate]. injection EV as <- <-.
        destruct (IHb _ _ _ Eb S1). split; [apply (bool_in_int c Hwf)|assumption].
      * destruct (va =? 0); [|injection EV as <- <-; split; [apply (bool_in_int c Hwf true)|assumption]].
        destruct (xeval dm te s1 b) as [[vb s2]|] eqn:Eb; [|discriminate]. injection EV as <- <-.
        destruct (IHb _ _ _ Eb S1). split; [apply (bool_in_int c Hwf)|assumption].
    + destruct (xeval dm te s1 b) as [[vb s2]|] eqn:Eb.
      2:{ destruct op; try (exfalso; apply Hl; reflexivity); cbn [xeval] in EV; rewrite Ea, Eb in EV; discriminate. }
      destruct (IHb _ _ _ Eb S1) as [Rb S2].
      assert (EV' : exists r, bin_val dm (promote dm (xtype_of dm te a)) (promote dm (xtype_of dm te b)) op va vb = Some r
                              /\ r = v /\ s2 = st').
      { destruct op; try (exfalso; apply Hl; reflexivity); cbn [xeval] in EV; rewrite Ea, Eb in EV;
          (destruct (bin_val dm (promote dm (xtype_of dm te a)) (promote dm (xtype_of dm te b)) _ va vb) as [r|] eqn:B;
           [|discriminate]); injection EV as <- <-; exists r; auto. }
      destruct EV' as (r & B & <- & <-). split; [|assumption].
      pose proof (bin_val_range _ _ _ _ _ _ B) as R. cbn [xtype_of]. exact R.
  - cbn [xeval] in EV. destruct (xeval dm te st x) as [[vx s1]|] eqn:Ex; [|discriminate].
    destruct (IHx _ _ _ Ex SO) as [Rx S1].
    destruct (xeval dm te s1 (if vx =? 0 then b else a)) as [[w s2]|] eqn:Ew; [|discriminate].
    injection EV as <- <-. split; [apply cir|].
    destruct (vx =? 0); [destruct (IHb _ _ _ Ew S1)|destruct (IHa _ _ _ Ew S1)]; assumption.
  - cbn [xeval] in EV. destruct (xeval dm te st a) as [[va s1]|] eqn:Ea; [|discriminate].
    destruct (IHa _ _ _ Ea SO) as [Ra S1]. cbn [xtype_of]. now apply (IHb _ _ _ EV).
  - cbn [xeval] in EV. destruct (xeval dm te st a) as [[va s1]|] eqn:Ea; [|discriminate].
    destruct (IHa _ _ _ Ea SO) as [Ra S1].
    destruct (nth_error s1 n); [|discriminate]. injection EV as <- <-. cbn [xtype_of].
    split; [apply cir|]. apply upd_ok; [assumption|apply cir].
  - cbn [xeval] in EV. destruct (negb (is_compound_op op)); [discriminate|].
    destruct (xeval dm te st a) as [[vb s1]|] eqn:Ea; [|discriminate].
    destruct (IHa _ _ _ Ea SO) as [Ra S1].
    destruct (nth_error s1 n); [|discriminate].
    destruct (bin_val dm (promote dm (tvar te n)) (promote dm (xtype_of dm te a)) op z vb); [|discriminate].
    injection EV as <- <-. cbn [xtype_of]. split; [apply cir|]. apply upd_ok; [assumption|apply cir].
Qed.

(* ---- operators on typed operands ---- *)
Ltac nz_finish E := split; [exact E|unfold lcond; cbn [low snd ir_binop ir_cond]; apply nz_cond; exact E].

Ltac arith_case OP :=
  match goal with
  | Ha : xrun ?k (fst (low ?g ?a')) ?st = ODone (?va, ?s1), Hb : xrun ?k (fst (low ?g ?b')) ?s1 = ODone (?vb, ?s2),
    Ra : in_range _ ?t ?va = true, Rb : in_range _ ?t ?vb = true, H : arith _ ?t OP ?va ?vb = Some ?r |- _ =>
      assert (E : xrun k (lower g (TBin a' (OBin OP) b' t)) st = ODone (r, s2));
      [ unfold lower; cbn [low fst ir_binop ir_cond]; rewrite xrun_binop, Ha; ostep; rewrite Hb; ostep;
        rewrite (binop_arith_exact k g Hwf Hf t OP _ va vb r eq_refl eq_refl Ra Rb H); ostep; reflexivity
      | nz_finish E ]
  end.
Ltac cmp_case OP CC :=
  match goal with
  | Ha : xrun ?k (fst (low ?g ?a')) ?st = ODone (?va, ?s1), Hb : xrun ?k (fst (low ?g ?b')) ?s1 = ODone (?vb, ?s2),
    H : arith _ ?t OP ?va ?vb = Some ?r |- _ =>
      pose proof (compare_exact g t OP CC va vb r eq_refl H) as Er;
      assert (C : crun k (lcond g (TBin a' (OBin OP) b' TInt)) st = ODone (eval_cond CC va vb, s2));
      [ unfold lcond; cbn [low snd ir_binop ir_cond]; rewrite crun_cmp, Ha; ostep; rewrite Hb; ostep; reflexivity
      | split;
        [ unfold lower; cbn [low fst ir_binop ir_cond]; unfold lcond in C; cbn [low snd ir_binop ir_cond] in C;
          rewrite xrun_condint, C; ostep; rewrite b2z_const; ostep; now rewrite Er
        | rewrite C, Er, b2z_nz; reflexivity ] ]
  end.

Lemma runs_arith op a' b' t st va s1 vb s2 r :
  xrun k (lower g a') st = ODone (va, s1) -> xrun k (lower g b') s1 = ODone (vb, s2) ->
  in_range dm t va = true -> in_range dm t vb = true ->
  is_shift op = false -> op <> BLAnd -> op <> BLOr ->
  arith dm t op va vb = Some r ->
  Runs (TBin a' (OBin op) b' (if is_int_result op then TInt else t)) st r s2.
Proof.
  intros Ha Hb Ra Rb Hs Hna Hno H. unfold lower in Ha, Hb.
  destruct op; try congruence; try discriminate; cbn [is_int_result].
  - arith_case BAdd. - arith_case BSub. - arith_case BMul. - arith_case BDiv. - arith_case BMod.
  - arith_case BAnd. - arith_case BOr. - arith_case BXor.
  - cmp_case BLt Clt. - cmp_case BGt Cgt. - cmp_case BLe Cle. - cmp_case BGe Cge. - cmp_case BEq Ceq. - cmp_case BNe Cne.
Qed.

Lemma runs_shift op a2 b3 t st pa s1 pb s2 r :
  xrun k (lower g a2) st = ODone (pa, s1) -> xrun k (lower g b3) s1 = ODone (pb, s2) ->
  is_shift op = true -> shift dm t op pa pb = Some r ->
  Runs (TBin a2 (OBin op) b3 t) st r s2.
Proof.
  intros Ha Hb Hs H. unfold lower in Ha, Hb.
  destruct op; try discriminate;
  match goal with |- Runs (TBin _ (OBin ?OP) _ _) _ _ _ =>
    assert (E : xrun k (lower g (TBin a2 (OBin OP) b3 t)) st = ODone (r, s2));
    [ unfold lower; cbn [low fst ir_binop ir_cond]; rewrite xrun_binop, Ha; ostep; rewrite Hb; ostep;
      rewrite (binop_shift_exact k g Hwf Hf t OP _ pa pb r eq_refl eq_refl H); ostep; reflexivity
    | nz_finish E ]
  end.
Qed.

Lemma elab_assignop_new sv op n a : v_cassign sv = true ->
  elab sv te (XAssignOp op n a) =
  TBin (TVar n (tvar te n)) (OAssignOp op)
       (match op with
        | BShl | BShr => coerce (promote_m sv (elab sv te a)) (ptype sv (tvar te n))
        | _ => coerce (promote_m sv (elab sv te a))
                      (v_common sv (ptype sv (tvar te n)) (ttyp (promote_m sv (elab sv te a))))
        end) (tvar te n).
Proof. intros H. cbn [elab]. rewrite H. reflexivity. Qed.
Lemma elab_assignop_old sv op n a : v_cassign sv = false ->
  elab sv te (XAssignOp op n a) =
  TBin (TVar n (tvar te n)) (OAssignOp op) (coerce (elab sv te a) (tvar te n)) (tvar te n).
Proof. intros H. cbn [elab]. rewrite H. reflexivity. Qed.

(* x op= e computed in type T: load x, [cast to T], operate, [cast back], store *)
Lemma irty_eq_convert a b v : irty g a = irty g b -> convert dm a v = convert dm b v.
Proof.
  intros E. pose proof (Hf a) as Fa. pose proof (Hf b) as Fb. rewrite E in Fa. rewrite Fa in Fb.
  injection Fb as Eb Es. unfold convert. now rewrite Eb, Es.
Qed.

Lemma rmwc_finish op tn T rhs o n st s1 va vb' r :
  xrun k (lower g rhs) st = ODone (vb', s1) -> ttyp rhs = T -> nth_error s1 n = Some va ->
  in_range dm tn va = true -> in_range dm T r = true ->
  eval_binop k (irty g T) o (convert dm T va) vb' = ODone r ->
  ir_binop op = Some o ->
  Runs (TBin (TVar n tn) (OAssignOp op) rhs tn) st (convert dm tn r) (upd s1 n (convert dm tn r)).
Proof.
  intros Hr HT En Rva Rr EB Eo. unfold lower in Hr.
  assert (E : xrun k (lower g (TBin (TVar n tn) (OAssignOp op) rhs tn)) st
              = ODone (convert dm tn r, upd s1 n (convert dm tn r))).
  { unfold lower. cbn [low fst]. rewrite Eo. cbn [fst]. rewrite HT, xrun_rmwc, Hr. ostep.
    rewrite (load_exact k g Hwf Hf _ _ _ _ En). ostep. rewrite (cid _ _ Rva).
    destruct (ty_eqb (irty g T) (irty g tn)) eqn:Q.
    - apply ty_eqb_spec in Q. ostep.
      rewrite (irty_eq_convert T tn va Q), (cid _ _ Rva) in EB. rewrite EB. ostep.
      rewrite <- (irty_eq_convert T tn r Q), (cid _ _ Rr). reflexivity.
    - rewrite (cast_exact k g Hwf Hf). ostep. rewrite EB. ostep. rewrite (cast_exact k g Hwf Hf). ostep. reflexivity. }
  split; [exact E|]. unfold lcond. cbn [low snd]. rewrite Eo. cbn [snd]. apply nz_cond.
  unfold lower in E. cbn [low fst] in E. rewrite Eo in E. exact E.
Qed.

(* ---- value preservation with the C11 typing helpers ---- *)
Theorem value_C e : forall st v st',
  store_ok dm te st -> cassign_all dm te fl e = true ->
  xeval dm te st e = Some (v, st') -> Runs (elab svC te e) st v st'.
Proof.
  induction e as [t z|n|t a IHa|op a IHa|op a IHa b IHb|x IHx a IHa b IHb|a IHa b IHb|n a IHa|op n a IHa];
    intros st v st' SO CA EV.
  - (* literal *)
    cbn in EV. destruct (in_range dm t z) eqn:R; [|discriminate]. injection EV as <- <-.
    assert (E : xrun k (lower g (TNum z t)) st = ODone (z, st)).
    { unfold lower. cbn [low fst]. rewrite xrun_const, (const_exact k g Hwf Hf). ostep. now rewrite (cid _ _ R). }
    cbn [elab]. nz_finish E.
  - (* variable *)
    cbn in EV. destruct (nth_error st n) as [w|] eqn:E0; [|discriminate]. injection EV as <- <-.
    assert (E : xrun k (lower g (TVar n (tvar te n))) st = ODone (w, st)).
    { unfold lower. cbn [low fst]. rewrite xrun_load, (load_exact k g Hwf Hf _ _ _ _ E0). ostep.
      now rewrite (cid _ _ (nth_ok st SO n w E0)). }
    cbn [elab]. nz_finish E.
  - (* cast *)
    cbn [xeval] in EV. destruct (xeval dm te st a) as [[va s1]|] eqn:Ea; [|discriminate]. injection EV as <- <-.
    cbn [elab]. apply runs_cast. exact (proj1 (IHa _ _ _ SO CA Ea)).
  - (* unary *)
    cbn [xeval] in EV. destruct (xeval dm te st a) as [[va s1]|] eqn:Ea; [|discriminate].
    destruct (un_val dm (promote dm (xtype_of dm te a)) op va) as [r|] eqn:U; [|discriminate].
    injection EV as <- <-. cbn [cassign_all] in CA.
    pose proof (IHa _ _ _ SO CA Ea) as Ia. destruct (xeval_ok a _ _ _ Ea SO) as [Ra S1].
    pose proof (ttyp_elabC a) as T. rewrite <- T in Ra.
    pose proof (runs_promote _ _ _ _ Ia Ra) as P. pose proof (ttyp_promote (elab svC te a)) as TP.
    rewrite T in P, TP.
    set (pt := promote dm (xtype_of dm te a)) in *.
    destruct op; cbn [un_val] in U.
    + (* - *) cbn [elab]. set (a' := promote_m svC (elab svC te a)) in *. rewrite TP.
      assert (E : xrun k (lower g (TUn UNeg a' pt)) st = ODone (r, s1)).
      { unfold lower. cbn [low fst]. rewrite xrun_unop. destruct P as [P _]. unfold lower in P. rewrite P. ostep.
        rewrite (neg_exact k g Hwf Hf pt _ r U). ostep. reflexivity. }
      nz_finish E.
    + (* ~ *) injection U as <-. cbn [elab]. set (a' := promote_m svC (elab svC te a)) in *. rewrite TP.
      assert (E : xrun k (lower g (TUn UCompl a' pt)) st = ODone (convert dm pt (Z.lnot (convert dm pt va)), s1)).
      { unfold lower. cbn [low fst]. rewrite xrun_unop. destruct P as [P _]. unfold lower in P. rewrite P. ostep.
        rewrite (inv_exact k g Hwf Hf pt _). ostep. reflexivity. }
      nz_finish E.
    + (* ! *) injection U as <-. cbn [elab]. destruct Ia as [_ Ic].
      assert (C : crun k (lcond g (TUn ULNot (elab svC te a) TInt)) st = ODone (va =? 0, s1)).
      { unfold lcond. cbn [low snd]. unfold lcond in Ic. rewrite crun_not, Ic. ostep. now rewrite Bool.negb_involutive. }
      split.
      * unfold lower. cbn [low fst]. unfold lcond in C. cbn [low snd] in C. rewrite xrun_condint, C. ostep.
        rewrite b2z_const. ostep. reflexivity.
      * rewrite C, b2z_nz. reflexivity.
    + (* + *) injection U as <-. cbn [elab]. exact P.
  - (* binary *)
    cbn [cassign_all] in CA. apply andb_prop in CA as [CAa CAb].
    destruct (xeval dm te st a) as [[va s1]|] eqn:Ea.
    2:{ destruct op; cbn [xeval] in EV; rewrite Ea in EV; discriminate. }
    pose proof (IHa _ _ _ SO CAa Ea) as Ia. destruct (xeval_ok a _ _ _ Ea SO) as [Ra S1].
    destruct (Bool.bool_dec (match op with BLAnd | BLOr => true | _ => false end) true) as [Hl|Hl].
    + (* && || *)
      destruct Ia as [_ Ica]. unfold lcond in Ica.
      destruct op; try discriminate; cbn [xeval] in EV; rewrite Ea in EV; cbn [elab].
      * assert (C : forall bb s2, (if va =? 0 then (false, s1) else (bb, s2)) = (bb, s2) \/ True) by (intros; now right).
        clear C.
        destruct (va =? 0) eqn:Z0.
        -- injection EV as <- <-.
           assert (C : crun k (lcond g (TBin (elab svC te a) (OBin BLAnd) (elab svC te b) TInt)) st = ODone (false, s1)).
           { unfold lcond. cbn [low snd]. rewrite crun_and, Ica. cbn [negb]. ostep. reflexivity. }
           split.
           ++ unfold lower. cbn [low fst]. unfold lcond in C. cbn [low snd] in C. rewrite xrun_condint, C. ostep.
              rewrite (b2z_const false). ostep. reflexivity.
           ++ rewrite C. reflexivity.
        -- destruct (xeval dm te s1 b) as [[vb s2]|] eqn:Eb; [|discriminate]. injection EV as <- <-.
           destruct (IHb _ _ _ S1 CAb Eb) as [_ Icb]. unfold lcond in Icb.
           assert (C : crun k (lcond g (TBin (elab svC te a) (OBin BLAnd) (elab svC te b) TInt)) st
                       = ODone (negb (vb =? 0), s2)).
           { unfold lcond. cbn [low snd]. rewrite crun_and, Ica. cbn [negb]. ostep. exact Icb. }
           split.
           ++ unfold lower. cbn [low fst]. unfold lcond in C. cbn [low snd] in C. rewrite xrun_condint, C. ostep.
              rewrite b2z_const. ostep. reflexivity.
           ++ rewrite C, b2z_nz. reflexivity.
      * destruct (va =? 0) eqn:Z0.
        -- destruct (xeval dm te s1 b) as [[vb s2]|] eqn:Eb; [|discriminate]. injection EV as <- <-.
           destruct (IHb _ _ _ S1 CAb Eb) as [_ Icb]. unfold lcond in Icb.
           assert (C : crun k (lcond g (TBin (elab svC te a) (OBin BLOr) (elab svC te b) TInt)) st
                       = ODone (negb (vb =? 0), s2)).
           { unfold lcond. cbn [low snd]. rewrite crun_or, Ica. cbn [negb]. ostep. exact Icb. }
           split.
           ++ unfold lower. cbn [low fst]. unfold lcond in C. cbn [low snd] in C. rewrite xrun_condint, C. ostep.
              rewrite b2z_const. ostep. reflexivity.
           ++ rewrite C, b2z_nz. reflexivity.
        -- injection EV as <- <-.
           assert (C : crun k (lcond g (TBin (elab svC te a) (OBin BLOr) (elab svC te b) TInt)) st = ODone (true, s1)).
           { unfold lcond. cbn [low snd]. rewrite crun_or, Ica. cbn [negb]. ostep. reflexivity. }
           split.
           ++ unfold lower. cbn [low fst]. unfold lcond in C. cbn [low snd] in C. rewrite xrun_condint, C. ostep.
              rewrite (b2z_const true). ostep. reflexivity.
           ++ rewrite C. reflexivity.
    + destruct (xeval dm te s1 b) as [[vb s2]|] eqn:Eb.
      2:{ destruct op; try (exfalso; apply Hl; reflexivity); cbn [xeval] in EV; rewrite Ea, Eb in EV; discriminate. }
      pose proof (IHb _ _ _ S1 CAb Eb) as Ib. destruct (xeval_ok b _ _ _ Eb S1) as [Rb S2].
      assert (EV' : bin_val dm (promote dm (xtype_of dm te a)) (promote dm (xtype_of dm te b)) op va vb = Some v /\ s2 = st').
      { destruct op; try (exfalso; apply Hl; reflexivity); cbn [xeval] in EV; rewrite Ea, Eb in EV;
          (destruct (bin_val dm (promote dm (xtype_of dm te a)) (promote dm (xtype_of dm te b)) _ va vb) as [r|] eqn:B;
           [|discriminate]); injection EV as <- <-; auto. }
      destruct EV' as [B <-].
      pose proof (ttyp_elabC a) as Ta. pose proof (ttyp_elabC b) as Tb. rewrite <- Ta in Ra. rewrite <- Tb in Rb.
      pose proof (runs_promote _ _ _ _ Ia Ra) as Pa. pose proof (runs_promote _ _ _ _ Ib Rb) as Pb.
      pose proof (ttyp_promote (elab svC te a)) as TPa. pose proof (ttyp_promote (elab svC te b)) as TPb.
      rewrite Ta in Pa, TPa. rewrite Tb in Pb, TPb.
      set (pta := promote dm (xtype_of dm te a)) in *. set (ptb := promote dm (xtype_of dm te b)) in *.
      set (a2 := promote_m svC (elab svC te a)) in *. set (b2 := promote_m svC (elab svC te b)) in *.
      unfold bin_val in B.
      destruct (is_shift op) eqn:Hs.
      * (* shifts *)
        assert (G : elab svC te (XBin op a b) = TBin a2 (OBin op) (coerce b2 (ttyp a2)) (ttyp a2))
          by (destruct op; try discriminate; reflexivity).
        rewrite G, TPa.
        assert (Rpb : in_range dm (ttyp b2) (convert dm ptb vb) = true) by (rewrite TPb; apply cir).
        pose proof (runs_coerce b2 pta _ _ _ Pb Rpb) as Pb'.
        assert (N : convert dm pta (convert dm ptb vb) = convert dm ptb vb).
        { apply cid, (small_in_range c Hwf). unfold shift in B.
          destruct ((convert dm ptb vb <? 0) || (bits dm pta <=? convert dm ptb vb)) eqn:Hn; [discriminate|]. lia. }
        rewrite N in Pb'.
        exact (runs_shift op a2 _ pta st _ s1 _ s2 v (proj1 Pa) (proj1 Pb') Hs B).
      * (* arithmetic / bitwise / comparison *)
        set (t := uac dm pta ptb) in *.
        assert (G : elab svC te (XBin op a b) =
                    TBin (coerce a2 t) (OBin op) (coerce b2 t) (if is_int_result op then TInt else t)).
        { unfold t. rewrite <- TPa, <- TPb. destruct op; try discriminate; try (exfalso; apply Hl; reflexivity); reflexivity. }
        rewrite G.
        assert (Rpa : in_range dm (ttyp a2) (convert dm pta va) = true) by (rewrite TPa; apply cir).
        assert (Rpb : in_range dm (ttyp b2) (convert dm ptb vb) = true) by (rewrite TPb; apply cir).
        pose proof (runs_coerce a2 t _ _ _ Pa Rpa) as Pa'. pose proof (runs_coerce b2 t _ _ _ Pb Rpb) as Pb'.
        apply (runs_arith op _ _ t st _ s1 _ s2 v (proj1 Pa') (proj1 Pb') (cir _ _) (cir _ _) Hs);
          [destruct op; congruence|destruct op; congruence|exact B].
  - (* ?: *)
    cbn [cassign_all] in CA. apply andb_prop in CA as [CA CAb]. apply andb_prop in CA as [CAx CAa].
    cbn [xeval] in EV. destruct (xeval dm te st x) as [[vx s1]|] eqn:Ex; [|discriminate].
    destruct (IHx _ _ _ SO CAx Ex) as [_ Icx]. destruct (xeval_ok x _ _ _ Ex SO) as [Rx S1].
    destruct (xeval dm te s1 (if vx =? 0 then b else a)) as [[w s2]|] eqn:Ew; [|discriminate].
    injection EV as <- <-.
    pose proof (ttyp_elabC a) as Ta. pose proof (ttyp_elabC b) as Tb.
    pose proof (ttyp_promote (elab svC te a)) as TPa. pose proof (ttyp_promote (elab svC te b)) as TPb.
    rewrite Ta in TPa. rewrite Tb in TPb.
    cbn [xtype_of elab]. rewrite TPa, TPb.
    set (pta := promote dm (xtype_of dm te a)) in *. set (ptb := promote dm (xtype_of dm te b)) in *.
    set (t := uac dm pta ptb) in *.
    set (a2 := promote_m svC (elab svC te a)) in *. set (b2 := promote_m svC (elab svC te b)) in *.
    assert (W : xrun k (lower g (if vx =? 0 then coerce b2 t else coerce a2 t)) s1 =
                ODone (convert dm t (convert dm (promote dm (xtype_of dm te (if vx =? 0 then b else a))) w), s2)).
    { destruct (vx =? 0).
      - pose proof (IHb _ _ _ S1 CAb Ew) as Ib. destruct (xeval_ok b _ _ _ Ew S1) as [Rb _]. rewrite <- Tb in Rb.
        pose proof (runs_promote _ _ _ _ Ib Rb) as Pb. rewrite Tb in Pb. fold ptb b2 in Pb.
        assert (Rpb : in_range dm (ttyp b2) (convert dm ptb w) = true) by (rewrite TPb; apply cir).
        exact (proj1 (runs_coerce b2 t _ _ _ Pb Rpb)).
      - pose proof (IHa _ _ _ S1 CAa Ew) as Ia. destruct (xeval_ok a _ _ _ Ew S1) as [Ra _]. rewrite <- Ta in Ra.
        pose proof (runs_promote _ _ _ _ Ia Ra) as Pa. rewrite Ta in Pa. fold pta a2 in Pa.
        assert (Rpa : in_range dm (ttyp a2) (convert dm pta w) = true) by (rewrite TPa; apply cir).
        exact (proj1 (runs_coerce a2 t _ _ _ Pa Rpa)). }
    assert (E : xrun k (lower g (TTern (elab svC te x) (coerce a2 t) (coerce b2 t) t)) st =
                ODone (convert dm t (convert dm (promote dm (xtype_of dm te (if vx =? 0 then b else a))) w), s2)).
    { unfold lower. cbn [low fst]. unfold lcond in Icx. rewrite xrun_phi, Icx. ostep.
      unfold lower in W. destruct (vx =? 0); cbn [negb]; exact W. }
    nz_finish E.
  - (* comma *)
    cbn [cassign_all] in CA. apply andb_prop in CA as [CAa CAb].
    cbn [xeval] in EV. destruct (xeval dm te st a) as [[va s1]|] eqn:Ea; [|discriminate].
    destruct (IHa _ _ _ SO CAa Ea) as [Ia _]. destruct (xeval_ok a _ _ _ Ea SO) as [_ S1].
    destruct (IHb _ _ _ S1 CAb EV) as [Ib _].
    cbn [elab].
    assert (E : xrun k (lower g (TBin (elab svC te a) OComma (elab svC te b) (ttyp (elab svC te b)))) st = ODone (v, st')).
    { unfold lower. cbn [low fst]. unfold lower in Ia, Ib. rewrite xrun_seq, Ia. ostep. exact Ib. }
    nz_finish E.
  - (* = *)
    cbn [cassign_all] in CA.
    cbn [xeval] in EV. destruct (xeval dm te st a) as [[va s1]|] eqn:Ea; [|discriminate].
    pose proof (IHa _ _ _ SO CA Ea) as Ia. destruct (xeval_ok a _ _ _ Ea SO) as [Ra S1].
    destruct (nth_error s1 n) as [old|] eqn:En; [|discriminate]. injection EV as <- <-.
    rewrite <- (ttyp_elabC a) in Ra.
    pose proof (runs_coerce _ (tvar te n) _ _ _ Ia Ra) as [Pc _].
    cbn [elab].
    assert (E : xrun k (lower g (TBin (TVar n (tvar te n)) OAssign (coerce (elab svC te a) (tvar te n)) (tvar te n))) st
                = ODone (convert dm (tvar te n) va, upd s1 n (convert dm (tvar te n) va))).
    { unfold lower. cbn [low fst]. unfold lower in Pc. rewrite xrun_store, Pc. ostep. reflexivity. }
    nz_finish E.
  - (* op= *)
    cbn [cassign_all] in CA. apply andb_prop in CA as [CA CO].
    cbn [xeval] in EV. destruct (is_compound_op op) eqn:Hc; cbn [negb] in EV; [|discriminate].
    destruct (xeval dm te st a) as [[vb s1]|] eqn:Ea; [|discriminate].
    pose proof (IHa _ _ _ SO CA Ea) as Ia. destruct (xeval_ok a _ _ _ Ea SO) as [Rb S1].
    destruct (nth_error s1 n) as [va|] eqn:En; [|discriminate].
    destruct (bin_val dm (promote dm (tvar te n)) (promote dm (xtype_of dm te a)) op va vb) as [r|] eqn:B; [|discriminate].
    injection EV as <- <-.
    pose proof (nth_ok s1 S1 n va En) as Rva.
    set (tn := tvar te n) in *. set (tb := xtype_of dm te a) in *.
    pose proof (promote_range g Hwf tb vb Rb) as Rpb. pose proof (promote_range g Hwf tn va Rva) as Rpa.
    assert (Rb' : in_range dm (ttyp (elab svC te a)) vb = true) by (rewrite (ttyp_elabC a); exact Rb).
    unfold bin_val in B. rewrite (cid _ _ Rpa), (cid _ _ Rpb) in B.
    destruct (Bool.bool_dec fl true) as [Hfl|Hfl].
    + (* fixes/C01-compound-assign.diff: computed in the type of x op e *)
      pose proof (runs_promote _ _ _ _ Ia Rb') as Pb. pose proof (ttyp_promote (elab svC te a)) as TPb.
      rewrite (ttyp_elabC a) in Pb, TPb. fold tb in Pb, TPb. rewrite (cid _ _ Rpb) in Pb.
      set (ptn := promote dm tn) in *. set (ptb := promote dm tb) in *.
      set (b2 := promote_m svC (elab svC te a)) in *.
      assert (Rvb : in_range dm (ttyp b2) vb = true) by (rewrite TPb; exact Rpb).
      destruct (is_shift op) eqn:Hs.
      * assert (G : elab svC te (XAssignOp op n a) = TBin (TVar n tn) (OAssignOp op) (coerce b2 ptn) tn).
        { rewrite (elab_assignop_new svC op n a Hfl). fold tn b2. unfold ptype. cbn [v_promote]. rewrite (ppC tn).
          destruct op; try discriminate; reflexivity. }
        rewrite G.
        pose proof (runs_coerce b2 ptn _ _ _ Pb Rvb) as [Pc _].
        assert (N : convert dm ptn vb = vb).
        { apply cid, (small_in_range c Hwf). unfold shift in B.
          destruct ((vb <? 0) || (bits dm ptn <=? vb)) eqn:Hn; [discriminate|]. lia. }
        rewrite N in Pc.
        destruct op; try discriminate;
          (eapply (rmwc_finish _ tn ptn _ _ n st s1 va vb r Pc (ttyp_coerce _ _) En Rva
                               (shift_in_range c Hwf _ _ _ _ _ B)); [|reflexivity];
           rewrite (cid _ _ Rpa); refine (binop_shift_exact k g Hwf Hf ptn _ _ va vb r _ _ B); reflexivity).
      * set (T := uac dm ptn ptb) in *.
        assert (G : elab svC te (XAssignOp op n a) = TBin (TVar n tn) (OAssignOp op) (coerce b2 T) tn).
        { rewrite (elab_assignop_new svC op n a Hfl). fold tn b2. unfold ptype. cbn [v_promote v_common].
          rewrite (ppC tn), TPb. destruct op; try discriminate; reflexivity. }
        rewrite G.
        pose proof (runs_coerce b2 T _ _ _ Pb Rvb) as [Pc _].
        pose proof (arith_in_range c Hwf _ _ _ _ _ B) as Rr.
        destruct op; try discriminate; cbn [is_int_result] in Rr;
          (eapply (rmwc_finish _ tn T _ _ n st s1 va (convert dm T vb) r Pc (ttyp_coerce _ _) En Rva Rr); [|reflexivity];
           refine (binop_arith_exact k g Hwf Hf T _ _ (convert dm T va) (convert dm T vb) r _ _ (cir _ _) (cir _ _) B);
           reflexivity).
    + (* the code before that fix: computed in the type of x; the C meaning only under cassign_ok *)
      apply Bool.not_true_is_false in Hfl. rewrite Hfl in CO. cbn [orb] in CO. unfold cassign_ok in CO. apply andb_prop in CO as [CP CU]. apply ity_eqb_true in CP.
      rewrite CP in B.
      pose proof (runs_coerce _ tn _ _ _ Ia Rb') as [Pc _].
      assert (G : elab svC te (XAssignOp op n a) = TBin (TVar n tn) (OAssignOp op) (coerce (elab svC te a) tn) tn)
        by exact (elab_assignop_old svC op n a Hfl).
      rewrite G.
      destruct (is_shift op) eqn:Hs.
      * assert (N : convert dm tn vb = vb).
        { apply cid, (small_in_range c Hwf). unfold shift in B.
          destruct ((vb <? 0) || (bits dm tn <=? vb)) eqn:Hn; [discriminate|]. lia. }
        rewrite N in Pc.
        destruct op; try discriminate;
          (eapply (rmwc_finish _ tn tn _ _ n st s1 va vb r Pc (ttyp_coerce _ _) En Rva
                               (shift_in_range c Hwf _ _ _ _ _ B)); [|reflexivity];
           rewrite (cid _ _ Rva); refine (binop_shift_exact k g Hwf Hf tn _ _ va vb r _ _ B); reflexivity).
      * apply ity_eqb_true in CU. rewrite CP in CU. rewrite CU in B.
        pose proof (arith_in_range c Hwf _ _ _ _ _ B) as Rr.
        destruct op; try discriminate; cbn [is_int_result] in Rr;
          (eapply (rmwc_finish _ tn tn _ _ n st s1 va (convert dm tn vb) r Pc (ttyp_coerce _ _) En Rva Rr); [|reflexivity];
           refine (binop_arith_exact k g Hwf Hf tn _ _ (convert dm tn va) (convert dm tn vb) r _ _ (cir _ _) (cir _ _) B);
           reflexivity).
Qed.

(* ---- a variant of the typing helpers elaborates like the C11 helpers wherever it agrees ---- *)
Lemma promote_ext sv x t :
  ttyp x = t -> agree_p sv dm t = true -> promote_m sv x = promote_m svC x.
Proof.
  intros <- A. unfold agree_p, pp_v in A. unfold promote_m. cbn [v_promote].
  destruct (mem_ty (ttyp x) promotable_types); [|reflexivity].
  apply ity_eqb_true in A. now rewrite A.
Qed.

Lemma elab_ext sv e : v_cassign sv = fl -> agrees sv dm te e = true -> elab sv te e = elab svC te e.
Proof.
  intros Hfl. induction e as [t z|n|t a IHa|op a IHa|op a IHa b IHb|x IHx a IHa b IHb|a IHa b IHb|n a IHa|op n a IHa];
    intros A; cbn [agrees] in A.
  - reflexivity.
  - reflexivity.
  - cbn [elab]. now rewrite IHa.
  - destruct op; cbn [elab]; try (apply andb_prop in A as [A P]); rewrite (IHa A);
      try rewrite (promote_ext sv _ _ (ttyp_elabC a) P); reflexivity.
  - apply andb_prop in A as [A Aop]. apply andb_prop in A as [Aa Ab].
    pose proof (ttyp_elabC a) as Ta. pose proof (ttyp_elabC b) as Tb.
    destruct op; cbn [elab]; rewrite (IHa Aa), (IHb Ab); try reflexivity;
      first
      [ apply andb_prop in Aop as [Aop Ac]; apply andb_prop in Aop as [Pa Pb];
        rewrite (promote_ext sv _ _ Ta Pa), (promote_ext sv _ _ Tb Pb);
        unfold agree_c in Ac; apply ity_eqb_true in Ac; cbn [v_common];
        rewrite !ttyp_promote, Ta, Tb, Ac; reflexivity
      | apply andb_prop in Aop as [Pa Pb];
        rewrite (promote_ext sv _ _ Ta Pa), (promote_ext sv _ _ Tb Pb); reflexivity ].
  - apply andb_prop in A as [A Ac]. apply andb_prop in A as [A Pb]. apply andb_prop in A as [A Pa].
    apply andb_prop in A as [A Ab]. apply andb_prop in A as [Ax Aa].
    pose proof (ttyp_elabC a) as Ta. pose proof (ttyp_elabC b) as Tb.
    cbn [elab]. rewrite (IHx Ax), (IHa Aa), (IHb Ab).
    rewrite (promote_ext sv _ _ Ta Pa), (promote_ext sv _ _ Tb Pb).
    unfold agree_c in Ac. apply ity_eqb_true in Ac. cbn [v_common].
    rewrite !ttyp_promote, Ta, Tb, Ac. reflexivity.
  - apply andb_prop in A as [Aa Ab]. cbn [elab]. now rewrite (IHa Aa), (IHb Ab).
  - cbn [elab]. now rewrite (IHa A).
  - apply andb_prop in A as [A O]. specialize (IHa A).
    destruct (Bool.bool_dec fl true) as [F|F].
    + rewrite Hfl, F in O. apply andb_prop in O as [O Oc]. apply andb_prop in O as [Pn Pb].
      rewrite (elab_assignop_new sv op n a (eq_trans Hfl F)), (elab_assignop_new svC op n a F).
      rewrite IHa, (promote_ext sv _ _ (ttyp_elabC a) Pb).
      assert (PT : ptype sv (tvar te n) = ptype svC (tvar te n)).
      { unfold ptype. cbn [v_promote]. rewrite (ppC _). unfold agree_p, pp_v in Pn. now apply ity_eqb_true in Pn. }
      rewrite PT. destruct (is_shift op) eqn:Hs.
      * destruct op; try discriminate; reflexivity.
      * unfold agree_c in Oc. apply ity_eqb_true in Oc.
        unfold ptype. cbn [v_promote v_common]. rewrite (ppC _), ttyp_promote, (ttyp_elabC a), Oc.
        destruct op; reflexivity.
    + apply Bool.not_true_is_false in F.
      rewrite (elab_assignop_old sv op n a (eq_trans Hfl F)), (elab_assignop_old svC op n a F), IHa. reflexivity.
Qed.

Lemma agrees_cassign sv e : v_cassign sv = fl -> agrees sv dm te e = true -> cassign_all dm te fl e = true.
Proof.
  intros Hfl. induction e as [t z|n|t a IHa|op a IHa|op a IHa b IHb|x IHx a IHa b IHb|a IHa b IHb|n a IHa|op n a IHa];
    intros A; cbn [agrees] in A; cbn [cassign_all]; auto.
  - destruct op; try (apply andb_prop in A as [A _]); auto.
  - apply andb_prop in A as [A _]. apply andb_prop in A as [Aa Ab]. now rewrite IHa, IHb.
  - apply andb_prop in A as [A _]. apply andb_prop in A as [A _]. apply andb_prop in A as [A _].
    apply andb_prop in A as [A Ab]. apply andb_prop in A as [Ax Aa]. now rewrite IHx, IHa, IHb.
  - apply andb_prop in A as [Aa Ab]. now rewrite IHa, IHb.
  - apply andb_prop in A as [A O]. rewrite (IHa A). cbn [andb]. rewrite Hfl in O.
    destruct (Bool.bool_dec fl true) as [F|F]; [now rewrite F|].
    apply Bool.not_true_is_false in F. rewrite F in O. rewrite F. exact O.
Qed.

(* ---- the theorems for a variant ---- *)
Theorem expr_typing_fl sv e : v_cassign sv = fl -> agrees sv dm te e = true -> ttyp (elab sv te e) = xtype_of dm te e.
Proof. intros Hfl A. rewrite (elab_ext sv e Hfl A). apply ttyp_elabC. Qed.

Theorem expr_value_fl sv e st v st' : v_cassign sv = fl ->
  store_ok dm te st -> agrees sv dm te e = true -> ceval dm te st e = Some (v, st') ->
  xrun k (lower g (elab sv te e)) st = ODone (v, st').
Proof.
  intros Hfl SO A EV. unfold ceval in EV. destruct (seq_ok e); [|discriminate].
  rewrite (elab_ext sv e Hfl A). exact (proj1 (value_C e st v st' SO (agrees_cassign sv e Hfl A) EV)).
Qed.

(* the condition tree of the same expression decides `e != 0` *)
Theorem expr_cond_fl sv e st v st' : v_cassign sv = fl ->
  store_ok dm te st -> agrees sv dm te e = true -> ceval dm te st e = Some (v, st') ->
  crun k (lcond g (elab sv te e)) st = ODone (negb (v =? 0), st').
Proof.
  intros Hfl SO A EV. unfold ceval in EV. destruct (seq_ok e); [|discriminate].
  rewrite (elab_ext sv e Hfl A). exact (proj2 (value_C e st v st' SO (agrees_cassign sv e Hfl A) EV)).
Qed.

Lemma ceval_ok e st v st' :
  ceval dm te st e = Some (v, st') -> store_ok dm te st ->
  in_range dm (xtype_of dm te e) v = true /\ store_ok dm te st'.
Proof. unfold ceval. destruct (seq_ok e); [apply xeval_ok|discriminate]. Qed.

(* `rt f(te...) { return e; }` returns the C value converted to rt *)
Theorem fn_value_fl sv rt e st v st' : v_cassign sv = fl ->
  store_ok dm te st -> agrees sv dm te e = true -> ceval dm te st e = Some (v, st') ->
  xrun k (c_tree sv g te rt e) st = ODone (convert dm rt v, st').
Proof.
  intros Hfl SO A EV. unfold ceval in EV. destruct (seq_ok e); [|discriminate].
  unfold c_tree, elab_ret. rewrite (elab_ext sv e Hfl A).
  pose proof (value_C e st v st' SO (agrees_cassign sv e Hfl A) EV) as R.
  destruct (xeval_ok e _ _ _ EV SO) as [Rv _]. rewrite <- (ttyp_elabC e) in Rv.
  exact (proj1 (runs_coerce _ rt _ _ _ R Rv)).
Qed.

(* ---- short circuit: the skipped operand does not influence the result (whatever it is) ---- *)
Theorem short_circuit_and a b st s1 :
  crun k (lcond g a) st = ODone (false, s1) ->
  xrun k (lower g (TBin a (OBin BLAnd) b TInt)) st = ODone (0, s1).
Proof.
  intros H. unfold lower. cbn [low fst]. unfold lcond in H. rewrite xrun_condint, crun_and, H. ostep.
  rewrite (b2z_const false). ostep. reflexivity.
Qed.
Theorem short_circuit_or a b st s1 :
  crun k (lcond g a) st = ODone (true, s1) ->
  xrun k (lower g (TBin a (OBin BLOr) b TInt)) st = ODone (1, s1).
Proof.
  intros H. unfold lower. cbn [low fst]. unfold lcond in H. rewrite xrun_condint, crun_or, H. ostep.
  rewrite (b2z_const true). ostep. reflexivity.
Qed.
Theorem short_circuit_cond x a b t st s1 bv :
  crun k (lcond g x) st = ODone (bv, s1) ->
  xrun k (lower g (TTern x a b t)) st = xrun k (lower g (if bv then a else b)) s1.
Proof.
  intros H. unfold lower. cbn [low fst]. unfold lcond in H. rewrite xrun_phi, H. ostep. now destruct bv.
Qed.
End Expr.

(* the same, for the flag of the variant itself *)
Theorem expr_typing g te sv e :
  agrees sv (dm_of (cg_ctx g)) te e = true -> ttyp (elab sv te e) = xtype_of (dm_of (cg_ctx g)) te e.
Proof. exact (expr_typing_fl g te (v_cassign sv) sv e eq_refl). Qed.
Theorem expr_value k g (Hwf : wf_ctx (cg_ctx g)) (Hf : faithful k g) te sv e st v st' :
  store_ok (dm_of (cg_ctx g)) te st -> agrees sv (dm_of (cg_ctx g)) te e = true ->
  ceval (dm_of (cg_ctx g)) te st e = Some (v, st') ->
  xrun k (lower g (elab sv te e)) st = ODone (v, st').
Proof. exact (expr_value_fl k g Hwf Hf te (v_cassign sv) sv e st v st' eq_refl). Qed.
Theorem expr_cond k g (Hwf : wf_ctx (cg_ctx g)) (Hf : faithful k g) te sv e st v st' :
  store_ok (dm_of (cg_ctx g)) te st -> agrees sv (dm_of (cg_ctx g)) te e = true ->
  ceval (dm_of (cg_ctx g)) te st e = Some (v, st') ->
  crun k (lcond g (elab sv te e)) st = ODone (negb (v =? 0), st').
Proof. exact (expr_cond_fl k g Hwf Hf te (v_cassign sv) sv e st v st' eq_refl). Qed.
Theorem fn_value k g (Hwf : wf_ctx (cg_ctx g)) (Hf : faithful k g) te sv rt e st v st' :
  store_ok (dm_of (cg_ctx g)) te st -> agrees sv (dm_of (cg_ctx g)) te e = true ->
  ceval (dm_of (cg_ctx g)) te st e = Some (v, st') ->
  xrun k (c_tree sv g te rt e) st = ODone (convert (dm_of (cg_ctx g)) rt v, st').
Proof. exact (fn_value_fl k g Hwf Hf te (v_cassign sv) sv rt e st v st' eq_refl). Qed.

(* ---- the C11 variant (fixes/C01-common-type.diff) agrees on every operand type ---- *)
Section C11.
Variable c : cctx.
Hypothesis Hwf : wf_ctx c.
Local Notation dm := (dm_of c).

Local Opaque Z.mul.
Lemma c11_promote_ok t : agree_p (sem_c11 c) dm t = true.
Proof.
  destruct Hwf as (W1 & W2 & W3).
  unfold agree_p, pp_v, sem_c11, c11_promote, promote. cbn [v_promote].
  destruct t; cbn; try reflexivity.
  - destruct (int_size c <=? 1) eqn:E; [lia|]. destruct (8 <? 8 * int_size c) eqn:E2; [reflexivity|lia].
  - destruct (int_size c <=? 2) eqn:E; destruct (16 <? 8 * int_size c) eqn:E2; try reflexivity; lia.
Qed.

Lemma c11_common_ok a b : c11_common c a b = uac dm a b.
Proof.
  destruct Hwf as (W1 & W2 & W3).
  destruct a, b; unfold c11_common, uac; cbn;
    repeat match goal with |- context [?x <? ?y] => destruct (Z.ltb_spec x y) end;
    try reflexivity; lia.
Qed.

Local Transparent Z.mul.
Lemma agrees_c11 te e : cassign_all dm te false e = true -> agrees (sem_c11 c) dm te e = true.
Proof.
  assert (C : forall a b, agree_c (sem_c11 c) dm a b = true).
  { intros a b. unfold agree_c. cbn [v_common sem_c11]. rewrite c11_common_ok. destruct (uac dm _ _); reflexivity. }
  induction e as [t z|n|t a IHa|op a IHa|op a IHa b IHb|x IHx a IHa b IHb|a IHa b IHb|n a IHa|op n a IHa];
    intros A; cbn [cassign_all] in A; cbn [agrees]; auto.
  - destruct op; rewrite ?c11_promote_ok, ?Bool.andb_true_r; auto.
  - apply andb_prop in A as [Aa Ab]. rewrite (IHa Aa), (IHb Ab).
    destruct op; rewrite ?c11_promote_ok, ?C; reflexivity.
  - apply andb_prop in A as [A Ab]. apply andb_prop in A as [Ax Aa].
    rewrite (IHx Ax), (IHa Aa), (IHb Ab), !c11_promote_ok, C. reflexivity.
  - apply andb_prop in A as [Aa Ab]. now rewrite (IHa Aa), (IHb Ab).
  - apply andb_prop in A as [A O]. cbn [orb] in O. cbn [v_cassign sem_c11]. now rewrite (IHa A), O.
Qed.

(* with fixes/C01-compound-assign.diff nothing is left to require *)
Lemma agrees_c11a te e : agrees (sem_c11a c) dm te e = true.
Proof.
  assert (P : forall t, agree_p (sem_c11a c) dm t = true) by exact c11_promote_ok.
  assert (C : forall a b, agree_c (sem_c11a c) dm a b = true).
  { intros a b. unfold agree_c. cbn [v_common sem_c11a]. rewrite c11_common_ok. destruct (uac dm _ _); reflexivity. }
  induction e as [t z|n|t a IHa|op a IHa|op a IHa b IHb|x IHx a IHa b IHb|a IHa b IHb|n a IHa|op n a IHa];
    cbn [agrees]; auto.
  - destruct op; rewrite ?P, ?Bool.andb_true_r; auto.
  - rewrite IHa, IHb. destruct op; rewrite ?P, ?C; reflexivity.
  - rewrite IHx, IHa, IHb, !P, C. reflexivity.
  - now rewrite IHa, IHb.
  - rewrite IHa. cbn [v_cassign sem_c11a]. rewrite !P, C. now destruct (is_shift op).
Qed.
End C11.
