(* Proofs/C16_rd_mod.v — module level: the invariant MInv between subroutines, registration of module-level names
   (reg_global), parameters (params_read), and one whole subroutine in a module scope (function_read =
   c16_function_roundtrip).  Not here: the folds over externals / variables / subroutines and from_dict itself. *)
From PV Require Import Lib.Py Lib.Tac Lib.Val Lib.Json Spec.IRSyntax Model.IrJson Proofs.C16_irjson.
From PV Require Import Proofs.C16_rd_scope Proofs.C16_rd_patch Proofs.C16_rd_func.
From PV Require Import Proofs.C16_rd_wf Proofs.C16_rd_sub.
From Coq Require Import String Ascii.
Local Open Scope string_scope.
Local Open Scope list_scope.
Open Scope Z_scope.

Definition hideG (gk : list string) (r : vref) : vref :=
  match r with Glob s => if mem_str s gk then r else Unres s | _ => r end.
Definition hideF (gk : list string) (g : func) : func := mapf (map_refs (hideG gk)) g.

Record MInv (gn gk : list string) (done : list func) (st : rst) : Prop := {
  m_infun : rs_infun st = false;
  m_glob : forall s, vlookup s (rs_glob st) = if mem_str s gk then Some (Glob s, Ptr) else None;
  m_gk : forall s, In s gk -> In s gn;
  m_funcs : rs_funcs st = map (hideF gk) done;
  m_blocks : rs_blocks st = [];
  m_ins : rs_ins st = [];
  m_done : forall g i r, In g done -> In i (func_instrs g) -> In r (instr_uses i) -> wf_ref gn g r = true;
  m_cov : cov (rs_pend st) (flat_map func_instrs (rs_funcs st));
  m_nodup : NoDup (map fst (rs_pend st));
  m_pend : forall s t, plookup s (rs_pend st) = Some t -> t = Ptr /\ In s gn /\ mem_str s gk = false }.

Lemma sub1_hideG n gk r : (forall s, r <> Unres s) -> sub1 n (Glob n) (hideG gk r) = hideG (n :: gk) r.
Proof.
  intros H. unfold sub1, is_old. destruct r as [v|k|s|s]; cbn; try reflexivity; [|now destruct (H s)].
  destruct (mem_str s gk) eqn:M; cbn.
  - now rewrite orb_true_r.
  - rewrite orb_false_r. destruct (String.eqb_spec s n) as [->|N]; reflexivity.
Qed.
Lemma in_func_instrs_map h g i : In i (func_instrs (mapf h g)) -> exists i0, In i0 (func_instrs g) /\ i = h i0.
Proof.
  unfold func_instrs, mapf. cbn. intros H. apply in_flat_map in H. destruct H as (k & Hk & Hi).
  apply in_map_iff in Hk. destruct Hk as (k0 & <- & Hk0). cbn in Hi. apply in_map_iff in Hi. destruct Hi as (i0 & <- & Hi0).
  exists i0. split; [|reflexivity]. apply in_flat_map. exists k0. now split.
Qed.
Lemma mapf_ext_in h h' g : (forall i, In i (func_instrs g) -> h i = h' i) -> mapf h g = mapf h' g.
Proof.
  intros H. unfold mapf. f_equal. apply map_ext_in. intros k Hk. unfold mapb. f_equal. apply map_ext_in. intros i Hi.
  apply H. unfold func_instrs. apply in_flat_map. exists k. now split.
Qed.
Lemma mapf_mapf h h' g : mapf h (mapf h' g) = mapf (fun i => h (h' i)) g.
Proof. unfold mapf. cbn. f_equal. rewrite map_map. apply map_ext. intros k. unfold mapb. cbn. f_equal. now rewrite map_map. Qed.

Lemma hideF_reg gn n gk done :
  (forall g i r, In g done -> In i (func_instrs g) -> In r (instr_uses i) -> wf_ref gn g r = true) ->
  map (mapf (map_refs (sub1 n (Glob n)))) (map (hideF gk) done) = map (hideF (n :: gk)) done.
Proof.
  intros W. rewrite map_map. apply map_ext_in. intros g Hg. unfold hideF. rewrite mapf_mapf.
  apply mapf_ext_in. intros i Hi. rewrite map_refs_comp. apply map_refs_ext. intros r Hr.
  apply sub1_hideG. intros s ->. specialize (W g i (Unres s) Hg Hi Hr). discriminate.
Qed.

Lemma unres_hideF gn gk done i s :
  (forall g i r, In g done -> In i (func_instrs g) -> In r (instr_uses i) -> wf_ref gn g r = true) ->
  In i (flat_map func_instrs (map (hideF gk) done)) -> In (Unres s) (instr_uses i) ->
  mem_str s gn = true /\ mem_str s gk = false.
Proof.
  intros W Hi Hs. apply in_flat_map in Hi. destruct Hi as (g' & Hg' & Hi). apply in_map_iff in Hg'.
  destruct Hg' as (g & <- & Hg). apply in_func_instrs_map in Hi. destruct Hi as (i0 & Hi0 & ->).
  rewrite uses_map_refs in Hs. apply in_map_iff in Hs. destruct Hs as (r & Hr & Hin).
  specialize (W g i0 r Hg Hi0 Hin). destruct r as [v|k|s'|s']; cbn in Hr; try discriminate.
  destruct (mem_str s' gk) eqn:M; [discriminate|]. inversion Hr; subst. cbn in W. auto.
Qed.

(* registering a module-level name (external, variable or subroutine) *)
Lemma reg_global gn gk done n st :
  MInv gn gk done st -> In n gn -> mem_str n gk = false ->
  register cfg_fixed n (Glob n) Ptr None st = Ok (None, reg_state n (Glob n) Ptr st) /\
  MInv gn (n :: gk) done (reg_state n (Glob n) Ptr st).
Proof.
  intros [M1 M2 M3 M4 M5 M6 M7 M8 M9 M10] Hn Hk. split.
  - rewrite register_spec; [reflexivity | |].
    + unfold all_built. rewrite M5, M6, !app_nil_r. exact M8.
    + rewrite M1, M2, Hk. reflexivity.
  - unfold reg_state. rewrite M1. constructor; cbn.
    + reflexivity.
    + intros s. destruct (String.eqb_spec s n) as [->|N]; [reflexivity|]. cbn. apply M2.
    + intros s [<-|H]; auto.
    + rewrite M4. now apply (hideF_reg gn).
    + now rewrite M5.
    + now rewrite M6.
    + exact M7.
    + intros i s Hi Hs. rewrite M4, (hideF_reg gn) in Hi by assumption.
      destruct (unres_hideF gn (n :: gk) done i s M7 Hi Hs) as [A B]. cbn in B. apply orb_false_elim in B. destruct B as [B1 B2].
      assert (s <> n) by (intros ->; now rewrite String.eqb_refl in B1).
      rewrite plookup_premove_other by assumption.
      (* the same placeholder occurred before the registration *)
      assert (Hi' : exists i', In i' (flat_map func_instrs (rs_funcs st)) /\ In (Unres s) (instr_uses i')).
      { rewrite M4. apply in_flat_map in Hi. destruct Hi as (g' & Hg' & Hi). apply in_map_iff in Hg'.
        destruct Hg' as (g & <- & Hg). apply in_func_instrs_map in Hi. destruct Hi as (i0 & Hi0 & ->).
        exists (map_refs (hideG gk) i0). split.
        - apply in_flat_map. exists (hideF gk g). split; [now apply in_map|]. unfold hideF, func_instrs, mapf. cbn.
          unfold func_instrs in Hi0. apply in_flat_map in Hi0. destruct Hi0 as (k & Hk0 & Hi0). apply in_flat_map.
          exists (mapb (map_refs (hideG gk)) k). split; [now apply in_map|]. cbn. now apply in_map.
        - rewrite uses_map_refs in *. apply in_map_iff in Hs. destruct Hs as (r & Hr & Hin). apply in_map_iff. exists r.
          split; [|assumption]. destruct r as [v|k|s'|s']; cbn in *; try discriminate; [|exact Hr].
          destruct (String.eqb s' n || mem_str s' gk) eqn:E; [discriminate|]. inversion Hr; subst.
          apply orb_false_elim in E. destruct E as [_ E]. now rewrite E. }
      destruct Hi' as (i' & A' & B'). exact (M8 i' s A' B').
    + now apply premove_nodup.
    + intros s t P. destruct (String.eqb_spec s n) as [->|N].
      * rewrite plookup_premove_same in P by assumption. discriminate.
      * rewrite plookup_premove_other in P by assumption. destruct (M10 s t P) as (A & B & C). split; [assumption|]. split; [assumption|].
        cbn. rewrite C. reflexivity.
Qed.

(* ---- parameters *)
Definition set_loc (st : rst) (l : vmap) : rst :=
  mk_rst (rs_glob st) l (rs_infun st) (rs_pend st) (rs_next st) (rs_bmap st) (rs_funcs st) (rs_blocks st) (rs_ins st).
Fixpoint ploc (k : nat) (ps : list (string * ty)) (base : vmap) : vmap :=
  match ps with [] => base | p :: r => ploc (S k) r ((fst p, (Param k, snd p)) :: base) end.
Definition wparam (p : string * ty) : json := JObj [("name", JStr (fst p)); ("type", write_type (snd p))].

Lemma params_read gn : forall ps k acc st,
  rs_infun st = true -> rs_blocks st = [] -> rs_ins st = [] ->
  cov (rs_pend st) (flat_map func_instrs (rs_funcs st)) ->
  (forall i s, In i (flat_map func_instrs (rs_funcs st)) -> In (Unres s) (instr_uses i) -> mem_str s gn = true) ->
  (forall p, In p ps -> mem_str (fst p) gn = false /\ plookup (fst p) (rs_pend st) = None /\ vlookup (fst p) (rs_loc st) = None) ->
  NoDup (map fst ps) ->
  construct_params cfg_fixed (map wparam ps) k acc st = Ok (acc ++ ps, set_loc st (ploc k ps (rs_loc st))).
Proof.
  induction ps as [|p ps IH]; intros k acc st Hi Hb Hn Hc Hf Hp Hd.
  - cbn. rewrite app_nil_r. destruct st; reflexivity.
  - destruct p as [pn pt]. destruct (Hp (pn, pt) (or_introl eq_refl)) as (P1 & P2 & P3). inversion Hd as [|? ? D1 D2]; subst.
    cbn [fst snd] in *. cbn [map construct_params]. unfold jstr, wparam at 1 2.
    cbn [jget jlookup String.eqb Ascii.eqb Bool.eqb bind as_str]. rewrite type_roundtrip. cbn [bind].
    rewrite register_spec.
    2: { unfold all_built. rewrite Hb, Hn, !app_nil_r. exact Hc. }
    2: { now rewrite Hi. }
    cbn [bind].
    cbn [fst snd].
    assert (E : reg_state pn (Param k) pt st = set_loc st ((pn, (Param k, pt)) :: rs_loc st)).
    { unfold reg_state, set_loc. rewrite Hi, Hb, Hn, premove_none by assumption.
      rewrite (fs_fixed gn (rs_funcs st) Hf) by assumption. reflexivity. }
    rewrite E. rewrite IH; try assumption.
    + unfold set_loc. cbn. rewrite <- app_assoc. reflexivity.
    + intros q Hq. destruct (Hp q (or_intror Hq)) as (Q1 & Q2 & Q3). repeat split; try assumption.
      cbn. destruct (String.eqb_spec (fst q) pn) as [E'|E']; [|exact Q3].
      exfalso. apply D1. rewrite <- E'. now apply in_map.
Qed.
Lemma ploc_notin s : forall ps k base, ~ In s (map fst ps) -> vlookup s (ploc k ps base) = vlookup s base.
Proof.
  induction ps as [|p ps IH]; intros k base H; [reflexivity|]. cbn [ploc]. rewrite IH by (cbn in H; tauto).
  cbn. destruct (String.eqb_spec s (fst p)) as [E|E]; [|reflexivity]. exfalso. apply H. cbn. now left.
Qed.
Lemma ploc_nth : forall ps k base n p, NoDup (map fst ps) -> nth_error ps n = Some p ->
  vlookup (fst p) (ploc k ps base) = Some (Param (k + n), snd p).
Proof.
  induction ps as [|q ps IH]; intros k base n p Hd Hn; [destruct n; discriminate|].
  inversion Hd as [|? ? D1 D2]; subst. destruct n as [|n]; cbn in Hn.
  - inversion Hn; subst q. cbn [ploc]. rewrite ploc_notin by assumption. cbn. rewrite String.eqb_refl. now rewrite Nat.add_0_r.
  - cbn [ploc]. rewrite (IH (S k) _ n p D2 Hn). now rewrite Nat.add_succ_r.
Qed.

Lemma nodup_str_true l : NoDup l -> nodup_str l = true.
Proof.
  induction l as [|x l IH]; [reflexivity|]. intros H. inversion H; subst. cbn. rewrite IH by assumption.
  apply mem_str_false in H2. now rewrite H2.
Qed.
Lemma block_names_read f bl js : mapM (write_block cfg_fixed f) bl = Ok js -> mapM (jstr "name") js = Ok (map b_name bl).
Proof.
  intros H. apply mapM_inv in H. induction H as [|k j bl js Hw _ IH]; [reflexivity|].
  unfold write_block in Hw. destruct (mapM _ (b_ins k)); try discriminate. cbn [bind] in Hw. inversion Hw; subst j.
  cbn [mapM map]. unfold jstr at 1. cbn [jget jlookup String.eqb Ascii.eqb Bool.eqb bind as_str]. now rewrite IH.
Qed.

Section SubInit.
  Variable gn gk : list string.
  Variable done : list func.
  Variable f : func.
  Variable st1 : rst.
  Hypothesis M : MInv gn gk done st1.
  Hypothesis Hwf : wf_func gn f = true.

  Definition st_enter : rst :=
    set_loc (mk_rst (rs_glob st1) [] true (rs_pend st1) 1 (bm_of f) (rs_funcs st1) [] []) (ploc 0 (f_params f) []).

  Lemma fs_glob_of : forall i s, In i (flat_map func_instrs (rs_funcs st1)) -> In (Unres s) (instr_uses i) -> mem_str s gn = true.
  Proof.
    intros i s Hi Hs. rewrite (m_funcs _ _ _ _ M) in Hi. now destruct (unres_hideF gn gk done i s (m_done _ _ _ _ M) Hi Hs).
  Qed.

  Lemma local_not_global r : wfr gn f r -> (forall s, r <> Glob s) -> ~ In (ref_name f r) gn.
  Proof.
    intros Hr Hg. destruct (wf_parts gn f Hwf) as (_ & _ & _ & _ & _ & D & _). apply D.
    pose proof (ref_name_local gn f Hwf r Hr) as L. destruct r; try assumption. now destruct (Hg name).
  Qed.

  Lemma init_FInv : FInv gn f (rs_funcs st1) (rs_glob st1) 1 gk [] [] st_enter.
  Proof.
    destruct M as [M1 M2 M3 M4 M5 M6 M7 M8 M9 M10].
    destruct (wf_parts gn f Hwf) as (_ & _ & _ & _ & Nl & Dg & _).
    assert (Pn : NoDup (map fst (f_params f))) by (apply (params_nodup gn f Hwf)).
    constructor; unfold st_enter, set_loc; cbn [rs_infun rs_loc rs_glob rs_pend rs_next rs_funcs rs_blocks rs_ins map flat_map app].
    - (* SInv *)
      constructor; unfold slook; cbn [rs_infun rs_loc rs_glob rs_pend].
      + reflexivity.
      + intros r Hr K. destruct r as [v|n|s|s]; cbn in K.
        * destruct v; discriminate.
        * unfold wfr in Hr. cbn in Hr. apply Nat.ltb_lt in Hr. cbn [ref_name vref_ty].
          destruct (nth_error (f_params f) n) as [p|] eqn:E; [|apply nth_error_None in E; lia].
          now rewrite (ploc_nth (f_params f) 0 [] n p Pn E).
        * cbn [ref_name vref_ty]. rewrite ploc_notin.
          -- cbn [vlookup]. rewrite M2, K. reflexivity.
          -- intros C. apply (Dg s); [unfold func_local_names; apply in_or_app; now left|]. apply M3. now apply mem_str_In.
        * now apply wfr_not_unres in Hr.
      + intros r Hr K. destruct r as [v|n|s|s]; cbn in K; try discriminate.
        * pose proof (local_not_global (Loc v) Hr ltac:(discriminate)) as Ng.
          rewrite ploc_notin.
          -- cbn [vlookup]. rewrite M2. destruct (mem_str (ref_name f (Loc v)) gk) eqn:E; [|reflexivity].
             exfalso. apply Ng. apply M3. now apply mem_str_In.
          -- intros C. pose proof (ref_name_local gn f Hwf (Loc v) Hr) as L. cbn in L.
             destruct (wfr_loc gn f Hwf v Hr) as (d & Hd & Ev & Fv). cbn in C, L. rewrite Fv in C.
             apply (NoDup_app_disj _ _ (def_name d) Nl); [assumption | now apply in_map].
        * cbn [ref_name]. rewrite ploc_notin.
          -- cbn [vlookup]. rewrite M2, K. reflexivity.
          -- intros C. apply (Dg s); [unfold func_local_names; apply in_or_app; now left|].
             unfold wfr in Hr. cbn in Hr. now apply mem_str_In.
      + intros r t Hr P. destruct (M10 _ _ P) as (-> & Hin & _).
        destruct r as [v|n|s|s]; try reflexivity; exfalso.
        * now apply (local_not_global (Loc v) Hr ltac:(discriminate)).
        * now apply (local_not_global (Param n) Hr ltac:(discriminate)).
    - reflexivity.
    - reflexivity.
    - reflexivity.
    - reflexivity.
    - unfold all_built. cbn. rewrite !app_nil_r. exact M8.
    - exact M9.
    - intros s Hs. apply plookup_in in Hs. destruct (plookup s (rs_pend st1)) as [t|] eqn:P; [|congruence].
      destruct (M10 s t P) as (_ & Hin & Hk). exists (Glob s). repeat split.
      + unfold wfr. cbn. now apply mem_str_In.
      + exact Hk.
    - intros i [].
    - reflexivity.
  Qed.
End SubInit.

Lemma hide_end gn f (Hwf : wf_func gn f = true) gk r :
  wfr gn f r -> hide f (pshift 1 (List.length (func_defs f))) gk r = hideG gk r.
Proof.
  intros Hr. unfold hide. destruct r as [v|n|s|s]; cbn [known hideG ref_name]; try reflexivity.
  - destruct (wf_parts gn f Hwf) as (_ & Di & _). unfold wfr in Hr. cbn in Hr. apply mem_pos_In in Hr.
    rewrite Di in Hr. apply seq_pos_lt in Hr. apply Pos.ltb_lt in Hr. now rewrite Hr.
Qed.

Lemma final_MInv gn gk done f st1 st4 :
  MInv gn gk done st1 -> wf_func gn f = true -> ctor_ok_func f = true ->
  FInv gn f (rs_funcs st1) (rs_glob st1) (pshift 1 (List.length (func_defs f))) gk (IRSyntax.f_blocks f) [] st4 ->
  MInv gn gk (done ++ [f])
    (mk_rst (rs_glob st4) [] false (rs_pend st4) 1 []
            (rs_funcs st4 ++ [mk_func (f_name f) (f_binding f) (f_ret f) (f_params f) (rs_blocks st4)]) [] []).
Proof.
  intros [M1 M2 M3 M4 M5 M6 M7 M8 M9 M10] Hwf Hct [J1 J2 J3 J4 J5 J6 J7 J8 J9 J10].
  assert (Wf : forall i r, In i (func_instrs f) -> In r (instr_uses i) -> wfr gn f r).
  { intros i r Hi Hr. destruct (instr_facts gn f Hwf Hct i Hi) as (Fu & _). rewrite Forall_forall in Fu. now apply Fu. }
  assert (Ef : mk_func (f_name f) (f_binding f) (f_ret f) (f_params f) (rs_blocks st4) = hideF gk f).
  { rewrite J4. unfold hideF, mapf. f_equal. apply map_ext_in. intros k Hk. unfold hb, mapb. f_equal.
    apply map_ext_in. intros i Hi. apply map_refs_ext. intros r Hr. apply (hide_end gn f Hwf).
    apply (Wf i r); [|assumption]. unfold func_instrs. apply in_flat_map. exists k. now split. }
  constructor; cbn.
  - reflexivity.
  - intros s. rewrite J10. apply M2.
  - exact M3.
  - rewrite J3, M4, map_app. cbn [map]. now rewrite Ef.
  - reflexivity.
  - reflexivity.
  - intros g i r Hg Hi Hr. apply in_app_iff in Hg. destruct Hg as [Hg|[<-|[]]]; [now apply (M7 g i r)|]. now apply (Wf i r).
  - intros i s Hi Hs. apply (J6 i s); [|assumption]. unfold all_built. rewrite flat_map_app in Hi. cbn in Hi.
    rewrite app_nil_r in Hi. rewrite J5. cbn [app]. rewrite app_nil_r. exact Hi.
  - exact J7.
  - intros s t P. assert (Hs : In s (map fst (rs_pend st4))) by (apply plookup_in; congruence).
    destruct (J8 s Hs) as (r & Hr & En & Kn). pose proof (si_pend _ _ _ _ _ J1 r t Hr) as Tp. rewrite En in Tp. specialize (Tp P).
    destruct r as [v|n|s'|s']; cbn in Kn; try discriminate.
    + exfalso. destruct (wf_parts gn f Hwf) as (_ & Di & _). unfold wfr in Hr. cbn in Hr. apply mem_pos_In in Hr.
      rewrite Di in Hr. apply seq_pos_lt in Hr. apply Pos.ltb_lt in Hr. congruence.
    + cbn in En. subst s'. cbn in Tp. split; [assumption|]. split; [|assumption]. unfold wfr in Hr. cbn in Hr. now apply mem_str_In.
Qed.

(* ---- one subroutine in a module scope *)
Lemma function_read gn gk done f st j :
  MInv gn gk done st -> wf_func gn f = true -> ctor_ok_func f = true ->
  In (f_name f) gn -> mem_str (f_name f) gk = false ->
  write_subroutine cfg_fixed f = Ok j ->
  exists st', construct_subroutine cfg_fixed j st = Ok st' /\ MInv gn (f_name f :: gk) (done ++ [f]) st'.
Proof.
  intros M Hwf Hct Hn Hk Hw.
  unfold write_subroutine in Hw. destruct (mapM (write_block cfg_fixed f) (IRSyntax.f_blocks f)) as [bjs| | |] eqn:Wb; try discriminate.
  cbn [bind] in Hw.
  destruct (reg_global gn gk done (f_name f) st M Hn Hk) as [R M1].
  set (st1 := reg_state (f_name f) (Glob (f_name f)) Ptr st) in *.
  destruct (wf_parts gn f Hwf) as (Bi & Di & Sh & Wi & Nl & Dg & Bn & Dn).
  pose proof (fs_glob_of gn (f_name f :: gk) done st1 M1) as Hfs.
  pose proof (ctx_of gn f Hwf (rs_funcs st1) Hfs) as Hctx.
  pose proof (init_FInv gn (f_name f :: gk) done f st1 M1 Hwf) as I0.
  assert (Hscan : scan_value_types bjs = Ok (vt_of f)).
  { rewrite (scan_blocks f _ _ Wb); [reflexivity|]. exact Hct. }
  assert (Hpar : construct_params cfg_fixed (map wparam (f_params f)) 0 []
                   (mk_rst (rs_glob st1) [] true (rs_pend st1) 1 (bm_of f) (rs_funcs st1) [] [])
                 = Ok (f_params f, st_enter f st1)).
  { rewrite (params_read gn); try reflexivity.
    - cbn. exact (m_cov _ _ _ _ M1).
    - exact Hfs.
    - intros p Hp. assert (Hl : In (fst p) (func_local_names f)) by (unfold func_local_names; apply in_or_app; left; now apply in_map).
      split; [apply mem_str_false; now apply Dg|]. split; [|reflexivity]. cbn [rs_pend].
      destruct (plookup (fst p) (rs_pend st1)) as [t|] eqn:P; [|reflexivity].
      destruct (m_pend _ _ _ _ M1 _ _ P) as (_ & Hin & _). now apply Dg in Hl.
    - apply (params_nodup gn f Hwf). }
  destruct (blocks_fold gn f (rs_funcs st1) (rs_glob st1) Hwf Hct Hctx (f_name f :: gk) (IRSyntax.f_blocks f) [] (st_enter f st1) bjs)
    as (st4 & E4 & I4 & B4); [reflexivity | exact I0 | reflexivity | exact Wb |].
  cbn [app] in I4.
  pose proof (final_MInv gn (f_name f :: gk) done f st1 st4 M1 Hwf Hct I4) as MF.
  eexists. split; [|exact MF].
  assert (Hbn : mapM (jstr "name") bjs = Ok (map b_name (IRSyntax.f_blocks f))) by (now apply (block_names_read f)).
  unfold jstr in Hbn.
  assert (Hnd : nodup_str (map b_name (IRSyntax.f_blocks f)) = true) by (now apply nodup_str_true).
  destruct (f_ret f) as [rt|] eqn:Rt; inversion Hw; subst j; clear Hw;
    unfold construct_subroutine, jstr; cbn [app jget jlookup String.eqb Ascii.eqb Bool.eqb bind as_str as_list];
    rewrite binding_roundtrip; cbn [bind]; try rewrite type_roundtrip; cbn [bind];
    rewrite R; cbn [bind]; rewrite Hbn; cbn [bind]; rewrite Hnd; cbn [check bind];
    change (map (fun p : string * ty => JObj [("name", JStr (fst p)); ("type", write_type (snd p))]) (f_params f))
      with (map wparam (f_params f));
    fold (bm_of f); fold st1; rewrite Hpar; cbn [bind fix_fwdtype cfg_fixed]; rewrite Hscan; cbn [bind];
    rewrite E4; cbn [bind]; reflexivity.
Qed.

(* ---- non-vacuity of function_read: the subroutine of the forward-operand witness, read in the empty module scope *)
Lemma MInv_init gn : MInv gn [] [] rst0.
Proof.
  constructor; cbn; try reflexivity; try tauto.
  - intros i s [].
  - constructor.
  - intros s t H. discriminate.
Qed.
Lemma nv_function : exists j st',
  write_subroutine cfg_fixed nv_f = Ok j /\ construct_subroutine cfg_fixed j rst0 = Ok st' /\
  MInv nv_gn ["pr"] [nv_f] st' /\ rs_funcs st' = [nv_f] /\ rs_pend st' = [].
Proof.
  destruct (write_subroutine cfg_fixed nv_f) as [j| | |] eqn:W; try (vm_compute in W; discriminate).
  destruct (function_read nv_gn [] [] nv_f rst0 j (MInv_init nv_gn)) as (st' & E & M); try (vm_compute; reflexivity); try exact W.
  { now left. }
  exists j, st'. split; [reflexivity|]. split; [exact E|]. split; [exact M|].
  vm_compute in W. inversion W; subst j. vm_compute in E. inversion E. split; reflexivity.
Qed.
