(* Proofs/C25_bounded.v — bounded theorems (exhaustive vm_compute, bound in the statement) for the
   hand models of Model/DomTree.v: on EVERY graph with 1 to 4 nodes (all 2^(n*n) adjacency
   relations, self loops and unreachable nodes included, entry = node 0) the models of
   dominates/strictly_dominates (tree + interval numbering), calculate_dominance_frontier,
   calculate_post_dominators and calculate_reach return the reference answers of Model/DomRef.v,
   which Proofs/C25_ref.v proves equal to the path-based definitions. *)
From PV Require Import Lib.Py.
From PV Require Import Spec.CfgSpec Model.DomRef Model.DomTree.
Close Scope Z_scope.
Open Scope nat_scope.

Fixpoint lleqb (a b : list (list nat)) : bool :=
  match a, b with
  | [], [] => true
  | x :: a', y :: b' => list_eqb x y && lleqb a' b'
  | _, _ => false
  end.

Lemma list_eqb_eq a : forall b, list_eqb a b = true -> a = b.
Proof.
  induction a as [|x a IH]; intros [|y b]; simpl; intros H; try discriminate; auto.
  apply andb_true_iff in H. destruct H as [H1 H2]. apply Nat.eqb_eq in H1. f_equal; auto.
Qed.

Lemma lleqb_eq a : forall b, lleqb a b = true -> a = b.
Proof.
  induction a as [|x a IH]; intros [|y b]; simpl; intros H; try discriminate; auto.
  apply andb_true_iff in H. destruct H as [H1 H2]. apply list_eqb_eq in H1. f_equal; auto.
Qed.

(* ---- dominates / strictly_dominates through build_tree + number_tree + interval tests *)
Definition chk_dom (g : graph) : bool :=
  match tree_intervals g 0 (idom_list g 0) with
  | Ok iv => lleqb (query_rows below_or_same (length g) iv) (dom_rows g 0) &&
             lleqb (query_rows below (length g) iv) (sdom_rows g 0)
  | _ => false
  end.

(* ---- Cytron dominance frontier on the true idom map, for the nodes of the tree *)
Definition chk_df (g : graph) : bool :=
  let R := reach_from g 0 in
  match df_by_node g 0 (idom_list g 0) with
  | Ok l => forallb (fun x =>
              match nth x l None with
              | Some s => mem x R && list_eqb s (nth x (df_list g 0) [])
              | None => negb (mem x R)
              end) (seq 0 (length g))
  | _ => false
  end.

(* ---- post dominators, for every exit candidate (node without successors) *)
Definition chk_pdom (g : graph) : bool :=
  forallb (fun x =>
    match succs g x with
    | [] => match post_dominators (length g * length g + 2) g x with
            | Ok pd => lleqb pd (pdom_rows g x)
            | _ => false
            end
    | _ => true
    end) (seq 0 (length g)).

Definition chk_reach (g : graph) : bool :=
  match calculate_reach (length g * length g + 2) g with
  | Ok rs => lleqb rs (reach_rows g)
  | _ => false
  end.

Definition small_graphs : list graph :=
  all_graphs 1 ++ all_graphs 2 ++ all_graphs 3 ++ all_graphs 4.

Lemma small_graphs_in n g : 1 <= n <= 4 -> In g (all_graphs n) -> In g small_graphs.
Proof.
  intros Hn Hg. unfold small_graphs. rewrite !in_app_iff.
  assert (E : n = 1 \/ n = 2 \/ n = 3 \/ n = 4) by lia.
  destruct E as [->|[->|[->| ->]]].
  - left; exact Hg.
  - right; left; exact Hg.
  - right; right; left; exact Hg.
  - right; right; right; exact Hg.
Qed.

Lemma all_small : forallb (fun g => chk_dom g && chk_df g && chk_pdom g && chk_reach g) small_graphs = true.
Proof. vm_cast_no_check (eq_refl true). Qed.

Lemma small_checks n g : 1 <= n <= 4 -> In g (all_graphs n) ->
  chk_dom g = true /\ chk_df g = true /\ chk_pdom g = true /\ chk_reach g = true.
Proof.
  intros Hn Hg. pose proof all_small as H. rewrite forallb_forall in H.
  specialize (H g (small_graphs_in n g Hn Hg)).
  repeat (apply andb_true_iff in H; destruct H as [H ?]). auto.
Qed.

Theorem dominates_bounded n g : 1 <= n <= 4 -> In g (all_graphs n) ->
  exists iv, tree_intervals g 0 (idom_list g 0) = Ok iv /\
    query_rows below_or_same (length g) iv = dom_rows g 0 /\
    query_rows below (length g) iv = sdom_rows g 0.
Proof.
  intros Hn Hg. destruct (small_checks n g Hn Hg) as [H _]. unfold chk_dom in H.
  destruct (tree_intervals g 0 (idom_list g 0)) as [iv| | |]; try discriminate.
  exists iv. apply andb_true_iff in H. destruct H as [H1 H2].
  repeat split; auto using lleqb_eq.
Qed.

Theorem df_bounded n g : 1 <= n <= 4 -> In g (all_graphs n) ->
  exists l, df_by_node g 0 (idom_list g 0) = Ok l /\
    forall x, x < length g ->
      (reachable_ref g 0 x = true -> nth x l None = Some (nth x (df_list g 0) [])) /\
      (reachable_ref g 0 x = false -> nth x l None = None).
Proof.
  intros Hn Hg. destruct (small_checks n g Hn Hg) as [_ [H _]]. unfold chk_df in H.
  destruct (df_by_node g 0 (idom_list g 0)) as [l| | |]; try discriminate.
  exists l. split; auto. intros x Hx. rewrite forallb_forall in H.
  assert (Hi : In x (seq 0 (length g))) by (apply in_seq; lia).
  specialize (H x Hi). unfold reachable_ref.
  destruct (nth x l None) as [s|].
  - apply andb_true_iff in H. destruct H as [H1 H2]. apply list_eqb_eq in H2. subst.
    split; auto. rewrite H1. discriminate.
  - apply negb_true_iff in H. rewrite H. split; auto. discriminate.
Qed.

Theorem pdom_bounded n g x : 1 <= n <= 4 -> In g (all_graphs n) -> x < length g -> succs g x = [] ->
  post_dominators (length g * length g + 2) g x = Ok (pdom_rows g x).
Proof.
  intros Hn Hg Hx Hs. destruct (small_checks n g Hn Hg) as [_ [_ [H _]]]. unfold chk_pdom in H.
  rewrite forallb_forall in H.
  assert (Hi : In x (seq 0 (length g))) by (apply in_seq; lia).
  specialize (H x Hi). rewrite Hs in H.
  destruct (post_dominators (length g * length g + 2) g x) as [pd| | |]; try discriminate.
  f_equal. now apply lleqb_eq.
Qed.

Theorem reach_bounded n g : 1 <= n <= 4 -> In g (all_graphs n) ->
  calculate_reach (length g * length g + 2) g = Ok (reach_rows g).
Proof.
  intros Hn Hg. destruct (small_checks n g Hn Hg) as [_ [_ [_ H]]]. unfold chk_reach in H.
  destruct (calculate_reach (length g * length g + 2) g) as [rs| | |]; try discriminate.
  f_equal. now apply lleqb_eq.
Qed.
