(* Proofs/C25_intervals.v — the interval numbering of _number_dominator_tree (explicit-stack
   DFS, Model/DomTree.v) decides the ancestor relation of the tree: for every tree with distinct
   labels, below_or_same a b <-> b is an ancestor-or-self of a.  Unbounded. *)
From PV Require Import Lib.Py.
From PV Require Import Spec.CfgSpec Model.DomRef Model.DomTree.
Close Scope Z_scope.
Open Scope nat_scope.

(* ------------------------------------------------------------------ recursive description *)
Fixpoint size (tr : dtree) : nat :=
  match tr with DNode _ cs => S (list_sum (map size cs)) end.
Definition sizes (cs : list dtree) : nat := list_sum (map size cs).

Fixpoint ivs (tr : dtree) (t : nat) : list (nat * (nat * nat)) :=
  match tr with
  | DNode x cs =>
    (x, (t, t + 1 + 2 * sizes cs)) ::
    (fix go (l : list dtree) : list (nat * (nat * nat)) :=
       match l with
       | [] => []
       | c :: l' => ivs c (t + 1 + 2 * sizes l') ++ go l'
       end) cs
  end.

(* children c1..ck: the last child is numbered first (it is on top of the stack) *)
Fixpoint ivs_list (cs : list dtree) (t0 : nat) : list (nat * (nat * nat)) :=
  match cs with
  | [] => []
  | c :: l' => ivs c (t0 + 2 * sizes l') ++ ivs_list l' t0
  end.

Lemma ivs_unfold x cs t :
  ivs (DNode x cs) t = (x, (t, t + 1 + 2 * sizes cs)) :: ivs_list cs (t + 1).
Proof.
  cbn [ivs]. f_equal. induction cs as [|c l IH]; cbn [ivs_list]; auto. now rewrite IH.
Qed.

Lemma dtree_ind' (P : dtree -> Prop) :
  (forall x cs, Forall P cs -> P (DNode x cs)) -> forall t, P t.
Proof.
  intros H. fix IH 1. intros [x cs]. apply H.
  induction cs; constructor; auto.
Qed.

Lemma sizes_cons c l : sizes (c :: l) = size c + sizes l.
Proof. reflexivity. Qed.

Lemma sizes_snoc l c : sizes (l ++ [c]) = sizes l + size c.
Proof. unfold sizes. rewrite map_app, list_sum_app. simpl. lia. Qed.

Lemma size_node x cs : size (DNode x cs) = S (sizes cs).
Proof. reflexivity. Qed.

Lemma ivs_list_snoc l c t :
  ivs_list (l ++ [c]) t = ivs_list l (t + 2 * size c) ++ ivs c t.
Proof.
  induction l as [|a l IH]; cbn [ivs_list app].
  - unfold sizes. simpl. rewrite app_nil_r. f_equal. lia.
  - rewrite IH, sizes_snoc, app_assoc. f_equal. f_equal. f_equal. lia.
Qed.

(* ------------------------------------------------------------------ keys *)
Lemma ivs_keys : forall tr t, map fst (ivs tr t) = labels tr.
Proof.
  induction tr as [x cs IH] using dtree_ind'. intros t. rewrite ivs_unfold. cbn [map fst labels].
  f_equal. generalize (t + 1). induction IH as [|c l Hc _ IHl]; intros t0; cbn [ivs_list flat_map]; auto.
  now rewrite map_app, Hc, IHl.
Qed.

Lemma ivs_list_keys cs t0 : map fst (ivs_list cs t0) = flat_map labels cs.
Proof.
  induction cs as [|c l IH]; cbn [ivs_list flat_map]; auto.
  now rewrite map_app, ivs_keys, IH.
Qed.

Lemma ivs_key_in tr t a i : In (a, i) (ivs tr t) -> In a (labels tr).
Proof. intros H. rewrite <- (ivs_keys tr t). now apply (in_map fst) in H. Qed.

Lemma ivs_list_key_in cs t a i : In (a, i) (ivs_list cs t) -> In a (flat_map labels cs).
Proof. intros H. rewrite <- (ivs_list_keys cs t). now apply (in_map fst) in H. Qed.

(* ------------------------------------------------------------------ bounds *)
Definition bounded_in (I : list (nat * (nat * nat))) (lo0 hi0 : nat) : Prop :=
  forall a lo hi, In (a, (lo, hi)) I -> lo0 <= lo /\ lo < hi /\ hi < hi0.

Lemma ivs_list_bounds cs :
  Forall (fun c => forall t, bounded_in (ivs c t) t (t + 2 * size c)) cs ->
  forall t0, bounded_in (ivs_list cs t0) t0 (t0 + 2 * sizes cs).
Proof.
  induction 1 as [|c l Hc _ IHl]; intros t0 a lo hi Hin; cbn [ivs_list] in Hin.
  - inversion Hin.
  - rewrite sizes_cons. apply in_app_or in Hin. destruct Hin as [Hin|Hin].
    + apply Hc in Hin. lia.
    + apply IHl in Hin. lia.
Qed.

Lemma ivs_bounds : forall tr t, bounded_in (ivs tr t) t (t + 2 * size tr).
Proof.
  induction tr as [x cs IH] using dtree_ind'. intros t a lo hi Hin.
  rewrite ivs_unfold in Hin. rewrite size_node. destruct Hin as [Hin|Hin].
  - inversion Hin; subst. lia.
  - apply (ivs_list_bounds cs IH) in Hin. lia.
Qed.

(* ------------------------------------------------------------------ tanc facts *)
Lemma tanc_labels tr b a : tanc tr b a -> In b (labels tr) /\ In a (labels tr).
Proof.
  induction 1 as [x cs a Ha|x cs c b a Hc Ht [IH1 IH2]].
  - split; auto. simpl; auto.
  - split; simpl; right; apply in_flat_map; eauto.
Qed.

Lemma NoDup_app_inv {A} (l1 l2 : list A) :
  NoDup (l1 ++ l2) -> NoDup l1 /\ NoDup l2 /\ forall x, In x l1 -> ~ In x l2.
Proof.
  induction l1 as [|a l1 IH]; simpl; intros H.
  - repeat split; auto. constructor.
  - inversion H; subst. destruct (IH H3) as [N1 [N2 D]]. repeat split; auto.
    + constructor; auto. intros Hin. apply H2. apply in_or_app; auto.
    + intros x [->|Hx]; auto. intros Hin. apply H2. apply in_or_app; auto.
Qed.

Definition contains (ib ia : nat * nat) : Prop := fst ib <= fst ia /\ snd ia <= snd ib.

Definition nest_spec_list (cs : list dtree) (I : list (nat * (nat * nat))) : Prop :=
  forall a ia b ib, In (a, ia) I -> In (b, ib) I ->
    (contains ib ia <-> exists c, In c cs /\ tanc c b a).

Definition nest_spec (tr : dtree) (I : list (nat * (nat * nat))) : Prop :=
  forall a ia b ib, In (a, ia) I -> In (b, ib) I -> (contains ib ia <-> tanc tr b a).

Lemma ivs_list_nest cs :
  Forall (fun c => NoDup (labels c) -> forall t, nest_spec c (ivs c t)) cs ->
  NoDup (flat_map labels cs) -> forall t0, nest_spec_list cs (ivs_list cs t0).
Proof.
  induction 1 as [|c l Hc _ IHl]; intros Hnd t0 a ia b ib Ha Hb; cbn [ivs_list] in *.
  - inversion Ha.
  - cbn [flat_map] in Hnd. destruct (NoDup_app_inv _ _ Hnd) as [N1 [N2 Dj]].
    assert (Hsub : forall c' x, In c' l -> In x (labels c') -> In x (flat_map labels l))
      by (intros; apply in_flat_map; eauto).
    apply in_app_or in Ha. apply in_app_or in Hb.
    destruct Ha as [Ha|Ha]; destruct Hb as [Hb|Hb].
    + rewrite (Hc N1 _ a ia b ib Ha Hb). split.
      * intros Ht. exists c. split; simpl; auto.
      * intros [c' [[<-|Hin] Ht]]; auto. exfalso.
        apply tanc_labels in Ht. apply (Dj a); eauto using ivs_key_in. apply (Hsub c'); tauto.
    + (* a in c, b in l *)
      destruct ia as [alo ahi], ib as [blo bhi].
      pose proof (ivs_bounds c _ _ _ _ Ha).
      assert (Hbb : bounded_in (ivs_list l t0) t0 (t0 + 2 * sizes l)).
      { apply ivs_list_bounds. apply Forall_forall. intros; apply ivs_bounds. }
      pose proof (Hbb _ _ _ Hb). split.
      * unfold contains; simpl. lia.
      * intros [c' [[<-|Hin] Ht]]; apply tanc_labels in Ht; exfalso.
        -- apply (Dj b); try tauto. eapply ivs_list_key_in; eauto.
        -- apply (Dj a); eauto using ivs_key_in. apply (Hsub c'); tauto.
    + (* a in l, b in c *)
      destruct ia as [alo ahi], ib as [blo bhi].
      pose proof (ivs_bounds c _ _ _ _ Hb).
      assert (Hbb : bounded_in (ivs_list l t0) t0 (t0 + 2 * sizes l)).
      { apply ivs_list_bounds. apply Forall_forall. intros; apply ivs_bounds. }
      pose proof (Hbb _ _ _ Ha). split.
      * unfold contains; simpl. lia.
      * intros [c' [[<-|Hin] Ht]]; apply tanc_labels in Ht; exfalso.
        -- apply (Dj a); try tauto. eapply ivs_list_key_in; eauto.
        -- apply (Dj b); eauto using ivs_key_in. apply (Hsub c'); tauto.
    + rewrite (IHl N2 t0 a ia b ib Ha Hb). split.
      * intros [c' [Hin Ht]]. exists c'. split; simpl; auto.
      * intros [c' [[<-|Hin] Ht]]; eauto. exfalso.
        apply tanc_labels in Ht. apply (Dj a); try tauto. eapply ivs_list_key_in; eauto.
Qed.

Lemma ivs_nest : forall tr, NoDup (labels tr) -> forall t, nest_spec tr (ivs tr t).
Proof.
  induction tr as [x cs IH] using dtree_ind'. intros Hnd t a ia b ib Ha Hb.
  rewrite ivs_unfold in Ha, Hb. cbn [labels] in Hnd. inversion Hnd as [|? ? Hx Hnd']; subst.
  assert (HB : bounded_in (ivs_list cs (t + 1)) (t + 1) (t + 1 + 2 * sizes cs)).
  { apply ivs_list_bounds. apply Forall_forall. intros; apply ivs_bounds. }
  pose proof (ivs_list_nest cs IH Hnd' (t + 1)) as HN.
  destruct Ha as [Ha|Ha]; destruct Hb as [Hb|Hb].
  - inversion Ha; inversion Hb; subst. split.
    + intros _. apply tanc_root. simpl; auto.
    + intros _. unfold contains; simpl. lia.
  - (* a root, b below *)
    inversion Ha; subst. destruct ib as [blo bhi]. pose proof (HB _ _ _ Hb). split.
    + unfold contains; simpl. lia.
    + intros Ht. exfalso. apply Hx. inversion Ht; subst.
      * eapply ivs_list_key_in; eauto.
      * apply tanc_labels in H5. apply in_flat_map. exists c. tauto.
  - (* b root, a below *)
    inversion Hb; subst. destruct ia as [alo ahi]. pose proof (HB _ _ _ Ha). split.
    + intros _. apply tanc_root. simpl. right. eapply ivs_list_key_in; eauto.
    + intros _. unfold contains; simpl. lia.
  - rewrite (HN a ia b ib Ha Hb). split.
    + intros [c [Hin Ht]]. eapply tanc_child; eauto.
    + intros Ht. inversion Ht; subst.
      * exfalso. apply Hx. eapply ivs_list_key_in; eauto.
      * eauto.
Qed.


(* strictness: a proper ancestor's interval is strictly wider on both sides *)
Definition strict_spec (I : list (nat * (nat * nat))) : Prop :=
  forall a ia b ib, In (a, ia) I -> In (b, ib) I -> contains ib ia -> a <> b ->
    fst ib < fst ia /\ snd ia < snd ib.

Lemma ivs_list_strict cs :
  Forall (fun c => forall t, strict_spec (ivs c t)) cs -> forall t0, strict_spec (ivs_list cs t0).
Proof.
  induction 1 as [|c l Hc _ IHl]; intros t0 a ia b ib Ha Hb Hcont Hne; cbn [ivs_list] in *.
  - inversion Ha.
  - assert (Hbb : bounded_in (ivs_list l t0) t0 (t0 + 2 * sizes l)).
    { apply ivs_list_bounds. apply Forall_forall. intros; apply ivs_bounds. }
    apply in_app_or in Ha. apply in_app_or in Hb.
    destruct Ha as [Ha|Ha]; destruct Hb as [Hb|Hb].
    + eapply Hc; eauto.
    + destruct ia as [alo ahi], ib as [blo bhi].
      pose proof (ivs_bounds c _ _ _ _ Ha). apply Hbb in Hb.
      unfold contains in Hcont; simpl in *. lia.
    + destruct ia as [alo ahi], ib as [blo bhi].
      pose proof (ivs_bounds c _ _ _ _ Hb). apply Hbb in Ha.
      unfold contains in Hcont; simpl in *. lia.
    + eapply IHl; eauto.
Qed.

Lemma ivs_strict : forall tr t, strict_spec (ivs tr t).
Proof.
  induction tr as [x cs IH] using dtree_ind'. intros t a ia b ib Ha Hb Hcont Hne.
  rewrite ivs_unfold in Ha, Hb.
  assert (HB : bounded_in (ivs_list cs (t + 1)) (t + 1) (t + 1 + 2 * sizes cs)).
  { apply ivs_list_bounds. apply Forall_forall. intros; apply ivs_bounds. }
  destruct Ha as [Ha|Ha]; destruct Hb as [Hb|Hb].
  - inversion Ha; inversion Hb; subst. congruence.
  - inversion Ha; subst. destruct ib as [blo bhi]. pose proof (HB _ _ _ Hb).
    unfold contains in Hcont; simpl in *. lia.
  - inversion Hb; subst. destruct ia as [alo ahi]. pose proof (HB _ _ _ Ha). simpl. lia.
  - eapply (ivs_list_strict cs IH); eauto.
Qed.

(* ------------------------------------------------------------------ the loop computes ivs *)
Definition ext (disc disc' : list (nat * nat)) (L : list nat) : Prop :=
  (forall k, In k L -> alookup k disc' <> None) /\
  (forall k, ~ In k L -> alookup k disc' = alookup k disc).

Definition loop_tree_spec (tr : dtree) : Prop :=
  NoDup (labels tr) -> forall t disc,
  (forall k, In k (labels tr) -> alookup k disc = None) ->
  exists disc', ext disc disc' (labels tr) /\
    forall fuel rest iv,
      number_loop (2 * size tr + fuel) t (tr :: rest) disc iv =
      number_loop fuel (t + 2 * size tr) rest disc' (ivs tr t ++ iv).

Lemma loop_list cs :
  Forall loop_tree_spec cs ->
  NoDup (flat_map labels cs) -> forall t disc,
  (forall k, In k (flat_map labels cs) -> alookup k disc = None) ->
  exists disc', ext disc disc' (flat_map labels cs) /\
    forall fuel rest iv,
      number_loop (2 * sizes cs + fuel) t (rev cs ++ rest) disc iv =
      number_loop fuel (t + 2 * sizes cs) rest disc' (ivs_list cs t ++ iv).
Proof.
  induction cs as [|c l IH] using rev_ind; intros HF Hnd t disc Hfresh.
  - exists disc. split.
    + split; [intros k []|auto].
    + intros. unfold sizes. simpl. now rewrite Nat.add_0_r.
  - apply Forall_app in HF. destruct HF as [HFl HFc]. inversion HFc as [|? ? Hc _]; subst.
    rewrite flat_map_app in Hnd, Hfresh |- *. cbn [flat_map] in Hnd, Hfresh |- *.
    rewrite app_nil_r in Hnd, Hfresh |- *.
    destruct (NoDup_app_inv _ _ Hnd) as [N1 [N2 Dj]].
    destruct (Hc N2 t disc) as [disc1 [[E1a E1b] L1]].
    { intros k Hk. apply Hfresh. apply in_or_app; auto. }
    destruct (IH HFl N1 (t + 2 * size c) disc1) as [disc2 [[E2a E2b] L2]].
    { intros k Hk. rewrite E1b by (now apply Dj). apply Hfresh. apply in_or_app; auto. }
    exists disc2. split.
    + split.
      * intros k Hk. destruct (in_dec Nat.eq_dec k (flat_map labels l)) as [Hi|Hi]; auto.
        rewrite E2b by auto. apply E1a. apply in_app_or in Hk. tauto.
      * intros k Hk. rewrite E2b, E1b; auto; intros Hi; apply Hk; apply in_or_app; auto.
    + intros fuel rest iv. rewrite rev_unit. cbn [app].
      replace (2 * sizes (l ++ [c]) + fuel) with (2 * size c + (2 * sizes l + fuel))
        by (rewrite sizes_snoc; lia).
      rewrite L1, L2, ivs_list_snoc, <- app_assoc.
      f_equal. rewrite sizes_snoc. lia.
Qed.

Lemma loop_tree : forall tr, loop_tree_spec tr.
Proof.
  induction tr as [x cs IH] using dtree_ind'. intros Hnd t disc Hfresh.
  cbn [labels] in Hnd, Hfresh. inversion Hnd as [|? ? Hx Hnd']; subst.
  destruct (loop_list cs IH Hnd' (t + 1) ((x, t) :: disc)) as [disc1 [[Ea Eb] L]].
  { intros k Hk. cbn [alookup]. destruct (k =? x) eqn:E.
    - apply Nat.eqb_eq in E. subst. contradiction.
    - apply Hfresh. simpl; auto. }
  exists disc1. split.
  - split.
    + intros k [<-|Hk]; auto. rewrite Eb by auto. cbn [alookup]. rewrite Nat.eqb_refl. discriminate.
    + intros k Hk. rewrite Eb by (intros Hi; apply Hk; simpl; auto).
      cbn [alookup]. destruct (k =? x) eqn:E; auto.
      apply Nat.eqb_eq in E. subst. exfalso. apply Hk. simpl; auto.
  - intros fuel rest iv. rewrite size_node.
    replace (2 * S (sizes cs) + fuel) with (S (2 * sizes cs + S fuel)) by lia.
    cbn [number_loop]. rewrite (Hfresh x) by (simpl; auto).
    rewrite L. cbn [number_loop].
    rewrite Eb by auto. cbn [alookup]. rewrite Nat.eqb_refl.
    rewrite ivs_unfold. cbn [app].
    replace (t + 1 + 2 * sizes cs + 1) with (t + 2 * S (sizes cs)) by lia.
    reflexivity.
Qed.

Theorem number_tree_ivs tr fuel :
  NoDup (labels tr) -> 2 * size tr < fuel -> number_tree fuel tr = Ok (ivs tr 0).
Proof.
  intros Hnd Hf. unfold number_tree.
  destruct (loop_tree tr Hnd 0 []) as [disc' [_ L]]; [reflexivity|].
  replace fuel with (2 * size tr + S (fuel - 2 * size tr - 1)) by lia.
  rewrite L. cbn [number_loop]. now rewrite app_nil_r.
Qed.

(* ------------------------------------------------------------------ lookup *)
Lemma alookup_in {A} (m : list (nat * A)) k v :
  NoDup (map fst m) -> In (k, v) m -> alookup k m = Some v.
Proof.
  induction m as [|[k' v'] m IH]; simpl; intros Hnd Hin; [tauto|].
  inversion Hnd; subst. destruct Hin as [Hin|Hin].
  - inversion Hin; subst. now rewrite Nat.eqb_refl.
  - destruct (k =? k') eqn:E; auto.
    apply Nat.eqb_eq in E. subst. exfalso. apply H1. now apply (in_map fst) in Hin.
Qed.

Lemma in_keys_exists {A} (m : list (nat * A)) k : In k (map fst m) -> exists v, In (k, v) m.
Proof.
  intros H. apply in_map_iff in H. destruct H as [[k' v] [E H]]. simpl in E. subst. eauto.
Qed.

Theorem intervals_correct tr fuel :
  NoDup (labels tr) -> 2 * size tr < fuel ->
  exists iv, number_tree fuel tr = Ok iv /\
    forall a b, In a (labels tr) -> In b (labels tr) ->
      exists ia ib, alookup a iv = Some ia /\ alookup b iv = Some ib /\
        (below_or_same ia ib = true <-> tanc tr b a) /\
        (below ia ib = true <-> tanc tr b a /\ a <> b).
Proof.
  intros Hnd Hf. exists (ivs tr 0). split; [now apply number_tree_ivs|].
  intros a b Ha Hb.
  assert (Hk : NoDup (map fst (ivs tr 0))) by now rewrite ivs_keys.
  rewrite <- (ivs_keys tr 0) in Ha, Hb.
  destruct (in_keys_exists _ _ Ha) as [ia Hia]. destruct (in_keys_exists _ _ Hb) as [ib Hib].
  exists ia, ib. rewrite (alookup_in _ _ _ Hk Hia), (alookup_in _ _ _ Hk Hib).
  repeat split; auto.
  - intros H. apply (ivs_nest tr Hnd 0 a ia b ib Hia Hib).
    unfold below_or_same in H. apply andb_true_iff in H. destruct H as [H1 H2].
    apply Nat.leb_le in H1, H2. split; auto.
  - intros H. apply (ivs_nest tr Hnd 0 a ia b ib Hia Hib) in H. destruct H as [H1 H2].
    unfold below_or_same. apply andb_true_iff. split; now apply Nat.leb_le.
  - apply (ivs_nest tr Hnd 0 a ia b ib Hia Hib).
    unfold below in H. apply andb_true_iff in H. destruct H as [H1 H2].
    apply Nat.ltb_lt in H1, H2. split; lia.
  - intros ->. unfold below in H. apply andb_true_iff in H. destruct H as [H1 _].
    apply Nat.ltb_lt in H1.
    assert (ia = ib).
    { pose proof (alookup_in _ _ _ Hk Hia) as E1. rewrite (alookup_in _ _ _ Hk Hib) in E1. congruence. }
    subst. lia.
  - intros [Ht Hne]. unfold below. apply andb_true_iff.
    apply (ivs_nest tr Hnd 0 a ia b ib Hia Hib) in Ht.
    destruct (ivs_strict tr 0 a ia b ib Hia Hib Ht Hne).
    split; now apply Nat.ltb_lt.
Qed.
