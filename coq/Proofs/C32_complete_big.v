(* Proofs/C32_complete_big.v — property C32, thorough tier: bounded completeness on larger enumerated
   families (same statement as c32_complete_bounded, same checker [check_g]):
   family4 = every set of exactly 4 candidate productions (lhs in {S, A}, rhs of length <= 2 over
   {a, b, S, A}): 111930 grammars. *)
From PV Require Import Lib.Py Spec.CfgGrammarSpec Model.LrValidator Model.LrBuilder
                       Proofs.C32_sound Proofs.C32_complete.
Open Scope Z_scope.

Definition family4 : list grammar := map (fun ps => mkGrammar [2;3] ps 4) (combos 4 cands).

Lemma family4_checked : forallb check_g family4 = true.
Proof. vm_compute. reflexivity. Qed.

Lemma c32_complete_bounded4_lemma : forall g, In g family4 ->
  forall T, generate_tables_sr true BFUEL g = Ok (T, false) ->
  forall w, (length w <= 4)%nat -> sentence g w ->
  exists v, parse_model true BFUEL g T w = Ok v /\ parse_of g w v.
Proof.
  intros g Hg T HT w Hl Hs.
  pose proof family4_checked as H. rewrite forallb_forall in H. specialize (H g Hg).
  revert H HT Hl Hs. generalize g T w. clear.
  intros g T w H HT Hl Hs.
  unfold check_g in H. rewrite HT in H.
  apply andb_true_iff in H as [H Hall]. apply andb_true_iff in H as [H Hst].
  apply andb_true_iff in H as [Hc Hok].
  pose proof (oracle_sentence 4 g _ Hc w Hs Hl) as Hin.
  unfold sym_words in Hin. destruct (mem_z (start g) (terminals g)); [discriminate|].
  cbn [app] in Hin. rewrite forallb_forall in Hall. specialize (Hall w Hin).
  apply andb_true_iff in Hall as [He Hp].
  destruct (parse_model true BFUEL g T w) as [v| | |] eqn:Ep; try discriminate.
  exists v. split; [reflexivity|].
  eapply c32_sound_lemma; [exact Hok| |exact Ep].
  intros Hin'. unfold mem_z in He. apply negb_true_iff in He.
  assert (existsb (Z.eqb EOF) w = true); [|congruence].
  apply existsb_exists. exists EOF. split; [assumption|apply Z.eqb_refl].
Qed.
