(* Proofs/C22_irread.v — the target-independent reading of the emitted IR (Model.WasmIr.ir_run:
   fixed-width wrap, truncating division undefined for divisor 0, shifts defined only for
   0 <= count < width) agrees with WasmNumSpec wherever it is defined; it is undefined exactly
   for divisor 0 and for shift counts outside [0, N) (wasm2ppci does not mask the count). *)
From PV Require Import Lib.Py Lib.Tac Spec.BitsSpec Spec.WasmNumSpec Model.WasmIr.
From PV Require Import Gen.wasm_irmap Proofs.C39_bitfun Proofs.C22_base Proofs.C22_helpers Proofs.C22_mapping
                       Proofs.C22_table.
Open Scope Z_scope.

Definition is_shift (b : ibin) : bool := match b with Shl | ShrS | ShrU => true | _ => false end.

(* the count operand, as ppci passes it (signed), lies in [0, N) *)
Definition shift_defined (o : wop) (args : list Z) : Prop :=
  match o, args with
  | Bin w b, [_; y] => is_shift b = true -> 0 <= y < bits w
  | _, _ => True
  end.

Ltac istep := cbv delta [ir_run direct via_unsigned call1 call2 cmp_s cmp_u sty uty];
              cbn [ir_run expected direct via_unsigned call1 call2 cmp_s cmp_u fst snd ir_exec ir_ins sty uty
                   oget obind nth_error ir_binop app getvs getv bind rt_call cmp_sem rot_fn un_fn norm].
Ltac irun := repeat istep;
             repeat match goal with |- context [unsigned_of ?n ?v] => change (unsigned_of n v) with (unsigned n v) end.
Ltac icall H := istep; rewrite H by assumption; istep; cbn [bits]; reflexivity.

Lemma small_count N y : 1 <= N -> 0 <= y < N -> in_s N y -> unsigned N y = y.
Proof. intros HN Hy [H1 H2]. unfold unsigned. apply Z.mod_small. assert (P := pow2_pos (N - 1) ltac:(lia)).
  rewrite (pow2_split N) by lia. lia. Qed.

Lemma ir_bin fuel w b x y r : (64 < fuel)%nat ->
  in_s (bits w) x -> in_s (bits w) y -> (is_shift b = true -> 0 <= y < bits w) ->
  wop_sem_signed (Bin w b) [x; y] = Some r ->
  ir_run fuel (expected (Bin w b)) [x; y] = Some r.
Proof.
  intros F Hx Hy Hs S. destruct (bits_ok w) as [HN W].
  assert (Ux := unsigned_range (bits w) x ltac:(lia)). assert (Uy := unsigned_range (bits w) y ltac:(lia)).
  destruct b; spec_in S.
  - injection S as <-. irun. f_equal. now apply sem_add.
  - injection S as <-. irun. f_equal. now apply sem_sub.
  - injection S as <-. irun. f_equal. now apply sem_mul.
  - unfold idiv_s in S. rewrite !signed_unsigned in S by assumption.
    destruct (Z.eqb_spec y 0); [discriminate|].
    destruct (Z.quot x y =? 2 ^ (bits w - 1)); [discriminate|]. injection S as <-.
    irun. replace (y =? 0) with false by lia. irun. f_equal. now apply sem_signed_result.
  - unfold idiv_u in S. irun. destruct (Z.eqb_spec (unsigned (bits w) y) 0); [discriminate|].
    injection S as <-. irun. f_equal.
    apply sem_unsigned_result; [lia|]. apply quot_u_range; lia.
  - unfold irem_s in S. rewrite !signed_unsigned in S by assumption.
    destruct (Z.eqb_spec y 0); [discriminate|]. injection S as <-.
    irun. replace (y =? 0) with false by lia. irun. f_equal. now apply sem_signed_result.
  - unfold irem_u in S. irun. destruct (Z.eqb_spec (unsigned (bits w) y) 0); [discriminate|].
    injection S as <-. irun. f_equal.
    apply sem_unsigned_result; [lia|]. apply rem_u_range; lia.
  - injection S as <-. irun. f_equal. now apply sem_and.
  - injection S as <-. irun. f_equal. now apply sem_or.
  - injection S as <-. irun. f_equal. now apply sem_xor.
  - (* shl *) specialize (Hs eq_refl). injection S as <-. irun.
    replace ((0 <=? y) && (y <? bits w)) with true by lia. irun. f_equal.
    rewrite <- (Z.mod_small y (bits w)) at 1 by lia. now apply sem_shl.
  - (* shr_s *) specialize (Hs eq_refl). injection S as <-. irun.
    replace ((0 <=? y) && (y <? bits w)) with true by lia. irun. f_equal.
    rewrite <- (Z.mod_small y (bits w)) at 1 by lia. now apply sem_shr_s.
  - (* shr_u *) specialize (Hs eq_refl). injection S as <-. irun.
    rewrite (small_count (bits w) y) by (assumption || lia).
    replace ((0 <=? y) && (y <? bits w)) with true by lia. irun. f_equal.
    rewrite <- (small_count (bits w) y) at 1 2 by (assumption || lia).
    rewrite <- (Z.mod_small (unsigned (bits w) y) (bits w)) at 1 by (rewrite small_count by (assumption || lia); lia).
    now apply sem_shr_u.
  - injection S as <-. destruct w; istep.
    + icall helper_i32_rotl. + icall helper_i64_rotl.
  - injection S as <-. destruct w; istep.
    + icall helper_i32_rotr. + icall helper_i64_rotr.
Qed.

Lemma ir_un fuel w u x r : (64 < fuel)%nat -> valid_op (Un w u) = true ->
  in_s (bits w) x ->
  wop_sem_signed (Un w u) [x] = Some r ->
  ir_run fuel (expected (Un w u)) [x] = Some r.
Proof.
  intros F V Hx S. spec_in S. injection S as <-.
  destruct w, u; try discriminate V; istep.
  - icall helper_i32_clz. - icall helper_i32_ctz. - icall helper_i32_popcnt.
  - icall helper_i32_extend8_s. - icall helper_i32_extend16_s.
  - icall helper_i64_clz. - icall helper_i64_ctz. - icall helper_i64_popcnt.
  - icall helper_i64_extend8_s. - icall helper_i64_extend16_s. - icall helper_i64_extend32_s.
Qed.

Lemma ir_rel fuel w c x y r :
  in_s (bits w) x -> in_s (bits w) y ->
  wop_sem_signed (Rel w c) [x; y] = Some r ->
  ir_run fuel (expected (Rel w c)) [x; y] = Some r.
Proof.
  intros Hx Hy S. destruct (bits_ok w) as [HN W].
  destruct c; spec_in S; injection S as <-;
    unfold ieq, ine, ilt_s, ilt_u, igt_s, igt_u, ile_s, ile_u, ige_s, ige_u;
    cbn [bits]; rewrite signed32_bool; irun; f_equal;
    rewrite ?(signed_unsigned (bits w) x), ?(signed_unsigned (bits w) y), ?eqb_unsigned by (assumption || lia);
    reflexivity.
Qed.

Lemma ir_eqz fuel w x r :
  in_s (bits w) x ->
  wop_sem_signed (Eqz w) [x] = Some r ->
  ir_run fuel (expected (Eqz w)) [x] = Some r.
Proof.
  intros Hx S. destruct (bits_ok w) as [HN W]. spec_in S. injection S as <-.
  unfold ieqz. cbn [bits]. rewrite signed32_bool. irun.
  rewrite (signed_of_id (bits w) 0) by (lia || (apply in_s_0; lia)). f_equal. f_equal.
  rewrite <- (unsigned_0 (bits w)) at 2 by lia. symmetry. apply eqb_unsigned; [lia|assumption|apply in_s_0; lia].
Qed.

Lemma ir_wrap fuel x r : in_s 64 x ->
  wop_sem_signed WrapI64 [x] = Some r -> ir_run fuel (expected WrapI64) [x] = Some r.
Proof.
  intros Hx S. spec_in S. injection S as <-. irun. f_equal. cbn [bits].
  rewrite signed_of_signed by lia. unfold wrap_i64, wrap, unsigned. now rewrite mod_mod_pow by lia.
Qed.

Lemma ir_extend_s fuel x r : in_s 32 x ->
  wop_sem_signed ExtendI32S [x] = Some r -> ir_run fuel (expected ExtendI32S) [x] = Some r.
Proof.
  intros Hx S. spec_in S. injection S as <-. irun. f_equal. cbn [bits]. unfold extend_i32_s.
  rewrite (signed_unsigned 32 x) by (assumption || lia). apply sem_signed_result; lia.
Qed.

Lemma ir_extend_u fuel x r : in_s 32 x ->
  wop_sem_signed ExtendI32U [x] = Some r -> ir_run fuel (expected ExtendI32U) [x] = Some r.
Proof.
  intros Hx S. spec_in S. injection S as <-. irun. f_equal. cbn [bits]. unfold extend_i32_u.
  assert (U := unsigned_range 32 x ltac:(lia)).
  rewrite signed_of_signed by lia. f_equal. apply Z.mod_small.
  change (2 ^ 32) with 4294967296 in U. change (2 ^ 64) with 18446744073709551616. lia.
Qed.

(* wherever the spec does not trap and shift counts lie in [0, N), the IR reading is the spec value *)
Theorem ir_run_value fuel o args r : (64 < fuel)%nat -> valid_op o = true -> args_ok o args ->
  shift_defined o args ->
  wop_sem_signed o args = Some r -> ir_run fuel (expected o) args = Some r.
Proof.
  intros F V A D S. destruct o.
  - destruct (args_ok_2 _ _ _ _ A eq_refl) as (a & b & -> & Ha & Hb). now apply ir_bin.
  - destruct (args_ok_1 _ _ _ A eq_refl) as (a & -> & Ha). now apply ir_un.
  - destruct (args_ok_1 _ _ _ A eq_refl) as (a & -> & Ha). now apply ir_eqz.
  - destruct (args_ok_2 _ _ _ _ A eq_refl) as (a & b & -> & Ha & Hb). now apply ir_rel.
  - destruct (args_ok_1 _ _ _ A eq_refl) as (a & -> & Ha). now apply ir_wrap.
  - destruct (args_ok_1 _ _ _ A eq_refl) as (a & -> & Ha). now apply ir_extend_s.
  - destruct (args_ok_1 _ _ _ A eq_refl) as (a & -> & Ha). now apply ir_extend_u.
Qed.

(* ... and the only other way for the IR reading to be undefined is a shift count outside [0, N) *)
Lemma width_lt_pow w : bits w < 2 ^ (bits w - 1).
Proof. destruct w; cbn; lia. Qed.

Theorem ir_run_shift_undefined fuel w b x y : is_shift b = true ->
  in_s (bits w) x -> in_s (bits w) y -> ~ (0 <= y < bits w) ->
  ir_run fuel (expected (Bin w b)) [x; y] = None.
Proof.
  intros Sh Hx Hy N. destruct (bits_ok w) as [HN W]. assert (L := width_lt_pow w).
  destruct b; try discriminate Sh; irun.
  - replace ((0 <=? y) && (y <? bits w)) with false by lia. reflexivity.
  - replace ((0 <=? y) && (y <? bits w)) with false by lia. reflexivity.
  - assert (Uy := unsigned_range (bits w) y ltac:(lia)).
    assert (~ (0 <= unsigned (bits w) y < bits w)).
    { intros C. apply N. destruct Hy as [H1 H2]. assert (E2 := pow2_split (bits w) HN).
      destruct (Z.lt_ge_cases y 0) as [Neg|Pos].
      - assert (E : unsigned (bits w) y = y + 2 ^ bits w).
        { unfold unsigned. symmetry. apply (Z.mod_unique_pos y (2 ^ bits w) (-1)); lia. }
        lia.
      - assert (E : unsigned (bits w) y = y).
        { unfold unsigned. apply Z.mod_small. lia. }
        lia. }
    replace ((0 <=? unsigned (bits w) y) && (unsigned (bits w) y <? bits w)) with false by lia. reflexivity.
Qed.

Theorem ir_run_div_zero_undefined fuel w b x : is_div b = true -> in_s (bits w) x ->
  ir_run fuel (expected (Bin w b)) [x; 0] = None.
Proof.
  intros D Hx. destruct (bits_ok w) as [HN W].
  assert (U0 : unsigned (bits w) 0 = 0) by (apply unsigned_0; lia).
  destruct b; try discriminate D; irun; rewrite ?U0; reflexivity.
Qed.

(* statements over the exported table *)
Lemma table_ir_value fuel o p args r : (64 < fuel)%nat ->
  In (o, p) table -> args_ok o args -> shift_defined o args ->
  wop_sem_signed o args = Some r -> ir_run fuel p args = Some r.
Proof. intros F I A D S. destruct (table_sound o p I) as [-> V]. now apply ir_run_value. Qed.

Lemma table_ir_shift_undefined fuel w b p x y : is_shift b = true -> In (Bin w b, p) table ->
  in_s (bits w) x -> in_s (bits w) y -> ~ (0 <= y < bits w) -> ir_run fuel p [x; y] = None.
Proof. intros Sh I Hx Hy N. destruct (table_sound _ p I) as [-> V]. now apply ir_run_shift_undefined. Qed.
