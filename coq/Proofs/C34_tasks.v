(* Proofs/C34_tasks.v — proofs for property C34 (build runner).
   Part 1: the fixed model (Model.Tasks.run): DFS with on-stack list + post-order output is a
           correct topological ordering of exactly the reachable targets and reports an error
           exactly when the reachable part has a cycle or an undefined target.  Unbounded.
   Part 2: the original model (Model.Tasks.Orig.run) violates two of the requirements
           (vm_compute witnesses). *)
From PV Require Import Lib.Py Spec.BuildSpec Model.Tasks.
Open Scope Z_scope.

(* ---------------------------------------------------------------- generic list facts *)
Lemma mem_In x l : mem x l = true <-> In x l.
Proof.
  unfold mem. rewrite existsb_exists. split.
  - intros [y [Hy He]]. apply Z.eqb_eq in He. now subst.
  - intros H. exists x. split; [assumption | apply Z.eqb_refl].
Qed.

Lemma mem_false x l : mem x l = false <-> ~ In x l.
Proof.
  rewrite <- mem_In. destruct (mem x l); split; intros H; congruence.
Qed.

Lemma snoc_split {A} (l1 : list A) x l2 h a :
  l1 ++ x :: l2 = h ++ [a] ->
  (l2 = [] /\ l1 = h /\ x = a) \/ (exists l2', l2 = l2' ++ [a] /\ h = l1 ++ x :: l2').
Proof.
  intros E. induction l2 as [|y l2' _] using rev_ind.
  - left. apply app_inj_tail in E. destruct E; auto.
  - right. exists l2'.
    replace (l1 ++ x :: l2' ++ [y]) with ((l1 ++ x :: l2') ++ [y]) in E
      by (rewrite <- app_assoc; reflexivity).
    apply app_inj_tail in E. destruct E as [E1 E2]. subst. auto.
Qed.

Lemma NoDup_snoc {A} (l : list A) a : NoDup l -> ~ In a l -> NoDup (l ++ [a]).
Proof.
  induction 1 as [|x l Hx Hl IH]; intros Ha; cbn.
  - constructor; [intros []|constructor].
  - constructor.
    + intros Hin. apply in_app_or in Hin. destruct Hin as [Hin|[->|[]]].
      * auto.
      * apply Ha. left. reflexivity.
    + apply IH. intros Hin. apply Ha. right. assumption.
Qed.

Lemma lookup_keys g n ds : lookup g n = Some ds -> In n (map fst g).
Proof.
  induction g as [|[k d] g IH]; cbn; [discriminate|].
  destruct (Z.eqb_spec k n); intros H; [left; assumption | right; auto].
Qed.

(* ---------------------------------------------------------------- paths *)
Lemma path_snoc g a b c : path g a b -> edge g b c -> path g a c.
Proof.
  induction 1 as [a b E|a b c' E P IH]; intros Ec.
  - eapply path_step; [exact E | apply path_one; exact Ec].
  - eapply path_step; [exact E | apply IH; exact Ec].
Qed.

(* x is n or a transitive dependency of n *)
Definition rfrom (g : graph) (n x : name) : Prop := x = n \/ path g n x.

Lemma rfrom_edge g n d x : edge g n d -> rfrom g d x -> path g n x.
Proof.
  intros E [->|P]; [apply path_one; exact E | eapply path_step; eauto].
Qed.

(* ---------------------------------------------------------------- the order invariant *)
(* every element is defined, new, and all its dependencies stand strictly before it *)
Definition topo (g : graph) (h : list name) : Prop :=
  forall l1 a l2, h = l1 ++ a :: l2 ->
    ~ In a l1 /\ exists ds, lookup g a = Some ds /\ incl ds l1.

Lemma topo_nil g : topo g [].
Proof. intros l1 a l2 H. destruct l1; discriminate. Qed.

Lemma topo_snoc g h a ds :
  topo g h -> ~ In a h -> lookup g a = Some ds -> incl ds h -> topo g (h ++ [a]).
Proof.
  intros T Hn Hl Hi l1 x l2 E. symmetry in E. apply snoc_split in E.
  destruct E as [(-> & -> & ->)|(l2' & -> & ->)].
  - split; [assumption | exists ds; auto].
  - apply (T l1 x l2'). reflexivity.
Qed.

Lemma topo_prefix g h t : topo g (h ++ t) -> topo g h.
Proof.
  intros T l1 a l2 E. apply (T l1 a (l2 ++ t)). subst h.
  rewrite <- app_assoc. reflexivity.
Qed.

Lemma topo_NoDup g h : topo g h -> NoDup h.
Proof.
  induction h as [|a h IH] using rev_ind; intros T; [constructor|].
  apply NoDup_snoc.
  - apply IH. eapply topo_prefix; eauto.
  - destruct (T h a []) as [H _]; [reflexivity | exact H].
Qed.

Lemma topo_path g h : topo g h ->
  forall a b, path g a b -> forall l1 l2, h = l1 ++ a :: l2 -> In b l1.
Proof.
  intros T a b P. induction P as [a b E|a b c E P IH]; intros l1 l2 Eh.
  - destruct (T _ _ _ Eh) as [_ (ds & L & I)]. destruct E as (ds' & L' & Hb).
    rewrite L in L'. inversion L'; subst. auto.
  - assert (Hb : In b l1).
    { destruct (T _ _ _ Eh) as [_ (ds & L & I)]. destruct E as (ds' & L' & Hb).
      rewrite L in L'. inversion L'; subst. auto. }
    apply in_split in Hb. destruct Hb as (m1 & m2 & ->).
    assert (Hc : In c m1).
    { apply (IH m1 (m2 ++ a :: l2)). subst h. rewrite <- app_assoc. reflexivity. }
    apply in_or_app. left. exact Hc.
Qed.

(* ---------------------------------------------------------------- success case *)
(* result o' of walking [roots] from [order] with [stack] being the targets under visit *)
Definition ok_spec (g : graph) (stack roots order o' : list name) : Prop :=
  exists ext, o' = order ++ ext /\ topo g o' /\ (forall r, In r roots -> In r o') /\
    (forall x, In x ext -> (exists r, In r roots /\ rfrom g r x) /\ ~ In x stack).

Lemma dfs_deps_ok g rec stack :
  (forall d order o', rec d order = Ok o' -> topo g order -> ~ In d order -> ~ In d stack ->
                      ok_spec g stack [d] order o') ->
  forall ds order o', dfs_deps rec stack ds order = Ok o' -> topo g order ->
                      ok_spec g stack ds order o'.
Proof.
  intros Hrec. induction ds as [|a ds IH]; intros order o' H T; cbn in H.
  - inversion H; subst. exists []. rewrite app_nil_r.
    split; [reflexivity|]. split; [assumption|]. split; intros ? [].
  - destruct (mem a stack) eqn:Ms; [discriminate|]. destruct (mem a order) eqn:Mo.
    + apply IH in H; auto. destruct H as (ext & -> & T' & R & X).
      exists ext. split; [reflexivity|]. split; [assumption|]. split.
      * intros r [<-|Hr]; [apply in_or_app; left; apply mem_In; assumption | auto].
      * intros x Hx. destruct (X x Hx) as [(r & Hr & Hrf) Hs]. split; [|assumption].
        exists r. split; [right; assumption | assumption].
    + destruct (rec a order) as [o1| | |] eqn:Er; cbn in H; try discriminate.
      apply Hrec in Er; [|assumption|apply mem_false; assumption|apply mem_false; assumption].
      destruct Er as (e1 & -> & T1 & R1 & X1).
      apply IH in H; [|assumption]. destruct H as (e2 & -> & T2 & R2 & X2).
      exists (e1 ++ e2). rewrite app_assoc. split; [reflexivity|]. split; [assumption|]. split.
      * intros r [<-|Hr]; [apply in_or_app; left; apply R1; left; reflexivity | auto].
      * intros x Hx. apply in_app_or in Hx. destruct Hx as [Hx|Hx].
        -- destruct (X1 x Hx) as [(r & [<-|[]] & Hrf) Hs]. split; [|assumption].
           exists a. split; [left; reflexivity | assumption].
        -- destruct (X2 x Hx) as [(r & Hr & Hrf) Hs]. split; [|assumption].
           exists r. split; [right; assumption | assumption].
Qed.

Lemma dfs_ok g : forall fuel n stack order o',
  dfs fuel g n stack order = Ok o' -> topo g order -> ~ In n order -> ~ In n stack ->
  ok_spec g stack [n] order o'.
Proof.
  induction fuel as [|f IHf]; intros n stack order o' H T Hno Hns; cbn in H; [discriminate|].
  destruct (lookup g n) as [ds|] eqn:L; [|discriminate].
  destruct (dfs_deps _ (n :: stack) ds order) as [o| | |] eqn:D; cbn in H; try discriminate.
  inversion H; subst o'; clear H.
  apply dfs_deps_ok with (g := g) in D; [| |assumption].
  2:{ intros d ord o' Hr Tord Hdo Hds. eapply IHf; eauto. }
  destruct D as (ext & -> & T' & R & X).
  exists (ext ++ [n]). rewrite app_assoc. split; [reflexivity|]. split.
  { apply topo_snoc with ds; [assumption| |assumption|exact R].
    intros Hin. apply in_app_or in Hin. destruct Hin as [Hin|Hin]; [auto|].
    destruct (X n Hin) as [_ Hs]. apply Hs. left. reflexivity. }
  split.
  { intros r [<-|[]]. apply in_or_app. right. left. reflexivity. }
  intros x Hx. apply in_app_or in Hx. destruct Hx as [Hx|[<-|[]]].
  - destruct (X x Hx) as [(r & Hr & Hrf) Hs]. split.
    + exists n. split; [left; reflexivity|]. right. eapply rfrom_edge; [|exact Hrf].
      exists ds. auto.
    + intros Hxs. apply Hs. right. assumption.
  - split; [|assumption]. exists n. split; left; reflexivity.
Qed.

(* ---------------------------------------------------------------- error case *)
Definition err_spec (g : graph) (c : Z) (n : name) : Prop :=
  (c = E_LOOP /\ exists y, rfrom g n y /\ path g y y) \/
  (c = E_NOTFOUND /\ exists y, rfrom g n y /\ lookup g y = None).

Lemma err_spec_edge g c n d : edge g n d -> err_spec g c d -> err_spec g c n.
Proof.
  intros E [(-> & y & R & P)|(-> & y & R & P)]; [left|right]; (split; [reflexivity|]);
    exists y; (split; [right; eapply rfrom_edge; eauto | assumption]).
Qed.

Lemma dfs_deps_err g rec stack c :
  forall ds order,
  (forall d o c', In d ds -> rec d o = Diag c' -> err_spec g c' d) ->
  (forall d, In d ds -> In d stack -> path g d d) ->
  dfs_deps rec stack ds order = Diag c -> exists d, In d ds /\ err_spec g c d.
Proof.
  induction ds as [|a ds IH]; intros order Hrec Hst H; cbn in H; [discriminate|].
  destruct (mem a stack) eqn:Ms.
  - inversion H; subst c. exists a. split; [left; reflexivity|]. left. split; [reflexivity|].
    exists a. split; [left; reflexivity|]. apply Hst; [left; reflexivity | apply mem_In; assumption].
  - assert (Tl : forall o, dfs_deps rec stack ds o = Diag c -> exists d, In d (a :: ds) /\ err_spec g c d).
    { intros o Ho. apply IH in Ho.
      - destruct Ho as (d & Hd & He). exists d. split; [right; assumption | assumption].
      - intros d o' c' Hd. apply Hrec. right. assumption.
      - intros d Hd. apply Hst. right. assumption. }
    destruct (mem a order); [eauto|].
    destruct (rec a order) as [o1|c1| |] eqn:Er; cbn in H; try discriminate; [eauto|].
    inversion H; subst c1. exists a. split; [left; reflexivity|].
    eapply Hrec; [left; reflexivity | exact Er].
Qed.

Lemma dfs_err g : forall fuel n stack order c,
  dfs fuel g n stack order = Diag c -> (forall x, In x stack -> path g x n) -> err_spec g c n.
Proof.
  induction fuel as [|f IHf]; intros n stack order c H Hp; cbn in H; [discriminate|].
  destruct (lookup g n) as [ds|] eqn:L.
  - destruct (dfs_deps _ (n :: stack) ds order) as [o|c1| |] eqn:D; cbn in H; try discriminate.
    inversion H; subst c1; clear H.
    assert (Ed : forall d, In d ds -> edge g n d) by (intros d Hd; exists ds; auto).
    apply dfs_deps_err with (g := g) in D.
    + destruct D as (d & Hd & He). eapply err_spec_edge; eauto.
    + intros d o' c' Hd Hr. eapply IHf; [exact Hr|].
      intros x [<-|Hx]; [apply path_one; auto | eapply path_snoc; eauto].
    + intros d Hd [<-|Hs]; [apply path_one; auto|].
      eapply path_snoc; [apply Hp; exact Hs | apply Ed; exact Hd].
  - inversion H; subst c. right. split; [reflexivity|]. exists n. split; [left; reflexivity | assumption].
Qed.

(* ---------------------------------------------------------------- totality (fuel) *)
Definition is_ok_or_diag {A} (r : result A) : Prop :=
  match r with Ok _ | Diag _ => True | _ => False end.

Lemma dfs_deps_total rec stack :
  (forall d o, ~ In d stack -> is_ok_or_diag (rec d o)) ->
  forall ds order, is_ok_or_diag (dfs_deps rec stack ds order).
Proof.
  intros Hrec. induction ds as [|a ds IH]; intros order; cbn; [exact I|].
  destruct (mem a stack) eqn:Ms; [exact I|]. destruct (mem a order); [apply IH|].
  pose proof (Hrec a order (proj1 (mem_false _ _) Ms)) as Hr.
  destruct (rec a order); cbn; try contradiction; [apply IH | exact I].
Qed.

Lemma dfs_total g : forall fuel n stack order,
  NoDup stack -> incl stack (map fst g) -> ~ In n stack ->
  (length g < fuel + length stack)%nat -> is_ok_or_diag (dfs fuel g n stack order).
Proof.
  induction fuel as [|f IHf]; intros n stack order Hnd Hincl Hn Hlen.
  - exfalso. pose proof (NoDup_incl_length Hnd Hincl) as Hl. rewrite map_length in Hl.
    cbn in Hlen. apply (Nat.lt_irrefl (length g)). eapply Nat.lt_le_trans; eauto.
  - cbn. destruct (lookup g n) as [ds|] eqn:L; [|exact I].
    assert (T : is_ok_or_diag (dfs_deps (fun d o => dfs f g d (n :: stack) o) (n :: stack) ds order)).
    { apply dfs_deps_total. intros d o Hd. apply IHf.
      - constructor; assumption.
      - intros x [<-|Hx]; [eapply lookup_keys; eauto | auto].
      - assumption.
      - cbn [length]. rewrite Nat.add_succ_r. exact Hlen. }
    destruct (dfs_deps _ (n :: stack) ds order); cbn; try contradiction; exact I.
Qed.

(* ---------------------------------------------------------------- run *)
Lemma run_ok fuel g dflt req h :
  run_fuel fuel g dflt req = Ok h -> ok_spec g [] (effective dflt req) [] h.
Proof.
  unfold run_fuel, target_order. intros H.
  eapply dfs_deps_ok in H; [exact H| |apply topo_nil].
  intros d order o' Hr T Hdo Hds. eapply dfs_ok; eauto.
Qed.

Lemma run_err fuel g dflt req c :
  run_fuel fuel g dflt req = Diag c -> exists r, In r (effective dflt req) /\ err_spec g c r.
Proof.
  unfold run_fuel, target_order. intros H.
  eapply dfs_deps_err in H; [exact H| |].
  - intros d o c' Hd Hr. eapply dfs_err; [exact Hr|]. intros x [].
  - intros d _ [].
Qed.

Lemma run_total fuel g dflt req : (length g < fuel)%nat -> is_ok_or_diag (run_fuel fuel g dflt req).
Proof.
  intros Hf. unfold run_fuel, target_order. apply dfs_deps_total.
  intros d o _. apply dfs_total.
  - constructor.
  - intros x [].
  - intros [].
  - cbn. rewrite Nat.add_0_r. exact Hf.
Qed.

Lemma ok_once fuel g dflt req h : run_fuel fuel g dflt req = Ok h -> once h.
Proof.
  intros H. apply run_ok in H. destruct H as (ext & _ & T & _). eapply topo_NoDup; eauto.
Qed.

Lemma ok_exact fuel g dflt req h :
  run_fuel fuel g dflt req = Ok h -> exactly_reachable g (effective dflt req) h.
Proof.
  intros H. apply run_ok in H. destruct H as (ext & E & T & R & X). cbn in E. subst ext.
  intros n. split.
  - intros Hn. destruct (X n Hn) as [(r & Hr & Hrf) _]. exists r. auto.
  - intros (r & Hr & [->|P]); [auto|].
    pose proof (R r Hr) as Hin. apply in_split in Hin. destruct Hin as (l1 & l2 & ->).
    apply in_or_app. left. eapply topo_path; eauto.
Qed.

Lemma ok_topological fuel g dflt req h : run_fuel fuel g dflt req = Ok h -> topological g h.
Proof.
  intros H. apply run_ok in H. destruct H as (ext & _ & T & _).
  intros a b Ha (ds' & L' & Hb). apply in_split in Ha. destruct Ha as (l1 & l2 & ->).
  destruct (T l1 a l2 eq_refl) as [_ (ds & L & I)]. rewrite L in L'. inversion L'; subst.
  exists l1, l2. auto.
Qed.

Lemma ok_not_bad fuel g dflt req h : run_fuel fuel g dflt req = Ok h -> ~ bad g (effective dflt req).
Proof.
  intros H. pose proof (ok_exact _ _ _ _ _ H) as Ex. apply run_ok in H.
  destruct H as (ext & _ & T & _).
  intros [(n & Rn & P)|(n & Rn & L)]; apply Ex in Rn; apply in_split in Rn;
    destruct Rn as (l1 & l2 & ->).
  - destruct (T l1 n l2 eq_refl) as [Hn _]. apply Hn. eapply topo_path; eauto.
  - destruct (T l1 n l2 eq_refl) as [_ (ds & L' & _)]. congruence.
Qed.

Lemma err_bad fuel g dflt req c :
  run_fuel fuel g dflt req = Diag c ->
  (c = E_LOOP /\ has_cycle g (effective dflt req)) \/
  (c = E_NOTFOUND /\ has_missing g (effective dflt req)).
Proof.
  intros H. apply run_err in H. destruct H as (r & Hr & [(-> & y & Ry & P)|(-> & y & Ry & P)]);
    [left|right]; (split; [reflexivity|]); exists y; (split; [exists r; auto | assumption]).
Qed.

Lemma loop_iff_cycle fuel g dflt req : (length g < fuel)%nat ->
  ((exists c, run_fuel fuel g dflt req = Diag c) <-> bad g (effective dflt req)).
Proof.
  intros Hf. split.
  - intros [c H]. apply err_bad in H. destruct H as [[_ H]|[_ H]]; [left|right]; assumption.
  - intros B. pose proof (run_total fuel g dflt req Hf) as T.
    destruct (run_fuel fuel g dflt req) as [h|c| |] eqn:E; try contradiction.
    + exfalso. eapply ok_not_bad; eauto.
    + exists c. reflexivity.
Qed.

Lemma run_outcome fuel g dflt req : (length g < fuel)%nat ->
  (exists h, run_fuel fuel g dflt req = Ok h) \/ run_fuel fuel g dflt req = Diag E_LOOP \/ run_fuel fuel g dflt req = Diag E_NOTFOUND.
Proof.
  intros Hf. pose proof (run_total fuel g dflt req Hf) as T.
  destruct (run_fuel fuel g dflt req) as [h|c| |] eqn:E; try contradiction.
  - left. eauto.
  - right. apply err_bad in E. destruct E as [[-> _]|[-> _]]; auto.
Qed.

(* ---------------------------------------------------------------- part 2: original code *)
Definition diamond : graph := [(0, [1; 2]); (1, [3]); (2, [3]); (3, [])].
(* a -> {b, c}, b -> d, as iterated by CPython with PYTHONHASHSEED=0 for t0,t2,t3,t1 *)
Definition tree : graph := [(0, [2; 3]); (2, [1]); (3, []); (1, [])].

Lemma orig_loop_without_cycle :
  Orig.run diamond None [0] [0; 1; 2; 3] = Diag E_LOOP /\ ~ bad diamond [0].
Proof.
  split; [vm_compute; reflexivity|].
  apply (ok_not_bad 5%nat diamond None [0] [3; 1; 2; 0]). vm_compute. reflexivity.
Qed.

Lemma not_before_2310 : ~ before [2; 3; 1; 0] 1 2.
Proof.
  intros (l1 & l2 & E & H1).
  destruct l1 as [|x l1]; [destruct H1|]. injection E as <- E.
  destruct l1 as [|y l1]; [discriminate|]. injection E as <- E.
  destruct l1 as [|z l1]; [discriminate|]. injection E as <- E.
  destruct l1 as [|w l1]; [discriminate|]. injection E as <- E.
  destruct l1; discriminate.
Qed.

Lemma orig_not_topological :
  Orig.run tree None [0] [2; 3; 1; 0] = Ok [2; 3; 1; 0] /\ ~ bad tree [0] /\
  ~ topological tree [2; 3; 1; 0].
Proof.
  split; [vm_compute; reflexivity|]. split.
  - apply (ok_not_bad 5%nat tree None [0] [1; 2; 3; 0]). vm_compute. reflexivity.
  - intros T. apply not_before_2310. apply T.
    + left. reflexivity.
    + exists [1]. split; [vm_compute; reflexivity | left; reflexivity].
Qed.
