(* Proofs/C17_bounded.v — whole-file results on an enumerated family of objects (vm_compute), and the
   refutation for a HeaderTypes that announces big-endian data but packs its fields in native order. *)
From PV Require Import Lib.Py Gen.Tab_elf Model.ElfWriter Spec.ElfSpec Proofs.C17_codec Proofs.C17_recover.
From Coq Require Import String Ascii.
Open Scope string_scope.
Open Scope list_scope.
Open Scope Z_scope.
Local Notation length := List.length (only parsing).
Local Notation concat := List.concat (only parsing).

Definition fam_sec n a al d := {| ms_name := n; ms_addr := a; ms_align := al; ms_data := d |}.
Definition fam_sym id n g v s t z :=
  {| my_id := id; my_name := n; my_global := g; my_value := v; my_section := s; my_typ := t; my_size := z |}.
Definition fam_rel t id s o a := {| mr_typ := t; mr_symid := id; mr_section := s; mr_offset := o; mr_addend := a |}.

Definition sec_choices : list (list msection) :=
  [ [];
    [fam_sec "code" 0 4 [1; 2; 3; 4; 255]];
    [fam_sec "code" 0 4 [144; 195; 0; 7; 9]; fam_sec "data" 0 8 [1; 0; 2]];
    [fam_sec "data" 0 1 [7]; fam_sec "rom" 0 16 []; fam_sec ".text" 0 2 [0; 0; 5; 6; 7; 8; 9]] ].

Definition first_name (secs : list msection) : option string :=
  match secs with [] => None | s :: _ => Some (ms_name s) end.
Definition last_name (secs : list msection) : option string := first_name (rev secs).
Definition dv (s : option string) (v : Z) : option Z := match s with Some _ => Some v | None => None end.

Definition sym_choices (secs : list msection) : list (list msymbol) :=
  let a := first_name secs in let b := last_name secs in
  [ [];
    [fam_sym 0 "loc" false (dv a 1) a "object" 0];
    [fam_sym 0 "ext" true None None "func" 0; fam_sym 1 "l1" false (dv b 0) b "" 4;
     fam_sym 2 "main" true (dv a 2) a "func" 8];
    [fam_sym 5 "g1" true (dv a 0) a "object" 1; fam_sym 3 "code" false (dv b 1) b "func" 0;
     fam_sym 9 "g2" true (dv b 0) b "" 0; fam_sym 4 "" false None None "object" 0;
     fam_sym 7 "loc" false (dv a 3) a "object" 2] ].

Definition rel_choices (secs : list msection) (syms : list msymbol) : list (list mreloc) :=
  match first_name secs, last_name secs, syms with
  | Some a, Some b, y :: _ =>
      let z := last syms y in
      [ []; [fam_rel "rel32" (my_id y) a 1 (-4)];
        [fam_rel "abs64" (my_id z) b 0 0; fam_rel "rel32" (my_id y) a 0 (-4);
         fam_rel "abs32" (my_id z) a 1 2147483647; fam_rel "absaddr64" (my_id y) b 1 (-9223372036854775808)] ]
  | _, _, _ => [ [] ]
  end.

Fixpoint place (base : Z) (secs : list msection) : list msection :=
  match secs with
  | [] => []
  | s :: r => fam_sec (ms_name s) base (ms_align s) (ms_data s) :: place (base + 32) r
  end.
(* images over placed sections: none, one image with everything, two images *)
Definition image_choices (secs : list msection) : list (list mimage) :=
  match secs with
  | [] => [ [] ]
  | s :: r =>
      [ []; [ {| mi_name := "code"; mi_addr := ms_addr s; mi_secs := secs |} ];
        match r with
        | [] => [ {| mi_name := "flash"; mi_addr := ms_addr s - 4; mi_secs := [s] |} ]
        | s2 :: _ => [ {| mi_name := "code"; mi_addr := ms_addr s; mi_secs := [s] |};
                       {| mi_name := "ram"; mi_addr := ms_addr s2 - 8; mi_secs := r |} ]
        end ]
  end.
Definition entry_choice (syms : list msymbol) : option Z :=
  match filter (fun y => match my_value y with Some _ => true | None => false end) syms with
  | y :: _ => Some (my_id y) | [] => None end.

Definition le_arches : list string := ["x86_64"; "arm"; "riscv"; "xtensa"].

Definition family_rel : list (mobj * string) :=
  flat_map (fun arch =>
  flat_map (fun secs =>
  flat_map (fun syms =>
  map (fun rels => ({| mo_arch := arch; mo_sections := secs; mo_symbols := syms; mo_relocs := rels;
                       mo_images := []; mo_entry := None |}, "relocatable"))
      (if String.eqb arch "x86_64" then rel_choices secs syms else [ [] ]))
  (sym_choices secs)) sec_choices) le_arches.

Definition family_exec : list (mobj * string) :=
  flat_map (fun arch =>
  flat_map (fun base =>
  flat_map (fun secs0 => let secs := place base secs0 in
  flat_map (fun syms =>
  map (fun ims => ({| mo_arch := arch; mo_sections := secs; mo_symbols := syms; mo_relocs := [];
                      mo_images := ims; mo_entry := entry_choice syms |}, "executable"))
      (image_choices secs))
  (sym_choices secs)) sec_choices) [4096; 65552]) le_arches.

Definition family := family_rel ++ family_exec.

Lemma family_recovered : forallb (fun ot => recovered_ok (fst ot) (snd ot)) family = true.
Proof. vm_compute. reflexivity. Qed.

Lemma family_size : len family_rel = 82 /\ len family_exec = 320.
Proof. vm_compute. split; reflexivity. Qed.

(* a HeaderTypes that announces ELFDATA2MSB but packs little-endian (the state of ppci before
   fixes/C17-header-endianness.diff for microblaze): the reader rejects even the empty object *)
Definition ht_native_big : result htypes :=
  ht <- get_htypes 32 false ;;
  Ok {| ht_bits := 32; ht_big := true; ht_ehdr := ht_ehdr ht; ht_shdr := ht_shdr ht; ht_phdr := ht_phdr ht;
        ht_sym := ht_sym ht; ht_rela := ht_rela ht |}.
Definition empty_obj := {| mo_arch := "microblaze"; mo_sections := []; mo_symbols := []; mo_relocs := [];
                           mo_images := []; mo_entry := None |}.
Lemma native_big_rejected :
  exists ht bs, ht_native_big = Ok ht /\ ht_consistent ht = false /\
                export_object ht 189 empty_obj et_rel = Ok bs /\ read bs = None.
Proof.
  eexists; eexists. split; [vm_compute; reflexivity|]. split; [vm_compute; reflexivity|].
  split; [vm_compute; reflexivity|]. vm_compute; reflexivity.
Qed.

(* the reader's checks bite: corrupting sh_info of .symtab (locals-first rule) or e_shstrndx makes it reject *)
Definition sample_obj :=
  {| mo_arch := "x86_64"; mo_sections := [fam_sec "code" 0 4 [1; 2; 3]];
     mo_symbols := [fam_sym 0 "g" true (Some 0) (Some "code") "func" 0; fam_sym 1 "l" false (Some 1) (Some "code") "" 0];
     mo_relocs := [fam_rel "rel32" 0 "code" 0 (-4)]; mo_images := []; mo_entry := None |}.
Fixpoint set_nth (n : nat) (v : Z) (l : list Z) : list Z :=
  match n, l with O, _ :: r => v :: r | S n', x :: r => x :: set_nth n' v r | _, [] => [] end.
Lemma reader_checks_bite :
  exists bs p, write_elf sample_obj "relocatable" = Ok bs /\ read bs = Some p /\
    (* e_shstrndx (offset 62) := 1 *) read (set_nth 62 1 bs) = None /\
    (* sh_info of section 2 (.symtab): 3 -> 1 *)
    (exists off, e_shoff (f_ehdr p) = off /\ read (set_nth (Z.to_nat (off + 2 * 64 + 44)) 1 bs) = None).
Proof.
  eexists; eexists. split; [vm_compute; reflexivity|]. split; [vm_compute; reflexivity|].
  split; [vm_compute; reflexivity|]. eexists. split; [vm_compute; reflexivity|]. vm_compute; reflexivity.
Qed.
