(* Proofs/C30_orderedset.v — the OrderedSet model enumerates, after every operation history, exactly
   the timestamp order of Spec/OrderedSetSpec.v; duplicate freedom; membership refinement. *)
From Coq Require Import ZArith List Sorted Lia Bool Permutation.
From PV Require Import Lib.Py Spec.OrderedSetSpec Model.OrderedSet.
Import ListNotations.
Open Scope Z_scope.

(* ------------------------------------------------------------------ generic list facts *)
Lemma mem_In : forall x l, mem x l = true <-> In x l.
Proof.
  induction l; simpl; [split; [discriminate|tauto]|].
  rewrite orb_true_iff, IHl, Z.eqb_eq. split; intros [H|H]; auto.
Qed.

Lemma mem_false : forall x l, mem x l = false <-> ~ In x l.
Proof. intros. rewrite <- mem_In. destruct (mem x l); split; congruence. Qed.

Lemma inb_mem : forall x l, inb x l = mem x l.
Proof. induction l; simpl; auto. unfold inb in *. simpl. now rewrite IHl. Qed.

Section Sorted.
  Variable R : Z -> Z -> Prop.
  Hypothesis R_asym : forall x y, R x y -> R y x -> False.

  Lemma ssorted_nodup : forall l, StronglySorted R l -> NoDup l.
  Proof.
    induction 1; constructor; auto.
    intro Hin. rewrite Forall_forall in H0. specialize (H0 _ Hin). eauto.
  Qed.

  (* a strictly sorted enumeration of a set is unique *)
  Lemma ssorted_unique : forall l l', StronglySorted R l -> StronglySorted R l' ->
    (forall x, In x l <-> In x l') -> l = l'.
  Proof.
    induction l as [|a l IH]; intros l' Hs Hs' Hm.
    - destruct l' as [|b l']; auto. exfalso. apply (Hm b). now left.
    - destruct l' as [|b l']; [exfalso; apply (Hm a); now left|].
      inversion Hs as [|? ? Hsl Hfa]; inversion Hs' as [|? ? Hsl' Hfb]; subst.
      rewrite Forall_forall in Hfa, Hfb.
      assert (a = b) as ->.
      { destruct (Z.eq_dec a b); auto. exfalso.
        assert (In a l') by (destruct (proj1 (Hm a) (or_introl eq_refl)); [congruence|assumption]).
        assert (In b l) by (destruct (proj2 (Hm b) (or_introl eq_refl)); [congruence|assumption]).
        eauto. }
      f_equal. apply IH; auto.
      pose proof (ssorted_nodup _ Hs) as Hn. pose proof (ssorted_nodup _ Hs') as Hn'.
      inversion Hn; inversion Hn'; subst.
      intro x; split; intro Hx.
      + destruct (proj1 (Hm x) (or_intror Hx)); [subst; tauto|auto].
      + destruct (proj2 (Hm x) (or_intror Hx)); [subst; tauto|auto].
  Qed.
End Sorted.

Lemma ssorted_app_one : forall (R : Z -> Z -> Prop) l x,
  StronglySorted R l -> Forall (fun y => R y x) l -> StronglySorted R (l ++ [x]).
Proof.
  induction l; simpl; intros x Hs Hf.
  - constructor; constructor.
  - inversion Hs; inversion Hf; subst. constructor; auto.
    rewrite Forall_forall in *. intros z Hz. apply in_app_or in Hz. destruct Hz as [Hz|[<-|[]]]; auto.
Qed.

Lemma ssorted_filter : forall (R : Z -> Z -> Prop) p l,
  StronglySorted R l -> StronglySorted R (filter p l).
Proof.
  induction 1; simpl; [constructor|]. destruct (p a); auto. constructor; auto.
  rewrite Forall_forall in *. intros x Hx. apply filter_In in Hx. apply H0, Hx.
Qed.

Lemma ssorted_impl : forall (R R' : Z -> Z -> Prop) l,
  (forall x y, In x l -> In y l -> R x y -> R' x y) -> StronglySorted R l -> StronglySorted R' l.
Proof.
  induction l; intros Hi Hs; [constructor|]. inversion Hs; subst. constructor.
  - apply IHl; auto. intros; apply Hi; simpl; auto.
  - rewrite Forall_forall in *. intros x Hx. apply Hi; simpl; auto.
Qed.

(* ------------------------------------------------------------------ timestamp order *)
Lemma t_before_asym : forall t x y, t_before t x y -> t_before t y x -> False.
Proof. intros t x y (a & b & Ha & Hb & Hl) (a' & b' & Ha' & Hb' & Hl'). rewrite Ha in Hb'. rewrite Hb in Ha'. inversion Ha'; inversion Hb'; subst. lia. Qed.

Theorem represents_unique : forall l l' t, represents l t -> represents l' t -> l = l'.
Proof.
  intros l l' t (Hm & Hs & _) (Hm' & Hs' & _).
  eapply ssorted_unique; eauto using t_before_asym. intro x. now rewrite Hm, Hm'.
Qed.

Lemma represents_nodup : forall l t, represents l t -> NoDup l.
Proof. intros l t (_ & Hs & _). eapply ssorted_nodup; eauto using t_before_asym. Qed.

Lemma represents_ext : forall l t t', (forall x, stamp t x = stamp t' x) -> clock t = clock t' ->
  represents l t -> represents l t'.
Proof.
  intros l t t' He Hc (Hm & Hs & Hw). split; [|split].
  - intro x. rewrite Hm. unfold t_mem. now rewrite He.
  - eapply ssorted_impl; [|exact Hs]. intros x y _ _ (a & b & ? & ? & ?). exists a, b. now rewrite <- !He.
  - intros x a. rewrite <- He, <- Hc. apply Hw.
Qed.

Lemma represents_empty : represents [] t_empty.
Proof. split; [|split]; [intro x; simpl; split; [tauto|discriminate]|constructor|intros x a; discriminate]. Qed.

Lemma represents_mem : forall l t x, represents l t -> mem x l = t_mem t x.
Proof.
  intros l t x (Hm & _). destruct (t_mem t x) eqn:E.
  - apply mem_In, Hm, E.
  - apply mem_false. rewrite Hm. congruence.
Qed.

(* ---- add *)
Lemma represents_add : forall l t x, represents l t -> represents (os_add l x) (t_add t x).
Proof.
  intros l t x Hr. unfold os_add, t_add. rewrite (represents_mem _ _ x Hr).
  destruct (t_mem t x) eqn:E; auto.
  destruct Hr as (Hm & Hs & Hw). split; [|split].
  - intro y. rewrite in_app_iff, Hm.
    set (t' := Build_tset _ _).
    assert (Ht : t_mem t' y = if y =? x then true else t_mem t y).
    { unfold t_mem, t'; simpl. destruct (y =? x); auto. }
    rewrite Ht. simpl. destruct (Z.eqb_spec y x).
    + subst. split; auto.
    + split; [intros [H|[H|[]]]; congruence|auto].
  - apply ssorted_app_one.
    + eapply ssorted_impl; [|exact Hs]. intros y z Hy Hz (a & b & Ha & Hb & Hl).
      exists a, b; simpl.
      assert (y <> x) by (intro; subst; apply Hm in Hy; congruence).
      assert (z <> x) by (intro; subst; apply Hm in Hz; congruence).
      destruct (Z.eqb_spec y x); destruct (Z.eqb_spec z x); try congruence; auto.
    + rewrite Forall_forall. intros y Hy. apply Hm in Hy. unfold t_mem in Hy.
      destruct (stamp t y) as [a|] eqn:Ea; [|discriminate].
      exists a, (clock t); simpl. rewrite Z.eqb_refl.
      destruct (Z.eqb_spec y x); [subst; unfold t_mem in E; rewrite Ea in E; discriminate|].
      repeat split; auto. eapply Hw; eauto.
  - intros y a; simpl. destruct (Z.eqb_spec y x); intro H; [inversion H; lia|]. apply Hw in H. lia.
Qed.

(* ---- keep / discard *)
Lemma represents_filter : forall l t p, represents l t -> represents (filter p l) (t_keep t p).
Proof.
  intros l t p (Hm & Hs & Hw). split; [|split].
  - intro x. rewrite filter_In, Hm. unfold t_mem; simpl. destruct (p x); intuition congruence.
  - eapply ssorted_impl; [|apply ssorted_filter; exact Hs].
    intros x y Hx Hy (a & b & Ha & Hb & Hl). apply filter_In in Hx, Hy. exists a, b; simpl.
    destruct Hx as [_ ->]; destruct Hy as [_ ->]. auto.
  - intros x a; simpl. destruct (p x); [apply Hw|discriminate].
Qed.

Lemma unlink_filter : forall x l, NoDup l -> unlink x l = filter (fun y => negb (y =? x)) l.
Proof.
  induction l; simpl; intros Hn; auto. inversion Hn; subst.
  rewrite (Z.eqb_sym a x). destruct (Z.eqb_spec x a); simpl.
  - subst. symmetry. apply filter_true_intro || idtac.
    assert (forall y, In y l -> negb (y =? a) = true).
    { intros y Hy. destruct (Z.eqb_spec y a); auto. subst; tauto. }
    clear -H. induction l; simpl; auto. rewrite H by (simpl; auto). f_equal. apply IHl. intros; apply H; simpl; auto.
  - f_equal. auto.
Qed.

Lemma discard_filter : forall x l, NoDup l -> os_discard l x = filter (fun y => negb (y =? x)) l.
Proof.
  intros x l Hn. unfold os_discard. destruct (mem x l) eqn:E; [now apply unlink_filter|].
  apply mem_false in E. clear Hn. induction l; simpl; auto.
  destruct (Z.eqb_spec a x); simpl; [subst; exfalso; apply E; now left|].
  f_equal. apply IHl. intro; apply E; now right.
Qed.

Lemma represents_discard : forall l t x, represents l t -> represents (os_discard l x) (t_del t x).
Proof.
  intros l t x Hr. rewrite discard_filter by (eapply represents_nodup; eauto).
  eapply represents_ext; [| |apply represents_filter; exact Hr]; simpl; auto.
  intro y. simpl. destruct (y =? x); auto.
Qed.

(* ---- bulk operations *)
Lemma represents_ior : forall it l t, represents l t -> represents (os_ior l it) (fold_left t_add it t).
Proof. unfold os_ior. induction it; simpl; intros; auto using represents_add. Qed.

Lemma represents_isub : forall it l t, represents l t -> represents (os_isub l it) (fold_left t_del it t).
Proof. unfold os_isub. induction it; simpl; intros; auto using represents_discard. Qed.

Lemma init_nodup : forall l acc, NoDup (acc ++ l) -> fold_left os_add l acc = acc ++ l.
Proof.
  induction l; simpl; intros acc Hn; [now rewrite app_nil_r|].
  unfold os_add at 2. assert (mem a acc = false) as ->.
  { apply mem_false. intro Hin. apply NoDup_remove_2 in Hn. apply Hn. apply in_or_app. now left. }
  rewrite IHl; rewrite <- app_assoc; simpl; auto.
Qed.

Lemma os_init_nodup : forall l, NoDup l -> os_init l = l.
Proof. intros. unfold os_init, os_ior, os_new. now rewrite init_nodup. Qed.

Lemma nodup_filter : forall (p : Z -> bool) l, NoDup l -> NoDup (filter p l).
Proof. intros. now apply NoDup_filter. Qed.

Lemma os_sub_filter : forall s other, NoDup s -> os_sub s other = filter (fun v => negb (mem v other)) s.
Proof. intros. unfold os_sub. apply os_init_nodup. now apply NoDup_filter. Qed.

Lemma stamp_fold_del : forall d t y,
  stamp (fold_left t_del d t) y = if mem y d then None else stamp t y.
Proof.
  induction d; simpl; intros; auto. rewrite IHd. simpl.
  destruct (Z.eqb_spec y a); simpl; auto. now destruct (mem y d).
Qed.

Lemma clock_fold_del : forall d t, clock (fold_left t_del d t) = clock t.
Proof. induction d; simpl; intros; auto. now rewrite IHd. Qed.

Lemma represents_iand : forall it l t, represents l t ->
  represents (os_iand l it) (t_keep t (fun y => inb y it)).
Proof.
  intros it l t Hr. unfold os_iand.
  pose proof (represents_nodup _ _ Hr) as Hn. rewrite os_sub_filter by auto.
  eapply represents_ext; [| |apply represents_isub; exact Hr].
  - intro y. rewrite stamp_fold_del. simpl. rewrite inb_mem.
    destruct (mem y (filter _ l)) eqn:E.
    + apply mem_In, filter_In in E. destruct E as [_ E]. now destruct (mem y it).
    + apply mem_false in E. rewrite filter_In in E. destruct (mem y it) eqn:Ei; auto.
      destruct (stamp t y) eqn:Es; auto. exfalso. apply E. split; auto.
      apply Hr. unfold t_mem. now rewrite Es.
  - now rewrite clock_fold_del.
Qed.

(* ---- clear *)
Lemma discard_head : forall a s, os_discard (a :: s) a = s.
Proof. intros. unfold os_discard; simpl. rewrite !Z.eqb_refl. simpl. now rewrite ?Z.eqb_refl. Qed.

Lemma clear_loop_all : forall n s, NoDup s -> (length s <= n)%nat -> os_clear_loop n s = Ok [].
Proof.
  induction n; intros s Hn Hl.
  - destruct s; simpl in *; [auto|lia].
  - destruct s as [|a s]; simpl; auto. rewrite discard_head.
    inversion Hn; subst. apply IHn; auto. simpl in Hl. lia.
Qed.

Lemma os_clear_nil : forall s, NoDup s -> os_clear s = [].
Proof.
  intros s Hn. unfold os_clear. destruct s as [|a s]; auto.
  simpl. rewrite discard_head.
  inversion Hn; subst. now rewrite clear_loop_all.
Qed.

Lemma represents_clear : forall l t, represents l t -> represents (os_clear l) (t_clear t).
Proof.
  intros l t Hr. rewrite os_clear_nil by (eapply represents_nodup; eauto).
  destruct Hr as (_ & _ & Hw). split; [|split]; [intro; simpl; split; [tauto|discriminate]|constructor|].
  intros x a; discriminate.
Qed.

(* ---- pop: the head of the enumeration is the oldest element, and the oldest element is unique *)
Lemma head_oldest : forall x r t, represents (x :: r) t -> t_oldest t x.
Proof.
  intros x r t (Hm & Hs & _). split; [apply Hm; now left|].
  intros y Hy Hne. apply Hm in Hy. destruct Hy as [->|Hy]; [congruence|].
  inversion Hs; subst. rewrite Forall_forall in *. auto.
Qed.

Lemma oldest_unique : forall t x y, t_oldest t x -> t_oldest t y -> x = y.
Proof.
  intros t x y (Hx & Hox) (Hy & Hoy). destruct (Z.eq_dec x y); auto. exfalso.
  eapply t_before_asym; [apply Hox|apply Hoy]; auto.
Qed.

(* ------------------------------------------------------------------ histories *)
Definition sop_of (o : op) : sop :=
  match o with
  | OAdd x => SAdd x | ODiscard x => SDiscard x | ORemove x => SRemove x | OPop => SPop | OClear => SClear
  | OIor it => SIor it | OIsub it => SIsub it | OIand it => SIand it
  end.
Definition sout_of (o : outcome) : sout :=
  match o with ONone => SNone | OVal x => SVal x | OKeyError => SKeyError end.

Lemma step_refines : forall l t o t' out, represents l t -> sstep t (sop_of o) t' out ->
  represents (fst (step l o)) t' /\ sout_of (snd (step l o)) = out.
Proof.
  intros l t o t' out Hr Hst. pose proof (represents_nodup _ _ Hr) as Hn.
  destruct o; simpl in Hst; inversion Hst; subst; simpl.
  - split; auto using represents_add.
  - split; auto using represents_discard.
  - match goal with H : t_mem _ _ = true |- _ => rename H into Hx end.
    unfold os_remove. rewrite (represents_mem _ _ x Hr), Hx. simpl. split; auto using represents_discard.
  - match goal with H : t_mem _ _ = false |- _ => rename H into Hx end.
    unfold os_remove. rewrite (represents_mem _ _ x Hr), Hx. simpl. auto.
  - match goal with H : t_oldest _ _ |- _ => rename H into Hx end.
    destruct l as [|y r]; simpl.
    + exfalso. destruct Hx as [Hx _]. apply Hr in Hx. destruct Hx.
    + pose proof (head_oldest _ _ _ Hr) as Ho. rewrite (oldest_unique _ _ _ Hx Ho).
      split; auto. now apply represents_discard.
  - match goal with H : forall x, t_mem _ x = false |- _ => rename H into Hx end.
    destruct l as [|y r]; simpl; auto. exfalso.
    assert (t_mem t' y = true) as Hy by (apply Hr; now left). rewrite Hx in Hy. discriminate.
  - split; auto using represents_clear.
  - split; auto using represents_ior.
  - split; auto using represents_isub.
  - split; auto using represents_iand.
Qed.

Lemma run_from_refines : forall ops l t t' outs, represents l t -> ssteps t (map sop_of ops) t' outs ->
  represents (fst (run_from l ops)) t' /\ map sout_of (snd (run_from l ops)) = outs.
Proof.
  induction ops as [|o ops IH]; simpl; intros l t t' outs Hr Hss; inversion Hss; subst.
  - auto.
  - destruct (step_refines _ _ _ _ _ Hr H2) as [Hr1 Ho].
    destruct (step l o) as [s1 out1] eqn:E1. simpl in *.
    destruct (IH _ _ _ _ Hr1 H5) as [Hr2 Ho2].
    destruct (run_from s1 ops) as [s2 outs2]. simpl in *. split; auto. now rewrite Ho, Ho2.
Qed.

(* the iteration order after any history is the timestamp enumeration demanded by the specification *)
Theorem orderedset_order : forall ops t outs, ssteps t_empty (map sop_of ops) t outs ->
  represents (os_iter (fst (run ops))) t /\ map sout_of (snd (run ops)) = outs.
Proof. intros. unfold run, os_iter. eapply run_from_refines; eauto using represents_empty. Qed.

(* the specification is total: every history has a specified result (and by [orderedset_order] +
   [represents_unique] exactly one enumeration) *)
Lemma sstep_total : forall l t o, represents l t -> exists t' out, sstep t (sop_of o) t' out.
Proof.
  intros l t o Hr. destruct o; simpl; try (eexists; eexists; constructor; fail).
  - destruct (t_mem t x) eqn:E; eexists; eexists; [apply s_remove_ok|apply s_remove_err]; eauto.
  - destruct l as [|y r].
    + exists t, SKeyError. apply s_pop_err. intro x. destruct (t_mem t x) eqn:E; auto.
      apply Hr in E. destruct E.
    + eexists; eexists. apply s_pop_ok. eapply head_oldest; eauto.
Qed.

Lemma ssteps_total_from : forall ops l t, represents l t -> exists t' outs, ssteps t (map sop_of ops) t' outs.
Proof.
  induction ops as [|o ops IH]; simpl; intros l t Hr.
  - exists t, []. constructor.
  - destruct (sstep_total l t o Hr) as (t1 & out & Hst).
    destruct (step_refines _ _ _ _ _ Hr Hst) as [Hr1 _].
    destruct (IH _ _ Hr1) as (t2 & outs & Hss). exists t2, (out :: outs). econstructor; eauto.
Qed.

Theorem orderedset_spec_total : forall ops, exists t outs, ssteps t_empty (map sop_of ops) t outs.
Proof. intro. eapply ssteps_total_from. apply represents_empty. Qed.

Theorem orderedset_nodup : forall ops, NoDup (os_iter (fst (run ops))).
Proof.
  intro ops. destruct (orderedset_spec_total ops) as (t & outs & Hss).
  eapply represents_nodup. eapply orderedset_order; eauto.
Qed.

(* membership refines the mathematical set { x | t_mem t x } *)
Theorem orderedset_membership : forall ops t outs x, ssteps t_empty (map sop_of ops) t outs ->
  os_contains (fst (run ops)) x = t_mem t x.
Proof. intros. unfold os_contains. apply represents_mem. eapply orderedset_order; eauto. Qed.

(* len counts the elements of the set *)
Theorem orderedset_getitem : forall ops i x, os_getitem (fst (run ops)) i = Some x ->
  0 <= i < os_len (fst (run ops)) /\ nth_error (os_iter (fst (run ops))) (Z.to_nat i) = Some x.
Proof.
  intros ops i x. unfold os_getitem, os_len, len, os_iter. destruct (Z.ltb_spec i 0); [discriminate|].
  intro Hn. split; auto. assert (Z.to_nat i < length (fst (run ops)))%nat by (apply nth_error_Some; congruence). lia.
Qed.

(* ------------------------------------------------------------------ binary operators *)
(* s - other looks at `other` only through membership: the enumeration order of a builtin set
   argument cannot influence the result; the result keeps the order of s *)
Theorem os_sub_order_independent : forall s o1 o2, (forall x, In x o1 <-> In x o2) ->
  os_sub s o1 = os_sub s o2.
Proof.
  intros s o1 o2 He. unfold os_sub. f_equal. apply filter_ext. intro v. f_equal.
  destruct (mem v o2) eqn:E2.
  - apply mem_In. apply He. now apply mem_In.
  - apply mem_false. rewrite He. now apply mem_false.
Qed.

Lemma os_ior_nodup : forall it l, NoDup l -> NoDup (os_ior l it).
Proof.
  unfold os_ior. induction it; simpl; intros; auto. apply IHit. unfold os_add.
  destruct (mem a l) eqn:E; auto. apply mem_false in E.
  apply NoDup_app_one || idtac.
  clear IHit. induction l; simpl; [constructor; [tauto|constructor]|].
  inversion H; subst. constructor.
  - rewrite in_app_iff. intros [?|[?|[]]]; [tauto|subst; apply E; now left].
  - apply IHl; auto. intro; apply E; now right.
Qed.

(* s | other and s & other DO follow the enumeration order of `other` *)
Theorem os_or_order_relevant : exists s o1 o2, Permutation o1 o2 /\ os_or s o1 <> os_or s o2.
Proof. exists [1], [2; 3], [3; 2]. split; [apply perm_swap|vm_compute; discriminate]. Qed.

Theorem os_and_order_relevant : exists s o1 o2, Permutation o1 o2 /\ os_and s o1 <> os_and s o2.
Proof. exists [1; 2; 3], [2; 3], [3; 2]. split; [apply perm_swap|vm_compute; discriminate]. Qed.

Theorem os_ior_order_relevant : exists s o1 o2, Permutation o1 o2 /\ os_ior s o1 <> os_ior s o2.
Proof. exists [1], [2; 3], [3; 2]. split; [apply perm_swap|vm_compute; discriminate]. Qed.

(* ... but only the order, never the membership: as sets the results agree *)
Theorem os_or_same_set : forall s o1 o2 x, (forall y, In y o1 <-> In y o2) ->
  (In x (os_or s o1) <-> In x (os_or s o2)).
Proof.
  assert (Hin : forall it l x, In x (fold_left os_add it l) <-> In x l \/ In x it).
  { induction it; simpl; intros; [tauto|]. rewrite IHit. unfold os_add. destruct (mem a l) eqn:E.
    - apply mem_In in E. split; intros [?|?]; auto. destruct H; subst; auto.
    - rewrite in_app_iff. simpl. tauto. }
  intros s o1 o2 x He. unfold os_or, os_init, os_ior. rewrite !Hin, !in_app_iff, He. tauto.
Qed.

(* ------------------------------------------------------------------ __reversed__ *)
(* as implemented it yields the first key only ... *)
Theorem os_reversed_first_only : forall s, os_reversed s = match s with [] => [] | x :: _ => [x] end.
Proof. destruct s; reflexivity. Qed.

(* ... which is not the reverse of the iteration order *)
Theorem os_reversed_refuted : exists s, NoDup s /\ os_reversed s <> rev (os_iter s).
Proof.
  exists [1; 2]. split.
  - constructor; [simpl; intros [H|[]]; discriminate|]. constructor; [simpl; tauto|constructor].
  - vm_compute. discriminate.
Qed.

Theorem os_reversed_fixed_correct : forall s, os_reversed_fixed s = rev (os_iter s).
Proof. reflexivity. Qed.
