(* Proofs/C24_func.v — the emitted block dispatcher simulates the IR semantics (property C24). *)
From PV Require Import Lib.Py Lib.Tac Spec.IRSemArith Gen.ir2py_runtime Model.Ir2Py Proofs.C24_ir2py.
From PV Require Import Spec.IRSyntax Spec.IRSem Model.Ir2PyFunc.
From Coq Require Import String.
Open Scope Z_scope.

(* ------------------------------------------------------------------ generic list facts *)
Lemma mem_str_In s l : mem_str s l = true <-> In s l.
Proof.
  induction l as [|x r IH]; cbn; [split; [discriminate|tauto]|].
  rewrite orb_true_iff, IH, String.eqb_eq. split; intros [H|H]; auto.
Qed.
Lemma nodup_str_NoDup l : nodup_str l = true -> NoDup l.
Proof.
  induction l as [|x r IH]; cbn; [constructor|]. rewrite andb_true_iff, negb_true_iff.
  intros [H1 H2]. constructor; [|auto]. intros Hin. apply mem_str_In in Hin. congruence.
Qed.
Lemma mem_pos_In s l : mem_pos s l = true <-> In s l.
Proof.
  induction l as [|x r IH]; cbn; [split; [discriminate|tauto]|].
  rewrite orb_true_iff, IH, Pos.eqb_eq. split; intros [H|H]; auto.
Qed.
Lemma nodup_pos_NoDup l : nodup_pos l = true -> NoDup l.
Proof.
  induction l as [|x r IH]; cbn; [constructor|]. rewrite andb_true_iff, negb_true_iff.
  intros [H1 H2]. constructor; [|auto]. intros Hin. apply mem_pos_In in Hin. congruence.
Qed.
Lemma NoDup_map_inj {A B} (g : A -> B) l :
  NoDup (map g l) -> forall x y, In x l -> In y l -> g x = g y -> x = y.
Proof.
  induction l as [|a r IH]; cbn; intros ND x y Hx Hy E; [tauto|].
  inversion ND as [|? ? Hn ND']; subst.
  destruct Hx as [<-|Hx], Hy as [<-|Hy]; auto.
  - exfalso. apply Hn. rewrite E. now apply in_map.
  - exfalso. apply Hn. rewrite <- E. now apply in_map.
Qed.
Lemma NoDup_app_disj {A} (a b : list A) x : NoDup (a ++ b) -> In x a -> In x b -> False.
Proof.
  induction a as [|h r IH]; cbn; intros ND Ha Hb; [tauto|].
  inversion ND as [|? ? Hn ND']; subst. destruct Ha as [<-|Ha]; [|eauto].
  apply Hn. apply in_or_app. now right.
Qed.
Lemma NoDup_app_l {A} (a b : list A) : NoDup (a ++ b) -> NoDup a.
Proof.
  induction a as [|h r IH]; cbn; intros ND; [constructor|].
  inversion ND as [|? ? Hn ND']; subst. constructor; [|auto].
  intros Hin. apply Hn. apply in_or_app. now left.
Qed.
Lemma NoDup_app_r {A} (a b : list A) : NoDup (a ++ b) -> NoDup b.
Proof. induction a as [|h r IH]; cbn; intros ND; [assumption|]. inversion ND; auto. Qed.

Lemma find_unique {A} (p : A -> bool) l x :
  In x l -> p x = true -> (forall y, In y l -> p y = true -> y = x) -> find p l = Some x.
Proof.
  induction l as [|a r IH]; cbn; intros Hin Hp Hu; [tauto|].
  destruct (p a) eqn:Pa; [f_equal; apply Hu; auto|].
  destruct Hin as [->|Hin]; [congruence|]. apply IH; auto.
Qed.

(* ------------------------------------------------------------------ python environments *)
Lemma getv_cons_eq en x v : getv ((x, v) :: en) x = Ok v.
Proof. cbn. now rewrite String.eqb_refl. Qed.
Lemma getv_cons_ne en x y v : x <> y -> getv ((y, v) :: en) x = getv en x.
Proof. intros H. cbn. apply String.eqb_neq in H. now rewrite H. Qed.

(* generalised per-instruction exactness: arbitrary environment and names *)
Lemma exec_binop op t n a b x y v en :
  0 < bits t -> emitted_op op -> in_range t x -> in_range t y ->
  getv en a = Ok (PInt x) -> getv en b = Ok (PInt y) -> sem_binop op t x y = Some v ->
  exists raw, exec en (gen_binop op n a b t) = Ok ((n, PInt v) :: (n, PInt raw) :: en).
Proof.
  intros Hb [Hrol Hror] Hx Hy Ga Gb Hs.
  assert (Et : mkity (bits t) (signed t) = t) by (destruct t; reflexivity).
  unfold gen_binop.
  destruct op; cbn [exec eval]; rewrite ?Ga, ?Gb; cbn [bind as_int bin_int]; cbn in Hs; try congruence.
  all: try (rewrite getv_cons_eq; cbn [bind as_int]; rewrite correct_wrap, Et by lia; cbn [bind];
            injection Hs as <-; eexists; reflexivity).
  - destruct (div_defined t x y) eqn:D; [|discriminate]. injection Hs as <-.
    assert (y <> 0) by (unfold div_defined in D; lia).
    rewrite idiv_quot by assumption. cbn [bind]. rewrite getv_cons_eq. cbn [bind as_int].
    rewrite correct_wrap, Et by lia. cbn [bind].
    rewrite wrap_id by (try assumption; apply quot_in_range; assumption). eexists; reflexivity.
  - destruct (div_defined t x y) eqn:D; [|discriminate]. injection Hs as <-.
    assert (y <> 0) by (unfold div_defined in D; lia).
    rewrite irem_rem by assumption. cbn [bind]. rewrite getv_cons_eq. cbn [bind as_int].
    rewrite correct_wrap, Et by lia. cbn [bind].
    rewrite wrap_id by (try assumption; apply rem_in_range; assumption). eexists; reflexivity.
  - destruct (shift_defined t y) eqn:D; [|discriminate]. injection Hs as <-.
    unfold shift_defined in D. rewrite ishl_mul by lia. cbn [bind]. rewrite getv_cons_eq. cbn [bind as_int].
    rewrite correct_wrap, Et by lia. cbn [bind]. eexists; reflexivity.
  - destruct (shift_defined t y) eqn:D; [|discriminate]. injection Hs as <-.
    unfold shift_defined in D. rewrite ishr_div by lia. cbn [bind]. rewrite getv_cons_eq. cbn [bind as_int].
    rewrite correct_wrap, Et by lia. cbn [bind].
    rewrite wrap_id by (try assumption; apply shr_in_range; try assumption; lia). eexists; reflexivity.
Qed.

Lemma exec_unop op t n a x en :
  0 < bits t -> getv en a = Ok (PInt x) ->
  exists raw, exec en (gen_unop op n a t) = Ok ((n, PInt (sem_unop op t x)) :: (n, PInt raw) :: en).
Proof.
  intros Hb Ga. assert (Et : mkity (bits t) (signed t) = t) by (destruct t; reflexivity).
  unfold gen_unop. destruct op; cbn [exec eval]; rewrite Ga; cbn [bind as_int];
    rewrite getv_cons_eq; cbn [bind as_int]; rewrite correct_wrap, Et by lia; cbn [bind].
  - eexists; reflexivity.
  - replace (Z.lnot x) with (- x - 1) by (unfold Z.lnot, Z.pred; lia). eexists; reflexivity.
Qed.

Lemma exec_cast t n a x en :
  0 < bits t -> getv en a = Ok (PInt x) ->
  exec en (gen_cast CastTrunc n a t) = Ok ((n, PInt (wrap t x)) :: en).
Proof.
  intros Hb Ga. assert (Et : mkity (bits t) (signed t) = t) by (destruct t; reflexivity).
  unfold gen_cast. cbn [exec eval]. rewrite Ga. cbn [bind as_int].
  rewrite correct_wrap, Et by lia. reflexivity.
Qed.

(* ------------------------------------------------------------------ IRSem arithmetic = IRSemArith *)
Lemma ity_shape c t it : ity_of t = Some it ->
  int_shape c t = Some (bits it, signed it) /\ 0 < bits it.
Proof. destruct t; cbn; intros [= <-]; split; reflexivity. Qed.

Lemma wrap_bits_wrap it z : wrap_bits (bits it) (signed it) z = wrap it z.
Proof. reflexivity. Qed.

Lemma eval_binop_sem c t it o op x y z :
  ity_of t = Some it -> aop o = Some op -> in_range it x -> in_range it y ->
  eval_binop c t o x y = ODone z -> sem_binop op it x y = Some z.
Proof.
  intros Ht Ho Hx Hy. destruct (ity_shape c t it Ht) as [Sh Hb]. unfold eval_binop. rewrite Sh.
  fold (lo it).
  destruct o; cbn in Ho; try discriminate; injection Ho as <-; cbn [sem_binop];
    rewrite ?wrap_bits_wrap; try (intros [= <-]; reflexivity).
  - (* Div *) unfold div_defined.
    assert (L : - 2 ^ (bits it - 1) = lo it \/ signed it = false) by (unfold lo; destruct (signed it); auto).
    destruct (Z.eqb_spec y 0); [discriminate|]. cbn [negb andb].
    destruct (signed it && (x =? - 2 ^ (bits it - 1)) && (y =? -1)) eqn:D; [discriminate|].
    intros [= <-].
    assert (D' : signed it && (x =? lo it) && (y =? -1) = false).
    { destruct L as [<-|S]; [assumption|]. now rewrite S. }
    rewrite D'. cbn [negb]. f_equal. symmetry. apply wrap_id; [assumption|].
    apply quot_in_range; try assumption. unfold div_defined. rewrite D'. lia.
  - unfold div_defined.
    assert (L : - 2 ^ (bits it - 1) = lo it \/ signed it = false) by (unfold lo; destruct (signed it); auto).
    destruct (Z.eqb_spec y 0); [discriminate|]. cbn [negb andb].
    destruct (signed it && (x =? - 2 ^ (bits it - 1)) && (y =? -1)) eqn:D; [discriminate|].
    intros [= <-].
    assert (D' : signed it && (x =? lo it) && (y =? -1) = false).
    { destruct L as [<-|S]; [assumption|]. now rewrite S. }
    rewrite D'. cbn [negb]. f_equal. symmetry. apply wrap_id; [assumption|].
    apply rem_in_range; try assumption. unfold div_defined. rewrite D'. lia.
  - unfold shift_defined. destruct ((0 <=? y) && (y <? bits it)); [|discriminate]. now intros [= <-].
  - unfold shift_defined. destruct ((0 <=? y) && (y <? bits it)) eqn:D; [|discriminate]. intros [= <-].
    f_equal. symmetry. apply wrap_id; [assumption|]. apply shr_in_range; try assumption. lia.
Qed.

Lemma aop_emitted o op : aop o = Some op -> emitted_op op.
Proof. destruct o; cbn; intros [= <-]; split; discriminate. Qed.

Lemma eval_unop_sem c t it o x z :
  ity_of t = Some it -> eval_unop c t o x = ODone z -> z = sem_unop (auop o) it x.
Proof.
  intros Ht. destruct (ity_shape c t it Ht) as [Sh Hb]. unfold eval_unop. rewrite Sh.
  destruct o; intros [= <-]; reflexivity.
Qed.

Lemma wrap_ty_sem c t it z : ity_of t = Some it -> wrap_ty c t z = Some (wrap it z).
Proof. intros Ht. destruct (ity_shape c t it Ht) as [Sh Hb]. unfold wrap_ty. now rewrite Sh. Qed.

Lemma eval_cond_cmp cc x y : eval_cond cc x y = py_cmp (ccop cc) x y.
Proof. destruct cc; cbn; lia. Qed.

(* ------------------------------------------------------------------ the dispatcher loop *)
Definition pblocks := list (string * list pitem).
Definition Suffix (r all : pblocks) : Prop := exists pre, all = pre ++ r.

Fixpoint split_at (cur : string) (rest : pblocks) : option (list pitem * pblocks) :=
  match rest with
  | [] => None
  | (name, items) :: r => if String.eqb cur name then Some (items, r) else split_at cur r
  end.

Definition finish (k : string -> pyenv -> result pyval) (r : pblocks) (c : result pctl) : result pyval :=
  c' <- c ;; match c' with PNext cur' en' => scan k r cur' en' | PReturn v => Ok v end.

Lemma scan_split k rest cur en :
  scan k rest cur en =
  match split_at cur rest with
  | Some (items, r') => finish k r' (run_items items cur en)
  | None => k cur en
  end.
Proof.
  induction rest as [|[name items] r IH]; cbn; [reflexivity|].
  destruct (String.eqb cur name); [reflexivity|apply IH].
Qed.

Lemma split_at_some cur rest items r' :
  split_at cur rest = Some (items, r') -> In (cur, items) rest /\ Suffix r' rest.
Proof.
  induction rest as [|[name it] r IH]; cbn; [discriminate|].
  destruct (String.eqb_spec cur name) as [->|Hne].
  - intros [= -> ->]. split; [now left|]. exists [(name, items)]. reflexivity.
  - intros H. destruct (IH H) as [H1 [pre H2]]. split; [now right|].
    exists ((name, it) :: pre). cbn. now rewrite H2.
Qed.

Lemma split_at_in cur rest items :
  In (cur, items) rest -> exists items' r', split_at cur rest = Some (items', r').
Proof.
  induction rest as [|[name it] r IH]; cbn; [tauto|].
  destruct (String.eqb_spec cur name) as [->|Hne]; [eauto|].
  intros [[= -> ->]|H]; [congruence|auto].
Qed.

Lemma Suffix_trans a b c : Suffix a b -> Suffix b c -> Suffix a c.
Proof. intros [p1 ->] [p2 ->]. exists (p2 ++ p1). now rewrite app_assoc. Qed.
Lemma Suffix_refl a : Suffix a a.
Proof. now exists []. Qed.
Lemma Suffix_In (a b : pblocks) x : Suffix a b -> In x a -> In x b.
Proof. intros [p ->] H. apply in_or_app. now right. Qed.

Section Sim.
  Variable c : cfg.
  Variable m : modul.
  Variable ge : list (string * Z).
  Variable f : func.
  Variable all : pblocks.
  Variable args : list value.

  Hypothesis Hall : compile_blocks f (f_blocks f) = Some all.
  (* distinct names / ids (from names_okb, see the wrapper below) *)
  Hypothesis Hdef : forall i d, In i (func_instrs f) -> instr_def i = Some d -> find_def f (def_id d) = Some d.
  Hypothesis Hname : forall v1 v2 d1 d2, find_def f v1 = Some d1 -> find_def f v2 = Some d2 ->
                                          def_name d1 = def_name d2 -> v1 = v2.
  Hypothesis Hpar : forall k p v d, nth_error (f_params f) k = Some p -> find_def f v = Some d ->
                                    fst p <> def_name d.
  Hypothesis Hbn : NoDup (map fst all).

  (* the Python variables agree with the IR environment on every defined value; all of them are
     integers in the range of their type *)
  Definition agree (e : IRSem.env) (pen : pyenv) : Prop :=
    (forall v x, env_get e v = Some x ->
       exists z d it, x = Vint z /\ find_def f v = Some d /\ ity_of (def_ty d) = Some it /\
                      in_range it z /\ getv pen (def_name d) = Ok (PInt z))
    /\ (forall k x, nth_error args k = Some x ->
       exists z p it, x = Vint z /\ nth_error (f_params f) k = Some p /\ ity_of (snd p) = Some it /\
                      in_range it z /\ getv pen (fst p) = Ok (PInt z)).

  Lemma find_def_id v d : find_def f v = Some d -> def_id d = v.
  Proof. unfold find_def. intros H. apply find_some in H. destruct H as [_ H]. now apply Pos.eqb_eq in H. Qed.

  (* an operand: its IR value is the Python value of its name *)
  Lemma agree_ref e pen r nm t x :
    agree e pen -> ref_name f r = Some (nm, t) -> eval_ref m ge false e args r = ODone x ->
    exists z it, x = Vint z /\ ity_of t = Some it /\ in_range it z /\ getv pen nm = Ok (PInt z).
  Proof.
    intros [A1 A2] Hr He. destruct r as [v|k|s|s]; cbn in Hr, He; try discriminate.
    - destruct (env_get e v) as [x0|] eqn:E; [|discriminate].
      destruct (A1 v x0 E) as [z [d [it [-> [Fd [Ht [Hz G]]]]]]]. injection He as <-.
      rewrite Fd in Hr. injection Hr as <- <-. eauto 6.
    - destruct (nth_error args k) as [x0|] eqn:E; cbn in He; [|discriminate]. injection He as <-.
      destruct (A2 k x0 E) as [z [p [it [-> [Fp [Ht [Hz G]]]]]]].
      rewrite Fp in Hr. destruct p as [pn pt]. injection Hr as <- <-. eauto 6.
  Qed.

  Lemma agree_phi_ref e pen r nm t x :
    agree e pen -> ref_name f r = Some (nm, t) -> eval_ref m ge true e args r = ODone x ->
    exists z it, x = Vint z /\ ity_of t = Some it /\ in_range it z /\ getv pen nm = Ok (PInt z).
  Proof.
    intros [A1 A2] Hr He. destruct r as [v|k|s|s]; cbn in Hr, He; try discriminate.
    - destruct (env_get e v) as [x0|] eqn:E; [|discriminate].
      destruct (A1 v x0 E) as [z [d [it [-> [Fd [Ht [Hz G]]]]]]]. injection He as <-.
      rewrite Fd in Hr. injection Hr as <- <-. eauto 6.
    - destruct (nth_error args k) as [x0|] eqn:E; cbn in He; [|discriminate]. injection He as <-.
      destruct (A2 k x0 E) as [z [p [it [-> [Fp [Ht [Hz G]]]]]]].
      rewrite Fp in Hr. destruct p as [pn pt]. injection Hr as <- <-. eauto 6.
  Qed.

  Lemma typed_ref_name r t nm : typed_ref f r t = Some nm -> ref_name f r = Some (nm, t).
  Proof.
    unfold typed_ref. destruct (ref_name f r) as [[n t']|]; [|discriminate].
    destruct (ty_eqb t' t) eqn:E; [|discriminate]. apply ty_eqb_spec in E. now intros [= <-]; subst.
  Qed.
  Lemma int_ref_name r nm : int_ref f r = Some nm -> exists t it, ref_name f r = Some (nm, t) /\ ity_of t = Some it.
  Proof.
    unfold int_ref. destruct (ref_name f r) as [[n t']|]; [|discriminate].
    destruct (ity_of t') eqn:E; [|discriminate]. intros [= <-]. eauto.
  Qed.

  Lemma agree_int e pen r nm t z :
    agree e pen -> ref_name f r = Some (nm, t) -> eval_int m ge e args r = ODone z ->
    exists it, ity_of t = Some it /\ in_range it z /\ getv pen nm = Ok (PInt z).
  Proof.
    intros A Hr He. unfold eval_int in He.
    destruct (eval_ref m ge false e args r) as [x| | | |] eqn:E; cbn in He; try discriminate.
    destruct (agree_ref e pen r nm t x A Hr E) as [z' [it [-> [Ht [Hz G]]]]]. injection He as <-. eauto.
  Qed.

  (* binding a freshly defined value *)
  Lemma agree_def e pen v d it z pen' :
    agree e pen -> find_def f v = Some d -> ity_of (def_ty d) = Some it -> in_range it z ->
    getv pen' (def_name d) = Ok (PInt z) ->
    (forall n, n <> def_name d -> getv pen' n = getv pen n) ->
    agree ((v, Vint z) :: e) pen'.
  Proof.
    intros [A1 A2] Fd Ht Hz G Hother. split.
    - intros v' x. cbn. destruct (Pos.eqb_spec v v') as [<-|Hne].
      + intros [= <-]. exists z, d, it. auto.
      + intros E. destruct (A1 v' x E) as [z' [d' [it' [-> [Fd' [Ht' [Hz' G']]]]]]].
        exists z', d', it'. do 4 (split; [first [reflexivity|assumption]|]). rewrite Hother; [assumption|].
        intros En. apply Hne. symmetry. eapply Hname; eauto.
    - intros k x E. destruct (A2 k x E) as [z' [p [it' [-> [Fp [Ht' [Hz' G']]]]]]].
      exists z', p, it'. do 4 (split; [first [reflexivity|assumption]|]). rewrite Hother; [assumption|].
      eapply Hpar; eauto.
  Qed.

  (* every non-phi, non-terminator instruction of the fragment *)
  Lemma step_sim b e s i e' s' items pen :
    In i (func_instrs f) -> is_terminator i = false ->
    step_simple c m ge f args e s i = ODone (e', s') -> compile_instr f b i = Some items ->
    agree e pen ->
    forall l cur, exists pen', run_items (items ++ l) cur pen = run_items l cur pen' /\ agree e' pen'.
  Proof.
    intros Hin Hterm Hstep Hc A l cur.
    destruct i; cbn in Hc, Hstep, Hterm; try discriminate.
    - (* IConst *)
      destruct c0 as [z|]; [|discriminate].
      destruct (ity_of t) as [it|] eqn:Ht; [|discriminate].
      destruct (in_rangeb it z) eqn:R; [|discriminate]. injection Hc as <-.
      unfold eval_const in Hstep. rewrite (wrap_ty_sem c t it z Ht) in Hstep. cbn in Hstep. injection Hstep as <- <-.
      apply in_rangeb_spec in R. destruct (ity_shape c t it Ht) as [_ Hb].
      rewrite wrap_id by assumption.
      exists ((n, PInt z) :: pen). split; [reflexivity|].
      pose proof (Hdef _ _ Hin eq_refl) as Fd. cbn in Fd.
      eapply agree_def; eauto; cbn; [apply getv_cons_eq | intros; now apply getv_cons_ne].
    - (* IBinop *)
      destruct (ity_of t) as [it|] eqn:Ht; [|discriminate].
      destruct (aop o) as [op|] eqn:Ho; [|discriminate].
      destruct (typed_ref f a t) as [na|] eqn:Ra; [|discriminate].
      destruct (typed_ref f b0 t) as [nb|] eqn:Rb; [|discriminate]. injection Hc as <-.
      destruct (eval_int m ge e args a) as [x| | | |] eqn:Ea; cbn in Hstep; try discriminate.
      destruct (eval_int m ge e args b0) as [y| | | |] eqn:Eb; cbn in Hstep; try discriminate.
      destruct (eval_binop c t o x y) as [z| | | |] eqn:Ez; cbn in Hstep; try discriminate.
      injection Hstep as <- <-.
      destruct (agree_int e pen a na t x A (typed_ref_name _ _ _ Ra) Ea) as [it1 [Ht1 [Hx Ga]]].
      destruct (agree_int e pen b0 nb t y A (typed_ref_name _ _ _ Rb) Eb) as [it2 [Ht2 [Hy Gb]]].
      rewrite Ht in Ht1, Ht2. injection Ht1 as <-. injection Ht2 as <-.
      destruct (ity_shape c t it Ht) as [_ Hb].
      pose proof (eval_binop_sem c t it o op x y z Ht Ho Hx Hy Ez) as Hs.
      destruct (exec_binop op it n na nb x y z pen Hb (aop_emitted _ _ Ho) Hx Hy Ga Gb Hs) as [raw Ex].
      eexists. split; [cbn [app run_items]; rewrite Ex; reflexivity|].
      pose proof (Hdef _ _ Hin eq_refl) as Fd. cbn in Fd.
      eapply agree_def; eauto; cbn [def_name def_ty fst snd].
      + exact (binop_in_range op it x y z Hb Hx Hy Hs).
      + apply getv_cons_eq.
      + intros n' Hn. now rewrite !getv_cons_ne by assumption.
    - (* IUnop *)
      destruct (ity_of t) as [it|] eqn:Ht; [|discriminate].
      destruct (typed_ref f a t) as [na|] eqn:Ra; [|discriminate]. injection Hc as <-.
      destruct (eval_int m ge e args a) as [x| | | |] eqn:Ea; cbn in Hstep; try discriminate.
      destruct (eval_unop c t o x) as [z| | | |] eqn:Ez; cbn in Hstep; try discriminate.
      injection Hstep as <- <-.
      destruct (agree_int e pen a na t x A (typed_ref_name _ _ _ Ra) Ea) as [it1 [Ht1 [Hx Ga]]].
      rewrite Ht in Ht1. injection Ht1 as <-.
      destruct (ity_shape c t it Ht) as [_ Hb].
      pose proof (eval_unop_sem c t it o x z Ht Ez) as ->.
      destruct (exec_unop (auop o) it n na x pen Hb Ga) as [raw Ex].
      eexists. split; [cbn [app run_items]; rewrite Ex; reflexivity|].
      pose proof (Hdef _ _ Hin eq_refl) as Fd. cbn in Fd.
      eapply agree_def; eauto; cbn [def_name def_ty fst snd].
      + destruct o; cbn [auop sem_unop]; now apply wrap_in_range.
      + apply getv_cons_eq.
      + intros n' Hn. now rewrite !getv_cons_ne by assumption.
    - (* ICast *)
      destruct (ity_of t) as [it|] eqn:Ht; [|discriminate].
      destruct (int_ref f a) as [na|] eqn:Ra; [|discriminate]. injection Hc as <-.
      destruct (eval_ref m ge false e args a) as [x| | | |] eqn:Ea; cbn in Hstep; try discriminate.
      destruct (int_ref_name _ _ Ra) as [ta [ita [Rn Hta]]].
      destruct (agree_ref e pen a na ta x A Rn Ea) as [z [it1 [-> [Ht1 [Hx Ga]]]]].
      cbn in Hstep. rewrite (wrap_ty_sem c t it z Ht) in Hstep. cbn in Hstep. injection Hstep as <- <-.
      destruct (ity_shape c t it Ht) as [_ Hb].
      eexists. split; [cbn [app run_items]; rewrite (exec_cast it n na z pen Hb Ga); reflexivity|].
      pose proof (Hdef _ _ Hin eq_refl) as Fd. cbn in Fd.
      eapply agree_def; eauto; cbn [def_name def_ty fst snd].
      + now apply wrap_in_range.
      + apply getv_cons_eq.
      + intros n' Hn. now rewrite getv_cons_ne by assumption.
    - (* IPhi: no code, no effect *)
      destruct (ity_of t); [|discriminate]. injection Hc as <-. injection Hstep as <- <-.
      exists pen. split; [reflexivity|assumption].
  Qed.

  (* ---------------------------------------------------------------- phis / jumps *)
  Lemma find_str_none (tv : list (string * pyval)) x :
    ~ In x (map fst tv) -> find (fun p => String.eqb (fst p) x) tv = None.
  Proof.
    induction tv as [|[t v] r IH]; intros H; [reflexivity|]. cbn in *.
    destruct (String.eqb_spec t x); [exfalso; apply H; now left|]. apply IH. tauto.
  Qed.
  Lemma bind_vars_get (tv : list (string * pyval)) : forall pen x, NoDup (map fst tv) ->
    getv (bind_vars pen tv) x =
    match find (fun p => String.eqb (fst p) x) tv with Some p => Ok (snd p) | None => getv pen x end.
  Proof.
    induction tv as [|[t v] r IH]; intros pen x ND; [reflexivity|].
    cbn [bind_vars]. cbn in ND. inversion ND as [|? ? Hn ND']; subst.
    rewrite IH by assumption. cbn [find fst snd].
    destruct (String.eqb_spec t x) as [->|Hne].
    - rewrite find_str_none by assumption. apply getv_cons_eq.
    - destruct (find _ r); [reflexivity|]. apply getv_cons_ne. congruence.
  Qed.
  Lemma map_fst_combine_s (ts : list string) : forall (vs : list pyval), List.length ts = List.length vs ->
    map fst (combine ts vs) = ts.
  Proof.
    induction ts as [|t r IH]; intros [|v vs] H; try discriminate; [reflexivity|].
    cbn. f_equal. apply IH. now injection H.
  Qed.
  Lemma env_get_app (a b : IRSem.env) v :
    env_get (a ++ b) v = match env_get a v with Some x => Some x | None => env_get b v end.
  Proof. induction a as [|[k x] r IH]; cbn; [reflexivity|]. destruct (Pos.eqb k v); auto. Qed.

  Lemma phi_sim b e pen : agree e pen -> forall lt pairs ph,
    (forall i, In i lt -> In i (func_instrs f)) ->
    phi_pairs f b lt = Some pairs -> eval_phis m ge (Some b) e args lt = ODone ph ->
    exists zs, read_vars pen (map snd pairs) = Ok (map PInt zs) /\ List.length zs = List.length pairs /\
      (forall v x, env_get ph v = Some x -> exists z d it, x = Vint z /\ find_def f v = Some d /\
           ity_of (def_ty d) = Some it /\ in_range it z /\
           In (def_name d, PInt z) (combine (map fst pairs) (map PInt zs))) /\
      (forall n, In n (map fst pairs) -> exists v d, find_def f v = Some d /\ def_name d = n /\ env_get ph v <> None).
  Proof.
    intros A. induction lt as [|i r IH]; intros pairs ph Hin Hp He.
    - cbn in Hp, He. injection Hp as <-. injection He as <-. exists []. cbn.
      repeat split; try discriminate; tauto.
    - assert (Hin' : forall i0, In i0 r -> In i0 (func_instrs f)) by (intros; apply Hin; now right).
      destruct i; cbn [phi_pairs eval_phis] in Hp, He; try (now apply IH).
      destruct (ity_of t) as [it|] eqn:Ht; [|discriminate].
      destruct (find (fun q => Pos.eqb (fst q) b) ins) as [q|]; [|discriminate].
      destruct (typed_ref f (snd q) t) as [sn|] eqn:Rs; [|discriminate].
      destruct (phi_pairs f b r) as [rest|] eqn:Pr; [|discriminate]. injection Hp as <-.
      destruct (eval_ref m ge true e args (snd q)) as [x| | | |] eqn:Ex; cbn in He; try discriminate.
      destruct (eval_phis m ge (Some b) e args r) as [ph'| | | |] eqn:Er; cbn in He; try discriminate.
      injection He as <-.
      destruct (agree_phi_ref e pen (snd q) sn t x A (typed_ref_name _ _ _ Rs) Ex) as [z [it' [-> [Ht' [Hz G]]]]].
      rewrite Ht in Ht'. injection Ht' as <-.
      destruct (IH rest ph' Hin' eq_refl eq_refl) as [zs [Rd [Ln [P3 P4]]]].
      pose proof (Hdef _ _ (Hin _ (or_introl eq_refl)) eq_refl) as Fd. cbn in Fd.
      exists (z :: zs). cbn [map read_vars fst snd]. rewrite G. cbn [bind]. rewrite Rd. cbn [bind].
      split; [reflexivity|]. split; [cbn; now rewrite Ln|]. split.
      + intros v' x'. cbn [env_get combine]. destruct (Pos.eqb_spec v v') as [<-|Hne].
        * intros [= <-]. exists z, (v, n, t), it. do 4 (split; [first [reflexivity|assumption]|]). now left.
        * intros E. destruct (P3 v' x' E) as [z' [d' [it' [-> [Fd' [Ht' [Hz' I']]]]]]].
          exists z', d', it'. do 4 (split; [first [reflexivity|assumption]|]). now right.
      + intros n' [<-|Hn'].
        * exists v, (v, n, t). split; [assumption|]. split; [reflexivity|]. cbn. now rewrite Pos.eqb_refl.
        * destruct (P4 n' Hn') as [v0 [d0 [F0 [N0 E0]]]]. exists v0, d0. split; [assumption|]. split; [assumption|].
          cbn. destruct (Pos.eqb v v0); [discriminate|assumption].
  Qed.

  Lemma block_instrs blk i : In blk (f_blocks f) -> In i (b_ins blk) -> In i (func_instrs f).
  Proof. intros Hb Hi. unfold func_instrs. apply in_flat_map. eauto. Qed.

  Lemma find_block_some b blk : find_block f b = Some blk -> In blk (f_blocks f) /\ b_id blk = b.
  Proof. unfold find_block. intros H. apply find_some in H. destruct H as [H1 H2]. now apply Pos.eqb_eq in H2. Qed.

  Lemma jump_sim b t e pen j blk' ph :
    agree e pen -> jump_of f b t = Some j -> find_block f t = Some blk' ->
    eval_phis m ge (Some b) e args (b_ins blk') = ODone ph ->
    exists pen', run_jump j pen = Ok (b_name blk', pen') /\ agree (ph ++ e) pen'.
  Proof.
    intros A Hj Hf He. unfold jump_of in Hj. rewrite Hf in Hj.
    destruct (phi_pairs f b (b_ins blk')) as [pairs|] eqn:Pp; [|discriminate].
    destruct (nodup_str (map fst pairs)) eqn:Nd; [|discriminate]. injection Hj as <-.
    apply nodup_str_NoDup in Nd.
    destruct (find_block_some _ _ Hf) as [Hb _].
    destruct (phi_sim b e pen A (b_ins blk') pairs ph (fun i H => block_instrs blk' i Hb H) Pp He)
      as [zs [Rd [Ln [P3 P4]]]].
    assert (Lc : List.length (map fst pairs) = List.length (map PInt zs)) by (rewrite !map_length; lia).
    unfold run_jump, tuple_assign_s. rewrite Rd. cbn [bind]. eexists. split; [reflexivity|].
    destruct A as [A1 A2].
    assert (NDtv : NoDup (map fst (combine (map fst pairs) (map PInt zs)))) by (now rewrite map_fst_combine_s).
    split.
    - intros v x. rewrite env_get_app. destruct (env_get ph v) as [x0|] eqn:Ev.
      + intros [= <-]. destruct (P3 v x0 Ev) as [z [d [it [-> [Fd [Ht [Hz I]]]]]]].
        exists z, d, it. do 4 (split; [first [reflexivity|assumption]|]).
        rewrite bind_vars_get by assumption.
        rewrite (find_unique _ _ (def_name d, PInt z)); [reflexivity|assumption|apply String.eqb_refl|].
        intros y Hy Ey. apply String.eqb_eq in Ey.
        apply (NoDup_map_inj fst _ NDtv); auto.
      + intros E. destruct (A1 v x E) as [z [d [it [-> [Fd [Ht [Hz G]]]]]]].
        exists z, d, it. do 4 (split; [first [reflexivity|assumption]|]).
        rewrite bind_vars_get by assumption. rewrite find_str_none; [assumption|].
        rewrite map_fst_combine_s by assumption. intros Hn.
        destruct (P4 _ Hn) as [v0 [d0 [F0 [N0 E0]]]].
        assert (v0 = v) by (eapply Hname; eauto). subst. congruence.
    - intros k x E. destruct (A2 k x E) as [z [p [it [-> [Fp [Ht [Hz G]]]]]]].
      exists z, p, it. do 4 (split; [first [reflexivity|assumption]|]).
      rewrite bind_vars_get by assumption. rewrite find_str_none; [assumption|].
      rewrite map_fst_combine_s by assumption. intros Hn.
      destruct (P4 _ Hn) as [v0 [d0 [F0 [N0 E0]]]]. symmetry in N0. revert N0. eapply Hpar; eauto.
  Qed.

  (* ---------------------------------------------------------------- the simulation *)
  Lemma compile_blocks_in : forall l bs, compile_blocks f l = Some bs -> forall k, In k l ->
    exists items, compile_instrs f (b_id k) (b_ins k) = Some items /\ In (b_name k, items) bs.
  Proof.
    induction l as [|a r IH]; intros bs H k Hk; [destruct Hk|]. cbn in H.
    destruct (compile_instrs f (b_id a) (b_ins a)) as [items|] eqn:Ci; [|discriminate].
    destruct (compile_blocks f r) as [rest|] eqn:Cr; [|discriminate]. injection H as <-.
    destruct Hk as [<-|Hk]; [exists items; split; [assumption|now left]|].
    destruct (IH rest eq_refl k Hk) as [it [H1 H2]]. exists it. split; [assumption|now right].
  Qed.

  Lemma exec_block_inv n pred b e s r :
    exec_block c m ge n f args pred b e s = ODone r ->
    exists blk ph, find_block f b = Some blk /\ eval_phis m ge pred e args (b_ins blk) = ODone ph.
  Proof.
    destruct n; cbn [exec_block]; [discriminate|].
    destruct (find_block f b) as [blk|] eqn:Fb; [|discriminate].
    destruct (eval_phis m ge pred e args (b_ins blk)) as [ph| | | |] eqn:Ep; cbn [obind]; try discriminate.
    intros _. exists blk, ph. split; [reflexivity|assumption].
  Qed.

  Definition reaches (v : Z) (name : string) (pen : pyenv) : Prop :=
    exists F, forall F', (F <= F')%nat -> forall rest, Suffix rest all ->
      scan (iter all F') rest name pen = Ok (PInt v).
  Definition concl (v : Z) (items : list pitem) (cur : string) (pen : pyenv) : Prop :=
    exists F, forall F', (F <= F')%nat -> forall r', Suffix r' all ->
      finish (iter all F') r' (run_items items cur pen) = Ok (PInt v).
  Definition block_ok (n : nat) : Prop := forall pred b e s v s' blk pen,
    exec_block c m ge n f args pred b e s = ODone (Some (Vint v), s') ->
    find_block f b = Some blk ->
    (forall ph, eval_phis m ge pred e args (b_ins blk) = ODone ph -> agree (ph ++ e) pen) ->
    reaches v (b_name blk) pen.

  Lemma jump_concl n b t e1 s1 pen1 j v s' :
    block_ok n -> agree e1 pen1 -> jump_of f b t = Some j ->
    exec_block c m ge n f args (Some b) t e1 s1 = ODone (Some (Vint v), s') ->
    exists name pen', run_jump j pen1 = Ok (name, pen') /\ reaches v name pen'.
  Proof.
    intros IHn A Hj H. destruct (exec_block_inv _ _ _ _ _ _ H) as [blk' [ph' [Hf He]]].
    destruct (jump_sim b t e1 pen1 j blk' ph' A Hj Hf He) as [pen' [Rj A']].
    exists (b_name blk'), pen'. split; [assumption|].
    eapply IHn; eauto. intros ph Eph. rewrite He in Eph. now injection Eph as <-.
  Qed.

  Lemma concl_of_jump v j name pen pen' cur :
    run_jump j pen = Ok (name, pen') -> reaches v name pen' -> concl v [PJump j] cur pen.
  Proof.
    intros Rj [F HF]. exists F. intros F' HF' r' Hs. unfold finish. cbn [run_items]. rewrite Rj. cbn [bind].
    now apply HF.
  Qed.

  Local Opaque step_simple eval_int eval_ref eval_cond exec_block.

  Lemma all_block_ok : forall n, block_ok n.
  Proof.
    induction n as [|n IHn]; intros pred b e s v s' blk pen H Hf Hag.
    { Local Transparent exec_block. cbn [exec_block] in H. discriminate. }
    cbn [exec_block] in H. rewrite Hf in H.
    destruct (eval_phis m ge pred e args (b_ins blk)) as [ph| | | |] eqn:Eph; cbn [obind] in H; try discriminate.
    specialize (Hag ph eq_refl).
    destruct (find_block_some _ _ Hf) as [Hblk Hid].
    destruct (compile_blocks_in _ _ Hall blk Hblk) as [items [Ci Iall]]. rewrite Hid in Ci.
    assert (Q : concl v items (b_name blk) pen).
    { Local Opaque exec_block.
      assert (Hin : forall i, In i (b_ins blk) -> In i (func_instrs f)) by (intros; eapply block_instrs; eauto).
      clear Eph Iall. revert Hin Ci Hag H. generalize (ph ++ e) as e1. generalize s as s1. revert items pen.
      generalize (b_ins blk) as l.
      induction l as [|i r IHl]; intros items pen1 s1 e1 Hin Ci A H; [discriminate|].
      cbn [compile_instrs] in Ci.
      destruct (is_terminator i && negb match r with [] => true | _ => false end) eqn:Tl; [discriminate|].
      destruct (compile_instr f b i) as [a|] eqn:Cia; [|discriminate].
      destruct (compile_instrs f b r) as [c0|] eqn:Cr; [|discriminate]. injection Ci as <-.
      assert (Hi : In i (func_instrs f)) by (apply Hin; now left).
      assert (Hin' : forall i0, In i0 r -> In i0 (func_instrs f)) by (intros; apply Hin; now right).
      assert (Simple : is_terminator i = false ->
                (('(e', s'0) <~ step_simple c m ge f args e1 s1 i ;;
                  (fix go (l : list instr) (e0 : IRSem.env) (s0 : st) {struct l} : outcome (option value * st) :=
                     match l with
                     | [] => OStuck
                     | i0 :: r0 =>
                         match i0 with
                         | IJump t => exec_block c m ge n f args (Some b) t e0 s0
                         | ICJump x cc y yes no =>
                             xv <~ eval_int m ge e0 args x ;; yv <~ eval_int m ge e0 args y ;;
                             exec_block c m ge n f args (Some b) (if eval_cond cc xv yv then yes else no) e0 s0
                         | IReturn a0 => v0 <~ eval_ref m ge false e0 args a0 ;; ODone (Some v0, s0)
                         | IExit => ODone (None, s0)
                         | ICallF v0 _ _ callee cargs =>
                             vs <~ omap (eval_ref m ge false e0 args) cargs ;;
                             '(rv, s'0) <~ do_call m
                                (fun g vs0 s2 => match entry_bid g with
                                                 | Some eb => exec_block c m ge n g vs0 None eb [] s2
                                                 | None => OStuck end) true callee vs s0 ;;
                             match rv with Some x => go r0 ((v0, x) :: e0) s'0 | None => OStuck end
                         | ICallP callee cargs =>
                             vs <~ omap (eval_ref m ge false e0 args) cargs ;;
                             '(_, s'0) <~ do_call m
                                (fun g vs0 s2 => match entry_bid g with
                                                 | Some eb => exec_block c m ge n g vs0 None eb [] s2
                                                 | None => OStuck end) false callee vs s0 ;;
                             go r0 e0 s'0
                         | _ => '(e', s'0) <~ step_simple c m ge f args e0 s0 i0 ;; go r0 e' s'0
                         end
                     end) r e' s'0) = ODone (Some (Vint v), s')) -> concl v (a ++ c0) (b_name blk) pen1).
      { intros Ht H'.
        destruct (step_simple c m ge f args e1 s1 i) as [[e2 s2]| | | |] eqn:St; cbn [obind] in H'; try discriminate.
        destruct (step_sim b e1 s1 i e2 s2 a pen1 Hi Ht St Cia A c0 (b_name blk)) as [pen2 [Rn A2]].
        destruct (IHl c0 pen2 s2 e2 Hin' eq_refl A2 H') as [F HF].
        exists F. intros F' HF' r' Hs. rewrite Rn. now apply HF. }
      destruct i; cbn in Cia; try discriminate; try (apply Simple; [reflexivity|exact H]).
      - (* IJump *)
        destruct r; [|discriminate]. cbn in Cr. injection Cr as <-.
        destruct (jump_of f b b0) as [j|] eqn:Hj; [|discriminate]. injection Cia as <-.
        cbn in H.
        destruct (jump_concl n b b0 e1 s1 pen1 j v s' IHn A Hj H) as [name [pen' [Rj Rc]]].
        cbn [app]. eapply concl_of_jump; eauto.
      - (* ICJump *)
        destruct r; [|discriminate]. cbn in Cr. injection Cr as <-.
        destruct (int_ref f a0) as [nx|] eqn:Rx; [|discriminate].
        destruct (int_ref f b0) as [ny|] eqn:Ry; [|discriminate].
        destruct (jump_of f b yes) as [jy|] eqn:Hjy; [|discriminate].
        destruct (jump_of f b no) as [jn|] eqn:Hjn; [|discriminate]. injection Cia as <-.
        cbn in H.
        destruct (eval_int m ge e1 args a0) as [xv| | | |] eqn:Ex; cbn [obind] in H; try discriminate.
        destruct (eval_int m ge e1 args b0) as [yv| | | |] eqn:Ey; cbn [obind] in H; try discriminate.
        destruct (int_ref_name _ _ Rx) as [tx [itx [Rnx _]]].
        destruct (int_ref_name _ _ Ry) as [ty [ity [Rny _]]].
        destruct (agree_int e1 pen1 a0 nx tx xv A Rnx Ex) as [_ [_ [_ Gx]]].
        destruct (agree_int e1 pen1 b0 ny ty yv A Rny Ey) as [_ [_ [_ Gy]]].
        rewrite eval_cond_cmp in H.
        assert (J : exists name pen', run_jump (if py_cmp (ccop c1) xv yv then jy else jn) pen1 = Ok (name, pen')
                                      /\ reaches v name pen').
        { destruct (py_cmp (ccop c1) xv yv); eapply jump_concl; eauto. }
        destruct J as [name [pen' [Rj [F HF]]]].
        exists F. intros F' HF' r' Hs. unfold finish. cbn [app run_items]. unfold get_int.
        rewrite Gx, Gy. cbn [bind as_int]. rewrite Rj. cbn [bind]. now apply HF.
      - (* IReturn *)
        destruct (int_ref f a0) as [nx|] eqn:Rx; [|discriminate]. injection Cia as <-.
        cbn in H.
        destruct (eval_ref m ge false e1 args a0) as [x| | | |] eqn:Ex; cbn [obind] in H; try discriminate.
        injection H as -> <-.
        destruct (int_ref_name _ _ Rx) as [tx [itx [Rnx _]]].
        destruct (agree_ref e1 pen1 a0 nx tx (Vint v) A Rnx Ex) as [z [it [[= <-] [_ [_ G]]]]].
        exists O. intros F' _ r' _. unfold finish. cbn [app run_items]. rewrite G. reflexivity. }
    destruct Q as [F HF]. exists (S F). intros F' HF' rest Hsuf.
    assert (Same : forall items', In (b_name blk, items') all -> items' = items).
    { intros items' I'. pose proof (NoDup_map_inj fst all Hbn _ _ I' Iall eq_refl) as E. now injection E. }
    rewrite scan_split. destruct (split_at (b_name blk) rest) as [[items' r']|] eqn:Sp.
    - destruct (split_at_some _ _ _ _ Sp) as [I' S'].
      rewrite (Same items' (Suffix_In _ _ _ Hsuf I')). apply HF; [lia|]. eapply Suffix_trans; eauto.
    - destruct F' as [|F'']; [lia|]. cbn [iter]. rewrite scan_split.
      destruct (split_at_in _ _ _ Iall) as [items' [r' Sp']]. rewrite Sp'.
      destruct (split_at_some _ _ _ _ Sp') as [I' S'].
      rewrite (Same items' I'). apply HF; [lia|assumption].
  Qed.
End Sim.

(* ------------------------------------------------------------------ from the computable side conditions *)
Lemma compile_blocks_names f : forall l bs, compile_blocks f l = Some bs -> map fst bs = map b_name l.
Proof.
  induction l as [|a r IH]; intros bs H; cbn in H; [now injection H as <-|].
  destruct (compile_instrs f (b_id a) (b_ins a)); [|discriminate].
  destruct (compile_blocks f r) as [rest|]; [|discriminate]. injection H as <-. cbn. f_equal. now apply IH.
Qed.

Lemma instr_def_in f i d : In i (func_instrs f) -> instr_def i = Some d -> In d (func_defs f).
Proof.
  intros Hi Hd. unfold func_defs, instrs_defs. apply in_flat_map. exists i. split; [assumption|].
  rewrite Hd. now left.
Qed.

Lemma find_def_in f d : NoDup (map def_id (func_defs f)) -> In d (func_defs f) -> find_def f (def_id d) = Some d.
Proof.
  intros ND Hin. unfold find_def. apply find_unique; [assumption|apply Pos.eqb_refl|].
  intros y Hy Ey. apply Pos.eqb_eq in Ey. eapply (NoDup_map_inj def_id); eauto.
Qed.

Lemma find_def_some f v d : find_def f v = Some d -> In d (func_defs f) /\ def_id d = v.
Proof. unfold find_def. intros H. apply find_some in H. destruct H as [H1 H2]. now apply Pos.eqb_eq in H2. Qed.

Lemma getv_combine (names : list string) : forall (vals : list pyval) k n v,
  NoDup names -> nth_error names k = Some n -> nth_error vals k = Some v -> getv (combine names vals) n = Ok v.
Proof.
  induction names as [|a r IH]; intros vals k n v ND Hn Hv; [destruct k; discriminate|].
  destruct vals as [|w ws]; [destruct k; discriminate|]. inversion ND as [|? ? Hni ND']; subst.
  destruct k as [|k]; cbn in Hn, Hv.
  - injection Hn as <-. injection Hv as <-. apply getv_cons_eq.
  - cbn [combine]. rewrite getv_cons_ne; [eapply IH; eauto|].
    intros ->. apply Hni. eapply nth_error_In; eauto.
Qed.

Lemma eval_phis_entry m ge e args l ph : eval_phis m ge None e args l = ODone ph -> ph = [].
Proof.
  induction l as [|i r IH]; cbn; [now intros [= <-]|]. destruct i; auto; discriminate.
Qed.

(* the result of an IR function run, for integer arguments in range, is the result of the emitted
   Python function (given enough loop iterations) *)
Theorem block_switch_simulates st c m fname f pf zs s fuel v s' :
  find_func m fname = Some f -> compile_func_s st f = Some pf -> names_okb f = true ->
  Forall2 (fun z p => exists it, ity_of (snd p) = Some it /\ in_range it z) zs (f_params f) ->
  run_function c m fname (map Vint zs) s fuel = ODone (Some (Vint v), s') ->
  exists F, forall F', (F <= F')%nat -> run_pfunc F' pf zs = Ok v.
Proof.
  intros Hf Hc Hok Hargs Hrun.
  unfold names_okb in Hok. rewrite !andb_true_iff in Hok. destruct Hok as [[N1 N2] N3].
  apply nodup_str_NoDup in N1, N3. apply nodup_pos_NoDup in N2.
  unfold func_local_names in N1.
  pose proof (NoDup_app_l _ _ N1) as Npar. pose proof (NoDup_app_r _ _ N1) as Ndn.
  unfold compile_func_s in Hc.
  destruct (f_blocks f) as [|k0 ks] eqn:Fb; [discriminate|].
  destruct (compile_blocks f (k0 :: ks)) as [all|] eqn:Ca; [|discriminate].
  destruct (params_int f); [|discriminate]. injection Hc as <-.
  rewrite <- Fb in Ca, N3.
  assert (Hbn : NoDup (map fst all)) by (rewrite (compile_blocks_names f _ _ Ca); assumption).
  assert (Hdef : forall i d, In i (func_instrs f) -> instr_def i = Some d -> find_def f (def_id d) = Some d).
  { intros i d Hi Hd. apply find_def_in; [assumption|]. eapply instr_def_in; eauto. }
  assert (Hname : forall v1 v2 d1 d2, find_def f v1 = Some d1 -> find_def f v2 = Some d2 ->
                                      def_name d1 = def_name d2 -> v1 = v2).
  { intros v1 v2 d1 d2 F1 F2 E. destruct (find_def_some _ _ _ F1) as [I1 <-].
    destruct (find_def_some _ _ _ F2) as [I2 <-]. f_equal. eapply (NoDup_map_inj def_name); eauto. }
  assert (Hpar : forall k p v0 d, nth_error (f_params f) k = Some p -> find_def f v0 = Some d ->
                                  fst p <> def_name d).
  { intros k p v0 d Hp Fd E. destruct (find_def_some _ _ _ Fd) as [I _].
    apply (NoDup_app_disj _ _ (fst p) N1).
    - apply in_map. eapply nth_error_In; eauto.
    - rewrite E. now apply in_map. }
  unfold run_function in Hrun. rewrite Hf in Hrun.
  destruct (negb (Nat.eqb (List.length (map Vint zs)) (List.length (f_params f)))) eqn:Ln; [discriminate|].
  unfold entry_bid in Hrun. rewrite Fb in Hrun.
  assert (Fk : find_block f (b_id k0) = Some k0).
  { unfold find_block. rewrite Fb. cbn. now rewrite Pos.eqb_refl. }
  set (pen0 := combine (map fst (f_params f)) (map PInt zs)).
  assert (A0 : agree f (map Vint zs) [] pen0).
  { split; [intros v0 x E; discriminate|].
    intros k x E. rewrite nth_error_map in E. destruct (nth_error zs k) as [z|] eqn:Ez; [|discriminate].
    injection E as <-.
    assert (Hk : exists p, nth_error (f_params f) k = Some p /\ exists it, ity_of (snd p) = Some it /\ in_range it z).
    { clear -Hargs Ez. revert k Ez. induction Hargs as [|z0 p0 zs0 ps0 H0 _ IH]; intros k Ez; [destruct k; discriminate|].
      destruct k; cbn in *; [injection Ez as <-; eauto|auto]. }
    destruct Hk as [p [Hp [it [Ht Hz]]]]. exists z, p, it. do 4 (split; [first [reflexivity|assumption]|]).
    unfold pen0. eapply getv_combine; eauto.
    - rewrite nth_error_map, Hp. reflexivity.
    - rewrite nth_error_map, Ez. reflexivity. }
  destruct (all_block_ok c m (layout c m) f all (map Vint zs) Ca Hdef Hname Hpar Hbn fuel None (b_id k0) [] s v s' k0 pen0 Hrun Fk)
    as [F HF].
  { intros ph Eph. apply eval_phis_entry in Eph. subst. exact A0. }
  exists (S F). intros F' HF'. unfold run_pfunc. cbn [pf_params pf_blocks pf_entry].
  rewrite map_length in Ln. rewrite map_length. rewrite Ln.
  fold pen0. destruct F' as [|F'']; [lia|].
  cbn [iter]. rewrite (HF F'' ltac:(lia) all (Suffix_refl _)). reflexivity.
Qed.

(* names_okb follows from the representation invariant Spec.IRSyntax.wf_func *)
Lemma seq_pos_ge n : forall q x, In x (seq_pos q n) -> (q <= x)%positive.
Proof. induction n as [|n IH]; intros q x; cbn; [tauto|]. intros [<-|H]; [lia|]. apply IH in H. lia. Qed.
Lemma nodup_seq_pos n : forall q, nodup_pos (seq_pos q n) = true.
Proof.
  induction n as [|n IH]; intros q; cbn; [reflexivity|]. rewrite IH, andb_true_r, negb_true_iff.
  destruct (mem_pos q (seq_pos (Pos.succ q) n)) eqn:E; [|reflexivity].
  apply mem_pos_In, seq_pos_ge in E. lia.
Qed.
Lemma wf_func_names_ok gn f : wf_func gn f = true -> names_okb f = true.
Proof.
  unfold wf_func, names_okb. rewrite !andb_true_iff.
  intros [[[[[[[[H1 H2] H3] H4] H5] H6] H7] H8] H9].
  apply dec2b_spec in H2. rewrite H2, nodup_seq_pos. auto.
Qed.

Theorem block_switch_simulates_wf st c m fname f pf zs s fuel v s' :
  wf_modul m = true -> find_func m fname = Some f -> compile_func_s st f = Some pf ->
  Forall2 (fun z p => exists it, ity_of (snd p) = Some it /\ in_range it z) zs (f_params f) ->
  run_function c m fname (map Vint zs) s fuel = ODone (Some (Vint v), s') ->
  exists F, forall F', (F <= F')%nat -> run_pfunc F' pf zs = Ok v.
Proof.
  intros Hwf Hf. unfold wf_modul in Hwf. rewrite !andb_true_iff in Hwf. destruct Hwf as [_ Hfs].
  rewrite forallb_forall in Hfs. unfold find_func in Hf. pose proof (find_some _ _ Hf) as [Hin _].
  intros Hc. eapply block_switch_simulates; eauto. eapply wf_func_names_ok. now apply Hfs.
Qed.
