(* Proofs/C07_rv.v — C07: the exported read/write flags of the riscv classes (Gen/Tab_rv_rw.v, aligned with
   C08's table_riscv) against the ISA semantics, by reflection over the table. *)
From PV Require Import Lib.Py Lib.Tac Model.Encode Spec.RV32Decode Spec.RV32Exec Model.RvRW
  Gen.Tab_isa_riscv Gen.Tab_rv_rw Proofs.C08_rv Proofs.C08_rvfull Proofs.C07_exec.
From Coq Require Import String.
Open Scope Z_scope.
Open Scope list_scope.

(* ---- the check of one class ---- *)
Definition flag_at (f : rwop -> bool) (fl : list rwop) (i : nat) : bool :=
  match nth_error fl i with Some o => rw_reg o && f o | None => false end.

Definition vsel_ok (f : rwop -> bool) (fl : list rwop) (vs : vsel) : bool :=
  match vs with
  | VOp i => flag_at f fl i
  | VConst c => c =? 0          (* x0: never changes, always reads 0 *)
  | VSext _ _ => false
  end.

Fixpoint roles_ok (roles : list role) (vsels : list vsel) (fl : list rwop) : bool :=
  match roles, vsels with
  | [], [] => true
  | ro :: roles', vs :: vsels' =>
      (match ro with
       | RoleW => vsel_ok rw_write fl vs
       | RoleR => vsel_ok rw_read fl vs
       | RoleImm => true
       end) && roles_ok roles' vsels' fl
  | _, _ => false
  end.

Definition covered_fmt (d : instr_desc) : option (fmt * list vsel) :=
  match rv_expectation d with
  | Some e => match assoc_fmt rv_formats (fst e) with Some f => Some (f, snd e) | None => None end
  | None => None
  end.

Definition class_ok (d : instr_desc) (c : rwclass) : bool :=
  String.eqb (d_class d) (fst c) &&
  match covered_fmt d with
  | Some (f, vsels) => roles_ok (fmt_roles f) vsels (snd c)
  | None => true
  end.

(* ---- generic lemmas ---- *)
Lemma flagged_nth f : forall fl ops i, flag_at f fl i = true ->
  nth i ops 0 = 0 \/ In (nth i ops 0) (flagged f fl ops).
Proof.
  induction fl as [|o fl IH]; intros ops i H.
  - unfold flag_at in H. destruct i; discriminate.
  - destruct ops as [|v ops]; [left; now destruct i|].
    destruct i as [|i]; cbn [nth flagged].
    + unfold flag_at in H. cbn in H. rewrite H. right. now left.
    + unfold flag_at in H. cbn [nth_error] in H. specialize (IH ops i H).
      destruct IH as [IH|IH]; [now left|right]. destruct (rw_reg o && f o); [now right|assumption].
Qed.

Lemma vsel_ok_val f fl vs ops : vsel_ok f fl vs = true ->
  apply_vsel ops vs = 0 \/ In (apply_vsel ops vs) (flagged f fl ops).
Proof.
  destruct vs as [i|n i|c]; cbn [vsel_ok apply_vsel]; intros H; try discriminate.
  - now apply flagged_nth.
  - left. lia.
Qed.

Lemma roles_ok_len : forall roles vsels fl, roles_ok roles vsels fl = true -> List.length vsels = List.length roles.
Proof.
  induction roles as [|ro roles IH]; intros [|vs vsels] fl H; cbn in H; try discriminate; [reflexivity|].
  apply andb_prop in H. cbn. f_equal. now apply (IH _ fl).
Qed.

Lemma roles_ok_sel ops fl : forall roles vsels, roles_ok roles vsels fl = true ->
  (forall r, In r (sel RoleW roles (map (apply_vsel ops) vsels)) -> r = 0 \/ In r (flagged rw_write fl ops)) /\
  (forall r, In r (sel RoleR roles (map (apply_vsel ops) vsels)) -> r = 0 \/ In r (flagged rw_read fl ops)).
Proof.
  induction roles as [|ro roles IH]; intros [|vs vsels] H; cbn in H; try discriminate.
  - split; intros r [].
  - apply andb_prop in H. destruct H as [H1 H2]. destruct (IH _ H2) as [IW IR].
    destruct ro; cbn [sel map role_eqb]; split; intros r Hr; auto.
    + destruct Hr as [<-|Hr]; [now apply vsel_ok_val|auto].
    + destruct Hr as [<-|Hr]; [now apply vsel_ok_val|auto].
Qed.

(* ---- the table ---- *)
Fixpoint check2 (n : nat) (bad : list nat) (l : list instr_desc) (m : list rwclass) : bool :=
  match l, m with
  | [], [] => true
  | d :: l', c :: m' => (existsb (Nat.eqb n) bad || class_ok d c) && check2 (S n) bad l' m'
  | _, _ => false
  end.

Lemma check2_spec bad : forall l m n k d c,
  check2 n bad l m = true -> nth_error l k = Some d -> nth_error m k = Some c -> ~ In (n + k)%nat bad ->
  class_ok d c = true.
Proof.
  induction l as [|d0 l IH]; intros [|c0 m] n k d c H Hd Hc Hb; try (destruct k; discriminate).
  cbn in H. apply andb_prop in H. destruct H as [H0 Hr].
  destruct k as [|k]; cbn in Hd, Hc.
  - inversion Hd; inversion Hc; subst. apply orb_prop in H0. destruct H0 as [H0|H0]; [|exact H0].
    exfalso. apply Hb. apply existsb_exists in H0. destruct H0 as (x & Hx & E).
    apply Nat.eqb_eq in E. subst x. now rewrite Nat.add_0_r.
  - eapply (IH m (S n) k); eauto. now replace (S n + k)%nat with (n + S k)%nat by lia.
Qed.

Lemma rw_table_checked : check2 0 rw_bad_riscv table_riscv rw_riscv = true.
Proof. vm_compute. reflexivity. Qed.

(* the exported failing classes do fail the check (empty list: every covered class passes) *)
Theorem rw_refuted : forall n, In n rw_bad_riscv ->
  class_ok (desc_at table_riscv n) (nth n rw_riscv (EmptyString, [])) = false.
Proof.
  assert (H : forallb (fun n => negb (class_ok (desc_at table_riscv n) (nth n rw_riscv (EmptyString, [])))) rw_bad_riscv = true)
    by (vm_compute; reflexivity).
  intros n Hn. rewrite forallb_forall in H. specialize (H n Hn). now destruct (class_ok _ _).
Qed.

Definition agree_regs (l : list Z) (s s' : state) : Prop := forall r, In r l -> getreg s r = getreg s' r.
Definition agree_mem (s s' : state) : Prop := forall a, loadbyte s a = loadbyte s' a.

(* what C07 says about one decoded instruction i of a class with declared uses U and defs D *)
Definition frame_ok (i : rvinstr) (D : list Z) : Prop :=
  forall s r, ~ In r D -> getreg (exec i s) r = getreg s r.
Definition reads_ok (i : rvinstr) (U : list Z) : Prop :=
  forall s s', agree_regs U s s' -> getpc s = getpc s' -> agree_mem s s' ->
    (forall r, getreg (exec i s) r = getreg (exec i s') r \/
               (getreg (exec i s) r = getreg s r /\ getreg (exec i s') r = getreg s' r)) /\
    getpc (exec i s) = getpc (exec i s') /\ agree_mem (exec i s) (exec i s').

Lemma getreg_0 s : getreg s 0 = 0.
Proof. reflexivity. Qed.

Lemma sets_imply i U D :
  (forall r, In r (writes i) -> r = 0 \/ In r D) ->
  (forall r, In r (reads i) -> r = 0 \/ In r U) ->
  frame_ok i D /\ reads_ok i U.
Proof.
  intros HW HR. split.
  - intros s r Hr. destruct (Z.eq_dec r 0) as [->|Hz]; [now rewrite !getreg_0|].
    apply exec_frame. intros Hin. destruct (HW r Hin); tauto.
  - intros s s' HU Hp Hm.
    assert (Hreads : forall r, In r (reads i) -> getreg s r = getreg s' r).
    { intros r Hin. destruct (HR r Hin) as [->|Hin']; [now rewrite !getreg_0|now apply HU]. }
    destruct (exec_reads i s s' Hreads Hp Hm) as (HWv & Hpc & Hmem).
    split; [|split; assumption].
    intros r. destruct (in_dec Z.eq_dec r (writes i)) as [Hin|Hout].
    + left. now apply HWv.
    + right. split; now apply exec_frame.
Qed.

(* main lemma: a covered class that passes the check, at any operand tuple where the emitted bytes decode
   (reference decoder) to what ppci prints *)
Lemma class_ok_sound d c e :
  class_ok d c = true ->
  rv_expectation d = Some e -> assoc_fmt rv_formats (fst e) <> None ->
  forall ops bytes,
  RV32Decode.decode bytes = Some (fst e, map (apply_vsel ops) (snd e)) ->
  exists i, decode_instr bytes = Some i /\
            frame_ok i (defined_registers c ops) /\ reads_ok i (used_registers c ops).
Proof.
  intros H He Hf ops bytes Hdec.
  unfold class_ok in H. apply andb_prop in H. destruct H as [_ H].
  unfold covered_fmt in H. rewrite He in H.
  destruct (assoc_fmt rv_formats (fst e)) as [f|] eqn:Ef; [|congruence].
  pose proof (roles_ok_len _ _ _ H) as Hlen.
  destruct (build_total f (map (apply_vsel ops) (snd e))) as [i Hi]; [now rewrite map_length|].
  exists i. split.
  - unfold decode_instr. rewrite Hdec. unfold of_decoded. cbn [fst snd]. now rewrite Ef.
  - destruct (build_roles _ _ _ Hi) as [HW HR]. destruct (roles_ok_sel ops (snd c) _ _ H) as [SW SR].
    apply sets_imply; intros r Hr.
    + rewrite HW in Hr. now apply SW.
    + rewrite HR in Hr. now apply SR.
Qed.

Theorem rv_rw_sound n d c e :
  nth_error table_riscv n = Some d -> nth_error rw_riscv n = Some c -> ~ In n rw_bad_riscv ->
  rv_expectation d = Some e -> assoc_fmt rv_formats (fst e) <> None ->
  forall ops bytes,
  RV32Decode.decode bytes = Some (fst e, map (apply_vsel ops) (snd e)) ->
  exists i, decode_instr bytes = Some i /\
            frame_ok i (defined_registers c ops) /\ reads_ok i (used_registers c ops).
Proof.
  intros Hd Hc Hb. apply class_ok_sound.
  exact (check2_spec _ _ _ 0%nat n d c rw_table_checked Hd Hc Hb).
Qed.

(* the traced classes C08 lists as not well-formed (an operand is not recoverable from the bytes, e.g.
   Loadlrel "lw rd, %pcrel_lo(label)(rd)" whose syntax names rd twice): same check, same theorem *)
Lemma rw_nonwf_checked : check2 0 rw_nonwf_bad_riscv nonwf_riscv rw_nonwf_riscv = true.
Proof. vm_compute. reflexivity. Qed.

Theorem rv_rw_sound_nonwf n d c e :
  nth_error nonwf_riscv n = Some d -> nth_error rw_nonwf_riscv n = Some c -> ~ In n rw_nonwf_bad_riscv ->
  rv_expectation d = Some e -> assoc_fmt rv_formats (fst e) <> None ->
  forall ops bytes,
  RV32Decode.decode bytes = Some (fst e, map (apply_vsel ops) (snd e)) ->
  exists i, decode_instr bytes = Some i /\
            frame_ok i (defined_registers c ops) /\ reads_ok i (used_registers c ops).
Proof.
  intros Hd Hc Hb. apply class_ok_sound.
  exact (check2_spec _ _ _ 0%nat n d c rw_nonwf_checked Hd Hc Hb).
Qed.

Theorem rw_nonwf_refuted : forall n, In n rw_nonwf_bad_riscv ->
  class_ok (desc_at nonwf_riscv n) (nth n rw_nonwf_riscv (EmptyString, [])) = false.
Proof.
  assert (H : forallb (fun n => negb (class_ok (desc_at nonwf_riscv n) (nth n rw_nonwf_riscv (EmptyString, []))))
                      rw_nonwf_bad_riscv = true) by (vm_compute; reflexivity).
  intros n Hn. rewrite forallb_forall in H. specialize (H n Hn). now destruct (class_ok _ _).
Qed.

(* composed with C08's bounded reference agreement: no decode hypothesis on rv_domain *)
Theorem rv_rw_sound_bounded n d c e :
  nth_error table_riscv n = Some d -> nth_error rw_riscv n = Some c -> ~ In n rw_bad_riscv ->
  ~ In n (map fst rvref_bad_riscv) ->
  rv_expectation d = Some e -> assoc_fmt rv_formats (fst e) <> None ->
  forall ops, In ops (rv_domain d) ->
  exists bytes i, encode_instr d ops = Ok bytes /\ decode_instr bytes = Some i /\
            frame_ok i (defined_registers c ops) /\ reads_ok i (used_registers c ops).
Proof.
  intros Hd Hc Hb Hb8 He Hf ops Hin.
  destruct (rv_reference_bounded n d e Hd Hb8 He ops Hin) as (_ & bytes & Henc & Hdec).
  destruct (rv_rw_sound n d c e Hd Hc Hb He Hf ops bytes Hdec) as (i & Hi & HF & HR).
  exists bytes, i. auto.
Qed.

(* composed with C08's UNBOUNDED reference agreement (Proofs/C08_rvfull.rv_reference): unconditional for every
   covered class and ALL in-range operands *)
Theorem rv_rw_sound_full n d c e :
  nth_error table_riscv n = Some d -> nth_error rw_riscv n = Some c -> ~ In n rw_bad_riscv ->
  ~ In n (map fst rvref_bad_riscv) ->
  rv_expectation d = Some e -> assoc_fmt rv_formats (fst e) <> None ->
  forall ops, in_range d ops = true ->
  exists bytes i, encode_instr d ops = Ok bytes /\ decode_instr bytes = Some i /\
            frame_ok i (defined_registers c ops) /\ reads_ok i (used_registers c ops).
Proof.
  intros Hd Hc Hb Hb8 He Hf ops Hin.
  destruct (rv_reference n d e Hd Hb8 He ops Hin) as (bytes & Henc & Hdec).
  destruct (rv_rw_sound n d c e Hd Hc Hb He Hf ops bytes Hdec) as (i & Hi & HF & HR).
  exists bytes, i. auto.
Qed.

(* memory: only the store classes change memory (for every decoded instruction) *)
Theorem rv_mem_frame i s a : is_store i = false -> loadbyte (exec i s) a = loadbyte s a.
Proof. apply exec_mem_frame. Qed.

(* ---- the call sequence of gen_call: concrete rows ---- *)
Definition subset0 (a b : list Z) : bool := forallb (fun r => (r =? 0) || existsb (Z.eqb r) b) a.

Fixpoint find_class (nm : string) (l : list instr_desc) : option instr_desc :=
  match l with
  | [] => None
  | d :: r => if String.eqb (d_class d) nm then Some d else find_class nm r
  end.

Definition callrow_instr (r : callrow) : option rvinstr :=
  match find_class (c_class r) table_riscv with
  | Some d => match encode_instr d (c_ops r) with Ok bytes => decode_instr bytes | _ => None end
  | None => None
  end.

Definition callrow_ok (r : callrow) : bool :=
  match callrow_instr r with
  | Some i => subset0 (writes i) (c_defs r ++ c_clobbers r) && subset0 (reads i) (c_uses r)
  | None => false
  end.

Lemma subset0_spec a b : subset0 a b = true -> forall r, In r a -> r = 0 \/ In r b.
Proof.
  unfold subset0. rewrite forallb_forall. intros H r Hr. specialize (H r Hr).
  apply orb_prop in H. destruct H as [H|H]; [left; lia|right].
  apply existsb_exists in H. destruct H as (x & Hx & E). apply Z.eqb_eq in E. now subst.
Qed.

Fixpoint calls_check (n : nat) (bad : list nat) (l : list callrow) : bool :=
  match l with
  | [] => true
  | r :: l' => (existsb (Nat.eqb n) bad || callrow_ok r) && calls_check (S n) bad l'
  end.

Lemma calls_check_spec bad : forall l n k r,
  calls_check n bad l = true -> nth_error l k = Some r -> ~ In (n + k)%nat bad -> callrow_ok r = true.
Proof.
  induction l as [|r0 l IH]; intros n k r H Hk Hb; [destruct k; discriminate|].
  cbn in H. apply andb_prop in H. destruct H as [H0 Hr].
  destruct k as [|k]; cbn in Hk.
  - inversion Hk; subst. apply orb_prop in H0. destruct H0 as [H0|H0]; [|exact H0].
    exfalso. apply Hb. apply existsb_exists in H0. destruct H0 as (x & Hx & E).
    apply Nat.eqb_eq in E. subst x. now rewrite Nat.add_0_r.
  - eapply (IH (S n) k); eauto. now replace (S n + k)%nat with (n + S k)%nat by lia.
Qed.

Lemma calls_checked : calls_check 0 rw_calls_bad_riscv rw_calls_riscv = true.
Proof. vm_compute. reflexivity. Qed.

(* every instruction of the exported call sequence (outside the exported failure list, empty when all pass) *)
Theorem rv_call_rows k r : nth_error rw_calls_riscv k = Some r -> ~ In k rw_calls_bad_riscv ->
  exists i, callrow_instr r = Some i /\ frame_ok i (c_defs r ++ c_clobbers r) /\ reads_ok i (c_uses r).
Proof.
  intros Hk Hb. pose proof (calls_check_spec _ _ 0%nat k r calls_checked Hk Hb) as H.
  unfold callrow_ok in H. destruct (callrow_instr r) as [i|]; [|discriminate].
  apply andb_prop in H. destruct H as [H1 H2]. exists i. split; [reflexivity|].
  apply sets_imply; now apply subset0_spec.
Qed.

(* the register file seen by the allocator is partitioned: every allocatable register is either preserved by the
   callee (callee_save, see C05 prologue/epilogue) or declared clobbered by the call instruction; the result
   register and the argument registers are among the clobbers *)
Definition call_clobbers : list Z :=
  flat_map (fun r => if String.eqb (c_class r) "Bl" then c_clobbers r else []) rw_calls_riscv.

Theorem rv_call_partition :
  forallb (fun r => existsb (Z.eqb r) rv_callee_save || existsb (Z.eqb r) call_clobbers) rv_alloc_regs = true /\
  forallb (fun r => negb (existsb (Z.eqb r) call_clobbers)) rv_callee_save = true /\
  forallb (fun r => existsb (Z.eqb r) call_clobbers) (rv_ret_reg :: rv_arg_regs) = true.
Proof. vm_compute. repeat split; reflexivity. Qed.
