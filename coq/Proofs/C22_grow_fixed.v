(* Proofs/C22_grow_fixed.v — the repaired memory.grow instruction (fixes/C22-memory-grow-unsigned.diff: the operand is
   masked to 32 bits in ModuleInstance.memory_grow) equals Spec.WasmMemSpec.mem_grow for EVERY i32 operand. *)
From PV Require Import Lib.Py Lib.Tac Spec.BitsSpec Spec.WasmNumSpec Spec.WasmMemSpec Model.WasmMem.
From PV Require Import Proofs.C22_base Proofs.C22_mem.
Open Scope Z_scope.

Lemma land_u32 n : Z.land n 4294967295 = n mod 2 ^ 32.
Proof. change 4294967295 with (Z.ones 32). now rewrite Z.land_ones by lia. Qed.

Theorem grow_spec_masked m pages n : wf m -> paged m pages -> maxp m <= 65536 -> in_s 32 n ->
  exists m', mem_grow_instr true m n = Ok (fst (mem_grow pages (Some (maxp m)) n), m') /\
    paged m' (snd (mem_grow pages (Some (maxp m)) n)) /\
    wasm_mem m' = wasm_mem m ++ repeat 0 (Z.to_nat ((snd (mem_grow pages (Some (maxp m)) n) - pages) * PAGE)) /\
    mem0 m' = mem0 m /\ maxp m' = maxp m /\ wf m'.
Proof.
  intros Hwf Hp Hmax Hn. unfold mem_grow_instr. rewrite land_u32.
  destruct (Z.lt_ge_cases n 0) as [Neg|Pos].
  - (* operand >= 2^31: always fails *)
    destruct Hn as [Hn1 _]. change (2 ^ (32 - 1)) with 2147483648 in Hn1.
    assert (E : n mod 2 ^ 32 = n + 4294967296).
    { symmetry. apply (Z.mod_unique_pos n (2 ^ 32) (-1)); change (2 ^ 32) with 4294967296; lia. }
    unfold mem_grow_py, mem_grow. rewrite (mem_size_paged m pages Hwf Hp). rewrite E.
    destruct Hp as [Hp H0].
    replace (maxp m <? pages + (n + 4294967296)) with true by lia.
    replace (pages + (n + 4294967296) <=? maxp m) with false by lia. cbn [fst snd].
    exists m. split; [reflexivity|]. replace (pages - pages) with 0 by lia. cbn [Z.mul Z.to_nat repeat].
    rewrite app_nil_r. split; [split; assumption|]. split; [reflexivity|]. split; [reflexivity|]. split; [reflexivity|exact Hwf].
  - rewrite Z.mod_small by (destruct Hn as [_ Hn2]; change (2 ^ (32 - 1)) with 2147483648 in Hn2;
                            change (2 ^ 32) with 4294967296; lia).
    now apply grow_spec.
Qed.
