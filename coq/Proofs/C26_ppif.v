(* Proofs/C26_ppif.v — #if: the precedence-climbing parser against the C grammar and the evaluator
   against intmax_t arithmetic, on bounded domains by vm_compute; witnesses of the defects. *)
From PV Require Import Lib.Py Spec.CIntSpec Spec.CPPGrammar Gen.ppif Model.PPIf Model.PPIfOrig.
From Coq Require Import String.
Open Scope Z_scope.
Open Scope string_scope.
Open Scope list_scope.

Definition unop_s (op : unop) : string :=
  match op with UNeg => "-" | UCompl => "~" | ULNot => "!" | UPlus => "+" end.
Definition binop_s (op : binop) : string :=
  match op with
  | BAdd => "+" | BSub => "-" | BMul => "*" | BDiv => "/" | BMod => "%" | BShl => "<<" | BShr => ">>"
  | BAnd => "&" | BOr => "|" | BXor => "^" | BLt => "<" | BGt => ">" | BLe => "<=" | BGe => ">="
  | BEq => "==" | BNe => "!=" | BLAnd => "&&" | BLOr => "||"
  end.

(* the tree ppci builds for a C expression: suffixes dropped, unary + leaves no node *)
Fixpoint tree_of (e : pexpr) : ptree :=
  match e with
  | PLit _ v => PTNum v
  | PUn UPlus a => tree_of a
  | PUn op a => PTUn (unop_s op) (tree_of a)
  | PBin op a b => PTBin (tree_of a) (binop_s op) (tree_of b)
  | PCond c a b => PTTern (tree_of c) (tree_of a) (tree_of b)
  end.
Definition tok_of (g : gtok) : tok := match g with GNum _ v => TNum v | GSym s => TSym s end.

Fixpoint ptree_eqb (a b : ptree) : bool :=
  match a, b with
  | PTNum x, PTNum y => Z.eqb x y
  | PTUn o x, PTUn p y => String.eqb o p && ptree_eqb x y
  | PTBin x o y, PTBin x' p y' => String.eqb o p && ptree_eqb x x' && ptree_eqb y y'
  | PTTern x y z, PTTern x' y' z' => ptree_eqb x x' && ptree_eqb y y' && ptree_eqb z z'
  | _, _ => false
  end.
Lemma ptree_eqb_eq a : forall b, ptree_eqb a b = true -> a = b.
Proof.
  induction a; destruct b; cbn; try discriminate; intros H.
  - apply Z.eqb_eq in H. now subst.
  - apply andb_prop in H as [H1 H2]. apply String.eqb_eq in H1. subst. f_equal. auto.
  - apply andb_prop in H as [H H3]. apply andb_prop in H as [H1 H2]. apply String.eqb_eq in H1. subst.
    f_equal; auto.
  - apply andb_prop in H as [H H3]. apply andb_prop in H as [H1 H2]. f_equal; auto.
Qed.

(* ---- parser ---- *)
Definition all_ops : list string :=
  ["*"; "/"; "%"; "+"; "-"; "<<"; ">>"; "<"; ">"; "<="; ">="; "=="; "!="; "&"; "^"; "|"; "&&"; "||"; "?"].

(* n0 op1 n1 op2 n2 ... ; `?` is written `? m :` ; [pre] tokens before every operand *)
Fixpoint seq_rest (pre : list gtok) (i : Z) (os : list string) : list gtok :=
  match os with
  | [] => []
  | o :: r =>
      (if String.eqb o "?" then [GSym "?"] ++ pre ++ [GNum false (100 + i); GSym ":"] else [GSym o])
      ++ pre ++ [GNum false (i + 2)] ++ seq_rest pre (i + 1) r
  end.
Definition seq_tokens (pre : list gtok) (os : list string) : list gtok :=
  pre ++ [GNum false 1] ++ seq_rest pre 0 os.

Definition parse_agrees (ts : list gtok) : bool :=
  match g_parse 100 ts, parse_line 100 (map tok_of ts) with
  | Some e, Ok t => ptree_eqb (tree_of e) t
  | _, _ => false
  end.

Definition seqs1 := map (fun a => [a]) all_ops.
Definition seqs2 := flat_map (fun a => map (fun b => [a; b]) all_ops) all_ops.
Definition seqs3 := flat_map (fun a => map (fun s => a :: s) seqs2) all_ops.
Definition seqs_upto3 := [[]] ++ seqs1 ++ seqs2 ++ seqs3.
Definition seqs_upto2 := [[]] ++ seqs1 ++ seqs2.

(* parenthesised variants for operator pairs: (n0 a n1) b n2  and  n0 a (n1 b n2) *)
Definition paren_l (a b : string) : list gtok :=
  [GSym "("; GNum false 1; GSym a; GNum false 2; GSym ")"; GSym b; GNum false 3].
Definition paren_r (a b : string) : list gtok :=
  [GNum false 1; GSym a; GSym "("; GNum false 2; GSym b; GNum false 3; GSym ")"].
Definition bin_ops := removelast all_ops.

Lemma parse_plain_bounded : forallb (fun os => parse_agrees (seq_tokens [] os)) seqs_upto3 = true.
Proof. vm_compute. reflexivity. Qed.
Lemma parse_unary_bounded :
  forallb (fun pre => forallb (fun os => parse_agrees (seq_tokens pre os)) seqs_upto2)
          [[GSym "-"]; [GSym "!"]; [GSym "~"]; [GSym "+"]; [GSym "-"; GSym "~"]] = true.
Proof. vm_compute. reflexivity. Qed.
Lemma parse_paren_bounded :
  forallb (fun a => forallb (fun b => parse_agrees (paren_l a b) && parse_agrees (paren_r a b)) bin_ops) bin_ops = true.
Proof. vm_compute. reflexivity. Qed.

(* nested conditionals (conditional-expression: logical-OR-expression ? expression : conditional-expression)
   in condition-, then- and else-position, with binary operators b1 b2 of every priority around them *)
Definition N (z : Z) := GNum false z.
Definition tern_templates (b1 b2 : string) : list (list gtok) :=
  [ (* else-chains: a ? b : c ? d : e ? f : g *)
    [N 1; GSym "?"; N 2; GSym b1; N 3; GSym ":"; N 4; GSym "?"; N 5; GSym b2; N 6; GSym ":"; N 7; GSym "?"; N 8; GSym ":"; N 9];
    (* then-nesting: a ? b ? c ? d : e : f : g *)
    [N 1; GSym "?"; N 2; GSym "?"; N 3; GSym "?"; N 4; GSym ":"; N 5; GSym b1; N 6; GSym ":"; N 7; GSym b2; N 8; GSym ":"; N 9];
    (* binary operators before the condition and after the else part, nested both ways *)
    [N 1; GSym b1; N 2; GSym "?"; N 3; GSym b2; N 4; GSym "?"; N 5; GSym ":"; N 6; GSym ":"; N 7; GSym b1; N 8; GSym "?"; N 9; GSym ":"; N 10; GSym b2; N 11];
    (* a b1 (c ? d : e) must keep its parentheses; condition position needs them too *)
    [N 1; GSym b1; GSym "("; N 2; GSym "?"; N 3; GSym ":"; N 4; GSym ")"; GSym b2; N 5; GSym "?"; N 6; GSym ":"; N 7; GSym "?"; N 8; GSym ":"; N 9];
    [GSym "("; N 1; GSym "?"; N 2; GSym ":"; N 3; GSym ")"; GSym "?"; N 4; GSym b1; N 5; GSym ":"; N 6; GSym b2; N 7; GSym "?"; N 8; GSym ":"; N 9] ].

Lemma parse_ternary_bounded :
  forallb (fun a => forallb (fun b => forallb parse_agrees (tern_templates a b)) bin_ops) bin_ops = true.
Proof. vm_compute. reflexivity. Qed.

Lemma parse_agrees_sound ts : parse_agrees ts = true ->
  exists e, g_parse 100 ts = Some e /\ parse_line 100 (map tok_of ts) = Ok (tree_of e).
Proof.
  unfold parse_agrees. destruct (g_parse 100 ts) as [e|]; [|discriminate].
  destruct (parse_line 100 (map tok_of ts)) as [t| | |]; try discriminate.
  intros H. apply ptree_eqb_eq in H. subst. now exists e.
Qed.

(* ---- evaluation ---- *)
Definition eval_agrees (e : pexpr) : bool :=
  match pp_eval e with
  | Some v => match eval_tree (tree_of e) with Ok v' => Z.eqb v v' | _ => false end
  | None => true
  end.
Lemma eval_agrees_sound e v : eval_agrees e = true -> pp_eval e = Some v -> eval_tree (tree_of e) = Ok v.
Proof.
  unfold eval_agrees. intros H E. rewrite E in H.
  destruct (eval_tree (tree_of e)); try discriminate. apply Z.eqb_eq in H. now subst.
Qed.

Definition pool : list Z := [0; 1; 2; 3; 7; -1; -7; 9223372036854775807; -9223372036854775808].
Definition pool2 : list Z := [0; 1; -7; 63; 9223372036854775807; -9223372036854775808].
Definition all_binops := [BAdd; BSub; BMul; BDiv; BMod; BShl; BShr; BAnd; BOr; BXor; BLt; BGt; BLe; BGe; BEq; BNe; BLAnd; BLOr].
Definition all_unops := [UNeg; UCompl; ULNot; UPlus].
Definition lits (p : list Z) := map (PLit false) p.
Definition bins (xs ys : list pexpr) : list pexpr :=
  flat_map (fun op => flat_map (fun a => map (fun b => PBin op a b) ys) xs) all_binops.
Definition uns (xs : list pexpr) : list pexpr := flat_map (fun op => map (PUn op) xs) all_unops.
Definition conds (cs xs ys : list pexpr) : list pexpr :=
  flat_map (fun c => flat_map (fun a => map (fun b => PCond c a b) ys) xs) cs.
Definition depth1 : list pexpr := bins (lits pool) (lits pool) ++ uns (lits pool) ++ conds (lits pool) (lits pool) (lits pool).
Definition pool3 : list Z := [1; -7; 9223372036854775807; -9223372036854775808].
Definition depth1' : list pexpr := bins (lits pool3) (lits pool3) ++ uns (lits pool3).
Definition depth2 : list pexpr :=
  bins depth1' (lits pool2) ++ bins (lits pool2) depth1' ++ uns depth1' ++
  conds (bins (lits pool3) (lits pool3)) (lits pool3) (lits pool3) ++
  conds (lits [0; 1]) (bins (lits pool3) (lits pool3)) (uns (lits pool3)).

Lemma eval_signed_depth1 : forallb eval_agrees (lits pool ++ depth1) = true.
Proof. vm_compute. reflexivity. Qed.
Lemma eval_signed_depth2 : forallb eval_agrees depth2 = true.
Proof. vm_compute. reflexivity. Qed.

(* ---- witnesses of the defects ---- *)
Definition n (z : Z) := PLit false z.
Definition u (z : Z) := PLit true z.
Definition w_div := PBin BDiv (PUn UNeg (n 7)) (n 2).
Definition w_mod := PBin BMod (PUn UNeg (n 7)) (n 2).
Definition w_lt_u := PBin BLt (PUn UNeg (n 1)) (u 0).
Definition w_sub_u := PBin BGt (PBin BSub (n 2) (u 3)) (n 0).

Lemma refuted_division :
  pp_eval w_div = Some (-3) /\ eval_tree0 (tree_of w_div) = Ok (-4) /\
  pp_eval w_mod = Some (-1) /\ eval_tree0 (tree_of w_mod) = Ok 1.
Proof. vm_compute. repeat split. Qed.
Lemma refuted_unsigned :
  pp_eval w_lt_u = Some 0 /\ eval_tree (tree_of w_lt_u) = Ok 1 /\
  pp_eval w_sub_u = Some 1 /\ eval_tree (tree_of w_sub_u) = Ok 0.
Proof. vm_compute. repeat split. Qed.
Lemma fixed_division :
  eval_tree (tree_of w_div) = Ok (-3) /\ eval_tree (tree_of w_mod) = Ok (-1).
Proof. vm_compute. repeat split. Qed.
