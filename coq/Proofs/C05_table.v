(* Proofs/C05_table.v — C05: facts about the regenerated rule table Gen/Tab_rv_patterns.v. *)
From PV Require Import Lib.Py Spec.RV32Decode Spec.RV32Exec Model.RvRules Gen.Tab_rv_patterns Proofs.C05_rules Gen.Tab_rv_bad Proofs.C05_mem Proofs.C05_ext Proofs.C05_ext2.
From Coq Require Import String.
Open Scope Z_scope.
Open Scope list_scope.

Definition dummy_rule : rule := mkRule EmptyString EmptyString (TNT EmptyString) EmptyString CTrue [] [].
Definition rule_at (n : nat) : rule := nth n rv_rules dummy_rule.

(* rules proved sound / rules in the scope of tree_sem that fail the check *)
Definition covered_rules : list string := map r_text (filter check_rule rv_rules).
Definition in_scope (r : rule) : bool := match tree_sem (r_tree r) with Some _ => true | None => false end.
Definition failing_rules : list string := map r_text (filter (fun r => in_scope r && negb (check_rule r)) rv_rules).

(* every exported counterexample is a real one *)
Theorem rules_refuted : forall w, In w rv_rules_bad ->
  witness_ok (rule_at (fst (fst w))) (snd (fst w)) (snd w) = true /\ check_rule (rule_at (fst (fst w))) = false.
Proof.
  assert (H : forallb (fun w => witness_ok (rule_at (fst (fst w))) (snd (fst w)) (snd w) &&
                                negb (check_rule (rule_at (fst (fst w))))) rv_rules_bad = true)
    by (vm_compute; reflexivity).
  intros w Hw. rewrite forallb_forall in H. specialize (H w Hw). apply andb_prop in H. destruct H as [H1 H2].
  split; [exact H1|]. now destruct (check_rule _).
Qed.

(* every in-scope rule is either proved sound, refuted by an exported counterexample, or listed as undecided
   (no counterexample found by the search; empty on the current source) *)
Theorem rules_decided :
  forallb (fun n => let r := rule_at n in
                    negb (in_scope r) || check_rule r || check_subword_bin r ||
                    existsb (fun w => Nat.eqb (fst (fst w)) n) rv_rules_bad ||
                    existsb (Nat.eqb n) rv_rules_undecided)
          (seq 0 (List.length rv_rules)) = true.
Proof. vm_compute. reflexivity. Qed.

(* ------------------------------------------------------------------ memory / move / control rules (C05_mem.v) *)
From PV Require Import Proofs.C05_mem Proofs.C05_ext Proofs.C05_ext2.

Definition covered_rules2 : list string := map r_text (filter check_rule2 rv_rules).

Theorem cj_refuted : forall w, In w rv_cj_bad ->
  cj_witness_ok (rule_at (fst (fst w))) (snd (fst w)) (snd w) = true /\ check_rule2 (rule_at (fst (fst w))) = false.
Proof.
  assert (H : forallb (fun w => cj_witness_ok (rule_at (fst (fst w))) (snd (fst w)) (snd w) &&
                                negb (check_rule2 (rule_at (fst (fst w))))) rv_cj_bad = true)
    by (vm_compute; reflexivity).
  intros w Hw. rewrite forallb_forall in H. specialize (H w Hw). apply andb_prop in H. destruct H as [H1 H2].
  split; [exact H1|]. now destruct (check_rule2 _).
Qed.

Theorem rules2_decided :
  forallb (fun n => let r := rule_at n in
                    negb (in_scope2 r) || check_rule2 r || check_cjmp_ext r ||
                    existsb (fun w => Nat.eqb (fst (fst w)) n) rv_cj_bad ||
                    existsb (Nat.eqb n) rv_rules2_undecided)
          (seq 0 (List.length rv_rules)) = true.
Proof. vm_compute. reflexivity. Qed.

(* sub-word conditional jumps with operand extension, casts, neg/inv, REG (C05_ext.v) *)
Definition check_rule3 (r : rule) : bool := check_cjmp_ext r || check_unary r.
Definition covered_rules3 : list string := map r_text (filter check_rule3 rv_rules).
Definition proved_total : nat :=
  List.length (filter (fun r => check_rule r || check_rule2 r || check_rule3 r) rv_rules).

(* wave 4: multi-instruction sub-word rows and address rows (C05_ext2.v) *)
Definition covered_rules4 : list string := map r_text (filter check_rule4 rv_rules).
Definition proved_total4 : nat :=
  List.length (filter (fun r => check_rule r || check_rule2 r || check_rule3 r || check_rule4 r) rv_rules).
